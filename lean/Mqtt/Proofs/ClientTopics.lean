/-
Client role: the client-side topic trie (callback ids as subscribers) against
the abstract subscription store of the C06 development.  Helper lemmas only.
-/
import Mqtt.Proofs.Client
import Mqtt.Proofs.TopicsHistory

set_option linter.unusedSimpArgs false

namespace Mqtt.Proofs.Client
open Mqtt.Iface.Broker (Pub Packet Bytes)
open Mqtt.Iface.Client
open Mqtt.Iface.Topics (Op)
open Mqtt.Model.Client
open Mqtt.Model.Topics (MemTopics)
open Mqtt.Generated
open Mqtt.Proofs.Topics (Inv good specSubs specAnswer step_inv subscribers_refines)
open Mqtt.Spec.Match (split validFilter validName topicMatches dollar)
open Mqtt.Spec.TopicStore (Sub)
open Mqtt.Driver.Topics (modelStep)

/-- bridge: the maximum QoS the client's `Subscribe` wrapper passes to the topic store is the protocol's -/
theorem facts_maxQos : maxQosAllowed = 2 := rfl

/-- (callback, filter) pairs are unique in the abstract store -/
def KeysNodup (store : List Sub) : Prop := (store.map (fun e => (e.sub, e.filter))).Nodup

/-- the trie holds exactly the abstract store `store` -/
structure TI (mt : MemTopics) (store : List Sub) : Prop where
  inv : Inv mt.sroot store
  nodup : KeysNodup store

theorem ti_new : TI MemTopics.new [] :=
  ⟨⟨Mqtt.Proofs.Topics.WF_empty, by simp [MemTopics.new, Mqtt.Proofs.Topics.abs_empty, Mqtt.Proofs.Topics.absS],
    by simp⟩, by simp [KeysNodup]⟩

theorem keysNodup_filter (store : List Sub) (p : Sub → Bool) (h : KeysNodup store) : KeysNodup (store.filter p) := by
  unfold KeysNodup at *
  exact h.sublist ((List.filter_sublist).map _)

theorem keysNodup_specSubs (store : List Sub) (op : Op) (h : KeysNodup store) : KeysNodup (specSubs store op) := by
  cases op with
  | sub f q sub =>
    simp only [specSubs]
    split
    · exact h
    · split
      · exact h
      · split
        · exact h
        · have h1 := keysNodup_filter store (fun e => !(e.sub == sub && e.filter == f)) h
          unfold KeysNodup at *
          rw [List.map_append, List.nodup_append]
          refine ⟨h1, by simp, ?_⟩
          intro a ha b hb
          simp only [List.map_cons, List.map_nil, List.mem_singleton] at hb
          subst hb
          simp only [List.mem_map, List.mem_filter] at ha
          obtain ⟨e, ⟨_, he⟩, rfl⟩ := ha
          intro heq
          simp only [Prod.mk.injEq] at heq
          simp [heq.1, heq.2] at he
  | unsub f sub =>
    simp only [specSubs]
    split
    · exact h
    · exact keysNodup_filter _ _ h
  | unsubAll f => exact keysNodup_filter _ _ h
  | subs t q => exact h
  | retain t q p => exact h
  | retained f => exact h

theorem subscribe_eq_modelStep (mt : MemTopics) (f : List UInt8) (q s : Nat) :
    (mt.subscribe 2 f q s).1 = (modelStep mt (.sub f q s)).1 := by
  simp only [modelStep]
  split <;> simp_all

theorem unsubscribeAll_eq_modelStep (mt : MemTopics) (f : List UInt8) :
    (mt.unsubscribe f none).1 = (modelStep mt (.unsubAll f)).1 := by
  simp [modelStep]

theorem ti_subscribe (mt : MemTopics) (store : List Sub) (f : List UInt8) (q s : Nat) (hg : good f = true)
    (h : TI mt store) : TI (mt.subscribe maxQosAllowed f q s).1 (specSubs store (.sub f q s)) := by
  rw [facts_maxQos, subscribe_eq_modelStep]
  exact ⟨step_inv mt store (.sub f q s) hg h.inv, keysNodup_specSubs _ _ h.nodup⟩

theorem ti_unsubscribeAll (mt : MemTopics) (store : List Sub) (f : List UInt8) (hg : good f = true)
    (h : TI mt store) : TI (mt.unsubscribe f none).1 (specSubs store (.unsubAll f)) := by
  rw [unsubscribeAll_eq_modelStep]
  exact ⟨step_inv mt store (.unsubAll f) hg h.inv, keysNodup_specSubs _ _ h.nodup⟩

/-! ### the Subscribe and Unsubscribe completion wrappers -/

/-- the abstract store after the wrapper of a completed Subscribe has installed callback `cb` -/
def grantStore (cb : Nat) (store : List Sub) : List ((Bytes × Nat) × Nat) → List Sub
  | [] => store
  | tc :: rest => grantStore cb (if tc.2 == 0x80 then store else specSubs store (.sub tc.1.1 tc.2 cb)) rest

/-- the abstract store after the wrapper of a completed Unsubscribe -/
def dropStore (store : List Sub) : List (Bytes × Nat) → List Sub
  | [] => store
  | t :: rest => dropStore (specSubs store (.unsubAll t.1)) rest

def subFold (cb : Nat) (acc : MemTopics × Bool) (tc : (Bytes × Nat) × Nat) : MemTopics × Bool :=
  if tc.2 == 0x80 then (acc.1, true)
  else match acc.1.subscribe maxQosAllowed tc.1.1 tc.2 cb with
    | (ts, some _) => (ts, acc.2)
    | (ts, none) => (ts, true)

theorem subFold_fst (cb : Nat) (acc : MemTopics × Bool) (tc : (Bytes × Nat) × Nat) :
    (subFold cb acc tc).1 = if tc.2 == 0x80 then acc.1 else (acc.1.subscribe maxQosAllowed tc.1.1 tc.2 cb).1 := by
  unfold subFold
  split
  · rfl
  · split <;> simp_all

theorem subscribeDone_topics (c : C) (r : Req) :
    (subscribeDone c r).1.topics =
      if r.topics.length != r.codes.length then c.topics
      else ((r.topics.zip r.codes).foldl (subFold r.cb) (c.topics, false)).1 := by
  unfold subscribeDone
  split
  · rfl
  · rfl

theorem ti_subFold (cb : Nat) (tcs : List ((Bytes × Nat) × Nat)) (hg : ∀ tc ∈ tcs, good tc.1.1 = true) :
    ∀ (acc : MemTopics × Bool) (store : List Sub), TI acc.1 store →
      TI (tcs.foldl (subFold cb) acc).1 (grantStore cb store tcs) := by
  induction tcs with
  | nil => intro acc store h; exact h
  | cons tc tcs ih =>
    intro acc store h
    simp only [List.foldl_cons, grantStore]
    apply ih (fun x hx => hg x (by simp [hx]))
    rw [subFold_fst]
    split
    · exact h
    · exact ti_subscribe _ _ _ _ _ (hg tc (by simp)) h

theorem mem_zip_fst {α β} (l : List α) (m : List β) (x : α × β) (h : x ∈ l.zip m) : x.1 ∈ l :=
  (List.of_mem_zip h).1

/-- the Subscribe wrapper keeps the trie in step with the abstract store -/
theorem ti_subscribeDone (c : C) (r : Req) (store : List Sub) (hg : ∀ t ∈ r.topics, good t.1 = true)
    (h : TI c.topics store) :
    TI (subscribeDone c r).1.topics
      (if r.topics.length != r.codes.length then store else grantStore r.cb store (r.topics.zip r.codes)) := by
  rw [subscribeDone_topics]
  split
  · exact h
  · exact ti_subFold r.cb _ (fun tc htc => hg tc.1 (mem_zip_fst _ _ _ htc)) (c.topics, false) store h

def unsubFold (acc : MemTopics × Bool) (t : Bytes × Nat) : MemTopics × Bool :=
  ((acc.1.unsubscribe t.1 none).1, acc.2 || !(acc.1.unsubscribe t.1 none).2)

theorem unsubscribeDone_topics (c : C) (r : Req) :
    (unsubscribeDone c r).1.topics = (r.topics.foldl unsubFold (c.topics, false)).1 := rfl

theorem ti_unsubFold (ts : List (Bytes × Nat)) (hg : ∀ t ∈ ts, good t.1 = true) :
    ∀ (acc : MemTopics × Bool) (store : List Sub), TI acc.1 store →
      TI (ts.foldl unsubFold acc).1 (dropStore store ts) := by
  induction ts with
  | nil => intro acc store h; exact h
  | cons t ts ih =>
    intro acc store h
    simp only [List.foldl_cons, dropStore]
    apply ih (fun x hx => hg x (by simp [hx]))
    exact ti_unsubscribeAll _ _ _ (hg t (by simp)) h

theorem ti_unsubscribeDone (c : C) (r : Req) (store : List Sub) (hg : ∀ t ∈ r.topics, good t.1 = true)
    (h : TI c.topics store) : TI (unsubscribeDone c r).1.topics (dropStore store r.topics) := by
  rw [unsubscribeDone_topics]
  exact ti_unsubFold r.topics hg (c.topics, false) store h

/-! ### dispatch -/

/-- what `onPublish` hands to the callbacks: of the (callback, filter) entries of the abstract store
whose filter matches the topic (`r`, in trie order), the first entry of every callback -/
theorem onPublish_perm (c : C) (store : List Sub) (h : TI c.topics store) (p : Pub) (hg : good p.topic = true)
    (hn : validName p.topic = true) (hq : p.qos ≤ 2) :
    ∃ r : List (Nat × Nat), onPublish c p = (firstPerCb [] r).map (fun s => Out.deliver s.1 { p with qos := s.2 }) ∧
      r.Perm (specAnswer store p.topic p.qos) := by
  obtain ⟨r, hr, hp⟩ := subscribers_refines c.topics store p.topic p.qos h.inv hg hn hq
  exact ⟨r, by simp [onPublish, hr], hp⟩

/-! #### `firstPerCb`: one entry per callback -/

/-- the QoS the loop picks is that of one of the callback's entries -/
theorem maxQos_mem (cb : Nat) (rest : List (Nat × Nat)) : ∀ q : Nat,
    maxQos cb q rest = q ∨ (cb, maxQos cb q rest) ∈ rest := by
  induction rest with
  | nil => intro q; exact Or.inl rfl
  | cons x rest ih =>
    intro q
    simp only [maxQos]
    by_cases hx : (x.1 == cb && x.2 > q) = true
    · simp only [hx, ↓reduceIte]
      have hx1 : x.1 = cb := by
        simp only [Bool.and_eq_true, beq_iff_eq] at hx; exact hx.1
      rcases ih x.2 with h | h
      · right; rw [h, ← hx1]; exact List.mem_cons_self
      · right; exact List.mem_cons_of_mem _ h
    · simp only [hx, Bool.false_eq_true, ↓reduceIte]
      rcases ih q with h | h
      · exact Or.inl h
      · exact Or.inr (List.mem_cons_of_mem _ h)

/-- … and it is at least the QoS of every one of them -/
theorem maxQos_ge (cb : Nat) (rest : List (Nat × Nat)) : ∀ q : Nat,
    q ≤ maxQos cb q rest ∧ ∀ x ∈ rest, x.1 = cb → x.2 ≤ maxQos cb q rest := by
  induction rest with
  | nil => intro q; exact ⟨Nat.le_refl _, fun x hx => by cases hx⟩
  | cons y rest ih =>
    intro q
    simp only [maxQos]
    by_cases hy : (y.1 == cb && y.2 > q) = true
    · simp only [hy, ↓reduceIte]
      have hy2 : y.2 > q := by
        simp only [Bool.and_eq_true, decide_eq_true_eq] at hy; exact hy.2
      obtain ⟨h1, h2⟩ := ih y.2
      refine ⟨by omega, ?_⟩
      intro x hx hcb
      rcases List.mem_cons.mp hx with rfl | hx'
      · exact h1
      · exact h2 x hx' hcb
    · simp only [hy, Bool.false_eq_true, ↓reduceIte]
      obtain ⟨h1, h2⟩ := ih q
      refine ⟨h1, ?_⟩
      intro x hx hcb
      rcases List.mem_cons.mp hx with rfl | hx'
      · have : ¬ x.2 > q := by
          intro hgt
          apply hy
          simp [hcb, hgt]
        omega
      · exact h2 x hx' hcb

theorem firstPerCb_subset (l : List (Nat × Nat)) : ∀ seen, ∀ s ∈ firstPerCb seen l, s ∈ l := by
  induction l with
  | nil => intro seen s hs; simp [firstPerCb] at hs
  | cons a l ih =>
    intro seen s hs
    simp only [firstPerCb] at hs
    split at hs
    · exact List.mem_cons_of_mem _ (ih seen s hs)
    · rcases List.mem_cons.mp hs with rfl | hs'
      · rcases maxQos_mem a.1 l a.2 with h | h
        · rw [h]; exact List.mem_cons_self
        · exact List.mem_cons_of_mem _ h
      · exact List.mem_cons_of_mem _ (ih _ s hs')

/-- a callback is invoked iff it has an entry and was not seen before -/
theorem mem_firstPerCb_cb (l : List (Nat × Nat)) : ∀ (seen : List Nat) (cb : Nat),
    cb ∈ (firstPerCb seen l).map (·.1) ↔ cb ∈ l.map (·.1) ∧ cb ∉ seen := by
  induction l with
  | nil => intro seen cb; simp [firstPerCb]
  | cons a l ih =>
    intro seen cb
    simp only [firstPerCb]
    by_cases hs : seen.contains a.1 = true
    · have ha : a.1 ∈ seen := List.contains_iff_mem.mp hs
      simp only [hs, ↓reduceIte, ih, List.map_cons, List.mem_cons]
      constructor
      · rintro ⟨h1, h2⟩; exact ⟨Or.inr h1, h2⟩
      · rintro ⟨h1 | h1, h2⟩
        · subst h1; exact absurd ha h2
        · exact ⟨h1, h2⟩
    · have ha : a.1 ∉ seen := fun h => hs (List.contains_iff_mem.mpr h)
      simp only [hs, Bool.false_eq_true, ↓reduceIte, List.map_cons, List.mem_cons, ih]
      constructor
      · rintro (h | ⟨h1, h2⟩)
        · subst h; exact ⟨Or.inl rfl, ha⟩
        · exact ⟨Or.inr h1, fun h => h2 (Or.inr h)⟩
      · rintro ⟨h1 | h1, h2⟩
        · exact Or.inl h1
        · by_cases hc : cb = a.1
          · exact Or.inl hc
          · exact Or.inr ⟨h1, fun h => by rcases h with h | h; exact hc h; exact h2 h⟩

/-- no callback is invoked twice -/
theorem firstPerCb_nodup (l : List (Nat × Nat)) : ∀ seen : List Nat, ((firstPerCb seen l).map (·.1)).Nodup := by
  induction l with
  | nil => intro seen; simp [firstPerCb]
  | cons a l ih =>
    intro seen
    simp only [firstPerCb]
    split
    · exact ih seen
    · rw [List.map_cons, List.nodup_cons]
      refine ⟨?_, ih _⟩
      rw [mem_firstPerCb_cb]
      rintro ⟨_, h⟩
      exact h (by simp)

/-- the QoS an invoked callback gets is the highest among its entries - whatever their order -/
theorem firstPerCb_max (l : List (Nat × Nat)) : ∀ (seen : List Nat) (s : Nat × Nat), s ∈ firstPerCb seen l →
    ∀ x ∈ l, x.1 = s.1 → x.2 ≤ s.2 := by
  induction l with
  | nil => intro seen s hs; simp [firstPerCb] at hs
  | cons a l ih =>
    intro seen s hs x hx hcb
    simp only [firstPerCb] at hs
    by_cases hsn : seen.contains a.1 = true
    · simp only [hsn, ↓reduceIte] at hs
      rcases List.mem_cons.mp hx with rfl | hx'
      · -- `s`'s callback is not in `seen`, `x`'s is: they differ
        have h1 : s.1 ∈ (firstPerCb seen l).map (·.1) := List.mem_map.mpr ⟨s, hs, rfl⟩
        rw [mem_firstPerCb_cb] at h1
        exact absurd (hcb ▸ List.contains_iff_mem.mp hsn) h1.2
      · exact ih seen s hs x hx' hcb
    · simp only [hsn, Bool.false_eq_true, ↓reduceIte] at hs
      rcases List.mem_cons.mp hs with rfl | hs'
      · obtain ⟨h1, h2⟩ := maxQos_ge a.1 l a.2
        rcases List.mem_cons.mp hx with rfl | hx'
        · exact h1
        · exact h2 x hx' hcb
      · rcases List.mem_cons.mp hx with rfl | hx'
        · have h1 : s.1 ∈ (firstPerCb (x.1 :: seen) l).map (·.1) := List.mem_map.mpr ⟨s, hs', rfl⟩
          rw [mem_firstPerCb_cb] at h1
          exact absurd (by rw [hcb]; exact List.mem_cons_self) h1.2
        · exact ih _ s hs' x hx' hcb

theorem length_filter_nodup_key (l : List (Nat × Nat)) (cb : Nat) (hn : (l.map (·.1)).Nodup) :
    (l.filter (fun s => s.1 == cb)).length = if cb ∈ l.map (·.1) then 1 else 0 := by
  induction l with
  | nil => rfl
  | cons a l ih =>
    rw [List.map_cons, List.nodup_cons] at hn
    have ih' := ih hn.2
    simp only [List.filter_cons, List.map_cons, List.mem_cons]
    by_cases ha : a.1 = cb
    · have hnot : cb ∉ l.map (·.1) := ha ▸ hn.1
      simp only [hnot, ↓reduceIte] at ih'
      simp [ha, ih']
    · have ha' : ¬ cb = a.1 := fun h => ha h.symm
      have hor : (cb = a.1 ∨ cb ∈ l.map (·.1)) ↔ cb ∈ l.map (·.1) := ⟨fun h => h.resolve_left ha', Or.inr⟩
      simp only [ha, beq_iff_eq, Bool.false_eq_true, ↓reduceIte, ih']
      by_cases hm : cb ∈ l.map (·.1)
      · rw [if_pos hm, if_pos (Or.inr hm)]
      · rw [if_neg hm, if_neg (fun h => hm (hor.mp h))]

/-- the messages handed to callback `cb` in a list of outputs -/
def deliveriesTo (cb : Nat) : List Out → List Pub
  | [] => []
  | .deliver cb' p :: rest => if cb' = cb then p :: deliveriesTo cb rest else deliveriesTo cb rest
  | _ :: rest => deliveriesTo cb rest

theorem deliveriesTo_map (cb : Nat) (p : Pub) (r : List (Nat × Nat)) :
    deliveriesTo cb (r.map (fun s => Out.deliver s.1 { p with qos := s.2 })) =
      (r.filter (fun s => s.1 == cb)).map (fun s => { p with qos := s.2 }) := by
  induction r with
  | nil => rfl
  | cons s r ih =>
    simp only [List.map_cons, deliveriesTo, List.filter_cons, ih]
    by_cases h : s.1 = cb <;> simp [h]

/-- the filters under which callback `cb` is held -/
def heldBy (cb : Nat) (store : List Sub) : List Bytes := (store.filter (fun e => e.sub == cb)).map (·.filter)

/-- does the SUBACK grant the filter of this (filter, requested QoS, return code) triple? -/
def isGranted (tc : (Bytes × Nat) × Nat) : Bool := tc.2 != 0x80 && decide (tc.2 ≤ 2) && validFilter tc.1.1

/-- the filters of a Subscribe request that its SUBACK grants -/
def grantedOf (tcs : List ((Bytes × Nat) × Nat)) : List Bytes := (tcs.filter isGranted).map (·.1.1)

theorem mem_heldBy (cb : Nat) (store : List Sub) (f : Bytes) :
    f ∈ heldBy cb store ↔ ∃ e ∈ store, e.sub = cb ∧ e.filter = f := by
  simp [heldBy, List.mem_map, List.mem_filter, and_assoc]

theorem heldBy_sub (cb : Nat) (store : List Sub) (g : Bytes) (q : Nat) (hd : dollar g = false) (f : Bytes) :
    f ∈ heldBy cb (specSubs store (.sub g q cb)) ↔
      f ∈ heldBy cb store ∨ (f = g ∧ q ≤ 2 ∧ validFilter g = true) := by
  simp only [specSubs, hd, Bool.false_eq_true, ↓reduceIte]
  by_cases hq : q > 2
  · simp only [hq, ↓reduceIte]
    constructor
    · exact Or.inl
    · rintro (h | ⟨_, h, _⟩)
      · exact h
      · omega
  · simp only [hq, ↓reduceIte]
    cases hv : validFilter g with
    | false => simp
    | true =>
      simp only [Bool.not_true, Bool.false_eq_true, ↓reduceIte, mem_heldBy, List.mem_append, List.mem_filter,
        List.mem_singleton]
      constructor
      · rintro ⟨e, he | he, hs, hf⟩
        · exact Or.inl ⟨e, he.1, hs, hf⟩
        · subst he; exact Or.inr ⟨hf.symm, by omega, trivial⟩
      · rintro (⟨e, he, hs, hf⟩ | ⟨hfg, _, _⟩)
        · by_cases hfg : f = g
          · exact ⟨⟨cb, g, min q Mqtt.Spec.TopicStore.maxQos⟩, Or.inr rfl, rfl, hfg.symm⟩
          · refine ⟨e, Or.inl ⟨he, ?_⟩, hs, hf⟩
            have : e.filter ≠ g := by rw [hf]; exact hfg
            simp [this]
        · exact ⟨⟨cb, g, min q Mqtt.Spec.TopicStore.maxQos⟩, Or.inr rfl, rfl, hfg.symm⟩

theorem heldBy_grantStore (cb : Nat) (tcs : List ((Bytes × Nat) × Nat)) (hg : ∀ tc ∈ tcs, good tc.1.1 = true)
    (f : Bytes) : ∀ store : List Sub,
      f ∈ heldBy cb (grantStore cb store tcs) ↔ f ∈ heldBy cb store ∨ f ∈ grantedOf tcs := by
  induction tcs with
  | nil => intro store; simp [grantStore, grantedOf]
  | cons tc tcs ih =>
    intro store
    have hd : dollar tc.1.1 = false := Mqtt.Proofs.Topics.good_not_dollar _ (hg tc (by simp))
    rw [grantStore, ih (fun x hx => hg x (by simp [hx]))]
    have hmem : f ∈ grantedOf (tc :: tcs) ↔ (isGranted tc = true ∧ f = tc.1.1) ∨ f ∈ grantedOf tcs := by
      simp only [grantedOf, List.filter_cons]
      by_cases h : isGranted tc = true
      · simp only [h, ↓reduceIte, List.map_cons, List.mem_cons, true_and]
      · simp [h]
    rw [hmem]
    by_cases h80 : tc.2 = 128
    · have hb : (tc.2 == 0x80) = true := by simp [h80]
      have : isGranted tc = false := by simp [isGranted, h80]
      simp only [hb, ↓reduceIte, this, Bool.false_eq_true, false_and, false_or]
    · have h80' : (tc.2 == 0x80) = false := by simpa using h80
      simp only [h80', Bool.false_eq_true, ↓reduceIte, heldBy_sub cb store tc.1.1 tc.2 hd f]
      have : (isGranted tc = true ∧ f = tc.1.1) ↔ (f = tc.1.1 ∧ tc.2 ≤ 2 ∧ validFilter tc.1.1 = true) := by
        simp only [isGranted, bne, h80', Bool.not_false, Bool.true_and, Bool.and_eq_true, decide_eq_true_eq]
        constructor
        · rintro ⟨⟨a, b⟩, c⟩; exact ⟨c, a, b⟩
        · rintro ⟨c, a, b⟩; exact ⟨⟨a, b⟩, c⟩
      rw [this]
      constructor
      · rintro ((h | h) | h)
        · exact Or.inl h
        · exact Or.inr (Or.inl h)
        · exact Or.inr (Or.inr h)
      · rintro (h | h | h)
        · exact Or.inl (Or.inl h)
        · exact Or.inl (Or.inr h)
        · exact Or.inr h

/-- how often `onPublish` invokes callback `cb`: exactly once if a filter held for `cb` matches the
topic - however many of them do -, not at all otherwise -/
theorem deliveries_count (c : C) (store : List Sub) (h : TI c.topics store) (p : Pub) (hg : good p.topic = true)
    (hn : validName p.topic = true) (hq : p.qos ≤ 2) (cb : Nat) :
    (deliveriesTo cb (onPublish c p)).length =
      (if (heldBy cb store).any (fun f => topicMatches f p.topic) then 1 else 0) ∧
    ∀ m ∈ deliveriesTo cb (onPublish c p), m.topic = p.topic ∧ m.payload = p.payload ∧ m.qos ≤ p.qos := by
  obtain ⟨r, hr, hp⟩ := onPublish_perm c store h p hg hn hq
  rw [hr, deliveriesTo_map]
  refine ⟨?_, ?_⟩
  · rw [List.length_map, length_filter_nodup_key _ cb (firstPerCb_nodup r [])]
    have hiff : cb ∈ (firstPerCb [] r).map (·.1) ↔
        (heldBy cb store).any (fun f => topicMatches f p.topic) = true := by
      rw [mem_firstPerCb_cb]
      simp only [List.not_mem_nil, not_false_eq_true, and_true, List.mem_map, List.any_eq_true, mem_heldBy]
      constructor
      · rintro ⟨s, hs, rfl⟩
        have := hp.subset hs
        simp only [specAnswer, List.mem_map, List.mem_filter] at this
        obtain ⟨e, ⟨he, hm⟩, rfl⟩ := this
        exact ⟨e.filter, ⟨e, he, rfl, rfl⟩, hm⟩
      · rintro ⟨f, ⟨e, he, rfl, rfl⟩, hm⟩
        have : (e.sub, min p.qos e.qos) ∈ specAnswer store p.topic p.qos := by
          simp only [specAnswer, List.mem_map, List.mem_filter]
          exact ⟨e, ⟨he, hm⟩, rfl⟩
        exact ⟨_, hp.symm.subset this, rfl⟩
    by_cases hc : cb ∈ (firstPerCb [] r).map (·.1)
    · simp [hc, hiff.mp hc]
    · have : ¬ (heldBy cb store).any (fun f => topicMatches f p.topic) = true := fun h' => hc (hiff.mpr h')
      simp [hc, this]
  · intro m hm
    simp only [List.mem_map, List.mem_filter] at hm
    obtain ⟨s, ⟨hs, _⟩, rfl⟩ := hm
    refine ⟨rfl, rfl, ?_⟩
    have := hp.subset (firstPerCb_subset r [] s hs)
    simp only [specAnswer, List.mem_map] at this
    obtain ⟨e, _, rfl⟩ := this
    exact Nat.min_le_left _ _

/-- which QoS the single invocation carries: the highest `min (message QoS) (granted QoS)` over the
entries of `cb` whose filter matches - independent of the order the trie walk (a Go map iteration)
produces them in -/
theorem deliveries_qos_max (c : C) (store : List Sub) (h : TI c.topics store) (p : Pub) (hg : good p.topic = true)
    (hn : validName p.topic = true) (hq : p.qos ≤ 2) (cb : Nat) :
    ∀ m ∈ deliveriesTo cb (onPublish c p), ∀ e ∈ store, e.sub = cb → topicMatches e.filter p.topic = true →
      min p.qos e.qos ≤ m.qos := by
  obtain ⟨r, hr, hp⟩ := onPublish_perm c store h p hg hn hq
  rw [hr, deliveriesTo_map]
  intro m hm e he hs hmatch
  simp only [List.mem_map, List.mem_filter, beq_iff_eq] at hm
  obtain ⟨s, ⟨hsm, hscb⟩, rfl⟩ := hm
  have hx : (e.sub, min p.qos e.qos) ∈ r := by
    apply hp.symm.subset
    simp only [specAnswer, List.mem_map, List.mem_filter]
    exact ⟨e, ⟨he, hmatch⟩, rfl⟩
  exact firstPerCb_max r [] s hsm _ hx (by rw [hs, hscb])

/-! ### the SUBACK / UNSUBACK of the oldest request -/

theorem ack_head (r : Req) (rest : Queue) (t : Nat) (codes : List Nat) (hid : ∀ e ∈ rest, e.id ≠ r.id) :
    Queue.ack (r :: rest) t r.id codes = { r with state := t, codes := codes } :: rest := by
  simp only [Queue.ack, List.map_cons, BEq.rfl, ↓reduceIte, List.cons.injEq, true_and]
  conv => rhs; rw [← List.map_id rest]
  apply List.map_congr_left
  intro e he
  have : (e.id == r.id) = false := by simpa using hid e he
  simp [this]

theorem acked_head (r' : Req) (rest : Queue) (ht : terminal r'.state = true)
    (hh : ∀ e, rest.head? = some e → terminal e.state = false) :
    Queue.acked (r' :: rest) = (rest, [r']) := by
  cases rest with
  | nil => simp [Queue.acked, List.takeWhile_cons, List.dropWhile_cons, ht]
  | cons e rest =>
    have := hh e rfl
    simp [Queue.acked, List.takeWhile_cons, List.dropWhile_cons, ht, this]

theorem foldDone_single (f : C → Req → C × List Out) (c : C) (r : Req) : foldDone f c [r] = f c r := by
  simp [foldDone]

/-- the SUBACK for the oldest Subscribe runs exactly that request's wrapper -/
theorem peer_suback_head (c : C) (r : Req) (rest : Queue) (hq : c.suback = r :: rest)
    (hid : ∀ e ∈ rest, e.id ≠ r.id) (hh : ∀ e, rest.head? = some e → terminal e.state = false) (codes : List Nat) :
    peer c (.suback r.id codes) =
      subscribeDone { c with suback := rest } { r with state := tSUBACK, codes := codes } := by
  simp only [peer, hq]
  rw [ack_head r rest tSUBACK codes hid, acked_head _ rest terminal_SUBACK hh]
  exact foldDone_single _ _ _

/-- the UNSUBACK for the oldest Unsubscribe runs exactly that request's wrapper -/
theorem peer_unsuback_head (c : C) (r : Req) (rest : Queue) (hq : c.unsuback = r :: rest)
    (hid : ∀ e ∈ rest, e.id ≠ r.id) (hh : ∀ e, rest.head? = some e → terminal e.state = false) :
    peer c (.unsuback r.id) =
      unsubscribeDone { c with unsuback := rest } { r with state := tUNSUBACK, codes := [] } := by
  simp only [peer, hq]
  rw [ack_head r rest tUNSUBACK [] hid, acked_head _ rest terminal_UNSUBACK hh]
  exact foldDone_single _ _ _

/-! ### Unsubscribe -/

theorem dropStore_eq (ts : List (Bytes × Nat)) : ∀ store : List Sub,
    dropStore store ts = store.filter (fun e => !(ts.map (·.1)).contains e.filter) := by
  induction ts with
  | nil =>
    intro store
    simp only [dropStore, List.map_nil, List.contains_nil, Bool.not_false]
    exact (List.filter_eq_self.mpr (fun _ _ => rfl)).symm
  | cons t ts ih =>
    intro store
    rw [dropStore, ih]
    simp only [specSubs, List.filter_filter, List.map_cons, List.contains_cons]
    apply List.filter_congr
    intro e _
    cases h1 : (e.filter == t.1) <;> simp [h1]

theorem heldBy_filter (cb : Nat) (store : List Sub) (P : Bytes → Bool) :
    heldBy cb (store.filter (fun e => P e.filter)) = (heldBy cb store).filter P := by
  unfold heldBy
  rw [List.filter_filter, List.filter_map]
  congr 1
  rw [List.filter_filter]
  apply List.filter_congr
  intro e _
  simp [Bool.and_comm]

/-! ### deliveries over a whole inbound QoS 2 exchange -/

theorem deliveriesTo_append (cb : Nat) (a b : List Out) :
    deliveriesTo cb (a ++ b) = deliveriesTo cb a ++ deliveriesTo cb b := by
  induction a with
  | nil => rfl
  | cons x a ih =>
    cases x with
    | deliver cb' p =>
      simp only [List.cons_append, deliveriesTo]
      split <;> simp [ih]
    | _ => simpa [deliveriesTo] using ih

theorem deliveriesTo_exchange {α} (cb id : Nat) (dups : List α) (X : List Out) :
    deliveriesTo cb (([Out.wrote (.pubrec id)] :: dups.map (fun _ => [Out.wrote (.pubrec id)]) ++
      [X ++ [Out.wrote (.pubcomp id)]]).flatten) = deliveriesTo cb X := by
  have h1 : ∀ l : List α, deliveriesTo cb ((l.map (fun _ => [Out.wrote (.pubrec id)])).flatten) = [] := by
    intro l
    induction l with
    | nil => rfl
    | cons a l ih => simpa [deliveriesTo] using ih
  simp only [List.cons_append, List.flatten_cons, List.flatten_append, List.flatten_nil, List.append_nil,
    deliveriesTo_append, h1, List.singleton_append, deliveriesTo, List.nil_append, List.append_nil]

end Mqtt.Proofs.Client
