/-
Helper lemmas for C12 (f): the invariant of the two critical sections of
`service.ackmu` (`Model/AckLock.lean`, programs `senderProgram` / `procProgram`),
for any number of senders, any schedule, any behaviour of the peer; and the tie
of the two programs to the lock structure extracted from the source
(`Generated.ack*`, extract/facts_acklock.go).
-/
import Mqtt.Model.AckLock
import Mqtt.Generated.Facts

namespace Mqtt.Proofs.AckLock
open Mqtt.Model.AckLock

theorem upd_same {α : Type} (f : Nat → α) (i : Nat) (v : α) : upd f i v i = v := by simp [upd]

theorem upd_other {α : Type} (f : Nat → α) (i j : Nat) (v : α) (h : j ≠ i) : upd f i v j = f j := by
  simp [upd, h]

/-! ## the invariant -/

structure Inv (s : St) : Prop where
  /-- a sender holds `ackmu` exactly from after its `Lock` until its `Unlock` -/
  hold  : ∀ i, s.holder = some (.sender i) ↔ (1 ≤ s.spc i ∧ s.spc i ≤ 4)
  /-- the request is written from the second operation on … -/
  wr    : ∀ i, s.written i = true ↔ 2 ≤ s.spc i
  /-- … and registered from the fourth on: in between the sender holds the mutex -/
  reg   : ∀ i, s.registered i = true ↔ 4 ≤ s.spc i
  /-- the processor holds `ackmu` exactly around `Ack` -/
  phold : s.holder = some .proc ↔ (s.ppc = 2 ∨ s.ppc = 3)
  ppc   : s.ppc < 5
  /-- no `Ack` so far fell into the window of its request; an acknowledgement of a written request found it -/
  marks : ∀ m ∈ s.marks, m.inWindow = false ∧ (m.caused = true → m.found = true)
  /-- an acknowledgement marked as caused by its request was sent after the request was written -/
  inbox : ∀ a ∈ s.inbox, a.caused = true → s.written a.id = true
  cur   : s.cur.caused = true → s.written s.cur.id = true
  /-- completions run only for requests that were registered -/
  compl : ∀ i ∈ s.completed, s.registered i = true
  /-- an acknowledgement recorded as found: its request is registered (registrations are never undone) -/
  found : ∀ m ∈ s.marks, m.found = true → s.registered m.id = true

theorem inv_init : Inv init where
  hold := by intro i; simp [init]
  wr := by intro i; simp [init]
  reg := by intro i; simp [init]
  phold := by simp [init]
  ppc := by simp [init]
  marks := by intro m hm; cases hm
  inbox := by intro a ha; cases ha
  cur := by simp [init]
  compl := by intro i hi; cases hi
  found := by intro m hm; cases hm

/-- in the window of request `i` (written, not registered) sender `i` holds the mutex -/
theorem Inv.window_holds {s : St} (h : Inv s) (i : Nat) (hw : s.written i = true) (hr : s.registered i = false) :
    s.holder = some (.sender i) := by
  have h2 := (h.wr i).mp hw
  have h4 : ¬ 4 ≤ s.spc i := fun h4 => by rw [(h.reg i).mpr h4] at hr; cases hr
  exact (h.hold i).mpr ⟨by omega, by omega⟩

theorem inv_peer {s : St} (h : Inv s) (i : Nat) : Inv { s with inbox := s.inbox ++ [⟨i, s.written i⟩] } where
  hold := h.hold
  wr := h.wr
  reg := h.reg
  phold := h.phold
  ppc := h.ppc
  marks := h.marks
  inbox := by
    intro a ha
    simp only [List.mem_append, List.mem_singleton] at ha
    rcases ha with ha | rfl
    · exact h.inbox a ha
    · exact id
  cur := h.cur
  compl := h.compl
  found := h.found

theorem inv_sender {s s' : St} (h : Inv s) (i : Nat) (hs : senderStep senderProgram s i = some s') : Inv s' := by
  unfold senderStep at hs
  have hne : ∀ j, j ≠ i → Tid.sender i ≠ Tid.sender j := fun j hj e => hj (by cases e; rfl)
  match hpc : s.spc i with
  | 0 =>
    simp only [hpc, senderProgram, List.getElem?_cons_zero] at hs
    split at hs
    · cases hs
    · rename_i hfree
      have hnone : s.holder = none := by simpa using hfree
      cases hs
      refine ⟨?_, ?_, ?_, ?_, h.ppc, h.marks, h.inbox, h.cur, h.compl, h.found⟩
      · intro j
        by_cases hj : j = i
        · subst hj; simp [upd_same, hpc]
        · simp only [upd_other _ _ _ _ hj]
          have := h.hold j
          rw [hnone] at this
          constructor
          · intro e; exact absurd (Option.some.inj e) (hne j hj)
          · intro hh; exact absurd (this.mpr hh) (by simp)
      · intro j
        by_cases hj : j = i
        · subst hj; have := h.wr j; rw [hpc] at this; simp only [upd_same, hpc]; constructor
          · intro hw; have := this.mp hw; omega
          · intro hh; omega
        · simp only [upd_other _ _ _ _ hj]; exact h.wr j
      · intro j
        by_cases hj : j = i
        · subst hj; have := h.reg j; rw [hpc] at this; simp only [upd_same, hpc]; constructor
          · intro hw; have := this.mp hw; omega
          · intro hh; omega
        · simp only [upd_other _ _ _ _ hj]; exact h.reg j
      · have := h.phold; rw [hnone] at this
        constructor
        · intro e; cases e
        · intro hh; exact absurd (this.mpr hh) (by simp)
  | 1 =>
    simp only [hpc, senderProgram, List.getElem?_cons_succ, List.getElem?_cons_zero] at hs
    cases hs
    have hh := (h.hold i).mpr (by omega)
    refine ⟨?_, ?_, ?_, h.phold, h.ppc, h.marks, ?_, ?_, h.compl, h.found⟩
    · intro j
      by_cases hj : j = i
      · subst hj; simp [upd_same, hpc, hh]
      · simp only [upd_other _ _ _ _ hj]; exact h.hold j
    · intro j
      by_cases hj : j = i
      · subst hj; simp [upd_same, hpc]
      · simp only [upd_other _ _ _ _ hj]; exact h.wr j
    · intro j
      by_cases hj : j = i
      · subst hj; have := h.reg j; rw [hpc] at this; simp only [upd_same, hpc]; constructor
        · intro hw; have := this.mp hw; omega
        · intro hh; omega
      · simp only [upd_other _ _ _ _ hj]; exact h.reg j
    · intro a ha hc
      by_cases hj : a.id = i
      · simp [upd, hj]
      · simp only [upd_other _ _ _ _ hj]; exact h.inbox a ha hc
    · intro hc
      by_cases hj : s.cur.id = i
      · simp [upd, hj]
      · simp only [upd_other _ _ _ _ hj]; exact h.cur hc
  | 2 =>
    simp only [hpc, senderProgram, List.getElem?_cons_succ, List.getElem?_cons_zero] at hs
    cases hs
    have hh := (h.hold i).mpr (by omega)
    refine ⟨?_, ?_, ?_, h.phold, h.ppc, h.marks, h.inbox, h.cur, h.compl, h.found⟩
    · intro j
      by_cases hj : j = i
      · subst hj; simp [upd_same, hpc, hh]
      · simp only [upd_other _ _ _ _ hj]; exact h.hold j
    · intro j
      by_cases hj : j = i
      · subst hj; have := h.wr j; rw [hpc] at this; simp only [upd_same, hpc]; constructor
        · intro _; omega
        · intro _; exact this.mpr (by omega)
      · simp only [upd_other _ _ _ _ hj]; exact h.wr j
    · intro j
      by_cases hj : j = i
      · subst hj; have := h.reg j; rw [hpc] at this; simp only [upd_same, hpc]; constructor
        · intro hw; have := this.mp hw; omega
        · intro hh; omega
      · simp only [upd_other _ _ _ _ hj]; exact h.reg j
  | 3 =>
    simp only [hpc, senderProgram, List.getElem?_cons_succ, List.getElem?_cons_zero] at hs
    cases hs
    have hh := (h.hold i).mpr (by omega)
    refine ⟨?_, ?_, ?_, h.phold, h.ppc, h.marks, h.inbox, h.cur, ?_, ?_⟩
    · intro j
      by_cases hj : j = i
      · subst hj; simp [upd_same, hpc, hh]
      · simp only [upd_other _ _ _ _ hj]; exact h.hold j
    · intro j
      by_cases hj : j = i
      · subst hj; have := h.wr j; rw [hpc] at this; simp only [upd_same, hpc]; constructor
        · intro _; omega
        · intro _; exact this.mpr (by omega)
      · simp only [upd_other _ _ _ _ hj]; exact h.wr j
    · intro j
      by_cases hj : j = i
      · subst hj; simp [upd_same, hpc]
      · simp only [upd_other _ _ _ _ hj]; exact h.reg j
    · intro j hjc
      by_cases hj : j = i
      · simp [upd, hj]
      · simp only [upd_other _ _ _ _ hj]; exact h.compl j hjc
    · intro m hm hf
      by_cases hj : m.id = i
      · simp [upd, hj]
      · simp only [upd_other _ _ _ _ hj]; exact h.found m hm hf
  | 4 =>
    simp only [hpc, senderProgram, List.getElem?_cons_succ, List.getElem?_cons_zero] at hs
    have hh := (h.hold i).mpr (by omega)
    split at hs
    · cases hs
    · cases hs
      refine ⟨?_, ?_, ?_, ?_, h.ppc, h.marks, h.inbox, h.cur, h.compl, h.found⟩
      · intro j
        by_cases hj : j = i
        · subst hj; simp [upd_same, hpc]
        · simp only [upd_other _ _ _ _ hj]
          have := h.hold j
          rw [hh] at this
          constructor
          · intro e; cases e
          · intro hx; exact absurd (Option.some.inj (this.mpr hx)) (hne j hj)
      · intro j
        by_cases hj : j = i
        · subst hj; have := h.wr j; rw [hpc] at this; simp only [upd_same, hpc]; constructor
          · intro _; omega
          · intro _; exact this.mpr (by omega)
        · simp only [upd_other _ _ _ _ hj]; exact h.wr j
      · intro j
        by_cases hj : j = i
        · subst hj; have := h.reg j; rw [hpc] at this; simp only [upd_same, hpc]; constructor
          · intro _; omega
          · intro _; exact this.mpr (by omega)
        · simp only [upd_other _ _ _ _ hj]; exact h.reg j
      · have := h.phold; rw [hh] at this
        constructor
        · intro e; cases e
        · intro hx; exact absurd (this.mpr hx) (by simp)
  | n + 5 =>
    simp [hpc, senderProgram] at hs

theorem inv_proc {s s' : St} (h : Inv s) (hs : procStep procProgram s = some s') : Inv s' := by
  unfold procStep at hs
  have hlt := h.ppc
  match hpc : s.ppc with
  | 0 =>
    simp only [hpc, procProgram, List.getElem?_cons_zero] at hs
    split at hs
    · cases hs
    · rename_i a rest hin
      cases hs
      have hno : s.holder ≠ some .proc := fun e => by have := h.phold.mp e; omega
      refine ⟨h.hold, h.wr, h.reg, ?_, by simp [nextP], h.marks, ?_, ?_, h.compl, h.found⟩
      · show s.holder = some .proc ↔ ((1 : Nat) = 2 ∨ (1 : Nat) = 3)
        constructor
        · intro e; exact absurd e hno
        · intro hx; omega
      · intro b hb; exact h.inbox b (by rw [hin]; exact List.mem_cons_of_mem _ hb)
      · exact h.inbox a (by rw [hin]; exact List.mem_cons_self)
  | 1 =>
    simp only [hpc, procProgram, List.getElem?_cons_succ, List.getElem?_cons_zero] at hs
    split at hs
    · cases hs
    · rename_i hfree
      have hnone : s.holder = none := by simpa using hfree
      cases hs
      refine ⟨?_, h.wr, h.reg, ?_, by simp [nextP], h.marks, h.inbox, h.cur, h.compl, h.found⟩
      · intro j
        have := h.hold j
        rw [hnone] at this
        constructor
        · intro e; cases e
        · intro hx; exact absurd (this.mpr hx) (by simp)
      · show some Tid.proc = some .proc ↔ ((2 : Nat) = 2 ∨ (2 : Nat) = 3)
        simp
  | 2 =>
    simp only [hpc, procProgram, List.getElem?_cons_succ, List.getElem?_cons_zero] at hs
    cases hs
    have hh : s.holder = some .proc := h.phold.mpr (by omega)
    refine ⟨h.hold, h.wr, h.reg, ?_, by simp [nextP], ?_, h.inbox, h.cur, h.compl, ?_⟩
    rotate_left 2
    · intro m hm hf
      simp only [List.mem_append, List.mem_singleton] at hm
      rcases hm with hm | rfl
      · exact h.found m hm hf
      · exact hf
    · show s.holder = some .proc ↔ ((3 : Nat) = 2 ∨ (3 : Nat) = 3)
      simp [hh]
    · intro m hm
      simp only [List.mem_append, List.mem_singleton] at hm
      rcases hm with hm | rfl
      · exact h.marks m hm
      · -- the processor holds the mutex: the sender of this request is not in its critical section
        have hnot : ¬ (1 ≤ s.spc s.cur.id ∧ s.spc s.cur.id ≤ 4) := by
          intro hx
          have := (h.hold s.cur.id).mpr hx
          rw [hh] at this
          cases this
        constructor
        · show (s.written s.cur.id && !s.registered s.cur.id) = false
          cases hw : s.written s.cur.id with
          | false => rfl
          | true =>
            have h2 := (h.wr _).mp hw
            have : s.registered s.cur.id = true := (h.reg _).mpr (by omega)
            simp [this]
        · intro hc
          have h2 := (h.wr _).mp (h.cur hc)
          exact (h.reg _).mpr (by omega)
  | 3 =>
    simp only [hpc, procProgram, List.getElem?_cons_succ, List.getElem?_cons_zero] at hs
    have hh : s.holder = some .proc := h.phold.mpr (by omega)
    split at hs
    · cases hs
    · cases hs
      refine ⟨?_, h.wr, h.reg, ?_, by simp [nextP], h.marks, h.inbox, h.cur, h.compl, h.found⟩
      · intro j
        have := h.hold j
        rw [hh] at this
        constructor
        · intro e; cases e
        · intro hx; exact absurd (this.mpr hx) (by simp)
      · show (none : Option Tid) = some .proc ↔ ((4 : Nat) = 2 ∨ (4 : Nat) = 3)
        simp
  | 4 =>
    simp only [hpc, procProgram, List.getElem?_cons_succ, List.getElem?_cons_zero] at hs
    cases hs
    have hno : s.holder ≠ some .proc := fun e => by have := h.phold.mp e; omega
    refine ⟨h.hold, h.wr, h.reg, ?_, by simp [nextP], h.marks, h.inbox, h.cur, ?_, h.found⟩
    · show s.holder = some .proc ↔ ((0 : Nat) = 2 ∨ (0 : Nat) = 3)
      constructor
      · intro e; exact absurd e hno
      · intro hx; omega
    · intro i hi
      simp only [List.mem_append] at hi
      rcases hi with hi | hi
      · exact h.compl i hi
      · cases hl : s.marks.getLast? with
        | none => simp [hl] at hi
        | some m =>
          simp only [hl] at hi
          by_cases hf : m.found = true
          · simp only [hf, ↓reduceIte, List.mem_singleton] at hi
            subst hi
            -- `found` was the registration flag when the mark was made; registrations are never undone
            exact h.found m (List.mem_of_getLast? hl) hf
          · simp [hf] at hi
  | n + 5 => omega

theorem inv_step {s s' : St} (h : Inv s) (ch : Choice) (hs : step senderProgram procProgram s ch = some s') :
    Inv s' := by
  cases ch with
  | sender i => exact inv_sender h i hs
  | proc => exact inv_proc h hs
  | peer i => simp only [step, Option.some.injEq] at hs; subst hs; exact inv_peer h i

theorem inv_run (s : St) (h : Inv s) (sched : List Choice) : Inv (run senderProgram procProgram s sched) := by
  induction sched generalizing s with
  | nil => exact h
  | cons ch rest ih =>
    simp only [run]
    cases hs : step senderProgram procProgram s ch with
    | none => exact ih s h
    | some s' => exact ih s' (inv_step h ch hs)

/-- every state the program of the source can reach, under any schedule and any peer -/
theorem inv_reachable (sched : List Choice) : Inv (run senderProgram procProgram init sched) :=
  inv_run init inv_init sched

/-! ## the tie to the source

`Generated.ack*` are regenerated from service/service.go and service/process.go on every run
(extract/facts_acklock.go: the calls `ackmu.Lock` 1, `defer ackmu.Unlock` 2, `writeMessage` 3,
`verifAckWindow` 4, `sess.<queue>.Wait` 5, `ackmu.Unlock` 6, `sendPublish` 7, `onComplete` 8,
`Ackqueue.Ack` 9, `ack` 10, `processAcked` 11, in source order; `ackIrregular` counts such calls
inside function literals, deferred or started with `go`). -/

def SOp.code : SOp → Nat
  | .lock => 1 | .write => 3 | .window => 4 | .register => 5 | .unlock => 6

def POp.code : POp → Nat
  | .recv => 0 | .lock => 1 | .mark => 9 | .unlock => 6 | .callbacks => 11

/-- source shape of a Go function that runs a program `lock · body · unlock` with the unlock
deferred: `Lock(); defer Unlock(); body` -/
def deferredShape (codes : List Nat) : Option (List Nat) :=
  match codes with
  | 1 :: rest => if rest.getLast? = some 6 then some (1 :: 2 :: rest.dropLast) else none
  | _ => none

/-- `publish` for an acknowledged PUBLISH, `sendPublish` inlined: the statements after the QoS 0
guard, with the call of `sendPublish` replaced by what `sendPublish` does up to its `switch` and in
the case `label` of it -/
def publishInlined (label : String) : Option (List Nat) := do
  let pub ← Mqtt.Generated.ackSenders.lookup "publish"
  let sp ← Mqtt.Generated.ackSenders.lookup "sendPublish"
  let cs ← Mqtt.Generated.ackSendPublishCases.lookup label
  let inCases := (Mqtt.Generated.ackSendPublishCases.map (·.2)).flatten
  let pre := sp.take (sp.length - inCases.length)
  if Mqtt.Generated.ackPublishQos0Guard && pub.head? == some 7 && sp == pre ++ inCases then
    some ((pub.drop 1).flatMap (fun c => if c == 7 then pre ++ cs else [c]))
  else none

/-- the QoS 0 path of `publish`: the guard hands over to `sendPublish` at once -/
def publishQos0 : Option (List Nat) := do
  let sp ← Mqtt.Generated.ackSenders.lookup "sendPublish"
  let cs ← Mqtt.Generated.ackSendPublishCases.lookup "QosAtMostOnce"
  let inCases := (Mqtt.Generated.ackSendPublishCases.map (·.2)).flatten
  if Mqtt.Generated.ackPublishQos0Guard then some (sp.take (sp.length - inCases.length) ++ cs) else none

/-- **The sending calls of the source run `senderProgram`.**  `subscribe`, `unsubscribe`, `ping` and
`publish` for QoS 1 and for QoS 2 (with `sendPublish`, which only `publish` calls, inlined) are
`ackmu.Lock(); defer ackmu.Unlock(); writeMessage; verifAckWindow; Wait` - the write, the window
and the registration inside one critical section; the QoS 0 path of `publish` takes no lock, writes,
registers nothing and calls the completion itself.  The mutex is locked in these four functions and
in `ack` only, never unlocked explicitly, and no other function of the package registers a request
of this connection's senders (`processPublish` registers inbound QoS 2 PUBLISHes, in the processor
itself). -/
theorem facts_senders :
    (∀ name ∈ ["subscribe", "unsubscribe", "ping"],
      Mqtt.Generated.ackSenders.lookup name = deferredShape (senderProgram.map SOp.code)) ∧
    publishInlined "QosAtLeastOnce" = deferredShape (senderProgram.map SOp.code) ∧
    publishInlined "QosExactlyOnce" = deferredShape (senderProgram.map SOp.code) ∧
    publishQos0 = some [3, 4, 8] ∧
    Mqtt.Generated.ackSendPublishCases.map (·.1) = ["QosAtMostOnce", "QosAtLeastOnce", "QosExactlyOnce"] ∧
    Mqtt.Generated.ackSendPublishSwitches = 1 ∧
    Mqtt.Generated.ackSendPublishCallers = ["publish", "publish"] ∧
    Mqtt.Generated.ackLockSites = ["ack", "ping", "publish", "subscribe", "unsubscribe"] ∧
    Mqtt.Generated.ackDeferUnlockSites = Mqtt.Generated.ackLockSites ∧
    Mqtt.Generated.ackUnlockSites = [] ∧
    Mqtt.Generated.ackWaitSites = ["ping", "processPublish", "sendPublish", "sendPublish", "subscribe", "unsubscribe"] ∧
    Mqtt.Generated.ackWindowSites = ["ping", "sendPublish", "subscribe", "unsubscribe"] := by
  decide

/-- **The processor of the source runs `procProgram`.**  `ack` is `ackmu.Lock(); defer
ackmu.Unlock(); Ackqueue.Ack` and the only place where `Ackqueue.Ack` is called; `processIncoming`
calls it once per acknowledgement type, first thing, and calls `processAcked` (the completion
callbacks) only after it has returned - outside the mutex; nothing of this happens outside the type
switch.  The terminal acknowledgements of the sending side (PUBACK, PUBCOMP, SUBACK, UNSUBACK,
PINGRESP) are exactly `ack; processAcked`. -/
theorem facts_processor :
    some Mqtt.Generated.ackHelper = deferredShape ((procProgram.drop 1).dropLast.map POp.code) ∧
    Mqtt.Generated.ackAckSites = ["ack"] ∧
    Mqtt.Generated.ackHelperCallers = List.replicate 7 "processIncoming" ∧
    Mqtt.Generated.ackProcessAckedCallers = List.replicate 6 "processIncoming" ∧
    Mqtt.Generated.ackProcessIncomingOutside = 0 ∧ Mqtt.Generated.ackProcessIncomingSwitches = 1 ∧
    Mqtt.Generated.ackIrregular = 0 ∧
    Mqtt.Generated.ackProcessIncoming.map (·.1) =
      ["PubackMessage", "PubrecMessage", "PubrelMessage", "PubcompMessage", "SubackMessage", "UnsubackMessage",
       "PingrespMessage"] ∧
    (∀ c ∈ Mqtt.Generated.ackProcessIncoming, c.2.head? = some 10 ∧ c.2.tail.all (fun x => x == 11 || x == 3)) ∧
    (∀ name ∈ ["PubackMessage", "PubcompMessage", "SubackMessage", "UnsubackMessage", "PingrespMessage"],
      Mqtt.Generated.ackProcessIncoming.lookup name = some [10, (procProgram.getLast?.map POp.code).getD 0]) := by
  decide

end Mqtt.Proofs.AckLock
