/-
Sessions across connections: SessionPresent, fresh and resumed session objects,
what `stop` leaves in the store; helper lemmas for C10.
-/
import Mqtt.Proofs.BrokerLifeInv

namespace Mqtt.Proofs.BrokerLife
open Mqtt.Iface.Broker Mqtt.Model.Broker
open Mqtt.Model.Topics (MemTopics)

/-! ### association-list facts for the store -/

theorem lookup_filter_self (l : List (Bytes × Nat)) (k : Bytes) :
    (l.filter (fun p => p.1 != k)).lookup k = none := by
  induction l with
  | nil => rfl
  | cons x xs ih =>
    obtain ⟨a, v⟩ := x
    rw [List.filter_cons]
    by_cases h : a = k
    · have hf : ((a, v).1 != k) = false := by simp [h]
      simp only [hf, Bool.false_eq_true, ↓reduceIte]
      exact ih
    · have hf : ((a, v).1 != k) = true := by simp [h]
      have hk : (k == a) = false := by rw [beq_eq_false_iff_ne]; exact fun e => h e.symm
      simp only [hf, ↓reduceIte, List.lookup_cons, hk]
      exact ih

theorem lookup_filter_ne (l : List (Bytes × Nat)) (k y : Bytes) (h : y ≠ k) :
    (l.filter (fun p => p.1 != k)).lookup y = l.lookup y := by
  induction l with
  | nil => rfl
  | cons x xs ih =>
    obtain ⟨a, v⟩ := x
    rw [List.filter_cons]
    by_cases ha : a = k
    · have hf : ((a, v).1 != k) = false := by simp [ha]
      have hy : (y == a) = false := by rw [beq_eq_false_iff_ne]; exact fun e => h (e.trans ha)
      simp only [hf, Bool.false_eq_true, ↓reduceIte, List.lookup_cons, hy]
      exact ih
    · have hf : ((a, v).1 != k) = true := by simp [ha]
      simp only [hf, ↓reduceIte, List.lookup_cons, ih]

theorem storeGet_storeDel_self (b : B) (k : Bytes) : (b.storeDel k).storeGet k = none :=
  lookup_filter_self b.store k

theorem storeGet_storeDel_ne (b : B) (k y : Bytes) (h : y ≠ k) : (b.storeDel k).storeGet y = b.storeGet y :=
  lookup_filter_ne b.store k y h

theorem storeGet_storeSet_ne (b : B) (k y : Bytes) (r : Nat) (h : y ≠ k) :
    (b.storeSet k r).storeGet y = b.storeGet y := by
  unfold B.storeSet B.storeGet
  simp only [List.lookup_cons]
  have : (y == k) = false := by simpa using h
  rw [this]
  exact lookup_filter_ne b.store k y h

theorem storeGet_storeSet_self (b : B) (k : Bytes) (r : Nat) : (b.storeSet k r).storeGet k = some r := by
  unfold B.storeSet B.storeGet
  simp

/-! ### SessionPresent -/

theorem accepted_sp (b : B) (c : Nat) (req : Connect) : (accepted b c req).2 = (resumed b c req).isSome := by
  unfold accepted
  cases resumed b c req <;> rfl

/-- `resumed` in terms of the CONNECT as sent -/
theorem resumed_isSome_iff (b : B) (c : Nat) (req : Connect) :
    (resumed b c req).isSome = true ↔
      req.clean = false ∧ req.clientId ≠ [] ∧
      ∃ r s, b.storeGet req.clientId = some r ∧ b.getSess r = some s ∧ s.clean = false := by
  constructor
  · intro h
    cases hres : resumed b c req with
    | none => rw [hres] at h; cases h
    | some s =>
      obtain ⟨hcl, hst, hs, hsc⟩ := resumed_some hres
      unfold effClean at hcl
      unfold effCid at hst
      by_cases he : req.clientId.isEmpty = true
      · simp [he] at hcl
      · simp only [he, Bool.false_eq_true, ↓reduceIte] at hcl hst
        refine ⟨hcl, ?_, s.ref, s, hst, hs, hsc⟩
        intro hnil; rw [hnil] at he; exact he rfl
  · rintro ⟨hcl, hne, r, s, hst, hs, hsc⟩
    have he : req.clientId.isEmpty = false := by
      cases hcid : req.clientId with
      | nil => exact absurd hcid hne
      | cons _ _ => rfl
    unfold resumed effClean effCid
    simp [he, hcl, hst, hs, Option.filter, hsc]

/-! ### a fresh session object -/

theorem accepted_fresh (b : B) (c : Nat) (req : Connect) (h : resumed b c req = none) :
    (accepted b c req).1 =
      addConn ((({ b with nextRef := b.nextRef + 1 }).setSess (newSess b c req)).storeSet
        (effCid c req) b.nextRef) c b.nextRef ∧
    (accepted b c req).2 = false ∧ acceptedSess b c req = newSess b c req := by
  unfold accepted acceptedSess
  rw [h]
  exact ⟨rfl, rfl, rfl⟩

theorem resumed_none_of_clean (b : B) (c : Nat) (req : Connect) (h : effClean req = true) :
    resumed b c req = none := by
  unfold resumed; simp [h]

/-! ### a resumed session object -/

theorem accepted_resumed (b : B) (c : Nat) (req : Connect) (s : Sess) (h : resumed b c req = some s) :
    (accepted b c req).1 =
      { addConn (b.setSess (updSess s req)) c s.ref with topics := resubscribe b.topics c s.topics } ∧
    (accepted b c req).2 = true ∧ acceptedSess b c req = updSess s req := by
  unfold accepted acceptedSess
  rw [h]
  exact ⟨rfl, rfl, rfl⟩

/-! ### what `stop` does to the store and to the session object -/

theorem stop_store (b : B) (c : Nat) (cn : Conn) (s : Sess)
    (hc : b.getConn c = some cn) (ha : cn.alive = true) (hs : b.getSess cn.sess = some s)
    (hw : s.willFlag = true → s.will.isSome = true) :
    (stop b c).1.store = if s.clean then b.store.filter (fun p => p.1 != s.cid) else b.store := by
  rw [stop_live b c cn s hc ha hs]
  split
  · split
    · rename_i hf _ hn
      have := hw hf
      rw [hn] at this; cases this
    · rename_i w hw
      have hf := onPublish_frame (stopBase b c s) w
      dsimp only
      split
      · show List.filter _ (onPublish (stopBase b c s) w).1.store = _
        rw [hf.store]; rfl
      · show (onPublish (stopBase b c s) w).1.store = _
        rw [hf.store]; rfl
  · dsimp only
    split <;> rfl

/-- the session object after `stop`: identity, identifier, CleanSession, topics
and inbound queue as before (only the will message object may have been mutated
by its own publication) -/
theorem stop_sess (b : B) (c : Nat) (cn : Conn) (s : Sess)
    (hc : b.getConn c = some cn) (ha : cn.alive = true) (hs : b.getSess cn.sess = some s) :
    ∃ s', (stop b c).1.getSess s.ref = some s' ∧ s'.cid = s.cid ∧ s'.clean = s.clean ∧
      s'.topics = s.topics ∧ s'.pub2in = s.pub2in ∧ s'.willFlag = s.willFlag := by
  have hr : cn.sess = s.ref := (getSess_ref hs).symm
  rw [hr] at hs
  rw [stop_live b c cn s hc ha (hr ▸ hs)]
  have hb : (stopBase b c s).getSess s.ref = some s := hs
  split
  · split
    · exact ⟨s, hb, rfl, rfl, rfl, rfl, rfl⟩
    · rename_i w hw
      dsimp only
      split
      · exact ⟨_, getSess_setSess _ { s with will := some (onPublish (stopBase b c s) w).2.1 }, rfl, rfl, rfl, rfl, rfl⟩
      · exact ⟨_, getSess_setSess _ { s with will := some (onPublish (stopBase b c s) w).2.1 }, rfl, rfl, rfl, rfl, rfl⟩
  · dsimp only
    split
    · exact ⟨s, hb, rfl, rfl, rfl, rfl, rfl⟩
    · exact ⟨s, hb, rfl, rfl, rfl, rfl, rfl⟩

/-! ### sessions are keyed by client identifier -/

/-- what the store holds for the identifier a resumed session is filed under is that session -/
theorem resumed_cid {b : B} (h : Inv b) {c : Nat} {req : Connect} {s : Sess} (hres : resumed b c req = some s) :
    s.cid = effCid c req := by
  obtain ⟨_, hst, hs, _⟩ := resumed_some hres
  obtain ⟨t, ht, hcid⟩ := h.store _ (mem_of_lookup (by exact hst))
  rw [hs] at ht; cases ht; exact hcid

/-- An accepted CONNECT under identifier X leaves the store entry and the session
object of every other identifier as they were. -/
theorem accepted_other_id {b : B} (h : Inv b) (c : Nat) (req : Connect) (y : Bytes) (hy : y ≠ effCid c req) :
    (accepted b c req).1.storeGet y = b.storeGet y ∧
    ∀ r, b.storeGet y = some r → (accepted b c req).1.getSess r = b.getSess r := by
  cases hres : resumed b c req with
  | some s =>
    rw [(accepted_resumed b c req s hres).1]
    refine ⟨rfl, ?_⟩
    intro r hr
    obtain ⟨t, ht, hcid⟩ := h.store _ (mem_of_lookup (by exact hr))
    have hne : r ≠ s.ref := by
      intro he
      obtain ⟨_, _, hs, _⟩ := resumed_some hres
      rw [he, hs] at ht; cases ht
      exact hy (hcid.symm.trans (resumed_cid h hres))
    exact getSess_setSess_ne b (updSess s req) r hne
  | none =>
    rw [(accepted_fresh b c req hres).1]
    refine ⟨storeGet_storeSet_ne _ _ _ _ hy, ?_⟩
    intro r hr
    obtain ⟨t, ht, _⟩ := h.store _ (mem_of_lookup (by exact hr))
    have hne : r ≠ b.nextRef := by
      intro he
      rw [he, h.fresh _ (Nat.le_refl _)] at ht; cases ht
    exact getSess_setSess_ne { b with nextRef := b.nextRef + 1 } (newSess b c req) r hne

/-! ### a clean session is discarded at the end of its connection -/

theorem stop_clean_discarded {b : B} (h : Inv b) (c : Nat) (cn : Conn) (s : Sess)
    (hc : b.getConn c = some cn) (ha : cn.alive = true) (hs : b.getSess cn.sess = some s)
    (hcl : s.clean = true) :
    (stop b c).1.storeGet s.cid = none ∧ ∀ p ∈ (stop b c).1.store, p.2 ≠ s.ref := by
  have hst := stop_store b c cn s hc ha hs (h.wills _ s hs)
  simp only [hcl, ↓reduceIte] at hst
  constructor
  · unfold B.storeGet; rw [hst]; exact lookup_filter_self _ _
  · intro p hp he
    rw [hst, List.mem_filter] at hp
    obtain ⟨t, ht, hcid⟩ := h.store p hp.1
    have hr : cn.sess = s.ref := (getSess_ref hs).symm
    rw [he, ← hr, hs] at ht; cases ht
    simp [hcid] at hp

/-- a persistent session stays filed -/
theorem stop_persistent_kept {b : B} (h : Inv b) (c : Nat) (cn : Conn) (s : Sess)
    (hc : b.getConn c = some cn) (ha : cn.alive = true) (hs : b.getSess cn.sess = some s)
    (hcl : s.clean = false) :
    (stop b c).1.store = b.store := by
  have hst := stop_store b c cn s hc ha hs (h.wills _ s hs)
  simpa [hcl] using hst

end Mqtt.Proofs.BrokerLife
