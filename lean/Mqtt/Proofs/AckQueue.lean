/-
Refinement of the code-shaped ack queue (`Model/AckQueue`) to the FIFO
specification (`Spec/Fifo`): invariant, abstraction map, one commuting lemma
per operation.  Helper lemmas only — the property theorems are in
`Properties/C13.lean`.
-/
import Mqtt.Model.AckQueue
import Mqtt.Spec.Fifo

set_option linter.unusedSimpArgs false

namespace Mqtt.Proofs.AckQueue

open Mqtt.Generated Mqtt.Model.AckQueue Mqtt.Iface.AckQ
open Mqtt.Spec

/-! ### association-list map -/

theorem emapGet_del (m : List (Nat × Nat)) (k k' : Nat) :
    emapGet (emapDel m k) k' = if k' = k then none else emapGet m k' := by
  induction m with
  | nil => simp [emapGet, emapDel]
  | cons p m ih =>
    obtain ⟨a, b⟩ := p
    unfold emapGet emapDel at *
    simp only [List.filter_cons]
    by_cases hak : a = k
    · subst hak
      simp only [bne_self_eq_false, Bool.false_eq_true, ↓reduceIte]
      rw [ih, List.lookup_cons]
      by_cases hk : k' = a
      · simp [hk]
      · have : (k' == a) = false := by simp [hk]
        simp [hk, this]
    · have : (a != k) = true := by simp [hak]
      simp only [this, ↓reduceIte, List.lookup_cons]
      by_cases hk : k' = k
      · subst hk
        have : (k' == a) = false := by simp; exact fun h => hak h.symm
        simp [this, ih]
      · simp only [hk, ↓reduceIte] at ih ⊢
        rw [ih]

theorem emapGet_set (m : List (Nat × Nat)) (k v k' : Nat) :
    emapGet (emapSet m k v) k' = if k' = k then some v else emapGet m k' := by
  unfold emapSet
  show List.lookup k' ((k, v) :: emapDel m k) = _
  rw [List.lookup_cons]
  by_cases hk : k' = k
  · simp [hk]
  · have : (k' == k) = false := by simp [hk]
    simp only [this, hk, ↓reduceIte]
    have := emapGet_del m k k'
    simp only [hk, ↓reduceIte] at this
    exact this

/-! ### index arithmetic -/

theorem wrap (h j n : Nat) (hh : h < n) (hj : j < n) :
    (h + j) % n = if h + j < n then h + j else h + j - n := by
  split
  · exact Nat.mod_eq_of_lt ‹_›
  · rw [Nat.mod_eq_sub_mod (by omega)]
    exact Nat.mod_eq_of_lt (by omega)

/-- slot of the `j`-th live entry -/
def slot (q : Q) (j : Nat) : Nat := (q.head + j) % q.size


def window (q : Q) : List AckMsg := (List.range q.count).map (fun j => q.get (slot q j))

/-- The representation invariant of `Ackqueue`. -/
structure Inv (q : Q) : Prop where
  pow    : ∃ k, q.size = 2 ^ k
  mask   : q.mask = q.size - 1
  len    : q.ring.length = q.size
  cnt    : q.count ≤ q.size
  head   : q.head < q.size
  tail   : q.tail = (q.head + q.count) % q.size
  sound  : ∀ id i, emapGet q.emap id = some i →
             ∃ j, j < q.count ∧ i = slot q j ∧ (q.get i).pktid = id
  compl  : ∀ j, j < q.count → emapGet q.emap (q.get (slot q j)).pktid = some (slot q j)

theorem Inv.size_pos {q : Q} (h : Inv q) : 0 < q.size := by
  obtain ⟨k, hk⟩ := h.pow; rw [hk]; exact Nat.two_pow_pos k

theorem Inv.index {q : Q} (h : Inv q) (n : Nat) : q.index n = n % q.size := by
  obtain ⟨k, hk⟩ := h.pow
  unfold Q.index; rw [h.mask, hk]; exact Nat.and_two_pow_sub_one_eq_mod n k

theorem slot_lt {q : Q} (h : Inv q) (j : Nat) : slot q j < q.size :=
  Nat.mod_lt _ h.size_pos

theorem slot_inj {q : Q} (h : Inv q) {a b : Nat} (ha : a < q.size) (hb : b < q.size)
    (e : slot q a = slot q b) : a = b := by
  unfold slot at e
  rw [wrap _ _ _ h.head ha, wrap _ _ _ h.head hb] at e
  split at e <;> split at e <;> omega

/-- ids in the live window are pairwise distinct (consequence of `compl`). -/
theorem Inv.distinct {q : Q} (h : Inv q) {a b : Nat} (ha : a < q.count) (hb : b < q.count)
    (e : (q.get (slot q a)).pktid = (q.get (slot q b)).pktid) : a = b := by
  have h1 := h.compl a ha
  have h2 := h.compl b hb
  rw [e, h2] at h1
  have := Option.some.inj h1
  exact (slot_inj h (by have := h.cnt; omega) (by have := h.cnt; omega) this).symm

theorem at_set (q : Q) (i k : Nat) (a : AckMsg) (hi : i < q.ring.length) :
    ({ q with ring := q.ring.set i a } : Q).get k = if k = i then a else q.get k := by
  unfold Q.get
  simp only [List.getD_eq_getElem?_getD, List.getElem?_set]
  by_cases hk : k = i
  · subst hk; simp [hi]
  · have : ¬ i = k := fun h => hk h.symm
    simp [this, hk]

/-! ### abstraction -/

def toEntry (a : AckMsg) : Fifo.Entry := ⟨a.mtype, a.state, a.pktid, a.msgbuf, a.ackbuf, a.tag⟩

def abs (q : Q) : Fifo.S := ⟨(window q).map toEntry, q.pings.map toEntry⟩

/-! ### the regenerated tables are the protocol's

These are the side conditions that tie `Generated.Facts` (re-read from the Go
source on every run) to the protocol constants of the specification; when the
source changes a table, they stop checking. -/

theorem facts_terminal (t : Nat) : ackedReleaseStates.contains t = Fifo.terminal t := by
  simp only [ackedReleaseStates, Fifo.terminal, Fifo.PUBACK, Fifo.PUBREL, Fifo.PUBCOMP,
    Fifo.SUBACK, Fifo.UNSUBACK, List.contains_cons, List.contains_nil, Bool.or_false, Bool.or_assoc]

theorem facts_idack (t : Nat) : ackIdTypes.contains t = Fifo.isIdAck t := by
  simp only [ackIdTypes, Fifo.isIdAck, Fifo.PUBACK, Fifo.PUBREC, Fifo.PUBREL, Fifo.PUBCOMP,
    Fifo.SUBACK, Fifo.UNSUBACK, List.contains_cons, List.contains_nil, Bool.or_false, Bool.or_assoc]

theorem facts_types : tPUBLISH = Fifo.PUBLISH ∧ tSUBSCRIBE = Fifo.SUBSCRIBE ∧
    tUNSUBSCRIBE = Fifo.UNSUBSCRIBE ∧ tPINGREQ = Fifo.PINGREQ ∧ tPINGRESP = Fifo.PINGRESP ∧
    ackPingType = Fifo.PINGRESP := by decide

abbrev terminal := Fifo.terminal

/-! ### initial state -/

theorem newAckqueue_default : newAckqueue defaultQueueSize =
    { size := 16, mask := 15, count := 0, head := 0, tail := 0, pings := [],
      ring := List.replicate 16 AckMsg.zero, emap := [] } := by
  decide

theorem inv_init : Inv init := by
  unfold init; rw [newAckqueue_default]
  refine ⟨⟨4, rfl⟩, rfl, rfl, by decide, by decide, rfl, ?_, ?_⟩
  · intro id i h; simp [emapGet] at h
  · intro j hj; simp at hj

theorem abs_init : abs init = Fifo.empty := by
  unfold init; rw [newAckqueue_default]; rfl

/-! ### membership test = map lookup -/

theorem any_id_iff {q : Q} (h : Inv q) (id : Nat) :
    ((abs q).q.any (fun x => x.id == id)) = (emapGet q.emap id).isSome := by
  rw [Bool.eq_iff_iff]
  simp only [abs, window, List.map_map, List.any_map, List.any_eq_true, List.mem_range,
    Function.comp_apply, toEntry, beq_iff_eq, Option.isSome_iff_exists]
  constructor
  · rintro ⟨j, hj, e⟩
    exact ⟨_, e ▸ h.compl j hj⟩
  · rintro ⟨i, hi⟩
    obtain ⟨j, hj, rfl, e⟩ := h.sound id i hi
    exact ⟨j, hj, e⟩

/-! ### insert without growth -/

theorem window_congr (q q' : Q) (hc : q'.count = q.count)
    (hs : ∀ j, j < q.count → q'.get (slot q' j) = q.get (slot q j)) :
    window q' = window q := by
  unfold window; rw [hc]
  apply List.map_congr_left
  intro j hj; exact hs j (List.mem_range.mp hj)

/-- storing a new entry in the free tail slot -/
def push (q : Q) (am : AckMsg) : Q :=
  { q with ring := q.ring.set q.tail am,
           emap := emapSet q.emap am.pktid q.tail,
           tail := q.increment q.tail,
           count := q.count + 1 }

theorem tail_lt {q : Q} (h : Inv q) : q.tail < q.size := by
  rw [h.tail]; exact Nat.mod_lt _ h.size_pos

theorem tail_eq_slot {q : Q} (h : Inv q) : q.tail = slot q q.count := h.tail

theorem push_at {q : Q} (h : Inv q) (am : AckMsg) (k : Nat) :
    (push q am).get k = if k = q.tail then am else q.get k := by
  have := at_set q q.tail k am (by rw [h.len]; exact tail_lt h)
  simpa [push, Q.get] using this

theorem push_window {q : Q} (h : Inv q) (hc : q.count < q.size) (am : AckMsg) :
    window (push q am) = window q ++ [am] := by
  unfold window
  show List.map _ (List.range (q.count + 1)) = _
  rw [List.range_succ, List.map_append]
  congr 1
  · apply List.map_congr_left
    intro j hj
    have hj := List.mem_range.mp hj
    show (push q am).get (slot q j) = _
    rw [push_at h]
    have : slot q j ≠ q.tail := by
      rw [tail_eq_slot h]; intro e
      have := slot_inj h (by omega) hc e; omega
    simp [this]
  · show [(push q am).get (slot q q.count)] = _
    rw [push_at h, ← tail_eq_slot h]; simp

theorem push_inv {q : Q} (h : Inv q) (hc : q.count < q.size) (am : AckMsg)
    (hnew : emapGet q.emap am.pktid = none) : Inv (push q am) := by
  have hsl : ∀ j, slot (push q am) j = slot q j := fun _ => rfl
  refine ⟨h.pow, h.mask, ?_, ?_, h.head, ?_, ?_, ?_⟩
  · show (q.ring.set q.tail am).length = q.size
    rw [List.length_set]; exact h.len
  · show q.count + 1 ≤ q.size; omega
  · show q.increment q.tail = (q.head + (q.count + 1)) % q.size
    unfold Q.increment; rw [h.index, h.tail]
    rw [Nat.add_mod, Nat.mod_mod, ← Nat.add_mod]; rfl
  · intro id i hget
    change emapGet (emapSet q.emap am.pktid q.tail) id = some i at hget
    rw [emapGet_set] at hget
    show ∃ j, j < q.count + 1 ∧ i = slot q j ∧ ((push q am).get i).pktid = id
    by_cases hid : id = am.pktid
    · simp only [hid, ↓reduceIte] at hget
      have := Option.some.inj hget; subst this
      refine ⟨q.count, by omega, tail_eq_slot h, ?_⟩
      rw [push_at h]; simp [hid]
    · simp only [hid, ↓reduceIte] at hget
      obtain ⟨j, hj, rfl, e⟩ := h.sound id i hget
      refine ⟨j, by omega, rfl, ?_⟩
      rw [push_at h]
      have : slot q j ≠ q.tail := by
        rw [tail_eq_slot h]; intro e
        have := slot_inj h (by omega) hc e; omega
      simp [this, e]
  · intro j hj
    change j < q.count + 1 at hj
    show emapGet (emapSet q.emap am.pktid q.tail) ((push q am).get (slot q j)).pktid = some (slot q j)
    rw [emapGet_set, push_at h]
    by_cases hjc : j = q.count
    · subst hjc; rw [← tail_eq_slot h]; simp
    · have hj' : j < q.count := by omega
      have : slot q j ≠ q.tail := by
        rw [tail_eq_slot h]; intro e
        have := slot_inj h (by omega) hc e; omega
      simp only [this, ↓reduceIte]
      have hne : (q.get (slot q j)).pktid ≠ am.pktid := by
        intro e; rw [← e, h.compl j hj'] at hnew; cases hnew
      simp only [hne, ↓reduceIte]
      exact h.compl j hj'

/-! ### grow -/

theorem foldl_emap_sound (f : Nat → Nat) (n : Nat) (id i : Nat) :
    emapGet ((List.range n).foldl (fun m i => emapSet m (f i) i) []) id = some i →
      i < n ∧ f i = id := by
  induction n with
  | zero => simp [emapGet]
  | succ n ih =>
    rw [List.range_succ, List.foldl_append]
    simp only [List.foldl_cons, List.foldl_nil]
    rw [emapGet_set]
    split
    · intro e; have := Option.some.inj e; subst this; exact ⟨by omega, by simp_all⟩
    · intro e; have := ih e; exact ⟨by omega, this.2⟩

theorem foldl_emap_compl (f : Nat → Nat) (n : Nat)
    (hinj : ∀ a b, a < n → b < n → f a = f b → a = b) (j : Nat) (hj : j < n) :
    emapGet ((List.range n).foldl (fun m i => emapSet m (f i) i) []) (f j) = some j := by
  induction n with
  | zero => omega
  | succ n ih =>
    rw [List.range_succ, List.foldl_append]
    simp only [List.foldl_cons, List.foldl_nil]
    rw [emapGet_set]
    by_cases hjn : j = n
    · subst hjn; simp
    · have : f j ≠ f n := fun e => hjn (hinj j n hj (by omega) e)
      simp only [this, ↓reduceIte]
      exact ih (fun a b ha hb => hinj a b (by omega) (by omega)) (by omega)

/-- the front part of the new ring built by `grow` is the live window -/
theorem grow_front {q : Q} (h : Inv q) (hfull : q.count = q.size) :
    (if q.tail > q.head then (q.ring.drop q.head).take (q.tail - q.head)
     else q.ring.drop q.head ++ q.ring.take q.tail) = window q := by
  have htail : q.tail = q.head := by
    rw [h.tail, hfull, Nat.add_mod_right]; exact Nat.mod_eq_of_lt h.head
  have hlen := h.len
  have hhead := h.head
  rw [if_neg (by omega), htail]
  apply List.ext_getElem?
  intro i
  unfold window
  rw [List.getElem?_append, List.getElem?_map]
  simp only [List.length_drop, List.getElem?_drop, List.getElem?_take, hlen]
  by_cases hi : i < q.count
  · rw [List.getElem?_range hi]
    simp only [Option.map_some, Q.get, slot, List.getD_eq_getElem?_getD]
    rw [wrap _ _ _ h.head (by omega)]
    by_cases h1 : i < q.size - q.head
    · have : q.head + i < q.size := by omega
      simp only [h1, this, ↓reduceIte]
      rw [List.getElem?_eq_getElem (by omega)]; simp
    · have : ¬ q.head + i < q.size := by omega
      simp only [h1, this, ↓reduceIte]
      have h2 : i - (q.size - q.head) < q.head := by omega
      simp only [h2, ↓reduceIte]
      have : i - (q.size - q.head) = q.head + i - q.size := by omega
      rw [this, List.getElem?_eq_getElem (by omega)]; simp
  · have : (List.range q.count)[i]? = none := by
      rw [List.getElem?_eq_none]; simp; omega
    rw [this]
    have h1 : ¬ i < q.size - q.head := by omega
    have h2 : ¬ i - (q.size - q.head) < q.head := by omega
    simp [h1, h2]

theorem window_length (q : Q) : (window q).length = q.count := by simp [window]

theorem window_getElem? (q : Q) (j : Nat) (hj : j < q.count) :
    (window q)[j]? = some (q.get (slot q j)) := by
  unfold window; rw [List.getElem?_map, List.getElem?_range hj]; rfl

theorem grow_eq {q : Q} (h : Inv q) (hfull : q.count = q.size) :
    q.grow = { q with
      size := q.size * 2, mask := q.size * 2 - 1,
      ring := window q ++ List.replicate (q.size * 2 - q.count) AckMsg.zero,
      head := 0, tail := q.count,
      emap := (List.range q.count).foldl
        (fun m i => emapSet m (((window q ++ List.replicate (q.size * 2 - q.count) AckMsg.zero).getD i
          AckMsg.zero).pktid) i) [] } := by
  unfold Q.grow
  simp only [grow_front h hfull, window_length]

theorem grow_at {q : Q} (h : Inv q) (hfull : q.count = q.size) (j : Nat) (hj : j < q.count) :
    q.grow.get j = q.get (slot q j) := by
  rw [grow_eq h hfull]
  unfold Q.get
  simp only [List.getD_eq_getElem?_getD, List.getElem?_append, window_length, hj, ↓reduceIte]
  rw [window_getElem? q j hj]; rfl

theorem grow_slot {q : Q} (h : Inv q) (hfull : q.count = q.size) (j : Nat) (hj : j < q.count) :
    slot q.grow j = j := by
  rw [grow_eq h hfull]
  unfold slot
  show (0 + j) % (q.size * 2) = j
  rw [Nat.zero_add]; exact Nat.mod_eq_of_lt (by omega)

theorem grow_count {q : Q} (h : Inv q) (hfull : q.count = q.size) : q.grow.count = q.count := by
  rw [grow_eq h hfull]

theorem grow_window {q : Q} (h : Inv q) (hfull : q.count = q.size) : window q.grow = window q := by
  apply window_congr _ _ (grow_count h hfull)
  intro j hj
  rw [grow_slot h hfull j hj, grow_at h hfull j hj]

theorem grow_pings (q : Q) : q.grow.pings = q.pings := rfl

theorem grow_inv {q : Q} (h : Inv q) (hfull : q.count = q.size) : Inv q.grow := by
  have hpos := h.size_pos
  have hat := fun j hj => grow_at h hfull j hj
  have hsl := fun j hj => grow_slot h hfull j hj
  have hcnt := grow_count h hfull
  -- the facts that need the concrete shape
  have hshape : (∃ k, q.grow.size = 2 ^ k) ∧ q.grow.mask = q.grow.size - 1 ∧
      q.grow.ring.length = q.grow.size ∧ q.grow.size = q.size * 2 ∧ q.grow.head = 0 ∧
      q.grow.tail = q.count ∧
      q.grow.emap = (List.range q.count).foldl (fun m i => emapSet m (q.grow.get i).pktid i) [] := by
    rw [grow_eq h hfull]
    refine ⟨?_, rfl, ?_, rfl, rfl, rfl, rfl⟩
    · obtain ⟨k, hk⟩ := h.pow; exact ⟨k + 1, by show q.size * 2 = _; rw [hk, Nat.pow_succ]⟩
    · show (window q ++ List.replicate (q.size * 2 - q.count) AckMsg.zero).length = q.size * 2
      rw [List.length_append, window_length, List.length_replicate]; omega
  obtain ⟨hp, hm, hl, hs, hh, ht, he⟩ := hshape
  have hinj : ∀ a b, a < q.count → b < q.count →
      (q.grow.get a).pktid = (q.grow.get b).pktid → a = b := by
    intro a b ha hb e
    rw [hat a ha, hat b hb] at e
    exact h.distinct ha hb e
  refine ⟨hp, hm, hl, by rw [hcnt, hs]; omega, by rw [hh, hs]; omega, ?_, ?_, ?_⟩
  · rw [ht, hh, hcnt, hs, Nat.zero_add]; exact (Nat.mod_eq_of_lt (by omega)).symm
  · intro id i hget
    rw [he] at hget
    have := foldl_emap_sound (fun i => (q.grow.get i).pktid) q.count id i hget
    exact ⟨i, by rw [hcnt]; exact this.1, (hsl i this.1).symm, this.2⟩
  · intro j hj
    rw [hcnt] at hj
    rw [hsl j hj, he]
    exact foldl_emap_compl (fun i => (q.grow.get i).pktid) q.count hinj j hj

/-! ### insert -/

/-- `insert` seen through the abstraction: `register`. -/
theorem insert_refines {q : Q} (h : Inv q) (mtype pktid : Nat) (bytes : List UInt8) (tag : Nat) :
    Inv (q.insert mtype pktid (some bytes) tag) ∧
    abs (q.insert mtype pktid (some bytes) tag) =
      Fifo.register (abs q) ⟨mtype, 0, pktid, bytes, [], tag⟩ := by
  -- first the optional growth, which is invisible
  have hg : ∃ q1, (if q.full then q.grow else q) = q1 ∧ Inv q1 ∧ abs q1 = abs q ∧
      q1.count < q1.size := by
    by_cases hf : q.full = true
    · have hfull : q.count = q.size := by simpa [Q.full] using hf
      refine ⟨q.grow, by simp [hf], grow_inv h hfull, ?_, ?_⟩
      · unfold abs; rw [grow_window h hfull, grow_pings]
      · rw [grow_count h hfull, grow_eq h hfull]; show q.count < q.size * 2
        have := h.size_pos; omega
    · have hne : q.count ≠ q.size := by simpa [Q.full] using hf
      exact ⟨q, by simp [hf], h, rfl, by have := h.cnt; omega⟩
  obtain ⟨q1, hq1, h1, habs, hlt⟩ := hg
  unfold Q.insert
  simp only [hq1]
  rw [← habs]
  unfold Fifo.register
  have hany := any_id_iff h1 pktid
  simp only at hany ⊢
  rw [hany]
  cases hget : emapGet q1.emap pktid with
  | some i => simp [h1]
  | none =>
    simp only [Option.isSome_none, Bool.false_eq_true, ↓reduceIte]
    have := push_inv h1 hlt ⟨mtype, 0, pktid, bytes, [], tag⟩ hget
    refine ⟨this, ?_⟩
    show abs (push q1 ⟨mtype, 0, pktid, bytes, [], tag⟩) = _
    unfold abs
    rw [push_window h1 hlt]
    simp [push, toEntry]

theorem insert_none_refines {q : Q} (h : Inv q) (mtype pktid : Nat) (tag : Nat) :
    Inv (q.insert mtype pktid none tag) ∧ abs (q.insert mtype pktid none tag) = abs q := by
  unfold Q.insert
  by_cases hf : q.full = true
  · have hfull : q.count = q.size := by simpa [Q.full] using hf
    simp only [hf, ↓reduceIte]
    have hi := grow_inv h hfull
    have ha : abs q.grow = abs q := by unfold abs; rw [grow_window h hfull, grow_pings]
    split <;> exact ⟨hi, ha⟩
  · simp only [hf]
    split <;> exact ⟨h, rfl⟩

/-! ### ack -/

theorem setAt_window {q : Q} (h : Inv q) (j : Nat) (hj : j < q.count) (a : AckMsg) :
    window { q with ring := q.ring.set (slot q j) a } = (window q).set j a := by
  apply List.ext_getElem?
  intro k
  rw [List.getElem?_set, window_length]
  by_cases hk : k < q.count
  · rw [window_getElem? q k hk,
      window_getElem? ({ q with ring := q.ring.set (slot q j) a } : Q) k hk]
    show some (({ q with ring := q.ring.set (slot q j) a } : Q).get (slot q k)) = _
    rw [at_set q _ _ a (by rw [h.len]; exact slot_lt h j)]
    by_cases hjk : j = k
    · subst hjk; simp [hj]
    · have : slot q k ≠ slot q j := fun e => hjk
        (slot_inj h (by have := h.cnt; omega) (by have := h.cnt; omega) e).symm
      simp [this, hjk]
  · have h1 : (window { q with ring := q.ring.set (slot q j) a })[k]? = none := by
      rw [List.getElem?_eq_none]; rw [window_length]; show q.count ≤ k; omega
    have h2 : (window q)[k]? = none := by
      rw [List.getElem?_eq_none]; rw [window_length]; omega
    rw [h1, h2]
    have : j ≠ k := by omega
    simp [this]

theorem ackId_refines {q : Q} (h : Inv q) (t id i : Nat) (bytes : List UInt8)
    (hget : emapGet q.emap id = some i) :
    let q' : Q := { q with ring := q.ring.set i { q.get i with state := t, ackbuf := bytes } }
    Inv q' ∧ abs q' = Fifo.ackId (abs q) t id bytes := by
  obtain ⟨j, hj, rfl, hid⟩ := h.sound id i hget
  intro q'
  have hat : ∀ k, q'.get k = if k = slot q j then { q.get (slot q j) with state := t, ackbuf := bytes }
      else q.get k := fun k => at_set q _ k _ (by rw [h.len]; exact slot_lt h j)
  constructor
  · refine ⟨h.pow, h.mask, ?_, h.cnt, h.head, h.tail, ?_, ?_⟩
    · show (q.ring.set _ _).length = q.size; rw [List.length_set]; exact h.len
    · intro id' i' hg
      obtain ⟨j', hj', rfl, e⟩ := h.sound id' i' hg
      refine ⟨j', hj', rfl, ?_⟩
      show (q'.get (slot q j')).pktid = id'
      rw [hat]; split
      · rename_i heq; rw [heq] at e; exact e
      · exact e
    · intro j' hj'
      show emapGet q.emap (q'.get (slot q j')).pktid = some (slot q j')
      rw [hat]; split
      · rename_i heq; have := h.compl j' hj'; rw [heq] at this ⊢; exact this
      · exact h.compl j' hj'
  · unfold abs Fifo.ackId
    simp only [Fifo.S.mk.injEq]
    refine ⟨?_, rfl⟩
    show (window q').map toEntry = _
    rw [setAt_window h j hj]
    apply List.ext_getElem?
    intro k
    simp only [List.getElem?_map, List.getElem?_set, window_length]
    by_cases hk : k < q.count
    · rw [window_getElem? q k hk]
      by_cases hjk : j = k
      · subst hjk
        simp only [hj, ↓reduceIte, Option.map_some, toEntry, hid, beq_self_eq_true]
      · have hne : (q.get (slot q k)).pktid ≠ id := by
          intro e; rw [← hid] at e; exact hjk (h.distinct hj hk e.symm)
        simp [hjk, toEntry, hne]
    · have h2 : (window q)[k]? = none := by
        rw [List.getElem?_eq_none]; rw [window_length]; omega
      have : j ≠ k := by omega
      simp [this, h2]

theorem ackId_unknown {q : Q} (h : Inv q) (t id : Nat) (bytes : List UInt8)
    (hget : emapGet q.emap id = none) : Fifo.ackId (abs q) t id bytes = abs q := by
  have hany := any_id_iff h id
  rw [hget] at hany
  simp only [Option.isSome_none, List.any_eq_false, beq_iff_eq] at hany
  unfold Fifo.ackId
  have : (abs q).q.map (fun e => if (e.id == id) = true then { e with state := t, ack := bytes } else e)
      = (abs q).q := by
    conv => rhs; rw [← List.map_id (abs q).q]
    apply List.map_congr_left
    intro e he
    have := hany e he
    simp [this]
  rw [this]

/-! ### removeHead / drain -/

theorem removeHead_refines {q : Q} (h : Inv q) (hne : 0 < q.count) :
    Inv q.removeHead ∧ window q = q.get q.head :: window q.removeHead := by
  have hsz := h.size_pos
  have hcnt := h.cnt
  have hslot0 : slot q 0 = q.head := by unfold slot; exact Nat.mod_eq_of_lt h.head
  have hrm : q.removeHead = ({ q with
      ring := q.ring.set q.head AckMsg.zero
      head := q.increment q.head
      count := q.count - 1
      emap := emapDel q.emap (q.get q.head).pktid } : Q) := by
    unfold Q.removeHead
    have : q.empty = false := by simp [Q.empty]; omega
    simp [this, Q.get]
  have hinc : q.increment q.head = (q.head + 1) % q.size := by
    unfold Q.increment; exact h.index _
  have hsl : ∀ j, slot q.removeHead j = slot q (j + 1) := by
    intro j; rw [hrm]; unfold slot
    show (q.increment q.head + j) % q.size = _
    rw [hinc, Nat.add_mod, Nat.mod_mod, ← Nat.add_mod]; congr 1; omega
  have hat : ∀ k, q.removeHead.get k = if k = q.head then AckMsg.zero else q.get k := by
    intro k; rw [hrm]; exact at_set q q.head k _ (by rw [h.len]; exact h.head)
  have hat' : ∀ j, j + 1 < q.count → q.removeHead.get (slot q (j + 1)) = q.get (slot q (j + 1)) := by
    intro j hj; rw [hat]
    have : slot q (j + 1) ≠ q.head := by
      rw [← hslot0]; intro e
      have := slot_inj h (by omega) (by omega) e; omega
    simp [this]
  have hc : q.removeHead.count = q.count - 1 := by rw [hrm]
  constructor
  · refine ⟨by rw [hrm]; exact h.pow, by rw [hrm]; exact h.mask, ?_, ?_, ?_, ?_, ?_, ?_⟩
    · rw [hrm]; show (q.ring.set _ _).length = q.size; rw [List.length_set]; exact h.len
    · rw [hrm]; show q.count - 1 ≤ q.size; omega
    · rw [hrm]; show q.increment q.head < q.size; rw [hinc]; exact Nat.mod_lt _ hsz
    · rw [hrm]; show q.tail = (q.increment q.head + (q.count - 1)) % q.size
      rw [hinc, h.tail, Nat.mod_add_mod]; congr 1; omega
    · intro id i hget
      have hget' : emapGet (emapDel q.emap (q.get q.head).pktid) id = some i := by
        rw [hrm] at hget; exact hget
      rw [emapGet_del] at hget'
      split at hget'
      · cases hget'
      · rename_i hid
        obtain ⟨j, hj, rfl, e⟩ := h.sound id i hget'
        have hj0 : j ≠ 0 := by
          intro e0; subst e0; rw [hslot0] at e; exact hid e.symm
        refine ⟨j - 1, by rw [hc]; omega, ?_, ?_⟩
        · rw [hsl]; congr 1; omega
        · have := hat' (j - 1) (by omega)
          have hj1 : j - 1 + 1 = j := by omega
          rw [hj1] at this; rw [this]; exact e
    · intro j hj
      rw [hc] at hj
      rw [hsl, hat' j (by omega)]
      have : emapGet q.removeHead.emap = emapGet (emapDel q.emap (q.get q.head).pktid) := by rw [hrm]
      rw [this, emapGet_del]
      have hne' : (q.get (slot q (j + 1))).pktid ≠ (q.get q.head).pktid := by
        rw [← hslot0]; intro e
        have := h.distinct (by omega) (by omega) e; omega
      simp only [hne', ↓reduceIte]
      exact h.compl (j + 1) (by omega)
  · unfold window
    rw [hc]
    have : q.count = (q.count - 1) + 1 := by omega
    conv => lhs; rw [this, List.range_succ_eq_map]
    simp only [List.map_cons, List.map_map, hslot0]
    congr 1
    apply List.map_congr_left
    intro j hj
    have hj := List.mem_range.mp hj
    simp only [Function.comp_apply, Nat.succ_eq_add_one]
    rw [hsl, hat' j (by omega)]

theorem removeHead_pings (q : Q) : q.removeHead.pings = q.pings := by
  unfold Q.removeHead; split <;> rfl

theorem removeHead_count {q : Q} (hne : 0 < q.count) : q.removeHead.count = q.count - 1 := by
  unfold Q.removeHead
  have : q.empty = false := by simp [Q.empty]; omega
  simp [this]

theorem drain_refines (fuel : Nat) {q : Q} (h : Inv q) (hf : q.count ≤ fuel) (acc : List AckMsg) :
    Inv (Q.drain fuel q acc).1 ∧
    (Q.drain fuel q acc).1.pings = q.pings ∧
    window (Q.drain fuel q acc).1 = (window q).dropWhile (fun a => terminal a.state) ∧
    (Q.drain fuel q acc).2 = acc ++ (window q).takeWhile (fun a => terminal a.state) := by
  induction fuel generalizing q acc with
  | zero =>
    have : q.count = 0 := by omega
    simp [Q.drain, h, window, this]
  | succ fuel ih =>
    unfold Q.drain
    by_cases he : q.empty = true
    · have : q.count = 0 := by simpa [Q.empty] using he
      simp [he, h, window, this]
    · have hpos : 0 < q.count := by
        have : q.count ≠ 0 := by simpa [Q.empty] using he
        omega
      simp only [he]
      obtain ⟨hi, hw⟩ := removeHead_refines h hpos
      rw [facts_terminal]
      by_cases ht : Fifo.terminal (q.get q.head).state = true
      · simp only [Bool.false_eq_true, ↓reduceIte, ht]
        have := ih hi (by rw [removeHead_count hpos]; omega) (acc ++ [q.get q.head])
        obtain ⟨a, b, c, d⟩ := this
        refine ⟨a, by rw [b, removeHead_pings], ?_, ?_⟩
        · rw [c, hw]
          have : terminal (q.get q.head).state = true := ht
          simp [this]
        · rw [d, hw]
          have : terminal (q.get q.head).state = true := ht
          simp [this]
      · simp only [Bool.false_eq_true, ↓reduceIte, ht]
        have : terminal (q.get q.head).state = false := by
          simpa using ht
        refine ⟨h, trivial, ?_, ?_⟩
        · rw [hw]; simp [this]
        · rw [hw]; simp [this]

/-! ### the ping FIFO -/

/-- Everything in the ping FIFO is a ping request. -/
def PingsOk (q : Q) : Prop := ∀ a ∈ q.pings, a.mtype = tPINGREQ

theorem insert_pings (q : Q) (mtype pktid : Nat) (enc : Option (List UInt8)) (tag : Nat) :
    (q.insert mtype pktid enc tag).pings = q.pings := by
  unfold Q.insert
  have : (if q.full then q.grow else q).pings = q.pings := by split <;> rfl
  cases enc <;> simp only <;> split <;> simp [this]

/-- the code's "oldest entry without a PINGRESP takes it" loop is the specification's `answerPing` -/
theorem markPing_refines (bytes : List UInt8) (l : List AckMsg) :
    (markPing bytes l).map toEntry = Fifo.answerPing bytes (l.map toEntry) := by
  induction l with
  | nil => rfl
  | cons a l ih =>
    have hs : (toEntry a).state = a.state := rfl
    simp only [markPing, List.map_cons, Fifo.answerPing, hs]
    by_cases h : a.state = 13
    · have h1 : (a.state != tPINGRESP) = false := by simp [h, tPINGRESP]
      have h2 : (a.state == Fifo.PINGRESP) = true := by simp [h, Fifo.PINGRESP]
      simp only [h1, h2, Bool.false_eq_true, ↓reduceIte, List.map_cons, ih]
    · have h1 : (a.state != tPINGRESP) = true := by simp [h, tPINGRESP]
      have h2 : (a.state == Fifo.PINGRESP) = false := by simp [h, Fifo.PINGRESP]
      simp only [h1, h2, Bool.false_eq_true, ↓reduceIte, List.map_cons]
      rfl

theorem markPing_mtype (bytes : List UInt8) (l : List AckMsg) (h : ∀ a ∈ l, a.mtype = tPINGREQ) :
    ∀ a ∈ markPing bytes l, a.mtype = tPINGREQ := by
  induction l with
  | nil => intro a ha; simp [markPing] at ha
  | cons b l ih =>
    intro a ha
    simp only [markPing] at ha
    split at ha
    · rcases List.mem_cons.mp ha with rfl | ha'
      · exact h b (by simp)
      · exact h a (by simp [ha'])
    · rcases List.mem_cons.mp ha with rfl | ha'
      · exact h a (by simp)
      · exact ih (fun x hx => h x (by simp [hx])) a ha'

theorem map_dropWhile_state (p : Nat → Bool) (l : List AckMsg) :
    (l.dropWhile (fun a => p a.state)).map toEntry = (l.map toEntry).dropWhile (fun e => p e.state) := by
  induction l with
  | nil => rfl
  | cons a l ih =>
    simp only [List.dropWhile_cons, List.map_cons]
    have : (toEntry a).state = a.state := rfl
    rw [this]; split <;> simp [ih]

theorem map_takeWhile_state (p : Nat → Bool) (l : List AckMsg) :
    (l.takeWhile (fun a => p a.state)).map toEntry = (l.map toEntry).takeWhile (fun e => p e.state) := by
  induction l with
  | nil => rfl
  | cons a l ih =>
    simp only [List.takeWhile_cons, List.map_cons]
    have : (toEntry a).state = a.state := rfl
    rw [this]; split <;> simp [ih]

theorem acked_refines {q : Q} (h : Inv q) (hp : PingsOk q) :
    Inv q.acked.1 ∧ PingsOk q.acked.1 ∧
    abs q.acked.1 = ⟨(abs q).q.dropWhile (fun e => terminal e.state),
                      (abs q).pings.dropWhile (fun e => e.state == Fifo.PINGRESP)⟩ ∧
    q.acked.2.map toEntry =
      (abs q).pings.takeWhile (fun e => e.state == Fifo.PINGRESP) ++
        (abs q).q.takeWhile (fun e => terminal e.state) := by
  have hq' : Inv { q with pings := q.pings.dropWhile (fun a => a.state == tPINGRESP) } :=
    ⟨h.pow, h.mask, h.len, h.cnt, h.head, h.tail, h.sound, h.compl⟩
  obtain ⟨a, b, c, d⟩ := drain_refines q.count hq' (Nat.le_refl _)
    (q.pings.takeWhile (fun a => a.state == tPINGRESP))
  have hw : window { q with pings := q.pings.dropWhile (fun a => a.state == tPINGRESP) } = window q := rfl
  have e1 : tPINGRESP = Fifo.PINGRESP := rfl
  unfold Q.acked
  refine ⟨a, ?_, ?_, ?_⟩
  · intro x hx
    rw [b] at hx
    exact hp x ((List.dropWhile_sublist _).subset hx)
  · unfold abs; rw [c, b, hw]
    rw [map_dropWhile_state (fun t => terminal t), map_dropWhile_state (fun t => t == tPINGRESP), e1]
  · rw [d, hw]
    rw [List.map_append, map_takeWhile_state (fun t => terminal t),
      map_takeWhile_state (fun t => t == tPINGRESP), e1]
    rfl

end Mqtt.Proofs.AckQueue
