/-
Core D → Core F — the ring at CALL level, derived from the program-counter-level model.

`Model/Lifecycle.lean` abstracts each of the two rings of a connection to `RingA` = (bytes
buffered, done) with ONE atomic step per ring call; a call that waits is a step that is not
enabled.  This file relates that abstraction to the real ring program (`Model/Ring.lean`):

* `absRing`            the abstraction function: `buf = pseq - cseq`, `done`;
* `vis_step`           every step of the ring program is invisible through `absRing` or is one of
                       three visible effects — producer commit `+n` (only thread `p`, at `w42`/`c50`),
                       consumer commit `-n` (only thread `c`, at `r64`/`k102`), `done := true` (the first
                       statement of `Close`) — and the cursor part of the `RingA` guard of that effect
                       holds in the state before it (`buf + n ≤ cap` resp. `n ≤ buf`);
* `run` lemmas         schedules, monotonicity of the cursors and of `done`, single-writer facts;
* the call theorems    (`Proofs/RingCallP.lean`, `RingCallC.lean`) are proved from these.

Property theorems: `Properties/C15.lean` (`C15_step_refines_ringA`, `C15_call_refines_ringA_*`,
`C15_parked_iff_guard_false`), cited by `Properties/C16.lean` (`C16_ring_contract_is_C15`).
-/
import Mqtt.Proofs.RingTerm
import Mqtt.Model.Lifecycle

set_option linter.unusedSimpArgs false
set_option linter.unusedVariables false

namespace Mqtt.Proofs.Ring
open Mqtt.Model.Ring Mqtt.Iface.Ring Mqtt.Spec.Ring

/-- the life-cycle model's view of a ring: bytes committed by the producer and not yet committed by
the consumer, and the `done` flag (the mutex-leak flags of the OLD ring stay `false`: `C15_NoLeak`) -/
def absRing (s : St) : Mqtt.Model.Lifecycle.RingA := { buf := s.sh.pseq - s.sh.cseq, done := s.sh.done }

/-- the life-cycle configuration of a ring of this size (only `cap` matters to `RingA.*`; the
switches `d2`, `blockWait`, … keep their defaults = the repaired code) -/
def ringCfg (cfg : Cfg) : Mqtt.Model.Lifecycle.Cfg := { cap := cfg.size, rblock := cfg.rblock, wblock := cfg.size }

@[simp] theorem ringCfg_cap (cfg : Cfg) : (ringCfg cfg).cap = cfg.size := rfl
@[simp] theorem ringCfg_d2 (cfg : Cfg) : (ringCfg cfg).d2 = false := rfl
@[simp] theorem absRing_buf (s : St) : (absRing s).buf = s.sh.pseq - s.sh.cseq := rfl
@[simp] theorem absRing_done (s : St) : (absRing s).done = s.sh.done := rfl

/-! ### schedules -/

theorem run_append (cfg : Cfg) (s : St) (a b : List Tid) : run cfg s (a ++ b) = run cfg (run cfg s a) b := by
  induction a generalizing s with
  | nil => rfl
  | cons t ts ih => simp only [List.cons_append, run]; exact ih _

theorem run_one (cfg : Cfg) (s : St) (t : Tid) : run cfg s [t] = (step cfg s t).getD s := rfl

theorem run_cons (cfg : Cfg) (s : St) (t : Tid) (ts : List Tid) :
    run cfg s (t :: ts) = run cfg ((step cfg s t).getD s) ts := rfl

/-- the shared state after a step -/
theorem setTh_sh (s : St) (sh : Sh) (t : Tid) (th : Th) : (({ s with sh := sh } : St).setTh t th).sh = sh := by
  cases t <;> rfl

/-- a step of thread `t` leaves every other thread as it was -/
theorem step_other (cfg : Cfg) (s s' : St) (t u : Tid) (hs : step cfg s t = some s') (hne : t ≠ u) :
    s'.getTh u = s.getTh u := by
  obtain ⟨th, sh', th', hth, hst, rfl⟩ := step_some cfg s s' t hs
  rw [getTh_setTh_other _ t u th' hne, getTh_sh]

theorem step_P_other (cfg : Cfg) (s s' : St) (t : Tid) (hs : step cfg s t = some s') (hne : t ≠ .p) : s'.P = s.P := by
  have := step_other cfg s s' t .p hs hne
  simpa [St.getTh] using this

theorem step_C_other (cfg : Cfg) (s s' : St) (t : Tid) (hs : step cfg s t = some s') (hne : t ≠ .c) : s'.C = s.C := by
  have := step_other cfg s s' t .c hs hne
  simpa [St.getTh] using this

/-! ### what one step does to the cursors and to `done` -/

/-- `done` changes only at the first statement of `Close`, which sets it -/
theorem tstep_done (cfg : Cfg) (sh sh' : Sh) (me : Tid) (th th' : Th)
    (hs : tstep cfg sh me th = some (sh', th')) :
    sh'.done = sh.done ∨ (th.pc = .x10 ∧ sh'.done = true) := by
  have hcr := tstep_crash _ _ _ _ _ hs
  obtain ⟨pc, prog, cur, slice, filled, view, pending, res⟩ := th
  cases pc
  case idle =>
    simp only [tstep, Bool.false_eq_true, ↓reduceIte, hcr] at hs
    cases prog with
    | nil => simp at hs
    | cons call rest => simp only [Option.some.injEq, Prod.mk.injEq] at hs; rw [← hs.1]; exact Or.inl rfl
  case l21 cpos =>
    simp only [tstep, Bool.false_eq_true, ↓reduceIte, hcr] at hs
    repeat' split at hs
    all_goals (simp only [Option.some.injEq, Prod.mk.injEq] at hs; rw [← hs.1]; exact Or.inl rfl)
  case r62 n cpos =>
    simp only [tstep, Bool.false_eq_true, ↓reduceIte, hcr] at hs
    repeat' split at hs
    all_goals (simp only [Option.some.injEq, Prod.mk.injEq] at hs; rw [← hs.1]; exact Or.inl rfl)
  case x10 =>
    tstep_norm
    obtain ⟨rfl, rfl⟩ := hs
    exact Or.inr ⟨rfl, rfl⟩
  all_goals tstep_norm
  all_goals tstep_elim
  all_goals (first | exact Or.inl rfl | (left; simp [Sh.bcast, Sh.park]))

theorem step_done (cfg : Cfg) (s s' : St) (t : Tid) (hs : step cfg s t = some s') :
    s'.sh.done = s.sh.done ∨ (∃ th, s.getTh t = some th ∧ th.pc = .x10 ∧ s'.sh.done = true) := by
  obtain ⟨th, sh', th', hth, hst, rfl⟩ := step_some cfg s s' t hs
  rw [setTh_sh]
  rcases tstep_done cfg s.sh sh' t th th' hst with h | ⟨h1, h2⟩
  · exact Or.inl h
  · exact Or.inr ⟨th, hth, h1, h2⟩

theorem step_done_mono (cfg : Cfg) (s s' : St) (t : Tid) (hs : step cfg s t = some s') (hd : s.sh.done = true) :
    s'.sh.done = true := by
  rcases step_done cfg s s' t hs with h | ⟨_, _, _, h⟩
  · rw [h]; exact hd
  · exact h

theorem run_done_mono (cfg : Cfg) (s : St) (sched : List Tid) (hd : s.sh.done = true) : (run cfg s sched).sh.done = true := by
  induction sched generalizing s with
  | nil => exact hd
  | cons t ts ih =>
    rw [run_cons]
    cases hs : step cfg s t with
    | none => exact ih s hd
    | some s' => exact ih s' (step_done_mono cfg s s' t hs hd)

/-- only the producer moves the producer cursor -/
theorem step_pseq (cfg : Cfg) (base : Nat) (s s' : St) (t : Tid) (h : RInv cfg base s)
    (hs : step cfg s t = some s') (hne : t ≠ .p) : s'.sh.pseq = s.sh.pseq := by
  obtain ⟨hg, hP, hC, hK, hiP, hiC⟩ := h
  obtain ⟨th, sh', th', hth, hst, rfl⟩ := step_some cfg s s' t hs
  rw [setTh_sh]
  cases t with
  | p => exact absurd rfl hne
  | c =>
    have hC' : s.C = th := by simpa [St.getTh] using hth
    subst hC'
    by_cases hd : dataPc s.C.pc = true
    · obtain ⟨_, _, _, e2, _, _⟩ := cons_data cfg base _ _ _ _ hg hiC hC hst hd
      exact e2
    · exact congrArg Core.pseq (core_frame cfg _ _ _ _ _ hst (by simpa using hd))
  | k i =>
    have hthk : s.K[i]? = some th := hth
    exact congrArg Core.pseq (core_frame cfg _ _ _ _ _ hst (role_any_noData i _ (hK i th hthk).role))

/-- only the consumer moves the consumer cursor -/
theorem step_cseq (cfg : Cfg) (base : Nat) (s s' : St) (t : Tid) (h : RInv cfg base s)
    (hs : step cfg s t = some s') (hne : t ≠ .c) : s'.sh.cseq = s.sh.cseq :=
  ((step_core cfg base s s' t h hs).2 hne).1

/-- the cursors only move forward -/
theorem step_mono (cfg : Cfg) (base : Nat) (s s' : St) (t : Tid) (h : RInv cfg base s)
    (hs : step cfg s t = some s') : s.sh.pseq ≤ s'.sh.pseq ∧ s.sh.cseq ≤ s'.sh.cseq := by
  by_cases hp : t = .p
  · subst hp
    obtain ⟨e1, e2⟩ := (step_core cfg base s s' .p h hs).2 (by simp)
    exact ⟨e2, Nat.le_of_eq e1.symm⟩
  · have e := step_pseq cfg base s s' t h hs hp
    refine ⟨Nat.le_of_eq e.symm, ?_⟩
    by_cases hc : t = .c
    · subst hc
      obtain ⟨hg, hP, hC, hK, hiP, hiC⟩ := h
      obtain ⟨th, sh', th', hth, hst, rfl⟩ := step_some cfg s s' .c hs
      rw [setTh_sh]
      have hC' : s.C = th := by simpa [St.getTh] using hth
      subst hC'
      by_cases hd : dataPc s.C.pc = true
      · obtain ⟨_, _, _, _, _, e4⟩ := cons_data cfg base _ _ _ _ hg hiC hC hst hd
        exact e4
      · exact Nat.le_of_eq (congrArg Core.cseq (core_frame cfg _ _ _ _ _ hst (by simpa using hd))).symm
    · exact Nat.le_of_eq (step_cseq cfg base s s' t h hs hc).symm

theorem run_mono (cfg : Cfg) (base : Nat) (s : St) (sched : List Tid) (h : RInv cfg base s) :
    s.sh.pseq ≤ (run cfg s sched).sh.pseq ∧ s.sh.cseq ≤ (run cfg s sched).sh.cseq := by
  induction sched generalizing s with
  | nil => exact ⟨Nat.le_refl _, Nat.le_refl _⟩
  | cons t ts ih =>
    rw [run_cons]
    cases hs : step cfg s t with
    | none => exact ih s h
    | some s' =>
      obtain ⟨a, b⟩ := step_mono cfg base s s' t h hs
      obtain ⟨c, d⟩ := ih s' (inv_step cfg base s s' t h hs)
      exact ⟨Nat.le_trans a c, Nat.le_trans b d⟩

/-! ### the visible steps -/

/-- what a step looks like through `absRing` -/
inductive Vis where
  | tau                 -- invisible
  | prod (n : Nat)      -- the producer commits `n` bytes
  | cons (n : Nat)      -- the consumer commits `n` bytes
  | close               -- `done := true`
deriving DecidableEq, Repr

/-- the linearisation points: the cursor stores and the `done` store -/
def visOf : Pc → Vis
  | .w42 n _ | .c50 n _ => .prod n
  | .r64 _ _ acc => .cons acc.length
  | .k102 n _ => .cons n
  | .x10 => .close
  | _ => .tau

/-- **Every step of the ring program is a `RingA` effect or invisible.**  From a state satisfying
the safety invariant, a step of thread `t` at program counter `pc`:
* `visOf pc = prod n` (the cursor store of `Write` / `WriteCommit`): `t` is the producer, `pseq` grows by
  `n`, nothing else of `absRing` changes, and `buf + n ≤ cap` held before the step;
* `visOf pc = cons n` (the cursor store of `Read` / `ReadCommit`): `t` is the consumer, `cseq` grows by
  `n`, and `n ≤ buf` held before the step;
* `visOf pc = close` (the first statement of `Close`): `done` becomes true, the cursors stay;
* otherwise the cursors and `done` are unchanged. -/
theorem vis_step (cfg : Cfg) (base : Nat) (s s' : St) (t : Tid) (th : Th) (h : RInv cfg base s)
    (hth : s.getTh t = some th) (hs : step cfg s t = some s') :
    match visOf th.pc with
    | .tau => s'.sh.pseq = s.sh.pseq ∧ s'.sh.cseq = s.sh.cseq ∧ s'.sh.done = s.sh.done
    | .prod n => t = .p ∧ s'.sh.pseq = s.sh.pseq + n ∧ s'.sh.cseq = s.sh.cseq ∧ s'.sh.done = s.sh.done ∧
        s.sh.pseq + n ≤ s.sh.cseq + cfg.size
    | .cons n => t = .c ∧ s'.sh.cseq = s.sh.cseq + n ∧ s'.sh.pseq = s.sh.pseq ∧ s'.sh.done = s.sh.done ∧
        s.sh.cseq + n ≤ s.sh.pseq
    | .close => s'.sh.pseq = s.sh.pseq ∧ s'.sh.cseq = s.sh.cseq ∧ s'.sh.done = true := by
  have h' := inv_step cfg base s s' t h hs
  have hpc' : s'.sh.pseq ≤ s'.sh.cseq + cfg.size := h'.glob.pc
  have hcp' : s'.sh.cseq ≤ s'.sh.pseq := h'.glob.cp
  obtain ⟨th0, sh', th', hth0, hst, rfl⟩ := step_some cfg s s' t hs
  rw [hth] at hth0; cases hth0
  rw [setTh_sh] at hpc' hcp' ⊢
  have hok := thOK_of_rinv cfg base s h t th hth
  have hcr := tstep_crash _ _ _ _ _ hst
  have hdone := tstep_done cfg s.sh sh' t th th' hst
  -- the steps that leave the core alone
  by_cases hd : dataPc th.pc = false
  · have hc := core_frame cfg _ _ _ _ _ hst hd
    have e1 : sh'.pseq = s.sh.pseq := congrArg Core.pseq hc
    have e2 : sh'.cseq = s.sh.cseq := congrArg Core.cseq hc
    cases hpc : th.pc <;> rw [hpc] at hd hdone <;> simp only [dataPc, Bool.true_eq_false] at hd <;> simp only [visOf]
    case x10 =>
      rcases hdone with e | ⟨_, e⟩
      · -- cannot happen, but harmless: the step at x10 sets done
        obtain ⟨pc, prog, cur, slice, filled, view, pending, res⟩ := th
        simp only at hpc
        subst hpc
        have hs := hst
        tstep_norm
        obtain ⟨rfl, rfl⟩ := hs
        exact ⟨rfl, rfl, rfl⟩
      · exact ⟨e1, e2, e⟩
    all_goals (
      rcases hdone with e | ⟨e, _⟩
      · exact ⟨e1, e2, e⟩
      · cases e)
  · have hd' : dataPc th.pc = true := by simpa using hd
    obtain ⟨pc, prog, cur, slice, filled, view, pending, res⟩ := th
    simp only at hd' hdone ⊢
    have hrole := hok.role
    simp only at hrole
    cases pc <;> simp only [dataPc, Bool.false_eq_true] at hd' <;> simp only [visOf]
    case w42 n ppos =>
      have ht : t = .p := prod_is_p t hrole
      subst ht
      have hP := hth
      simp only [St.getTh, Option.some.injEq] at hP
      have hp := h.invP.pcinv
      rw [hP] at hp
      simp only [pcP] at hp
      have e1 : ppos = s.sh.pseq := hp.1
      have hs := hst
      tstep_norm
      obtain ⟨rfl, rfl⟩ := hs
      refine ⟨rfl, ?_, rfl, rfl, ?_⟩
      · show ppos + n = s.sh.pseq + n; rw [e1]
      · have : ppos + n ≤ s.sh.cseq + cfg.size := hpc'
        omega
    case c50 n ppos =>
      have ht : t = .p := prod_is_p t hrole
      subst ht
      have hP := hth
      simp only [St.getTh, Option.some.injEq] at hP
      have hp := h.invP.pcinv
      rw [hP] at hp
      simp only [pcP] at hp
      have e1 : ppos = s.sh.pseq := hp.1
      have hs := hst
      tstep_norm
      obtain ⟨rfl, rfl⟩ := hs
      refine ⟨rfl, ?_, rfl, rfl, ?_⟩
      · show ppos + n = s.sh.pseq + n; rw [e1]
      · have : ppos + n ≤ s.sh.cseq + cfg.size := hpc'
        omega
    case r64 b cpos acc =>
      have ht : t = .c := by cases t <;> simp [pcRole, roleOK] at hrole ⊢
      subst ht
      have hC := hth
      simp only [St.getTh, Option.some.injEq] at hC
      have hp := h.invC.pcinv
      rw [hC] at hp
      simp only [pcC] at hp
      have e1 : cpos = s.sh.cseq := hp.1
      have hs := hst
      tstep_norm
      obtain ⟨rfl, rfl⟩ := hs
      refine ⟨rfl, ?_, rfl, rfl, ?_⟩
      · show cpos + acc.length = s.sh.cseq + acc.length; rw [e1]
      · have : cpos + acc.length ≤ s.sh.pseq := hcp'
        omega
    case k102 n cpos =>
      have ht : t = .c := by cases t <;> simp [pcRole, roleOK] at hrole ⊢
      subst ht
      have hC := hth
      simp only [St.getTh, Option.some.injEq] at hC
      have hp := h.invC.pcinv
      rw [hC] at hp
      simp only [pcC] at hp
      have e1 : cpos = s.sh.cseq := hp.1
      have hs := hst
      tstep_norm
      obtain ⟨rfl, rfl⟩ := hs
      refine ⟨rfl, ?_, rfl, rfl, ?_⟩
      · show cpos + n = s.sh.cseq + n; rw [e1]
      · have : cpos + n ≤ s.sh.pseq := hcp'
        omega
    -- the byte copies and the gate store change cells / the gate only
    all_goals (
      have hs := hst
      tstep_norm
      tstep_elim
      all_goals (first | exact ⟨rfl, rfl, rfl⟩ | (refine ⟨?_, ?_, ?_⟩ <;> simp only [pseq_unlock, cseq_unlock, done_unlock])))

end Mqtt.Proofs.Ring
