/-
The live fan-out of the broker model against the reference broker's `fanout`,
for every kind of message object the model hands to `onPublish`: decoded
(non-dirty) PUBLISH packets, the will and `Server.Publish` messages (dirty,
without identifier: the first encode for a QoS > 0 subscriber draws one from the
process-wide counter, and `nextPacketID` never yields 0).
-/
import Mqtt.Proofs.BrokerRefineAccepts
import Mqtt.Proofs.BrokerFanoutHistory

set_option linter.unusedSimpArgs false

namespace Mqtt.Proofs.BrokerRefine
open Mqtt.Iface.Broker Mqtt.Model.Broker
open Mqtt.Spec.Broker (SOut Held wild idOk pubOf outOwner modelGroup specGroup)
open Mqtt.Model.Topics (MemTopics RMsg)
open Mqtt.Proofs.Topics (WF RWF abs absR good entryLevels)
open Mqtt.Spec.Match (split validName validFilter topicMatches)

theorem nextPacketID_ne_zero (ctr : Nat) : (nextPacketID ctr).1 ≠ 0 := by
  unfold nextPacketID
  split
  · assumption
  · simp only; omega

/-- the copy of (topic, payload) at QoS `q` as the specification writes it -/
def mkCopy (t pl : Bytes) (q : Nat) : Pub := { qos := q, retain := false, topic := t, payload := pl }

theorem wild_mkCopy (t pl : Bytes) (q : Nat) : wild (mkCopy t pl q) = mkCopy t pl q := rfl

/-- what an encode does to a message object that has an identifier, or is dirty
(will get one when it needs one), or is sent at QoS 0 -/
theorem encode_spec (m : Msg) (ctr : Nat) (ht : m.p.topic ≠ [])
    (hok : m.p.pktid ≠ 0 ∨ m.dirty = true ∨ m.p.qos = 0) :
    ∃ w m' ctr', m.encode ctr = some (w, m', ctr') ∧ idOk w = true ∧
      w.qos = m.p.qos ∧ w.retain = m.p.retain ∧ w.topic = m.p.topic ∧ w.payload = m.p.payload ∧
      m'.p.qos = m.p.qos ∧ m'.p.retain = m.p.retain ∧ m'.p.topic = m.p.topic ∧ m'.p.payload = m.p.payload ∧
      (m.p.pktid ≠ 0 → m'.p.pktid ≠ 0) ∧ (m.dirty = true → m'.p.pktid ≠ 0 ∨ m'.dirty = true) ∧
      (m.p.qos ≠ 0 → m'.p.pktid ≠ 0) := by
  obtain ⟨⟨dup, qos, retain, topic, pktid, payload⟩, dirty⟩ := m
  simp only at ht hok
  have hte : topic.isEmpty = false := by cases topic <;> simp_all
  unfold Msg.encode
  cases dirty with
  | false =>
    simp only [Bool.not_false, ↓reduceIte]
    refine ⟨_, _, _, rfl, ?_⟩
    by_cases hq : qos = 0
    · subst hq; simp [idOk]
    · have hq' : (qos == 0) = false := by simpa using hq
      have hp : pktid ≠ 0 := by
        rcases hok with h | h | h
        · exact h
        · cases h
        · exact absurd h hq
      simp [idOk, hq', hp, hq]
  | true =>
    simp only [Bool.not_true, Bool.false_eq_true, ↓reduceIte, hte]
    by_cases hq : qos = 0
    · subst hq
      have h00 : ((0 : Nat) != 0) = false := rfl
      simp only [h00, Bool.false_and, Bool.false_eq_true, ↓reduceIte]
      refine ⟨_, _, _, rfl, ?_⟩
      simp [idOk]
    · have hq' : (qos == 0) = false := by simpa using hq
      have hq'' : (qos != 0) = true := by simpa using hq
      by_cases hp : pktid = 0
      · subst hp
        simp only [hq'', BEq.rfl, Bool.and_self, ↓reduceIte]
        refine ⟨_, _, _, rfl, ?_⟩
        have := nextPacketID_ne_zero ctr
        simp [idOk, hq', this]
      · have hp' : (pktid == 0) = false := by simpa using hp
        simp only [hq'', hp', Bool.and_false, Bool.false_eq_true, ↓reduceIte]
        refine ⟨_, _, _, rfl, ?_⟩
        simp [idOk, hq', hp, hq]

/-- `deliverConn` to a live connection, RETAIN already cleared -/
theorem deliverConn_spec (b : B) (d : Nat) (m : Msg) (hal : b.alive d = true) (hr : m.p.retain = false)
    (ht : m.p.topic ≠ []) (hok : m.p.pktid ≠ 0 ∨ m.dirty = true ∨ m.p.qos = 0) :
    ∃ w m' ctr', deliverConn b d m = ({ b with ctr := ctr' }, m', [.send d (.publish w)]) ∧ idOk w = true ∧
      wild w = mkCopy m.p.topic m.p.payload m.p.qos ∧
      m'.p.retain = false ∧ m'.p.topic = m.p.topic ∧ m'.p.payload = m.p.payload ∧
      (m.p.pktid ≠ 0 → m'.p.pktid ≠ 0) ∧ (m.dirty = true → m'.p.pktid ≠ 0 ∨ m'.dirty = true) ∧
      (m.p.qos ≠ 0 → m'.p.pktid ≠ 0) := by
  obtain ⟨w, m', ctr', he, h1, h2, h3, h4, h5, _, h7, h8, h9, h10, h11, h12⟩ := encode_spec m b.ctr ht hok
  refine ⟨w, m', ctr', ?_, h1, ?_, by rw [h7, hr], h8, h9, h10, h11, h12⟩
  · unfold deliverConn
    simp only [hr, Bool.false_eq_true, ↓reduceIte, hal, Bool.not_true, he]
  · obtain ⟨dup, qos, retain, topic, pktid, payload⟩ := w
    simp only at h2 h3 h4 h5
    subst h2 h3 h4 h5
    simp [wild, mkCopy, hr]

/-- the output for subscriber `sq` of a message on `t` with payload `pl` -/
def OutFor (t pl : Bytes) (sq : Nat × Nat) (y : Out) : Prop :=
  okOut y = true ∧ outOwner y = some sq.1 ∧ (pubOf y).map wild = some (mkCopy t pl sq.2)

inductive OutsFor (t pl : Bytes) : List (Nat × Nat) → List Out → Prop
  | nil : OutsFor t pl [] []
  | cons {sq : Nat × Nat} {y : Out} {subs : List (Nat × Nat)} {ys : List Out} :
      OutFor t pl sq y → OutsFor t pl subs ys → OutsFor t pl (sq :: subs) (y :: ys)

theorem OutsFor.okOut {t pl : Bytes} {subs : List (Nat × Nat)} {ys : List Out} (h : OutsFor t pl subs ys) :
    ∀ y ∈ ys, okOut y = true := by
  induction h with
  | nil => simp
  | cons h1 _ ih =>
    intro y hy
    rcases List.mem_cons.mp hy with rfl | hy
    · exact h1.1
    · exact ih y hy

theorem OutsFor.group {t pl : Bytes} {subs : List (Nat × Nat)} {ys : List Out} (h : OutsFor t pl subs ys) (g : Nat) :
    ((modelGroup g ys).filterMap pubOf).map wild =
      (subs.filter (fun sq => sq.1 == g)).map (fun sq => mkCopy t pl sq.2) := by
  induction h with
  | nil => rfl
  | @cons sq y subs ys h1 _ ih =>
    obtain ⟨hk, ho, hp⟩ := h1
    by_cases hg : sq.1 = g
    · have h1 : modelGroup g (y :: ys) = y :: modelGroup g ys := by
        simp [modelGroup, List.filter_cons, ho, hg]
      have h2 : (sq :: subs).filter (fun sq => sq.1 == g) = sq :: subs.filter (fun sq => sq.1 == g) := by
        simp [List.filter_cons, hg]
      rw [h1, h2]
      cases hpy : pubOf y with
      | none => rw [hpy] at hp; cases hp
      | some w =>
        rw [hpy] at hp
        simp only [Option.map_some, Option.some.injEq] at hp
        simp only [List.filterMap_cons, hpy, List.map_cons, hp, ih]
    · have h1 : modelGroup g (y :: ys) = modelGroup g ys := by
        simp [modelGroup, List.filter_cons, ho, hg]
      have h2 : (sq :: subs).filter (fun sq => sq.1 == g) = subs.filter (fun sq => sq.1 == g) := by
        simp [List.filter_cons, hg]
      rw [h1, h2, ih]

/-- the fan-out loop: one output per subscriber, in list order -/
theorem fanout_outsFor (subs : List (Nat × Nat)) : ∀ (b : B) (m : Msg), m.p.retain = false → m.p.topic ≠ [] →
    (m.p.pktid ≠ 0 ∨ m.dirty = true ∨ ∀ sq ∈ subs, sq.2 = 0) →
    (∀ sq ∈ subs, sq.1 < cbBase → b.alive sq.1 = true) →
    OutsFor m.p.topic m.p.payload subs (fanout b m subs).2.2 := by
  induction subs with
  | nil => intro b m _ _ _ _; exact .nil
  | cons sq rest ih =>
    intro b m hr ht hok hal
    obtain ⟨s, q⟩ := sq
    have hok1 : (m.setQoS q).p.pktid ≠ 0 ∨ (m.setQoS q).dirty = true ∨ (m.setQoS q).p.qos = 0 := by
      rcases hok with h | h | h
      · exact .inl h
      · exact .inr (.inl (by simp [Msg.setQoS, h]))
      · exact .inr (.inr (h (s, q) (List.mem_cons_self ..)))
    by_cases hs : s < cbBase
    · obtain ⟨w, m', ctr', hd, h1, h2, h3, h4, h5, h6, h7, h8⟩ :=
        deliverConn_spec b s (m.setQoS q) (hal (s, q) (List.mem_cons_self ..) hs) hr ht hok1
      have hstep : fanout b m ((s, q) :: rest) =
          ((fanout { b with ctr := ctr' } m' rest).1, (fanout { b with ctr := ctr' } m' rest).2.1,
            [Out.send s (.publish w)] ++ (fanout { b with ctr := ctr' } m' rest).2.2) := by
        simp only [fanout, hs, ↓reduceIte, hd]
      rw [hstep]
      have hrest := ih { b with ctr := ctr' } m' h3 (by rw [h4]; exact ht)
        (by
          rcases hok with h | h | h
          · exact .inl (h6 h)
          · rcases h7 (by simp [Msg.setQoS, h]) with h' | h'
            · exact .inl h'
            · exact .inr (.inl h')
          · exact .inr (.inr (fun sq hsq => h sq (List.mem_cons_of_mem _ hsq))))
        (fun sq hsq hlt => hal sq (List.mem_cons_of_mem _ hsq) hlt)
      rw [h4, h5] at hrest
      refine .cons ⟨?_, rfl, ?_⟩ hrest
      · exact h1
      · simp only [pubOf, Option.map_some, h2]; rfl
    · have hstep : fanout b m ((s, q) :: rest) =
          ((fanout b (m.setQoS q) rest).1, (fanout b (m.setQoS q) rest).2.1,
            [Out.call s (m.setQoS q).p] ++ (fanout b (m.setQoS q) rest).2.2) := by
        simp only [fanout, hs, ↓reduceIte]
      rw [hstep]
      have hrest := ih b (m.setQoS q) hr ht
        (by
          rcases hok with h | h | h
          · exact .inl h
          · exact .inr (.inl (by simp [Msg.setQoS, h]))
          · exact .inr (.inr (fun sq hsq => h sq (List.mem_cons_of_mem _ hsq))))
        (fun sq hsq hlt => hal sq (List.mem_cons_of_mem _ hsq) hlt)
      refine .cons ⟨?_, rfl, ?_⟩ hrest
      · have hcb := Mqtt.Proofs.Broker.facts_cbBase
        simp only [okOut, decide_eq_true_eq]; omega
      · obtain ⟨⟨dup, qos, retain, topic, pktid, payload⟩, dirty⟩ := m
        simp only at hr
        subst hr
        rfl

/-! ### the reference broker's `fanout`, per addressee -/

theorem filter_eraseDups_eq (g : Nat) : ∀ (n : Nat) (l : List Nat), l.length ≤ n →
    l.eraseDups.filter (fun o => o == g) = if g ∈ l then [g] else [] := by
  intro n
  induction n with
  | zero =>
    intro l hl
    have : l = [] := List.length_eq_zero_iff.mp (by omega)
    subst this; rfl
  | succ n ih =>
    intro l hl
    cases l with
    | nil => rfl
    | cons a as =>
      rw [List.eraseDups_cons]
      have hlen : (as.filter (fun b => !b == a)).length ≤ n := by
        have := List.length_filter_le (fun b => !b == a) as
        simp only [List.length_cons] at hl
        omega
      rw [List.filter_cons, ih _ hlen]
      by_cases ha : a = g
      · subst ha
        simp
      · have hag : (a == g) = false := by simpa using ha
        have hga : ¬ g = a := fun h => ha h.symm
        simp only [hag, Bool.false_eq_true, ↓reduceIte, List.mem_filter, Bool.not_eq_true', beq_eq_false_iff_ne, ne_eq,
          List.mem_cons, hga, false_or, not_false_eq_true, and_true]

theorem copies_fanout (s : Spec.Broker.S) (t pl : Bytes) (q g : Nat) :
    copiesOf (specGroup g (Spec.Broker.fanout s t pl q)) =
      ((Spec.Broker.matching s t).filter (fun h => h.owner == g)).map (fun h => mkCopy t pl (min q h.qos)) := by
  unfold Spec.Broker.fanout specGroup
  simp only
  rw [List.filter_map]
  have hf : ((fun (x : SOut) => x.owner == some g && !Spec.Broker.isEmptyRetained x) ∘ fun o =>
      SOut.deliver o (((Spec.Broker.matching s t).filter (fun h => h.owner == o)).map fun h =>
        ({ qos := min q h.qos, retain := false, topic := t, payload := pl } : Pub))) = fun o => o == g := by
    funext o
    simp [Spec.Broker.SOut.owner, Spec.Broker.isEmptyRetained]
  rw [hf]
  unfold Spec.Broker.owners
  rw [filter_eraseDups_eq g _ _ (Nat.le_refl _)]
  split
  · simp only [List.map_cons, List.map_nil, copiesOf, itemCopies, List.flatten_cons, List.flatten_nil, List.append_nil,
      List.map_map]
    rfl
  · rename_i hg
    simp only [List.map_nil, copiesOf, List.flatten_nil]
    symm
    rw [List.map_eq_nil_iff, List.filter_eq_nil_iff]
    intro h hh hgo
    apply hg
    simp only [beq_iff_eq] at hgo
    exact List.mem_map.mpr ⟨h, hh, hgo⟩

/-- outputs that hand every matching subscription its copy are a fan-out in the sense of `Fan` -/
theorem fan_of_outsFor (s : Spec.Broker.S) (t pl : Bytes) (q : Nat) (subs : List (Nat × Nat)) (outs : List Out)
    (ho : OutsFor t pl subs outs)
    (hp : subs.Perm ((Spec.Broker.matching s t).map (fun h => (h.owner, min q h.qos)))) :
    Fan (Spec.Broker.fanout s t pl q) outs := by
  refine ⟨?_, ?_, ho.okOut, ?_⟩
  · intro x hx
    simp only [Spec.Broker.fanout, List.mem_map] at hx
    obtain ⟨o, _, rfl⟩ := hx
    rfl
  · intro o cs hx
    simp only [Spec.Broker.fanout, List.mem_map, SOut.deliver.injEq] at hx
    obtain ⟨o', ho', rfl, rfl⟩ := hx
    simp only [Spec.Broker.owners] at ho'
    rw [List.mem_eraseDups, List.mem_map] at ho'
    obtain ⟨h, hh, rfl⟩ := ho'
    intro h0
    rw [List.map_eq_nil_iff, List.filter_eq_nil_iff] at h0
    exact h0 h hh (by simp)
  · intro g
    rw [ho.group g, copies_fanout]
    have := (hp.filter (fun sq => sq.1 == g)).map (fun sq => mkCopy t pl sq.2)
    refine this.trans ?_
    rw [List.filter_map, List.map_map]
    exact List.Perm.refl _

end Mqtt.Proofs.BrokerRefine
