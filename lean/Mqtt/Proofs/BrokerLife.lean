/-
Helper lemmas for the connection life-cycle properties C09, C10, C11 of the
broker model (`Model/Broker.lean`): the first packet (`first`), the end of a
connection (`stop`), the bridge from the regenerated constants to the
specification's, and frame lemmas (which fields the publish machinery touches).
-/
import Mqtt.Model.Broker
import Mqtt.Spec.Broker
import Mqtt.Proofs.BrokerConnect

namespace Mqtt.Proofs.BrokerLife
open Mqtt.Iface.Broker Mqtt.Model.Broker
open Mqtt.Model.Topics (MemTopics)

/-! ### the regenerated constants are the protocol's -/

theorem facts_mqtt : "MQTT".toUTF8.toList = [77, 81, 84, 84] := by decide +kernel
theorem facts_mqisdp : "MQIsdp".toUTF8.toList = [77, 81, 73, 115, 100, 112] := by decide +kernel

/-- the name/level check of `connectDecode`, as a Boolean -/
def levelOk (req : Connect) : Bool :=
  match Generated.supportedVersions.lookup req.version with
  | none => false
  | some name => name == req.protoName

/-- `Generated.supportedVersions` (read from `message.SupportedVersions`) is the
specification's table of protocol name/level pairs. -/
theorem facts_versions (req : Connect) :
    levelOk req = Spec.Broker.knownVersion req.protoName req.version := by
  unfold levelOk Spec.Broker.knownVersion
  rw [facts_mqtt, facts_mqisdp]
  have hl : List.lookup req.version Generated.supportedVersions =
      if req.version == 3 then some [77, 81, 73, 115, 100, 112]
      else if req.version == 4 then some [77, 81, 84, 84] else none := by
    unfold Generated.supportedVersions
    simp only [List.lookup]
    cases req.version == 3 <;> cases req.version == 4 <;> rfl
  rw [hl]
  by_cases h3 : req.version = 3
  · simp [h3, BEq.comm]
  · by_cases h4 : req.version = 4
    · simp [h4, BEq.comm]
    · simp [h3, h4]

theorem facts_printable (x : UInt8) : printable x = Spec.Broker.printable x := rfl

/-! ### the checks of the CONNECT, one Boolean per check -/

/-- connect-flag checks of `connectDecode` (reserved bit, will QoS, will bits without will flag) -/
def flagsBad (req : Connect) : Bool :=
  req.reserved ||
  (match req.will with | some w => decide (w.qos > 2) | none => decide (req.willQosNoWill > 2)) ||
  (req.will.isNone && (req.willRetainNoWill || req.willQosNoWill != 0))

/-- client-identifier checks of `connectDecode` -/
def idBad (req : Connect) : Bool :=
  (req.clientId.isEmpty && !req.clean) ||
  (!req.clientId.isEmpty && !(req.clientId.all printable && req.clientId.length ≤ 32))

/-- `connectDecode` is the cascade level → flags → identifier. -/
theorem connectDecode_eq (req : Connect) :
    connectDecode req =
      if !levelOk req then .inl 1
      else if flagsBad req then .inr false
      else if idBad req then .inl 2
      else .inr true := by
  unfold connectDecode levelOk flagsBad idBad
  cases hl : Generated.supportedVersions.lookup req.version with
  | none => simp
  | some name =>
    by_cases hn : name = req.protoName
    · subst hn
      by_cases hq : 2 < req.willQosNoWill <;> by_cases he : req.clientId = [] <;>
        cases req.reserved <;> cases req.clean <;> cases hw : req.will <;> simp [he, hq] <;>
          split <;> simp_all
    · simp [hn]

/-! ### the first packet -/

/-- the first packet is a CONNECT passing every check, with accepted credentials -/
def accepts (f : First) (authOk : Bool) : Bool :=
  match f with
  | .connect req => levelOk req && !flagsBad req && !idBad req && authOk
  | _ => false

/-- `getSession`: the client identifier in force (an empty one is replaced) -/
def effCid (c : Nat) (req : Connect) : Bytes :=
  if req.clientId.isEmpty then Mqtt.Model.Broker.anonId c else req.clientId

/-- `getSession`: the CleanSession flag in force (an empty identifier forces 1) -/
def effClean (req : Connect) : Bool := if req.clientId.isEmpty then true else req.clean

/-- the session object a CONNECT resumes, if any -/
def resumed (b : B) (c : Nat) (req : Connect) : Option Sess :=
  if effClean req then none
  else ((b.storeGet (effCid c req)).bind b.getSess).filter (fun s => !s.clean)

/-- `Session.Update` -/
def updSess (s : Sess) (req : Connect) : Sess :=
  { s with clean := effClean req, willFlag := req.will.isSome, will := initWill req }

/-- `Session.Init` on a new object -/
def newSess (b : B) (c : Nat) (req : Connect) : Sess :=
  { ref := b.nextRef, cid := effCid c req, clean := effClean req, willFlag := req.will.isSome,
    will := initWill req, topics := [], pub2in := [] }

/-- the connection table after `c` was accepted with session object `ref` -/
def addConn (b : B) (c ref : Nat) : B :=
  { b with conns := b.conns.filter (fun (x : Conn) => x.id != c) ++ [({ id := c, sess := ref, alive := true } : Conn)] }

/-- state and SessionPresent bit after an accepted CONNECT -/
def accepted (b : B) (c : Nat) (req : Connect) : B × Bool :=
  match resumed b c req with
  | some s =>
    let b1 := addConn (b.setSess (updSess s req)) c s.ref
    ({ b1 with topics := resubscribe b1.topics c s.topics }, true)
  | none =>
    let s := newSess b c req
    let b1 := addConn ((({ b with nextRef := b.nextRef + 1 }).setSess s).storeSet s.cid s.ref) c s.ref
    (b1, false)

/-- `first` as a decision cascade. -/
theorem first_connect (b : B) (c : Nat) (req : Connect) (a : Bool) :
    first b c (.connect req) a =
      if !levelOk req then (b, [.send c (.connack false 1), .closed c])
      else if flagsBad req then (b, [.closed c])
      else if idBad req then (b, [.send c (.connack false 2), .closed c])
      else if !a then (b, [.send c (.connack false 4), .closed c])
      else ((accepted b c req).1, [.send c (.connack (accepted b c req).2 0)]) := by
  simp only [first]
  rw [connectDecode_eq]
  by_cases h1 : levelOk req = true <;> simp only [h1, Bool.not_true, Bool.not_false, Bool.false_eq_true, ↓reduceIte]
  by_cases h2 : flagsBad req = true <;> simp only [h2, Bool.false_eq_true, ↓reduceIte]
  by_cases h3 : idBad req = true <;> simp only [h3, Bool.false_eq_true, ↓reduceIte]
  cases a <;> simp only [Bool.not_true, Bool.not_false, Bool.false_eq_true, ↓reduceIte]
  unfold accepted resumed updSess newSess addConn effClean effCid
  by_cases he : req.clientId.isEmpty = true
  · simp only [he, ↓reduceIte, resubscribe]
  · simp only [he, Bool.false_eq_true, ↓reduceIte]
    split <;> rename_i hr <;> simp only [hr] <;> rfl

theorem first_accepted (b : B) (c : Nat) (req : Connect) (a : Bool) (h : accepts (.connect req) a = true) :
    first b c (.connect req) a = ((accepted b c req).1, [.send c (.connack (accepted b c req).2 0)]) := by
  simp only [accepts, Bool.and_eq_true, Bool.not_eq_true'] at h
  obtain ⟨⟨⟨h1, h2⟩, h3⟩, h4⟩ := h
  rw [first_connect]
  simp [h1, h2, h3, h4]

/-- what a non-accepting `first` does: one of four fixed answers, state untouched -/
theorem first_refused (b : B) (c : Nat) (f : First) (a : Bool) (h : accepts f a = false) :
    first b c f a = (b, [.closed c]) ∨
    ∃ k, (k = 1 ∨ k = 2 ∨ k = 4) ∧ first b c f a = (b, [.send c (.connack false k), .closed c]) := by
  cases f with
  | garbage => exact .inl rfl
  | other t => exact .inl rfl
  | connect req =>
    rw [first_connect]
    by_cases h1 : levelOk req = true
    · by_cases h2 : flagsBad req = true
      · simp [h1, h2]
      · by_cases h3 : idBad req = true
        · right; exact ⟨2, by simp, by simp [h1, h2, h3]⟩
        · cases a
          · right; exact ⟨4, by simp, by simp [h1, h2, h3]⟩
          · simp [accepts, h1, h2, h3] at h
    · right; exact ⟨1, by simp, by simp [h1]⟩

/-- acceptance is visible: exactly the accepting `first` emits a CONNACK with code 0 -/
theorem accepts_iff_emits (b : B) (c : Nat) (f : First) (a : Bool) :
    accepts f a = true ↔ ∃ sp, Out.send c (.connack sp 0) ∈ (first b c f a).2 := by
  constructor
  · intro h
    cases f with
    | garbage => simp [accepts] at h
    | other t => simp [accepts] at h
    | connect req => rw [first_accepted b c req a h]; exact ⟨(accepted b c req).2, by simp⟩
  · intro ⟨sp, h⟩
    cases hacc : accepts f a with
    | true => rfl
    | false =>
      rcases first_refused b c f a hacc with h1 | ⟨k, hk, h1⟩
      · rw [h1] at h; simp at h
      · rw [h1] at h
        simp at h
        omega

/-! ### connections that are not live -/

theorem packet_dead (b : B) (c : Nat) (p : Packet) (h : b.alive c = false) : packet b c p = (b, []) := by
  unfold packet
  unfold B.alive at h
  cases hc : b.getConn c with
  | none => rfl
  | some cn => simp only [hc] at h; simp [h]

theorem stop_dead (b : B) (c : Nat) (h : b.alive c = false) : stop b c = (b, []) := by
  unfold stop
  unfold B.alive at h
  cases hc : b.getConn c with
  | none => rfl
  | some cn => simp only [hc] at h; simp [h]

/-! ### the specification's refusal list, in terms of the model's checks -/

theorem spec_flags (req : Connect) :
    (req.reserved || (match req.will with
      | some w => decide (w.qos > 2)
      | none => decide (req.willQosNoWill != 0) || req.willRetainNoWill)) = flagsBad req := by
  unfold flagsBad
  cases req.reserved <;> cases hw : req.will <;> cases hr : req.willRetainNoWill <;> simp
  · by_cases h0 : req.willQosNoWill = 0 <;> simp [h0]

theorem spec_id (req : Connect) :
    ((req.clientId.isEmpty && !req.clean) ||
      !(req.clientId.all Spec.Broker.printable && req.clientId.length ≤ 32)) = idBad req := by
  unfold idBad
  have : Spec.Broker.printable = printable := rfl
  rw [this]
  cases req.clientId with
  | nil => simp
  | cons x xs => simp

theorem refusals_eq (req : Connect) (a : Bool) :
    Spec.Broker.refusals req a =
      (if !levelOk req then [some 1] else []) ++ (if flagsBad req then [none] else []) ++
      (if idBad req then [some 2] else []) ++ (if !a then [some 4] else []) := by
  unfold Spec.Broker.refusals
  rw [← spec_flags, ← spec_id, facts_versions]
  rfl

theorem refusals_nil_iff (req : Connect) (a : Bool) :
    Spec.Broker.refusals req a = [] ↔ accepts (.connect req) a = true := by
  rw [refusals_eq]
  cases h1 : levelOk req <;> cases h2 : flagsBad req <;> cases h3 : idBad req <;> cases a <;>
    simp [accepts, h1, h2, h3]

/-! ### the connection table and session objects after an accepted CONNECT -/

theorem find_filter_ne (l : List Conn) (c d : Nat) (h : d ≠ c) :
    (l.filter (fun (x : Conn) => x.id != c)).find? (fun x => x.id == d) = l.find? (fun x => x.id == d) := by
  induction l with
  | nil => rfl
  | cons x xs ih =>
    by_cases hx : x.id = c
    · have hd : (x.id == d) = false := by
        rw [beq_eq_false_iff_ne]; exact fun hd => h (hd ▸ hx)
      have hf : (x.id != c) = false := by simp [hx]
      rw [List.filter_cons, List.find?_cons, hd, hf]
      exact ih
    · have hf : (x.id != c) = true := by simp [hx]
      rw [List.filter_cons, hf]
      simp only [↓reduceIte, List.find?_cons, ih]

theorem find_filter_self (l : List Conn) (c : Nat) :
    (l.filter (fun (x : Conn) => x.id != c)).find? (fun x => x.id == c) = none := by
  rw [List.find?_eq_none]
  intro x hx
  simp only [List.mem_filter] at hx
  simpa using hx.2

theorem getConn_addConn (b : B) (c r : Nat) :
    (addConn b c r).getConn c = some { id := c, sess := r, alive := true } := by
  unfold addConn B.getConn
  simp only [List.find?_append, find_filter_self]
  simp

theorem getConn_addConn_ne (b : B) (c d r : Nat) (h : d ≠ c) :
    (addConn b c r).getConn d = b.getConn d := by
  unfold addConn B.getConn
  simp only [List.find?_append, find_filter_ne _ _ _ h]
  have h2 : ¬ c = d := fun hc => h hc.symm
  cases b.conns.find? (fun x => x.id == d) <;> simp [h2]

theorem find_map_replace (l : List Sess) (s : Sess) (h : l.any (fun x => x.ref == s.ref) = true) :
    (l.map (fun x => if x.ref == s.ref then s else x)).find? (fun x => x.ref == s.ref) = some s := by
  induction l with
  | nil => simp at h
  | cons x xs ih =>
    by_cases hx : (x.ref == s.ref) = true
    · rw [List.map_cons, List.find?_cons]
      simp only [hx, ↓reduceIte, BEq.rfl]
    · have hx' : (x.ref == s.ref) = false := by simpa using hx
      have : xs.any (fun x => x.ref == s.ref) = true := by
        rw [List.any_cons, hx'] at h; simpa using h
      rw [List.map_cons, List.find?_cons]
      simp only [hx', Bool.false_eq_true, ↓reduceIte]
      exact ih this

theorem find_map_replace_ne (l : List Sess) (s : Sess) (r : Nat) (h : r ≠ s.ref) :
    (l.map (fun x => if x.ref == s.ref then s else x)).find? (fun x => x.ref == r) =
      l.find? (fun x => x.ref == r) := by
  have h' : (s.ref == r) = false := by rw [beq_eq_false_iff_ne]; exact fun hr => h hr.symm
  induction l with
  | nil => rfl
  | cons x xs ih =>
    rw [List.map_cons, List.find?_cons, List.find?_cons]
    by_cases hx : (x.ref == s.ref) = true
    · have hr : (x.ref == r) = false := by
        rw [beq_eq_false_iff_ne]
        have : x.ref = s.ref := by simpa using hx
        exact fun hr => h (hr ▸ this)
      simp only [hx, ↓reduceIte, h', hr]
      exact ih
    · simp only [hx, Bool.false_eq_true, ↓reduceIte, ih]

/-- `setSess` then `getSess` on the same reference: the object just stored, whatever the table held. -/
theorem getSess_setSess (b : B) (s : Sess) : (b.setSess s).getSess s.ref = some s := by
  unfold B.setSess B.getSess
  by_cases h : b.sess.any (fun x => x.ref == s.ref) = true
  · simp only [h, ↓reduceIte]
    exact find_map_replace _ _ h
  · simp only [h, Bool.false_eq_true, ↓reduceIte, List.find?_append]
    have : b.sess.find? (fun x => x.ref == s.ref) = none := by
      rw [List.find?_eq_none]
      intro x hx hxs
      exact h (List.any_eq_true.mpr ⟨x, hx, hxs⟩)
    simp [this]

/-- other references are not affected by `setSess` -/
theorem getSess_setSess_ne (b : B) (s : Sess) (r : Nat) (h : r ≠ s.ref) :
    (b.setSess s).getSess r = b.getSess r := by
  unfold B.setSess B.getSess
  by_cases ha : b.sess.any (fun x => x.ref == s.ref) = true
  · simp only [ha, ↓reduceIte]
    exact find_map_replace_ne _ _ _ h
  · simp only [ha, Bool.false_eq_true, ↓reduceIte, List.find?_append]
    have h' : ¬ s.ref = r := fun hr => h hr.symm
    cases b.sess.find? (fun x => x.ref == r) <;> simp [h']

/-- the session object that serves connection `c` after its CONNECT was accepted -/
def acceptedSess (b : B) (c : Nat) (req : Connect) : Sess :=
  match resumed b c req with
  | some s => updSess s req
  | none => newSess b c req

theorem accepted_getConn (b : B) (c : Nat) (req : Connect) :
    (accepted b c req).1.getConn c = some { id := c, sess := (acceptedSess b c req).ref, alive := true } := by
  unfold accepted acceptedSess
  cases resumed b c req with
  | some s => exact getConn_addConn _ _ _
  | none => exact getConn_addConn _ _ _

theorem accepted_getConn_ne (b : B) (c d : Nat) (req : Connect) (h : d ≠ c) :
    (accepted b c req).1.getConn d = b.getConn d := by
  unfold accepted
  cases resumed b c req with
  | some s => exact getConn_addConn_ne _ _ _ _ h
  | none => exact getConn_addConn_ne _ _ _ _ h

theorem accepted_alive (b : B) (c : Nat) (req : Connect) : (accepted b c req).1.alive c = true := by
  unfold B.alive; rw [accepted_getConn]

theorem accepted_getSess (b : B) (c : Nat) (req : Connect) :
    (accepted b c req).1.getSess (acceptedSess b c req).ref = some (acceptedSess b c req) := by
  unfold accepted acceptedSess
  cases resumed b c req with
  | some s => exact getSess_setSess b (updSess s req)
  | none => exact getSess_setSess _ (newSess b c req)

/-! ### traffic on a connection that was not accepted -/

/-- an event on connection `c` other than an accepted CONNECT -/
def unacceptedOn (c : Nat) : Ev → Bool
  | .first c' f a => c' == c && !accepts f a
  | .packet c' _ => c' == c
  | .close c' => c' == c
  | _ => false

/-- a first packet that is not an acceptable CONNECT takes nobody over -/
theorem takeOver_refused (b : B) (f : First) (a : Bool) (h : accepts f a = false) : takeOver b f a = (b, []) := by
  rcases Mqtt.Proofs.Connect.takeOver_cases b f a with h0 | ⟨req, rfl, hd, rfl, _, _⟩
  · exact h0
  · exfalso
    rw [connectDecode_eq] at hd
    simp only [accepts, Bool.and_true] at h
    cases h1 : levelOk req <;> cases h2 : flagsBad req <;> cases h3 : idBad req <;> simp [h1, h2, h3] at hd h

/-- an accepted CONNECT takes over the live connections that carry its (supplied) client identifier -/
theorem takeOver_accepted (b : B) (req : Connect) (a : Bool) (h : accepts (.connect req) a = true) :
    takeOver b (.connect req) a =
      if req.clientId.isEmpty then (b, []) else stopAll b (sameClient b req.clientId) := by
  simp only [accepts, Bool.and_eq_true, Bool.not_eq_true'] at h
  obtain ⟨⟨⟨h1, h2⟩, h3⟩, h4⟩ := h
  have hd : connectDecode req = .inr true := by rw [connectDecode_eq]; simp [h1, h2, h3]
  unfold takeOver
  simp only [hd, h4, Bool.not_true, Bool.false_or]

/-- an output addressed to `c` that a refusal can produce -/
def refusalOut (c : Nat) (o : Out) : Prop := o = .closed c ∨ ∃ k, k ≠ 0 ∧ o = .send c (.connack false k)

theorem step_unaccepted (b : B) (c : Nat) (e : Ev) (hd : b.alive c = false) (h : unacceptedOn c e = true) :
    (step b e).1 = b ∧ ∀ o ∈ (step b e).2, refusalOut c o := by
  cases e with
  | first c' f a =>
    simp only [unacceptedOn, Bool.and_eq_true, beq_iff_eq, Bool.not_eq_true'] at h
    obtain ⟨rfl, ha⟩ := h
    rw [Mqtt.Proofs.Connect.step_first_eq, Mqtt.Proofs.Connect.connect_eq, takeOver_refused b f a ha]
    simp only [List.nil_append]
    rcases first_refused b c' f a ha with h1 | ⟨k, hk, h1⟩
    · rw [h1]; exact ⟨rfl, by simp [refusalOut]⟩
    · rw [h1]
      refine ⟨rfl, ?_⟩
      intro o ho
      simp only [List.mem_cons, List.not_mem_nil, or_false] at ho
      rcases ho with rfl | rfl
      · exact .inr ⟨k, by omega, rfl⟩
      · exact .inl rfl
  | packet c' p =>
    simp only [unacceptedOn, beq_iff_eq] at h
    subst h
    simp [step, packet_dead b c' p hd]
  | close c' =>
    simp only [unacceptedOn, beq_iff_eq] at h
    subst h
    simp [step, stop_dead b c' hd]
  | srvPub p => simp [unacceptedOn] at h
  | srvSub cb f q => simp [unacceptedOn] at h
  | srvUnsub cb f => simp [unacceptedOn] at h

theorem run_unaccepted (b : B) (c : Nat) (evs : List Ev) (hd : b.alive c = false)
    (h : ∀ e ∈ evs, unacceptedOn c e = true) :
    (run b evs).1 = b ∧ ∀ os ∈ (run b evs).2, ∀ o ∈ os, refusalOut c o := by
  induction evs with
  | nil => simp [run]
  | cons e es ih =>
    have h1 := step_unaccepted b c e hd (h e (by simp))
    have h2 := ih (fun e he => h e (by simp [he]))
    simp only [run]
    rw [show step b e = ((step b e).1, (step b e).2) from rfl, h1.1]
    refine ⟨h2.1, ?_⟩
    intro os hos
    simp only [List.mem_cons] at hos
    rcases hos with rfl | hos
    · exact h1.2
    · exact h2.2 os hos

/-- the refusing answers of `first`, against the specification's list of reasons -/
theorem first_table (b : B) (c : Nat) (req : Connect) (a : Bool) (h : accepts (.connect req) a = false) :
    (first b c (.connect req) a = (b, [.closed c]) ∧ none ∈ Spec.Broker.refusals req a) ∨
    ∃ k, k ≠ 0 ∧ some k ∈ Spec.Broker.refusals req a ∧
      first b c (.connect req) a = (b, [.send c (.connack false k), .closed c]) := by
  rw [first_connect, refusals_eq]
  by_cases h1 : levelOk req = true
  · by_cases h2 : flagsBad req = true
    · left; simp [h1, h2]
    · by_cases h3 : idBad req = true
      · right; exact ⟨2, by simp, by simp [h3], by simp [h1, h2, h3]⟩
      · cases a
        · right; exact ⟨4, by simp, by simp, by simp [h1, h2, h3]⟩
        · simp [accepts, h1, h2, h3] at h
  · right; exact ⟨1, by simp, by simp [h1], by simp [h1]⟩

/-! ### concrete material for the non-vacuity examples -/

namespace Ex
/-- "MQTT", level 4 -/
def conn (id : Bytes) (clean : Bool) (will : Option Will := none) : Connect :=
  { protoName := [77, 81, 84, 84], version := 4, clean := clean, will := will, clientId := id }

def idA : Bytes := [65]        -- "A"
def idB : Bytes := [66]        -- "B"
def tAB : Bytes := [97, 47, 98] -- "a/b"
def tW : Bytes := [119]        -- "w"

/-- A (persistent, will on "w") is connected as 1 and subscribed to a/b and w;
B (clean) is connected as 2 and subscribed to a/b; a retained message sits on a/b. -/
def base : B :=
  (run {} [.first 1 (.connect (conn idA false (some ⟨tW, [1], 1, false⟩))) true,
           .packet 1 (.subscribe 1 [(tAB, 1), (tW, 2)]),
           .first 2 (.connect (conn idB true)) true,
           .packet 2 (.subscribe 1 [(tAB, 0)]),
           .srvPub { qos := 1, retain := true, topic := tAB, payload := [7] }]).1

/-- `base`, and in addition connection 2 and the in-process callback 1000 listen on the will topic "w" -/
def base2 : B := (run base [.packet 2 (.subscribe 2 [(tW, 1)]), .srvSub 1000 tW 0]).1
end Ex

end Mqtt.Proofs.BrokerLife
