/-
Tie theorems for the translated `powerOfTwo64` / `roundUpPowerOfTwo64`
(`service/buffer.go`, `sessions/ackqueue.go`): the generated definitions work on
unbounded `Int` with two's-complement `Go.andInt 64` / `Go.orInt 64` and the
arithmetic shift of `Int`; the hand-written model (`Model/AckQueue.lean`) works on
`BitVec 64` with logical shifts.
-/
import Mqtt.Generated.Xlate
import Mqtt.Model.AckQueue
import Mqtt.Model.Ring

namespace Mqtt.Proofs.XlatePow2
open Mqtt.Generated.Xlate

/-! ### (a) the two packages carry the same two functions -/

theorem service_powerOfTwo64_eq (n : Int) :
    Service.powerOfTwo64 n = Sessions.powerOfTwo64 n := rfl

theorem service_roundUpPowerOfTwo64_eq (n : Int) :
    Service.roundUpPowerOfTwo64 n = Sessions.roundUpPowerOfTwo64 n := rfl

/-! ### bit smearing on `BitVec 64`, logical and arithmetic -/

/-- the six `n |= n >> s` lines with the logical shift (the model) -/
def smearL (v : BitVec 64) : BitVec 64 :=
  let v := v ||| (v >>> 1)
  let v := v ||| (v >>> 2)
  let v := v ||| (v >>> 4)
  let v := v ||| (v >>> 8)
  let v := v ||| (v >>> 16)
  let v := v ||| (v >>> 32)
  v

/-- the six `n |= n >> s` lines with the arithmetic shift (Go's `>>` on `int64`) -/
def smearA (v : BitVec 64) : BitVec 64 :=
  let v := v ||| (v.sshiftRight 1)
  let v := v ||| (v.sshiftRight 2)
  let v := v ||| (v.sshiftRight 4)
  let v := v ||| (v.sshiftRight 8)
  let v := v ||| (v.sshiftRight 16)
  let v := v ||| (v.sshiftRight 32)
  v

/-- bits `≥ L` are clear, bits `L-j … L-1` are set -/
def Band (L j : Nat) (v : BitVec 64) : Prop :=
  (∀ i : Nat, L ≤ i → v.getLsbD i = false) ∧ (∀ i : Nat, L - j ≤ i → i < L → v.getLsbD i = true)

theorem band_stepL {L j : Nat} {v : BitVec 64} (h : Band L j v) :
    Band L (2 * j) (v ||| (v >>> j)) := by
  obtain ⟨h0, h1⟩ := h
  refine ⟨fun i hi => ?_, fun i hlo hhi => ?_⟩
  · rw [BitVec.getLsbD_or, BitVec.getLsbD_ushiftRight, h0 i hi, h0 (j + i) (by omega)]; rfl
  · rw [BitVec.getLsbD_or, BitVec.getLsbD_ushiftRight]
    by_cases hc : L - j ≤ i
    · rw [h1 i hc hhi]; rfl
    · rw [h1 (j + i) (by omega) (by omega)]; simp

theorem band_stepA {L j : Nat} {v : BitVec 64} (hL : L ≤ 64) (h : Band L j v) :
    Band L (2 * j) (v ||| (v.sshiftRight j)) := by
  obtain ⟨h0, h1⟩ := h
  refine ⟨fun i hi => ?_, fun i hlo hhi => ?_⟩
  · rw [BitVec.getLsbD_or, BitVec.getLsbD_sshiftRight, h0 i hi]
    by_cases h64 : 64 ≤ i
    · simp [h64]
    · have hm : v.msb = false := by
        rw [BitVec.msb_eq_getLsbD_last]; exact h0 63 (by omega)
      rw [hm]
      by_cases hji : j + i < 64
      · rw [if_pos hji, h0 (j + i) (by omega)]; simp
      · rw [if_neg hji]; simp
  · rw [BitVec.getLsbD_or, BitVec.getLsbD_sshiftRight]
    by_cases hc : L - j ≤ i
    · rw [h1 i hc hhi]; rfl
    · have hji : j + i < 64 := by omega
      have h64 : ¬ 64 ≤ i := by omega
      rw [if_pos hji, h1 (j + i) (by omega) (by omega)]; simp [h64]

theorem band_full {L : Nat} {v : BitVec 64} (hL : L ≤ 64) (h : Band L 64 v) :
    v = BitVec.ofNat 64 (2 ^ L - 1) := by
  obtain ⟨h0, h1⟩ := h
  apply BitVec.eq_of_getLsbD_eq
  intro i hi
  rw [BitVec.getLsbD_ofNat, Nat.testBit_two_pow_sub_one]
  by_cases hc : i < L
  · rw [h1 i (by omega) hc]; simp [hi, hc]
  · rw [h0 i (by omega)]; simp [hc]

theorem smearL_eq {L : Nat} {v : BitVec 64} (hL : L ≤ 64) (h : Band L 1 v) :
    smearL v = BitVec.ofNat 64 (2 ^ L - 1) := by
  have h2 : Band L 2 _ := band_stepL h
  have h4 : Band L 4 _ := band_stepL h2
  have h8 : Band L 8 _ := band_stepL h4
  have h16 : Band L 16 _ := band_stepL h8
  have h32 : Band L 32 _ := band_stepL h16
  have h64 : Band L 64 _ := band_stepL h32
  exact band_full hL h64

theorem smearA_eq {L : Nat} {v : BitVec 64} (hL : L ≤ 64) (h : Band L 1 v) :
    smearA v = BitVec.ofNat 64 (2 ^ L - 1) := by
  have h2 : Band L 2 _ := band_stepA hL h
  have h4 : Band L 4 _ := band_stepA hL h2
  have h8 : Band L 8 _ := band_stepA hL h4
  have h16 : Band L 16 _ := band_stepA hL h8
  have h32 : Band L 32 _ := band_stepA hL h16
  have h64 : Band L 64 _ := band_stepA hL h32
  exact band_full hL h64

/-- every word has a bit length -/
theorem exists_band (v : BitVec 64) :
    ∃ L, L ≤ 64 ∧ Band L 1 v ∧ v.toNat < 2 ^ L ∧ (L ≠ 0 → 2 ^ (L - 1) ≤ v.toNat) := by
  by_cases hz : v.toNat = 0
  · refine ⟨0, by omega, ⟨fun i _ => ?_, fun i _ hi => by omega⟩, by omega, fun h => absurd rfl h⟩
    rw [← BitVec.testBit_toNat, hz]; exact Nat.zero_testBit i
  · have hlt := v.isLt
    have hlog : v.toNat.log2 < 64 := (Nat.log2_lt hz).2 hlt
    refine ⟨v.toNat.log2 + 1, by omega, ⟨fun i hi => ?_, fun i hlo hhi => ?_⟩,
      Nat.lt_log2_self, fun _ => Nat.log2_self_le hz⟩
    · rw [← BitVec.testBit_toNat]
      apply Nat.testBit_lt_two_pow
      exact Nat.lt_of_lt_of_le Nat.lt_log2_self (Nat.pow_le_pow_right (by omega) hi)
    · have : i = v.toNat.log2 := by omega
      subst this
      rw [← BitVec.testBit_toNat]; exact Nat.testBit_log2 hz

/-- the arithmetic and the logical smear agree on every word -/
theorem smearA_eq_smearL (v : BitVec 64) : smearA v = smearL v := by
  obtain ⟨L, hL, hb, _, _⟩ := exists_band v
  rw [smearA_eq hL hb, smearL_eq hL hb]

/-! ### the generated code in terms of `BitVec 64` -/

theorem ofInt_sub_one (n : Int) : BitVec.ofInt 64 (n - 1) = BitVec.ofInt 64 n - 1 := by
  apply BitVec.eq_of_toInt_eq
  simp

theorem toInt_ofInt_self {n : Int} (h : -2 ^ 63 ≤ n ∧ n < 2 ^ 63) :
    (BitVec.ofInt 64 n).toInt = n :=
  BitVec.toInt_ofInt_eq_self (by omega) h.1 h.2

/-- one `n |= n >> s` line of the generated code, on a value inside the `int64` range -/
theorem orInt_shift (v : BitVec 64) (s : Nat) :
    Go.orInt 64 v.toInt (v.toInt >>> s) = (v ||| v.sshiftRight s).toInt := by
  unfold Go.orInt
  rw [← BitVec.toInt_sshiftRight, BitVec.ofInt_toInt, BitVec.ofInt_toInt]

/-- the generated `roundUpPowerOfTwo64` when `n - 1` does not leave the `int64` range -/
theorem roundUp_gen_eq (n : Int) (h : -2 ^ 63 < n ∧ n ≤ 2 ^ 63) :
    Sessions.roundUpPowerOfTwo64 n = (smearA (BitVec.ofInt 64 n - 1)).toInt + 1 := by
  have hm : n - 1 = (BitVec.ofInt 64 n - 1).toInt := by
    rw [← ofInt_sub_one, toInt_ofInt_self (by omega)]
  unfold Sessions.roundUpPowerOfTwo64 smearA
  simp only []
  rw [hm, orInt_shift, orInt_shift, orInt_shift, orInt_shift, orInt_shift, orInt_shift]

theorem roundUp_model_eq (v : BitVec 64) :
    Mqtt.Model.AckQueue.roundUpPowerOfTwo64 v = smearL (v - 1) + 1 := rfl

/-- both sides through the bit length `L` of `n - 1` (as a 64-bit word) -/
theorem roundUp_both (n : Int) (h : -2 ^ 63 < n ∧ n ≤ 2 ^ 63) :
    ∃ L, L ≤ 64 ∧ (BitVec.ofInt 64 n - 1).toNat < 2 ^ L ∧
      (L ≠ 0 → 2 ^ (L - 1) ≤ (BitVec.ofInt 64 n - 1).toNat) ∧
      Sessions.roundUpPowerOfTwo64 n = (BitVec.ofNat 64 (2 ^ L - 1)).toInt + 1 ∧
      Mqtt.Model.AckQueue.roundUpPowerOfTwo64 (BitVec.ofInt 64 n) = BitVec.ofNat 64 (2 ^ L - 1) + 1 := by
  obtain ⟨L, hL, hb, hlt, hge⟩ := exists_band (BitVec.ofInt 64 n - 1)
  refine ⟨L, hL, hlt, hge, ?_, ?_⟩
  · rw [roundUp_gen_eq n h, smearA_eq hL hb]
  · rw [roundUp_model_eq, smearL_eq hL hb]

theorem toNat_pred (n : Int) (h : -2 ^ 63 < n ∧ n ≤ 2 ^ 63) :
    ((BitVec.ofInt 64 n - 1).toNat : Int) = if 0 < n then n - 1 else n - 1 + 2 ^ 64 := by
  have hm : (BitVec.ofInt 64 n - 1).toInt = n - 1 := by
    rw [← ofInt_sub_one, toInt_ofInt_self (by omega)]
  have hlt := (BitVec.ofInt 64 n - 1).isLt
  rw [BitVec.toInt_eq_toNat_cond] at hm
  split at hm <;> split <;> omega

theorem small_val {L : Nat} (hL : L ≤ 62) :
    (BitVec.ofNat 64 (2 ^ L - 1)).toInt + 1 = ((2 ^ L : Nat) : Int) ∧
    (BitVec.ofNat 64 (2 ^ L - 1) + 1).toInt = ((2 ^ L : Nat) : Int) := by
  have h1 : 2 ^ L ≤ 2 ^ 62 := Nat.pow_le_pow_right (by omega) hL
  have h2 : 0 < 2 ^ L := Nat.two_pow_pos L
  generalize 2 ^ L = P at h1 h2
  constructor
  · rw [BitVec.toInt_eq_toNat_of_lt (by rw [BitVec.toNat_ofNat]; omega), BitVec.toNat_ofNat]; omega
  · rw [BitVec.toInt_eq_toNat_of_lt (by rw [BitVec.toNat_add, BitVec.toNat_ofNat]; simp; omega),
      BitVec.toNat_add, BitVec.toNat_ofNat]; simp; omega

theorem pow_lt_imp {a b : Nat} (h : 2 ^ a < 2 ^ b) : a < b :=
  (Nat.pow_lt_pow_iff_right (by omega : 1 < 2)).1 h

/-! ### (b) `powerOfTwo64` -/

theorem powerOfTwo64_is_source (n : Int) (h : -2 ^ 63 ≤ n ∧ n < 2 ^ 63) :
    Sessions.powerOfTwo64 n = Mqtt.Model.AckQueue.powerOfTwo64 (BitVec.ofInt 64 n) := by
  unfold Sessions.powerOfTwo64 Mqtt.Model.AckQueue.powerOfTwo64 Go.andInt
  rw [ofInt_sub_one]
  have e1 : (n != 0) = (BitVec.ofInt 64 n != 0) := by
    rw [Bool.eq_iff_iff]; simp only [bne_iff_ne, ne_eq]
    constructor
    · intro hn he; apply hn
      have := toInt_ofInt_self h
      rw [he] at this; simpa using this.symm
    · intro hn he; apply hn; rw [he]; rfl
  have e2 : ∀ x : BitVec 64, (x.toInt == 0) = (x == 0) := by
    intro x
    rw [Bool.eq_iff_iff]; simp only [beq_iff_eq]
    rw [← BitVec.toInt_inj (y := 0)]
    exact Iff.rfl
  rw [e1, e2]

/-! ### (c) `roundUpPowerOfTwo64` -/

/-- The generated function equals the model exactly on `-2^63 < n ≤ 2^62`.
Outside this range (inside `int64`): at `n = -2^63` the generated `n - 1` leaves the range
(the generated function yields 0, Go and the model `-2^63`); for `2^62 < n < 2^63` the final
`+ 1` yields `2^63` on `Int`, while Go and the model wrap to `-2^63`. -/
theorem roundUpPowerOfTwo64_partial (n : Int) (h : -2 ^ 63 < n ∧ n ≤ 2 ^ 62) :
    Sessions.roundUpPowerOfTwo64 n =
      (Mqtt.Model.AckQueue.roundUpPowerOfTwo64 (BitVec.ofInt 64 n)).toInt := by
  obtain ⟨L, hL, hlt, hge, hg, hm⟩ := roundUp_both n (by omega)
  have hp := toNat_pred n (by omega)
  rw [hg, hm]
  by_cases hpos : 0 < n
  · rw [if_pos hpos] at hp
    have hL62 : L ≤ 62 := by
      by_cases h0 : L = 0
      · omega
      · have h1 := hge h0
        have : 2 ^ (L - 1) < 2 ^ 62 := by omega
        have := pow_lt_imp this
        omega
    rw [(small_val hL62).1, (small_val hL62).2]
  · rw [if_neg hpos] at hp
    have hL64 : L = 64 := by
      by_cases h0 : L ≤ 63
      · have : 2 ^ L ≤ 2 ^ 63 := Nat.pow_le_pow_right (by omega) h0
        omega
      · omega
    subst hL64
    decide

theorem roundUp_differs_at_min :
    Sessions.roundUpPowerOfTwo64 (-2 ^ 63) = 0 ∧
    (Mqtt.Model.AckQueue.roundUpPowerOfTwo64 (BitVec.ofInt 64 (-2 ^ 63))).toInt = -2 ^ 63 := by
  decide

/-- the upper part of the `int64` range: the generated function does not wrap -/
theorem roundUp_differs_high (n : Int) (h : 2 ^ 62 < n ∧ n < 2 ^ 63) :
    Sessions.roundUpPowerOfTwo64 n = 2 ^ 63 ∧
    (Mqtt.Model.AckQueue.roundUpPowerOfTwo64 (BitVec.ofInt 64 n)).toInt = -2 ^ 63 := by
  obtain ⟨L, hL, hlt, hge, hg, hm⟩ := roundUp_both n (by omega)
  have hp := toNat_pred n (by omega)
  rw [if_pos (by omega)] at hp
  have hL63 : L = 63 := by
    have h1 : 62 < L := by
      apply pow_lt_imp
      omega
    by_cases h0 : L = 64
    · subst h0; have := hge (by omega); omega
    · omega
  subst hL63
  rw [hg, hm]
  decide

/-! ### (d) characterisation -/

theorem roundUpPowerOfTwo64_least (n : Int) (h : 0 < n ∧ n ≤ 2 ^ 62) :
    ∃ k : Nat, Sessions.roundUpPowerOfTwo64 n = 2 ^ k ∧ n ≤ 2 ^ k ∧ 2 ^ k < 2 * n := by
  obtain ⟨L, hL, hlt, hge, hg, hm⟩ := roundUp_both n (by omega)
  have hp := toNat_pred n (by omega)
  rw [if_pos h.1] at hp
  have hL62 : L ≤ 62 := by
    by_cases h0 : L = 0
    · omega
    · have h1 := hge h0
      have : 2 ^ (L - 1) < 2 ^ 62 := by omega
      have := pow_lt_imp this
      omega
  refine ⟨L, ?_, ?_, ?_⟩
  · rw [hg, (small_val hL62).1, Int.natCast_pow]; rfl
  · have : ((2 ^ L : Nat) : Int) = (2 : Int) ^ L := by rw [Int.natCast_pow]; rfl
    rw [← this]; omega
  · have e : ((2 ^ L : Nat) : Int) = (2 : Int) ^ L := by rw [Int.natCast_pow]; rfl
    rw [← e]
    by_cases h0 : L = 0
    · subst h0; simp; omega
    · have h1 := hge h0
      have : 2 ^ L = 2 * 2 ^ (L - 1) := by
        have : L = (L - 1) + 1 := by omega
        rw [this, Nat.pow_succ]; simp; omega
      omega

theorem andInt_natCast (a b : Nat) (ha : a < 2 ^ 63) (hb : b < 2 ^ 64) :
    Go.andInt 64 (a : Int) (b : Int) = ((a &&& b : Nat) : Int) := by
  unfold Go.andInt
  have hle : a &&& b ≤ a := Nat.and_le_left
  rw [BitVec.ofInt_natCast, BitVec.ofInt_natCast, BitVec.toInt_eq_toNat_of_lt, BitVec.toNat_and,
    BitVec.toNat_ofNat, BitVec.toNat_ofNat, Nat.mod_eq_of_lt (by omega), Nat.mod_eq_of_lt hb]
  rw [BitVec.toNat_and, BitVec.toNat_ofNat, BitVec.toNat_ofNat, Nat.mod_eq_of_lt (by omega),
    Nat.mod_eq_of_lt hb]
  omega

/-- the classic: `N & (N-1) = 0` exactly for the powers of two -/
theorem nat_and_pred_eq_zero_iff (N : Nat) (hN : 0 < N) :
    N &&& (N - 1) = 0 ↔ ∃ k, N = 2 ^ k := by
  constructor
  · intro h
    have hz : N ≠ 0 := by omega
    refine ⟨N.log2, ?_⟩
    have hlo := Nat.log2_self_le hz
    have hhi : N < 2 ^ (N.log2 + 1) := Nat.lt_log2_self
    rw [Nat.pow_succ] at hhi
    by_cases he : N = 2 ^ N.log2
    · exact he
    · exfalso
      have hb : (N &&& (N - 1)).testBit N.log2 = true := by
        rw [Nat.testBit_and, Nat.testBit_log2 hz]
        have : N - 1 = 2 ^ N.log2 + (N - 1 - 2 ^ N.log2) := by omega
        rw [this, Nat.testBit_two_pow_add_eq, Nat.testBit_lt_two_pow (by omega)]; rfl
      rw [h, Nat.zero_testBit] at hb
      exact Bool.noConfusion hb
  · rintro ⟨k, rfl⟩
    rw [Nat.and_two_pow_sub_one_eq_mod, Nat.mod_self]

theorem powerOfTwo64_natCast (N : Nat) (hN : 0 < N ∧ N < 2 ^ 63) :
    Sessions.powerOfTwo64 (N : Int) = true ↔ ∃ k, N = 2 ^ k := by
  unfold Sessions.powerOfTwo64
  have e : (N : Int) - 1 = ((N - 1 : Nat) : Int) := by omega
  rw [e, andInt_natCast N (N - 1) hN.2 (by omega), ← nat_and_pred_eq_zero_iff N hN.1]
  simp only [Bool.and_eq_true, bne_iff_ne, ne_eq, beq_iff_eq]
  constructor
  · rintro ⟨_, h⟩; omega
  · intro h; exact ⟨by omega, by omega⟩

theorem powerOfTwo64_iff (n : Int) (h : 0 < n ∧ n < 2 ^ 63) :
    Sessions.powerOfTwo64 n = true ↔ ∃ k : Nat, n = 2 ^ k := by
  have hn : n = ((n.toNat : Nat) : Int) := by omega
  rw [hn, powerOfTwo64_natCast n.toNat (by omega)]
  constructor
  · rintro ⟨k, hk⟩; refine ⟨k, ?_⟩; rw [hk, Int.natCast_pow]; rfl
  · rintro ⟨k, hk⟩; refine ⟨k, ?_⟩
    have : ((2 ^ k : Nat) : Int) = (2 : Int) ^ k := by rw [Int.natCast_pow]; rfl
    rw [← this] at hk; omega

/-- the result of rounding up is itself accepted by `powerOfTwo64` -/
theorem powerOfTwo64_roundUp (n : Int) (h : 0 < n ∧ n ≤ 2 ^ 62) :
    Sessions.powerOfTwo64 (Sessions.roundUpPowerOfTwo64 n) = true := by
  obtain ⟨k, hk, h1, h2⟩ := roundUpPowerOfTwo64_least n h
  rw [powerOfTwo64_iff _ (by omega)]
  exact ⟨k, hk⟩

/-! ### (e) the guard of the byte ring -/

open Mqtt.Model.Ring in
theorem ring_size_lt (cfg : Cfg) (hk : cfg.k < 63) : 0 < cfg.size ∧ cfg.size < 2 ^ 63 := by
  unfold Cfg.size
  exact ⟨Nat.two_pow_pos _, Nat.pow_lt_pow_right (by omega) hk⟩

open Mqtt.Model.Ring in
theorem ring_size_is_power_of_two (cfg : Cfg) (hk : cfg.k < 63) :
    Service.powerOfTwo64 (cfg.size : Int) = true := by
  rw [service_powerOfTwo64_eq, powerOfTwo64_natCast _ (ring_size_lt cfg hk)]
  exact ⟨cfg.k, rfl⟩

open Mqtt.Model.Ring in
theorem ring_idx_eq_mod (cfg : Cfg) (pos : Nat) : cfg.idx pos = pos % cfg.size := by
  unfold Cfg.idx Cfg.size
  exact Nat.and_two_pow_sub_one_eq_mod pos cfg.k

open Mqtt.Model.Ring in
theorem ring_idx_is_mask (cfg : Cfg) (hk : cfg.k < 63) (pos : Nat) (hp : pos < 2 ^ 63) :
    Go.andInt 64 (pos : Int) ((cfg.size : Int) - 1) = ((cfg.idx pos : Nat) : Int) ∧
    cfg.idx pos = pos % cfg.size := by
  have hs := ring_size_lt cfg hk
  have e : (cfg.size : Int) - 1 = ((cfg.size - 1 : Nat) : Int) := by omega
  refine ⟨?_, ring_idx_eq_mod cfg pos⟩
  rw [e, andInt_natCast pos (cfg.size - 1) hp (by omega)]
  rfl

end Mqtt.Proofs.XlatePow2
