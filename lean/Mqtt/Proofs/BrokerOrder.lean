/-
Helper lemmas for C17 (d): per-publisher order on the sequential broker model
`Model/Broker.lean`.

1. `run` produces one output list per event; the stream of PUBLISH packets a
   connection `d` receives is the concatenation, in event order, of what each
   event sends to `d`.
2. Every PUBLISH that `onPublish` writes carries the topic and payload of the
   message handed to it; if `d` is alive and the subscriber lookup returns `d`,
   at least one PUBLISH is written to `d`.
3. QoS 2: the contents a PUBREL step releases are delivered one after the other
   in queue order (`releaseAll`), and over a history the released contents are a
   prefix of the opened ones (`run_conservation`).
-/
import Mqtt.Proofs.BrokerQosHistory

namespace Mqtt.Proofs.BrokerOrder
open Mqtt.Iface.Broker Mqtt.Model.Broker Mqtt.Proofs.BrokerQos
open Mqtt.Model.Topics (MemTopics)

/-! ## 1. `run` and the per-connection stream -/

theorem run_nil (b : B) : run b [] = (b, []) := rfl

theorem run_cons (b : B) (e : Ev) (es : List Ev) :
    run b (e :: es) = ((run (step b e).1 es).1, (step b e).2 :: (run (step b e).1 es).2) := rfl

theorem run_append (b : B) (e1 e2 : List Ev) :
    run b (e1 ++ e2) = ((run (run b e1).1 e2).1, (run b e1).2 ++ (run (run b e1).1 e2).2) := by
  induction e1 generalizing b with
  | nil => rfl
  | cons e es ih =>
    simp only [List.cons_append, run_cons, ih, List.cons_append]

/-- one output list per event -/
theorem run_length (b : B) (evs : List Ev) : (run b evs).2.length = evs.length := by
  induction evs generalizing b with
  | nil => rfl
  | cons e es ih => simp only [run_cons, List.length_cons, ih]

/-- the `i`-th output list is the output of the `i`-th event, taken in the state
the first `i` events lead to -/
theorem run_getElem (b : B) (evs : List Ev) (i : Nat) :
    (run b evs).2[i]? = evs[i]?.map (fun e => (step (run b (evs.take i)).1 e).2) := by
  induction evs generalizing b i with
  | nil => simp [run_nil]
  | cons e es ih =>
    cases i with
    | zero => simp [run_cons, run_nil]
    | succ i => simp only [run_cons, List.getElem?_cons_succ, List.take_succ_cons]; exact ih _ i

/-- the PUBLISH packet an output writes to connection `d`, if it is one -/
def pubTo (d : Nat) : Out → Option Pub
  | .send c (.publish w) => if c = d then some w else none
  | _ => none

/-- the PUBLISH packets among `os` written to connection `d`, in order -/
def pubsTo (d : Nat) (os : List Out) : List Pub := os.filterMap (pubTo d)

theorem pubsTo_append (d : Nat) (a b : List Out) : pubsTo d (a ++ b) = pubsTo d a ++ pubsTo d b :=
  List.filterMap_append

theorem pubsTo_cons_other (d : Nat) (o : Out) (os : List Out) (h : pubTo d o = none) :
    pubsTo d (o :: os) = pubsTo d os := by
  simp [pubsTo, h]

theorem mem_pubsTo {d : Nat} {w : Pub} {os : List Out} :
    w ∈ pubsTo d os ↔ Out.send d (.publish w) ∈ os := by
  unfold pubsTo
  rw [List.mem_filterMap]
  constructor
  · rintro ⟨o, ho, h⟩
    unfold pubTo at h
    split at h
    · split at h
      · rename_i e; cases h; subst e; exact ho
      · cases h
    · cases h
  · intro h
    exact ⟨_, h, by simp [pubTo]⟩

/-- the PUBLISH packets written to `d` over a history, in the order written -/
def stream (d : Nat) (b : B) (evs : List Ev) : List Pub := pubsTo d (run b evs).2.flatten

theorem stream_nil (d : Nat) (b : B) : stream d b [] = [] := rfl

theorem stream_cons (d : Nat) (b : B) (e : Ev) (es : List Ev) :
    stream d b (e :: es) = pubsTo d (step b e).2 ++ stream d (step b e).1 es := by
  simp only [stream, run_cons, List.flatten_cons, pubsTo_append]

theorem stream_append (d : Nat) (b : B) (e1 e2 : List Ev) :
    stream d b (e1 ++ e2) = stream d b e1 ++ stream d (run b e1).1 e2 := by
  simp only [stream, run_append, List.flatten_append, pubsTo_append]

/-- the stream is the concatenation over the events, in event order, of each
event's sends to `d` -/
theorem stream_eq_flatten (d : Nat) (b : B) (evs : List Ev) :
    stream d b evs = ((run b evs).2.map (pubsTo d)).flatten := by
  unfold stream
  generalize (run b evs).2 = l
  induction l with
  | nil => rfl
  | cons o os ih => simp only [List.flatten_cons, pubsTo_append, List.map_cons, ih]

/-! ## 2. What `onPublish` writes -/

theorem encode_content {m : Msg} {ctr : Nat} {wire : Pub} {m' : Msg} {ctr' : Nat}
    (h : m.encode ctr = some (wire, m', ctr')) :
    wire.topic = m.p.topic ∧ wire.payload = m.p.payload ∧
    m'.p.topic = m.p.topic ∧ m'.p.payload = m.p.payload := by
  unfold Msg.encode at h
  simp only at h
  split at h
  · cases h; split <;> simp
  · split at h
    · cases h
    · split at h
      · cases h; simp
      · cases h; split <;> simp

theorem setQoS_content (m : Msg) (q : Nat) :
    (m.setQoS q).p.topic = m.p.topic ∧ (m.setQoS q).p.payload = m.p.payload := ⟨rfl, rfl⟩

theorem deliverConn_content (b : B) (d : Nat) (m : Msg) :
    (deliverConn b d m).2.1.p.topic = m.p.topic ∧ (deliverConn b d m).2.1.p.payload = m.p.payload ∧
    ∀ d' w, Out.send d' (.publish w) ∈ (deliverConn b d m).2.2 →
      w.topic = m.p.topic ∧ w.payload = m.p.payload := by
  unfold deliverConn
  simp only
  split
  · refine ⟨by split <;> rfl, by split <;> rfl, by simp⟩
  · split
    · refine ⟨by split <;> rfl, by split <;> rfl, by simp⟩
    · rename_i wire m2 ctr henc
      obtain ⟨h1, h2, h3, h4⟩ := encode_content henc
      have e1 : (if m.p.retain = true then ({ m with p := { m.p with retain := false } } : Msg) else m).p.topic
          = m.p.topic := by split <;> rfl
      have e2 : (if m.p.retain = true then ({ m with p := { m.p with retain := false } } : Msg) else m).p.payload
          = m.p.payload := by split <;> rfl
      refine ⟨?_, ?_, ?_⟩
      · split
        · exact h3.trans e1
        · exact h3.trans e1
      · split
        · exact h4.trans e2
        · exact h4.trans e2
      · intro d' w hw
        simp only [List.mem_singleton, Out.send.injEq, Packet.publish.injEq] at hw
        obtain ⟨_, rfl⟩ := hw
        exact ⟨h1.trans e1, h2.trans e2⟩

theorem fanout_content (b : B) (m : Msg) (subs : List (Nat × Nat)) :
    ∀ d w, Out.send d (.publish w) ∈ (fanout b m subs).2.2 →
      w.topic = m.p.topic ∧ w.payload = m.p.payload := by
  induction subs generalizing b m with
  | nil => intro d w h; simp [fanout] at h
  | cons x rest ih =>
    obtain ⟨s, eqos⟩ := x
    intro d w h
    simp only [fanout] at h
    by_cases hs : s < cbBase
    · simp only [hs, ↓reduceIte] at h
      obtain ⟨c1, c2, c3⟩ := deliverConn_content b s (m.setQoS eqos)
      rcases List.mem_append.mp h with h | h
      · exact c3 d w h
      · have := ih _ _ d w h
        rw [c1, c2] at this
        exact this
    · simp only [hs, ↓reduceIte] at h
      rcases List.mem_append.mp h with h | h
      · simp at h
      · have := ih _ _ d w h
        exact this

theorem retainStep_content (b : B) (m : Msg) :
    (retainStep b m).2.p.topic = m.p.topic ∧ (retainStep b m).2.p.payload = m.p.payload ∧
    (retainStep b m).2.p.qos = m.p.qos := by
  unfold retainStep
  split
  · exact ⟨rfl, rfl, rfl⟩
  · split
    · exact ⟨rfl, rfl, rfl⟩
    · split
      · exact ⟨rfl, rfl, rfl⟩
      · split
        · exact ⟨rfl, rfl, rfl⟩
        · rename_i wire m' ctr henc
          obtain ⟨_, _, h3, h4⟩ := encode_content henc
          refine ⟨h3, h4, ?_⟩
          unfold Msg.encode at henc
          simp only at henc
          split at henc
          · cases henc; rfl
          · split at henc
            · cases henc
            · split at henc
              · cases henc; rfl
              · cases henc; rfl

/-- every PUBLISH that `onPublish b m` writes, to whatever connection, carries
the topic and the payload of `m` -/
theorem onPublish_content (b : B) (m : Msg) :
    ∀ d w, Out.send d (.publish w) ∈ (onPublish b m).2.2.1 →
      w.topic = m.p.topic ∧ w.payload = m.p.payload := by
  intro d w h
  unfold onPublish at h
  simp only at h
  split at h
  · simp at h
  · obtain ⟨r1, r2, _⟩ := retainStep_content b m
    rw [fanoutLive_outs] at h
    have := fanout_content _ _ _ d w h
    rw [(loopMsg_content _).1, (loopMsg_content _).2.1, r1, r2] at this
    exact this

/-! ### a live subscriber gets the message -/

/-- the subscriber lookup for a PUBLISH with this topic and QoS returns `d` -/
def Subscribed (b : B) (d : Nat) (topic : Bytes) (qos : Nat) : Prop :=
  ∃ subs q, b.topics.subscribers topic qos = some subs ∧ (d, q) ∈ subs

theorem subscribers_congr {t t' : MemTopics} (h : t'.sroot = t.sroot) (topic : Bytes) (qos : Nat) :
    t'.subscribers topic qos = t.subscribers topic qos := by
  unfold MemTopics.subscribers; rw [h]

theorem encode_some (m : Msg) (ctr : Nat) (h : m.p.topic ≠ []) : ∃ r, m.encode ctr = some r := by
  unfold Msg.encode
  simp only
  have : m.p.topic.isEmpty = false := by
    cases ht : m.p.topic with
    | nil => exact absurd ht h
    | cons _ _ => rfl
  split
  · exact ⟨_, rfl⟩
  · rw [this]
    simp only [Bool.false_eq_true, ↓reduceIte]
    split <;> exact ⟨_, rfl⟩

theorem deliverConn_delivers (b : B) (d : Nat) (m : Msg) (ha : b.alive d = true) (ht : m.p.topic ≠ []) :
    ∃ w, (deliverConn b d m).2.2 = [.send d (.publish w)] := by
  unfold deliverConn
  simp only [ha, Bool.not_true, Bool.false_eq_true, ↓reduceIte]
  have ht' : (if m.p.retain = true then ({ m with p := { m.p with retain := false } } : Msg) else m).p.topic ≠ [] := by
    split <;> exact ht
  obtain ⟨⟨wire, m2, ctr⟩, h⟩ := encode_some _ b.ctr ht'
  rw [h]
  exact ⟨wire, rfl⟩

theorem fanout_delivers (b : B) (m : Msg) (subs : List (Nat × Nat)) (d q : Nat)
    (hd : d < cbBase) (ha : b.alive d = true) (ht : m.p.topic ≠ []) (hm : (d, q) ∈ subs) :
    ∃ w, Out.send d (.publish w) ∈ (fanout b m subs).2.2 := by
  induction subs generalizing b m with
  | nil => cases hm
  | cons x rest ih =>
    obtain ⟨s, eqos⟩ := x
    simp only [fanout]
    rcases List.mem_cons.mp hm with hx | hx
    · cases hx
      simp only [hd, ↓reduceIte]
      obtain ⟨w, hw⟩ := deliverConn_delivers b d (m.setQoS q) ha ht
      exact ⟨w, List.mem_append_left _ (by rw [hw]; exact List.mem_singleton.mpr rfl)⟩
    · by_cases hs : s < cbBase
      · simp only [hs, ↓reduceIte]
        obtain ⟨f1, _, _⟩ := deliverConn_frame b s (m.setQoS eqos)
        obtain ⟨c1, _, _⟩ := deliverConn_content b s (m.setQoS eqos)
        obtain ⟨w, hw⟩ := ih (deliverConn b s (m.setQoS eqos)).1 (deliverConn b s (m.setQoS eqos)).2.1
          (by rw [alive_congr f1.conns]; exact ha) (by rw [c1]; exact ht) hx
        exact ⟨w, List.mem_append_right _ hw⟩
      · simp only [hs, ↓reduceIte]
        obtain ⟨w, hw⟩ := ih b (m.setQoS eqos) ha ht hx
        exact ⟨w, List.mem_append_right _ hw⟩

/-- if `d` is a live connection that the subscriber lookup returns and the topic
name is not empty, `onPublish` writes at least one PUBLISH to `d` -/
theorem onPublish_delivers (b : B) (m : Msg) (d : Nat) (hd : d < cbBase) (ha : b.alive d = true)
    (ht : m.p.topic ≠ []) (hs : Subscribed b d m.p.topic m.p.qos) :
    pubsTo d (onPublish b m).2.2.1 ≠ [] := by
  obtain ⟨subs, q, hsub, hm⟩ := hs
  obtain ⟨r1, _, r3⟩ := retainStep_content b m
  have fr := retainStep_frame b m
  have hsub' : (retainStep b m).1.topics.subscribers (retainStep b m).2.p.topic (retainStep b m).2.p.qos
      = some subs := by
    rw [r1, r3, subscribers_congr fr.sroot]; exact hsub
  obtain ⟨w, hw⟩ := fanout_delivers (retainStep b m).1
    (if (retainStep b m).2.p.retain then (retainStep b m).2.setRetain false else (retainStep b m).2) subs d q hd
    (by rw [alive_congr fr.conns]; exact ha) (by rw [(loopMsg_content _).1, r1]; exact ht) hm
  have : Out.send d (.publish w) ∈ (onPublish b m).2.2.1 := by
    unfold onPublish
    simp only [hsub']
    rw [fanoutLive_outs]
    exact hw
  intro hnil
  have := mem_pubsTo.mpr this
  rw [hnil] at this
  cases this

/-! ### QoS 0 / QoS 1: delivered in the PUBLISH's own event -/

/-- a QoS 0 or QoS 1 PUBLISH on a live connection: the step's state is that of
`onPublish`, and the PUBLISH packets it writes are those `onPublish` writes -/
theorem publish01_step {b : B} (hI : BInv b) {c : Nat} (hl : b.alive c = true) (p : Pub)
    (hq : p.qos = 0 ∨ p.qos = 1) (d : Nat) :
    (step b (.packet c (.publish p))).1 = (onPublish b ⟨p, false⟩).1 ∧
    pubsTo d (step b (.packet c (.publish p))).2 = pubsTo d (onPublish b ⟨p, false⟩).2.2.1 := by
  obtain ⟨cn, s, hc, ha, hs, _⟩ := hI.live hl
  simp only [step]
  rcases hq with hq | hq
  · rw [packet_publish0 hc ha hs p hq]; exact ⟨rfl, rfl⟩
  · rw [packet_publish1 hc ha hs p hq]
    exact ⟨rfl, pubsTo_cons_other _ _ _ rfl⟩

/-- the stream around two events of a history -/
theorem stream_two (d : Nat) (b : B) (pre : List Ev) (e1 : Ev) (mid : List Ev) (e2 : Ev) (post : List Ev) :
    stream d b (pre ++ e1 :: (mid ++ e2 :: post)) =
      stream d b pre ++ (pubsTo d (step (run b pre).1 e1).2 ++
        (stream d (step (run b pre).1 e1).1 mid ++
          (pubsTo d (step (run (step (run b pre).1 e1).1 mid).1 e2).2 ++
            stream d (step (run (step (run b pre).1 e1).1 mid).1 e2).1 post))) := by
  rw [stream_append, stream_cons, stream_append, stream_cons]

/-! ## 3. QoS 2: released in queue order, delivered in release order -/

/-- hand the contents `ps` on one after the other (what `releaseAll` does with
the released entries); per content, the PUBLISH packets written to `d` -/
def handOver (d : Nat) (b : B) : List Pub → List (Pub × List Pub)
  | [] => []
  | p :: ps => (p, pubsTo d (onPublish b ⟨p, false⟩).2.2.1) :: handOver d (onPublish b ⟨p, false⟩).1 ps

theorem handOver_fst (d : Nat) (b : B) (ps : List Pub) : (handOver d b ps).map (·.1) = ps := by
  induction ps generalizing b with
  | nil => rfl
  | cons p ps ih => simp only [handOver, List.map_cons, ih]

theorem handOver_content (d : Nat) (b : B) (ps : List Pub) :
    ∀ x ∈ handOver d b ps, ∀ w ∈ x.2, w.topic = x.1.topic ∧ w.payload = x.1.payload := by
  induction ps generalizing b with
  | nil => intro x hx; cases hx
  | cons p ps ih =>
    intro x hx w hw
    simp only [handOver, List.mem_cons] at hx
    rcases hx with rfl | hx
    · exact onPublish_content b ⟨p, false⟩ d w (mem_pubsTo.mp hw)
    · exact ih _ x hx w hw

theorem releaseAll_pubsTo (d : Nat) (b : B) (l : List QEntry) :
    pubsTo d (releaseAll b l).2 = ((handOver d b (l.map (·.msg))).map (·.2)).flatten := by
  induction l generalizing b with
  | nil => rfl
  | cons e rest ih =>
    simp only [releaseAll, pubsTo_append, List.map_cons, handOver, List.flatten_cons, ih]

/-- what a step delivers to `d` on behalf of session object `r`'s QoS 2
exchanges: a PUBREL on a live connection bound to `r` takes the released prefix
off the queue and hands its contents on, oldest first -/
def stepBlocks (d : Nat) (b : B) (r : Nat) : Ev → List (Pub × List Pub)
  | .packet c (.pubrel id) =>
    if bound b c r then
      match b.getSess r with
      | some s =>
        handOver d (b.setSess { s with pub2in := (q2Acked (q2Ack s.pub2in id)).1 })
          ((q2Acked (q2Ack s.pub2in id)).2.map (·.msg))
      | none => []
    else []
  | _ => []

/-- … accumulated along a history -/
def blocks (d : Nat) (b : B) (r : Nat) : List Ev → List (Pub × List Pub)
  | [] => []
  | ev :: evs => stepBlocks d b r ev ++ blocks d (step b ev).1 r evs

theorem stepBlocks_pubrel {b : B} (hI : BInv b) {c r : Nat} (hb : bound b c r = true) (d id : Nat) :
    (stepBlocks d b r (.packet c (.pubrel id))).map (·.1) = stepHanded b r (.packet c (.pubrel id)) ∧
    pubsTo d (step b (.packet c (.pubrel id))).2 =
      ((stepBlocks d b r (.packet c (.pubrel id))).map (·.2)).flatten := by
  obtain ⟨_, cn, s, hc, ha, hs, hr, _, hq⟩ := bound_sess hI hb
  subst hr
  simp only [stepBlocks, hb, ↓reduceIte, hs, stepHanded, hq, handOver_fst, step, true_and]
  rw [packet_pubrel hc ha hs id, pubsTo_append, releaseAll_pubsTo]
  simp [pubsTo, pubTo]

theorem stepBlocks_fst {b : B} (hI : BInv b) (d r : Nat) (ev : Ev) :
    (stepBlocks d b r ev).map (·.1) = stepHanded b r ev := by
  cases ev with
  | packet c p =>
    cases p with
    | pubrel id =>
      by_cases hb : bound b c r = true
      · exact (stepBlocks_pubrel hI hb d id).1
      · simp [stepBlocks, stepHanded, hb]
    | _ => rfl
  | _ => rfl

theorem stepBlocks_sublist {b : B} (hI : BInv b) (d r : Nat) (ev : Ev) :
    (((stepBlocks d b r ev).map (·.2)).flatten).Sublist (pubsTo d (step b ev).2) := by
  cases ev with
  | packet c p =>
    cases p with
    | pubrel id =>
      by_cases hb : bound b c r = true
      · rw [(stepBlocks_pubrel hI hb d id).2]; exact List.Sublist.refl _
      · simp [stepBlocks, hb]
    | _ => simp [stepBlocks]
  | _ => simp [stepBlocks]

theorem stepBlocks_content (d : Nat) (b : B) (r : Nat) (ev : Ev) :
    ∀ x ∈ stepBlocks d b r ev, ∀ w ∈ x.2, w.topic = x.1.topic ∧ w.payload = x.1.payload := by
  intro x hx
  unfold stepBlocks at hx
  split at hx
  · split at hx
    · split at hx
      · exact handOver_content _ _ _ x hx
      · cases hx
    · cases hx
  · cases hx

theorem blocks_fst {b : B} (hI : BInv b) (d r : Nat) (evs : List Ev) :
    (blocks d b r evs).map (·.1) = handed b r evs := by
  induction evs generalizing b with
  | nil => rfl
  | cons ev evs ih =>
    simp only [blocks, handed, List.map_append, stepBlocks_fst hI, ih (step_inv hI ev)]

theorem blocks_sublist {b : B} (hI : BInv b) (d r : Nat) (evs : List Ev) :
    (((blocks d b r evs).map (·.2)).flatten).Sublist (stream d b evs) := by
  induction evs generalizing b with
  | nil => exact List.Sublist.refl _
  | cons ev evs ih =>
    simp only [blocks, List.map_append, List.flatten_append, stream_cons]
    exact List.Sublist.append (stepBlocks_sublist hI d r ev) (ih (step_inv hI ev))

theorem blocks_content (d : Nat) (b : B) (r : Nat) (evs : List Ev) :
    ∀ x ∈ blocks d b r evs, ∀ w ∈ x.2, w.topic = x.1.topic ∧ w.payload = x.1.payload := by
  induction evs generalizing b with
  | nil => intro x hx; cases hx
  | cons ev evs ih =>
    intro x hx
    simp only [blocks, List.mem_append] at hx
    rcases hx with hx | hx
    · exact stepBlocks_content d b r ev x hx
    · exact ih _ x hx

theorem subscribed_congr {b b' : B} (h : b'.topics.sroot = b.topics.sroot) (d : Nat) (t : Bytes) (q : Nat) :
    Subscribed b' d t q ↔ Subscribed b d t q := by
  unfold Subscribed
  rw [subscribers_congr h]

/-- within one release nothing changes the connection table or the subscription
tree, so a subscriber that is live and subscribed at the start gets every
released content -/
theorem handOver_nonempty (d : Nat) (b : B) (ps : List Pub) (hd : d < cbBase) (ha : b.alive d = true)
    (hs : ∀ p ∈ ps, p.topic ≠ [] ∧ Subscribed b d p.topic p.qos) :
    ∀ x ∈ handOver d b ps, x.2 ≠ [] := by
  induction ps generalizing b with
  | nil => intro x hx; cases hx
  | cons p ps ih =>
    intro x hx
    simp only [handOver, List.mem_cons] at hx
    have fr := (onPublish_frame b ⟨p, false⟩).1
    rcases hx with rfl | hx
    · obtain ⟨ht, hsub⟩ := hs p List.mem_cons_self
      exact onPublish_delivers b ⟨p, false⟩ d hd ha ht hsub
    · refine ih _ (by rw [alive_congr fr.conns]; exact ha) ?_ x hx
      intro p' hp'
      obtain ⟨ht, hsub⟩ := hs p' (List.mem_cons_of_mem _ hp')
      exact ⟨ht, (subscribed_congr fr.sroot d _ _).mpr hsub⟩

theorem stepBlocks_nonempty {b : B} (d r : Nat) (ev : Ev) (hd : d < cbBase) (ha : b.alive d = true)
    (hs : ∀ p ∈ stepHanded b r ev, p.topic ≠ [] ∧ Subscribed b d p.topic p.qos) :
    ∀ x ∈ stepBlocks d b r ev, x.2 ≠ [] := by
  intro x hx
  unfold stepBlocks at hx
  split at hx
  · rename_i c id
    split at hx
    · rename_i hb
      split at hx
      · rename_i s hsess
        refine handOver_nonempty d _ _ hd ?_ ?_ x hx
        · rw [alive_congr (setSess_conns _ _)]; exact ha
        · intro p hp
          have : pub2inOf b r = s.pub2in := by simp [pub2inOf, hsess]
          have hp' : p ∈ stepHanded b r (.packet c (.pubrel id)) := by
            simp only [stepHanded, hb, ↓reduceIte, this]; exact hp
          obtain ⟨ht, hsub⟩ := hs p hp'
          exact ⟨ht, (subscribed_congr (by rw [setSess_topics]) d _ _).mpr hsub⟩
      · cases hx
    · cases hx
  · cases hx

/-- the contents handed over so far are a prefix of: what was queued at the
start, followed by the exchanges opened since, in opening order -/
theorem handed_prefix {b : B} (hI : BInv b) (evs : List Ev) (r : Nat) :
    handed b r evs <+: (pub2inOf b r).map (·.msg) ++ opened b r evs :=
  ⟨_, run_conservation hI evs r⟩

end Mqtt.Proofs.BrokerOrder
