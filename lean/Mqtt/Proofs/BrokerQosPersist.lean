/-
C02 (g): open inbound QoS 2 exchanges of a CleanSession=0 session survive the
end of the connection and are there for the connection that resumes the
session; a CleanSession=1 CONNECT starts with an empty queue.
-/
import Mqtt.Proofs.BrokerQosHistory

namespace Mqtt.Proofs.BrokerQos
open Mqtt.Iface.Broker Mqtt.Model.Broker

/-- what `stop` keeps of the session object of a CleanSession=0 connection -/
theorem stop_persist {b : B} {c : Nat} {cn : Conn} {s : Sess} (hc : b.getConn c = some cn)
    (ha : cn.alive = true) (hs : b.getSess cn.sess = some s) (hcl : s.clean = false) :
    (stop b c).1.store = b.store ∧
    ∃ s', (stop b c).1.getSess cn.sess = some s' ∧ s'.clean = false ∧ s'.cid = s.cid ∧
      s'.pub2in = s.pub2in ∧ s'.ref = s.ref := by
  have hs0 : ({ b with conns := b.conns.map (fun (x : Conn) => if x.id == c then { x with alive := false } else x) } : B).getSess cn.sess = some s := hs
  have hnc : ¬ s.clean = true := by simp [hcl]
  unfold stop
  simp only [hc, ha, Bool.not_true, Bool.false_eq_true, ↓reduceIte, hs0]
  split
  · split
    · exact ⟨rfl, s, hs, hcl, rfl, rfl, rfl⟩
    · rename_i w _
      generalize hb1 : ({ b with conns := b.conns.map (fun (x : Conn) => if x.id == c then { x with alive := false } else x),
                                 topics := unsubAll b.topics c s.topics } : B) = b1
      have hf := (onPublish_frame b1 w).1
      have hst : b1.store = b.store := by subst hb1; rfl
      have hr : s.ref = cn.sess := getSess_ref hs
      refine ⟨(hf.store).trans hst, { s with will := some (onPublish b1 w).2.1 }, ?_, hcl, rfl, rfl, rfl⟩
      have := getSess_setSess_same (onPublish b1 w).1 { s with will := some (onPublish b1 w).2.1 }
      rw [← hr]; exact this
  · exact ⟨rfl, s, hs, hcl, rfl, rfl, rfl⟩

/-- … and the same for a DISCONNECT packet (which only clears the will flag first) -/
theorem disconnect_persist {b : B} {c : Nat} {cn : Conn} {s : Sess} (hc : b.getConn c = some cn)
    (ha : cn.alive = true) (hs : b.getSess cn.sess = some s) (hcl : s.clean = false) :
    (packet b c .disconnect).1.store = b.store ∧
    ∃ s', (packet b c .disconnect).1.getSess cn.sess = some s' ∧ s'.clean = false ∧ s'.cid = s.cid ∧
      s'.pub2in = s.pub2in ∧ s'.ref = s.ref := by
  have hr : s.ref = cn.sess := getSess_ref hs
  have h1 : packet b c .disconnect = stop (b.setSess { s with willFlag := false }) c := by
    simp [packet, hc, ha, hs]
  have hs1 : (b.setSess { s with willFlag := false }).getSess cn.sess = some { s with willFlag := false } := by
    rw [← hr]; exact getSess_setSess_same b { s with willFlag := false }
  have := stop_persist (b := b.setSess { s with willFlag := false }) (c := c) (cn := cn) hc ha hs1 hcl
  rw [h1]
  exact this

/-- the connection table after `attach` -/
theorem attach_bound (b1 : B) (c : Nat) (s : Sess) : bound (attach b1 c s) c s.ref = true := by
  unfold bound B.getConn attach
  simp only
  rw [List.find?_append]
  have : List.find? (fun x => x.id == c) (b1.conns.filter fun (x : Conn) => x.id != c) = none := by
    rw [List.find?_eq_none]
    intro x hx
    have := (List.mem_filter.mp hx).2
    simpa using this
  simp [this]

theorem attach_sessOf (b1 : B) (c : Nat) (s : Sess) (h : b1.getSess s.ref = some s) :
    sessOf (attach b1 c s) c = some s := by
  have hb := attach_bound b1 c s
  unfold bound at hb
  unfold sessOf
  cases hc : (attach b1 c s).getConn c with
  | none => simp [hc] at hb
  | some cn =>
    simp only [hc, Bool.and_eq_true, beq_iff_eq] at hb
    simp only [Option.bind_some, hb.2, attach_getSess]
    exact h

/-- an accepted CONNECT with CleanSession=0 for a client identifier whose stored
session object was itself kept by a CleanSession=0 connection -/
theorem first_resume {b : B} (c : Nat) (req : Connect) (r : Nat) (s : Sess)
    (hd : connectDecode req = .inr true) (hne : req.clientId.isEmpty = false) (hcl : req.clean = false)
    (hst : b.storeGet req.clientId = some r) (hs : b.getSess r = some s) (hsc : s.clean = false) :
    (first b c (.connect req) true).2 = [.send c (.connack true 0)] ∧
    bound (first b c (.connect req) true).1 c r = true ∧
    pub2inOf (first b c (.connect req) true).1 r = s.pub2in ∧
    ∃ s', sessOf (first b c (.connect req) true).1 c = some s' ∧ s'.ref = r ∧ s'.pub2in = s.pub2in := by
  have hcid : cidOf c req = (req.clientId, false) := by simp [cidOf, hne, hcl]
  have hres : resumedOf b (cidOf c req).1 (cidOf c req).2 = some s := by
    simp [hcid, resumedOf, hst, hs, hsc]
  have hr : s.ref = r := getSess_ref hs
  rw [first_resumed b c req s hd hres]
  have hsame := getSess_setSess_same b (resumeSess s req (cidOf c req).2)
  refine ⟨rfl, ?_, ?_, resumeSess s req (cidOf c req).2, ?_, hr, rfl⟩
  · have := attach_bound (b.setSess (resumeSess s req (cidOf c req).2)) c (resumeSess s req (cidOf c req).2)
    rw [← hr]; exact this
  · have h1 : pub2inOf (attach (b.setSess (resumeSess s req (cidOf c req).2)) c (resumeSess s req (cidOf c req).2)) r =
        pub2inOf (b.setSess (resumeSess s req (cidOf c req).2)) r := rfl
    rw [h1, pub2inOf_setSess]
    simp [hr, resumeSess]
  · exact attach_sessOf _ c _ hsame

/-- an accepted CONNECT that does not resume (CleanSession=1, an empty client
identifier, no stored session, or a stored session that was a clean one) -/
theorem first_fresh {b : B} (c : Nat) (req : Connect)
    (hd : connectDecode req = .inr true)
    (hres : resumedOf b (cidOf c req).1 (cidOf c req).2 = none) :
    (first b c (.connect req) true).2 = [.send c (.connack false 0)] ∧
    bound (first b c (.connect req) true).1 c b.nextRef = true ∧
    ∃ s', sessOf (first b c (.connect req) true).1 c = some s' ∧ s'.ref = b.nextRef ∧ s'.pub2in = [] := by
  rw [first_new b c req hd hres]
  refine ⟨rfl, ?_, newSess b req (cidOf c req).1 (cidOf c req).2, ?_, rfl, rfl⟩
  · exact attach_bound _ c (newSess b req (cidOf c req).1 (cidOf c req).2)
  · apply attach_sessOf
    exact getSess_setSess_same ({ b with nextRef := b.nextRef + 1 } : B) (newSess b req (cidOf c req).1 (cidOf c req).2)

theorem resumedOf_clean (b : B) (cid : Bytes) : resumedOf b cid true = none := rfl

end Mqtt.Proofs.BrokerQos
