/-
Core G (C18) — proofs about the trace theory of `Spec/Locks.lean`.

Main result `race_free_of_disciplined`: in a well-formed trace (mutex semantics
respected), if every access is atomic on an all-atomic location, or made under
the location's guard (exclusively for writes), or ordered by fork / join
(initialisation before publication, tear-down after the end), then any two
conflicting accesses are ordered by happens-before.  The classic argument: of
two critical sections of one mutex, at least one exclusive, the earlier one is
released before the later one is acquired.

No dependency on `Generated.Facts` here (the table side is `Proofs/LocksTable.lean`).
-/
import Mqtt.Spec.Locks

set_option linter.unusedVariables false

namespace Mqtt.Proofs.Locks
open Mqtt.Spec.Locks

/-! ## Basic facts -/

theorem stAt_succ_some {τ : List Ev} {k : Nat} {e : Ev} (h : τ[k]? = some e) :
    stAt τ (k + 1) = step (stAt τ k) e := by
  simp only [stAt, h]

theorem stAt_succ_none {τ : List Ev} {k : Nat} (h : τ[k]? = none) :
    stAt τ (k + 1) = stAt τ k := by
  simp only [stAt, h]

theorem acc_tid {e : Ev} {a : Acc} (h : e.acc = some a) : a.t = e.tid := by
  cases e <;> simp [Ev.acc] at h <;> subst h <;> rfl

theorem hb_lt {τ : List Ev} {i j : Nat} (h : HB τ i j) : i < j := by
  induction h with
  | edge h => exact h.1
  | trans _ _ ih1 ih2 => exact Nat.lt_trans ih1 ih2

/-- a flip of a property between two positions happens at some step -/
theorem exists_flip (P : Nat → Prop) {i j : Nat} (hij : i ≤ j) (hi : P i) (hj : ¬ P j) :
    ∃ r, i ≤ r ∧ r < j ∧ P r ∧ ¬ P (r + 1) := by
  induction j with
  | zero =>
    have : i = 0 := Nat.le_zero.mp hij
    subst this
    exact absurd hi hj
  | succ j ih =>
    by_cases hle : i ≤ j
    · by_cases hp : P j
      · exact ⟨j, hle, Nat.lt_succ_self j, hp, hj⟩
      · obtain ⟨r, h1, h2, h3, h4⟩ := ih hle hp
        exact ⟨r, h1, Nat.lt_succ_of_lt h2, h3, h4⟩
    · have : i = j + 1 := by omega
      subst this
      exact absurd hi hj

/-! ## The mutual-exclusion invariant of well-formed traces -/

/-- an exclusive holder excludes every shared holder -/
def Inv (S : LState) : Prop := ∀ m t, S.excl m = some t → ∀ u, S.shr m u = 0

theorem inv_stAt {τ : List Ev} (hwf : WF τ) : ∀ k, Inv (stAt τ k) := by
  intro k
  induction k with
  | zero => intro m t h; simp [stAt, LState.init] at h
  | succ k ih =>
    cases h : τ[k]? with
    | none => rw [stAt_succ_none h]; exact ih
    | some e =>
      rw [stAt_succ_some h]
      have en := hwf k e h
      intro m t hx u
      cases e with
      | acq t' m' =>
        simp only [step] at hx ⊢
        simp only [enabled] at en
        by_cases hm : m = m'
        · subst hm; exact en.2 u
        · simp only [hm, if_false] at hx; exact ih m t hx u
      | rel t' m' =>
        simp only [step] at hx ⊢
        by_cases hm : m = m'
        · simp [hm] at hx
        · simp only [hm, if_false] at hx; exact ih m t hx u
      | racq t' m' =>
        simp only [step] at hx ⊢
        simp only [enabled] at en
        by_cases hm : m = m'
        · subst hm; rw [en] at hx; cases hx
        · have : ¬ (m = m' ∧ u = t') := fun h => hm h.1
          simp only [this, if_false]; exact ih m t hx u
      | rrel t' m' =>
        simp only [step] at hx ⊢
        have h0 := ih m t hx u
        by_cases hc : m = m' ∧ u = t'
        · simp only [hc, and_self, if_true]; rw [← hc.1, ← hc.2, h0]
        · simp only [hc, if_false]; exact h0
      | rd _ _ | wr _ _ | ard _ _ | awr _ _ | fork _ _ | join _ _ | done _ _ | wait _ _ =>
        simp only [step] at hx ⊢; exact ih m t hx u

/-! ## What a single step can change -/

/-- the exclusive holder of `m` loses it only by its own `rel` -/
theorem excl_lost {τ : List Ev} (hwf : WF τ) {r : Nat} {m : Mid} {t : Tid}
    (h0 : (stAt τ r).excl m = some t) (h1 : (stAt τ (r + 1)).excl m ≠ some t) :
    τ[r]? = some (.rel t m) := by
  cases h : τ[r]? with
  | none => rw [stAt_succ_none h] at h1; exact absurd h0 h1
  | some e =>
    rw [stAt_succ_some h] at h1
    have en := hwf r e h
    cases e with
    | acq t' m' =>
      simp only [step] at h1
      simp only [enabled] at en
      by_cases hm : m = m'
      · subst hm; rw [en.1] at h0; cases h0
      · simp only [hm, if_false] at h1; exact absurd h0 h1
    | rel t' m' =>
      simp only [step] at h1
      simp only [enabled] at en
      by_cases hm : m = m'
      · subst hm; rw [en] at h0; cases h0; rfl
      · simp only [hm, if_false] at h1; exact absurd h0 h1
    | racq _ _ | rrel _ _ | rd _ _ | wr _ _ | ard _ _ | awr _ _ | fork _ _ | join _ _
    | done _ _ | wait _ _ =>
      simp only [step] at h1; exact absurd h0 h1

/-- `u` holds `m` in some mode -/
def Holds (S : LState) (u : Tid) (m : Mid) : Prop := S.excl m = some u ∨ 0 < S.shr m u

/-- a goroutine starts holding `m` only by its own `acq` / `racq` -/
theorem holds_gained {τ : List Ev} {r : Nat} {m : Mid} {u : Tid}
    (h0 : ¬ Holds (stAt τ r) u m) (h1 : Holds (stAt τ (r + 1)) u m) :
    τ[r]? = some (.acq u m) ∨ τ[r]? = some (.racq u m) := by
  cases h : τ[r]? with
  | none => rw [stAt_succ_none h] at h1; exact absurd h1 h0
  | some e =>
    rw [stAt_succ_some h] at h1
    cases e with
    | acq t' m' =>
      simp only [step, Holds] at h1
      by_cases hm : m = m'
      · subst hm
        simp only [if_true] at h1
        cases h1 with
        | inl hx => cases hx; exact Or.inl rfl
        | inr hs => exact absurd (Or.inr hs) h0
      · simp only [hm, if_false] at h1; exact absurd h1 h0
    | rel t' m' =>
      simp only [step, Holds] at h1
      by_cases hm : m = m'
      · subst hm
        simp only [if_true] at h1
        cases h1 with
        | inl hx => cases hx
        | inr hs => exact absurd (Or.inr hs) h0
      · simp only [hm, if_false] at h1; exact absurd h1 h0
    | racq t' m' =>
      simp only [step, Holds] at h1
      by_cases hc : m = m' ∧ u = t'
      · obtain ⟨hm, hu⟩ := hc; subst hm; subst hu; exact Or.inr rfl
      · simp only [hc, if_false] at h1; exact absurd h1 h0
    | rrel t' m' =>
      simp only [step, Holds] at h1
      by_cases hc : m = m' ∧ u = t'
      · obtain ⟨hm, hu⟩ := hc
        subst hm; subst hu
        simp only [and_self, if_true] at h1
        cases h1 with
        | inl hx => exact absurd (Or.inl hx) h0
        | inr hs =>
          have : 0 < (stAt τ r).shr m u := by omega
          exact absurd (Or.inr this) h0
      · simp only [hc, if_false] at h1; exact absurd h1 h0
    | rd _ _ | wr _ _ | ard _ _ | awr _ _ | fork _ _ | join _ _ | done _ _ | wait _ _ =>
      simp only [step] at h1; exact absurd h1 h0

/-- a goroutine becomes the exclusive holder only by its own `acq` -/
theorem excl_gained {τ : List Ev} {r : Nat} {m : Mid} {u : Tid}
    (h0 : (stAt τ r).excl m ≠ some u) (h1 : (stAt τ (r + 1)).excl m = some u) :
    τ[r]? = some (.acq u m) := by
  cases h : τ[r]? with
  | none => rw [stAt_succ_none h] at h1; exact absurd h1 h0
  | some e =>
    rw [stAt_succ_some h] at h1
    cases e with
    | acq t' m' =>
      simp only [step] at h1
      by_cases hm : m = m'
      · subst hm; simp only [if_true] at h1; cases h1; rfl
      · simp only [hm, if_false] at h1; exact absurd h1 h0
    | rel t' m' =>
      simp only [step] at h1
      by_cases hm : m = m'
      · subst hm; simp only [if_true] at h1; cases h1
      · simp only [hm, if_false] at h1; exact absurd h1 h0
    | racq _ _ | rrel _ _ | rd _ _ | wr _ _ | ard _ _ | awr _ _ | fork _ _ | join _ _
    | done _ _ | wait _ _ =>
      simp only [step] at h1; exact absurd h1 h0

/-- a shared hold of `t` on `m` ends only by its own `rrel` -/
theorem shr_lost {τ : List Ev} {r : Nat} {m : Mid} {t : Tid}
    (h0 : 0 < (stAt τ r).shr m t) (h1 : ¬ 0 < (stAt τ (r + 1)).shr m t) :
    τ[r]? = some (.rrel t m) := by
  cases h : τ[r]? with
  | none => rw [stAt_succ_none h] at h1; exact absurd h0 h1
  | some e =>
    rw [stAt_succ_some h] at h1
    cases e with
    | racq t' m' =>
      simp only [step] at h1
      by_cases hc : m = m' ∧ t = t'
      · simp only [hc, and_self, if_true] at h1; omega
      · simp only [hc, if_false] at h1; exact absurd h0 h1
    | rrel t' m' =>
      simp only [step] at h1
      by_cases hc : m = m' ∧ t = t'
      · obtain ⟨hm, ht⟩ := hc; subst hm; subst ht; rfl
      · simp only [hc, if_false] at h1; exact absurd h0 h1
    | acq _ _ | rel _ _ | rd _ _ | wr _ _ | ard _ _ | awr _ _ | fork _ _ | join _ _
    | done _ _ | wait _ _ =>
      simp only [step] at h1; exact absurd h0 h1

/-! ## Two critical sections of one mutex, at least one exclusive -/

/-- `t` holds `m` exclusively at `i`, another goroutine `u` holds it (in any
mode) at `j ≥ i`: `t` released and `u` then acquired in between -/
theorem excl_then_holds {τ : List Ev} (hwf : WF τ) {i j : Nat} (hij : i ≤ j) {m : Mid} {t u : Tid}
    (htu : t ≠ u) (hi : (stAt τ i).excl m = some t) (hj : Holds (stAt τ j) u m) :
    ∃ r a, i ≤ r ∧ r < a ∧ a < j ∧ τ[r]? = some (.rel t m) ∧
      (τ[a]? = some (.acq u m) ∨ τ[a]? = some (.racq u m)) := by
  -- at `j`, `t` is no longer the exclusive holder
  have hj' : ¬ (stAt τ j).excl m = some t := by
    intro hx
    cases hj with
    | inl h => rw [hx] at h; cases h; exact htu rfl
    | inr h => have := inv_stAt hwf j m t hx u; omega
  obtain ⟨r, hir, hrj, hr0, hr1⟩ :=
    exists_flip (fun k => (stAt τ k).excl m = some t) hij hi hj'
  have hrel := excl_lost hwf hr0 hr1
  -- right after the release nobody holds `m`
  have hfree : ¬ Holds (stAt τ (r + 1)) u m := by
    rw [stAt_succ_some hrel]
    have hz := inv_stAt hwf r m t hr0 u
    intro hh
    cases hh with
    | inl h => simp [step] at h
    | inr h => simp only [step] at h; omega
  obtain ⟨a, hra, haj, ha0, ha1⟩ :=
    exists_flip (fun k => ¬ Holds (stAt τ k) u m) (Nat.succ_le_of_lt hrj) hfree (fun h => h hj)
  have hacq := holds_gained ha0 (Classical.not_not.mp ha1)
  exact ⟨r, a, hir, hra, haj, hrel, hacq⟩

/-- `t` holds `m` shared at `i`, `u` holds it exclusively at `j ≥ i`: `t` released
its shared hold and `u` then acquired in between -/
theorem shared_then_excl {τ : List Ev} (hwf : WF τ) {i j : Nat} (hij : i ≤ j) {m : Mid} {t u : Tid}
    (hi : 0 < (stAt τ i).shr m t) (hj : (stAt τ j).excl m = some u) :
    ∃ r a, i ≤ r ∧ r < a ∧ a < j ∧ τ[r]? = some (.rrel t m) ∧ τ[a]? = some (.acq u m) := by
  have hi' : (stAt τ i).excl m ≠ some u := by
    intro hx; have := inv_stAt hwf i m u hx t; omega
  obtain ⟨a, hia, haj, ha0, ha1⟩ :=
    exists_flip (fun k => (stAt τ k).excl m ≠ some u) hij hi' (fun h => h hj)
  have hacq := excl_gained ha0 (Classical.not_not.mp ha1)
  have hz : ¬ 0 < (stAt τ a).shr m t := by
    have en := hwf a _ hacq
    simp only [enabled] at en
    have := en.2 t; omega
  obtain ⟨r, hir, hra, hr0, hr1⟩ :=
    exists_flip (fun k => 0 < (stAt τ k).shr m t) hia hi hz
  exact ⟨r, a, hir, hra, haj, shr_lost hr0 hr1, hacq⟩

/-! ## The discipline theorem -/

theorem edge_po {τ : List Ev} {i j : Nat} {a b : Ev} (hij : i < j) (hi : τ[i]? = some a)
    (hj : τ[j]? = some b) (ht : a.tid = b.tid) : HB τ i j :=
  .edge ⟨hij, a, b, hi, hj, Or.inl ht⟩

/-- the chain access → release → acquire → access -/
theorem hb_chain {τ : List Ev} {i r c j : Nat} {ea er ec eb : Ev}
    (hi : τ[i]? = some ea) (hr : τ[r]? = some er) (hc : τ[c]? = some ec) (hj : τ[j]? = some eb)
    (hir : i < r) (hrc : r < c) (hcj : c < j)
    (t1 : ea.tid = er.tid) (s : syncEdge er ec) (t2 : ec.tid = eb.tid) : HB τ i j :=
  .trans (edge_po hir hi hr t1) (.trans (.edge ⟨hrc, er, ec, hr, hc, s⟩) (edge_po hcj hc hj t2))

/-- an access that is part of the initialisation before publication (or of the
tear-down after the end) is ordered before any later access of another goroutine
to the same location -/
theorem ordered_of_initfinal_left {τ : List Ev} (hwf : WF τ) {i j : Nat}
    (hij : i < j) {ea eb : Ev} {a b : Acc}
    (hi : τ[i]? = some ea) (hj : τ[j]? = some eb) (ha : ea.acc = some a) (hb : eb.acc = some b)
    (hx : a.x = b.x) (ht : a.t ≠ b.t) (h : InitBefore τ i a ∨ FinalAfter τ i a) : HB τ i j := by
  have tb := acc_tid hb
  rcases h with ia | fa
  · -- `a` initialises: it happens before the fork of `b`'s goroutine
    obtain ⟨k, t', hk, hik⟩ := ia j eb b hj hb hx.symm (Ne.symm ht)
    have en := hwf k _ hk
    simp only [enabled] at en
    have hkj : k < j := by
      rcases Nat.lt_trichotomy k j with h | h | h
      · exact h
      · subst h; rw [hk] at hj; cases hj; simp [Ev.acc] at hb
      · exact absurd tb.symm (en j eb h hj)
    exact .trans hik (.edge ⟨hkj, _, eb, hk, hj, Or.inr (Or.inr (Or.inr (Or.inl ⟨t', by rw [← tb]⟩)))⟩)
  · -- `a` is tear-down after a join of `b`'s goroutine: impossible, `b` comes later
    obtain ⟨k, t', hk, hki⟩ := fa j eb b hj hb hx.symm (Ne.symm ht)
    have en := hwf k _ hk
    simp only [enabled] at en
    exact absurd tb.symm (en j eb (Nat.lt_trans (hb_lt hki) hij) hj)

/-- the same for the later access -/
theorem ordered_of_initfinal_right {τ : List Ev} (hwf : WF τ) {i j : Nat}
    (hij : i < j) {ea eb : Ev} {a b : Acc}
    (hi : τ[i]? = some ea) (hj : τ[j]? = some eb) (ha : ea.acc = some a) (hb : eb.acc = some b)
    (hx : a.x = b.x) (ht : a.t ≠ b.t) (h : InitBefore τ j b ∨ FinalAfter τ j b) : HB τ i j := by
  have ta := acc_tid ha
  rcases h with ib | fb
  · -- `b` initialises before the fork of `a`'s goroutine: impossible, `a` comes earlier
    obtain ⟨k, t', hk, hjk⟩ := ib i ea a hi ha hx ht
    have en := hwf k _ hk
    simp only [enabled] at en
    exact absurd ta.symm (en i ea (Nat.lt_trans hij (hb_lt hjk)) hi)
  · -- `b` is tear-down: `a`'s goroutine was joined before
    obtain ⟨k, t', hk, hkj⟩ := fb i ea a hi ha hx ht
    have en := hwf k _ hk
    simp only [enabled] at en
    have hik : i < k := by
      rcases Nat.lt_trichotomy i k with h | h | h
      · exact h
      · subst h; rw [hk] at hi; cases hi; simp [Ev.acc] at ha
      · exact absurd ta.symm (en i ea h hi)
    exact .trans (.edge ⟨hik, ea, _, hi, hk, Or.inr (Or.inr (Or.inr (Or.inr (Or.inl ⟨t', by rw [← ta]⟩))))⟩) hkj

/-- two conflicting, disciplined accesses, the first earlier in the trace, are
ordered by happens-before -/
theorem ordered_of_disciplined {g : Loc → Option Mid} {τ : List Ev} (hwf : WF τ) {i j : Nat}
    (hij : i < j) {ea eb : Ev} {a b : Acc}
    (hi : τ[i]? = some ea) (hj : τ[j]? = some eb) (ha : ea.acc = some a) (hb : eb.acc = some b)
    (hc : conflict a b) (da : DisciplinedAt g τ i a) (db : DisciplinedAt g τ j b) : HB τ i j := by
  obtain ⟨hx, ht, hw, hat⟩ := hc
  have ta := acc_tid ha
  have tb := acc_tid hb
  -- atomic clauses: the other access would be atomic as well
  rcases da with ⟨haa, hal⟩ | ga | ia | fa | ra
  · exact absurd ⟨haa, hal j eb b hj hb hx.symm⟩ hat
  rotate_left
  · exact ordered_of_initfinal_left hwf hij hi hj ha hb hx ht (Or.inl ia)
  · exact ordered_of_initfinal_left hwf hij hi hj ha hb hx ht (Or.inr fa)
  · -- `a` reads an immutable-after-initialisation location: `b` is one of its initialising writes
    have hbw : b.write = true := by
      rcases hw with h | h
      · rw [ra.1] at h; cases h
      · exact h
    exact ordered_of_initfinal_right hwf hij hi hj ha hb hx ht (ra.2 j eb b hj hb hx.symm hbw)
  rcases db with ⟨hba, hbl⟩ | gb | ib | fb | rb
  · exact absurd ⟨hbl i ea a hi ha hx, hba⟩ hat
  rotate_left
  · exact ordered_of_initfinal_right hwf hij hi hj ha hb hx ht (Or.inl ib)
  · exact ordered_of_initfinal_right hwf hij hi hj ha hb hx ht (Or.inr fb)
  · have haw : a.write = true := by
      rcases hw with h | h
      · exact h
      · rw [rb.1] at h; cases h
    exact ordered_of_initfinal_left hwf hij hi hj ha hb hx ht (rb.2 i ea a hi ha hx haw)
  -- both under the guard
  obtain ⟨m, hgm, hma⟩ := ga
  obtain ⟨m', hgm', hmb⟩ := gb
  rw [← hx, hgm] at hgm'
  cases hgm'
  rcases hma with xa | ⟨ra, sa⟩
  · -- `a` exclusive
    have hh : Holds (stAt τ j) b.t m := by
      rcases hmb with xb | ⟨_, sb⟩
      · exact Or.inl xb
      · exact Or.inr sb
    obtain ⟨r, c, hir, hrc, hcj, hrel, hacq⟩ := excl_then_holds hwf (Nat.le_of_lt hij) ht xa hh
    have hir' : i < r := by
      rcases Nat.lt_or_ge i r with h | h
      · exact h
      · have : i = r := Nat.le_antisymm hir h
        subst this; rw [hrel] at hi; cases hi; simp [Ev.acc] at ha
    rcases hacq with hq | hq
    · exact hb_chain hi hrel hq hj hir' hrc hcj (by rw [← ta]; rfl)
        (Or.inr (Or.inl ⟨a.t, b.t, m, rfl, Or.inl rfl⟩)) (by rw [← tb]; rfl)
    · exact hb_chain hi hrel hq hj hir' hrc hcj (by rw [← ta]; rfl)
        (Or.inr (Or.inl ⟨a.t, b.t, m, rfl, Or.inr rfl⟩)) (by rw [← tb]; rfl)
  · -- `a` is a read under a shared hold: `b` must be the write, hence exclusive
    rcases hmb with xb | ⟨rb, _⟩
    · obtain ⟨r, c, hir, hrc, hcj, hrel, hacq⟩ := shared_then_excl hwf (Nat.le_of_lt hij) sa xb
      have hir' : i < r := by
        rcases Nat.lt_or_ge i r with h | h
        · exact h
        · have : i = r := Nat.le_antisymm hir h
          subst this; rw [hrel] at hi; cases hi; simp [Ev.acc] at ha
      exact hb_chain hi hrel hacq hj hir' hrc hcj (by rw [← ta]; rfl)
        (Or.inr (Or.inr (Or.inl ⟨a.t, b.t, m, rfl, rfl⟩))) (by rw [← tb]; rfl)
    · rcases hw with h | h
      · rw [ra] at h; cases h
      · rw [rb] at h; cases h

theorem conflict_symm {a b : Acc} (h : conflict a b) : conflict b a :=
  ⟨h.1.symm, Ne.symm h.2.1, h.2.2.1.symm, fun ⟨x, y⟩ => h.2.2.2 ⟨y, x⟩⟩

/-- no race on a location all of whose accesses follow the discipline -/
theorem no_race_on_disciplined_loc {g : Loc → Option Mid} {τ : List Ev} (hwf : WF τ) {x : Loc}
    (hd : DisciplinedLoc g τ x) {i j : Nat} : ¬ RaceOn τ x i j := by
  rintro ⟨⟨ea, eb, a, b, hi, hj, ha, hb, hc, n1, n2⟩, e, a', hi', ha', hx⟩
  rw [hi] at hi'; cases hi'
  rw [ha] at ha'; cases ha'
  have da := hd i ea a hi ha hx
  have db := hd j eb b hj hb (hc.1 ▸ hx)
  rcases Nat.lt_trichotomy i j with h | h | h
  · exact n1 (ordered_of_disciplined hwf h hi hj ha hb hc da db)
  · subst h
    rw [hi] at hj; cases hj
    rw [ha] at hb; cases hb
    exact hc.2.1 rfl
  · exact n2 (ordered_of_disciplined hwf h hj hi hb ha (conflict_symm hc) db da)

/-- **the discipline theorem**: a well-formed trace that follows the lock
discipline has no data race -/
theorem race_free_of_disciplined {g : Loc → Option Mid} {τ : List Ev} (hwf : WF τ)
    (hd : Disciplined g τ) : RaceFree τ := by
  intro i j hr
  obtain ⟨ea, eb, a, b, hi, hj, ha, hb, hc, n1, n2⟩ := hr
  exact no_race_on_disciplined_loc hwf (hd a.x)
    ⟨⟨ea, eb, a, b, hi, hj, ha, hb, hc, n1, n2⟩, ea, a, hi, ha, rfl⟩

/-! ## From "lexically inside a critical section" to "holds the lock" -/

theorem inCS_excl_holds {τ : List Ev} (hwf : WF τ) {i : Nat} {t : Tid} {m : Mid}
    (h : InCS τ i t m .excl) : (stAt τ i).excl m = some t := by
  obtain ⟨p, hpi, hp, hno⟩ := h
  have h1 : (stAt τ (p + 1)).excl m = some t := by
    rw [stAt_succ_some hp]; simp [step]
  apply Classical.byContradiction
  intro hn
  obtain ⟨r, hpr, hri, hr0, hr1⟩ :=
    exists_flip (fun k => (stAt τ k).excl m = some t) (Nat.succ_le_of_lt hpi) h1 hn
  exact hno r (Nat.lt_of_succ_le hpr) hri (excl_lost hwf hr0 hr1)

theorem inCS_shared_holds {τ : List Ev} {i : Nat} {t : Tid} {m : Mid}
    (h : InCS τ i t m .shared) : 0 < (stAt τ i).shr m t := by
  obtain ⟨p, hpi, hp, hno⟩ := h
  have h1 : 0 < (stAt τ (p + 1)).shr m t := by
    rw [stAt_succ_some hp]; simp [step]
  apply Classical.byContradiction
  intro hn
  obtain ⟨r, hpr, hri, hr0, hr1⟩ :=
    exists_flip (fun k => 0 < (stAt τ k).shr m t) (Nat.succ_le_of_lt hpi) h1 hn
  exact hno r (Nat.lt_of_succ_le hpr) hri (shr_lost hr0 hr1)

end Mqtt.Proofs.Locks
