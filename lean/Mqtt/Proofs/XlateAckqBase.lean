/-
Tie between the REGENERATED translation of `sessions/ackqueue.go`
(`Mqtt.Generated.Xlate.Sessions.*`, produced from /repo's Go source by
extract/cmd/xlate on every check) and the hand-written model
`Model/AckQueue.lean`: the abstraction function and the statements of the tie
(`…Spec`), proved in `XlateAckqGrow.lean` / `XlateAckqOps.lean`.

The translation keeps Go's `int64` fields as `Int`, `message.Type` / packet
identifiers as `UInt8` / `UInt16`, and has the scratch slice `ackdone`; the model
has naturals and no `ackdone`.  `absQ` forgets the difference; `GWf` says the
integers are not negative (so that nothing is lost).
-/
import Mqtt.Generated.Xlate
import Mqtt.Proofs.AckQueue

namespace Mqtt.Proofs.XlateAckq

open Mqtt.Generated
open Mqtt.Generated.Xlate
open Mqtt.Model.AckQueue
open Mqtt.Proofs.AckQueue (Inv)
open Mqtt.Iface.AckQ

/-- a translated `AckMsg` as the model's -/
def absMsg (a : Sessions.AckMsg) : AckMsg :=
  ⟨a.Mtype.toNat, a.State.toNat, a.Pktid.toNat, a.Msgbuf, a.Ackbuf, a.OnComplete⟩

/-- a translated `Ackqueue` as the model's `Q` (the scratch slice `ackdone` has no counterpart) -/
def absQ (aq : Sessions.Ackqueue) : Q :=
  { size := aq.size.toNat, mask := aq.mask.toNat, count := aq.count.toNat, head := aq.head.toNat,
    tail := aq.tail.toNat, pings := aq.pings.map absMsg, ring := aq.ring.map absMsg,
    emap := aq.emap.map (fun p => (p.1.toNat, p.2.toNat)) }

/-- the `int64` fields and the indices stored in the map are not negative -/
structure GWf (aq : Sessions.Ackqueue) : Prop where
  size  : 0 ≤ aq.size
  mask  : 0 ≤ aq.mask
  count : 0 ≤ aq.count
  head  : 0 ≤ aq.head
  tail  : 0 ≤ aq.tail
  emap  : ∀ p ∈ aq.emap, 0 ≤ p.2

/-- what the model is told about a message handed to `Wait`/`insert`: the bytes
`msg.Encode` writes into a buffer of `msg.Len()` zero bytes, `none` if it fails -/
def encOf (msg : Message.Message) : Option (List UInt8) :=
  let r := msg.Encode (List.replicate msg.Len.toNat 0)
  if r.2.2 = Err.nil then some r.1 else none

/-- the model's view of the message handed to `Wait` (by dynamic type) -/
def waitMsgOf (msg : Message.Message) : WaitMsg :=
  if msg.dyn = "*message.PublishMessage" then .publish msg.QoS.toNat msg.PacketID.toNat (encOf msg)
  else if msg.dyn = "*message.SubscribeMessage" then .subscribe msg.PacketID.toNat (encOf msg)
  else if msg.dyn = "*message.UnsubscribeMessage" then .unsubscribe msg.PacketID.toNat (encOf msg)
  else if msg.dyn = "*message.PingreqMessage" then .pingreq (msg.Encode (List.replicate 2 0)).1
  else .other

/-! ## Statements of the tie (one per Go function)

Hypotheses common to all: `GWf aq`, the model's invariant `Inv (absQ aq)` and
`aq.size ≤ 2^61` (the translation does not represent `int64` overflow; `grow`
itself panics above 2^62). -/

def GrowSpec : Prop :=
  ∀ aq : Sessions.Ackqueue, GWf aq → Inv (absQ aq) → aq.size ≤ 2 ^ 61 →
    ∃ aq', Sessions.Ackqueue.grow aq = .ok aq' ∧ absQ aq' = (absQ aq).grow ∧ GWf aq' ∧ aq'.ackdone = aq.ackdone

def RemoveHeadSpec : Prop :=
  ∀ aq : Sessions.Ackqueue, GWf aq → Inv (absQ aq) → aq.size ≤ 2 ^ 61 →
    ∃ aq', Sessions.Ackqueue.removeHead aq
        = .ok (aq', if (absQ aq).empty then Err.var "errQueueEmpty" else Err.nil) ∧
      absQ aq' = (absQ aq).removeHead ∧ GWf aq' ∧ aq'.ackdone = aq.ackdone

end Mqtt.Proofs.XlateAckq
