/-
Lemmas for the SUBSCRIBE / UNSUBSCRIBE steps: retained deliveries as a fan-out,
the subscriptions an owner holds (`heldOf`) under `addHeld` and filtering, and
`Session.topics` after the per-filter loop of `processSubscribe`.
-/
import Mqtt.Proofs.BrokerRefineUpdate

set_option linter.unusedSimpArgs false

namespace Mqtt.Proofs.BrokerRefine
open Mqtt.Iface.Broker Mqtt.Model.Broker
open Mqtt.Model.Topics (MemTopics RMsg RNode)
open Mqtt.Proofs.Topics (WF RWF abs absR good entryLevels)
open Mqtt.Spec.Match (split validName validFilter topicMatches)
open Mqtt.Proofs.Broker (HeldInv RetInv heldEntry accepts modelCode retainedOf retainedPub retainedCall specSubHeld)
open Mqtt.Proofs.BrokerQos (toOpen2)
open Mqtt.Spec.Broker (Accepts SOut Held addHeld subCode wild idOk pubOf outOwner modelGroup specGroup)

/-! ### retained deliveries -/

theorem copiesOf_retained (o : Nat) (items : List (List Pub)) :
    copiesOf (specGroup o (items.map (fun l => SOut.retained o l))) = (items.map (fun l => l.map wild)).flatten := by
  induction items with
  | nil => rfl
  | cons l rest ih =>
    cases l with
    | nil =>
      have : specGroup o ((([] : List Pub) :: rest).map (fun l => SOut.retained o l)) =
          specGroup o (rest.map (fun l => SOut.retained o l)) := by
        simp [specGroup, List.filter_cons, Spec.Broker.isEmptyRetained]
      rw [this, ih]; simp
    | cons x xs =>
      have : specGroup o (((x :: xs) :: rest).map (fun l => SOut.retained o l)) =
          SOut.retained o (x :: xs) :: specGroup o (rest.map (fun l => SOut.retained o l)) := by
        simp [specGroup, List.filter_cons, Spec.Broker.isEmptyRetained, Spec.Broker.SOut.owner]
      rw [this]
      simp only [copiesOf, List.map_cons, List.flatten_cons] at ih ⊢
      rw [ih]; rfl

/-- outputs to one addressee that are, up to order, the messages of a list of
`retained` items for it -/
theorem fan_retained (o : Nat) (items : List (List Pub)) (fo : List Out)
    (hown : ∀ y ∈ fo, outOwner y = some o) (hok : ∀ y ∈ fo, okOut y = true)
    (hp : ((fo.filterMap pubOf).map wild).Perm ((items.map (fun l => l.map wild)).flatten)) :
    Fan (items.map (fun l => SOut.retained o l)) fo := by
  refine ⟨?_, ?_, hok, ?_⟩
  · intro x hx
    obtain ⟨l, _, rfl⟩ := List.mem_map.mp hx
    rfl
  · intro o' cs hx
    obtain ⟨l, _, h⟩ := List.mem_map.mp hx
    cases h
  · intro g
    by_cases hg : g = o
    · subst hg
      have h1 : modelGroup g fo = fo := by
        unfold modelGroup
        rw [List.filter_eq_self]
        intro y hy; simp [hown y hy]
      rw [h1, copiesOf_retained]
      exact hp
    · have h1 : modelGroup g fo = [] := by
        unfold modelGroup
        rw [List.filter_eq_nil_iff]
        intro y hy
        rw [hown y hy]
        simp only [beq_iff_eq, Option.some.injEq]
        exact fun e => hg e.symm
      have h2 : specGroup g (items.map (fun l => SOut.retained o l)) = [] := by
        unfold specGroup
        rw [List.filter_eq_nil_iff]
        intro x hx
        obtain ⟨l, _, rfl⟩ := List.mem_map.mp hx
        simp only [Spec.Broker.SOut.owner, Bool.and_eq_true, beq_iff_eq, Option.some.injEq, not_and]
        intro e; exact absurd e.symm hg
      rw [h1, h2]
      exact List.Perm.refl _

theorem map_wild_retainedFor (s : Spec.Broker.S) (f : Bytes) (g : Nat) :
    (Spec.Broker.retainedFor s f g).map wild = Spec.Broker.retainedFor s f g := by
  unfold Spec.Broker.retainedFor
  rw [List.map_map]
  apply List.map_congr_left
  intro r _
  rfl

theorem retainedFor_congr (s s' : Spec.Broker.S) (h : s'.rets = s.rets) (f : Bytes) (g : Nat) :
    Spec.Broker.retainedFor s' f g = Spec.Broker.retainedFor s f g := by
  unfold Spec.Broker.retainedFor; rw [h]

/-- the messages `Retained(filter)` returned, as the subscriber granted at `g`
gets them, against what the reference broker demands -/
theorem retained_wild (mt : MemTopics) (s : Spec.Broker.S) (h : RetInv mt.rroot s.rets) (t : Bytes) (g : Nat)
    (hg : good t = true) (hv : validFilter t = true) :
    ((retainedOf mt t).map (fun r => wild (retainedPub r g))).Perm (Spec.Broker.retainedFor s t g) := by
  have := Mqtt.Proofs.Broker.retained_spec mt s.rets h t g hg hv
  exact this

theorem idOk_retainedPub (r : RMsg) (g : Nat) (h : r.qos = 0 ∨ r.pktid ≠ 0) : idOk (retainedPub r g) = true := by
  unfold idOk retainedPub
  simp only
  by_cases hm : min r.qos g = 0
  · simp [hm]
  · have hq : r.qos ≠ 0 := by intro h0; rw [h0] at hm; simp at hm
    have hp : r.pktid ≠ 0 := by rcases h with h | h; exact absurd h hq; exact h
    simp [hm, hp]

/-! ### the subscriptions an owner holds -/

def heldOfL (held : List Held) (o : Nat) : List (Bytes × Nat) :=
  (held.filter (fun h => h.owner == o)).map (fun h => (h.filter, h.qos))

theorem heldOf_eq (s : Spec.Broker.S) (o : Nat) : Spec.Broker.heldOf s o = heldOfL s.held o := rfl

theorem heldOfL_addHeld_ne (held : List Held) (c o : Nat) (t : Bytes) (g : Nat) (h : o ≠ c) :
    heldOfL (addHeld held c t g) o = heldOfL held o := by
  unfold heldOfL addHeld
  rw [List.filter_append, List.filter_filter]
  have h1 : List.filter (fun (h : Held) => h.owner == o) [⟨c, t, g⟩] = [] := by
    simp [List.filter_cons]; exact fun e => h e.symm
  rw [h1, List.append_nil]
  congr 1
  apply List.filter_congr
  intro x _
  by_cases hx : x.owner = o
  · have : (x.owner == c) = false := by rw [beq_eq_false_iff_ne]; rw [hx]; exact h
    simp [hx, this, h]
  · simp [hx]

theorem heldOfL_addHeld_self (held : List Held) (c : Nat) (t : Bytes) (g : Nat) :
    heldOfL (addHeld held c t g) c = (heldOfL held c).filter (fun p => p.1 != t) ++ [(t, g)] := by
  unfold heldOfL addHeld
  rw [List.filter_append, List.filter_filter, List.map_append, List.filter_map]
  have h1 : List.filter (fun (h : Held) => h.owner == c) [⟨c, t, g⟩] = [⟨c, t, g⟩] := by simp [List.filter_cons]
  rw [h1]
  simp only [List.map_cons, List.map_nil]
  congr 2
  rw [List.filter_filter]
  apply List.filter_congr
  intro x _
  by_cases hx : x.owner = c
  · simp [hx, bne]
  · have : (x.owner == c) = false := by simpa using hx
    simp [this]

theorem heldOfL_filter (held : List Held) (P : Held → Bool) (c o : Nat) (Q : Bytes → Bool)
    (hP : ∀ h, P h = !(h.owner == c && Q h.filter)) :
    heldOfL (held.filter P) o = if o = c then (heldOfL held c).filter (fun p => !Q p.1) else heldOfL held o := by
  unfold heldOfL
  rw [List.filter_filter]
  split
  · rename_i hoc
    subst hoc
    rw [List.filter_map, List.filter_filter]
    congr 1
    apply List.filter_congr
    intro x _
    rw [hP]
    by_cases hx : x.owner = o
    · simp [hx]
    · have : (x.owner == o) = false := by simpa using hx
      simp [this]
  · rename_i hoc
    congr 1
    apply List.filter_congr
    intro x _
    rw [hP]
    by_cases hx : x.owner = o
    · have : (x.owner == c) = false := by rw [beq_eq_false_iff_ne, hx]; exact hoc
      simp [hx, this, hoc]
    · simp [hx]

/-! ### `Session.topics` after the SUBSCRIBE loop -/

/-- `Session.AddTopic` for every accepted filter, in request order -/
def subTopics (topics : List (Bytes × Nat)) (ts : List (Bytes × Nat)) : List (Bytes × Nat) :=
  topics.foldl (fun ts tq => if accepts tq.1 tq.2 then (tq.1, tq.2) :: ts.filter (fun p => p.1 != tq.1) else ts) ts

theorem subscribeLoop_sess (c : Nat) (topics : List (Bytes × Nat)) :
    ∀ (b : B) (s : Sess) (codes : List Nat) (rms : List Msg),
      (subscribeLoop b c s topics codes rms).2.1 = { s with topics := subTopics topics s.topics } := by
  induction topics with
  | nil => intro b s codes rms; rfl
  | cons tq rest ih =>
    intro b s codes rms
    obtain ⟨t, q⟩ := tq
    unfold subscribeLoop
    have hr := Mqtt.Proofs.Broker.subscribe_snd b.topics Mqtt.Generated.maxQosAllowed t q c
    generalize b.topics.subscribe Mqtt.Generated.maxQosAllowed t q c = r at hr
    obtain ⟨ts, o⟩ := r
    simp only at hr
    cases o with
    | none =>
      have ha : accepts t q = false := by
        cases h : accepts t q with
        | false => rfl
        | true => rw [h] at hr; simp at hr
      simp only
      rw [ih]
      simp [subTopics, ha]
    | some rq =>
      have ha : accepts t q = true := by
        cases h : accepts t q with
        | false => rw [h] at hr; simp at hr
        | true => rfl
      simp only
      rw [ih]
      simp [subTopics, ha]

theorem accepts_iff_good (t : Bytes) (q : Nat) (hg : good t = true) :
    accepts t q = true ↔ validFilter t = true ∧ q ≤ 2 := by
  rw [Mqtt.Proofs.Broker.accepts_good t q hg]
  simp

/-- the topic list of the session and the subscriptions the reference broker
holds for the connection stay related through the loop -/
theorem topicsRel_subscribe (c : Nat) (topics : List (Bytes × Nat)) (hg : ∀ tq ∈ topics, good tq.1 = true) :
    ∀ (ts : List (Bytes × Nat)) (held : List Held), TopicsRel ts (heldOfL held c) →
      TopicsRel (subTopics topics ts) (heldOfL (specSubHeld c topics held) c) := by
  induction topics with
  | nil => intro ts held h; exact h
  | cons tq rest ih =>
    intro ts held h
    obtain ⟨t, q⟩ := tq
    have hgt : good t = true := hg (t, q) (by simp)
    simp only [subTopics, specSubHeld, List.foldl_cons]
    obtain ⟨c1, c2⟩ := Mqtt.Proofs.Broker.subCode_granted t q
    rw [Mqtt.Proofs.Broker.accepts_good t q hgt, c1]
    cases hcond : (validFilter t && decide (q ≤ 2)) with
    | false =>
      simp only [Bool.false_eq_true, ↓reduceIte]
      exact ih (fun x hx => hg x (List.mem_cons_of_mem _ hx)) ts held h
    | true =>
      simp only [↓reduceIte]
      apply ih (fun x hx => hg x (List.mem_cons_of_mem _ hx))
      have hq2 : q ≤ 2 := by simp only [Bool.and_eq_true, decide_eq_true_eq] at hcond; exact hcond.2
      have hvt : validFilter t = true := by simp only [Bool.and_eq_true] at hcond; exact hcond.1
      have hgq : subCode t q = q := by
        rw [c2 hcond]; unfold Mqtt.Generated.maxQosAllowed; omega
      rw [heldOfL_addHeld_self, hgq]
      refine ⟨?_, ?_, ?_⟩
      · refine (List.perm_cons_append_cons (t, q) (l₁ := (heldOfL held c).filter (fun p => p.1 != t)) (l₂ := []) ?_)
        simpa using h.perm.filter (fun p => p.1 != t)
      · simp only [List.map_cons, List.nodup_cons]
        refine ⟨?_, (h.nodup.sublist ((List.filter_sublist).map _))⟩
        intro hm
        obtain ⟨p, hp, hpt⟩ := List.mem_map.mp hm
        have := (List.mem_filter.mp hp).2
        simp [hpt] at this
      · intro p hp
        rcases List.mem_cons.mp hp with rfl | hp
        · simp [subOk, hgt, hvt, hq2]
        · exact h.ok p (List.mem_filter.mp hp).1

/-- ... and through an UNSUBSCRIBE -/
theorem topicsRel_unsubscribe (topics : List Bytes) (ts subs : List (Bytes × Nat)) (h : TopicsRel ts subs) :
    TopicsRel (ts.filter (fun p => !topics.contains p.1)) (subs.filter (fun p => !topics.contains p.1)) :=
  ⟨h.perm.filter _, h.nodup.sublist ((List.filter_sublist).map _), fun p hp => h.ok p (List.mem_filter.mp hp).1⟩

end Mqtt.Proofs.BrokerRefine
