/-
C17, wrap path — tie between the statement-level shape of `service.writeMessage` in the Go source
(regenerated into `Generated/Facts.lean` by `extract/facts_wrap.go` on every check) and the model
`Model/WriteWrap.lean`.  Two links, both by `decide`:

* the regenerated tables equal the model's own tables for the shape `code` (`headTable`,
  `wrapTable`, `plainTable`) — a source that drops the growth test, writes the whole scratch
  buffer, or reserves before taking the lock yields different tables;
* the model's tables are what its step function does: `trace` runs a single delivery on a probe
  state and names every step by its EFFECT on the ring / scratch buffer / cursors.
-/
import Mqtt.Model.WriteWrap
import Mqtt.Generated.Facts

namespace Mqtt.Proofs.WriteWrap
open Mqtt.Model.WriteWrap

/-- the code (in the extractor's vocabulary) of the step thread 0 takes in `s`, judged by what
the step does -/
def stepCodes (v : Shape) (size : Nat) (s : St) : List Nat :=
  match s.ths[0]?, step v size s 0 with
  | some th, some s' =>
    match th.todo with
    | [] => []
    | m :: _ =>
      match th.pc with
      | .idle => if s.holder = none ∧ s'.holder = some 0 then [2] else []
      | .entered =>
        match s'.ths[0]? with
        | some th' =>
          (match th'.pc with
           | .reserved _ => [4]
           | .wrapped => [4]
           | _ => [])
        | none => []
      | .wrapped => if s'.sh.outtmp.length = m.length ∧ s.sh.outtmp.length < m.length then [10] else []
      | .grown => if s'.sh.outtmp = m ++ s.sh.outtmp.drop m.length then [20] else []
      | .copied _ _ =>
        if s'.sh.pseq = s.sh.pseq + m.length then [30]
        else if s'.sh.pseq = s.sh.pseq + s.sh.outtmp.length then [31] else []
      | .reserved _ => if readRing s'.sh.ring size s.sh.pseq m.length = m then [40] else []
      | .commit _ => if s'.sh.pseq = s.sh.pseq + m.length then [50] else []
      | _ => []
  | _, _ => []

/-- thread 0 alone, at most `n` steps -/
def trace (v : Shape) (size : Nat) : Nat → St → List Nat
  | 0, _ => []
  | n + 1, s =>
    stepCodes v size s ++
      (match step v size s 0 with
       | some s' => trace v size n s'
       | none => [])

/-- ring of 8 cells, cursors at 6, one thread with one packet -/
def probe (tmp : List UInt8) (m : List UInt8) : St :=
  { sh := { pseq := 6, cseq := 6, ring := List.replicate 8 0, outtmp := tmp }, ths := [{ todo := [m] }] }

/-- **the source has the shape the model was written against**: `l := msg.Len()`, Lock, deferred
Unlock, `WriteWait(l)`, `if wrap`; wrap branch: growth test with `make([]byte, l)`,
`Encode(svc.outtmp[0:])`, `Write(svc.outtmp[0:n])`; plain branch: `Encode(buf[0:])`, `WriteCommit(n)` -/
theorem facts_write_wrap_shape :
    Mqtt.Generated.wmHead = headTable code ∧
    Mqtt.Generated.wmWrapBranch = wrapTable code ∧
    Mqtt.Generated.wmPlainBranch = plainTable code := by decide

/-- **the tables are what the model does.**  A 4-byte packet at position 6 of 8 wraps; with an
empty scratch buffer the model grows it, encodes into it and writes exactly the packet; with a
longer scratch buffer full of stale bytes it does not grow and still writes exactly the packet.  A
2-byte packet does not wrap: encode in place, commit.  The variants do what their tables say:
`sliceN = false` advances the cursor by the whole scratch buffer, `growTest = false` makes the
delivery fail in `Encode` (nothing after `WriteWait`). -/
theorem facts_write_wrap_steps :
    trace code 8 9 (probe [] [7, 8, 9, 10]) = [2, 4] ++ Mqtt.Generated.wmWrapBranch ∧
    trace code 8 9 (probe [1, 2, 3, 4, 5, 6] [7, 8, 9, 10]) = [2, 4, 20, 30] ∧
    trace code 8 9 (probe [] [7, 8]) = [2, 4] ++ Mqtt.Generated.wmPlainBranch ∧
    (trace code 8 9 (probe [] [7, 8, 9, 10])).filter (10 ≤ ·) = wrapTable code ∧
    (trace code 8 9 (probe [] [7, 8])).filter (10 ≤ ·) = plainTable code ∧
    (trace { code with sliceN := false } 8 9 (probe [1, 2, 3, 4, 5, 6] [7, 8, 9, 10])).filter (10 ≤ ·) =
      (wrapTable { code with sliceN := false }).filter (· ≠ 10) ∧
    (trace { code with growTest := false } 8 9 (probe [] [7, 8, 9, 10])) = [2, 4] := by decide

end Mqtt.Proofs.WriteWrap
