/-
Core D — enabledness, deadlock freedom at quiescence, Close as a straight line,
critical sections are short, `done` unblocks.  Property theorems: `Properties/C15.lean`.
-/
import Mqtt.Proofs.RingLive

set_option linter.unusedSimpArgs false
set_option linter.unusedVariables false

namespace Mqtt.Proofs.Ring
open Mqtt.Model.Ring Mqtt.Iface.Ring Mqtt.Spec.Ring

/-! ### enabledness -/

/-- the mutex a thread at this program counter is about to lock -/
def wantsLock : Pc → Option Mx
  | .x11 | .s32 _ _ | .r65 _ _ _ | .k103 _ => some .pL
  | .x14 | .w43 _ | .c51 _ | .r73 _ _ | .p82 _ _ _ => some .cL
  | _ => none

/-- the condition variable (named by its mutex) a thread is parked on -/
def parkedOn : Pc → Option Mx
  | .s36w _ _ => some .pL
  | .r77w _ _ | .p86w _ _ _ => some .cL
  | _ => none

@[simp] theorem wantsLock_rfExit (th : Th) (n : Nat) (e : Err) : wantsLock (rfExit th n e).pc = none :=
  (obs_helpers (fun pc => wantsLock pc) none (rfl) (rfl) (fun _ => rfl) (fun _ _ => rfl) { k := 0, src := fun _ => 0 } th).1 n e
@[simp] theorem wantsLock_wfsErr (th : Th) (e : Err) : wantsLock (wfsErr th e).pc = none :=
  (obs_helpers (fun pc => wantsLock pc) none (rfl) (rfl) (fun _ => rfl) (fun _ _ => rfl) { k := 0, src := fun _ => 0 } th).2.1 e
@[simp] theorem wantsLock_enterWfs (cfg : Cfg) (th : Th) (n : Nat) : wantsLock (enterWfs cfg th n).pc = none :=
  (obs_helpers (fun pc => wantsLock pc) none (rfl) (rfl) (fun _ => rfl) (fun _ _ => rfl) cfg th).2.2.1 n
@[simp] theorem wantsLock_wcRet (th : Th) (n : Nat) : wantsLock (wcRet th n).pc = none :=
  (obs_helpers (fun pc => wantsLock pc) none (rfl) (rfl) (fun _ => rfl) (fun _ _ => rfl) { k := 0, src := fun _ => 0 } th).2.2.2.1 n
@[simp] theorem wantsLock_closeRet (th : Th) : wantsLock (closeRet th).pc = none :=
  (obs_helpers (fun pc => wantsLock pc) none (rfl) (rfl) (fun _ => rfl) (fun _ _ => rfl) { k := 0, src := fun _ => 0 } th).2.2.2.2
@[simp] theorem parkedOn_rfExit (th : Th) (n : Nat) (e : Err) : parkedOn (rfExit th n e).pc = none :=
  (obs_helpers (fun pc => parkedOn pc) none (rfl) (rfl) (fun _ => rfl) (fun _ _ => rfl) { k := 0, src := fun _ => 0 } th).1 n e
@[simp] theorem parkedOn_wfsErr (th : Th) (e : Err) : parkedOn (wfsErr th e).pc = none :=
  (obs_helpers (fun pc => parkedOn pc) none (rfl) (rfl) (fun _ => rfl) (fun _ _ => rfl) { k := 0, src := fun _ => 0 } th).2.1 e
@[simp] theorem parkedOn_enterWfs (cfg : Cfg) (th : Th) (n : Nat) : parkedOn (enterWfs cfg th n).pc = none :=
  (obs_helpers (fun pc => parkedOn pc) none (rfl) (rfl) (fun _ => rfl) (fun _ _ => rfl) cfg th).2.2.1 n
@[simp] theorem parkedOn_wcRet (th : Th) (n : Nat) : parkedOn (wcRet th n).pc = none :=
  (obs_helpers (fun pc => parkedOn pc) none (rfl) (rfl) (fun _ => rfl) (fun _ _ => rfl) { k := 0, src := fun _ => 0 } th).2.2.2.1 n
@[simp] theorem parkedOn_closeRet (th : Th) : parkedOn (closeRet th).pc = none :=
  (obs_helpers (fun pc => parkedOn pc) none (rfl) (rfl) (fun _ => rfl) (fun _ _ => rfl) { k := 0, src := fun _ => 0 } th).2.2.2.2

/-- a thread can take a step unless the process crashed, its program is finished, the mutex it
wants is held, or it is parked and not woken / its mutex is held -/
theorem tstep_none (cfg : Cfg) (sh : Sh) (me : Tid) (th : Th) (hs : tstep cfg sh me th = none) :
    sh.crash = true ∨ (th.pc = .idle ∧ th.prog = []) ∨
    (∃ m, wantsLock th.pc = some m ∧ sh.owner m ≠ none) ∨
    (∃ m, parkedOn th.pc = some m ∧ (sh.note m = false ∨ sh.owner m ≠ none)) := by
  by_cases hcr : sh.crash = true
  · exact Or.inl hcr
  · have hcr' : sh.crash = false := by simpa using hcr
    refine Or.inr ?_
    obtain ⟨pc, prog, cur, slice, filled, view, pending, res⟩ := th
    cases pc
    case idle =>
      simp only [tstep, Bool.false_eq_true, ↓reduceIte, hcr'] at hs
      cases prog with
      | nil => exact Or.inl ⟨rfl, rfl⟩
      | cons call rest => simp at hs
    case l21 cpos =>
      simp only [tstep, Bool.false_eq_true, ↓reduceIte, hcr'] at hs
      repeat' split at hs
      all_goals simp at hs
    case r62 n cpos =>
      simp only [tstep, Bool.false_eq_true, ↓reduceIte, hcr'] at hs
      repeat' split at hs
      all_goals simp at hs
    case p88 w n cpos ppos =>
      simp only [tstep, Bool.false_eq_true, ↓reduceIte, hcr'] at hs
      repeat' split at hs
      all_goals simp at hs
    all_goals (
      simp only [tstep, Bool.false_eq_true, ↓reduceIte, hcr', Option.map_eq_none_iff] at hs
      first
      | (simp at hs; done)
      | (split at hs <;> simp at hs; done)
      | (dsimp only at hs; split at hs <;> simp at hs; done)
      | (refine Or.inr (Or.inl ⟨_, rfl, ?_⟩)
         unfold Sh.lock at hs
         split at hs
         · simp at hs
         · rename_i h; rw [h]; simp)
      | (refine Or.inr (Or.inr ⟨_, rfl, ?_⟩)
         unfold Sh.resume at hs
         split at hs
         · rename_i hn
           right
           unfold Sh.lock at hs
           simp only [Option.map_eq_none_iff] at hs
           split at hs
           · simp at hs
           · rename_i h; rw [h]; simp
         · rename_i hn; left; simpa using hn))

/-- inside a critical section every step is enabled: critical sections do not nest and contain no blocking operation -/
theorem holder_enabled (cfg : Cfg) (sh : Sh) (me : Tid) (th : Th) (m : Mx) (hcr : sh.crash = false)
    (hh : holds th.pc m = true) : tstep cfg sh me th ≠ none := by
  intro hs
  rcases tstep_none cfg sh me th hs with h | h | ⟨m', h, _⟩ | ⟨m', h, _⟩
  · rw [hcr] at h; cases h
  · rw [h.1] at hh; cases m <;> simp [holds] at hh
  · cases hp : th.pc <;> rw [hp] at hh h <;> cases m <;> simp [holds, wantsLock] at hh h
  · cases hp : th.pc <;> rw [hp] at hh h <;> cases m <;> simp [holds, parkedOn] at hh h

theorem step_none_tstep (cfg : Cfg) (s : St) (t : Tid) (th : Th) (hth : s.getTh t = some th)
    (hs : step cfg s t = none) : tstep cfg s.sh t th = none := by
  unfold step at hs
  rw [hth] at hs
  simp only at hs
  split at hs
  · assumption
  · simp at hs

/-- in a state where no thread can take a step, every thread has finished its program or is parked -/
theorem quiescent_parked (cfg : Cfg) (s : St) (hl : LInv s) (hq : ∀ t, step cfg s t = none)
    (t : Tid) (th : Th) (hth : s.getTh t = some th) :
    (th.pc = .idle ∧ th.prog = []) ∨
    (∃ m, parkedOn th.pc = some m ∧ s.sh.note m = false ∧ s.sh.owner m = none) := by
  have hfree : ∀ m, s.sh.owner m = none := by
    intro m
    cases ho : s.sh.owner m with
    | none => rfl
    | some t' =>
      obtain ⟨th', hth'⟩ := hl.real m t' ho
      have hh := (hl.own t' th' hth' m).mpr ho
      exact absurd (step_none_tstep cfg s t' th' hth' (hq t')) (holder_enabled cfg s.sh t' th' m hl.nocrash hh)
  rcases tstep_none cfg s.sh t th (step_none_tstep cfg s t th hth (hq t)) with h | h | ⟨m, h, h2⟩ | ⟨m, h, h2⟩
  · rw [hl.nocrash] at h; cases h
  · exact Or.inl h
  · exact absurd (hfree m) h2
  · refine Or.inr ⟨m, h, ?_, hfree m⟩
    rcases h2 with h2 | h2
    · exact h2
    · exact absurd (hfree m) h2

theorem pend_not_parked (pc : Pc) (h : pendC pc = true ∨ pendCd pc = true ∨ pendP pc = true ∨ pendPd pc = true) :
    pc ≠ .idle ∧ parkedOn pc = none := by
  cases pc <;> simp [pendC, pendCd, pendP, pendPd, parkedOn] at h ⊢

theorem parkedOn_c (pc : Pc) (h : parkedOn pc = some .cL) : cParked pc = true ∧ cStage pc = 2 := by
  cases pc <;> simp [parkedOn, cParked, cStage] at h ⊢

theorem parkedOn_p (pc : Pc) (h : parkedOn pc = some .pL) : pParked pc = true ∧ pStage pc = 2 := by
  cases pc <;> simp [parkedOn, pParked, pStage] at h ⊢

theorem parkedOn_role (pc : Pc) (m : Mx) (h : parkedOn pc = some m) :
    (m = .cL ∧ pcRole pc = .cons) ∨ (m = .pL ∧ pcRole pc = .prod) := by
  cases pc <;> simp [parkedOn, pcRole] at h ⊢ <;> simp [← h]

/-- **Deadlock freedom and no lost wake-up, at quiescence.**  If no thread can take a step then
every thread that has not finished is *legitimately* waiting: it is the consumer parked on ccond
with no (resp. not enough) data committed and the ring open, or the producer parked on pcond with
not enough space committed and the ring open. -/
theorem quiescent_legit (cfg : Cfg) (base : Nat) (s : St) (hr : RInv cfg base s) (hl : LInv s)
    (hc : NLWC s) (hp : NLWP cfg s) (hq : ∀ t, step cfg s t = none)
    (t : Tid) (th : Th) (hth : s.getTh t = some th) :
    (th.pc = .idle ∧ th.prog = []) ∨
    (t = .c ∧ cParked th.pc = true ∧ noDataAt s.sh.pseq th.pc ∧ s.sh.done = false) ∨
    (t = .p ∧ pParked th.pc = true ∧ noSpaceAt cfg.size s.sh.cseq th.pc ∧ s.sh.done = false) := by
  -- nobody is a pending broadcaster: such a thread would be enabled
  have hnopend : ∀ ex (f : Pc → Bool), (∀ pc, f pc = true → pc ≠ .idle ∧ parkedOn pc = none) → ¬ exPc s ex f := by
    rintro ex f hf ⟨t0, th0, _, h0, hf0⟩
    obtain ⟨a, b⟩ := hf _ hf0
    rcases quiescent_parked cfg s hl hq t0 th0 h0 with h | ⟨m, h, _⟩
    · exact a h.1
    · rw [b] at h; cases h
  rcases quiescent_parked cfg s hl hq t th hth with h | ⟨m, hpk, hnote, _⟩
  · exact Or.inl h
  · have hok := thOK_of_rinv cfg base s hr t th hth
    rcases parkedOn_role th.pc m hpk with ⟨rfl, hrole⟩ | ⟨rfl, hrole⟩
    · -- the consumer
      have ht : t = .c := by
        have := hok.role; rw [hrole] at this; cases t <;> simp [roleOK] at this ⊢
      subst ht
      have hC : s.C = th := by simpa [St.getTh] using hth
      obtain ⟨hpar, hst⟩ := parkedOn_c th.pc hpk
      unfold NLWC at hc
      rw [hC] at hc
      have H := hc (by omega) (fun _ => hnote)
      refine Or.inr (Or.inl ⟨rfl, hpar, ?_, ?_⟩)
      · rcases H.1 with a | a
        · exact a
        · exact absurd a (hnopend _ _ (fun pc h => pend_not_parked pc (Or.inl h)))
      · rcases H.2 hst with a | a
        · exact a
        · exact absurd a (hnopend _ _ (fun pc h => pend_not_parked pc (Or.inr (Or.inl h))))
    · -- the producer
      have ht : t = .p := by
        have := hok.role; rw [hrole] at this; cases t <;> simp [roleOK] at this ⊢
      subst ht
      have hP : s.P = th := by simpa [St.getTh] using hth
      obtain ⟨hpar, hst⟩ := parkedOn_p th.pc hpk
      unfold NLWP at hp
      rw [hP] at hp
      have H := hp (by omega) (fun _ => hnote)
      refine Or.inr (Or.inr ⟨rfl, hpar, ?_, ?_⟩)
      · rcases H.1 with a | a
        · exact a
        · exact absurd a (hnopend _ _ (fun pc h => pend_not_parked pc (Or.inr (Or.inr (Or.inl h)))))
      · rcases H.2 hst with a | a
        · exact a
        · exact absurd a (hnopend _ _ (fun pc h => pend_not_parked pc (Or.inr (Or.inr (Or.inr h)))))


/-! ### Close is a straight line; critical sections are short -/

/-- number of own steps `Close` still has to take -/
def closeRank : Pc → Nat
  | .x10 => 7 | .x11 => 6 | .x12 => 5 | .x13 => 4 | .x14 => 3 | .x15 => 2 | .x16 => 1
  | _ => 0

/-- upper bound on the own steps until a thread inside a critical section has released the mutex
(by `Unlock` or by parking in `Wait`) -/
def csRank : Pc → Nat
  | .x12 | .r66 _ _ _ | .k104 _ | .x15 | .w44 _ | .c52 _ => 2
  | .x13 | .r67 _ _ _ | .k105 _ | .x16 | .w45 _ | .c53 _ => 1
  | .r74 _ _ | .r78 _ _ | .p83 _ _ _ | .p87 _ _ _ => 4
  | .s33 _ _ | .s37 _ _ | .r75 _ _ | .p84 _ _ _ => 3
  | .s34 _ _ | .r75r _ _ | .p84r _ _ _ => 2
  | .s35 _ _ | .s36 _ _ | .s38 _ _ _ | .r76 _ _ | .r77 _ _ | .r79 _ | .p85 _ _ _ | .p86 _ _ _ | .p88 _ _ _ _ => 1
  | _ => 0

@[simp] theorem csRank_rfExit (th : Th) (n : Nat) (e : Err) : csRank (rfExit th n e).pc = 0 :=
  (obs_helpers (fun pc => csRank pc) 0 (rfl) (rfl) (fun _ => rfl) (fun _ _ => rfl) { k := 0, src := fun _ => 0 } th).1 n e
@[simp] theorem csRank_wfsErr (th : Th) (e : Err) : csRank (wfsErr th e).pc = 0 :=
  (obs_helpers (fun pc => csRank pc) 0 (rfl) (rfl) (fun _ => rfl) (fun _ _ => rfl) { k := 0, src := fun _ => 0 } th).2.1 e
@[simp] theorem csRank_enterWfs (cfg : Cfg) (th : Th) (n : Nat) : csRank (enterWfs cfg th n).pc = 0 :=
  (obs_helpers (fun pc => csRank pc) 0 (rfl) (rfl) (fun _ => rfl) (fun _ _ => rfl) cfg th).2.2.1 n
@[simp] theorem csRank_wcRet (th : Th) (n : Nat) : csRank (wcRet th n).pc = 0 :=
  (obs_helpers (fun pc => csRank pc) 0 (rfl) (rfl) (fun _ => rfl) (fun _ _ => rfl) { k := 0, src := fun _ => 0 } th).2.2.2.1 n
@[simp] theorem csRank_closeRet (th : Th) : csRank (closeRet th).pc = 0 :=
  (obs_helpers (fun pc => csRank pc) 0 (rfl) (rfl) (fun _ => rfl) (fun _ _ => rfl) { k := 0, src := fun _ => 0 } th).2.2.2.2

theorem holds_idle (m : Mx) : holds .idle m = false := by cases m <;> rfl

/-- every own step of `Close` is one of its seven statements in order, and the last one returns:
`ok` to the caller of `Close`; when it was the deferred `Close` of `ReadFrom` (frame `rfret n e`),
`ReadFrom` returns `(n, e)` -/
theorem close_rank_step (cfg : Cfg) (sh sh' : Sh) (me : Tid) (th th' : Th)
    (hc : 0 < closeRank th.pc) (hs : tstep cfg sh me th = some (sh', th')) :
    closeRank th'.pc + 1 = closeRank th.pc ∧
    (closeRank th'.pc = 0 → th'.pc = .idle ∧ ∃ r, th'.res = some r ∧
      ((∀ n e, th.cur ≠ some (.rfret n e)) → r.err = .ok) ∧ (∀ n e, th.cur = some (.rfret n e) → r.n = n ∧ r.err = e)) := by
  have hcr := tstep_crash _ _ _ _ _ hs
  obtain ⟨pc, prog, cur, slice, filled, view, pending, res⟩ := th
  cases pc <;> simp only [closeRank, Nat.lt_irrefl] at hc
  case x16 =>
    tstep_norm
    obtain ⟨rfl, rfl⟩ := hs
    refine ⟨by rw [closeRet_pc]; rfl, fun _ => ⟨closeRet_pc _, ?_⟩⟩
    unfold closeRet
    split
    · rename_i n e hcur
      refine ⟨_, rfl, fun h => absurd hcur (h n e), fun n' e' h => ?_⟩
      have hcur' : cur = some (Call.rfret n e) := hcur
      rw [hcur'] at h
      cases h
      exact ⟨rfl, rfl⟩
    · rename_i hne
      exact ⟨_, rfl, fun _ => rfl, fun n e h => absurd h (hne n e)⟩
  all_goals tstep_norm
  all_goals tstep_elim
  all_goals simp [closeRank, Th.goto, Th.ret]

/-- `Close` can only ever be kept from stepping by a held mutex: pcond.L at its first `Lock`,
ccond.L at its second -/
theorem close_blocked (cfg : Cfg) (sh : Sh) (me : Tid) (th : Th) (hcr : sh.crash = false)
    (hc : 0 < closeRank th.pc) (hs : tstep cfg sh me th = none) :
    (th.pc = .x11 ∧ sh.owner .pL ≠ none) ∨ (th.pc = .x14 ∧ sh.owner .cL ≠ none) := by
  rcases tstep_none cfg sh me th hs with h | h | ⟨m, h, h2⟩ | ⟨m, h, _⟩
  · rw [hcr] at h; cases h
  · rw [h.1] at hc; simp [closeRank] at hc
  · cases hp : th.pc <;> rw [hp] at hc h <;> simp [closeRank, wantsLock] at hc h
    · left; exact ⟨rfl, by subst h; exact h2⟩
    · right; exact ⟨rfl, by subst h; exact h2⟩
  · cases hp : th.pc <;> rw [hp] at hc h <;> simp [closeRank, parkedOn] at hc h

/-- inside a critical section every own step either releases the mutex or gets strictly closer
to releasing it (at most three steps) -/
theorem cs_rank_step (cfg : Cfg) (sh sh' : Sh) (me : Tid) (th th' : Th) (m : Mx)
    (hh : holds th.pc m = true) (hs : tstep cfg sh me th = some (sh', th')) :
    holds th'.pc m = true → csRank th'.pc < csRank th.pc := by
  have hcr := tstep_crash _ _ _ _ _ hs
  obtain ⟨pc, prog, cur, slice, filled, view, pending, res⟩ := th
  cases pc <;> cases m <;> simp only [holds, Bool.false_eq_true] at hh
  all_goals tstep_norm
  all_goals tstep_elim
  all_goals (first
    | (intro h; rw [holds_wfsOk] at h; cases h)
    | (intro h; rw [holds_wfsErr] at h; cases h)
    | (intro h; rw [holds_wcRet] at h; cases h)
    | (intro h; rw [holds_closeRet] at h; cases h)
    | simp [holds, csRank, Th.goto, Th.ret])

/-! ### once `done` is set -/

/-- `done` is never reset -/
theorem done_stable (cfg : Cfg) (sh sh' : Sh) (me : Tid) (th th' : Th) (hd : sh.done = true)
    (hs : tstep cfg sh me th = some (sh', th')) : sh'.done = true := by
  rcases (eff_step cfg sh sh' me th th' hs).done with e | e
  · rw [e]; exact hd
  · -- the only step that changes `done` sets it
    have hcr := tstep_crash _ _ _ _ _ hs
    obtain ⟨pc, prog, cur, slice, filled, view, pending, res⟩ := th
    cases pc
    case idle =>
      simp only [tstep, Bool.false_eq_true, ↓reduceIte, hcr] at hs
      cases prog with
      | nil => simp at hs
      | cons call rest => simp only [Option.some.injEq, Prod.mk.injEq] at hs; rw [← hs.1]; exact hd
    case l21 cpos =>
      simp only [tstep, Bool.false_eq_true, ↓reduceIte, hcr] at hs
      repeat' split at hs
      all_goals (simp only [Option.some.injEq, Prod.mk.injEq] at hs; rw [← hs.1]; exact hd)
    case r62 n cpos =>
      simp only [tstep, Bool.false_eq_true, ↓reduceIte, hcr] at hs
      repeat' split at hs
      all_goals (simp only [Option.some.injEq, Prod.mk.injEq] at hs; rw [← hs.1]; exact hd)
    all_goals tstep_norm
    all_goals tstep_elim
    all_goals (first | exact hd | simp [Sh.bcast, Sh.park, hd])

/-- is this the program counter of a wait-loop test / entry check that looks at `done` -/
def doneTest : Pc → Bool
  | .s30 _ | .w40 _ | .s34 _ _ | .s39 _ _ | .r75 _ _ | .p84 _ _ _ | .g110 _ _ => true
  | _ => false

/-- `waitForWriteSpace` fails: the caller of the ring gets the error, or — inside `ReadFrom` —
`ReadFrom`'s deferred `Close` begins, after which `ReadFrom` returns that error -/
theorem wfsErr_cases (th : Th) (e : Err) :
    ((wfsErr th e).pc = .idle ∧ ∃ r, (wfsErr th e).res = some r ∧ r.err = e) ∨
    ((wfsErr th e).pc = .x10 ∧ ∃ n, (wfsErr th e).cur = some (.rfret n e)) := by
  unfold wfsErr
  split
  · exact Or.inr ⟨rfl, _, rfl⟩
  · exact Or.inr ⟨rfl, _, rfl⟩
  · exact Or.inl ⟨rfl, _, rfl, rfl⟩

/-- with `done` set, every test of `done` takes the end-of-stream exit: the entry checks return
`eof` at once (inside `ReadFrom`: its deferred `Close` begins, then it returns `eof`), the wait
loops go to their unlock-and-return statement instead of `Wait` -/
theorem done_exits (cfg : Cfg) (sh sh' : Sh) (me : Tid) (th th' : Th) (hd : sh.done = true)
    (ht : doneTest th.pc = true) (hs : tstep cfg sh me th = some (sh', th')) :
    (th'.pc = .idle ∧ ∃ r, th'.res = some r ∧ r.err = .eof) ∨
    (th'.pc = .x10 ∧ ∃ n, th'.cur = some (.rfret n .eof)) ∨
    (∃ n p, th'.pc = .s35 n p) ∨ (∃ n c, th'.pc = .r75r n c) ∨ (∃ w n c, th'.pc = .p84r w n c) := by
  have hcr := tstep_crash _ _ _ _ _ hs
  obtain ⟨pc, prog, cur, slice, filled, view, pending, res⟩ := th
  cases pc <;> simp only [doneTest, Bool.false_eq_true] at ht
  all_goals tstep_norm
  all_goals (simp only [hd, not_true_eq_false, false_and, or_false, true_and] at hs)
  all_goals tstep_elim
  case s30 n =>
    rcases wfsErr_cases ⟨Pc.s30 n, prog, cur, slice, filled, view, pending, none⟩ .eof with h | h
    · exact Or.inl h
    · exact Or.inr (Or.inl h)
  case s39 n ppos =>
    rcases wfsErr_cases ⟨Pc.s39 n ppos, prog, cur, slice, filled, view, pending, none⟩ .eof with h | h
    · exact Or.inl h
    · exact Or.inr (Or.inl h)
  case g110 tot ms => exact Or.inr (Or.inl ⟨rfl, _, rfl⟩)
  all_goals simp [Th.goto, Th.ret]

/-- a consumer that has seen `done` loads the producer cursor once more and then leaves its wait loop either way:
through the end-of-stream exit if the data is still missing, with the data otherwise — never into `Wait` (F9) -/
theorem reread_exits (cfg : Cfg) (sh sh' : Sh) (me : Tid) (th th' : Th)
    (ht : (∃ n c, th.pc = .r75r n c) ∨ (∃ w n c, th.pc = .p84r w n c))
    (hs : tstep cfg sh me th = some (sh', th')) :
    sh' = sh ∧
    ((∃ n c, th'.pc = .r76 n c ∧ sh.pseq ≤ c) ∨ (∃ n, th'.pc = .r79 n) ∨
     (∃ w n c, th'.pc = .p85 w n c ∧ mustWait w n c sh.pseq = true) ∨
     (∃ w n c, th'.pc = .p88 w n c sh.pseq ∧ mustWait w n c sh.pseq = false)) := by
  have hcr := tstep_crash _ _ _ _ _ hs
  obtain ⟨pc, prog, cur, slice, filled, view, pending, res⟩ := th
  rcases ht with ⟨n, c, rfl⟩ | ⟨w, n, c, rfl⟩
  · tstep_norm
    rcases hs with ⟨h1, rfl, rfl⟩ | ⟨h1, rfl, rfl⟩
    · exact ⟨rfl, Or.inl ⟨n, c, rfl, h1⟩⟩
    · exact ⟨rfl, Or.inr (Or.inl ⟨n, rfl⟩)⟩
  · tstep_norm
    rcases hs with ⟨h1, rfl, rfl⟩ | ⟨h1, rfl, rfl⟩
    · exact ⟨rfl, Or.inr (Or.inr (Or.inl ⟨w, n, c, rfl, h1⟩))⟩
    · exact ⟨rfl, Or.inr (Or.inr (Or.inr ⟨w, n, c, rfl, by simpa using h1⟩))⟩

/-- …and those unlock-and-return statements return `eof` with the mutex released (inside
`ReadFrom`: its deferred `Close` begins, with the mutex released) -/
theorem eof_exit_returns (cfg : Cfg) (sh sh' : Sh) (me : Tid) (th th' : Th)
    (ht : (∃ n p, th.pc = .s35 n p) ∨ (∃ n c, th.pc = .r76 n c) ∨ (∃ w n c, th.pc = .p85 w n c))
    (hs : tstep cfg sh me th = some (sh', th')) :
    ((th'.pc = .idle ∧ ∃ r, th'.res = some r ∧ r.err = .eof) ∨
     (th'.pc = .x10 ∧ ∃ n, th'.cur = some (.rfret n .eof))) ∧ ∀ m, holds th'.pc m = false := by
  have hcr := tstep_crash _ _ _ _ _ hs
  obtain ⟨pc, prog, cur, slice, filled, view, pending, res⟩ := th
  rcases ht with ⟨n, p, rfl⟩ | ⟨n, c, rfl⟩ | ⟨w, n, c, rfl⟩
  · tstep_norm
    obtain ⟨rfl, rfl⟩ := hs
    exact ⟨wfsErr_cases _ _, fun m => holds_wfsErr _ _ m⟩
  all_goals tstep_norm
  all_goals tstep_elim
  all_goals (refine ⟨Or.inl ⟨by simp [Th.ret], by simp [Th.ret]⟩, fun m => ?_⟩; cases m <;> simp [Th.ret, holds])


/-! ### the liveness invariant of the whole system -/

structure Live (cfg : Cfg) (base : Nat) (s : St) : Prop where
  safe : RInv cfg base s
  lock : LInv s
  nlwc : NLWC s
  nlwp : NLWP cfg s

theorem live_step (cfg : Cfg) (base : Nat) (s s' : St) (t : Tid) (h : Live cfg base s)
    (hs : step cfg s t = some s') : Live cfg base s' :=
  ⟨inv_step cfg base s s' t h.safe hs, linv_step cfg s s' t h.lock hs,
   nlwc_step cfg base s s' t h.safe h.lock h.nlwc hs, nlwp_step cfg base s s' t h.safe h.lock h.nlwp hs⟩

theorem live_init (cfg : Cfg) (adv gate : Nat) (progP progC : List Call) (progsK : List (List Call))
    (hgate : gate ≤ adv) (hok : ProgsOK progP progC progsK) :
    Live cfg adv (mkInit cfg adv gate progP progC progsK) :=
  ⟨rinv_init cfg adv gate progP progC progsK hgate hok, linv_init cfg adv gate progP progC progsK,
   fun h => absurd h (Nat.lt_irrefl 0), fun h => absurd h (Nat.lt_irrefl 0)⟩

theorem live_run (cfg : Cfg) (base : Nat) (s : St) (sched : List Tid) (h : Live cfg base s) :
    Live cfg base (run cfg s sched) := by
  induction sched generalizing s with
  | nil => exact h
  | cons t ts ih =>
    unfold run
    apply ih
    cases hs : step cfg s t with
    | none => exact h
    | some s' => exact live_step cfg base s s' t h hs

end Mqtt.Proofs.Ring
