/-
Core D → Core F — consumer calls of the ring program at call level: `ReadWait(n)` / `ReadPeek(n)` (no effect;
what their result says about the bytes buffered) and `ReadCommit(n)` (effect `-n` at one own step), followed
from the state in which thread `c` is about to start the call, through any schedule, to its return.
-/
import Mqtt.Proofs.RingCallP

set_option linter.unusedSimpArgs false
set_option linter.unusedVariables false

namespace Mqtt.Proofs.Ring
open Mqtt.Model.Ring Mqtt.Iface.Ring Mqtt.Spec.Ring

/-! ### following the consumer through a schedule -/

theorem step_c (cfg : Cfg) (s s' : St) (hs : step cfg s .c = some s') :
    tstep cfg s.sh .c s.C = some (s'.sh, s'.C) ∧ s'.P = s.P ∧ s'.K = s.K := by
  obtain ⟨th, sh', th', hth, hst, rfl⟩ := step_some cfg s s' .c hs
  simp only [St.getTh, Option.some.injEq] at hth
  subst hth
  exact ⟨hst, rfl, rfl⟩

theorem prog_len_run_c (cfg : Cfg) (s : St) (sched : List Tid) : (run cfg s sched).C.prog.length ≤ s.C.prog.length := by
  induction sched generalizing s with
  | nil => exact Nat.le_refl _
  | cons t ts ih =>
    rw [run_cons]
    cases hs : step cfg s t with
    | none => exact ih s
    | some s' =>
      refine Nat.le_trans (ih s') ?_
      by_cases hp : t = .c
      · subst hp
        obtain ⟨hst, _, _⟩ := step_c cfg s s' hs
        rcases tstep_prog cfg _ _ _ _ _ hst with ⟨_, e⟩ | ⟨_, c, e, _⟩
        · rw [e]; exact Nat.le_refl _
        · rw [e]; simp
      · rw [step_C_other cfg s s' t hs hp]; exact Nat.le_refl _

/-- a consumer that is between two calls and still has the same program has not moved -/
theorem idle_frame_c (cfg : Cfg) (base : Nat) (s : St) (sched : List Tid) (h : RInv cfg base s) (hidle : s.C.pc = .idle)
    (hprog : (run cfg s sched).C.prog = s.C.prog) :
    (run cfg s sched).C = s.C ∧ (run cfg s sched).sh.cseq = s.sh.cseq := by
  induction sched generalizing s with
  | nil => exact ⟨rfl, rfl⟩
  | cons t ts ih =>
    rw [run_cons] at hprog ⊢
    cases hs : step cfg s t with
    | none => rw [hs] at hprog; exact ih s h hidle hprog
    | some s' =>
      rw [hs] at hprog
      simp only [Option.getD_some] at hprog ⊢
      by_cases hp : t = .c
      · subst hp
        exfalso
        obtain ⟨hst, _, _⟩ := step_c cfg s s' hs
        rcases tstep_prog cfg _ _ _ _ _ hst with ⟨e, _⟩ | ⟨_, c, e, _⟩
        · exact e hidle
        · have := prog_len_run_c cfg s' ts
          rw [hprog, e] at this
          simp at this
          omega
      · have e := step_C_other cfg s s' t hs hp
        have := ih s' (inv_step cfg base s s' t h hs) (by rw [e]; exact hidle) (by rw [e]; exact hprog)
        rw [e, step_cseq cfg base s s' t h hs hp] at this
        exact this

/-- thread `c` has returned from its call -/
def cRet (a : St) (rest : List Call) (r : Res) : Prop := a.C.pc = .idle ∧ a.C.prog = rest ∧ a.C.res = some r

instance (a : St) (rest : List Call) (r : Res) : Decidable (cRet a rest r) := by unfold cRet; infer_instance

/-! ### `ReadWait(n)` (`w = true`) and `ReadPeek(n)` (`w = false`) -/

/-- the call `ReadWait(n)` resp. `ReadPeek(n)` -/
def waitCall (w : Bool) (n : Nat) : Call := if w then .rwait n else .peek n

/-- the number of buffered bytes the call waits for: `n`, resp. one byte -/
def need (w : Bool) (n : Nat) : Nat := if w then n else 1

def waitPc (w : Bool) (n : Nat) : Pc → Bool
  | .p80 w' n' | .p81 w' n' _ | .p82 w' n' _ | .p83 w' n' _ | .p84 w' n' _ | .p85 w' n' _ | .p86 w' n' _
  | .p86w w' n' _ | .p87 w' n' _ | .p88 w' n' _ _ | .p84r w' n' _ => w' == w && n' == n
  | .p89c w' _ _ _ _ _ => w' == w
  | _ => false

/-- the call has seen `done` (it is about to look at the producer cursor again, or to return end-of-stream) -/
def at85 : Pc → Bool
  | .p84r _ _ _ | .p85 _ _ _ => true
  | _ => false

/-- the call has decided to return end-of-stream (`done` seen, and then still too little data) -/
def sawPc : Pc → Bool
  | .p85 _ _ _ => true
  | _ => false

/-- the result the wrap copy will return was fixed when the lock was released -/
def copyOK (w : Bool) (n : Nat) : Pc → Prop
  | .p89c _ _ m err _ _ => m ≤ n ∧ (w = true → m = n ∧ err = .ok) ∧ (0 < n → 0 < m) ∧ (err = .ok ∨ err = .insuf)
  | _ => True

structure CWait (cfg : Cfg) (w : Bool) (n : Nat) (rest : List Call) (sh : Sh) (th : Th) : Prop where
  cur : th.cur = some (waitCall w n)
  prog : th.prog = rest
  pc : waitPc w n th.pc = true
  d85 : at85 th.pc = true → sh.done = true
  fits : n ≤ cfg.size
  copy : copyOK w n th.pc

/-- what the result of a wait call says -/
def waitRes (w : Bool) (n : Nat) (r : Res) : Prop :=
  r.n ≤ n ∧ (w = true → r.n = n ∧ r.err = .ok) ∧ (0 < n → 0 < r.n) ∧ (r.err = .ok ∨ r.err = .insuf)

inductive WaitOut (cfg : Cfg) (w : Bool) (n : Nat) (rest : List Call) (sh sh' : Sh) (th th' : Th) : Prop where
  | stay : CWait cfg w n rest sh' th' → sh'.cseq = sh.cseq → sh'.pseq = sh.pseq →
      (sawPc th.pc = false → sawPc th'.pc = true → sh.done = true ∧ sh.pseq - sh.cseq < need w n) →
      WaitOut cfg w n rest sh sh' th th'
  | ret (r : Res) : th'.pc = .idle → th'.prog = rest → th'.res = some r → sh'.cseq = sh.cseq → sh'.pseq = sh.pseq →
      ((r.err = .eof ∧ sh.done = true ∧ sawPc th.pc = true) ∨ (waitRes w n r ∧ r.n ≤ sh.pseq - sh.cseq)) →
      WaitOut cfg w n rest sh sh' th th'

theorem wait_own (cfg : Cfg) (base : Nat) (w : Bool) (n : Nat) (rest : List Call) (sh sh' : Sh) (th th' : Th)
    (hcp : sh.cseq ≤ sh.pseq) (hp : pcC cfg sh.core th) (hw : CWait cfg w n rest sh th)
    (hs : tstep cfg sh .c th = some (sh', th')) :
    WaitOut cfg w n rest sh sh' th th' := by
  have hcr := tstep_crash _ _ _ _ _ hs
  obtain ⟨hcur, hprog, hpc, hd85, hfit, hcopy⟩ := hw
  obtain ⟨pc, prog, cur, slice, filled, view, pending, res⟩ := th
  simp only at hcur hprog hpc hd85 hcopy
  subst hcur hprog
  cases pc <;> simp only [waitPc, Bool.false_eq_true, Bool.and_eq_true, beq_iff_eq] at hpc
  case p80 w' n' =>
    obtain ⟨rfl, rfl⟩ := hpc
    tstep_norm
    obtain ⟨rfl, rfl⟩ := hs
    exact .stay ⟨rfl, rfl, by simp [waitPc, Th.goto], nofun, hfit, trivial⟩ rfl rfl nofun
  case p81 w' n' cpos =>
    obtain ⟨rfl, rfl⟩ := hpc
    tstep_norm
    obtain ⟨rfl, rfl⟩ := hs
    exact .stay ⟨rfl, rfl, by simp [waitPc, Th.goto], nofun, hfit, trivial⟩ rfl rfl nofun
  case p82 w' n' cpos =>
    obtain ⟨rfl, rfl⟩ := hpc
    tstep_norm
    obtain ⟨_, rfl, rfl⟩ := hs
    exact .stay ⟨rfl, rfl, by simp [waitPc, Th.goto], nofun, hfit, trivial⟩ (by simp) (by simp) nofun
  case p83 w' n' cpos =>
    obtain ⟨rfl, rfl⟩ := hpc
    tstep_norm
    rcases hs with ⟨h1, rfl, rfl⟩ | ⟨h1, rfl, rfl⟩
    · exact .stay ⟨rfl, rfl, by simp [waitPc, Th.goto], nofun, hfit, trivial⟩ rfl rfl (fun _ h => by simp [Th.goto, sawPc] at h)
    · exact .stay ⟨rfl, rfl, by simp [waitPc, Th.goto], nofun, hfit, trivial⟩ rfl rfl (fun _ h => by simp [Th.goto, sawPc] at h)
  case p84 w' n' cpos =>
    obtain ⟨rfl, rfl⟩ := hpc
    tstep_norm
    rcases hs with ⟨h1, rfl, rfl⟩ | ⟨h1, rfl, rfl⟩
    · exact .stay ⟨rfl, rfl, by simp [waitPc, Th.goto], fun _ => h1, hfit, trivial⟩ rfl rfl (fun _ h => by simp [Th.goto, sawPc] at h)
    · exact .stay ⟨rfl, rfl, by simp [waitPc, Th.goto], nofun, hfit, trivial⟩ rfl rfl (fun _ h => by simp [Th.goto, sawPc] at h)
  case p84r w' n' cpos =>
    obtain ⟨rfl, rfl⟩ := hpc
    have hdn : sh.done = true := hd85 rfl
    simp only [pcC] at hp
    have e1 : cpos = sh.cseq := hp
    tstep_norm
    rcases hs with ⟨h1, rfl, rfl⟩ | ⟨h1, rfl, rfl⟩
    · refine .stay ⟨rfl, rfl, by simp [waitPc, Th.goto], fun _ => hdn, hfit, trivial⟩ rfl rfl (fun _ _ => ⟨hdn, ?_⟩)
      subst e1
      cases w' <;> simp [mustWait, need] at h1 ⊢ <;> omega
    · exact .stay ⟨rfl, rfl, by simp [waitPc, Th.goto], nofun, hfit, trivial⟩ rfl rfl (fun _ h => by simp [Th.goto, sawPc] at h)
  case p85 w' n' cpos =>
    obtain ⟨rfl, rfl⟩ := hpc
    have hdn : sh.done = true := hd85 rfl
    tstep_norm
    obtain ⟨rfl, rfl⟩ := hs
    exact .ret { err := .eof } rfl rfl rfl (by simp) (by simp) (Or.inl ⟨rfl, hdn, rfl⟩)
  case p86 w' n' cpos =>
    obtain ⟨rfl, rfl⟩ := hpc
    tstep_norm
    obtain ⟨rfl, rfl⟩ := hs
    exact .stay ⟨rfl, rfl, by simp [waitPc, Th.goto], nofun, hfit, trivial⟩ (by simp [Sh.park]) (by simp [Sh.park]) (fun _ h => by simp [Th.goto, sawPc] at h)
  case p86w w' n' cpos =>
    obtain ⟨rfl, rfl⟩ := hpc
    tstep_norm
    obtain ⟨_, _, rfl, rfl⟩ := hs
    exact .stay ⟨rfl, rfl, by simp [waitPc, Th.goto], nofun, hfit, trivial⟩ (by simp) (by simp) (fun _ h => by simp [Th.goto, sawPc] at h)
  case p87 w' n' cpos =>
    obtain ⟨rfl, rfl⟩ := hpc
    tstep_norm
    rcases hs with ⟨h1, rfl, rfl⟩ | ⟨h1, rfl, rfl⟩
    · exact .stay ⟨rfl, rfl, by simp [waitPc, Th.goto], nofun, hfit, trivial⟩ rfl rfl (fun _ h => by simp [Th.goto, sawPc] at h)
    · exact .stay ⟨rfl, rfl, by simp [waitPc, Th.goto], nofun, hfit, trivial⟩ rfl rfl (fun _ h => by simp [Th.goto, sawPc] at h)
  case p88 w' n' cpos ppos =>
    obtain ⟨rfl, rfl⟩ := hpc
    simp only [pcC] at hp
    obtain ⟨e1, e2, e3⟩ := hp
    have e1' : cpos = sh.cseq := e1
    have e2' : ppos ≤ sh.pseq := e2
    subst e1'
    obtain ⟨m, err, hmd, hed, hm1, hm2, hm3, hm4, hm5⟩ : ∃ m err,
        m = (if w' = true then n' else if ppos - sh.cseq ≥ n' then n' else ppos - sh.cseq) ∧
        err = (if w' = true then Err.ok else if ppos - sh.cseq ≥ n' then Err.ok else Err.insuf) ∧
        m ≤ n' ∧ (w' = true → m = n' ∧ err = .ok) ∧ (0 < n' → 0 < m) ∧ (err = .ok ∨ err = .insuf) ∧
        m ≤ sh.pseq - sh.cseq := by
      refine ⟨_, _, rfl, rfl, ?_⟩
      cases w'
      · have e3' : sh.cseq < ppos := by
          simp only [mustWait, Bool.false_eq_true, ↓reduceIte, decide_eq_false_iff_not, Nat.not_le] at e3
          exact e3
        by_cases hge : ppos - sh.cseq ≥ n'
        · rw [if_neg (by simp), if_pos hge, if_neg (by simp), if_pos hge]
          exact ⟨Nat.le_refl _, nofun, fun h => h, Or.inl rfl, by omega⟩
        · rw [if_neg (by simp), if_neg hge, if_neg (by simp), if_neg hge]
          exact ⟨by omega, nofun, fun _ => by omega, Or.inr rfl, by omega⟩
      · have e3' : sh.cseq + n' ≤ ppos := by
          simp only [mustWait, ↓reduceIte, decide_eq_false_iff_not, Nat.not_lt] at e3
          exact e3
        rw [if_pos rfl, if_pos rfl]
        exact ⟨Nat.le_refl _, fun _ => ⟨rfl, rfl⟩, fun h => h, Or.inl rfl, by omega⟩
    simp only [tstep, Bool.false_eq_true, ↓reduceIte, hcr, ← hmd, ← hed] at hs
    split at hs
    · simp only [Option.some.injEq, Prod.mk.injEq] at hs
      obtain ⟨rfl, rfl⟩ := hs
      exact .stay ⟨rfl, rfl, by simp [waitPc, Th.goto], nofun, hfit, ⟨hm1, hm2, hm3, hm4⟩⟩ (by simp) (by simp)
        (fun _ h => by simp [Th.goto, sawPc] at h)
    · simp only [Option.some.injEq, Prod.mk.injEq] at hs
      obtain ⟨rfl, rfl⟩ := hs
      exact .ret _ rfl rfl rfl (by simp) (by simp) (Or.inr ⟨⟨hm1, hm2, hm3, hm4⟩, hm5⟩)
  case p89c w' cpos m err j acc =>
    subst hpc
    simp only [pcC] at hp
    obtain ⟨e1, e2, e3, e4⟩ := hp
    have e1' : cpos = sh.cseq := e1
    have e2' : cpos + m ≤ sh.pseq := e2
    simp only [copyOK] at hcopy
    tstep_norm
    rcases hs with ⟨h1, rfl, rfl⟩ | ⟨h1, rfl, rfl⟩
    · exact .stay ⟨rfl, rfl, by simp [waitPc, Th.goto], nofun, hfit, hcopy⟩ rfl rfl (fun _ h => by simp [Th.goto, sawPc] at h)
    · exact .ret _ rfl rfl rfl rfl rfl (Or.inr ⟨hcopy, by show m ≤ sh.pseq - sh.cseq; omega⟩)

theorem waitPc_not_idle (w : Bool) (n : Nat) (pc : Pc) (h : waitPc w n pc = true) : pc ≠ .idle := by
  intro e; rw [e] at h; simp [waitPc] at h

/-- the linearisation step of a consumer wait answering end-of-stream: an own step `x → y` of thread `c` — the load of the
producer cursor AFTER `done` has been seen — before which `done` is set and fewer than `nd` bytes are buffered, and which
changes nothing `absRing` sees -/
def LinE (cfg : Cfg) (nd : Nat) (x y : St) : Prop :=
  step cfg x .c = some y ∧ x.sh.done = true ∧ x.sh.pseq - x.sh.cseq < nd ∧ y.sh.pseq = x.sh.pseq ∧
    y.sh.cseq = x.sh.cseq ∧ y.sh.done = x.sh.done

theorem waitPc_not_x10 (w : Bool) (n : Nat) (pc : Pc) (h : waitPc w n pc = true) : pc ≠ .x10 := by
  intro e; rw [e] at h; simp [waitPc] at h

/-- the call-level contract of `ReadWait` / `ReadPeek`, seen from a state `s` inside the call -/
structure WConcl (cfg : Cfg) (w : Bool) (n : Nat) (s : St) (sched : List Tid) (r : Res) : Prop where
  frame : (run cfg s sched).sh.cseq = s.sh.cseq
  eof : r.err = .eof → (run cfg s sched).sh.done = true ∧
    (sawPc s.C.pc = false → ∃ pre post, sched = pre ++ .c :: post ∧ LinE cfg (need w n) (run cfg s pre) (run cfg s (pre ++ [.c])))
  data : r.err ≠ .eof → waitRes w n r ∧ r.n ≤ (run cfg s sched).sh.pseq - (run cfg s sched).sh.cseq

theorem wcall_in (cfg : Cfg) (base : Nat) (w : Bool) (n : Nat) (rest : List Call)
    (s : St) (sched : List Tid) (h : RInv cfg base s) (hw : CWait cfg w n rest s.sh s.C) (r : Res)
    (hret : cRet (run cfg s sched) rest r) : WConcl cfg w n s sched r := by
  induction sched generalizing s with
  | nil => exact absurd hret.1 (waitPc_not_idle w n _ hw.pc)
  | cons t ts ih =>
    have liftE : ∀ (s' : St), (∀ pre : List Tid, run cfg s (t :: pre) = run cfg s' pre) →
        (∃ pre post, ts = pre ++ .c :: post ∧ LinE cfg (need w n) (run cfg s' pre) (run cfg s' (pre ++ [.c]))) →
        (∃ pre post, t :: ts = pre ++ .c :: post ∧ LinE cfg (need w n) (run cfg s pre) (run cfg s (pre ++ [.c]))) := by
      intro s' hpre1 ⟨pre, post, b3, b4⟩
      refine ⟨t :: pre, post, by rw [b3]; rfl, ?_⟩
      rw [hpre1 pre, show t :: pre ++ [Tid.c] = t :: (pre ++ [Tid.c]) from rfl, hpre1]; exact b4
    cases hs : step cfg s t with
    | none =>
      have hrun : run cfg s (t :: ts) = run cfg s ts := by rw [run_cons, hs]; rfl
      have hpre1 : ∀ pre : List Tid, run cfg s (t :: pre) = run cfg s pre := fun pre => by rw [run_cons, hs]; rfl
      rw [hrun] at hret
      obtain ⟨a1, a2, a3⟩ := ih s h hw hret
      refine ⟨by rw [hrun]; exact a1, fun he => ?_, by rw [hrun]; exact a3⟩
      obtain ⟨x, y⟩ := a2 he
      exact ⟨by rw [hrun]; exact x, fun hns => liftE s hpre1 (y hns)⟩
    | some s' =>
      have hrun : run cfg s (t :: ts) = run cfg s' ts := by rw [run_cons, hs]; rfl
      have hpre1 : ∀ pre : List Tid, run cfg s (t :: pre) = run cfg s' pre := fun pre => by rw [run_cons, hs]; rfl
      rw [hrun] at hret
      have h' := inv_step cfg base s s' t h hs
      have hm := run_mono cfg base s' ts h'
      by_cases htc : t = .c
      · subst htc
        obtain ⟨hst, _, _⟩ := step_c cfg s s' hs
        have hdn : s'.sh.done = s.sh.done := by
          rcases tstep_done cfg _ _ _ _ _ hst with e | ⟨e, _⟩
          · exact e
          · exact absurd e (waitPc_not_x10 w n _ hw.pc)
        cases wait_own cfg base w n rest _ _ _ _ h.glob.cp h.invC.pcinv hw hst with
        | stay hw' ec ep hsaw =>
          obtain ⟨a1, a2, a3⟩ := ih s' h' hw' hret
          refine ⟨by rw [hrun, a1, ec], ?_, by rw [hrun]; exact a3⟩
          intro he
          rw [hrun]
          obtain ⟨x, y⟩ := a2 he
          refine ⟨x, fun hns => ?_⟩
          by_cases hs' : sawPc s'.C.pc = true
          · obtain ⟨hd0, hlt⟩ := hsaw hns hs'
            refine ⟨[], ts, rfl, ?_⟩
            have : run cfg s ([] ++ [Tid.c]) = s' := by
              show run cfg s [Tid.c] = s'
              rw [run_one, hs]; rfl
            rw [this]
            exact ⟨hs, hd0, hlt, ep, ec, hdn⟩
          · exact liftE s' hpre1 (y (by simpa using hs'))
        | ret r1 hi hpr hr1 ec ep hcase =>
          obtain ⟨f1, f2⟩ := idle_frame_c cfg base s' ts h' hi (by rw [hret.2.1, hpr])
          have hr : (run cfg s' ts).C.res = some r := hret.2.2
          rw [f1, hr1] at hr
          cases hr
          have ec' : s'.sh.cseq = s.sh.cseq := ec
          have ep' : s'.sh.pseq = s.sh.pseq := ep
          refine ⟨by rw [hrun, f2, ec'], ?_, ?_⟩
          · intro he
            rw [hrun]
            rcases hcase with ⟨_, hd, hsw⟩ | ⟨hwr, _⟩
            · exact ⟨run_done_mono cfg s' ts (by rw [hdn]; exact hd), fun hns => by rw [hsw] at hns; cases hns⟩
            · rcases hwr.2.2.2 with e | e <;> rw [he] at e <;> cases e
          · intro hne
            rw [hrun]
            rcases hcase with ⟨he, _⟩ | ⟨hwr, hle⟩
            · exact absurd he hne
            · refine ⟨hwr, ?_⟩
              have := hm.1
              rw [f2]
              omega
      · have e := step_C_other cfg s s' t hs htc
        have ec := step_cseq cfg base s s' t h hs htc
        have hw' : CWait cfg w n rest s'.sh s'.C := by
          rw [e]
          exact ⟨hw.cur, hw.prog, hw.pc, fun h85 => step_done_mono cfg s s' t hs (hw.d85 h85), hw.fits, hw.copy⟩
        obtain ⟨a1, a2, a3⟩ := ih s' h' hw' hret
        refine ⟨by rw [hrun, a1, ec], ?_, by rw [hrun]; exact a3⟩
        intro he
        rw [hrun]
        obtain ⟨x, y⟩ := a2 he
        exact ⟨x, fun hns => liftE s' hpre1 (y (by rw [e]; exact hns))⟩

/-- the first step of `ReadWait(n)` / `ReadPeek(n)`: the size test -/
theorem wait_start_own (cfg : Cfg) (w : Bool) (n : Nat) (rest : List Call) (sh sh' : Sh) (th th' : Th)
    (hidle : th.pc = .idle) (hprog : th.prog = waitCall w n :: rest) (hs : tstep cfg sh .c th = some (sh', th')) :
    sh' = sh ∧
    ((CWait cfg w n rest sh th' ∧ sawPc th'.pc = false) ∨
     (th'.pc = .idle ∧ th'.prog = rest ∧ ∃ r, th'.res = some r ∧ r.err = .full ∧ cfg.size < n)) := by
  have hcr := tstep_crash _ _ _ _ _ hs
  obtain ⟨pc, prog, cur, slice, filled, view, pending, res⟩ := th
  simp only at hidle hprog
  subst hidle hprog
  simp only [tstep, Bool.false_eq_true, ↓reduceIte, hcr, Option.some.injEq, Prod.mk.injEq] at hs
  obtain ⟨rfl, rfl⟩ := hs
  refine ⟨rfl, ?_⟩
  cases w
  · simp only [waitCall, Bool.false_eq_true, ↓reduceIte, startCall]
    split
    · rename_i hbig
      right
      exact ⟨rfl, rfl, _, rfl, rfl, hbig⟩
    · rename_i hsm
      left
      exact ⟨⟨rfl, rfl, by simp [Th.goto, waitPc], nofun, by omega, trivial⟩, rfl⟩
  · simp only [waitCall, ↓reduceIte, startCall]
    split
    · rename_i hbig
      right
      exact ⟨rfl, rfl, _, rfl, rfl, hbig⟩
    · rename_i hsm
      left
      exact ⟨⟨rfl, rfl, by simp [Th.goto, waitPc], nofun, by omega, trivial⟩, rfl⟩

/-- the call-level contract of `ReadWait(n)` / `ReadPeek(n)`, from the state in which it is about to start -/
structure WStartConcl (cfg : Cfg) (w : Bool) (n : Nat) (s : St) (sched : List Tid) (r : Res) : Prop where
  frame : (run cfg s sched).sh.cseq = s.sh.cseq
  full : r.err = .full ↔ cfg.size < n
  eof : r.err = .eof → (run cfg s sched).sh.done = true ∧
    ∃ pre post, sched = pre ++ .c :: post ∧ LinE cfg (need w n) (run cfg s pre) (run cfg s (pre ++ [.c]))
  data : r.err ≠ .eof → r.err ≠ .full → waitRes w n r ∧ r.n ≤ (run cfg s sched).sh.pseq - (run cfg s sched).sh.cseq

theorem wcall_start (cfg : Cfg) (base : Nat) (w : Bool) (n : Nat) (rest : List Call)
    (s : St) (sched : List Tid) (h : RInv cfg base s) (hidle : s.C.pc = .idle) (hprog : s.C.prog = waitCall w n :: rest)
    (r : Res) (hret : cRet (run cfg s sched) rest r) : WStartConcl cfg w n s sched r := by
  induction sched generalizing s with
  | nil =>
    exfalso
    have h2 : s.C.prog = rest := hret.2.1
    rw [hprog] at h2
    have := congrArg List.length h2
    simp at this
  | cons t ts ih =>
    have liftE : ∀ (s' : St), (∀ pre : List Tid, run cfg s (t :: pre) = run cfg s' pre) →
        (∃ pre post, ts = pre ++ .c :: post ∧ LinE cfg (need w n) (run cfg s' pre) (run cfg s' (pre ++ [.c]))) →
        (∃ pre post, t :: ts = pre ++ .c :: post ∧ LinE cfg (need w n) (run cfg s pre) (run cfg s (pre ++ [.c]))) := by
      intro s' hpre1 ⟨pre, post, b3, b4⟩
      refine ⟨t :: pre, post, by rw [b3]; rfl, ?_⟩
      rw [hpre1 pre, show t :: pre ++ [Tid.c] = t :: (pre ++ [Tid.c]) from rfl, hpre1]; exact b4
    cases hs : step cfg s t with
    | none =>
      have hrun : run cfg s (t :: ts) = run cfg s ts := by rw [run_cons, hs]; rfl
      have hpre1 : ∀ pre : List Tid, run cfg s (t :: pre) = run cfg s pre := fun pre => by rw [run_cons, hs]; rfl
      rw [hrun] at hret
      obtain ⟨a1, a2, a3, a4⟩ := ih s h hidle hprog hret
      refine ⟨by rw [hrun]; exact a1, a2, fun he => ?_, by rw [hrun]; exact a4⟩
      obtain ⟨x, y⟩ := a3 he
      exact ⟨by rw [hrun]; exact x, liftE s hpre1 y⟩
    | some s' =>
      have hrun : run cfg s (t :: ts) = run cfg s' ts := by rw [run_cons, hs]; rfl
      have hpre1 : ∀ pre : List Tid, run cfg s (t :: pre) = run cfg s' pre := fun pre => by rw [run_cons, hs]; rfl
      rw [hrun] at hret
      have h' := inv_step cfg base s s' t h hs
      by_cases htc : t = .c
      · subst htc
        obtain ⟨hst, _, _⟩ := step_c cfg s s' hs
        obtain ⟨esh, hcase⟩ := wait_start_own cfg w n rest _ _ _ _ hidle hprog hst
        have esh' : s'.sh = s.sh := esh
        rcases hcase with ⟨hw', hns⟩ | ⟨hi, hpr, r1, hr1, hfull, hbig⟩
        · obtain ⟨a1, a2, a3⟩ := wcall_in cfg base w n rest s' ts h' (by rw [esh']; exact hw') r hret
          refine ⟨by rw [hrun, a1, esh'], ?_, ?_, ?_⟩
          · constructor
            · intro hf
              exfalso
              have := (a3 (by rw [hf]; simp)).1.2.2.2
              rcases this with e | e <;> rw [hf] at e <;> cases e
            · intro hbig; exact absurd hw'.fits (by omega)
          · intro he; rw [hrun]; obtain ⟨x, y⟩ := a2 he; exact ⟨x, liftE s' hpre1 (y hns)⟩
          · intro hne _; rw [hrun]; exact a3 hne
        · obtain ⟨f1, f2⟩ := idle_frame_c cfg base s' ts h' hi (by rw [hret.2.1, hpr])
          have hr : (run cfg s' ts).C.res = some r := hret.2.2
          rw [f1, hr1] at hr
          cases hr
          refine ⟨by rw [hrun, f2, esh'], ⟨fun _ => hbig, fun _ => hfull⟩, ?_, ?_⟩
          · intro he; rw [he] at hfull; cases hfull
          · intro _ hnf; exact absurd hfull hnf
      · have e := step_C_other cfg s s' t hs htc
        have ec := step_cseq cfg base s s' t h hs htc
        obtain ⟨a1, a2, a3, a4⟩ := ih s' h' (by rw [e]; exact hidle) (by rw [e]; exact hprog) hret
        refine ⟨by rw [hrun, a1, ec], a2, ?_, by rw [hrun]; exact a4⟩
        intro he
        rw [hrun]
        obtain ⟨x, y⟩ := a3 he
        exact ⟨x, liftE s' hpre1 y⟩

/-! ### `ReadCommit(n)` -/

def kprePc (l : Nat) : Pc → Bool
  | .k100 n | .k101 n _ | .k102 n _ => n == l
  | _ => false
def kpostPc (l : Nat) : Pc → Bool
  | .k103 n | .k104 n | .k105 n => n == l
  | _ => false

structure KPre (m l : Nat) (rest : List Call) (th : Th) : Prop where
  cur : th.cur = some (.commit m)
  prog : th.prog = rest
  pc : kprePc l th.pc = true

structure KPost (m l : Nat) (rest : List Call) (th : Th) : Prop where
  cur : th.cur = some (.commit m)
  prog : th.prog = rest
  pc : kpostPc l th.pc = true

theorem kpre_own (cfg : Cfg) (m l : Nat) (rest : List Call) (sh sh' : Sh) (th th' : Th)
    (hp : pcC cfg sh.core th) (hpend : sh.cseq + th.pending.length ≤ sh.pseq)
    (hk : KPre m l rest th) (hs : tstep cfg sh .c th = some (sh', th')) :
    (KPre m l rest th' ∧ sh'.cseq = sh.cseq) ∨ (KPost m l rest th' ∧ sh'.cseq = sh.cseq + l) := by
  have hcr := tstep_crash _ _ _ _ _ hs
  obtain ⟨hcur, hprog, hpc⟩ := hk
  obtain ⟨pc, prog, cur, slice, filled, view, pending, res⟩ := th
  simp only at hcur hprog hpc hpend
  subst hcur hprog
  cases pc <;> simp only [kprePc, Bool.false_eq_true, beq_iff_eq] at hpc
  case k100 n =>
    subst hpc
    tstep_norm
    obtain ⟨rfl, rfl⟩ := hs
    exact Or.inl ⟨⟨rfl, rfl, by simp [kprePc, Th.goto]⟩, rfl⟩
  case k101 n cpos =>
    subst hpc
    simp only [pcC] at hp
    have e1 : cpos = sh.cseq := hp.1
    have e2 : n ≤ pending.length := hp.2
    tstep_norm
    rcases hs with ⟨h1, rfl, rfl⟩ | ⟨h1, rfl, rfl⟩
    · exact Or.inl ⟨⟨rfl, rfl, by simp [kprePc, Th.goto]⟩, rfl⟩
    · exfalso; omega
  case k102 n cpos =>
    subst hpc
    simp only [pcC] at hp
    have e1 : cpos = sh.cseq := hp.1
    tstep_norm
    obtain ⟨rfl, rfl⟩ := hs
    exact Or.inr ⟨⟨rfl, rfl, by simp [kpostPc, Th.goto]⟩, by show cpos + n = sh.cseq + n; rw [e1]⟩

theorem kpost_own (cfg : Cfg) (m l : Nat) (rest : List Call) (sh sh' : Sh) (th th' : Th)
    (hk : KPost m l rest th) (hs : tstep cfg sh .c th = some (sh', th')) :
    sh'.cseq = sh.cseq ∧
    (KPost m l rest th' ∨ (th'.pc = .idle ∧ th'.prog = rest ∧ ∃ r, th'.res = some r ∧ r.err = .ok ∧ r.n = l)) := by
  have hcr := tstep_crash _ _ _ _ _ hs
  obtain ⟨hcur, hprog, hpc⟩ := hk
  obtain ⟨pc, prog, cur, slice, filled, view, pending, res⟩ := th
  simp only at hcur hprog hpc
  subst hcur hprog
  cases pc <;> simp only [kpostPc, Bool.false_eq_true, beq_iff_eq] at hpc
  case k103 n =>
    subst hpc
    tstep_norm
    obtain ⟨_, rfl, rfl⟩ := hs
    exact ⟨by simp, Or.inl ⟨rfl, rfl, by simp [kpostPc, Th.goto]⟩⟩
  case k104 n =>
    subst hpc
    tstep_norm
    obtain ⟨rfl, rfl⟩ := hs
    exact ⟨by simp [Sh.bcast], Or.inl ⟨rfl, rfl, by simp [kpostPc, Th.goto]⟩⟩
  case k105 n =>
    subst hpc
    tstep_norm
    obtain ⟨rfl, rfl⟩ := hs
    exact ⟨by simp, Or.inr ⟨rfl, rfl, _, rfl, rfl, rfl⟩⟩

theorem kstart_own (cfg : Cfg) (m : Nat) (rest : List Call) (sh sh' : Sh) (th th' : Th)
    (hidle : th.pc = .idle) (hprog : th.prog = .commit m :: rest) (hs : tstep cfg sh .c th = some (sh', th')) :
    sh' = sh ∧ th'.pending = th.pending ∧
    ((KPre m (min m th.pending.length) rest th' ∧ min m th.pending.length ≤ cfg.size) ∨
     (th'.pc = .idle ∧ th'.prog = rest ∧ ∃ r, th'.res = some r ∧ r.err = .full ∧ cfg.size < min m th.pending.length)) := by
  have hcr := tstep_crash _ _ _ _ _ hs
  obtain ⟨pc, prog, cur, slice, filled, view, pending, res⟩ := th
  simp only at hidle hprog
  subst hidle hprog
  simp only [tstep, Bool.false_eq_true, ↓reduceIte, hcr, Option.some.injEq, Prod.mk.injEq] at hs
  obtain ⟨rfl, rfl⟩ := hs
  refine ⟨rfl, ?_⟩
  simp only [startCall]
  split
  · rename_i hbig
    exact ⟨rfl, Or.inr ⟨rfl, rfl, _, rfl, rfl, hbig⟩⟩
  · rename_i hsm
    exact ⟨rfl, Or.inl ⟨⟨rfl, rfl, by simp [Th.goto, kprePc]⟩, by omega⟩⟩

/-- the linearisation step of a consumer commit of `l` bytes: an own step `x → y` of thread `c` before which
`l ≤ buf` holds and which adds `l` to the consumer cursor and changes nothing else `absRing` sees -/
def LinC (cfg : Cfg) (l : Nat) (x y : St) : Prop :=
  step cfg x .c = some y ∧ x.sh.cseq + l ≤ x.sh.pseq ∧ y.sh.cseq = x.sh.cseq + l ∧
    y.sh.pseq = x.sh.pseq ∧ y.sh.done = x.sh.done

theorem kpostPc_not_idle (l : Nat) (pc : Pc) (h : kpostPc l pc = true) : pc ≠ .idle := by
  intro e; rw [e] at h; simp [kpostPc] at h
theorem kprePc_not_idle (l : Nat) (pc : Pc) (h : kprePc l pc = true) : pc ≠ .idle := by
  intro e; rw [e] at h; simp [kprePc] at h
theorem kprePc_not_x10 (l : Nat) (pc : Pc) (h : kprePc l pc = true) : pc ≠ .x10 := by
  intro e; rw [e] at h; simp [kprePc] at h

theorem ccall_post (cfg : Cfg) (base : Nat) (m l : Nat) (rest : List Call)
    (s : St) (sched : List Tid) (h : RInv cfg base s) (hk : KPost m l rest s.C) (r : Res)
    (hret : cRet (run cfg s sched) rest r) :
    r.err = .ok ∧ r.n = l ∧ (run cfg s sched).sh.cseq = s.sh.cseq := by
  induction sched generalizing s with
  | nil => exact absurd hret.1 (kpostPc_not_idle l _ hk.pc)
  | cons t ts ih =>
    rw [run_cons] at hret ⊢
    cases hs : step cfg s t with
    | none => rw [hs] at hret; exact ih s h hk hret
    | some s' =>
      rw [hs] at hret
      simp only [Option.getD_some] at hret ⊢
      have h' := inv_step cfg base s s' t h hs
      by_cases htc : t = .c
      · subst htc
        obtain ⟨hst, _, _⟩ := step_c cfg s s' hs
        obtain ⟨e, hcase⟩ := kpost_own cfg m l rest _ _ _ _ hk hst
        rcases hcase with hpost | ⟨hi, hpr, r1, hr1, hok, hn⟩
        · obtain ⟨a, b, c⟩ := ih s' h' hpost hret
          exact ⟨a, b, by rw [c, e]⟩
        · obtain ⟨f1, f2⟩ := idle_frame_c cfg base s' ts h' hi (by rw [hret.2.1, hpr])
          have hr : (run cfg s' ts).C.res = some r := hret.2.2
          rw [f1, hr1] at hr
          cases hr
          exact ⟨hok, hn, by rw [f2, e]⟩
      · have e := step_C_other cfg s s' t hs htc
        obtain ⟨a, b, c⟩ := ih s' h' (by rw [e]; exact hk) hret
        exact ⟨a, b, by rw [c, step_cseq cfg base s s' t h hs htc]⟩

theorem ccall_pre (cfg : Cfg) (base : Nat) (m l : Nat) (rest : List Call)
    (s : St) (sched : List Tid) (h : RInv cfg base s) (hk : KPre m l rest s.C) (r : Res)
    (hret : cRet (run cfg s sched) rest r) :
    r.err = .ok ∧ r.n = l ∧ (run cfg s sched).sh.cseq = s.sh.cseq + l ∧
      ∃ pre post, sched = pre ++ .c :: post ∧ LinC cfg l (run cfg s pre) (run cfg s (pre ++ [.c])) := by
  induction sched generalizing s with
  | nil => exact absurd hret.1 (kprePc_not_idle l _ hk.pc)
  | cons t ts ih =>
    cases hs : step cfg s t with
    | none =>
      have hrun : run cfg s (t :: ts) = run cfg s ts := by rw [run_cons, hs]; rfl
      rw [hrun] at hret ⊢
      obtain ⟨b0, b1, b2, pre, post, b3, b4⟩ := ih s h hk hret
      refine ⟨b0, b1, b2, t :: pre, post, by rw [b3]; rfl, ?_⟩
      have e1 : run cfg s (t :: pre) = run cfg s pre := by rw [run_cons, hs]; rfl
      have e2 : run cfg s (t :: pre ++ [.c]) = run cfg s (pre ++ [.c]) := by
        rw [List.cons_append, run_cons, hs]; rfl
      rw [e1, e2]; exact b4
    | some s' =>
      have hrun : run cfg s (t :: ts) = run cfg s' ts := by rw [run_cons, hs]; rfl
      rw [hrun] at hret ⊢
      have h' := inv_step cfg base s s' t h hs
      have hpre1 : ∀ pre : List Tid, run cfg s (t :: pre) = run cfg s' pre := fun pre => by rw [run_cons, hs]; rfl
      have lift : s'.sh.cseq = s.sh.cseq → KPre m l rest s'.C →
          r.err = .ok ∧ r.n = l ∧ (run cfg s' ts).sh.cseq = s.sh.cseq + l ∧
            ∃ pre post, t :: ts = pre ++ .c :: post ∧ LinC cfg l (run cfg s pre) (run cfg s (pre ++ [.c])) := by
        intro ec hk'
        obtain ⟨b0, b1, b2, pre, post, b3, b4⟩ := ih s' h' hk' hret
        refine ⟨b0, b1, by rw [b2, ec], t :: pre, post, by rw [b3]; rfl, ?_⟩
        rw [hpre1 pre, show t :: pre ++ [Tid.c] = t :: (pre ++ [Tid.c]) from rfl, hpre1]; exact b4
      by_cases htc : t = .c
      · subst htc
        obtain ⟨hst, _, _⟩ := step_c cfg s s' hs
        have hdn : s'.sh.done = s.sh.done := by
          rcases tstep_done cfg _ _ _ _ _ hst with e | ⟨e, _⟩
          · exact e
          · exact absurd e (kprePc_not_x10 l _ hk.pc)
        have hps : s'.sh.pseq = s.sh.pseq := step_pseq cfg base s s' .c h hs (by simp)
        rcases kpre_own cfg m l rest _ _ _ _ h.invC.pcinv h.invC.pend.2 hk hst with ⟨hk', ec⟩ | ⟨hpost, ec⟩
        · exact lift ec hk'
        · obtain ⟨b1, b2, b3⟩ := ccall_post cfg base m l rest s' ts h' hpost r hret
          have ec' : s'.sh.cseq = s.sh.cseq + l := ec
          have hguard : s.sh.cseq + l ≤ s.sh.pseq := by
            have := h'.glob.cp
            have this' : s'.sh.cseq ≤ s'.sh.pseq := this
            omega
          refine ⟨b1, b2, by rw [b3, ec'], [], ts, rfl, ?_⟩
          have : run cfg s ([] ++ [Tid.c]) = s' := by
            show run cfg s [Tid.c] = s'
            rw [run_one, hs]; rfl
          rw [this]
          exact ⟨hs, hguard, ec', hps, hdn⟩
      · have e := step_C_other cfg s s' t hs htc
        exact lift (step_cseq cfg base s s' t h hs htc) (by rw [e]; exact hk)

/-- the call-level contract of `ReadCommit`, from the state in which it is about to start; `l` = the bytes it
commits = `min m (bytes looked at)` -/
theorem ccall_start (cfg : Cfg) (base : Nat) (m : Nat) (rest : List Call)
    (s : St) (sched : List Tid) (h : RInv cfg base s) (hidle : s.C.pc = .idle) (hprog : s.C.prog = .commit m :: rest)
    (r : Res) (hret : cRet (run cfg s sched) rest r) :
    let l := min m s.C.pending.length
    (r.err = .full ↔ cfg.size < l) ∧ (r.err = .full → (run cfg s sched).sh.cseq = s.sh.cseq) ∧
    (r.err ≠ .full → r.err = .ok ∧ r.n = l ∧ (run cfg s sched).sh.cseq = s.sh.cseq + l ∧
      ∃ pre post, sched = pre ++ .c :: post ∧ LinC cfg l (run cfg s pre) (run cfg s (pre ++ [.c]))) := by
  induction sched generalizing s with
  | nil =>
    exfalso
    have h2 : s.C.prog = rest := hret.2.1
    rw [hprog] at h2
    have := congrArg List.length h2
    simp at this
  | cons t ts ih =>
    intro l
    cases hs : step cfg s t with
    | none =>
      have hrun : run cfg s (t :: ts) = run cfg s ts := by rw [run_cons, hs]; rfl
      rw [hrun] at hret ⊢
      obtain ⟨a1, a2, a3⟩ := ih s h hidle hprog hret
      refine ⟨a1, a2, fun hne => ?_⟩
      obtain ⟨b0, b1, b2, pre, post, b3, b4⟩ := a3 hne
      refine ⟨b0, b1, b2, t :: pre, post, by rw [b3]; rfl, ?_⟩
      have e1 : run cfg s (t :: pre) = run cfg s pre := by rw [run_cons, hs]; rfl
      have e2 : run cfg s (t :: pre ++ [.c]) = run cfg s (pre ++ [.c]) := by
        rw [List.cons_append, run_cons, hs]; rfl
      rw [e1, e2]; exact b4
    | some s' =>
      have hrun : run cfg s (t :: ts) = run cfg s' ts := by rw [run_cons, hs]; rfl
      rw [hrun] at hret ⊢
      have h' := inv_step cfg base s s' t h hs
      have hpre1 : ∀ pre : List Tid, run cfg s (t :: pre) = run cfg s' pre := fun pre => by rw [run_cons, hs]; rfl
      by_cases htc : t = .c
      · subst htc
        obtain ⟨hst, _, _⟩ := step_c cfg s s' hs
        obtain ⟨esh, hpd, hcase⟩ := kstart_own cfg m rest _ _ _ _ hidle hprog hst
        have esh' : s'.sh = s.sh := esh
        rcases hcase with ⟨hk', hfit⟩ | ⟨hi, hpr, r1, hr1, hfull, hbig⟩
        · obtain ⟨b0, b1, b2, pre, post, b3, b4⟩ := ccall_pre cfg base m l rest s' ts h' hk' r hret
          have hfit' : l ≤ cfg.size := hfit
          refine ⟨⟨fun hf => (by rw [hf] at b0; cases b0), fun hbig => absurd hfit' (by omega)⟩,
            fun hf => (by rw [hf] at b0; cases b0), fun _ => ?_⟩
          · refine ⟨b0, b1, by rw [b2, esh'], Tid.c :: pre, post, by rw [b3]; rfl, ?_⟩
            rw [hpre1 pre, show Tid.c :: pre ++ [Tid.c] = Tid.c :: (pre ++ [Tid.c]) from rfl, hpre1]; exact b4
        · obtain ⟨f1, f2⟩ := idle_frame_c cfg base s' ts h' hi (by rw [hret.2.1, hpr])
          have hr : (run cfg s' ts).C.res = some r := hret.2.2
          rw [f1, hr1] at hr
          cases hr
          exact ⟨⟨fun _ => hbig, fun _ => hfull⟩, fun _ => by rw [f2, esh'], fun hne => absurd hfull hne⟩
      · have e := step_C_other cfg s s' t hs htc
        have ec := step_cseq cfg base s s' t h hs htc
        obtain ⟨a1, a2, a3⟩ := ih s' h' (by rw [e]; exact hidle) (by rw [e]; exact hprog) hret
        rw [e] at a1 a3
        refine ⟨a1, fun hf => by rw [a2 hf, ec], fun hne => ?_⟩
        obtain ⟨b0, b1, b2, pre, post, b3, b4⟩ := a3 hne
        refine ⟨b0, b1, by rw [b2, ec], t :: pre, post, by rw [b3]; rfl, ?_⟩
        rw [hpre1 pre, show t :: pre ++ [Tid.c] = t :: (pre ++ [Tid.c]) from rfl, hpre1]; exact b4

/-! ### where the consumer is after any schedule -/

def cOver (rest : List Call) (a : St) : Prop := (a.C.prog = rest ∧ a.C.pc = .idle) ∨ a.C.prog.length < rest.length

theorem cOver_step (cfg : Cfg) (rest : List Call) (s s' : St) (t : Tid) (hs : step cfg s t = some s')
    (ho : cOver rest s) : cOver rest s' := by
  by_cases htc : t = .c
  · subst htc
    obtain ⟨hst, _, _⟩ := step_c cfg s s' hs
    rcases tstep_prog cfg _ _ _ _ _ hst with ⟨hne, e⟩ | ⟨_, c, e, _⟩
    · rcases ho with ⟨_, hi⟩ | hlt
      · exact absurd hi hne
      · exact Or.inr (by rw [e]; exact hlt)
    · rcases ho with ⟨hpr, _⟩ | hlt
      · right; rw [← hpr, e]; simp
      · right; rw [e] at hlt; simp at hlt; omega
  · rw [cOver, step_C_other cfg s s' t hs htc]; exact ho

inductive WPhase (cfg : Cfg) (w : Bool) (n : Nat) (rest : List Call) (a : St) : Prop where
  | notStarted : a.C.pc = .idle → a.C.prog = waitCall w n :: rest → WPhase cfg w n rest a
  | wait : CWait cfg w n rest a.sh a.C → WPhase cfg w n rest a
  | over : cOver rest a → WPhase cfg w n rest a

theorem wphase_step (cfg : Cfg) (base : Nat) (w : Bool) (n : Nat) (rest : List Call)
    (s s' : St) (t : Tid) (h : RInv cfg base s) (hs : step cfg s t = some s') (hp : WPhase cfg w n rest s) :
    WPhase cfg w n rest s' := by
  by_cases htc : t = .c
  · subst htc
    obtain ⟨hst, _, _⟩ := step_c cfg s s' hs
    cases hp with
    | notStarted hidle hprog =>
      obtain ⟨esh, hcase⟩ := wait_start_own cfg w n rest _ _ _ _ hidle hprog hst
      have esh' : s'.sh = s.sh := esh
      rcases hcase with ⟨hw', _⟩ | ⟨hi, hpr, _⟩
      · rw [← esh'] at hw'; exact .wait hw'
      · exact .over (Or.inl ⟨hpr, hi⟩)
    | wait hw =>
      cases wait_own cfg base w n rest _ _ _ _ h.glob.cp h.invC.pcinv hw hst with
      | stay hw' _ _ _ => exact .wait hw'
      | ret r1 hi hpr _ _ _ _ => exact .over (Or.inl ⟨hpr, hi⟩)
    | over ho => exact .over (cOver_step cfg rest s s' .c hs ho)
  · have e := step_C_other cfg s s' t hs htc
    cases hp with
    | notStarted hidle hprog => exact .notStarted (by rw [e]; exact hidle) (by rw [e]; exact hprog)
    | wait hw =>
      refine .wait ?_
      rw [e]
      exact ⟨hw.cur, hw.prog, hw.pc, fun h85 => step_done_mono cfg s s' t hs (hw.d85 h85), hw.fits, hw.copy⟩
    | over ho => exact .over (cOver_step cfg rest s s' t hs ho)

theorem wphase_run (cfg : Cfg) (base : Nat) (w : Bool) (n : Nat) (rest : List Call)
    (s : St) (sched : List Tid) (h : RInv cfg base s) (hp : WPhase cfg w n rest s) :
    WPhase cfg w n rest (run cfg s sched) := by
  induction sched generalizing s with
  | nil => exact hp
  | cons t ts ih =>
    rw [run_cons]
    cases hs : step cfg s t with
    | none => exact ih s h hp
    | some s' => exact ih s' (inv_step cfg base s s' t h hs) (wphase_step cfg base w n rest s s' t h hs hp)

/-- **parked = guard false** for `ReadWait(n)` / `ReadPeek(n)`: in a state in which no thread can take a step,
reached by any schedule from the start of the call, the call is over, or the consumer is parked inside THIS
call with the ring open, `n ≤ size`, and fewer bytes buffered than it waits for -/
theorem wcall_quiescent (cfg : Cfg) (base : Nat) (w : Bool) (n : Nat) (rest : List Call)
    (s : St) (sched : List Tid) (h : Live cfg base s) (hp : WPhase cfg w n rest s)
    (hq : ∀ t, step cfg (run cfg s sched) t = none) :
    let a := run cfg s sched
    cOver rest a ∨
    (∃ cpos, a.C.pc = .p86w w n cpos ∧ a.C.cur = some (waitCall w n) ∧ a.C.prog = rest ∧ a.sh.done = false ∧ n ≤ cfg.size ∧
      a.sh.pseq - a.sh.cseq < need w n) := by
  intro a
  have hl := live_run cfg base s sched h
  have hph := wphase_run cfg base w n rest s sched h.safe hp
  rcases quiescent_legit cfg base a hl.safe hl.lock hl.nlwc hl.nlwp hq .c a.C rfl with ⟨hi, hnil⟩ | ⟨_, hpk, hns, hd⟩ | ⟨hc, _⟩
  · cases hph with
    | notStarted _ hprog => rw [hnil] at hprog; cases hprog
    | wait hw => exact absurd hi (waitPc_not_idle w n _ hw.pc)
    | over ho => exact Or.inl ho
  · cases hph with
    | notStarted hi _ => rw [hi] at hpk; simp [cParked] at hpk
    | wait hw =>
      right
      have hpc := hw.pc
      have hpp := hl.safe.invC.pcinv
      have hcp : a.sh.cseq ≤ a.sh.pseq := hl.safe.glob.cp
      unfold pcC at hpp
      cases hpcs : a.C.pc <;> rw [hpcs] at hpk hns hpc hpp <;> simp only [cParked, Bool.false_eq_true] at hpk
      · simp [waitPc] at hpc
      · rename_i w' n' cpos
        simp only [waitPc, Bool.and_eq_true, beq_iff_eq] at hpc
        obtain ⟨rfl, rfl⟩ := hpc
        have e1 : cpos = a.sh.cseq := hpp
        have hns' : mustWait w' n' cpos a.sh.pseq = true := hns
        refine ⟨cpos, rfl, hw.cur, hw.prog, hd, hw.fits, ?_⟩
        subst e1
        cases w' <;> simp [mustWait, need] at hns' ⊢ <;> omega
    | over ho => exact Or.inl ho
  · cases hc

/-! the same for `ReadCommit`: it never waits -/

inductive KPhase (m l : Nat) (rest : List Call) (a : St) : Prop where
  | notStarted : a.C.pc = .idle → a.C.prog = .commit m :: rest → min m a.C.pending.length = l → KPhase m l rest a
  | pre : KPre m l rest a.C → KPhase m l rest a
  | post : KPost m l rest a.C → KPhase m l rest a
  | over : cOver rest a → KPhase m l rest a

theorem kphase_step (cfg : Cfg) (base : Nat) (m l : Nat) (rest : List Call)
    (s s' : St) (t : Tid) (h : RInv cfg base s) (hs : step cfg s t = some s') (hp : KPhase m l rest s) :
    KPhase m l rest s' := by
  by_cases htc : t = .c
  · subst htc
    obtain ⟨hst, _, _⟩ := step_c cfg s s' hs
    cases hp with
    | notStarted hidle hprog hl =>
      obtain ⟨_, _, hcase⟩ := kstart_own cfg m rest _ _ _ _ hidle hprog hst
      rcases hcase with ⟨hk', _⟩ | ⟨hi, hpr, _⟩
      · rw [hl] at hk'; exact .pre hk'
      · exact .over (Or.inl ⟨hpr, hi⟩)
    | pre hk =>
      rcases kpre_own cfg m l rest _ _ _ _ h.invC.pcinv h.invC.pend.2 hk hst with ⟨hk', _⟩ | ⟨hpost, _⟩
      · exact .pre hk'
      · exact .post hpost
    | post hk =>
      rcases (kpost_own cfg m l rest _ _ _ _ hk hst).2 with hpost | ⟨hi, hpr, _⟩
      · exact .post hpost
      · exact .over (Or.inl ⟨hpr, hi⟩)
    | over ho => exact .over (cOver_step cfg rest s s' .c hs ho)
  · have e := step_C_other cfg s s' t hs htc
    cases hp with
    | notStarted hidle hprog hl => exact .notStarted (by rw [e]; exact hidle) (by rw [e]; exact hprog) (by rw [e]; exact hl)
    | pre hk => exact .pre (by rw [e]; exact hk)
    | post hk => exact .post (by rw [e]; exact hk)
    | over ho => exact .over (cOver_step cfg rest s s' t hs ho)

theorem kphase_run (cfg : Cfg) (base : Nat) (m l : Nat) (rest : List Call)
    (s : St) (sched : List Tid) (h : RInv cfg base s) (hp : KPhase m l rest s) :
    KPhase m l rest (run cfg s sched) := by
  induction sched generalizing s with
  | nil => exact hp
  | cons t ts ih =>
    rw [run_cons]
    cases hs : step cfg s t with
    | none => exact ih s h hp
    | some s' => exact ih s' (inv_step cfg base s s' t h hs) (kphase_step cfg base m l rest s s' t h hs hp)

/-- `ReadCommit` never waits: in a state in which no thread can take a step the call is over -/
theorem ccall_quiescent (cfg : Cfg) (base : Nat) (m l : Nat) (rest : List Call)
    (s : St) (sched : List Tid) (h : Live cfg base s) (hp : KPhase m l rest s)
    (hq : ∀ t, step cfg (run cfg s sched) t = none) : cOver rest (run cfg s sched) := by
  have hl := live_run cfg base s sched h
  have hph := kphase_run cfg base m l rest s sched h.safe hp
  rcases quiescent_legit cfg base _ hl.safe hl.lock hl.nlwc hl.nlwp hq .c _ rfl with ⟨hi, hnil⟩ | ⟨_, hpk, _, _⟩ | ⟨hc, _⟩
  · cases hph with
    | notStarted _ hprog _ => rw [hnil] at hprog; cases hprog
    | pre hk => exact absurd hi (kprePc_not_idle l _ hk.pc)
    | post hk => exact absurd hi (kpostPc_not_idle l _ hk.pc)
    | over ho => exact ho
  · cases hph with
    | notStarted hi _ _ => rw [hi] at hpk; simp [cParked] at hpk
    | pre hk =>
      have := hk.pc
      cases hpcs : (run cfg s sched).C.pc <;> rw [hpcs] at hpk this <;> simp [cParked, kprePc] at hpk this
    | post hk =>
      have := hk.pc
      cases hpcs : (run cfg s sched).C.pc <;> rw [hpcs] at hpk this <;> simp [cParked, kpostPc] at hpk this
    | over ho => exact ho
  · cases hc

end Mqtt.Proofs.Ring
