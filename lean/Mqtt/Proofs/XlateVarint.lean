/-
Tie between the REGENERATED translation of the standard-library function
`encoding/binary.Uvarint` (`Mqtt.Generated.Xlate.Binary.Uvarint`, produced from
$GOROOT/src/encoding/binary/varint.go by extract/cmd/xlate on every check) and
the hand-written `uvarint` / `uvarintAux` of `Model/Codec.lean`.

The generated loop keeps the accumulator `x : UInt64` and the shift `s : UInt64`;
the model keeps `x : Nat` (a sum of `b % 128 * 128 ^ i`) and the index `i`.  For
`i ≤ 9` the two accumulators are the same number below `2 ^ (7 * i)` and
`s = 7 * i`; at `i = 10` both return `(0, -11)` whatever the accumulators are.
-/
import Mqtt.Generated.Xlate
import Mqtt.Model.Codec

namespace Mqtt.Proofs.XlateVarint

open Mqtt.Model.Codec (uvarint uvarintAux)
open Mqtt.Generated.Xlate

/-- `128 ^ i` as a power of two -/
theorem pow128 (i : Nat) : 128 ^ i = 2 ^ (7 * i) := by
  rw [Nat.pow_mul]

/-- or-ing a byte shifted past every bit of `x` adds it -/
theorem or_shift_eq_add (x c s : Nat) (hx : x < 2 ^ s) : x ||| (c <<< s) = x + c * 2 ^ s := by
  rw [Nat.or_comm, ← Nat.shiftLeft_add_eq_or_of_lt hx, Nat.shiftLeft_eq, Nat.add_comm]

/-- the generated `x | uint64(c) << s` for `s = 7 * i`, `i ≤ 9`, as long as nothing is shifted out -/
theorem step_toNat (x s : UInt64) (c : UInt8) (i : Nat) (hi : i ≤ 9) (hs : s.toNat = 7 * i)
    (hx : x.toNat < 2 ^ (7 * i)) (hc : c.toNat * 2 ^ (7 * i) < 2 ^ 64) :
    (x ||| (if s.toNat < 64 then c.toUInt64 <<< (UInt64.ofNat s.toNat) else 0)).toNat
      = x.toNat + c.toNat * 2 ^ (7 * i) := by
  have hs64 : s.toNat < 64 := by omega
  rw [if_pos hs64, UInt64.toNat_or, UInt64.toNat_shiftLeft, UInt8.toNat_toUInt64, UInt64.toNat_ofNat']
  have e1 : s.toNat % 2 ^ 64 % 64 = 7 * i := by omega
  rw [e1, Nat.shiftLeft_eq, Nat.mod_eq_of_lt hc]
  have := or_shift_eq_add x.toNat c.toNat _ hx
  rw [Nat.shiftLeft_eq] at this
  exact this

/-- at index 10 both loops give up, whatever they have accumulated -/
theorem loop_at_10 (buf rest : List UInt8) (x s : UInt64) (xm : Nat) :
    Binary.Uvarint.loop1 buf x s 10 rest
      = (UInt64.ofNat (uvarintAux rest 10 xm).1, (uvarintAux rest 10 xm).2) := by
  cases rest with
  | nil => simp [Binary.Uvarint.loop1, uvarintAux]
  | cons b rest => simp [Binary.Uvarint.loop1, uvarintAux]

/-- the loop invariant: same accumulator below `2 ^ (7 * i)`, shift `7 * i` -/
theorem loop_eq (buf : List UInt8) : ∀ (rest : List UInt8) (i : Nat) (x s : UInt64),
    i ≤ 9 → s.toNat = 7 * i → x.toNat < 2 ^ (7 * i) →
    Binary.Uvarint.loop1 buf x s i rest
      = (UInt64.ofNat (uvarintAux rest i x.toNat).1, (uvarintAux rest i x.toNat).2) := by
  intro rest
  induction rest with
  | nil => intro i x s _ _ _; simp [Binary.Uvarint.loop1, uvarintAux]
  | cons b rest ih =>
    intro i x s hi hs hx
    have hP : 2 ^ (7 * i) ≤ 2 ^ 63 := Nat.pow_le_pow_right (by omega) (by omega)
    have h64 : (2 : Nat) ^ 64 = 2 * 2 ^ 63 := by decide
    have hi10 : i ≠ 10 := by omega
    unfold Binary.Uvarint.loop1 uvarintAux
    simp only [beq_iff_eq, hi10, if_false, decide_eq_true_eq, UInt8.lt_iff_toNat_lt,
      Bool.and_eq_true, gt_iff_lt]
    have e128 : (128 : UInt8).toNat = 128 := rfl
    have e1 : (1 : UInt8).toNat = 1 := rfl
    rw [e128, e1, pow128]
    by_cases hb : b.toNat < 128
    · rw [if_pos hb, if_pos hb]
      by_cases h9 : i = 9 ∧ 1 < b.toNat
      · rw [if_pos h9, if_pos h9]
        simp
      · rw [if_neg h9, if_neg h9]
        have hc : b.toNat * 2 ^ (7 * i) < 2 ^ 64 := by
          by_cases hi9 : i = 9
          · have : b.toNat ≤ 1 := by omega
            have := Nat.mul_le_mul_right (2 ^ (7 * i)) this
            omega
          · have hP' : 2 ^ (7 * i + 7) ≤ 2 ^ 63 := Nat.pow_le_pow_right (by omega) (by omega)
            rw [Nat.pow_add] at hP'
            have := Nat.mul_le_mul_right (2 ^ (7 * i)) (show b.toNat ≤ 127 by omega)
            omega
        have hstep := step_toNat x s b i hi hs hx hc
        have hlt : x.toNat + b.toNat * 2 ^ (7 * i) < 2 ^ 64 := by
          by_cases hi9 : i = 9
          · have : b.toNat ≤ 1 := by omega
            have := Nat.mul_le_mul_right (2 ^ (7 * i)) this
            omega
          · have hP' : 2 ^ (7 * i + 7) ≤ 2 ^ 63 := Nat.pow_le_pow_right (by omega) (by omega)
            rw [Nat.pow_add] at hP'
            have := Nat.mul_le_mul_right (2 ^ (7 * i)) (show b.toNat ≤ 127 by omega)
            omega
        refine Prod.ext ?_ ?_
        · apply UInt64.toNat_inj.mp
          rw [hstep, UInt64.toNat_ofNat', Nat.mod_mod]
          exact (Nat.mod_eq_of_lt hlt).symm
        · simp
    · rw [if_neg hb, if_neg hb]
      by_cases hi9 : i = 9
      · subst hi9
        exact loop_at_10 buf rest _ _ _
      · have hP' : 2 ^ (7 * i + 7) ≤ 2 ^ 63 := Nat.pow_le_pow_right (by omega) (by omega)
        have hPe : 2 ^ (7 * (i + 1)) = 2 ^ (7 * i) * 128 := by
          rw [show 7 * (i + 1) = 7 * i + 7 by omega, Nat.pow_add]
        rw [Nat.pow_add] at hP'
        have hand : (b &&& (127 : UInt8)).toNat = b.toNat % 128 := by
          rw [UInt8.toNat_and]
          exact Nat.and_two_pow_sub_one_eq_mod b.toNat 7
        have hcm := Nat.mul_le_mul_right (2 ^ (7 * i)) (show b.toNat % 128 ≤ 127 by omega)
        have hc : (b &&& (127 : UInt8)).toNat * 2 ^ (7 * i) < 2 ^ 64 := by
          rw [hand]; omega
        have hstep := step_toNat x s (b &&& 127) i hi hs hx hc
        rw [hand] at hstep
        have hs' : (s + (7 : UInt64)).toNat = 7 * (i + 1) := by
          rw [UInt64.toNat_add]
          have : (7 : UInt64).toNat = 7 := rfl
          omega
        have := ih (i + 1) _ (s + 7) (by omega) hs' (by rw [hstep, hPe]; omega)
        rw [hstep] at this
        exact this

/-- the regenerated `binary.Uvarint` is the model's `uvarint` (value as a `uint64`) -/
theorem uvarint_is_source (buf : List UInt8) :
    Binary.Uvarint buf = (UInt64.ofNat (uvarint buf).1, (uvarint buf).2) := by
  have := loop_eq buf buf 0 0 0 (by omega) rfl (by decide)
  simpa [Binary.Uvarint, uvarint] using this

/-- the model's value always fits 64 bits (its last step reduces mod `2 ^ 64`) -/
theorem uvarintAux_lt_two_pow_64 (rest : List UInt8) : ∀ (i x : Nat), (uvarintAux rest i x).1 < 2 ^ 64 := by
  induction rest with
  | nil => intro i x; simp [uvarintAux]
  | cons b rest ih =>
    intro i x
    unfold uvarintAux
    split
    · exact Nat.pow_pos (by omega)
    · split
      · split
        · exact Nat.pow_pos (by omega)
        · exact Nat.mod_lt _ (Nat.pow_pos (by omega))
      · exact ih _ _

theorem uvarint_lt_two_pow_64 (buf : List UInt8) : (uvarint buf).1 < 2 ^ 64 :=
  uvarintAux_lt_two_pow_64 buf 0 0

/-- the value as a natural number, the byte count unchanged -/
theorem uvarint_is_source_toNat (buf : List UInt8) :
    (Binary.Uvarint buf).1.toNat = (uvarint buf).1 ∧ (Binary.Uvarint buf).2 = (uvarint buf).2 := by
  rw [uvarint_is_source]
  refine ⟨?_, rfl⟩
  show (UInt64.ofNat (uvarint buf).1).toNat = _
  rw [UInt64.toNat_ofNat']
  exact Nat.mod_eq_of_lt (uvarint_lt_two_pow_64 buf)

theorem uvarint_is_source_val (buf : List UInt8) : (Binary.Uvarint buf).1.toNat = (uvarint buf).1 :=
  (uvarint_is_source_toNat buf).1

end Mqtt.Proofs.XlateVarint
