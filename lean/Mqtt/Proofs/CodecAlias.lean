/-
Core A (codec): what a successful `Decode` leaves in the header fields that the
setters later write through — the type/flags byte is a view of the decode buffer
(`tfInBuf`), the packet identifier is a view of two bytes of it (`pidOff`) — and the
shape (`Shape`) of every decoded message.
-/
import Mqtt.Proofs.CodecBuilt

set_option linter.unusedSimpArgs false
set_option linter.unusedVariables false

namespace Mqtt.Proofs.Codec

open Mqtt.Model.Codec Mqtt.Iface.Codec Mqtt.Generated
open Mqtt.Spec

/-! ## inversion of the checked slice primitives -/

theorem bind_eq_ok {α β : Type} {o : Outcome α} {f : α → Outcome β} {b : β} :
    o.bind f = .ok b ↔ ∃ a, o = .ok a ∧ f a = .ok b := by
  cases o <;> simp [Outcome.bind]

theorem sliceFrom_inv {s v : Bytes} {lo : Nat} (h : sliceFrom s lo = .ok v) : lo ≤ s.length ∧ v = s.drop lo := by
  unfold sliceFrom at h
  split at h
  · injection h with h; exact ⟨by assumption, h.symm⟩
  · cases h

theorem sliceTo_inv {s v : Bytes} {hi : Nat} (h : sliceTo s hi = .ok v) : hi ≤ s.length ∧ v = s.take hi := by
  unfold sliceTo at h
  split at h
  · injection h with h; exact ⟨by assumption, h.symm⟩
  · cases h

theorem slice_inv {s v : Bytes} {lo hi : Nat} (h : slice s lo hi = .ok v) :
    lo ≤ hi ∧ hi ≤ s.length ∧ v = (s.drop lo).take (hi - lo) ∧ v.length = hi - lo := by
  unfold slice at h
  split at h
  · rename_i hc
    injection h with h
    refine ⟨hc.1, hc.2, h.symm, ?_⟩
    rw [← h, List.length_take, List.length_drop]; omega
  · cases h

theorem readLP_inv {buf v : Bytes} {k : Nat} (h : readLPBytes buf = .ok (v, k)) : k = 2 + v.length := by
  rcases readLP_spec buf with he | ⟨r, hr, k', h1, h2, _, _⟩
  · rw [he] at h; cases h
  · rw [hr] at h
    injection h with h
    subst h
    simp only [] at h1 h2
    omega

/-! ## the header of a decoded message, per decoder -/

theorem bare_alias {h0 : Hdr} {src : Bytes} {d : Decoded} (h : decodeBare h0 src = .ok d) :
    ∃ h' hn, Hdr.decode h0 src = .ok (h', hn) ∧ h'.remlen = 0 ∧ d.msg = .bare { h' with dirty := false } := by
  unfold decodeBare at h
  obtain ⟨r, hr, h⟩ := bind_eq_ok.mp h
  simp only [] at h
  split at h
  · cases h
  · rename_i h2
    injection h with h
    exact ⟨r.1, r.2, hr, by omega, by rw [← h]⟩

theorem ack_alias {h0 : Hdr} {src : Bytes} {d : Decoded} (h : decodeAck h0 src = .ok d) :
    ∃ h' hn pid, Hdr.decode h0 src = .ok (h', hn) ∧ pid.length = 2 ∧
      d.msg = .ack { h' with pid := pid, pidOff := some hn, dirty := false } := by
  unfold decodeAck at h
  obtain ⟨s0, hs0, h⟩ := bind_eq_ok.mp h
  obtain ⟨_, rfl⟩ := sliceFrom_inv hs0
  obtain ⟨r, hr, h⟩ := bind_eq_ok.mp h
  simp only [] at h
  split at h
  · cases h
  · obtain ⟨pid, hp, h⟩ := bind_eq_ok.mp h
    obtain ⟨_, _, _, hl⟩ := slice_inv hp
    injection h with h
    exact ⟨r.1, r.2, pid, hr, by omega, by rw [← h]⟩

theorem connack_alias {h0 : Hdr} {src : Bytes} {d : Decoded} (h : decodeConnack h0 src = .ok d) :
    ∃ h' hn sp rc, Hdr.decode h0 src = .ok (h', hn) ∧ d.msg = .connack { h' with dirty := false } sp rc := by
  unfold decodeConnack at h
  obtain ⟨r, hr, h⟩ := bind_eq_ok.mp h
  simp only [] at h
  split at h
  · cases h
  · obtain ⟨b, hb, h⟩ := bind_eq_ok.mp h
    split at h
    · cases h
    · obtain ⟨b2, hb2, h⟩ := bind_eq_ok.mp h
      split at h
      · cases h
      · injection h with h
        exact ⟨r.1, r.2, _, _, hr, by rw [← h]⟩

theorem publish_alias {h0 : Hdr} {src : Bytes} {d : Decoded} (h : decodePublish h0 src = .ok d) :
    ∃ h' hn topic payload, Hdr.decode h0 src = .ok (h', hn) ∧
      ((pubQoS h' = 0 ∧ d.msg = .publish { h' with dirty := false } topic payload) ∨
       (pubQoS h' ≠ 0 ∧ ∃ pid, pid.length = 2 ∧
          d.msg = .publish { h' with pid := pid, pidOff := some (hn + (2 + topic.length)), dirty := false } topic payload)) := by
  unfold decodePublish at h
  obtain ⟨s0, hs0, h⟩ := bind_eq_ok.mp h
  obtain ⟨_, rfl⟩ := sliceFrom_inv hs0
  obtain ⟨r, hr, h⟩ := bind_eq_ok.mp h
  simp only [] at h
  obtain ⟨src', hs', h⟩ := bind_eq_ok.mp h
  obtain ⟨buf, hbuf, h⟩ := bind_eq_ok.mp h
  obtain ⟨lp, hlp, h⟩ := bind_eq_ok.mp h
  have hk := readLP_inv (buf := buf) (v := lp.1) (k := lp.2) hlp
  split at h
  · cases h
  · obtain ⟨hp, hhp, h⟩ := bind_eq_ok.mp h
    split at h
    · cases h
    · obtain ⟨payload, hpl, h⟩ := bind_eq_ok.mp h
      injection h with h
      refine ⟨r.1, r.2, lp.1, payload, hr, ?_⟩
      split at hhp
      · rename_i hq
        right
        obtain ⟨rest, hrest, hhp⟩ := bind_eq_ok.mp hhp
        split at hhp
        · cases hhp
        · obtain ⟨pid, hpid, hhp⟩ := bind_eq_ok.mp hhp
          obtain ⟨_, _, _, hl⟩ := slice_inv hpid
          injection hhp with hhp
          refine ⟨hq, pid, by omega, ?_⟩
          rw [← h, ← hhp, hk]
      · rename_i hq
        left
        injection hhp with hhp
        refine ⟨by simpa using hq, ?_⟩
        rw [← h, ← hhp]

theorem suback_alias {h0 : Hdr} {src : Bytes} {d : Decoded} (h : decodeSuback h0 src = .ok d) :
    ∃ h' hn pid codes, Hdr.decode h0 src = .ok (h', hn) ∧ pid.length = 2 ∧
      d.msg = .suback { h' with pid := pid, pidOff := some hn, dirty := false } codes := by
  unfold decodeSuback at h
  obtain ⟨s0, hs0, h⟩ := bind_eq_ok.mp h
  obtain ⟨_, rfl⟩ := sliceFrom_inv hs0
  obtain ⟨r, hr, h⟩ := bind_eq_ok.mp h
  simp only [] at h
  obtain ⟨src', hs', h⟩ := bind_eq_ok.mp h
  split at h
  · cases h
  · obtain ⟨pid, hp, h⟩ := bind_eq_ok.mp h
    obtain ⟨_, _, _, hl⟩ := slice_inv hp
    obtain ⟨codes, hc, h⟩ := bind_eq_ok.mp h
    split at h
    · injection h with h
      exact ⟨r.1, r.2, pid, codes, hr, by omega, by rw [← h]⟩
    · cases h

theorem subLoop_lengths (src : Bytes) : ∀ (remlen total : Nat) (ts : List Bytes) (qs : List UInt8) (vs : List View)
    (r : List Bytes × List UInt8 × List View × Nat),
    subLoop src total remlen ts qs vs = .ok r → ts.length = qs.length → r.1.length = r.2.1.length := by
  intro remlen
  induction remlen using Nat.strongRecOn with
  | ind remlen ih =>
    intro total ts qs vs r h hl
    rw [subLoop] at h
    split at h
    · injection h with h; rw [← h]; exact hl
    · rename_i h0
      split at h
      · rename_i t q n hstep
        exact ih (remlen - n - 1) (by omega) _ _ _ _ r h (by simp only [List.length_append, List.length_cons, List.length_nil]; omega)
      · cases h
      · cases h

theorem subscribe_alias {h0 : Hdr} {src : Bytes} {d : Decoded} (h : decodeSubscribe h0 [] [] src = .ok d) :
    ∃ h' hn pid ts qs, Hdr.decode h0 src = .ok (h', hn) ∧ pid.length = 2 ∧ ts.length = qs.length ∧
      d.msg = .subscribe { h' with pid := pid, pidOff := some hn, dirty := false } ts qs := by
  unfold decodeSubscribe at h
  obtain ⟨s0, hs0, h⟩ := bind_eq_ok.mp h
  obtain ⟨_, rfl⟩ := sliceFrom_inv hs0
  obtain ⟨r, hr, h⟩ := bind_eq_ok.mp h
  simp only [] at h
  obtain ⟨src', hs', h⟩ := bind_eq_ok.mp h
  split at h
  · cases h
  · obtain ⟨pid, hp, h⟩ := bind_eq_ok.mp h
    obtain ⟨_, _, _, hl⟩ := slice_inv hp
    obtain ⟨lr, hloop, h⟩ := bind_eq_ok.mp h
    split at h
    · cases h
    · injection h with h
      exact ⟨r.1, r.2, pid, lr.1, lr.2.1, hr, by omega, subLoop_lengths _ _ _ _ _ _ _ hloop rfl, by rw [← h]⟩

theorem unsubscribe_alias {h0 : Hdr} {src : Bytes} {d : Decoded} (h : decodeUnsubscribe h0 [] src = .ok d) :
    ∃ h' hn pid ts, Hdr.decode h0 src = .ok (h', hn) ∧ pid.length = 2 ∧
      d.msg = .unsubscribe { h' with pid := pid, pidOff := some hn, dirty := false } ts := by
  unfold decodeUnsubscribe at h
  obtain ⟨s0, hs0, h⟩ := bind_eq_ok.mp h
  obtain ⟨_, rfl⟩ := sliceFrom_inv hs0
  obtain ⟨r, hr, h⟩ := bind_eq_ok.mp h
  simp only [] at h
  obtain ⟨src', hs', h⟩ := bind_eq_ok.mp h
  split at h
  · cases h
  · obtain ⟨pid, hp, h⟩ := bind_eq_ok.mp h
    obtain ⟨_, _, _, hl⟩ := slice_inv hp
    obtain ⟨lr, hloop, h⟩ := bind_eq_ok.mp h
    split at h
    · cases h
    · injection h with h
      exact ⟨r.1, r.2, pid, lr.1, hr, by omega, by rw [← h]⟩

theorem beU16_lt (a b : UInt8) : beU16 a b < 65536 := by
  unfold beU16
  have := a.toNat_lt
  have := b.toNat_lt
  omega

theorem connectFixed_inv {c c' : ConnectF} {src : Bytes} {n : Nat} (h : connectFixed c src = .ok (c', n)) :
    c'.connectFlags.toNat % 2 = 0 ∧ c'.keepAlive < 65536 := by
  unfold connectFixed at h
  obtain ⟨f, hf, h⟩ := bind_eq_ok.mp h
  simp only [] at h
  obtain ⟨rest, hrest, h⟩ := bind_eq_ok.mp h
  split at h
  · cases h
  · obtain ⟨ver, hver, h⟩ := bind_eq_ok.mp h
    split at h
    · cases h
    · obtain ⟨cf, hcf, h⟩ := bind_eq_ok.mp h
      split at h
      · cases h
      · rename_i hev
        split at h
        · cases h
        · split at h
          · cases h
          · obtain ⟨rest2, hrest2, h⟩ := bind_eq_ok.mp h
            split at h
            · cases h
            · obtain ⟨ka, hka, h⟩ := bind_eq_ok.mp h
              injection h with h
              injection h with h1 h2
              rw [← h1]
              exact ⟨by simpa using hev, beU16_lt _ _⟩

theorem connectClientID_keeps {c : ConnectF} {src : Bytes} {total base : Nat} {r : ConnectF × View × Nat}
    (h : connectClientID c src total base = .ok r) :
    r.1.connectFlags = c.connectFlags ∧ r.1.keepAlive = c.keepAlive := by
  unfold connectClientID at h
  obtain ⟨f, hf, h⟩ := bind_eq_ok.mp h
  simp only [] at h
  split at h
  · cases h
  · split at h
    · cases h
    · injection h with h; rw [← h]; exact ⟨rfl, rfl⟩

theorem connectWill_keeps {c : ConnectF} {src : Bytes} {total base : Nat} {r : ConnectF × View × View × Nat}
    (h : connectWill c src total base = .ok r) :
    r.1.connectFlags = c.connectFlags ∧ r.1.keepAlive = c.keepAlive := by
  unfold connectWill at h
  split at h
  · obtain ⟨f1, hf1, h⟩ := bind_eq_ok.mp h
    obtain ⟨f2, hf2, h⟩ := bind_eq_ok.mp h
    injection h with h; rw [← h]; exact ⟨rfl, rfl⟩
  · injection h with h; rw [← h]; exact ⟨rfl, rfl⟩

theorem connectUser_keeps {c : ConnectF} {src : Bytes} {total base : Nat} {r : ConnectF × View × Nat}
    (h : connectUser c src total base = .ok r) :
    r.1.connectFlags = c.connectFlags ∧ r.1.keepAlive = c.keepAlive := by
  unfold connectUser at h
  obtain ⟨rest, hrest, h⟩ := bind_eq_ok.mp h
  split at h
  · obtain ⟨f1, hf1, h⟩ := bind_eq_ok.mp h
    injection h with h; rw [← h]; exact ⟨rfl, rfl⟩
  · injection h with h; rw [← h]; exact ⟨rfl, rfl⟩

theorem connectPass_keeps {c : ConnectF} {src : Bytes} {total base : Nat} {r : ConnectF × View × Nat}
    (h : connectPass c src total base = .ok r) :
    r.1.connectFlags = c.connectFlags ∧ r.1.keepAlive = c.keepAlive := by
  unfold connectPass at h
  obtain ⟨rest, hrest, h⟩ := bind_eq_ok.mp h
  split at h
  · obtain ⟨f1, hf1, h⟩ := bind_eq_ok.mp h
    injection h with h; rw [← h]; exact ⟨rfl, rfl⟩
  · injection h with h; rw [← h]; exact ⟨rfl, rfl⟩

theorem decodeConnectMessage_inv {c : ConnectF} {src : Bytes} {base : Nat} {r : ConnectF × Nat × List View}
    (h : decodeConnectMessage c src base = .ok r) :
    r.1.connectFlags.toNat % 2 = 0 ∧ r.1.keepAlive < 65536 := by
  unfold decodeConnectMessage at h
  obtain ⟨r1, h1, h⟩ := bind_eq_ok.mp h
  obtain ⟨r2, h2, h⟩ := bind_eq_ok.mp h
  obtain ⟨r3, h3, h⟩ := bind_eq_ok.mp h
  obtain ⟨r4, h4, h⟩ := bind_eq_ok.mp h
  obtain ⟨r5, h5, h⟩ := bind_eq_ok.mp h
  injection h with h
  obtain ⟨a1, a2⟩ := connectFixed_inv (c' := r1.1) (n := r1.2) h1
  obtain ⟨b1, b2⟩ := connectClientID_keeps h2
  obtain ⟨c1, c2⟩ := connectWill_keeps h3
  obtain ⟨d1, d2⟩ := connectUser_keeps h4
  obtain ⟨e1, e2⟩ := connectPass_keeps h5
  rw [← h]
  simp only []
  rw [e1, d1, c1, b1, e2, d2, c2, b2]
  exact ⟨a1, a2⟩

theorem connect_alias {h0 : Hdr} {src : Bytes} {d : Decoded} (h : decodeConnect h0 {} src = .ok d) :
    ∃ h' hn c, Hdr.decode h0 src = .ok (h', hn) ∧ c.connectFlags.toNat % 2 = 0 ∧ c.keepAlive < 65536 ∧
      d.msg = .connect { h' with dirty := false } c := by
  unfold decodeConnect at h
  obtain ⟨s0, hs0, h⟩ := bind_eq_ok.mp h
  obtain ⟨_, rfl⟩ := sliceFrom_inv hs0
  obtain ⟨r, hr, h⟩ := bind_eq_ok.mp h
  simp only [] at h
  obtain ⟨src', hs', h⟩ := bind_eq_ok.mp h
  obtain ⟨body, hbody, h⟩ := bind_eq_ok.mp h
  obtain ⟨rm, hrm, h⟩ := bind_eq_ok.mp h
  split at h
  · cases h
  · injection h with h
    obtain ⟨a1, a2⟩ := decodeConnectMessage_inv hrm
    exact ⟨r.1, r.2, rm.1, hr, a1, a2, by rw [← h]⟩

/-! ## every decoder, started on a fresh message -/

/-- where the packet identifier of a freshly decoded message lives (`hn` = length of the fixed header) -/
def PidDec (hn : Nat) : Msg → Prop
  | .publish h t _ => if pubQoS h = 0 then h.pid = [] else h.pid.length = 2 ∧ h.pidOff = some (hn + (2 + t.length))
  | .ack h | .subscribe h _ _ | .suback h _ | .unsubscribe h _ => h.pid.length = 2 ∧ h.pidOff = some hn
  | .connack h _ _ | .bare h | .connect h _ => h.pid = []

/-- what `Type(t).New()` + `Decode(src)` leaves behind, beyond `DecOK` -/
structure DecAlias (t : Nat) (src : Bytes) (d : Decoded) : Prop where
  shape : Shape d.msg
  tfIn : d.msg.hdr.tfInBuf = true
  hdr : ∃ h' hn, Hdr.decode (Hdr.new t) src = .ok (h', hn) ∧ d.msg.hdr.dbuf = h'.dbuf ∧ PidDec hn d.msg

theorem hdrNew_pid (t : Nat) : (Hdr.new t).pid = [] := rfl

theorem decodeNew_alias {t : Nat} {src : Bytes} {d : Decoded} (h : decodeNew t src = .ok d) : DecAlias t src d := by
  unfold decodeNew at h
  cases hm : Msg.new t with
  | none => rw [hm] at h; cases h
  | some m =>
    rw [hm] at h
    simp only [] at h
    unfold Msg.new at hm
    repeat' split at hm
    all_goals try (cases hm)
    · -- CONNECT
      rename_i ht; subst ht
      unfold decode at h
      obtain ⟨h', hn, c, hd, c1, c2, hmsg⟩ := connect_alias h
      have hh := hdr_decode_ok hd
      have hty : h'.type = 1 := by rw [hh.type]; decide
      refine ⟨?_, ?_, h', hn, hd, ?_, ?_⟩
      · rw [hmsg]; exact ⟨hty, (show h'.flags = _ by rw [hh.flagsOk (by rw [hty]; decide), hty]; decide), c1, c2⟩
      · rw [hmsg]; exact hh.tfInBuf
      · rw [hmsg]; rfl
      · rw [hmsg]; exact hh.pid.trans (hdrNew_pid _)
    · -- CONNACK
      rename_i ht; subst ht
      unfold decode at h
      obtain ⟨h', hn, sp, rc, hd, hmsg⟩ := connack_alias h
      have hh := hdr_decode_ok hd
      have hty : h'.type = 2 := by rw [hh.type]; decide
      refine ⟨?_, ?_, h', hn, hd, ?_, ?_⟩
      · rw [hmsg]; exact ⟨hty, (show h'.flags = _ by rw [hh.flagsOk (by rw [hty]; decide), hty]; decide)⟩
      · rw [hmsg]; exact hh.tfInBuf
      · rw [hmsg]; rfl
      · rw [hmsg]; exact hh.pid.trans (hdrNew_pid _)
    · -- PUBLISH
      rename_i ht; subst ht
      unfold decode at h
      obtain ⟨h', hn, topic, payload, hd, hcase⟩ := publish_alias h
      have hh := hdr_decode_ok hd
      have hty : h'.type = 3 := by rw [hh.type]; decide
      rcases hcase with ⟨hq, hmsg⟩ | ⟨hq, pid, hpl, hmsg⟩
      · refine ⟨?_, ?_, h', hn, hd, ?_, ?_⟩
        · rw [hmsg]; exact hty
        · rw [hmsg]; exact hh.tfInBuf
        · rw [hmsg]; rfl
        · rw [hmsg]
          have : pubQoS { h' with dirty := false } = 0 := hq
          simp only [PidDec, this, if_true]
          exact hh.pid.trans (hdrNew_pid _)
      · refine ⟨?_, ?_, h', hn, hd, ?_, ?_⟩
        · rw [hmsg]; exact hty
        · rw [hmsg]; exact hh.tfInBuf
        · rw [hmsg]; rfl
        · rw [hmsg]
          have : ¬ pubQoS { h' with pid := pid, pidOff := some (hn + (2 + topic.length)), dirty := false } = 0 := hq
          simp only [PidDec, this, if_false]
          exact ⟨hpl, trivial⟩
    · -- PUBACK family
      rename_i ht
      simp only [tPUBACK, tPUBREC, tPUBREL, tPUBCOMP, tUNSUBACK] at ht
      unfold decode at h
      obtain ⟨h', hn, pid, hd, hpl, hmsg⟩ := ack_alias h
      have hh := hdr_decode_ok hd
      have hty : h'.type = t := by rw [hh.type]; exact hdrNew_type t (by omega)
      refine ⟨?_, ?_, h', hn, hd, ?_, ?_⟩
      · rw [hmsg]
        refine ⟨(show h'.type = 4 ∨ h'.type = 5 ∨ h'.type = 6 ∨ h'.type = 7 ∨ h'.type = 11 by rw [hty]; omega), ?_⟩
        exact hh.flagsOk (by rw [hty]; simp only [tPUBLISH]; omega)
      · rw [hmsg]; exact hh.tfInBuf
      · rw [hmsg]; rfl
      · rw [hmsg]; exact ⟨hpl, rfl⟩
    · -- SUBSCRIBE
      rename_i ht; subst ht
      unfold decode at h
      obtain ⟨h', hn, pid, ts, qs, hd, hpl, hlen, hmsg⟩ := subscribe_alias h
      have hh := hdr_decode_ok hd
      have hty : h'.type = 8 := by rw [hh.type]; decide
      refine ⟨?_, ?_, h', hn, hd, ?_, ?_⟩
      · rw [hmsg]; exact ⟨hty, (show h'.flags = _ by rw [hh.flagsOk (by rw [hty]; decide), hty]; decide), hlen⟩
      · rw [hmsg]; exact hh.tfInBuf
      · rw [hmsg]; rfl
      · rw [hmsg]; exact ⟨hpl, rfl⟩
    · -- SUBACK
      rename_i ht; subst ht
      unfold decode at h
      obtain ⟨h', hn, pid, codes, hd, hpl, hmsg⟩ := suback_alias h
      have hh := hdr_decode_ok hd
      have hty : h'.type = 9 := by rw [hh.type]; decide
      refine ⟨?_, ?_, h', hn, hd, ?_, ?_⟩
      · rw [hmsg]; exact ⟨hty, (show h'.flags = _ by rw [hh.flagsOk (by rw [hty]; decide), hty]; decide)⟩
      · rw [hmsg]; exact hh.tfInBuf
      · rw [hmsg]; rfl
      · rw [hmsg]; exact ⟨hpl, rfl⟩
    · -- UNSUBSCRIBE
      rename_i ht; subst ht
      unfold decode at h
      obtain ⟨h', hn, pid, ts, hd, hpl, hmsg⟩ := unsubscribe_alias h
      have hh := hdr_decode_ok hd
      have hty : h'.type = 10 := by rw [hh.type]; decide
      refine ⟨?_, ?_, h', hn, hd, ?_, ?_⟩
      · rw [hmsg]; exact ⟨hty, (show h'.flags = _ by rw [hh.flagsOk (by rw [hty]; decide), hty]; decide)⟩
      · rw [hmsg]; exact hh.tfInBuf
      · rw [hmsg]; rfl
      · rw [hmsg]; exact ⟨hpl, rfl⟩
    · -- PINGREQ, PINGRESP, DISCONNECT
      rename_i ht
      simp only [tPINGREQ, tPINGRESP, tDISCONNECT] at ht
      unfold decode at h
      obtain ⟨h', hn, hd, hrem, hmsg⟩ := bare_alias h
      have hh := hdr_decode_ok hd
      have hty : h'.type = t := by rw [hh.type]; exact hdrNew_type t (by omega)
      refine ⟨?_, ?_, h', hn, hd, ?_, ?_⟩
      · rw [hmsg]
        refine ⟨(show h'.type = 12 ∨ h'.type = 13 ∨ h'.type = 14 by rw [hty]; omega), ?_, hrem⟩
        have := hh.flagsOk (by rw [hty]; simp only [tPUBLISH]; omega)
        show h'.flags = 0
        rw [this, hty]
        rcases ht with e | e | e <;> rw [e] <;> decide
      · rw [hmsg]; exact hh.tfInBuf
      · rw [hmsg]; rfl
      · rw [hmsg]; exact hh.pid.trans (hdrNew_pid _)

/-! ## the fixed header of a reference encoding -/

/-- the byte count of a successful `header.decode`: the type/flags byte and the bytes `binary.Uvarint` consumed -/
theorem hdr_decode_count {h : Hdr} {src : Bytes} {h' : Hdr} {n : Nat} (hd : Hdr.decode h src = .ok (h', n)) :
    n = 1 + (uvarint (src.drop 1)).2.toNat := by
  unfold Hdr.decode at hd
  split at hd
  · cases hd
  obtain ⟨mf, hmf, hd⟩ := bind_eq_ok.mp hd
  simp only [] at hd
  split at hd
  · cases hd
  split at hd
  · cases hd
  split at hd
  · cases hd
  split at hd
  · cases hd
  obtain ⟨buf, hbuf, hd⟩ := bind_eq_ok.mp hd
  obtain ⟨_, rfl⟩ := sliceFrom_inv hbuf
  split at hd
  · cases hd
  split at hd
  · cases hd
  obtain ⟨rest, hrest, hd⟩ := bind_eq_ok.mp hd
  split at hd
  · cases hd
  obtain ⟨dd, hdd, hd⟩ := bind_eq_ok.mp hd
  injection hd with hd
  injection hd with h1 h2
  exact h2.symm

theorem varint_len_big (L : Nat) (h : 2097152 ≤ L) : (Wire.varint L).length = 4 := by
  unfold Wire.varint
  rw [if_neg (by omega), if_neg (by omega), if_neg (by omega)]
  rfl

/-- if the bytes of the decoded packet are a reference encoding, the fixed header is the reference one:
its length is `1 + |varint L|` and `L` is in range -/
theorem hn_of_canonical {h0 : Hdr} {src : Bytes} {h' : Hdr} {hn : Nat} (hd : Hdr.decode h0 src = .ok (h', hn))
    (p : Wire.Packet) (n : Nat) (hc : src.take n = Wire.encode p) (hle : n ≤ src.length) (hnr : n = hn + h'.remlen) :
    hn = 1 + (Wire.varint p.body.length).length ∧ p.body.length ≤ 268435455 := by
  have hh := hdr_decode_ok hd
  have hrl : h'.remlen ≤ 268435455 := hh.remlen_le
  have hn5 := hh.n_hi
  have hlen : (Wire.encode p).length = n := by rw [← hc, List.length_take]; omega
  have hWl : (Wire.encode p).length = 1 + (Wire.varint p.body.length).length + p.body.length := by
    unfold Wire.encode; simp only [List.length_cons, List.length_append]; omega
  have hL : p.body.length ≤ 268435455 := by
    by_cases hb : p.body.length ≤ 268435455
    · exact hb
    · have := varint_len_big p.body.length (by omega)
      omega
  refine ⟨?_, hL⟩
  have hsrc : src = Wire.encode p ++ src.drop n := by rw [← hc, List.take_append_drop]
  have hd1 : src.drop 1 = Wire.varint p.body.length ++ (p.body ++ src.drop n) := by
    have e : src.drop 1 = (Wire.encode p ++ src.drop n).drop 1 := by rw [← hsrc]
    rw [e]
    unfold Wire.encode
    simp
  rw [hdr_decode_count hd, hd1, uvarint_varint _ (by omega)]
  simp

end Mqtt.Proofs.Codec
