/-
Core E, helper lemmas: the fan-out loop without the hypothesis that every
subscribed connection is alive (a dead connection in the list is skipped; the
loop itself, run over an object with RETAIN = 1, would leave the flag cleared
from there on - `fanoutOuts` - but the live fan-out of `onPublish` clears the flag
before the loop, so every reachable subscriber is handed RETAIN = 0:
`fanoutOuts_cleared`, `onPublish_char_gen`).
-/
import Mqtt.Proofs.BrokerFanoutSub

set_option linter.unusedSimpArgs false

namespace Mqtt.Proofs.Broker
open Mqtt.Iface.Broker Mqtt.Model.Broker
open Mqtt.Model.Topics (MemTopics RMsg SNode RNode levels validQos Level)
open Mqtt.Proofs.Topics (entryLevels)
open Mqtt.Proofs.Topics (WF RWF abs absR good Entry)
open Mqtt.Spec.Match (split validName validFilter matchLevels)

/-- the outputs of the loop; `r` is the RETAIN flag the message object carries at this point -/
def fanoutOuts (b : B) (p : Pub) : Bool → List (Nat × Nat) → List Out
  | _, [] => []
  | r, (s, q) :: rest =>
    if s < cbBase then
      if b.alive s then .send s (.publish (fwdConn p q)) :: fanoutOuts b p r rest
      else fanoutOuts b p false rest
    else .call s { p with qos := q, retain := r } :: fanoutOuts b p r rest

theorem fanoutOuts_congr (b : B) (p : Pub) (q0 : Nat) (x : Bool) (subs : List (Nat × Nat)) :
    ∀ r, fanoutOuts b { p with qos := q0, retain := x } r subs = fanoutOuts b p r subs := by
  induction subs with
  | nil => intro r; rfl
  | cons sq rest ih =>
    intro r
    obtain ⟨s, q⟩ := sq
    simp only [fanoutOuts, ih]
    rfl

theorem deliverConn_dead (b : B) (d : Nat) (m : Msg) (hal : b.alive d = false) :
    deliverConn b d m = (b, { m with p := { m.p with retain := false } }, []) := by
  obtain ⟨⟨dup, qos, retain, topic, pktid, payload⟩, dirty⟩ := m
  unfold deliverConn
  simp only [hal, Bool.not_false, ↓reduceIte]
  cases retain <;> rfl

theorem fanout_char_gen (subs : List (Nat × Nat)) :
    ∀ (b : B) (m : Msg), m.p.topic ≠ [] → (m.p.pktid ≠ 0 ∨ ∀ sq ∈ subs, sq.2 = 0) →
      (fanout b m subs).1 = b ∧ (fanout b m subs).2.2 = fanoutOuts b m.p m.p.retain subs := by
  induction subs with
  | nil => intro b m _ _; exact ⟨rfl, rfl⟩
  | cons sq rest ih =>
    intro b m ht hid
    obtain ⟨s, eqos⟩ := sq
    have hid' : ∀ x : Bool, ({ (m.setQoS eqos) with p := { (m.setQoS eqos).p with retain := x } } : Msg).p.pktid ≠ 0 ∨
        ∀ sq ∈ rest, sq.2 = 0 := by
      intro x
      rcases hid with h | h
      · exact Or.inl h
      · exact Or.inr (fun sq hsq => h sq (List.mem_cons_of_mem _ hsq))
    unfold fanout
    by_cases hs : s < cbBase
    · cases hal : b.alive s with
      | true =>
        have hd := deliverConn_char b s (m.setQoS eqos) hal ht (by
          rcases hid with h | h
          · exact Or.inl h
          · exact Or.inr (h (s, eqos) (by simp)))
        simp only [hs, ↓reduceIte, hd]
        obtain ⟨h1, h3⟩ := ih b (m.setQoS eqos) ht (by
          rcases hid with h | h
          · exact Or.inl h
          · exact Or.inr (fun sq hsq => h sq (List.mem_cons_of_mem _ hsq)))
        refine ⟨h1, ?_⟩
        rw [h3]
        simp only [fanoutOuts, hs, hal, ↓reduceIte, setQoS_p, List.singleton_append]
        have := fanoutOuts_congr b m.p eqos m.p.retain rest m.p.retain
        rw [this]
        rfl
      | false =>
        simp only [hs, ↓reduceIte, deliverConn_dead b s _ hal]
        obtain ⟨h1, h3⟩ := ih b { (m.setQoS eqos) with p := { (m.setQoS eqos).p with retain := false } } ht (hid' false)
        refine ⟨h1, ?_⟩
        rw [h3]
        simp only [fanoutOuts, hs, hal, ↓reduceIte, List.nil_append, Bool.false_eq_true]
        exact fanoutOuts_congr b m.p eqos false rest false
    · simp only [hs, ↓reduceIte]
      obtain ⟨h1, h3⟩ := ih b (m.setQoS eqos) ht (by
        rcases hid with h | h
        · exact Or.inl h
        · exact Or.inr (fun sq hsq => h sq (List.mem_cons_of_mem _ hsq)))
      refine ⟨h1, ?_⟩
      rw [h3]
      simp only [fanoutOuts, hs, ↓reduceIte, setQoS_p, List.singleton_append]
      congr 1
      exact fanoutOuts_congr b m.p eqos m.p.retain rest m.p.retain

/-- is subscriber `s` reachable: an in-process callback, or a live connection -/
def reachable (b : B) (s : Nat) : Bool := decide (cbBase ≤ s) || b.alive s

/-- the loop over an object whose RETAIN flag is clear: one forward per reachable entry -/
theorem fanoutOuts_cleared (b : B) (p : Pub) (hp : p.retain = false) (subs : List (Nat × Nat)) :
    fanoutOuts b p false subs = (subs.filter (fun sq => reachable b sq.1)).map (fwd p) := by
  induction subs with
  | nil => rfl
  | cons sq rest ih =>
    obtain ⟨s, q⟩ := sq
    by_cases hs : s < cbBase
    · have hs' : ¬ cbBase ≤ s := by omega
      cases hal : b.alive s with
      | true =>
        simp only [fanoutOuts, hs, hal, ↓reduceIte, List.map_cons, ih, List.filter_cons, reachable, hs',
          decide_false, Bool.false_or]
        simp [fwd, hs]
      | false =>
        simp only [fanoutOuts, hs, hal, ↓reduceIte, ih, List.filter_cons, reachable, hs', decide_false,
          Bool.false_or, Bool.false_eq_true]
    · have hs' : cbBase ≤ s := by omega
      simp only [fanoutOuts, hs, ↓reduceIte, List.map_cons, ih, List.filter_cons, reachable, hs', decide_true,
        Bool.true_or]
      obtain ⟨dup, qos, retain, topic, pktid, payload⟩ := p
      simp only at hp
      subst hp
      simp [fwd, hs]

/-- (e) without the liveness hypothesis: exactly one forward per matching entry
of a reachable subscriber, RETAIN = 0 for connections and in-process callbacks alike -/
theorem onPublish_char_gen (b : B) (p : Pub) (hinv : Inv b)
    (hg : good p.topic = true) (hn : validName p.topic = true) (hq : p.qos ≤ 2)
    (hid : p.pktid ≠ 0 ∨ p.qos = 0) :
    (onPublish b ⟨p, false⟩).2.2.2 = true ∧
    (onPublish b ⟨p, false⟩).2.2.1.Perm
      (((abs b.topics.sroot).filter (fun e => matchLevels e.1 (split p.topic) && reachable b e.2.1)).map
        (fun e => fwd { p with retain := false } (e.2.1, min p.qos e.2.2))) := by
  obtain ⟨hm, hctr⟩ := retainStep_clean b ⟨p, false⟩ rfl
  obtain ⟨f1, f2, _, _, _⟩ := retainStep_frame b ⟨p, false⟩
  have ht : p.topic ≠ [] := by
    intro h0; rw [h0] at hn; exact absurd hn (by decide)
  have hwf1 : WF (retainStep b ⟨p, false⟩).1.topics.sroot := by rw [f1]; exact hinv.wf
  obtain ⟨subs, hsubs, hperm⟩ := subscribers_char (retainStep b ⟨p, false⟩).1.topics p.topic p.qos hwf1 hg hn hq
  rw [f1] at hperm
  have hmem : ∀ sq ∈ subs, ∃ e ∈ abs b.topics.sroot, sq = (e.2.1, min p.qos e.2.2) := by
    intro sq hsq
    have := hperm.mem_iff.mp hsq
    simp only [List.mem_map, List.mem_filter] at this
    obtain ⟨e, ⟨he, _⟩, rfl⟩ := this
    exact ⟨e, he, rfl⟩
  have hfan := fanout_char_gen subs (retainStep b ⟨p, false⟩).1 ⟨{ p with retain := false }, false⟩ ht
    (by
      rcases hid with h | h
      · exact Or.inl h
      · refine Or.inr (fun sq hsq => ?_)
        obtain ⟨e, _, rfl⟩ := hmem sq hsq
        simp only [h]; omega)
  unfold onPublish
  simp only
  rw [hm, hsubs]
  simp only
  obtain ⟨_, g3⟩ := hfan
  refine ⟨trivial, ?_⟩
  rw [fanoutLive_outs, loopMsg_eq, g3, fanoutOuts_cleared _ _ rfl]
  have hre : ∀ s, reachable (retainStep b ⟨p, false⟩).1 s = reachable b s := by
    intro s; simp only [reachable, alive_congr b _ f2]
  simp only [hre]
  have := (hperm.filter (fun sq => reachable b sq.1)).map (fun sq => fwd { p with retain := false } sq)
  refine this.trans ?_
  rw [List.filter_map, List.map_map, List.filter_filter]
  apply List.Perm.of_eq
  congr 1
  apply List.filter_congr
  intro e _
  simp [Function.comp, Bool.and_comm]

/-! ### vocabulary of the C01 / C07 statements -/

/-- what subscriber `s`, holding a matching subscription granted at QoS `g`,
is handed for the accepted PUBLISH `p`: same topic, same payload, QoS
`min(p.qos, g)`, RETAIN = 0; a connection gets the publisher's identifier
(none at QoS 0) on the wire, an in-process callback the message object with
its RETAIN flag cleared -/
def delivery (p : Pub) (s g : Nat) : Out :=
  if s < cbBase then
    .send s (.publish { dup := p.dup, qos := min p.qos g, retain := false, topic := p.topic,
                        pktid := if min p.qos g = 0 then 0 else p.pktid, payload := p.payload })
  else .call s { p with qos := min p.qos g, retain := false }

theorem delivery_eq (p : Pub) (s g : Nat) : delivery p s g = fwd { p with retain := false } (s, min p.qos g) := rfl

/-- the subscriber an output is addressed to -/
def target : Out → Option Nat
  | .send c _ => some c
  | .call cb _ => some cb
  | _ => none

theorem target_delivery (p : Pub) (s g : Nat) : target (delivery p s g) = some s := by
  unfold delivery; split <;> rfl

/-- the SUBSCRIBE / UNSUBSCRIBE steps leave the connection table as it is -/
theorem packet_subscribe_conns (b : B) (hinv : Inv b) (c id : Nat) (topics : List (Bytes × Nat))
    (hl : b.alive c = true) : (packet b c (.subscribe id topics)).1.conns = b.conns := by
  obtain ⟨cn, s, hc, ha, hs⟩ := hinv.live b c hl
  rw [packet_subscribe b c cn s id topics hc ha hs]
  simp only
  rw [(sendRetained_shape c _ _).1, setSess_conns]
  exact (subscribeLoop_conns c topics b s [] []).1

theorem packet_unsubscribe_conns (b : B) (hinv : Inv b) (c id : Nat) (topics : List Bytes)
    (hl : b.alive c = true) : (packet b c (.unsubscribe id topics)).1.conns = b.conns := by
  obtain ⟨cn, s, hc, ha, hs⟩ := hinv.live b c hl
  rw [packet_unsubscribe b c cn s id topics hc ha hs]
  rfl

/-! ### end of a connection -/

theorem onPublish_conns (b : B) (m : Msg) : (onPublish b m).1.conns = b.conns := by
  unfold onPublish
  simp only
  split
  · exact (retainStep_frame b m).2.1
  · exact (fanout_state _ _ _).2.1.trans (retainStep_frame b m).2.1

theorem alive_markDead (b : B) (c : Nat) :
    ({ b with conns := b.conns.map (fun (x : Conn) => if x.id == c then { x with alive := false } else x) } : B).alive c = false := by
  unfold B.alive B.getConn
  simp only
  induction b.conns with
  | nil => rfl
  | cons x rest ih =>
    simp only [List.map_cons, List.find?_cons]
    by_cases hx : (x.id == c) = true
    · simp [hx]
    · simp only [hx, Bool.false_eq_true, ↓reduceIte]
      exact ih

/-- after `stop` the connection is not alive -/
theorem stop_dead (b : B) (c : Nat) : (stop b c).1.alive c = false := by
  unfold stop
  split
  · rename_i hc; unfold B.alive; rw [hc]
  · rename_i cn hc
    split
    · rename_i ha
      unfold B.alive; rw [hc]; simpa using ha
    · have h0 := alive_markDead b c
      have hk : ∀ b' : B, b'.conns = b.conns.map (fun (x : Conn) => if x.id == c then { x with alive := false } else x) →
          b'.alive c = false := by
        intro b' hb'
        exact (alive_congr ({ b with conns := b.conns.map (fun (x : Conn) => if x.id == c then { x with alive := false } else x) } : B)
          b' hb' c).trans h0
      simp only
      split
      · exact h0
      · split
        · split
          · exact hk _ rfl
          · simp only
            split
            · exact hk _ (by simp only [storeDel_conns, setSess_conns, onPublish_conns])
            · exact hk _ (by simp only [setSess_conns, onPublish_conns])
        · simp only
          split
          · exact hk _ rfl
          · exact hk _ rfl

theorem unsubAll_eq_fold (c : Nat) (l : List (Bytes × Nat)) : ∀ ts : MemTopics,
    unsubAll ts c l = (l.map (·.1)).foldl (fun ts t => (ts.unsubscribe t (some c)).1) ts := by
  induction l with
  | nil => intro ts; rfl
  | cons tq rest ih => intro ts; obtain ⟨t, q⟩ := tq; simp only [unsubAll, List.map_cons, List.foldl_cons, ih]

/-- the subscription trie after `stop` of a live connection with session `s`:
the entries of `c` under the paths of the session's topics are gone -/
theorem stop_sroot (b : B) (hinv : Inv b) (c : Nat) (cn : Conn) (s : Sess)
    (hc : b.getConn c = some cn) (ha : cn.alive = true) (hs : b.getSess cn.sess = some s) :
    (abs (stop b c).1.topics.sroot).Perm (entriesAfterUnsub c (s.topics.map (·.1)) (abs b.topics.sroot)) := by
  have hfold := unsubFold_abs c (s.topics.map (·.1)) b.topics hinv.wf
  rw [← unsubAll_eq_fold] at hfold
  unfold stop
  have hs' : ({ b with conns := b.conns.map (fun (x : Conn) => if x.id == c then { x with alive := false } else x) } : B).getSess cn.sess = some s := hs
  simp only [hc, ha, Bool.not_true, Bool.false_eq_true, ↓reduceIte, hs']
  split
  · split
    · exact hfold
    · simp only
      split
      · simp only [storeDel_topics, setSess_topics, onPublish_topics, (retainStep_frame _ _).1]; exact hfold
      · simp only [setSess_topics, onPublish_topics, (retainStep_frame _ _).1]; exact hfold
  · simp only
    split
    · exact hfold
    · exact hfold

end Mqtt.Proofs.Broker
