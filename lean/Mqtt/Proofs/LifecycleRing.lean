/-
Core F on Core D — the ring contract of the life-cycle model, as statements about the ring program.

`Model/Lifecycle.lean` drives its two rings through five functions of `RingA`:

| life-cycle step (Model/Lifecycle.lean)                                        | `RingA` function | ring call (service/buffer.go)            | contract below |
|---|---|---|---|
| `rstep .space` (receiver), `pstep .ownWait` (processor), `wstep .wait` (writer) | `waitSpace c n`  | `waitForWriteSpace(1)` of `ReadFrom`, `WriteWait(l)` | `ReadFromContract`, `ProducerContract` |
| `rstep .commit n`, `pstep .ownCommit`, `wstep .commit`                          | `commitP c n`    | `WriteCommit(n)` (of `ReadFrom`), `WriteCommit(l)` / `Write` | `ReadFromContract`, `ProducerContract` |
| `pstep .size`, `pstep .msg`; `sstep .peek` (inline: `0 < buf`)                  | `waitData c n`   | `ReadWait(n)`; `ReadPeek(wblock)`         | `ConsumerContract` (A) |
| `pstep .commit`, `sstep .commit m`                                              | `commitC c n`    | `ReadCommit(n)`                           | `ConsumerContract` (B) |
| `rstep .close`, `sstep .close`, `execStop .inClose / .outClose`, `estep .preClose` | `close c`     | `Close()` (deferred in `ReadFrom`/`WriteTo`, in `stop()`, in `Server.Close`) | `CloseContract`, `ReadFromContract` (4) |
| a step that is not enabled because the function answers `none`                  |                  | the call is parked in `Cond.Wait`         | `QuiescentContract` + parts (2) |

Each `…Contract cfg s` is the conclusion of the theorem of `Properties/C15.lean` named in its comment, for the state `s`;
`ring_contract` proves them for every reachable state of the ring program by citing those theorems.
`Properties/C16.lean` restates it as `C16_ring_contract_is_C15`.  The ring program has ONE producer thread; that the
outgoing ring of a connection sees one producer at a time is `out_ring_one_producer` (from the life-cycle model's own
`wmu` invariant; in the finer model of `writeMessage`: `Properties/C17.lean`, `C17_wrap_critical_section`).
-/
import Mqtt.Properties.C15
import Mqtt.Proofs.LifecycleProgress

set_option linter.unusedSimpArgs false
set_option linter.unusedVariables false

namespace Mqtt.Proofs.LifecycleRing
open Mqtt.Model.Ring Mqtt.Iface.Ring Mqtt.Spec.Ring Mqtt.Proofs.Ring
open Mqtt.Model.Lifecycle (RingA Ret)

/-- `C15_step_refines_ringA`: every step of the ring program is `RingA.commitP` (producer only), `RingA.commitC`
(consumer only), `RingA.close`, or does not change `absRing` -/
def StepContract (cfg : Cfg) (s : St) : Prop :=
  ∀ (t : Tid) (th : Th) (s' : St), s.getTh t = some th → step cfg s t = some s' →
    match visOf th.pc with
    | .tau => absRing s' = absRing s
    | .prod n => t = .p ∧ (absRing s).buf + n ≤ (ringCfg cfg).cap ∧
        absRing s' = { absRing s with buf := (absRing s).buf + n } ∧
        RingA.commitP (ringCfg cfg) (asOpen (absRing s)) n = some (.ok, asOpen (absRing s'))
    | .cons n => t = .c ∧ n ≤ (absRing s).buf ∧ RingA.commitC (ringCfg cfg) (absRing s) n = some (absRing s')
    | .close => RingA.close (ringCfg cfg) (absRing s) = some (absRing s')

/-- `C15_call_refines_ringA_producer`: `WriteWait(l)` = `RingA.waitSpace`, `WriteCommit(l)` / `Write(l)` = `RingA.commitP`
(`pstep .ownWait / .ownCommit`, `wstep .wait / .commit`) -/
def ProducerContract (cfg : Cfg) (s : St) : Prop :=
  ∀ (call : Call) (rest : List Call), ((∃ n, call = .write n) ∨ (∃ n, call = .wwait n) ∨ ∃ m, call = .wcommit m) →
  ∀ sched : List Tid, s.P.pc = .idle → s.P.prog = call :: rest →
    let l := amount call s.P
    let c := ringCfg cfg
    let a := run cfg s sched
    (∀ r, pRet a rest r →
      (r.err = .ok ∨ r.err = .eof ∨ r.err = .full) ∧
      (r.err = .full → c.cap < l ∧ RingA.waitSpace c (absRing a) l = some (.full, absRing a) ∧ a.sh.pseq = s.sh.pseq) ∧
      (r.err = .eof → a.sh.done = true ∧ a.sh.pseq = s.sh.pseq ∧
        (l ≤ c.cap → RingA.waitSpace c (absRing a) l = some (.eof, absRing a))) ∧
      (r.err = .ok → s.sh.done = false ∧
        (∃ pre post, sched = pre ++ .p :: post ∧
          step cfg (run cfg s pre) .p = some (run cfg s (pre ++ [.p])) ∧
          RingA.waitSpace c (absRing (run cfg s pre)) l = some (.ok, absRing (run cfg s pre)) ∧
          absRing (run cfg s (pre ++ [.p])) = absRing (run cfg s pre) ∧
          (commits call = true → ∃ mid post', post = mid ++ .p :: post' ∧
            step cfg (run cfg s (pre ++ .p :: mid)) .p = some (run cfg s (pre ++ .p :: mid ++ [.p])) ∧
            (absRing (run cfg s (pre ++ .p :: mid))).buf + l ≤ c.cap ∧
            absRing (run cfg s (pre ++ .p :: mid ++ [.p])) =
              { absRing (run cfg s (pre ++ .p :: mid)) with buf := (absRing (run cfg s (pre ++ .p :: mid))).buf + l } ∧
            ((run cfg s (pre ++ .p :: mid)).sh.done = false →
              RingA.commitP c (absRing (run cfg s (pre ++ .p :: mid))) l =
                some (.ok, absRing (run cfg s (pre ++ .p :: mid ++ [.p])))))) ∧
        (commits call = true → r.n = l ∧ a.sh.pseq = s.sh.pseq + l) ∧
        (commits call = false → a.sh.pseq = s.sh.pseq ∧
          RingA.waitSpace c (asOpen (absRing a)) l = some (.ok, asOpen (absRing a))))) ∧
    (∀ pre post r, sched = pre ++ post → (run cfg s pre).sh.done = true → notPastFinal call rest (run cfg s pre) →
      pRet a rest r → r.err ≠ .ok) ∧
    ((∀ t, step cfg a t = none) →
      (¬ pOver rest a ↔
        (pParked a.P.pc = true ∧ a.P.cur = some call ∧ a.P.prog = rest ∧ RingA.waitSpace c (absRing a) l = none)))

/-- `C15_call_refines_ringA_consumer`: `ReadWait(n)` / `ReadPeek(n)` = `RingA.waitData` (`pstep .size / .msg`, `sstep .peek`),
`ReadCommit(n)` = `RingA.commitC` (`pstep .commit`, `sstep .commit`) -/
def ConsumerContract (cfg : Cfg) (s : St) : Prop :=
  ∀ (rest : List Call) (sched : List Tid),
    let c := ringCfg cfg
    let a := run cfg s sched
    s.C.pc = .idle →
    (∀ w n, s.C.prog = waitCall w n :: rest →
      (∀ r, cRet a rest r →
        a.sh.cseq = s.sh.cseq ∧ (r.err = .full ↔ c.cap < n) ∧
        (r.err = .full → RingA.waitData c (absRing a) n = some (.full, absRing a)) ∧
        (r.err = .eof → a.sh.done = true ∧
          ∃ pre post, sched = pre ++ .c :: post ∧
            step cfg (run cfg s pre) .c = some (run cfg s (pre ++ [.c])) ∧
            RingA.waitData c (absRing (run cfg s pre)) (need w n) = some (.eof, absRing (run cfg s pre)) ∧
            absRing (run cfg s (pre ++ [.c])) = absRing (run cfg s pre)) ∧
        (r.err ≠ .eof → r.err ≠ .full → waitRes w n r ∧ r.n ≤ (absRing a).buf ∧
          (w = true → RingA.waitData c (absRing a) n = some (.ok, absRing a)))) ∧
      ((∀ t, step cfg a t = none) →
        (¬ cOver rest a ↔
          (cParked a.C.pc = true ∧ a.C.cur = some (waitCall w n) ∧ a.C.prog = rest ∧
            RingA.waitData c (absRing a) (need w n) = none)))) ∧
    (∀ m, s.C.prog = .commit m :: rest →
      (∀ r, cRet a rest r →
        (r.err = .full ↔ c.cap < min m s.C.pending.length) ∧ (r.err = .full → a.sh.cseq = s.sh.cseq) ∧
        (r.err ≠ .full → r.err = .ok ∧ r.n = min m s.C.pending.length ∧
          a.sh.cseq = s.sh.cseq + min m s.C.pending.length ∧
          ∃ pre post, sched = pre ++ .c :: post ∧
            step cfg (run cfg s pre) .c = some (run cfg s (pre ++ [.c])) ∧
            min m s.C.pending.length ≤ (absRing (run cfg s pre)).buf ∧
            RingA.commitC c (absRing (run cfg s pre)) (min m s.C.pending.length) = some (absRing (run cfg s (pre ++ [.c]))))) ∧
      ((∀ t, step cfg a t = none) → cOver rest a))

/-- `C15_call_refines_ringA_close`: `Close()` = `RingA.close` (`rstep .close`, `sstep .close`, `execStop .inClose / .outClose`,
`estep .preClose`); with `done` set nothing stays parked -/
def CloseContract (cfg : Cfg) (s : St) : Prop :=
  ∀ (t : Tid) (th : Th) (rest : List Call) (sched : List Tid),
    let c := ringCfg cfg
    let a := run cfg s sched
    s.getTh t = some th → th.pc = .idle → th.prog = .close :: rest →
    (∀ r, tRet a t rest r →
      r.err = .ok ∧ a.sh.done = true ∧
      ∃ pre post, sched = pre ++ t :: post ∧
        step cfg (run cfg s pre) t = some (run cfg s (pre ++ [t])) ∧
        RingA.close c (absRing (run cfg s pre)) = some (absRing (run cfg s (pre ++ [t])))) ∧
    ((∀ u, step cfg a u = none) →
      (∀ u thu, a.getTh u = some thu → closeRank thu.pc = 0) ∧
      (a.sh.done = true → ∀ u thu, a.getTh u = some thu → thu.pc = .idle ∧ thu.prog = []))

/-- `C15_readfrom_refines_ringA`: one iteration of `ReadFrom` = `rstep .space`, `.read`, `.commit n`; its exit = `rstep .close` -/
def ReadFromContract (cfg : Cfg) (s : St) : Prop :=
  let c := ringCfg cfg
  (∀ tot ms ppos, s.P.pc = .g112 tot ms ppos → (absRing s).buf + 1 ≤ c.cap) ∧
  (∀ tot ms start len, s.P.pc = .g111 tot ms start len → len ≤ c.cap - (absRing s).buf) ∧
  (∀ tot ms n, s.P.pc = .g111r tot ms n → (absRing s).buf + n ≤ c.cap) ∧
  (∀ tot ms n, s.P.cur = some (.rfcommit tot ms) → (wfsArg s.P.pc = some n ∨ ∃ ppos, s.P.pc = .c50 n ppos) →
    (absRing s).buf + n ≤ c.cap) ∧
  (∀ n e s', s.P.pc = .x16 → s.P.cur = some (.rfret n e) → step cfg s .p = some s' →
    s'.P.pc = .idle ∧ s'.P.res = some { n := n, err := e } ∧ s'.sh.done = true) ∧
  ((∀ t, step cfg s t = none) → ¬ (s.P.pc = .idle ∧ s.P.prog = []) → ∀ tot ms, s.P.cur = some (.rfrom tot ms) →
    pParked s.P.pc = true ∧ RingA.waitSpace c (absRing s) 1 = none)

/-- `C15_parked_iff_guard_false`: a state in which nothing can run, thread by thread -/
def QuiescentContract (cfg : Cfg) (s : St) : Prop :=
  let c := ringCfg cfg
  (∀ t, step cfg s t = none) →
  (¬ (s.P.pc = .idle ∧ s.P.prog = []) ↔
    ∃ n ppos, s.P.pc = .s36w n ppos ∧ s.sh.done = false ∧ c.cap < (absRing s).buf + n ∧
      (n ≤ c.cap → RingA.waitSpace c (absRing s) n = none)) ∧
  (¬ (s.C.pc = .idle ∧ s.C.prog = []) ↔
    (∃ w n cpos, s.C.pc = .p86w w n cpos ∧ s.sh.done = false ∧ (absRing s).buf < need w n ∧
      (n ≤ c.cap → RingA.waitData c (absRing s) (need w n) = none)) ∨
    (∃ n cpos, s.C.pc = .r77w n cpos ∧ s.sh.done = false ∧ (absRing s).buf = 0)) ∧
  (∀ (i : Nat) (th : Th), s.K[i]? = some th → th.pc = .idle ∧ th.prog = [])

/-- the whole contract for one state of the ring program -/
structure RingContract (cfg : Cfg) (s : St) : Prop where
  step : StepContract cfg s
  producer : ProducerContract cfg s
  consumer : ConsumerContract cfg s
  close : CloseContract cfg s
  readfrom : ReadFromContract cfg s
  quiescent : QuiescentContract cfg s

/-- **the life-cycle model's ring contract holds of the ring program**: in every reachable state, for every ring size,
stream, thread programs (one producer, one consumer, closers) and schedule — by the theorems of `Properties/C15.lean` -/
theorem ring_contract (cfg : Cfg) (adv gate : Nat) (progP progC : List Call) (progsK : List (List Call))
    (hgate : gate ≤ adv) (hok : ProgsOK progP progC progsK) (sched0 : List Tid) :
    RingContract cfg (Mqtt.Properties.C15.reach cfg adv gate progP progC progsK sched0) := by
  refine ⟨?_, ?_, ?_, ?_, ?_, ?_⟩
  · intro t th s'
    exact Mqtt.Properties.C15.C15_step_refines_ringA cfg adv gate progP progC progsK hgate hok sched0 t th s'
  · intro call rest hk sched
    exact Mqtt.Properties.C15.C15_call_refines_ringA_producer cfg adv gate progP progC progsK hgate hok sched0 call rest hk sched
  · intro rest sched
    exact Mqtt.Properties.C15.C15_call_refines_ringA_consumer cfg adv gate progP progC progsK hgate hok sched0 rest sched
  · intro t th rest sched
    exact Mqtt.Properties.C15.C15_call_refines_ringA_close cfg adv gate progP progC progsK hgate hok sched0 t th rest sched
  · exact Mqtt.Properties.C15.C15_readfrom_refines_ringA cfg adv gate progP progC progsK hgate hok sched0
  · exact Mqtt.Properties.C15.C15_parked_iff_guard_false cfg adv gate progP progC progsK hgate hok sched0

end Mqtt.Proofs.LifecycleRing


/-! ## the life-cycle side: which step uses which ring function, and who produces into the outgoing ring -/

namespace Mqtt.Proofs.Lifecycle
open Mqtt.Model.Lifecycle

/-- the ring functions look at the configuration only through `cap` and the OLD-ring switch `d2`: the contract proved for
`ringCfg cfg` (`cap = size`, `d2 = false`) is the contract of every well-formed life-cycle configuration with that capacity -/
theorem ringA_cfg_irrel (c c' : Cfg) (hcap : c.cap = c'.cap) (hd2 : c.d2 = c'.d2) (r : RingA) (n : Nat) :
    r.waitSpace c n = r.waitSpace c' n ∧ r.commitP c n = r.commitP c' n ∧ r.waitData c n = r.waitData c' n ∧
    r.commitC c n = r.commitC c' n ∧ r.close c = r.close c' := by
  simp only [RingA.waitSpace, RingA.commitP, RingA.waitData, RingA.commitC, RingA.close, hcap, hd2, and_self]

/-- **a life-cycle ring step is enabled exactly when its `RingA` function answers**: the receiver's `.space` and
`.commit n`, the processor's `.size`, `.msg`, `.ownWait`, `.ownCommit`, a writer's `.wait` and `.commit` are disabled iff
`waitSpace` / `commitP` / `waitData` answer `none` (the call is parked: `QuiescentContract`); the sender's `.peek` is disabled
iff the outgoing ring is open and empty, which is `waitData … 1 = none`; `Close` and `ReadCommit` steps are always enabled -/
theorem ring_steps_enabled (c : Cfg) (hw : WF c) (sh : Sh) (k : Nat) :
    (rstep c sh k .space = none ↔ sh.inR.waitSpace c 1 = none) ∧
    (∀ n, rstep c sh k (.commit n) = none ↔ sh.inR.commitP c n = none) ∧
    (rstep c sh k .close ≠ none) ∧
    (sstep c sh .peek = none ↔ sh.outR.waitData c 1 = none) ∧
    (∀ m, sstep c sh (.commit m) ≠ none) ∧ (sstep c sh .close ≠ none) ∧
    (pstep c sh .size = none ↔ sh.inR.waitData c (hdrNeed sh.stream) = none) ∧
    (∀ p tl, sh.stream = p :: tl → (pstep c sh .msg = none ↔ sh.inR.waitData c p.total = none)) ∧
    (∀ l rest, pstep c sh (.ownWait l rest) = none ↔ sh.outR.waitSpace c l = none) ∧
    (∀ l rest, pstep c sh (.ownCommit l rest) = none ↔ sh.outR.commitP c l = none) ∧
    (pstep c sh .commit ≠ none) ∧
    (∀ me l, sh.ringsNil = false → (wstep c sh me ⟨.wait, l⟩ = none ↔ sh.outR.waitSpace c l = none)) ∧
    (∀ me l, sh.ringsNil = false → (wstep c sh me ⟨.commit, l⟩ = none ↔ sh.outR.commitP c l = none)) ∧
    (∀ me, execStop c sh me .inClose ≠ none ∧ execStop c sh me .outClose ≠ none) := by
  refine ⟨?_, ?_, ?_, ?_, ?_, ?_, ?_, ?_, ?_, ?_, ?_, ?_, ?_, ?_⟩
  · simp only [rstep, spaceNeed_wf c hw]
    cases h : sh.inR.waitSpace c 1 with
    | none => simp
    | some q => obtain ⟨ret, r⟩ := q; cases ret <;> simp
  · intro n
    simp only [rstep]
    cases h : sh.inR.commitP c n with
    | none => simp
    | some q => obtain ⟨ret, r⟩ := q; cases ret <;> simp
  · simp [rstep, close_returns c hw.d2]
  · simp only [sstep]
    rw [waitData_none_iff]
    have := hw.room
    by_cases hd : sh.outR.done = true
    · simp [hd]
    · by_cases hb : 0 < sh.outR.buf
      · simp [hd, hb]; omega
      · simp [hd, hb]; simp at hd; omega
  · intro m; simp [sstep, commitC_returns c hw.d2]
  · simp [sstep, close_returns c hw.d2]
  · simp only [pstep]
    cases h : sh.inR.waitData c (hdrNeed sh.stream) with
    | none => simp
    | some q =>
      obtain ⟨ret, r⟩ := q
      cases ret <;> simp
      cases sh.stream with
      | nil => simp
      | cons p tl => by_cases h5 : 5 < p.hdr <;> simp [h5]
  · intro p tl hst
    simp only [pstep, hst]
    cases h : sh.inR.waitData c p.total with
    | none => simp
    | some q =>
      obtain ⟨ret, r⟩ := q
      cases ret <;> simp
      cases p.kind <;> simp
  · intro l rest
    simp only [pstep]
    cases h : sh.outR.waitSpace c l with
    | none => simp
    | some q => obtain ⟨ret, r⟩ := q; cases ret <;> simp
  · intro l rest
    simp only [pstep]
    cases h : sh.outR.commitP c l with
    | none => simp
    | some q => obtain ⟨ret, r⟩ := q; simp
  · simp only [pstep]
    cases sh.stream with
    | nil => simp
    | cons p tl => simp [commitC_returns c hw.d2]
  · intro me l hn
    simp only [wstep, hn, Bool.false_eq_true, ↓reduceIte]
    cases h : sh.outR.waitSpace c l with
    | none => simp
    | some q => obtain ⟨ret, r⟩ := q; cases ret <;> simp
  · intro me l hn
    simp only [wstep, hn, Bool.false_eq_true, ↓reduceIte]
    cases h : sh.outR.commitP c l with
    | none => simp
    | some q => obtain ⟨ret, r⟩ := q; simp
  · intro me; simp [execStop, close_returns c hw.d2]

/-- **the outgoing ring sees one producer at a time.**  The ring program of Core D has ONE producer thread; into a
connection's outgoing ring its processor and any number of other connections' processors produce — under `wmu`.  In every
state satisfying the life-cycle model's `wmu` invariant (`Inv.w`, every reachable state: `C16_invariant`) at most one thread
is inside a producer call of the outgoing ring (`WriteWait` … `WriteCommit` / `Write`), so their calls form ONE sequential
program — the `progP` of the contract.  The finer model of `writeMessage` (wrap branch, scratch buffer) proves the same
mutual exclusion for the code: `Properties/C17.lean`, `C17_wrap_critical_section`. -/
theorem out_ring_one_producer (s : St) (hi : InvW s) :
    (PPc.holdsWmu s.proc = true → ∀ (i : Nat) (w : WTh), s.ws[i]? = some w → WPc.holdsWmu w.pc = false) ∧
    (∀ (i j : Nat) (wi wj : WTh), s.ws[i]? = some wi → s.ws[j]? = some wj → WPc.holdsWmu wi.pc = true → WPc.holdsWmu wj.pc = true → i = j) := by
  constructor
  · intro hp i w hwi
    cases hh : WPc.holdsWmu w.pc with
    | false => rfl
    | true =>
      have h1 := hi.proc.mpr hp
      have h2 := (hi.w i).mpr ⟨w, hwi, hh⟩
      rw [h1] at h2; cases h2
  · intro i j wi wj hwi hwj hi' hj'
    have h1 := (hi.w i).mpr ⟨wi, hwi, hi'⟩
    have h2 := (hi.w j).mpr ⟨wj, hwj, hj'⟩
    rw [h1] at h2
    cases h2; rfl

end Mqtt.Proofs.Lifecycle
