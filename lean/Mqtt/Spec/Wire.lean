/-
Reference MQTT 3.1.1 wire format, written from the OASIS specification
(sections 1.5.3, 2.2, 2.3.1 and 3.1 – 3.14), not from the library.  Core-only,
executable, and independent of `Mqtt.Generated.Facts`.

* `Packet`          the fourteen control packets as field records
* `encode`          the wire encoding of a packet (`Encodes`: the same with any permitted remaining-length form)
* `wf` / `WF`       well-formedness (decidable)
* `decode`          reference decoder: `decode t bs = some (p, n)` iff the first `n`
                    bytes of `bs` are exactly `encode p` for a well-formed `p` of type `t`
                    (soundness holds by construction: the last step re-encodes and compares)

Interpretation choices (see NOTES-codec.md): strings are byte strings (UTF-8
validity and topic-filter syntax are not wire-format matters and are not
required); `WF` for CONNECT includes the broker's documented client-identifier
policy and the two supported protocol name/level pairs (DESIGN section 8, C04).
-/
namespace Mqtt.Spec.Wire

abbrev Bytes := List UInt8

structure Will where
  topic   : Bytes
  message : Bytes
  qos     : UInt8
  retain  : Bool
deriving DecidableEq, Repr

structure Connect where
  level     : UInt8
  clean     : Bool
  keepAlive : UInt16
  clientId  : Bytes
  will      : Option Will
  username  : Option Bytes
  password  : Option Bytes
deriving DecidableEq, Repr

inductive Packet where
  | connect (c : Connect)
  | connack (sessionPresent : Bool) (code : UInt8)
  | publish (dup : Bool) (qos : UInt8) (retain : Bool) (topic : Bytes) (id : UInt16) (payload : Bytes)
  | puback (id : UInt16)
  | pubrec (id : UInt16)
  | pubrel (id : UInt16)
  | pubcomp (id : UInt16)
  | subscribe (id : UInt16) (filters : List (Bytes × UInt8))
  | suback (id : UInt16) (codes : List UInt8)
  | unsubscribe (id : UInt16) (filters : List Bytes)
  | unsuback (id : UInt16)
  | pingreq
  | pingresp
  | disconnect
deriving DecidableEq, Repr

/-- control packet type, table 2.1 -/
def Packet.type : Packet → Nat
  | .connect _ => 1 | .connack _ _ => 2 | .publish .. => 3 | .puback _ => 4 | .pubrec _ => 5
  | .pubrel _ => 6 | .pubcomp _ => 7 | .subscribe .. => 8 | .suback .. => 9 | .unsubscribe .. => 10
  | .unsuback _ => 11 | .pingreq => 12 | .pingresp => 13 | .disconnect => 14

/-! ## Encoding -/

/-- remaining length, section 2.2.3 (table 2.4: one to four bytes) -/
def varint (n : Nat) : Bytes :=
  if n < 128 then [UInt8.ofNat n]
  else if n < 16384 then [UInt8.ofNat (n % 128 + 128), UInt8.ofNat (n / 128)]
  else if n < 2097152 then
    [UInt8.ofNat (n % 128 + 128), UInt8.ofNat (n / 128 % 128 + 128), UInt8.ofNat (n / 16384)]
  else
    [UInt8.ofNat (n % 128 + 128), UInt8.ofNat (n / 128 % 128 + 128), UInt8.ofNat (n / 16384 % 128 + 128),
     UInt8.ofNat (n / 2097152)]

/-- two-byte big-endian integer, section 1.5.2 -/
def u16 (v : UInt16) : Bytes := [UInt8.ofNat (v.toNat / 256), UInt8.ofNat (v.toNat % 256)]

/-- length-prefixed string / binary field, section 1.5.3 -/
def str (s : Bytes) : Bytes := UInt8.ofNat (s.length / 256) :: UInt8.ofNat (s.length % 256) :: s

def b2n (b : Bool) : Nat := if b then 1 else 0

def nameMQIsdp : Bytes := [0x4d, 0x51, 0x49, 0x73, 0x64, 0x70]
def nameMQTT : Bytes := [0x4d, 0x51, 0x54, 0x54]

/-- protocol name for a protocol level (3.1: "MQIsdp", 3.1.1: "MQTT") -/
def protoName (level : UInt8) : Bytes := if level = 3 then nameMQIsdp else nameMQTT

/-- connect flags byte, section 3.1.2.3 -/
def Connect.flags (c : Connect) : Nat :=
  b2n c.username.isSome * 128 + b2n c.password.isSome * 64 +
  (match c.will with
   | some w => b2n w.retain * 32 + w.qos.toNat * 8 + 4
   | none => 0) +
  b2n c.clean * 2

def optStr : Option Bytes → Bytes
  | some s => str s
  | none => []

/-- fixed-header flags, table 2.2 -/
def Packet.flags : Packet → Nat
  | .publish dup qos retain _ _ _ => b2n dup * 8 + qos.toNat * 2 + b2n retain
  | .pubrel _ | .subscribe .. | .unsubscribe .. => 2
  | _ => 0

/-- variable header and payload -/
def Packet.body : Packet → Bytes
  | .connect c =>
    str (protoName c.level) ++ [c.level, UInt8.ofNat c.flags] ++ u16 c.keepAlive ++ str c.clientId ++
    (match c.will with
     | some w => str w.topic ++ str w.message
     | none => []) ++
    optStr c.username ++ optStr c.password
  | .connack sp code => [UInt8.ofNat (b2n sp), code]
  | .publish _ qos _ topic id payload => str topic ++ (if qos = 0 then [] else u16 id) ++ payload
  | .puback id | .pubrec id | .pubrel id | .pubcomp id | .unsuback id => u16 id
  | .subscribe id fs => u16 id ++ fs.flatMap (fun f => str f.1 ++ [f.2])
  | .suback id codes => u16 id ++ codes
  | .unsubscribe id fs => u16 id ++ fs.flatMap str
  | .pingreq | .pingresp | .disconnect => []

/-- the bytes of a control packet: fixed header (type, flags, remaining length) and body -/
def encode (p : Packet) : Bytes :=
  UInt8.ofNat (p.type * 16 + p.flags) :: (varint p.body.length ++ p.body)

/-! ## Well-formedness -/

def maxRemaining : Nat := 268435455

def strOk (s : Bytes) : Bool := s.length ≤ 65535

def printable (b : UInt8) : Bool := 0x20 ≤ b && b ≤ 0x7e

/-- client identifier policy of this broker: at most 32 printable ASCII bytes;
empty only together with CleanSession = 1 -/
def clientIdOk (cid : Bytes) (clean : Bool) : Bool :=
  cid.length ≤ 32 && cid.all printable && (!cid.isEmpty || clean)

/-- a topic name (not a filter): at least one byte, no wildcard characters -/
def topicNameOk (t : Bytes) : Bool := !t.isEmpty && !t.contains 0x23 && !t.contains 0x2b

def returnCodeOk (c : UInt8) : Bool := c = 0 || c = 1 || c = 2 || c = 0x80

def wf : Packet → Bool
  | .connect c =>
    (c.level = 3 || c.level = 4) && clientIdOk c.clientId c.clean &&
    (match c.will with
     | some w => strOk w.topic && strOk w.message && decide (w.qos ≤ 2)
     | none => true) &&
    (match c.username with | some u => strOk u | none => true) &&
    (match c.password with | some p => strOk p && c.username.isSome | none => true)
  | .connack _ code => decide (code ≤ 5)
  | .publish _ qos _ topic id payload =>
    decide (qos ≤ 2) && strOk topic && topicNameOk topic && (if qos = 0 then id = 0 else id ≠ 0) &&
    decide (2 + topic.length + (if qos = 0 then 0 else 2) + payload.length ≤ maxRemaining)
  | .puback id | .pubrec id | .pubrel id | .pubcomp id | .unsuback id => id ≠ 0
  | .subscribe id fs =>
    id ≠ 0 && !fs.isEmpty && fs.all (fun f => strOk f.1 && decide (f.2 ≤ 2)) &&
    decide ((Packet.subscribe id fs).body.length ≤ maxRemaining)
  | .suback id codes => id ≠ 0 && codes.all returnCodeOk && decide (2 + codes.length ≤ maxRemaining)
  | .unsubscribe id fs =>
    id ≠ 0 && !fs.isEmpty && fs.all strOk && decide ((Packet.unsubscribe id fs).body.length ≤ maxRemaining)
  | .pingreq | .pingresp | .disconnect => true

/-- `p` is a well-formed MQTT 3.1.1 control packet -/
def WF (p : Packet) : Prop := wf p = true

instance (p : Packet) : Decidable (WF p) := inferInstanceAs (Decidable (wf p = true))

/-! ## Reference decoder -/

def getByte : Bytes → Option (UInt8 × Bytes)
  | b :: r => some (b, r)
  | [] => none

def getU16 : Bytes → Option (UInt16 × Bytes)
  | a :: b :: r => some (UInt16.ofNat (a.toNat * 256 + b.toNat), r)
  | _ => none

def takeN (n : Nat) (bs : Bytes) : Option (Bytes × Bytes) :=
  if n ≤ bs.length then some (bs.take n, bs.drop n) else none

def getStr (bs : Bytes) : Option (Bytes × Bytes) :=
  match getU16 bs with
  | some (n, r) => takeN n.toNat r
  | none => none

/-- remaining length, decoding algorithm of section 2.2.3 (at most four bytes) -/
def getVarint : Nat → Bytes → Option (Nat × Bytes)
  | 0, _ => none
  | _, [] => none
  | fuel + 1, b :: r =>
    if b.toNat < 128 then some (b.toNat, r)
    else match getVarint fuel r with
      | some (v, r') => some (b.toNat % 128 + 128 * v, r')
      | none => none

/-- the bytes of a packet with the remaining length written as `v` (`encode p = encodeV (varint |body|) p`) -/
def encodeV (v : Bytes) (p : Packet) : Bytes := UInt8.ofNat (p.type * 16 + p.flags) :: (v ++ p.body)

/-- `bs` is *an* MQTT 3.1.1 encoding of `p`: like `encode p`, with the remaining length written in any of the
one- to four-byte forms that the decoding algorithm of section 2.2.3 reads back as the length of the body
(the specification does not require the shortest form; `encode` produces it) -/
def Encodes (bs : Bytes) (p : Packet) : Prop :=
  ∃ v, getVarint 4 v = some (p.body.length, []) ∧ bs = encodeV v p

def getFilters : Nat → Bytes → Option (List (Bytes × UInt8))
  | _, [] => some []
  | 0, _ => none
  | fuel + 1, bs =>
    match getStr bs with
    | some (f, q :: r) =>
      (match getFilters fuel r with
       | some fs => some ((f, q) :: fs)
       | none => none)
    | _ => none

def getTopics : Nat → Bytes → Option (List Bytes)
  | _, [] => some []
  | 0, _ => none
  | fuel + 1, bs =>
    match getStr bs with
    | some (f, r) =>
      (match getTopics fuel r with
       | some fs => some (f :: fs)
       | none => none)
    | none => none

def bit (n k : Nat) : Bool := n / 2 ^ k % 2 = 1

def decodeConnect (body : Bytes) : Option Packet := do
  let (name, r) ← getStr body
  let (level, r) ← getByte r
  if name ≠ protoName level then none
  let (fl, r) ← getByte r
  let f := fl.toNat
  let (ka, r) ← getU16 r
  let (cid, r) ← getStr r
  let (will, r) ←
    if bit f 2 then do
      let (wt, r) ← getStr r
      let (wm, r) ← getStr r
      pure (some (Will.mk wt wm (UInt8.ofNat (f / 8 % 4)) (bit f 5)), r)
    else pure (none, r)
  let (un, r) ← if bit f 7 then (do let (u, r) ← getStr r; pure (some u, r)) else pure (none, r)
  let (pw, r) ← if bit f 6 then (do let (p, r) ← getStr r; pure (some p, r)) else pure (none, r)
  if r ≠ [] then none
  pure (.connect ⟨level, bit f 1, ka, cid, will, un, pw⟩)

def decodeBody (t flags : Nat) (body : Bytes) : Option Packet :=
  match t with
  | 1 => decodeConnect body
  | 2 => match body with
    | [a, c] => some (.connack (a = 1) c)
    | _ => none
  | 3 => do
    let (topic, r) ← getStr body
    let qos := flags / 2 % 4
    if qos = 0 then pure (.publish (bit flags 3) 0 (bit flags 0) topic 0 r)
    else do
      let (id, r) ← getU16 r
      pure (.publish (bit flags 3) (UInt8.ofNat qos) (bit flags 0) topic id r)
  | 4 => match getU16 body with | some (id, []) => some (.puback id) | _ => none
  | 5 => match getU16 body with | some (id, []) => some (.pubrec id) | _ => none
  | 6 => match getU16 body with | some (id, []) => some (.pubrel id) | _ => none
  | 7 => match getU16 body with | some (id, []) => some (.pubcomp id) | _ => none
  | 8 => do
    let (id, r) ← getU16 body
    let fs ← getFilters r.length r
    pure (.subscribe id fs)
  | 9 => do
    let (id, r) ← getU16 body
    pure (.suback id r)
  | 10 => do
    let (id, r) ← getU16 body
    let fs ← getTopics r.length r
    pure (.unsubscribe id fs)
  | 11 => match getU16 body with | some (id, []) => some (.unsuback id) | _ => none
  | 12 => if body = [] then some .pingreq else none
  | 13 => if body = [] then some .pingresp else none
  | 14 => if body = [] then some .disconnect else none
  | _ => none

/-- `decode t bs = some (p, n)`: the first `n` bytes of `bs` are the well-formed packet `p` of type `t` -/
def decode (t : Nat) (bs : Bytes) : Option (Packet × Nat) :=
  match bs with
  | [] => none
  | b0 :: r =>
    if b0.toNat / 16 ≠ t then none else
    match getVarint 4 r with
    | none => none
    | some (remlen, r2) =>
      match takeN remlen r2 with
      | none => none
      | some (body, _) =>
        match decodeBody t (b0.toNat % 16) body with
        | none => none
        | some p =>
          let n := bs.length - r2.length + remlen
          if wf p && encode p == bs.take n then some (p, n) else none

/-- soundness of the reference decoder, by construction -/
theorem decode_sound {t : Nat} {bs : Bytes} {p : Packet} {n : Nat} (h : decode t bs = some (p, n)) :
    WF p ∧ encode p = bs.take n := by
  unfold decode at h
  split at h
  · simp at h
  · split at h
    · simp at h
    · split at h
      · simp at h
      · split at h
        · simp at h
        · split at h
          · simp at h
          · simp only [] at h
            split at h
            · simp only [Option.some.injEq, Prod.mk.injEq] at h
              obtain ⟨rfl, rfl⟩ := h
              rename_i hc
              simp only [Bool.and_eq_true, beq_iff_eq] at hc
              exact ⟨hc.1, hc.2⟩
            · simp at h

end Mqtt.Spec.Wire
