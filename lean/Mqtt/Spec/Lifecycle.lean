/-
C16 — what the property demands of a connection-end scenario, written from the property text
(and C09's will clause), NOT from the code: whatever the buffer condition, the cause and the
order in which the involved connections end, the teardown completes (at the latest once no
still-open OTHER connection that has stopped reading holds up a delivery from the subject — the
harness ends that connection when it observes the hold-up), the will is published unless the end
was a DISCONNECT, bystanders stay alive, Server.Close returns, no goroutine of the library is left.
-/
namespace Mqtt.Spec.Lifecycle

/-- causes of connection end the scenarios know -/
def causes : List String := ["disconnect", "close", "protoerr", "oversize", "keepalive", "srvclose", "halfclose", "badfull"]
-- "badfull": an illegal packet of exactly the ring size - the connection is ended by the broker's processor while
-- the incoming ring is completely full (the receiver waits for room, no read pending)
-- "halfclose": the peer shuts down its sending direction only (TCP FIN) and neither reads nor closes.
-- The broker has read end-of-stream: the connection has ended, and the property demands the same
-- complete teardown as for a full close.

/-- buffer conditions the scenarios know (`chunked`: a packet that needs the last read block of the
ring arrives in pieces and is never completed; `chunkwhole`: it is completed and processed; `chunknear`: a
packet of exactly the ring size arrives up to its last byte) -/
def conds : List String := ["idle", "outfull", "infull", "selffull", "selfout", "cross", "chunked", "chunkwhole", "chunknear"]

/-- the expected outcome line; `-` marks what cannot be observed while Server.Close is stopping
the witness too -/
def expected (cause : String) : String :=
  if cause == "srvclose" then "torn=1 will=- witness-alive=- srvclose=1 goroutines-left=0"
  else if cause == "disconnect" then "torn=1 will=0 witness-alive=1 srvclose=1 goroutines-left=0"
  else "torn=1 will=1 witness-alive=1 srvclose=1 goroutines-left=0"

/-- held take-over scenarios (`life takeover <variant>`): a CONNECT with the client identifier of a connection
whose teardown is pending behind a third connection that does not read.  What the properties demand, whatever
the interleaving: the CONNECT is not answered before that teardown has finished (MQTT-3.1.4-2: the existing
client is disconnected FIRST; `early=0`), the teardown completes once the hold-up ends (`torn=1`), `Server.Close`
returns, no goroutine is left.  `held=1` is the scenario's premise.  Will, SessionPresent and the kept
subscription are the reference broker's (`Spec/Broker.lean`), computed by the driver on the scenario's events. -/
def takeoverVariants : List String := ["resume", "srvclose", "disc"]

def takeoverFixed : List String := ["held=1", "early=0"]

def takeoverEnd : List String := ["srvclose=1", "goroutines-left=0"]

end Mqtt.Spec.Lifecycle
