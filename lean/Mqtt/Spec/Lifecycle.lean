/-
C16 — what the property demands of a connection-end scenario, written from the property text
(and C09's will clause), NOT from the code: whatever the buffer condition, the cause and the
order in which the involved connections end, the teardown completes (at the latest once no
still-open OTHER connection that has stopped reading holds up a delivery from the subject — the
harness ends that connection when it observes the hold-up), the will is published unless the end
was a DISCONNECT, bystanders stay alive, Server.Close returns, no goroutine of the library is left.
-/
namespace Mqtt.Spec.Lifecycle

/-- causes of connection end the scenarios know -/
def causes : List String := ["disconnect", "close", "protoerr", "oversize", "keepalive", "srvclose"]

/-- buffer conditions the scenarios know (`chunked`: a packet that needs the last read block of the
ring arrives in pieces and is never completed; `chunkwhole`: it is completed and processed; `chunknear`: a
packet of exactly the ring size arrives up to its last byte) -/
def conds : List String := ["idle", "outfull", "infull", "selffull", "selfout", "cross", "chunked", "chunkwhole", "chunknear"]

/-- the expected outcome line; `-` marks what cannot be observed while Server.Close is stopping
the witness too -/
def expected (cause : String) : String :=
  if cause == "srvclose" then "torn=1 will=- witness-alive=- srvclose=1 goroutines-left=0"
  else if cause == "disconnect" then "torn=1 will=0 witness-alive=1 srvclose=1 goroutines-left=0"
  else "torn=1 will=1 witness-alive=1 srvclose=1 goroutines-left=0"

end Mqtt.Spec.Lifecycle
