/-
Reference broker, written from MQTT 3.1.1 and the texts of properties C01, C02,
C07–C11 — not from the code, and independent of `Generated.Facts`.

State: the subscriptions currently *held* (owner, filter, granted QoS), the
retained message per topic, persistent sessions by client identifier, and per
connection: its CONNECT parameters and the open inbound QoS 2 exchanges.

The output of a step describes what the property demands; where the property
leaves a choice (how many copies a client with several matching subscriptions
gets, which refusal applies when a CONNECT has several defects, packet
identifiers and DUP of forwarded messages) the output says so and the oracle
(lib/vcheck/props_broker.py) checks membership.

A client identifier has at most one live connection: a CONNECT that carries the
identifier of a live connection ends that connection first (`takeOver`,
[MQTT-3.1.4-2]).
-/
import Mqtt.Iface.Broker
import Mqtt.Spec.Match

namespace Mqtt.Spec.Broker
open Mqtt.Iface.Broker Mqtt.Spec.Match

def maxQos : Nat := 2
def cbBase : Nat := 1000

structure Held where
  owner  : Nat            -- connection (< cbBase) or in-process callback
  filter : Bytes
  qos    : Nat
deriving DecidableEq, Repr

structure Ret where
  topic : Bytes
  qos : Nat
  payload : Bytes
deriving DecidableEq, Repr

structure Conn where
  id : Nat
  cid : Bytes
  clean : Bool
  will : Option Will
  open2 : List (Nat × Bool × Pub)     -- inbound QoS 2 exchanges: id, PUBREL seen, first PUBLISH
deriving Repr

structure S where
  held   : List Held := []
  rets   : List Ret := []
  stored : List (Bytes × List (Bytes × Nat) × List (Nat × Bool × Pub)) := []
    -- persistent sessions: client id ↦ subscriptions (filter, granted) and open inbound QoS 2 exchanges
  conns  : List Conn := []
deriving Repr

/-- expected effects of one event -/
inductive SOut where
  | send (c : Nat) (p : Packet)                  -- exactly this packet
  | sendOrClose (c : Nat) (p : Packet)           -- this packet, or the connection is closed instead
  | deliver (owner : Nat) (copies : List Pub)    -- one entry per matching subscription of `owner`:
                                                 -- the owner receives a non-empty sub-multiset (ids / DUP free)
  | retained (owner : Nat) (msgs : List Pub)     -- exactly these, RETAIN = 1 (ids / DUP free)
  | closed (c : Nat)
  | refused (c : Nat) (codes : List (Option Nat)) -- closed, after a CONNACK with one of these codes (`none`: no CONNACK)
  | apiErr
  | unspecified                                   -- the properties say nothing about this event
deriving Repr

def printable (b : UInt8) : Bool := 0x20 ≤ b.toNat && b.toNat ≤ 0x7e

/-- the protocol name/level pairs of MQTT 3.1 and 3.1.1 -/
def knownVersion (name : Bytes) (v : Nat) : Bool :=
  (v == 4 && name == "MQTT".toUTF8.toList) || (v == 3 && name == "MQIsdp".toUTF8.toList)

/-- reasons to refuse a CONNECT, as CONNACK codes (`none`: malformed, close without CONNACK) -/
def refusals (c : Connect) (authOk : Bool) : List (Option Nat) :=
  (if !knownVersion c.protoName c.version then [some 1] else []) ++
  (if c.reserved || (match c.will with | some w => decide (w.qos > 2) | none => decide (c.willQosNoWill != 0) || c.willRetainNoWill)
    then [none] else []) ++
  (if (c.clientId.isEmpty && !c.clean) || !(c.clientId.all printable && c.clientId.length ≤ 32) then [some 2] else []) ++
  (if !authOk then [some 4] else [])

def matching (s : S) (topic : Bytes) : List Held := s.held.filter (fun h => topicMatches h.filter topic)

def owners (hs : List Held) : List Nat := (hs.map (·.owner)).eraseDups

/-- the fan-out a publish of (topic, payload, qos) demands -/
def fanout (s : S) (topic payload : Bytes) (qos : Nat) : List SOut :=
  let ms := matching s topic
  (owners ms).map (fun o =>
    .deliver o ((ms.filter (fun h => h.owner == o)).map (fun h =>
      { qos := min qos h.qos, retain := false, topic := topic, payload := payload })))

def retainStep (s : S) (p : Pub) : S :=
  if !p.retain then s
  else if p.payload.isEmpty then { s with rets := s.rets.filter (fun r => r.topic != p.topic) }
  else { s with rets := s.rets.filter (fun r => r.topic != p.topic) ++ [⟨p.topic, p.qos, p.payload⟩] }

/-- accepting an application message: retained store, then fan-out -/
def accept (s : S) (p : Pub) : S × List SOut :=
  let s1 := retainStep s p
  (s1, fanout s1 p.topic p.payload p.qos)

def getConn (s : S) (c : Nat) : Option Conn := s.conns.find? (fun x => x.id == c)
def setConn (s : S) (cn : Conn) : S :=
  { s with conns := s.conns.filter (fun (x : Conn) => x.id != cn.id) ++ [cn] }

def heldOf (s : S) (o : Nat) : List (Bytes × Nat) := (s.held.filter (fun h => h.owner == o)).map (fun h => (h.filter, h.qos))

/-- the connection ends: its subscriptions stop, a persistent session keeps
them, a clean one is discarded; the will is published unless `graceful`. -/
def endConn (s : S) (c : Nat) (graceful : Bool) : S × List SOut :=
  match getConn s c with
  | none => (s, [])
  | some cn =>
    let mine := heldOf s c
    let s1 : S := { s with held := s.held.filter (fun h => h.owner != c),
                           conns := s.conns.filter (fun (x : Conn) => x.id != c),
                           stored := if cn.clean then s.stored.filter (fun p => p.1 != cn.cid)
                                     else (cn.cid, mine, cn.open2) :: s.stored.filter (fun p => p.1 != cn.cid) }
    match cn.will, graceful with
    | some w, false =>
      let (s2, o) := accept s1 { qos := w.qos, retain := w.retain, topic := w.topic, payload := w.payload }
      (s2, .closed c :: o)
    | _, _ => (s1, [.closed c])

def retainedFor (s : S) (filter : Bytes) (granted : Nat) : List Pub :=
  (s.rets.filter (fun r => topicMatches filter r.topic)).map (fun r =>
    { qos := min r.qos granted, retain := true, topic := r.topic, payload := r.payload })

def subCode (f : Bytes) (q : Nat) : Nat := if validFilter f && q ≤ 2 then min q maxQos else 0x80

def addHeld (held : List Held) (o : Nat) (f : Bytes) (g : Nat) : List Held :=
  held.filter (fun h => !(h.owner == o && h.filter == f)) ++ [⟨o, f, g⟩]

/-- the first packet of connection `c`, once an existing connection of the same
client has been disconnected (`takeOver`) -/
def first (s : S) (c : Nat) (f : First) (authOk : Bool) : S × List SOut :=
  match f with
  | .garbage | .other _ => (s, [.refused c [none]])
  | .connect req =>
    let rs := refusals req authOk
    if !rs.isEmpty then (s, [.refused c rs]) else
    let cid := if req.clientId.isEmpty then ("\x00anon".toUTF8.toList ++ (toString c).toUTF8.toList) else req.clientId
    let clean := req.clean || req.clientId.isEmpty
    let prior := if clean then none else s.stored.lookup cid
    let s1 : S := { s with stored := if clean then s.stored.filter (fun p => p.1 != cid)
                                      else (cid, prior.getD ([], [])) :: s.stored.filter (fun p => p.1 != cid) }
    let s2 := setConn s1 ⟨c, cid, clean, req.will, (prior.getD ([], [])).2⟩
    let s3 : S := { s2 with held := (prior.getD ([], [])).1.foldl (fun h p => addHeld h c p.1 p.2) s2.held }
    (s3, [.send c (.connack prior.isSome 0)])

/-- [MQTT-3.1.4-2] "If the ClientId represents a Client already connected to the
Server then the Server MUST disconnect the existing Client": an acceptable
CONNECT that carries the client identifier of a live connection ends that
connection first - not gracefully, the existing client did not send DISCONNECT:
its will is published, its subscriptions stop, its session is kept or discarded
as for any other end of a connection.  (An empty identifier stands for a fresh
unique one and never meets an existing client.) -/
def takeOver (s : S) (f : First) (authOk : Bool) : S × List SOut :=
  match f with
  | .connect req =>
    if !(refusals req authOk).isEmpty || req.clientId.isEmpty then (s, []) else
    match s.conns.find? (fun x => x.cid == req.clientId) with
    | some old => endConn s old.id false
    | none => (s, [])
  | _ => (s, [])

/-- the first packet of connection `c` when nothing can be written to that connection any
more (the peer went away after sending): there is no CONNACK and the connection never exists -
it holds no subscription, receives nothing, leaves no will.  The CONNECT itself was received and
(unless refused) accepted: with CleanSession=1 the state stored for that client identifier is
discarded [MQTT-3.1.2-6], with CleanSession=0 it is kept exactly as it was (the empty state is
filed if there was none).  In particular a failed handshake never loses the subscriptions or
open QoS 2 exchanges of a persistent session. -/
def firstFail (s : S) (c : Nat) (f : First) (authOk : Bool) : S × List SOut :=
  match f with
  | .garbage | .other _ => (s, [.closed c])
  | .connect req =>
    if !(refusals req authOk).isEmpty then (s, [.closed c]) else
    let cid := if req.clientId.isEmpty then ("\x00anon".toUTF8.toList ++ (toString c).toUTF8.toList) else req.clientId
    let clean := req.clean || req.clientId.isEmpty
    let prior := if clean then none else s.stored.lookup cid
    ({ s with stored := if clean then s.stored.filter (fun p => p.1 != cid)
                        else (cid, prior.getD ([], [])) :: s.stored.filter (fun p => p.1 != cid) },
     [.closed c])

/-- a CONNECT whose answer cannot be written: the take-over of [MQTT-3.1.4-2] has happened -/
def connectFail (s : S) (c : Nat) (f : First) (authOk : Bool) : S × List SOut :=
  let (s0, o0) := takeOver s f authOk
  let (s1, o1) := firstFail s0 c f authOk
  (s1, o0 ++ o1)

def step1 (s : S) : Ev → S × List SOut
  | .first c f authOk =>
    let (s0, o0) := takeOver s f authOk
    let (s1, o1) := first s0 c f authOk
    (s1, o0 ++ o1)
  | .packet c p =>
    match getConn s c with
    | none => (s, [.unspecified])
    | some cn =>
      match p with
      | .publish pub =>
        if pub.qos == 0 then accept s pub
        else if pub.qos == 1 then
          let (s1, o) := accept s pub
          (s1, .send c (.puback pub.pktid) :: o)
        else
          let open2 := if cn.open2.any (fun e => e.1 == pub.pktid) then cn.open2 else cn.open2 ++ [(pub.pktid, false, pub)]
          (setConn s { cn with open2 := open2 }, [.send c (.pubrec pub.pktid)])
      | .pubrel id =>
        -- hand over, in order of opening, every exchange whose PUBREL has arrived and
        -- that is not behind a still-open earlier one
        let marked := cn.open2.map (fun e => if e.1 == id then (e.1, true, e.2.2) else e)
        let rel := marked.takeWhile (fun e => e.2.1)
        let rest := marked.dropWhile (fun e => e.2.1)
        let s1 := setConn s { cn with open2 := rest }
        let (s2, o) := rel.foldl (fun (acc : S × List SOut) e =>
          let (s', o') := accept acc.1 e.2.2
          (s', acc.2 ++ o')) (s1, [])
        (s2, o ++ [.send c (.pubcomp id)])
      | .pubrec id => (s, [.send c (.pubrel id)])
      | .puback _ | .pubcomp _ => (s, [])
      | .subscribe id topics =>
        let codes := topics.map (fun t => subCode t.1 t.2)
        let granted := (topics.zip codes).filter (fun p => p.2 != 0x80)
        let s1 : S := { s with held := granted.foldl (fun h p => addHeld h c p.1.1 p.2) s.held }
        (s1, .sendOrClose c (.suback id codes) ::
             granted.map (fun p => SOut.retained c (retainedFor s1 p.1.1 p.2)))
      | .unsubscribe id topics =>
        ({ s with held := s.held.filter (fun h => !(h.owner == c && topics.contains h.filter)) },
         [.send c (.unsuback id)])
      | .pingreq => (s, [.send c .pingresp])
      | .disconnect => endConn s c true
      | .pingresp | .suback _ _ | .unsuback _ | .connack _ _ | .connectAgain => (s, [.unspecified])
  | .close c => endConn s c false
  | .srvPub p =>
    let (s1, o) := accept s p
    (s1, o)
  | .srvSub cb f q =>
    if !validFilter f || q > 2 then (s, [.apiErr]) else
    let g := min q maxQos
    let s1 : S := { s with held := addHeld s.held cb f g }
    (s1, [.retained cb (retainedFor s1 f g)])
  | .srvUnsub cb f =>
    ({ s with held := s.held.filter (fun h => !(h.owner == cb && h.filter == f)) }, [.unspecified])

def step (s : S) (e : Ev) : S × List SOut := step1 s e

end Mqtt.Spec.Broker
