/-
Specification of the byte ring, written from the text of properties C14 and C15
— *not* from the code.  A ring carries one stream: the producer commits the
stream `src base, src (base+1), …` (`base` = stream position at which the
observation starts); whatever the consumer has obtained so far must be the
first bytes of exactly that stream.

Nothing here depends on `Mqtt.Generated.Facts` or on `Mqtt.Model.Ring`.
-/
import Mqtt.Iface.Ring

namespace Mqtt.Spec.Ring
open Mqtt.Iface.Ring

/-- the bytes of the stream at positions `base … base+k-1` -/
def segment (src : Nat → UInt8) (base k : Nat) : List UInt8 :=
  (List.range k).map (fun i => src (base + i))

/-- C14: the concatenation of everything the consumer obtained is a prefix of
the concatenation of everything the producer committed (`committed` = stream
position up to which the producer has committed): no loss, duplication,
reordering or corruption. -/
def Lossless (src : Nat → UInt8) (base committed : Nat) (obtained : List UInt8) : Prop :=
  base + obtained.length ≤ committed ∧ obtained = segment src base obtained.length

/-- C14 on one observation: a chunk of `data` handed to the consumer which claims to
start at stream position `off` is the stream at `off`, and lies below the producer's
commit position. -/
def chunkOk (src : Nat → UInt8) (off committed : Nat) (data : List UInt8) : Prop :=
  off + data.length ≤ committed ∧ data = segment src off data.length

/-- C14, cursor part: the consumer never passes the producer and the producer never
laps the consumer. -/
def cursorsOk (size pseq cseq : Nat) : Prop := cseq ≤ pseq ∧ pseq ≤ cseq + size

/-- C15 on a quiescent state (no thread can take a step): a thread that has not
finished its program may only be *legitimately* waiting — parked in a wait, with the
buffer open and its completion condition (`need` bytes of data resp. of space) not
met by what the other side has committed (`got`) but satisfiable at all (`need ≤ size`). -/
structure Waiting where
  parked : Bool
  need : Nat
  got : Nat

def quiescentOk (size : Nat) (done : Bool) (w : Waiting) : Bool :=
  w.parked && !done && decide (w.got < w.need) && decide (w.need ≤ size)

/-- C15 after `Close`: nobody is left waiting, no mutex is left locked, and later
calls return (end-of-stream, or bytes committed before the close). -/
def closedOk (unfinished : Nat) (pLocked cLocked : Bool) : Bool :=
  unfinished == 0 && !pLocked && !cLocked

/-- C15, "Close … makes every blocked or later call … return … with end-of-stream", consumer side (with the drain
reading of DESIGN §8: bytes committed before `Close` are still handed out): a consumer call may DECIDE for end-of-stream
only in a state in which the ring is closed and fewer bytes are buffered than the call waits for (`need`: the count
asked of `ReadWait`, one byte for `Read` / `ReadPeek`). -/
def eofOk (done : Bool) (need buffered : Nat) : Bool := done && decide (buffered < need)

/-- C15, the same sentence, producer side: a producer call that is BLOCKED (parked in its wait) when the ring is closed,
and every LATER producer call (the producer was between two calls when the ring was closed, or comes after), is doomed:
it must not return success.  `was` = doomed already; the flag never falls (a closed ring stays closed). -/
def doomed (was done parkedOrIdle : Bool) : Bool := was || (done && parkedOrIdle)

/-- …what a doomed producer call may return: anything but success -/
def doomedRetOk (isDoomed retOk : Bool) : Bool := !(isDoomed && retOk)

end Mqtt.Spec.Ring
