/-
Reference client, written from MQTT 3.1.1 and the texts of properties C12, C20
and C02 (client role) — not from the code, independent of `Generated.Facts`.

Completion order: the properties allow a completion to be deferred until the
terminal acknowledgements of all earlier requests of the same kind have
arrived; this specification fixes exactly that FIFO order (it is the latest the
property permits and what the library does).
-/
import Mqtt.Iface.Client
import Mqtt.Spec.Match

namespace Mqtt.Spec.Client
open Mqtt.Iface.Broker (Pub Packet Bytes)
open Mqtt.Iface.Client Mqtt.Spec.Match

structure Req where
  id : Nat
  done : Bool := false                      -- terminal acknowledgement seen
  tag : Nat := 0
  topics : List (Bytes × Nat) := []
  cb : Nat := 0
  codes : List Nat := []
  pub : Option Pub := none
deriving Repr

structure S where
  connected : Bool := false
  pubs1 : List Req := []                    -- QoS 1 publishes in flight
  pubs2 : List Req := []                    -- QoS 2 publishes in flight
  subs : List Req := []
  unsubs : List Req := []
  pings : List Nat := []                    -- tags of outstanding pings, oldest first
  held : List (Nat × Bytes × Nat) := []     -- (callback, filter, granted QoS)
  open2 : List Req := []                    -- inbound QoS 2 exchanges
deriving Repr

inductive SOut where
  | out (o : Out)
  | wroteAutoId (p : Packet)                -- packet written with a library-assigned (non-zero) identifier
  | deliverTo (cb : Nat) (topic payload : Bytes)   -- callback invoked once with this message (QoS/flags free)
  | completeAny (tag : Nat)                  -- completion fires; its error value is not specified
deriving Repr

def markDone (q : List Req) (id : Nat) (codes : List Nat := []) : List Req :=
  q.map (fun r => if r.id == id then { r with done := true, codes := codes } else r)
def release (q : List Req) : List Req × List Req := (q.dropWhile (·.done), q.takeWhile (·.done))
def enqueue (q : List Req) (r : Req) : List Req := if q.any (fun e => e.id == r.id) then q else q ++ [r]

def completes (rs : List Req) (err : Req → Bool) : List SOut :=
  rs.filterMap (fun r => if r.tag == 0 then none else some (.out (.complete r.tag (err r))))

/-- every request (callback) with at least one matching held filter gets the message exactly once -/
def dispatch (s : S) (p : Pub) : List SOut :=
  let cbs := ((s.held.filter (fun h => topicMatches h.2.1 p.topic)).map (·.1)).eraseDups
  cbs.map (fun cb => .deliverTo cb p.topic p.payload)

def subErr (r : Req) : Bool := r.topics.length != r.codes.length || r.codes.contains 0x80

def peer (s : S) (p : Packet) : S × List SOut :=
  match p with
  | .publish pub =>
    if pub.qos == 2 then ({ s with open2 := enqueue s.open2 { id := pub.pktid, pub := some pub } }, [.out (.wrote (.pubrec pub.pktid))])
    else if pub.qos == 1 then (s, .out (.wrote (.puback pub.pktid)) :: dispatch s pub)
    else (s, dispatch s pub)
  | .pubrel id =>
    let (rest, rel) := release (markDone s.open2 id)
    let s1 := { s with open2 := rest }
    (s1, rel.flatMap (fun r => match r.pub with | some pb => dispatch s1 pb | none => []) ++ [.out (.wrote (.pubcomp id))])
  | .puback id =>
    let (rest, rel) := release (markDone s.pubs1 id)
    ({ s with pubs1 := rest }, completes rel (fun _ => false))
  | .pubrec id => (s, [.out (.wrote (.pubrel id))])
  | .pubcomp id =>
    let (rest, rel) := release (markDone s.pubs2 id)
    ({ s with pubs2 := rest }, completes rel (fun _ => false))
  | .suback id codes =>
    let (rest, rel) := release (markDone s.subs id codes)
    let newHeld := rel.flatMap (fun r => if r.topics.length != r.codes.length then [] else
      (r.topics.zip r.codes).filterMap (fun tc => if tc.2 == 0x80 || !validFilter tc.1.1 then none else some (r.cb, tc.1.1, tc.2)))
    ({ s with subs := rest, held := s.held ++ newHeld }, completes rel subErr)
  | .unsuback id =>
    let (rest, rel) := release (markDone s.unsubs id)
    let gone := rel.flatMap (fun r => r.topics.map (·.1))
    ({ s with unsubs := rest, held := s.held.filter (fun h => !gone.contains h.2.1) },
     rel.filterMap (fun r => if r.tag == 0 then none else some (.completeAny r.tag)))
  | .pingreq => (s, [.out (.wrote .pingresp)])
  | .pingresp =>
    match s.pings with
    | t :: rest => ({ s with pings := rest }, if t == 0 then [] else [.out (.complete t false)])
    | [] => (s, [])
  | _ => (s, [])

def wrote (auto : Bool) (p : Packet) : SOut := if auto then .wroteAutoId p else .out (.wrote p)

/-! ### identifiers the library assigns

A request that comes without an identifier is given one by the library.  The
property fixes no value; it demands that the identifier is non-zero (MQTT-2.3.1-1),
fits the 16-bit field and differs from the identifiers of the requests in flight
on the connection (`idAllowed`).  The reference client therefore never computes
such an identifier: where a run has to go on after such a request (its
acknowledgement has to find it) the request is known by a *name* outside the
16-bit range (`autoName`), which no identifier on the wire can equal, and the
acknowledgement names the request, not a number. -/

/-- identifiers of the requests in flight (PUBLISH QoS 1/2, SUBSCRIBE, UNSUBSCRIBE share one space) -/
def inFlight (s : S) : List Nat := (s.pubs1 ++ s.pubs2 ++ s.subs ++ s.unsubs).map (·.id)

/-- what is demanded of an identifier the library assigns in state `s` -/
def idAllowed (s : S) (id : Nat) : Bool := id != 0 && id < 65536 && !(inFlight s).contains id

/-- the name of the `n`-th request of a run whose identifier the library assigns -/
def autoName (n : Nat) : Nat := 65536 + n

def apiWrite (s : S) : Api → List SOut
  | .publish p _ => if p.qos == 0 then [.out (.wrote (.publish { p with pktid := 0 }))] else [wrote (p.pktid == 0) (.publish p)]
  | .subscribe id topics _ _ => [wrote (id == 0) (.subscribe id topics)]
  | .unsubscribe id topics _ => [wrote (id == 0) (.unsubscribe id topics.eraseDups)]
  | .ping _ => [.out (.wrote .pingreq)]

/-- registration; requests whose identifier the library assigns cannot be
tracked by identifier here, so they are generated with explicit identifiers. -/
def apiRegister (s : S) : Api → S × List SOut
  | .publish p tag =>
    if p.qos == 0 then (s, if tag == 0 then [] else [.out (.complete tag false)])
    else if p.qos == 1 then ({ s with pubs1 := enqueue s.pubs1 { id := p.pktid, tag := tag } }, [])
    else ({ s with pubs2 := enqueue s.pubs2 { id := p.pktid, tag := tag } }, [])
  | .subscribe id topics tag cb => ({ s with subs := enqueue s.subs { id := id, tag := tag, topics := topics, cb := cb } }, [])
  | .unsubscribe id topics tag => ({ s with unsubs := enqueue s.unsubs { id := id, tag := tag, topics := topics.map (fun t => (t, 0)) } }, [])
  | .ping tag => ({ s with pings := s.pings ++ [tag] }, [])

def step (s : S) : Ev → S × List SOut
  | .connect (.connack _ code) =>
    if code == 0 then ({ s with connected := true }, [.out .connected]) else (s, [.out (.refused code)])
  | .connect _ => (s, [.out .connectErr])
  | .api call =>
    if !s.connected then (s, [.out .apiErr]) else
    let (s1, o) := apiRegister s call
    (s1, apiWrite s call ++ o)
  | .peer p => if !s.connected then (s, []) else peer s p
  | .apiEarlyAck call ack =>
    -- the acknowledgement answers the request that was written: register first, then it counts
    if !s.connected then (s, [.out .apiErr]) else
    let (s1, o1) := apiRegister s call
    let (s2, o2) := peer s1 ack
    (s2, apiWrite s call ++ o1 ++ o2)

end Mqtt.Spec.Client
