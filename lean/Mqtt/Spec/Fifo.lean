/-
Specification of an acknowledgement queue, written from the text of property
C13 and MQTT 3.1.1 §4.3/§4.4 — *not* from the code: a plain FIFO list of
in-flight requests keyed by packet identifier, plus a second FIFO list for the
(identifier-less) ping requests.  Nothing here depends on `Generated.Facts`:
packet type numbers and the set of exchange-ending acknowledgements are the
protocol's.
-/
import Mqtt.Iface.AckQ

namespace Mqtt.Spec.Fifo
open Mqtt.Iface.AckQ

/-! MQTT 3.1.1 control packet types (§2.2.1). -/
def PUBLISH : Nat := 3
def PUBACK : Nat := 4
def PUBREC : Nat := 5
def PUBREL : Nat := 6
def PUBCOMP : Nat := 7
def SUBSCRIBE : Nat := 8
def SUBACK : Nat := 9
def UNSUBSCRIBE : Nat := 10
def UNSUBACK : Nat := 11
def PINGREQ : Nat := 12
def PINGRESP : Nat := 13

/-- acknowledgements that carry a packet identifier -/
def isIdAck (t : Nat) : Bool :=
  t == PUBACK || t == PUBREC || t == PUBREL || t == PUBCOMP || t == SUBACK || t == UNSUBACK

/-- acknowledgements that end an exchange (§4.3: PUBACK ends QoS 1; PUBREL ends
the receiver's wait, PUBCOMP the sender's, for QoS 2; SUBACK, UNSUBACK).
PUBREC does not: it only ends the first half of a QoS 2 exchange. -/
def terminal (t : Nat) : Bool :=
  t == PUBACK || t == PUBREL || t == PUBCOMP || t == SUBACK || t == UNSUBACK

/-- An in-flight request. -/
structure Entry where
  mtype : Nat            -- packet type of the request
  state : Nat            -- type of the last acknowledgement seen (0 = none)
  id    : Nat            -- packet identifier
  req   : List UInt8     -- bytes of the request as registered
  ack   : List UInt8     -- bytes of the last acknowledgement seen
  tag   : Nat            -- completion callback identity
deriving DecidableEq, Repr

structure S where
  q     : List Entry
  pings : List Entry     -- ping requests in flight, oldest first
deriving Repr

def empty : S := ⟨[], []⟩

/-- register: appended at the back unless the identifier is already in flight. -/
def register (s : S) (e : Entry) : S :=
  if s.q.any (fun x => x.id == e.id) then s else { s with q := s.q ++ [e] }

/-- an acknowledgement `t` bearing identifier `id`: changes the entry with that
identifier and nothing else. -/
def ackId (s : S) (t id : Nat) (bytes : List UInt8) : S :=
  { s with q := s.q.map (fun e => if e.id == id then { e with state := t, ack := bytes } else e) }

/-- collect: the longest prefix of requests that reached a terminal
acknowledgement is handed back, in order. -/
def collect (s : S) : S × List Entry :=
  ({ s with q := s.q.dropWhile (fun e => terminal e.state) },
   s.q.takeWhile (fun e => terminal e.state))

/-- PINGREQ and PINGRESP carry no identifier and the peer answers ping requests
in the order it receives them (§4.6), so a PINGRESP belongs to the oldest ping
request that has none yet; with no such request it is ignored. -/
def answerPing (bytes : List UInt8) : List Entry → List Entry
  | [] => []
  | e :: rest =>
    if e.state == PINGRESP then e :: answerPing bytes rest
    else { e with state := PINGRESP, ack := bytes } :: rest

/-- the ping requests handed back by a collect: the answered ones at the front, in order -/
def collectPings (s : S) : S × List Entry :=
  ({ s with pings := s.pings.dropWhile (fun e => e.state == PINGRESP) },
   s.pings.takeWhile (fun e => e.state == PINGRESP))

inductive SOut where
  | ok (b : Bool)
  | released (l : List Entry)
deriving DecidableEq, Repr

def regOpt (s : S) (mtype id : Nat) (enc : Option (List UInt8)) (tag : Nat) : S :=
  match enc with
  | some b => register s ⟨mtype, 0, id, b, [], tag⟩
  | none => s            -- a request that cannot be serialised is not registered

/-- The FIFO semantics of each queue operation. -/
def step (s : S) : Op → S × SOut
  | .wait (.publish qos id enc) tag =>
      if qos == 0 then (s, .ok false) else (regOpt s PUBLISH id enc tag, .ok true)
  | .wait (.subscribe id enc) tag => (regOpt s SUBSCRIBE id enc tag, .ok true)
  | .wait (.unsubscribe id enc) tag => (regOpt s UNSUBSCRIBE id enc tag, .ok true)
  | .wait (.pingreq enc) tag => ({ s with pings := s.pings ++ [⟨PINGREQ, 0, 0, enc, [], tag⟩] }, .ok true)
  | .wait .other _ => (s, .ok false)
  | .ack t id bytes =>
      if isIdAck t then (ackId s t id bytes, .ok true)
      else if t == PINGRESP then
        ({ s with pings := answerPing bytes s.pings }, .ok true)
      else (s, .ok false)
  | .acked =>
      let (s1, pl) := collectPings s
      let (s2, l) := collect s1
      (s2, .released (pl ++ l))

def run (s : S) : List Op → S × List SOut
  | [] => (s, [])
  | op :: ops =>
    let (s1, o) := step s op
    let (s2, os) := run s1 ops
    (s2, o :: os)

end Mqtt.Spec.Fifo
