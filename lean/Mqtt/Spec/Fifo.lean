/-
Specification of an acknowledgement queue, written from the text of property
C13 and MQTT 3.1.1 §4.3 — *not* from the code: a plain FIFO list of in-flight
requests keyed by packet identifier, plus one slot for the (identifier-less)
ping request.

The only inputs taken from the code base are the two protocol tables
(`ackIdTypes`: which packet types are acknowledgements carrying an identifier;
`terminal`: which of them end an exchange), passed as parameters so that the
theorems state what they need of them.
-/
namespace Mqtt.Spec.Fifo

/-- An in-flight request. -/
structure Entry where
  mtype : Nat            -- packet type of the request
  state : Nat            -- type of the last acknowledgement seen (0 = none)
  id    : Nat            -- packet identifier
  req   : List UInt8     -- bytes of the request as registered
  ack   : List UInt8     -- bytes of the last acknowledgement seen
  tag   : Nat            -- completion callback identity
deriving DecidableEq, Repr

structure S where
  q    : List Entry
  ping : Option Entry
deriving Repr

def empty : S := ⟨[], none⟩

/-- register: appended at the back unless the identifier is already in flight. -/
def register (s : S) (e : Entry) : S :=
  if s.q.any (fun x => x.id == e.id) then s else { s with q := s.q ++ [e] }

/-- an acknowledgement `t` bearing identifier `id`: changes the entry with that
identifier and nothing else. -/
def ackId (s : S) (t id : Nat) (bytes : List UInt8) : S :=
  { s with q := s.q.map (fun e => if e.id == id then { e with state := t, ack := bytes } else e) }

/-- collect: the longest prefix of requests that reached a terminal
acknowledgement is handed back, in order. -/
def collect (terminal : Nat → Bool) (s : S) : S × List Entry :=
  ({ s with q := s.q.dropWhile (fun e => terminal e.state) },
   s.q.takeWhile (fun e => terminal e.state))

end Mqtt.Spec.Fifo
