/-
`Accepts so o`: the output list `o` of the code-shaped broker model lies in the
set of outcomes that the reference broker's output `so` describes.  This is the
Lean counterpart of the membership test `broker_oracle` / `match_group` /
`assign` of lib/vcheck/props_broker.py, stated on the output *values* of the two
`step` functions instead of on the lines `Driver/Broker.lean` prints from them.

Correspondence with the Python, item by item

* a line is split into one group per addressee (`c<n>[…]` connection,
  `cb<n>[…]` in-process callback) - here `modelGroup g` / `specGroup g`, the
  sublists addressed to `g`, in order; `cb…` ⇔ `cbBase ≤ g`.  As in
  `Driver.specItems` a `retained _ []` item is not part of a group, and `apiErr`
  / `unspecified` belong to no group.
* `spec == '*'` (some `unspecified` among the specification's outputs - what
  `Spec.Broker.step` emits for packets a client has no business
  sending and for the in-process `Unsubscribe`): everything is accepted.
* the `apierr` marker must be present on both sides or on neither.
* within a group (`match_group` ⇔ `MatchGroup`):
  - `send` / `closed`: literally that item next;
  - `sendOrClose c p` (`X|CLOSED`): `p` next, or the group ends with a close
    and nothing else;
  - `refused c codes` (`REFUSED{…}`): the rest of the group is a close (`none`
    among the codes) or a CONNACK with SessionPresent = 0 and one of the codes
    followed by a close;
  - a maximal run of `deliver` / `retained` items (the *pool*) is matched
    against the maximal run of PUBLISH items the addressee got at that point:
    for a connection every PUBLISH of the run must have a packet identifier
    exactly when its QoS is not 0 (`wild`'s `ok`; the identifier an in-process
    callback sees is printed as 0 and not compared); with DUP and identifier
    wildcarded the run is, as a multiset, the disjoint union of all copies of
    the `retained` items and, for every `deliver` item, of a *non-empty
    sub-multiset* of its copies (`assign`: "nothing may be left over").

Deliberately stronger than the Python (never weaker)

* literal items are compared as packets (`Out.send c p` with the same `p`), not
  as the strings `showPacket` prints (which drop e.g. the filters of a
  SUBSCRIBE); the Python's shortcut `spec == impl` (equal lines) is therefore
  not a separate case.
* the driver's `ownFilter` (on the line on which the event's own connection is
  closed, what else that connection was sent is not compared) is not applied:
  the whole group is compared.
* the Python leaves the outcome open when the *event* names a topic beginning
  with '$' (`sys_topic_event`) and drops copies on such topics on both sides
  (`_drop_sys`).  Neither is modelled: on lines without '$' topics - all lines
  of a history admitted by `okEv` (Proofs/BrokerRefineDefs.lean), which keeps
  '$' topics out of both states - the two coincide.
-/
import Mqtt.Spec.Broker

namespace Mqtt.Spec.Broker
open Mqtt.Iface.Broker

/-- the addressee of a model output -/
def outOwner : Out → Option Nat
  | .send c _ => some c
  | .closed c => some c
  | .call cb _ => some cb
  | .apiErr => none

/-- the addressee of a specification item -/
def SOut.owner : SOut → Option Nat
  | .send c _ => some c
  | .sendOrClose c _ => some c
  | .deliver o _ => some o
  | .retained o _ => some o
  | .closed c => some c
  | .refused c _ => some c
  | .apiErr => none
  | .unspecified => none

def isUnspecified : SOut → Bool
  | .unspecified => true
  | _ => false

def isApiErr : SOut → Bool
  | .apiErr => true
  | _ => false

/-- `DELIVER{…}` / `RETAINED{…}` -/
def isPoolItem : SOut → Bool
  | .deliver _ _ => true
  | .retained _ _ => true
  | _ => false

/-- `Driver.specItems` prints no item for an empty `retained` -/
def isEmptyRetained : SOut → Bool
  | .retained _ [] => true
  | _ => false

/-- the items of the model's output addressed to `g`, in order -/
def modelGroup (g : Nat) (o : List Out) : List Out := o.filter (fun x => outOwner x == some g)

/-- the items of the specification's output addressed to `g`, in order -/
def specGroup (g : Nat) (so : List SOut) : List SOut :=
  so.filter (fun x => x.owner == some g && !isEmptyRetained x)

/-- a `PUB …` item of a model group: the PUBLISH written to a connection, or the
message an in-process callback was invoked with (its identifier is printed as 0) -/
def pubOf : Out → Option Pub
  | .send _ (.publish w) => some w
  | .call _ p => some { p with pktid := 0 }
  | _ => none

/-- DUP and the packet identifier are not compared (`PUB * q r topic * payload`) -/
def wild (p : Pub) : Pub := { p with dup := false, pktid := 0 }

/-- `wild`'s second result: an identifier exactly when QoS > 0 -/
def idOk (w : Pub) : Bool := if w.qos == 0 then w.pktid == 0 else w.pktid != 0

/-- what one pool item takes out of the run: all copies of a `retained`, a
non-empty sub-multiset of the copies of a `deliver` -/
def ItemGot (x : SOut) (got : List Pub) : Prop :=
  match x with
  | .retained _ msgs => got.Perm (msgs.map wild)
  | .deliver _ copies => got ≠ [] ∧ ∃ rest, (got ++ rest).Perm (copies.map wild)
  | _ => False

inductive Gots : List SOut → List (List Pub) → Prop
  | nil : Gots [] []
  | cons {x : SOut} {got : List Pub} {xs : List SOut} {gots : List (List Pub)} :
      ItemGot x got → Gots xs gots → Gots (x :: xs) (got :: gots)

/-- the pool of `deliver` / `retained` items against the run of PUBLISHes
(`cb`: the addressee is an in-process callback) -/
def PoolMatch (cb : Bool) (pool : List SOut) (run : List Pub) : Prop :=
  (cb = false → ∀ w ∈ run, idOk w = true) ∧
  ∃ gots, Gots pool gots ∧ (run.map wild).Perm gots.flatten

/-- `match_group(impl, spec, is_cb)` -/
inductive MatchGroup (cb : Bool) : List SOut → List Out → Prop
  | nil : MatchGroup cb [] []
  | send (c : Nat) (p : Packet) {ss : List SOut} {os : List Out} :
      MatchGroup cb ss os → MatchGroup cb (.send c p :: ss) (.send c p :: os)
  | closed (c : Nat) {ss : List SOut} {os : List Out} :
      MatchGroup cb ss os → MatchGroup cb (.closed c :: ss) (.closed c :: os)
  | sendOrClose_sent (c : Nat) (p : Packet) {ss : List SOut} {os : List Out} :
      MatchGroup cb ss os → MatchGroup cb (.sendOrClose c p :: ss) (.send c p :: os)
  | sendOrClose_closed (c : Nat) (p : Packet) (ss : List SOut) :
      MatchGroup cb (.sendOrClose c p :: ss) [.closed c]
  | refused_plain (c : Nat) (codes : List (Option Nat)) (ss : List SOut) :
      none ∈ codes → MatchGroup cb (.refused c codes :: ss) [.closed c]
  | refused_code (c : Nat) (codes : List (Option Nat)) (k : Nat) (ss : List SOut) :
      some k ∈ codes → MatchGroup cb (.refused c codes :: ss) [.send c (.connack false k), .closed c]
  | pool (pool : List SOut) (run : List Out) {ss : List SOut} {os : List Out} :
      (∀ x ∈ pool, isPoolItem x = true) →
      (∀ x, ss.head? = some x → isPoolItem x = false) →      -- the pool is maximal
      (∀ y ∈ run, (pubOf y).isSome = true) →
      (∀ y, os.head? = some y → (pubOf y).isSome = false) →  -- the run is maximal
      PoolMatch cb pool (run.filterMap pubOf) →
      MatchGroup cb ss os → MatchGroup cb (pool ++ ss) (run ++ os)

/-- `broker_oracle(op, impl, spec)` on the outputs of the two `step` functions -/
def Accepts (so : List SOut) (o : List Out) : Prop :=
  so.any isUnspecified = true ∨
  (o.any (fun x => x == Out.apiErr) = so.any isApiErr ∧
   ∀ g, MatchGroup (decide (cbBase ≤ g)) (specGroup g so) (modelGroup g o))

end Mqtt.Spec.Broker
