/-
MQTT 3.1.1 section 4.7 — topic names, topic filters and matching — written
from the standard, not from the code.  Levels are separated by '/', and *every*
separator counts: "a//b" has three levels (the middle one empty), "/a" has two,
"a/" has two.
-/
namespace Mqtt.Spec.Match

abbrev Level := List UInt8

def SEP : UInt8 := 47   -- '/'
def HASH : UInt8 := 35  -- '#'
def PLUS : UInt8 := 43  -- '+'
def DOLLAR : UInt8 := 36

/-- split at every '/', keeping empty levels -/
def splitAux : List UInt8 → Level → List Level
  | [], cur => [cur.reverse]
  | c :: rest, cur => if c == SEP then cur.reverse :: splitAux rest [] else splitAux rest (c :: cur)

def split (s : List UInt8) : List Level := splitAux s []

/-- §4.7.1: '#' must be the last level and occupy it entirely; '+' must occupy
its level entirely; §4.7.3: at least one character. -/
def validFilterLevels : List Level → Bool
  | [] => true
  | [l] => l == [HASH] || l == [PLUS] || (!l.contains HASH && !l.contains PLUS)
  | l :: rest => (l == [PLUS] || (!l.contains HASH && !l.contains PLUS)) && validFilterLevels rest

def validFilter (s : List UInt8) : Bool := !s.isEmpty && validFilterLevels (split s)

/-- a topic name: non-empty, no wildcard characters -/
def validName (s : List UInt8) : Bool := !s.isEmpty && !s.contains HASH && !s.contains PLUS

/-- §4.7.1.2 / §4.7.1.3: '#' matches the parent level and any number of child
levels; '+' matches exactly one level (an empty one included); anything else
is compared literally. -/
def matchLevels : List Level → List Level → Bool
  | [], [] => true
  | [], _ :: _ => false
  | f :: fs, [] => f == [HASH] && fs.isEmpty          -- "sport/#" also matches "sport"
  | f :: fs, n :: ns =>
      if f == [HASH] then fs.isEmpty                  -- matches all remaining levels
      else (f == [PLUS] || f == n) && matchLevels fs ns

def topicMatches (filter name : List UInt8) : Bool := matchLevels (split filter) (split name)

/-- §4.7.2: topics beginning with '$' are outside the properties' quantifiers -/
def dollar (s : List UInt8) : Bool := s.head? == some DOLLAR

end Mqtt.Spec.Match
