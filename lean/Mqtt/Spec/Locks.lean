/-
Specification side of Core G (property C18): what a data race is, in the sense
of the Go memory model, on abstract traces of synchronisation events — written
from the property text and https://go.dev/ref/mem, *not* from the code, and not
depending on `Generated.Facts`.

A trace is a finite list of events, one per atomic step of some goroutine:

* `acq t m` / `rel t m`     `sync.Mutex.Lock/Unlock` and `sync.RWMutex.Lock/Unlock`
* `racq t m` / `rrel t m`   `sync.RWMutex.RLock/RUnlock`
* `rd t x` / `wr t x`       plain read / write of memory location `x`
* `ard t x` / `awr t x`     `sync/atomic` read / read-modify-write of `x`
* `fork t u`                `go` statement executed by `t` creating goroutine `u`
* `join t u`                `t` observes that goroutine `u` has ended
* `done t w` / `wait t w`   `sync.WaitGroup.Done` / return of `sync.WaitGroup.Wait`

Everything quantifies over all traces: any length, any number of goroutines,
mutexes and locations (all are natural numbers).
-/
namespace Mqtt.Spec.Locks

abbrev Tid := Nat
abbrev Mid := Nat
abbrev Loc := Nat
abbrev Wg := Nat

inductive Ev where
  | acq (t : Tid) (m : Mid)
  | rel (t : Tid) (m : Mid)
  | racq (t : Tid) (m : Mid)
  | rrel (t : Tid) (m : Mid)
  | rd (t : Tid) (x : Loc)
  | wr (t : Tid) (x : Loc)
  | ard (t : Tid) (x : Loc)
  | awr (t : Tid) (x : Loc)
  | fork (t u : Tid)
  | join (t u : Tid)
  | done (t : Tid) (w : Wg)
  | wait (t : Tid) (w : Wg)
deriving DecidableEq, Repr

/-- the goroutine that performs the event -/
def Ev.tid : Ev → Tid
  | .acq t _ | .rel t _ | .racq t _ | .rrel t _ | .rd t _ | .wr t _ | .ard t _ | .awr t _
  | .fork t _ | .join t _ | .done t _ | .wait t _ => t

/-- a memory access: who, where, write?, through `sync/atomic`? -/
structure Acc where
  t : Tid
  x : Loc
  write : Bool
  atomic : Bool
deriving DecidableEq, Repr

def Ev.acc : Ev → Option Acc
  | .rd t x => some ⟨t, x, false, false⟩
  | .wr t x => some ⟨t, x, true, false⟩
  | .ard t x => some ⟨t, x, false, true⟩
  | .awr t x => some ⟨t, x, true, true⟩
  | _ => none

/-! ## Mutex semantics -/

/-- who holds what: at most one exclusive holder per mutex, and a count of
shared holds per mutex and goroutine -/
structure LState where
  excl : Mid → Option Tid
  shr : Mid → Tid → Nat

def LState.init : LState := ⟨fun _ => none, fun _ _ => 0⟩

def step (S : LState) : Ev → LState
  | .acq t m => { S with excl := fun m' => if m' = m then some t else S.excl m' }
  | .rel _ m => { S with excl := fun m' => if m' = m then none else S.excl m' }
  | .racq t m => { S with shr := fun m' u => if m' = m ∧ u = t then S.shr m' u + 1 else S.shr m' u }
  | .rrel t m => { S with shr := fun m' u => if m' = m ∧ u = t then S.shr m' u - 1 else S.shr m' u }
  | _ => S

/-- lock state before the `k`-th event (after the first `k` events) -/
def stAt (τ : List Ev) : Nat → LState
  | 0 => LState.init
  | k + 1 => match τ[k]? with
    | some e => step (stAt τ k) e
    | none => stAt τ k

/-- the `k`-th event can happen in lock state `S`: an exclusive holder excludes
everyone, shared holders exclude exclusive ones, only a holder releases; a
forked goroutine has done nothing before its fork, a joined goroutine does
nothing after the join. -/
def enabled (τ : List Ev) (k : Nat) (S : LState) : Ev → Prop
  | .acq _ m => S.excl m = none ∧ ∀ u, S.shr m u = 0
  | .rel t m => S.excl m = some t
  | .racq _ m => S.excl m = none
  | .rrel t m => 0 < S.shr m t
  | .fork _ u => ∀ (i : Nat) (e : Ev), i < k → τ[i]? = some e → e.tid ≠ u
  | .join _ u => ∀ (i : Nat) (e : Ev), k < i → τ[i]? = some e → e.tid ≠ u
  | _ => True

/-- well-formed trace: every event is enabled where it occurs -/
def WF (τ : List Ev) : Prop :=
  ∀ (k : Nat) (e : Ev), τ[k]? = some e → enabled τ k (stAt τ k) e

/-! ## Happens-before -/

/-- `a` (earlier in the trace) is synchronised before `b` (later):
program order, unlock → later lock of the same mutex (an `RUnlock` only orders
a later exclusive `Lock`), `go` statement → everything the new goroutine does,
everything a goroutine did → the join that observes its end, `Done` → the
`Wait` it lets return. -/
def syncEdge (a b : Ev) : Prop :=
  a.tid = b.tid ∨
  (∃ t u m, a = .rel t m ∧ (b = .acq u m ∨ b = .racq u m)) ∨
  (∃ t u m, a = .rrel t m ∧ b = .acq u m) ∨
  (∃ t, a = .fork t b.tid) ∨
  (∃ t, b = .join t a.tid) ∨
  (∃ t u w, a = .done t w ∧ b = .wait u w)

def edge (τ : List Ev) (i j : Nat) : Prop :=
  i < j ∧ ∃ a b, τ[i]? = some a ∧ τ[j]? = some b ∧ syncEdge a b

/-- happens-before on positions of the trace: transitive closure of `edge` -/
inductive HB (τ : List Ev) : Nat → Nat → Prop
  | edge {i j} : edge τ i j → HB τ i j
  | trans {i j k} : HB τ i j → HB τ j k → HB τ i k

/-! ## Data race -/

/-- two accesses conflict: same location, different goroutines, at least one
writes, not both through `sync/atomic` -/
def conflict (a b : Acc) : Prop :=
  a.x = b.x ∧ a.t ≠ b.t ∧ (a.write = true ∨ b.write = true) ∧ ¬(a.atomic = true ∧ b.atomic = true)

/-- positions `i` and `j` race: conflicting accesses, neither happens before the other -/
def Race (τ : List Ev) (i j : Nat) : Prop :=
  ∃ (ea eb : Ev) (a b : Acc), τ[i]? = some ea ∧ τ[j]? = some eb ∧ ea.acc = some a ∧ eb.acc = some b ∧
    conflict a b ∧ ¬ HB τ i j ∧ ¬ HB τ j i

def RaceFree (τ : List Ev) : Prop := ∀ i j, ¬ Race τ i j

/-- the race is on location `x` -/
def RaceOn (τ : List Ev) (x : Loc) (i j : Nat) : Prop :=
  Race τ i j ∧ ∃ (e : Ev) (a : Acc), τ[i]? = some e ∧ e.acc = some a ∧ a.x = x

/-! ## Lock discipline -/

/-- the access `a` at position `i` is made while its goroutine holds the guard
of the location: exclusively, or shared if the access is a read -/
def Guarded (g : Loc → Option Mid) (τ : List Ev) (i : Nat) (a : Acc) : Prop :=
  ∃ m, g a.x = some m ∧
    ((stAt τ i).excl m = some a.t ∨ (a.write = false ∧ 0 < (stAt τ i).shr m a.t))

/-- every access to `x` in the trace goes through `sync/atomic` -/
def AtomicLoc (τ : List Ev) (x : Loc) : Prop :=
  ∀ (j : Nat) (e : Ev) (b : Acc), τ[j]? = some e → e.acc = some b → b.x = x → b.atomic = true

/-- initialisation before publication: the access happens before the `go`
statement that creates any other goroutine that ever touches the location -/
def InitBefore (τ : List Ev) (i : Nat) (a : Acc) : Prop :=
  ∀ (j : Nat) (e : Ev) (b : Acc), τ[j]? = some e → e.acc = some b → b.x = a.x → b.t ≠ a.t →
    ∃ k t', τ[k]? = some (.fork t' b.t) ∧ HB τ i k

/-- tear-down after the end: every other goroutine that ever touches the
location has been joined, and the join happens before the access -/
def FinalAfter (τ : List Ev) (i : Nat) (a : Acc) : Prop :=
  ∀ (j : Nat) (e : Ev) (b : Acc), τ[j]? = some e → e.acc = some b → b.x = a.x → b.t ≠ a.t →
    ∃ k t', τ[k]? = some (.join t' b.t) ∧ HB τ k i

/-- immutable after initialisation: the access is a read, and every write to the
location anywhere in the trace is part of the initialisation before publication
or of the tear-down after the end -/
def ReadOnlyShared (τ : List Ev) (a : Acc) : Prop :=
  a.write = false ∧
  ∀ (j : Nat) (e : Ev) (b : Acc), τ[j]? = some e → e.acc = some b → b.x = a.x → b.write = true →
    InitBefore τ j b ∨ FinalAfter τ j b

def DisciplinedAt (g : Loc → Option Mid) (τ : List Ev) (i : Nat) (a : Acc) : Prop :=
  (a.atomic = true ∧ AtomicLoc τ a.x) ∨ Guarded g τ i a ∨ InitBefore τ i a ∨ FinalAfter τ i a ∨
  ReadOnlyShared τ a

/-- every access to location `x` follows the discipline -/
def DisciplinedLoc (g : Loc → Option Mid) (τ : List Ev) (x : Loc) : Prop :=
  ∀ (i : Nat) (e : Ev) (a : Acc), τ[i]? = some e → e.acc = some a → a.x = x → DisciplinedAt g τ i a

/-- the lock discipline: every location has (at most) one guard `g x`, and every
access is atomic on an all-atomic location, or made under the guard, or part of
the initialisation before publication / tear-down after the end, or a read of
a location that is only written during initialisation / tear-down -/
def Disciplined (g : Loc → Option Mid) (τ : List Ev) : Prop :=
  ∀ x, DisciplinedLoc g τ x

/-! ## "Lexically inside a critical section" (what the access table records) -/

inductive Mode where
  | excl
  | shared
deriving DecidableEq, Repr

/-- goroutine `t` acquired `m` (in the given mode) at some earlier position and
has not released it since: the access at `i` is wrapped in lock events -/
def InCS (τ : List Ev) (i : Nat) (t : Tid) (m : Mid) : Mode → Prop
  | .excl => ∃ p, p < i ∧ τ[p]? = some (.acq t m) ∧ ∀ k, p < k → k < i → τ[k]? ≠ some (.rel t m)
  | .shared => ∃ p, p < i ∧ τ[p]? = some (.racq t m) ∧ ∀ k, p < k → k < i → τ[k]? ≠ some (.rrel t m)

end Mqtt.Spec.Locks
