/-
Specification of the public setter API of package `message`, written from the
API documentation (doc comments), not from the method bodies: what field record
a sequence of setter calls denotes.  Independent of `Mqtt.Generated.Facts`.

A `Draft` is the field record under construction; `Draft.toPacket` is the packet
it denotes (if any).  A message that still lacks a packet identifier where MQTT
requires one gets one assigned by `Encode` ("automatic identifier"): the
specification allows *any* non-zero identifier there.
-/
import Mqtt.Spec.Wire
import Mqtt.Iface.Codec

namespace Mqtt.Spec.MessageApi
open Mqtt.Spec.Wire
open Mqtt.Iface.Codec (Setter)

structure Draft where
  t : Nat
  -- CONNECT
  ver : UInt8 := 0
  clean : Bool := false
  willFlag : Bool := false
  willQos : UInt8 := 0
  willRetain : Bool := false
  userFlag : Bool := false
  passFlag : Bool := false
  keepAlive : UInt16 := 0
  cid : Bytes := []
  wt : Bytes := []
  wm : Bytes := []
  un : Bytes := []
  pw : Bytes := []
  -- CONNACK
  sp : Bool := false
  rc : UInt8 := 0
  -- PUBLISH
  dup : Bool := false
  ret : Bool := false
  qos : UInt8 := 0
  topic : Bytes := []
  payload : Bytes := []
  -- identified packets
  id : UInt16 := 0
  -- SUBSCRIBE / SUBACK / UNSUBSCRIBE
  subs : List (Bytes × UInt8) := []
  codes : List UInt8 := []
  unsubs : List Bytes := []
deriving Repr

def Draft.new (t : Nat) : Draft := { t := t }

def validQos (q : UInt8) : Bool := q = 0 || q = 1 || q = 2

def removeFirst (t : Bytes) : List Bytes → List Bytes
  | [] => []
  | x :: xs => if x = t then xs else x :: removeFirst t xs

def removeFirstSub (t : Bytes) : List (Bytes × UInt8) → List (Bytes × UInt8)
  | [] => []
  | x :: xs => if x.1 = t then xs else x :: removeFirstSub t xs

def setSub (t : Bytes) (q : UInt8) : List (Bytes × UInt8) → List (Bytes × UInt8)
  | [] => [(t, q)]
  | x :: xs => if x.1 = t then (t, q) :: xs else x :: setSub t q xs

/-- one setter call: the new record and whether the call was accepted
(`false`: the setter returned an error and left the record unchanged).
A setter that does not exist for the packet type is not part of the protocol. -/
def apply (d : Draft) : Setter → Draft × Bool
  | .id v => if v % 65536 = 0 then (d, true) else ({ d with id := UInt16.ofNat v }, true)
  | .dup b => ({ d with dup := b }, true)
  | .retain b => ({ d with ret := b }, true)
  | .qos v => let q := UInt8.ofNat v; if validQos q then ({ d with qos := q }, true) else (d, false)
  | .topic bs => if topicNameOk bs then ({ d with topic := bs }, true) else (d, false)
  | .payload bs => ({ d with payload := bs }, true)
  | .addSub t q =>
    let q := UInt8.ofNat q
    if validQos q then ({ d with subs := setSub t q d.subs }, true) else (d, false)
  | .addUnsub t => if d.unsubs.contains t then (d, true) else ({ d with unsubs := d.unsubs ++ [t] }, true)
  | .remove t =>
    if d.t = 8 then ({ d with subs := removeFirstSub t d.subs }, true)
    else ({ d with unsubs := removeFirst t d.unsubs }, true)
  | .code c =>
    let c := UInt8.ofNat c
    if returnCodeOk c then ({ d with codes := d.codes ++ [c] }, true) else (d, false)
  | .sessionPresent b => ({ d with sp := b }, true)
  | .returnCode c => ({ d with rc := UInt8.ofNat c }, true)
  | .version v => let v := UInt8.ofNat v; if v = 3 || v = 4 then ({ d with ver := v }, true) else (d, false)
  | .clean b => ({ d with clean := b }, true)
  | .willFlag b => ({ d with willFlag := b }, true)
  | .willQos q => let q := UInt8.ofNat q; if validQos q then ({ d with willQos := q }, true) else (d, false)
  | .willRetain b => ({ d with willRetain := b }, true)
  | .userFlag b => ({ d with userFlag := b }, true)
  | .passFlag b => ({ d with passFlag := b }, true)
  | .keepAlive v => ({ d with keepAlive := UInt16.ofNat v }, true)
  | .clientId bs =>
    if bs.isEmpty || (bs.length ≤ 32 && bs.all printable) then ({ d with cid := bs }, true) else (d, false)
  | .willTopic bs =>
    ({ d with wt := bs, willFlag := if !bs.isEmpty then true else if d.wm.isEmpty then false else d.willFlag }, true)
  | .willMessage bs =>
    ({ d with wm := bs, willFlag := if !bs.isEmpty then true else if d.wt.isEmpty then false else d.willFlag }, true)
  | .username bs => ({ d with un := bs, userFlag := !bs.isEmpty }, true)
  | .password bs => ({ d with pw := bs, passFlag := !bs.isEmpty }, true)

def applyAll (d : Draft) : List Setter → Draft × List Bool
  | [] => (d, [])
  | s :: ss =>
    let (d1, ok) := apply d s
    let (d2, oks) := applyAll d1 ss
    (d2, ok :: oks)

/-- the message needs an identifier and has none: `Encode` assigns one -/
def Draft.needsAutoId (d : Draft) : Bool :=
  d.id = 0 && ((d.t = 3 && d.qos ≠ 0) || d.t = 8 || d.t = 10)

/-- the packet a record denotes; `none` when the record has no wire form at all
(Will QoS / Will Retain set without the Will flag) -/
def Draft.toPacket (d : Draft) : Option Packet :=
  match d.t with
  | 1 =>
    if !d.willFlag && (d.willQos ≠ 0 || d.willRetain) then none else
    some (.connect {
      level := d.ver, clean := d.clean, keepAlive := d.keepAlive, clientId := d.cid,
      will := if d.willFlag then some ⟨d.wt, d.wm, d.willQos, d.willRetain⟩ else none,
      username := if d.userFlag then some d.un else none,
      password := if d.passFlag then some d.pw else none })
  | 2 => some (.connack d.sp d.rc)
  | 3 => some (.publish d.dup d.qos d.ret d.topic (if d.qos = 0 then 0 else d.id) d.payload)
  | 4 => some (.puback d.id)
  | 5 => some (.pubrec d.id)
  | 6 => some (.pubrel d.id)
  | 7 => some (.pubcomp d.id)
  | 8 => some (.subscribe d.id d.subs)
  | 9 => some (.suback d.id d.codes)
  | 10 => some (.unsubscribe d.id d.unsubs)
  | 11 => some (.unsuback d.id)
  | 12 => some .pingreq
  | 13 => some .pingresp
  | 14 => some .disconnect
  | _ => none

/-- the record of a decoded packet (starting point for setters on a decoded message) -/
def Draft.ofPacket : Packet → Draft
  | .connect c =>
    { t := 1, ver := c.level, clean := c.clean, keepAlive := c.keepAlive, cid := c.clientId,
      willFlag := c.will.isSome,
      willQos := (match c.will with | some w => w.qos | none => 0),
      willRetain := (match c.will with | some w => w.retain | none => false),
      wt := (match c.will with | some w => w.topic | none => []),
      wm := (match c.will with | some w => w.message | none => []),
      userFlag := c.username.isSome, un := c.username.getD [],
      passFlag := c.password.isSome, pw := c.password.getD [] }
  | .connack sp rc => { t := 2, sp := sp, rc := rc }
  | .publish dup qos ret topic id payload =>
    { t := 3, dup := dup, qos := qos, ret := ret, topic := topic, id := id, payload := payload }
  | .puback id => { t := 4, id := id }
  | .pubrec id => { t := 5, id := id }
  | .pubrel id => { t := 6, id := id }
  | .pubcomp id => { t := 7, id := id }
  | .subscribe id fs => { t := 8, id := id, subs := fs }
  | .suback id codes => { t := 9, id := id, codes := codes }
  | .unsubscribe id fs => { t := 10, id := id, unsubs := fs }
  | .unsuback id => { t := 11, id := id }
  | .pingreq => { t := 12 }
  | .pingresp => { t := 13 }
  | .disconnect => { t := 14 }

end Mqtt.Spec.MessageApi
