/-
Specification of the topic store (property C06): the set of held
subscriptions as a list of (subscriber, filter, QoS), the retained messages as
a list with at most one entry per topic, and §4.7 matching (`Spec.Match`).
Written from the property text and MQTT 3.1.1; independent of the code and of
`Generated.Facts`.
-/
import Mqtt.Iface.Topics
import Mqtt.Spec.Match

namespace Mqtt.Spec.TopicStore
open Mqtt.Iface.Topics Mqtt.Spec.Match

structure Sub where
  sub    : Nat
  filter : List UInt8
  qos    : Nat
deriving DecidableEq, Repr

structure Ret where
  topic   : List UInt8
  qos     : Nat
  payload : List UInt8
deriving DecidableEq, Repr

structure S where
  subs : List Sub
  rets : List Ret
deriving Repr

def empty : S := ⟨[], []⟩

/-- the broker's maximum QoS (MQTT allows a server to grant less than requested) -/
def maxQos : Nat := 2

inductive Out where
  | granted (q : Nat)
  | ok
  | err
  | any                                   -- the property does not fix the outcome
  | subs (l : List (Nat × Nat))            -- unordered
  | rets (l : List Ret)                    -- unordered
deriving Repr

/-- Topics beginning with '$' are outside the property's quantifier: the
specification leaves their outcome open and ignores them. -/
def step (s : S) : Op → S × Out
  | .sub f q sub =>
      if dollar f then (s, .any)
      else if q > 2 then (s, .err)
      else if !validFilter f then (s, .err)            -- rejected, no side effect
      else
        let g := min q maxQos
        let rest := s.subs.filter (fun e => !(e.sub == sub && e.filter == f))
        ({ s with subs := rest ++ [⟨sub, f, g⟩] }, .granted g)   -- re-subscribing replaces
  | .unsub f sub =>
      if dollar f then (s, .any) else
      if s.subs.any (fun e => e.sub == sub && e.filter == f) then
        ({ s with subs := s.subs.filter (fun e => !(e.sub == sub && e.filter == f)) }, .ok)
      else (s, .err)
  | .unsubAll f => ({ s with subs := s.subs.filter (fun e => !(e.filter == f)) }, .any)
  | .subs t q =>
      if dollar t then (s, .any)
      else if q > 2 then (s, .err)
      else if !validName t then (s, .any)
      else (s, .subs ((s.subs.filter (fun e => topicMatches e.filter t)).map (fun e => (e.sub, min q e.qos))))
  | .retain t q p =>
      if dollar t || !validName t then (s, .any)
      else if p.isEmpty then ({ s with rets := s.rets.filter (fun r => !(r.topic == t)) }, .any)
      else ({ s with rets := s.rets.filter (fun r => !(r.topic == t)) ++ [⟨t, q, p⟩] }, .ok)
  | .retained f =>
      if dollar f || !validFilter f then (s, .any)
      else (s, .rets (s.rets.filter (fun r => topicMatches f r.topic)))

end Mqtt.Spec.TopicStore
