/-
`service.ackmu` as a small-step concurrent program (C12, finding E5): any
number of goroutines send one acknowledged request each on ONE connection
(`publish` with QoS 1/2, `subscribe`, `unsubscribe`, `ping`), the connection's
processor marks acknowledgements, the peer sends acknowledgements whenever it
likes.

    sender i :   ackmu.Lock · writeMessage(request i) · [verifAckWindow] ·
                 Ackqueue.Wait(request i) · ackmu.Unlock (deferred)
    processor :  take the next incoming acknowledgement · ackmu.Lock ·
                 Ackqueue.Ack (found iff the request is registered) ·
                 ackmu.Unlock · processAcked (completion callbacks) · again

The programs are parameters (`sp`, `pp`: lists of operations, interpreted by
`step`), so that the program of the code before the repair (no lock
operations) and a program that registers after unlocking can be run as well.
`senderProgram` / `procProgram` are the programs of the source; their shape is
tied to the regenerated facts in `Proofs/AckLock.lean`.

What the ack queue does with a registered request and what a completion
callback does are not this model's subject (`Model/Client.lean`, C13); a
request here is its index, and the only shared state besides the mutex is, per
request, "written" and "registered".
-/
namespace Mqtt.Model.AckLock

/-- operations of a sending call -/
inductive SOp where
  | lock        -- svc.ackmu.Lock()
  | write       -- svc.writeMessage(msg)
  | window      -- verifAckWindow(…): the point between write and registration
  | register    -- svc.sess.<queue>.Wait(msg, onComplete)
  | unlock      -- svc.ackmu.Unlock()
deriving DecidableEq, Repr

/-- operations of the processor for one acknowledgement -/
inductive POp where
  | recv        -- the next acknowledgement comes out of the incoming buffer
  | lock        -- p.ackmu.Lock()            (in `service.ack`)
  | mark        -- ackq.Ack(msg)             (in `service.ack`)
  | unlock      -- p.ackmu.Unlock()          (in `service.ack`, deferred)
  | callbacks   -- p.processAcked(ackq)
deriving DecidableEq, Repr

/-- the programs of the source (service/service.go, service/process.go) -/
def senderProgram : List SOp := [.lock, .write, .window, .register, .unlock]
def procProgram : List POp := [.recv, .lock, .mark, .unlock, .callbacks]

/-- the program before the repair: no mutex -/
def senderProgramOld : List SOp := [.write, .window, .register]
def procProgramOld : List POp := [.recv, .mark, .callbacks]

/-- a sender that keeps the mutex but registers after it has released it -/
def senderProgramWaitOutside : List SOp := [.lock, .write, .window, .unlock, .register]

inductive Tid where
  | sender (i : Nat)
  | proc
deriving DecidableEq, Repr

/-- an acknowledgement on its way: the request it bears the identifier of; ghost: whether that
request had been written when the peer sent it (an acknowledgement *of* the request, not a stray
packet that happens to bear its identifier) -/
structure AckPkt where
  id : Nat
  caused : Bool
deriving DecidableEq, Repr

/-- ghost record of one `Ackqueue.Ack` -/
structure Mark where
  id : Nat
  caused : Bool
  found : Bool          -- the request was registered: the acknowledgement is recorded
  inWindow : Bool       -- the request was written and not yet registered: the acknowledgement is lost
deriving DecidableEq, Repr

structure St where
  holder     : Option Tid := none           -- ackmu
  spc        : Nat → Nat := fun _ => 0       -- program counter of sender i
  written    : Nat → Bool := fun _ => false
  registered : Nat → Bool := fun _ => false
  inbox      : List AckPkt := []            -- incoming acknowledgements, oldest first
  ppc        : Nat := 0
  cur        : AckPkt := ⟨0, false⟩         -- the acknowledgement the processor is handling
  marks      : List Mark := []              -- ghost: every `Ack` so far, in order
  completed  : List Nat := []               -- ghost: requests whose completion ran, in order

def upd {α : Type} (f : Nat → α) (i : Nat) (v : α) : Nat → α := fun j => if j = i then v else f j

/-- what the scheduler may pick -/
inductive Choice where
  | sender (i : Nat)     -- sender i takes its next step
  | proc                 -- the processor takes its next step
  | peer (i : Nat)       -- the peer sends an acknowledgement bearing the identifier of request i
deriving DecidableEq, Repr

def senderStep (sp : List SOp) (s : St) (i : Nat) : Option St :=
  match sp[s.spc i]? with
  | none => none
  | some .lock =>
    if s.holder.isSome then none
    else some { s with holder := some (.sender i), spc := upd s.spc i (s.spc i + 1) }
  | some .write => some { s with written := upd s.written i true, spc := upd s.spc i (s.spc i + 1) }
  | some .window => some { s with spc := upd s.spc i (s.spc i + 1) }
  | some .register => some { s with registered := upd s.registered i true, spc := upd s.spc i (s.spc i + 1) }
  | some .unlock =>
    if s.holder.isNone then none      -- Go: fatal error "unlock of unlocked mutex"
    else some { s with holder := none, spc := upd s.spc i (s.spc i + 1) }

def nextP (pp : List POp) (pc : Nat) : Nat := if pc + 1 = pp.length then 0 else pc + 1

def procStep (pp : List POp) (s : St) : Option St :=
  match pp[s.ppc]? with
  | none => none
  | some .recv =>
    match s.inbox with
    | [] => none
    | a :: rest => some { s with cur := a, inbox := rest, ppc := nextP pp s.ppc }
  | some .lock =>
    if s.holder.isSome then none else some { s with holder := some .proc, ppc := nextP pp s.ppc }
  | some .mark =>
    let m : Mark := ⟨s.cur.id, s.cur.caused, s.registered s.cur.id,
      s.written s.cur.id && !s.registered s.cur.id⟩
    some { s with marks := s.marks ++ [m], ppc := nextP pp s.ppc }
  | some .unlock =>
    if s.holder.isNone then none else some { s with holder := none, ppc := nextP pp s.ppc }
  | some .callbacks =>
    -- the completion runs if the acknowledgement just marked found its request
    let done := match s.marks.getLast? with
      | some m => if m.found then [m.id] else []
      | none => []
    some { s with completed := s.completed ++ done, ppc := nextP pp s.ppc }

/-- one step; `none` = the choice is not enabled -/
def step (sp : List SOp) (pp : List POp) (s : St) : Choice → Option St
  | .sender i => senderStep sp s i
  | .proc => procStep pp s
  | .peer i => some { s with inbox := s.inbox ++ [⟨i, s.written i⟩] }

def run (sp : List SOp) (pp : List POp) (s : St) : List Choice → St
  | [] => s
  | ch :: rest => match step sp pp s ch with
    | some s' => run sp pp s' rest
    | none => run sp pp s rest          -- a disabled choice is skipped

def init : St := {}

end Mqtt.Model.AckLock
