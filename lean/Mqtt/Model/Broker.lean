/-
Core E — the broker as a sequential state machine over decoded packets
(`service/server.go` handleConnection/getSession, `service/process.go`,
`service/service.go` start/stop/publish, `sessions/session.go`), in the order of
effects the Go code performs them (DESIGN.md Appendix A).  One event = one
atomic step.

Not modelled because unobservable at this level: the outbound ack queues
(`Pub1ack`, `Pub2out`: entries are registered and released without any visible
effect in the broker role), statistics, logging.  The inbound QoS 2 queue
(`Pub2in`) is the FIFO list that `Properties/C13` proves the ring
implementation refines.
-/
import Mqtt.Iface.Broker
import Mqtt.Model.Topics
import Mqtt.Generated.Facts

namespace Mqtt.Model.Broker
open Mqtt.Iface.Broker
open Mqtt.Model.Topics (MemTopics RMsg)

/-- subscriber identities ≥ `cbBase` are in-process callbacks, below are connections -/
def cbBase : Nat := 1000

/-- a `*message.PublishMessage` object: fields + the `dirty` flag -/
structure Msg where
  p : Pub
  dirty : Bool
deriving DecidableEq, Repr

/-- the identifier `getSession` gives a client that connected without one: `auto-` and 24 hex
digits from crypto/rand.  Represented by a byte string no client can supply (the leading 0 is not
a printable character, so CONNECT validation never accepts it) and distinct per connection;
that a random 96-bit identifier never coincides with a supplied one or with another generated
one is an assumption recorded in the trusted base. -/
def anonId (c : Nat) : Bytes := 0 :: ("auto".toUTF8.toList ++ (toString c).toUTF8.toList)

/-- `ValidTopic` -/
def validTopic (t : Bytes) : Bool := !t.isEmpty && !t.contains 35 && !t.contains 43

/-- `SetQoS`: crossing 0 ↔ {1,2} changes the packet's shape and sets `dirty` -/
def Msg.setQoS (m : Msg) (q : Nat) : Msg :=
  { p := { m.p with qos := q }, dirty := m.dirty || (decide (m.p.qos > 0) != decide (q > 0)) }

/-- `message.nextPacketID()`: the process-wide counter is advanced until its low
16 bits are not zero - identifier 0 is never assigned (as `Model.Codec.nextPacketID`).
Returns the identifier and the counter. -/
def nextPacketID (ctr : Nat) : Nat × Nat :=
  if (ctr + 1) % 65536 ≠ 0 then ((ctr + 1) % 65536, ctr + 1) else ((ctr + 2) % 65536, ctr + 2)

/-- `PublishMessage.Encode`: `none` = error.  Non-dirty: copy of the decoded
bytes (in-place flag / id changes included).  Dirty: from fields; a QoS > 0
message without identifier takes the next identifier of the process-wide counter.
Returns the fields on the wire, the (possibly mutated) object and the counter. -/
def Msg.encode (m : Msg) (ctr : Nat) : Option (Pub × Msg × Nat) :=
  -- a QoS 0 PUBLISH carries no identifier on the wire
  let wire (p : Pub) : Pub := if p.qos == 0 then { p with pktid := 0 } else p
  if !m.dirty then some (wire m.p, m, ctr)
  else if m.p.topic.isEmpty then none
  else if m.p.qos != 0 && m.p.pktid == 0 then
    let id := (nextPacketID ctr).1
    let m' := { m with p := { m.p with pktid := id } }
    some (m'.p, m', (nextPacketID ctr).2)
  else some (wire m.p, m, ctr)

structure QEntry where
  id    : Nat
  state : Nat              -- 0 = waiting, 6 = PUBREL seen
  msg   : Pub
deriving DecidableEq, Repr

structure Sess where
  ref      : Nat
  cid      : Bytes
  clean    : Bool                     -- stored CONNECT: CleanSession
  willFlag : Bool                     -- stored CONNECT: will flag (cleared by DISCONNECT)
  will     : Option Msg               -- built by `Init` only
  topics   : List (Bytes × Nat)       -- `Session.topics`
  pub2in   : List QEntry
deriving Repr

structure Conn where
  id    : Nat
  sess  : Nat
  alive : Bool
deriving Repr

structure B where
  topics  : MemTopics := MemTopics.new
  sess    : List Sess := []            -- session objects
  store   : List (Bytes × Nat) := []   -- `MemProvider.st`: client id ↦ session object
  conns   : List Conn := []
  nextRef : Nat := 1
  ctr     : Nat := 0                   -- `message.gPacketID`
deriving Repr

def B.getSess (b : B) (ref : Nat) : Option Sess := b.sess.find? (fun s => s.ref == ref)
def B.setSess (b : B) (s : Sess) : B :=
  { b with sess := if b.sess.any (fun x => x.ref == s.ref) then b.sess.map (fun x => if x.ref == s.ref then s else x) else b.sess ++ [s] }
def B.getConn (b : B) (c : Nat) : Option Conn := b.conns.find? (fun x => x.id == c)
def B.alive (b : B) (c : Nat) : Bool := match b.getConn c with | some x => x.alive | none => false
def B.storeGet (b : B) (cid : Bytes) : Option Nat := b.store.lookup cid
def B.storeSet (b : B) (cid : Bytes) (r : Nat) : B :=
  { b with store := (cid, r) :: b.store.filter (fun p => p.1 != cid) }
def B.storeDel (b : B) (cid : Bytes) : B := { b with store := b.store.filter (fun p => p.1 != cid) }

def toRMsg (p : Pub) : RMsg :=
  { topic := p.topic, qos := p.qos, payload := p.payload, dup := p.dup, retain := p.retain, pktid := p.pktid }
def ofRMsg (r : RMsg) : Pub :=
  { topic := r.topic, qos := r.qos, payload := r.payload, dup := r.dup, retain := r.retain, pktid := r.pktid }

/-- `svc.onpub` of connection `d`: clear RETAIN, `publish` (writeMessage + queue
registration), restore RETAIN only on success.  (Since the fan-out loops clear the
flag themselves the closure finds it cleared already: `sr` is false on every call
that `onPublish` makes; the closure is modelled as it stands in the code.) -/
def deliverConn (b : B) (d : Nat) (m : Msg) : B × Msg × List Out :=
  let sr := m.p.retain
  let m1 : Msg := if sr then { m with p := { m.p with retain := false } } else m
  if !b.alive d then (b, m1, [])
  else match m1.encode b.ctr with
    | none => (b, m1, [])
    | some (wire, m2, ctr) =>
      let m3 : Msg := if sr then { m2 with p := { m2.p with retain := true } } else m2
      ({ b with ctr := ctr }, m3, [.send d (.publish wire)])

/-- the loop over `(subs, qoss)` in `onPublish` / `Server.Publish` -/
def fanout (b : B) (m : Msg) : List (Nat × Nat) → B × Msg × List Out
  | [] => (b, m, [])
  | (s, eqos) :: rest =>
    let m1 := m.setQoS eqos
    let (b1, m2, o1) :=
      if s < cbBase then deliverConn b s m1 else (b, m1, [Out.call s m1.p])
    let (b2, m3, o2) := fanout b1 m2 rest
    (b2, m3, o1 ++ o2)

/-- `topicsMgr.Retain(msg)` as `onPublish` calls it (errors are only logged) -/
def retainStep (b : B) (m : Msg) : B × Msg :=
  if !m.p.retain then (b, m)
  else if m.p.payload.isEmpty then
    ({ b with topics := (b.topics.retain (toRMsg m.p)).1 }, m)
  else if Mqtt.Model.Topics.checkTopic m.p.topic || !(Mqtt.Model.Topics.levels m.p.topic).2 then
    -- Retain turns a topic beginning with '$' away, or rinsert fails while walking
    -- the levels: either way before the message is encoded at the leaf
    ({ b with topics := (b.topics.retain (toRMsg m.p)).1 }, m)
  else
    -- rinsert encodes the message into the node's buffer (may assign an identifier)
    match m.encode b.ctr with
    | none => (b, m)
    | some (wire, m', ctr) => ({ b with topics := (b.topics.retain (toRMsg wire)).1, ctr := ctr }, m')

/-- `SetRetain`: flips the flag bit in place; does not touch `dirty` -/
def Msg.setRetain (m : Msg) (v : Bool) : Msg := { m with p := { m.p with retain := v } }

/-- the live fan-out of `onPublish` (broker role) / `Server.Publish`: the RETAIN
flag of the message object is cleared once before the loop
(`sr := msg.Retain(); if sr { msg.SetRetain(false) }`), every subscriber -
connection or in-process callback - is handed the object in that state, and the
flag is restored after the loop (`if sr { msg.SetRetain(true) }`). -/
def fanoutLive (b : B) (m : Msg) (subs : List (Nat × Nat)) : B × Msg × List Out :=
  let sr := m.p.retain
  let (b2, m2, o) := fanout b (if sr then m.setRetain false else m) subs
  (b2, if sr then m2.setRetain true else m2, o)

/-- `onPublish(msg)` in the broker role / `Server.Publish`: retain step (stores
its own copy, RETAIN = 1), subscriber lookup, live fan-out.  The Bool is
"returned nil". -/
def onPublish (b : B) (m : Msg) : B × Msg × List Out × Bool :=
  let (b1, m1) := retainStep b m
  match b1.topics.subscribers m1.p.topic m1.p.qos with
  | none => (b1, m1, [], false)
  | some subs =>
    let (b2, m2, o) := fanoutLive b1 m1 subs
    (b2, m2, o, true)

/-- `writeMessage` of a non-PUBLISH packet to connection `c` -/
def send (b : B) (c : Nat) (p : Packet) : List Out := if b.alive c then [.send c p] else []

/-! ### inbound QoS 2 queue (FIFO list semantics, see `Spec.Fifo`) -/

def q2Wait (q : List QEntry) (p : Pub) : List QEntry :=
  if q.any (fun e => e.id == p.pktid) then q else q ++ [⟨p.pktid, 0, p⟩]
def q2Ack (q : List QEntry) (id : Nat) : List QEntry :=
  q.map (fun e => if e.id == id then { e with state := Generated.tPUBREL } else e)
def q2Acked (q : List QEntry) : List QEntry × List QEntry :=
  (q.dropWhile (fun e => e.state == Generated.tPUBREL), q.takeWhile (fun e => e.state == Generated.tPUBREL))

/-- `processAcked(Pub2in)`: each released PUBLISH is decoded from its stored copy and handed on -/
def releaseAll (b : B) : List QEntry → B × List Out
  | [] => (b, [])
  | e :: rest =>
    let (b1, _, o1, _) := onPublish b ⟨e.msg, false⟩
    let (b2, o2) := releaseAll b1 rest
    (b2, o1 ++ o2)

/-! ### SUBSCRIBE -/

/-- the per-topic loop of `processSubscribe`: a rejected filter (or QoS byte) gets
return code 0x80 and the loop goes on. -/
def subscribeLoop (b : B) (c : Nat) (s : Sess) :
    List (Bytes × Nat) → List Nat → List Msg → B × Sess × List Nat × List Msg
  | [], codes, rms => (b, s, codes, rms)
  | (t, q) :: rest, codes, rms =>
    match b.topics.subscribe Generated.maxQosAllowed t q c with
    | (ts, none) => subscribeLoop { b with topics := ts } c s rest (codes ++ [0x80]) rms
    | (ts, some rq) =>
      let b1 := { b with topics := ts }
      let s1 := { s with topics := (t, q) :: s.topics.filter (fun p => p.1 != t) }
      let new : List Msg := match b1.topics.retained t with
        | none => []
        | some l => l.map (fun r =>
            let m : Msg := ⟨ofRMsg r, false⟩
            if r.qos > rq then m.setQoS rq else m)      -- Clone + SetQoS
      subscribeLoop b1 c s1 rest (codes ++ [rq]) (rms ++ new)

/-- publishing the pending retained messages after the SUBACK (`p.publish(rm, nil)`;
the first failure aborts the rest) -/
def sendRetained (b : B) (c : Nat) : List Msg → B × List Out
  | [] => (b, [])
  | m :: rest =>
    if !b.alive c then (b, []) else
    match m.encode b.ctr with
    | none => (b, [])
    | some (wire, _, ctr) =>
      let (b2, o) := sendRetained { b with ctr := ctr } c rest
      (b2, .send c (.publish wire) :: o)

/-! ### end of a connection (`stop`) -/

def unsubAll (ts : MemTopics) (c : Nat) : List (Bytes × Nat) → MemTopics
  | [] => ts
  | (t, _) :: rest => unsubAll (ts.unsubscribe t (some c)).1 c rest

/-- `stop()`: mark closed, unsubscribe the session's topics, publish the will if
the stored CONNECT's will flag is set, delete a clean session.  (`will = none`
with the flag set cannot arise any more; the branch mirrors the nil dereference
that `stop` would recover from.) -/
def stop (b : B) (c : Nat) : B × List Out :=
  match b.getConn c with
  | none => (b, [])
  | some cn =>
    if !cn.alive then (b, []) else
    let b0 := { b with conns := b.conns.map (fun (x : Conn) => if x.id == c then { x with alive := false } else x) }
    match b0.getSess cn.sess with
    | none => (b0, [.closed c])
    | some s =>
      let b1 := { b0 with topics := unsubAll b0.topics c s.topics }
      if s.willFlag then
        match s.will with
        | none => (b1, [.closed c])                       -- nil dereference, recovered
        | some w =>
          let (b2, w', o, _) := onPublish b1 w
          let b3 := b2.setSess { s with will := some w' }
          let b4 := if s.clean then b3.storeDel s.cid else b3
          (b4, .closed c :: o)
      else
        let b4 := if s.clean then b1.storeDel s.cid else b1
        (b4, [.closed c])

/-! ### first packet (`handleConnection`, `getSession`, `Session.Init/Update`, `start`) -/

def printable (b : UInt8) : Bool := 0x20 ≤ b.toNat && b.toNat ≤ 0x7e

/-- `ConnectMessage.decodeMessage` on a framed CONNECT: `inl code` = CONNACK
error code, `inr false` = other error, `inr true` = accepted by the decoder. -/
def connectDecode (c : Connect) : Sum Nat Bool :=
  match Generated.supportedVersions.lookup c.version with
  | none => .inl 1
  | some name =>
    if name != c.protoName then .inl 1
    else if c.reserved then .inr false
    else if (match c.will with | some w => decide (w.qos > 2) | none => decide (c.willQosNoWill > 2)) then .inr false
    else if c.will.isNone && (c.willRetainNoWill || c.willQosNoWill != 0) then .inr false
    else if c.clientId.isEmpty && !c.clean then .inl 2
    else if !c.clientId.isEmpty && !(c.clientId.all printable && c.clientId.length ≤ 32) then .inl 2
    else .inr true

def initWill (c : Connect) : Option Msg :=
  match c.will with
  | none => none
  | some w =>
    some ⟨{ qos := w.qos, retain := w.retain,
            topic := if validTopic w.topic then w.topic else [],   -- `SetTopic` refuses, error ignored
            payload := w.payload }, true⟩

def resubscribe (ts : MemTopics) (c : Nat) : List (Bytes × Nat) → MemTopics
  | [] => ts
  | (t, q) :: rest => resubscribe (ts.subscribe Generated.maxQosAllowed t q c).1 c rest

/-- `handleConnection` from `getSession` on (and its refusals): the first packet of
connection `c` once `disconnectClient` has run (`takeOver` below; the checks
before it change nothing and are evaluated again here with the same result) -/
def first (b : B) (c : Nat) (f : First) (authOk : Bool) : B × List Out :=
  match f with
  | .garbage => (b, [.closed c])
  | .other _ => (b, [.closed c])
  | .connect req =>
    match connectDecode req with
    | .inl code => (b, [.send c (.connack false code), .closed c])
    | .inr false => (b, [.closed c])
    | .inr true =>
      if !authOk then (b, [.send c (.connack false 4), .closed c]) else
      -- getSession
      let (cid, clean) := if req.clientId.isEmpty
        then ((anonId c), true)
        else (req.clientId, req.clean)
      -- only state kept from a CleanSession=0 connection is resumed
      let resumed : Option Sess :=
        if clean then none else ((b.storeGet cid).bind b.getSess).filter (fun s => !s.clean)
      let (b1, s, sp) := match resumed with
        | some s =>
          -- Update: stored CONNECT replaced, will rebuilt from it
          let s' := { s with clean := clean, willFlag := req.will.isSome, will := initWill req }
          (b.setSess s', s', true)
        | none =>
          let s : Sess := { ref := b.nextRef, cid := cid, clean := clean, willFlag := req.will.isSome,
                            will := initWill req, topics := [], pub2in := [] }
          ((({ b with nextRef := b.nextRef + 1 }).setSess s).storeSet cid s.ref, s, false)
      let b2 := { b1 with conns := b1.conns.filter (fun (x : Conn) => x.id != c) ++ [({ id := c, sess := s.ref, alive := true } : Conn)] }
      let b3 := { b2 with topics := resubscribe b2.topics c s.topics }
      (b3, [.send c (.connack sp 0)])

/-- the live connections whose session carries client identifier `cid`
(`disconnectClient`: the scan of `svr.svcs` under `svr.mu`) -/
def sameClient (b : B) (cid : Bytes) : List Nat :=
  (b.conns.filter (fun cn => cn.alive && (match b.getSess cn.sess with
    | some s => s.cid == cid
    | none => false))).map (·.id)

/-- `s.stop(); <-s.stopped` for each of them, one after the other -/
def stopAll (b : B) : List Nat → B × List Out
  | [] => (b, [])
  | c :: cs =>
    let (b1, o1) := stop b c
    let (b2, o2) := stopAll b1 cs
    (b2, o1 ++ o2)

/-- `handleConnection` between authentication and `getSession`, under
`connectMu`: a decoded and authenticated CONNECT with a supplied client
identifier disconnects the existing connections of that client and waits for
the end of their teardown (MQTT-3.1.4-2) -/
def takeOver (b : B) (f : First) (authOk : Bool) : B × List Out :=
  match f with
  | .connect req =>
    match connectDecode req with
    | .inr true =>
      if !authOk || req.clientId.isEmpty then (b, []) else stopAll b (sameClient b req.clientId)
    | _ => (b, [])
  | _ => (b, [])

/-- `handleConnection` -/
def connect (b : B) (c : Nat) (f : First) (authOk : Bool) : B × List Out :=
  let (b0, o0) := takeOver b f authOk
  let (b1, o1) := first b0 c f authOk
  (b1, o0 ++ o1)

/-- `handleConnection` when nothing can be written to the new connection (the peer has gone
after sending its first packet: `writeMessage(c, resp)` fails): a refusal's CONNACK is lost and the
connection is closed; for an accepted CONNECT `getSession` has run - the stored session object
was looked up and updated (`Session.Update`), or a new one was created and filed in the store
(`sessMgr.New`, `Session.Init`) - and nothing else has: the connection is not started, not
registered, nothing is resubscribed, and no `stop()` will ever run for it (so a clean session
object stays in the store, where it is never resumed). -/
def firstFail (b : B) (c : Nat) (f : First) (authOk : Bool) : B × List Out :=
  match f with
  | .garbage => (b, [.closed c])
  | .other _ => (b, [.closed c])
  | .connect req =>
    match connectDecode req with
    | .inl _ => (b, [.closed c])
    | .inr false => (b, [.closed c])
    | .inr true =>
      if !authOk then (b, [.closed c]) else
      let (cid, clean) := if req.clientId.isEmpty
        then ((anonId c), true)
        else (req.clientId, req.clean)
      let resumed : Option Sess :=
        if clean then none else ((b.storeGet cid).bind b.getSess).filter (fun s => !s.clean)
      let b1 := match resumed with
        | some s => b.setSess { s with clean := clean, willFlag := req.will.isSome, will := initWill req }
        | none =>
          let s : Sess := { ref := b.nextRef, cid := cid, clean := clean, willFlag := req.will.isSome,
                            will := initWill req, topics := [], pub2in := [] }
          (({ b with nextRef := b.nextRef + 1 }).setSess s).storeSet cid s.ref
      (b1, [.closed c])

/-- `handleConnection` with a failing CONNACK write: the take-over happens before `getSession` -/
def connectFail (b : B) (c : Nat) (f : First) (authOk : Bool) : B × List Out :=
  let (b0, o0) := takeOver b f authOk
  let (b1, o1) := firstFail b0 c f authOk
  (b1, o0 ++ o1)

/-- the connections `Server.Close` finds in `svr.svcs` that have not ended, in the order of their
registration -/
def liveIds (b : B) : List Nat := (b.conns.filter (fun cn => cn.alive)).map (·.id)

/-- `Server.Close`: (the listeners and every outgoing ring are closed first - nothing can be written to
any connection any more -, then) `stop()` for every connection, one after the other in the order of
registration: each is the end of that connection WITHOUT a DISCONNECT - subscriptions removed, will
published, clean session deleted.  What a will's fan-out addresses to another connection is lost or not
according to how far that connection's sender has come; in-process callbacks receive it. -/
def srvClose (b : B) : B × List Out := stopAll b (liveIds b)

/-! ### packets on an accepted connection (`processIncoming`) -/

def packet (b : B) (c : Nat) (p : Packet) : B × List Out :=
  match b.getConn c with
  | none => (b, [])
  | some cn =>
    if !cn.alive then (b, []) else
    match b.getSess cn.sess with
    | none => (b, [])
    | some s =>
      match p with
      | .publish pub =>
        if pub.qos == 2 then
          (b.setSess { s with pub2in := q2Wait s.pub2in pub }, send b c (.pubrec pub.pktid))
        else if pub.qos == 1 then
          let o0 := send b c (.puback pub.pktid)
          let (b1, _, o, _) := onPublish b ⟨pub, false⟩
          (b1, o0 ++ o)
        else
          let (b1, _, o, _) := onPublish b ⟨pub, false⟩
          (b1, o)
      | .pubrel id =>
        let (rest, rel) := q2Acked (q2Ack s.pub2in id)
        let b1 := b.setSess { s with pub2in := rest }
        let (b2, o) := releaseAll b1 rel
        (b2, o ++ send b2 c (.pubcomp id))
      | .puback _ => (b, [])
      | .pubrec id => (b, send b c (.pubrel id))
      | .pubcomp _ => (b, [])
      | .subscribe id topics =>
        let (b1, s1, codes, rms) := subscribeLoop b c s topics [] []
        let b2 := b1.setSess s1
        let o0 := send b2 c (.suback id codes)
        let (b3, o) := sendRetained b2 c rms
        (b3, o0 ++ o)
      | .unsubscribe id topics =>
        let ts := topics.foldl (fun ts t => (ts.unsubscribe t (some c)).1) b.topics
        let s1 := { s with topics := s.topics.filter (fun p => !topics.contains p.1) }
        (({ b with topics := ts }).setSess s1, send b c (.unsuback id))
      | .pingreq => (b, send b c .pingresp)
      | .disconnect =>
        let b1 := b.setSess { s with willFlag := false }
        stop b1 c
      | .pingresp | .suback _ _ | .unsuback _ | .connack _ _ | .connectAgain => (b, [])

/-! ### in-process API -/

def srvPub (b : B) (p : Pub) : B × List Out :=
  -- the caller's message object: built through the API, hence dirty
  let (b1, _, o, ok) := onPublish b ⟨p, true⟩
  (b1, if ok then o else o ++ [.apiErr])

def srvSub (b : B) (cb : Nat) (filter : Bytes) (qos : Nat) : B × List Out :=
  match b.topics.subscribe Generated.maxQosAllowed filter qos cb with
  | (ts, none) => ({ b with topics := ts }, [.apiErr])
  | (ts, some rq) =>
    let b1 := { b with topics := ts }
    let msgs := match b1.topics.retained filter with
      | none => []
      | some l => l.map (fun r => let m : Msg := ⟨ofRMsg r, false⟩; if r.qos > rq then (m.setQoS rq).p else m.p)
    (b1, msgs.map (fun p => Out.call cb p))

def srvUnsub (b : B) (cb : Nat) (filter : Bytes) : B × List Out :=
  let (ts, ok) := b.topics.unsubscribe filter (some cb)
  ({ b with topics := ts }, if ok then [] else [.apiErr])

def step (b : B) : Ev → B × List Out
  | .first c f a => connect b c f a
  | .packet c p => packet b c p
  | .close c => stop b c
  | .srvPub p => srvPub b p
  | .srvSub cb f q => srvSub b cb f q
  | .srvUnsub cb f => srvUnsub b cb f

def run (b : B) : List Ev → B × List (List Out)
  | [] => (b, [])
  | e :: es =>
    let (b1, o) := step b e
    let (b2, os) := run b1 es
    (b2, o :: os)

end Mqtt.Model.Broker
