/-
`service.writeMessage` as a small-step concurrent program (C17): any number of
goroutines deliver packets to ONE connection.  Each delivery is

    wmu.Lock · start := pseq (WriteWait reserves [start, start+len)) ·
    Encode into the reserved bytes · pseq := start+len (WriteCommit / Write) · wmu.Unlock

The reserved bytes are invisible to the consumer until the cursor store, so the
consumer-visible stream is `buf[0, pseq)`.  The ring's own wrap-around and
blocking are Core D's subject (C14/C15); here the buffer is an unbounded array
and what matters is who may touch the cursor and the reserved bytes when.

`locked = false` is the program without `wmu` (what a change that drops or
narrows the lock would produce): its steps are the same minus the mutual
exclusion.
-/
namespace Mqtt.Model.WriteLock

inductive PC where
  | idle        -- between deliveries
  | entered     -- holds wmu (or, unlocked variant: has started), nothing reserved yet
  | reserved    -- start := pseq taken
  | encoded     -- packet bytes written into [start, start+len)
deriving DecidableEq, Repr

structure Th where
  pc    : PC := .idle
  todo  : List (List UInt8)      -- packets still to deliver, in order
  start : Nat := 0
deriving Repr

structure St where
  holder : Option Nat := none     -- wmu
  pseq   : Nat := 0
  buf    : List UInt8 := []       -- ring contents as an unbounded array
  ths    : List Th
  done   : List (List UInt8) := []   -- ghost: packets committed so far, in commit order
deriving Repr

/-- write `bs` into `buf` at offset `at`, growing it with zeros if needed -/
def writeAt (buf : List UInt8) (at_ : Nat) (bs : List UInt8) : List UInt8 :=
  let buf := buf ++ List.replicate (at_ + bs.length - buf.length) 0
  buf.take at_ ++ bs ++ buf.drop (at_ + bs.length)

def setTh (s : St) (t : Nat) (th : Th) : St := { s with ths := s.ths.set t th }

/-- one step of thread `t`; `none` = not enabled -/
def step (locked : Bool) (s : St) (t : Nat) : Option St :=
  match s.ths[t]? with
  | none => none
  | some th =>
    match th.pc, th.todo with
    | .idle, [] => none
    | .idle, _ :: _ =>
      if locked then
        if s.holder.isSome then none
        else some { (setTh s t { th with pc := .entered }) with holder := some t }
      else some (setTh s t { th with pc := .entered })
    | .entered, _ => some (setTh s t { th with pc := .reserved, start := s.pseq })
    | .reserved, m :: _ =>
      some { (setTh s t { th with pc := .encoded }) with buf := writeAt s.buf th.start m }
    | .reserved, [] => none
    | .encoded, m :: rest =>
      some { (setTh s t { th with pc := .idle, todo := rest }) with
             pseq := th.start + m.length, done := s.done ++ [m],
             holder := if locked then none else s.holder }
    | .encoded, [] => none

def run (locked : Bool) (s : St) : List Nat → St
  | [] => s
  | t :: ts => match step locked s t with
    | some s' => run locked s' ts
    | none => run locked s ts            -- a disabled choice is skipped

/-- what the consumer can see -/
def visible (s : St) : List UInt8 := s.buf.take s.pseq

def init (todos : List (List (List UInt8))) : St := { ths := todos.map (fun l => { todo := l }) }

end Mqtt.Model.WriteLock
