/-
Client role — `service/client.go` (Connect), `service/service.go`
(publish / subscribe / unsubscribe / ping and their completion wrappers) and
`service/process.go` as run by a client (`svc.client = true`), over decoded
packets.  Ack queues are the FIFO lists that `Properties/C13` proves the ring
implementation refines, the ping FIFO of `Pingack` included.
-/
import Mqtt.Iface.Client
import Mqtt.Model.Topics
import Mqtt.Model.Broker
import Mqtt.Generated.Facts

namespace Mqtt.Model.Client
open Mqtt.Iface.Broker (Pub Packet Bytes)
open Mqtt.Iface.Client
open Mqtt.Model.Topics (MemTopics)

/-- an in-flight request of one of the ack queues -/
structure Req where
  id     : Nat
  state  : Nat := 0
  tag    : Nat := 0
  pub    : Option Pub := none               -- PUBLISH requests (and inbound QoS 2 PUBLISHes)
  topics : List (Bytes × Nat) := []         -- SUBSCRIBE: (filter, requested QoS); UNSUBSCRIBE: (filter, 0)
  cb     : Nat := 0                         -- SUBSCRIBE: message callback
  codes  : List Nat := []                   -- SUBACK return codes once acknowledged
deriving Repr

abbrev Queue := List Req

def terminal (t : Nat) : Bool := Generated.ackedReleaseStates.contains t

def Queue.wait (q : Queue) (r : Req) : Queue := if q.any (fun e => e.id == r.id) then q else q ++ [r]
def Queue.ack (q : Queue) (t id : Nat) (codes : List Nat := []) : Queue :=
  q.map (fun e => if e.id == id then { e with state := t, codes := codes } else e)
def Queue.acked (q : Queue) : Queue × List Req :=
  (q.dropWhile (fun e => terminal e.state), q.takeWhile (fun e => terminal e.state))

/-- `Pingack.Ack(PINGRESP)`: the oldest ping that has no PINGRESP yet takes it -/
def pingAck : List (Nat × Nat) → List (Nat × Nat)
  | [] => []
  | e :: rest =>
    if e.1 != Generated.tPINGRESP then (Generated.tPINGRESP, e.2) :: rest else e :: pingAck rest

/-- `Pingack.Acked()`: the leading pings that have their PINGRESP are handed back -/
def pingAcked (l : List (Nat × Nat)) : List (Nat × Nat) × List (Nat × Nat) :=
  (l.dropWhile (fun e => e.1 == Generated.tPINGRESP), l.takeWhile (fun e => e.1 == Generated.tPINGRESP))

structure C where
  connected : Bool := false
  pub1ack   : Queue := []
  pub2out   : Queue := []
  pub2in    : Queue := []
  suback    : Queue := []
  unsuback  : Queue := []
  pings     : List (Nat × Nat) := []          -- the ping FIFO of `Pingack`: (state, tag), oldest first
  topics    : MemTopics := MemTopics.new      -- subscribers are callback ids
  ctr       : Nat := 0                        -- `message.gPacketID`
deriving Repr

/-- the inner loop `for j := i + 1 …` of `onPublish`: the highest QoS among `q` and the later
entries of the same callback -/
def maxQos (cb : Nat) (q : Nat) : List (Nat × Nat) → Nat
  | [] => q
  | x :: rest => maxQos cb (if x.1 == cb && x.2 > q then x.2 else q) rest

/-- the dispatch loop of `onPublish` in the client role (`p.client`): an entry of `p.subs` whose
callback pointer occurred earlier in the list (`subscriberIn(p.subs[:i], s)`) is skipped; the
first entry of every callback stays and takes the highest QoS of that callback's entries (the
order of `p.subs` comes out of a map iteration).  `seen` are the callbacks of the entries passed. -/
def firstPerCb (seen : List Nat) : List (Nat × Nat) → List (Nat × Nat)
  | [] => []
  | s :: rest =>
    if seen.contains s.1 then firstPerCb seen rest
    else (s.1, maxQos s.1 s.2 rest) :: firstPerCb (s.1 :: seen) rest

/-- `onPublish` in the client role: look up the callbacks registered for the topic and call each
once, with the highest QoS its matching filters allow.  A callback identifier stands for the `&onPublish` pointer that `service.subscribe`
allocates per call: it identifies the Subscribe *request* (every request has its own).
The RETAIN flag is handed on as received (`sr := !p.client && msg.Retain()` is false in this
role: only a broker clears the flag for its live fan-out, `Model.Broker.fanoutLive`). -/
def onPublish (c : C) (p : Pub) : List Out :=
  match c.topics.subscribers p.topic p.qos with
  | none => []
  | some subs => (firstPerCb [] subs).map (fun s => Out.deliver s.1 { p with qos := s.2 })

def completeOut (tag : Nat) (err : Bool) : List Out := if tag == 0 then [] else [.complete tag err]

/-- the completion wrapper `subscribe` registers: on SUBACK, install the callback for every granted filter -/
def subscribeDone (c : C) (r : Req) : C × List Out :=
  if r.topics.length != r.codes.length then (c, completeOut r.tag true) else
  let (ts, err) := (r.topics.zip r.codes).foldl (fun (acc : MemTopics × Bool) tc =>
      if tc.2 == 0x80 then (acc.1, true)
      else match acc.1.subscribe Generated.maxQosAllowed tc.1.1 tc.2 r.cb with
        | (ts, some _) => (ts, acc.2)
        | (ts, none) => (ts, true)) (c.topics, false)
  ({ c with topics := ts }, completeOut r.tag err)

/-- the wrapper `unsubscribe` registers: on UNSUBACK remove *every* callback at each listed filter -/
def unsubscribeDone (c : C) (r : Req) : C × List Out :=
  let (ts, err) := r.topics.foldl (fun (acc : MemTopics × Bool) t =>
      let (ts, ok) := acc.1.unsubscribe t.1 none
      (ts, acc.2 || !ok)) (c.topics, false)
  ({ c with topics := ts }, completeOut r.tag err)

def foldDone (f : C → Req → C × List Out) (c : C) : List Req → C × List Out
  | [] => (c, [])
  | r :: rest =>
    let (c1, o1) := f c r
    let (c2, o2) := foldDone f c1 rest
    (c2, o1 ++ o2)

/-- a packet from the peer (`processIncoming`) -/
def peer (c : C) (p : Packet) : C × List Out :=
  match p with
  | .publish pub =>
    if pub.qos == 2 then
      ({ c with pub2in := c.pub2in.wait { id := pub.pktid, pub := some pub } }, [.wrote (.pubrec pub.pktid)])
    else if pub.qos == 1 then (c, .wrote (.puback pub.pktid) :: onPublish c pub)
    else (c, onPublish c pub)
  | .pubrel id =>
    let (rest, rel) := (c.pub2in.ack Generated.tPUBREL id).acked
    let c1 := { c with pub2in := rest }
    (c1, rel.flatMap (fun r => match r.pub with | some pb => onPublish c1 pb | none => []) ++ [.wrote (.pubcomp id)])
  | .puback id =>
    let (rest, rel) := (c.pub1ack.ack Generated.tPUBACK id).acked
    ({ c with pub1ack := rest }, rel.flatMap (fun r => completeOut r.tag false))
  | .pubrec id => ({ c with pub2out := c.pub2out.ack Generated.tPUBREC id }, [.wrote (.pubrel id)])
  | .pubcomp id =>
    let (rest, rel) := (c.pub2out.ack Generated.tPUBCOMP id).acked
    ({ c with pub2out := rest }, rel.flatMap (fun r => completeOut r.tag false))
  | .suback id codes =>
    let (rest, rel) := (c.suback.ack Generated.tSUBACK id codes).acked
    foldDone subscribeDone { c with suback := rest } rel
  | .unsuback id =>
    let (rest, rel) := (c.unsuback.ack Generated.tUNSUBACK id).acked
    foldDone unsubscribeDone { c with unsuback := rest } rel
  | .pingreq => (c, [.wrote .pingresp])
  | .pingresp =>
    let (rest, rel) := pingAcked (pingAck c.pings)
    ({ c with pings := rest }, rel.flatMap (fun e => completeOut e.2 false))
  | _ => (c, [])

/-- identifier assignment of `Encode` for a request without one: `message.nextPacketID()`
(`Model.Broker.nextPacketID`, the same process-wide counter) - identifier 0 is skipped, the
counter then advances by 2 -/
def assignId (c : C) (id : Nat) : C × Nat :=
  if id == 0 then
    ({ c with ctr := (Mqtt.Model.Broker.nextPacketID c.ctr).2 }, (Mqtt.Model.Broker.nextPacketID c.ctr).1)
  else (c, id)

/-- the part of an API call before the ack-queue registration: the request is written -/
def apiWrite (c : C) : Api → C × List Out × Api
  | .publish p tag =>
    if p.qos == 0 then (c, [.wrote (.publish { p with pktid := 0 })], .publish p tag)
    else
      let (c1, id) := assignId c p.pktid
      let p' := { p with pktid := id }
      (c1, [.wrote (.publish p')], .publish p' tag)
  | .subscribe id topics tag cb =>
    -- `SubscribeMessage.AddTopic`: a repeated filter replaces the QoS of its first occurrence
    let topics := topics.foldl (fun acc t =>
      if acc.any (fun x => x.1 == t.1) then acc.map (fun x => if x.1 == t.1 then (x.1, t.2) else x) else acc ++ [t]) []
    let (c1, id') := assignId c id
    (c1, [.wrote (.subscribe id' topics)], .subscribe id' topics tag cb)
  | .unsubscribe id topics tag =>
    -- `UnsubscribeMessage.AddTopic` ignores a filter that is already listed
    let topics := topics.eraseDups
    let (c1, id') := assignId c id
    (c1, [.wrote (.unsubscribe id' topics)], .unsubscribe id' topics tag)
  | .ping tag => (c, [.wrote .pingreq], .ping tag)

/-- the registration (`Wait`) that ends the call; QoS 0 completes here -/
def apiRegister (c : C) : Api → C × List Out
  | .publish p tag =>
    if p.qos == 0 then (c, completeOut tag false)
    else if p.qos == 1 then ({ c with pub1ack := c.pub1ack.wait { id := p.pktid, tag := tag, pub := some p } }, [])
    else ({ c with pub2out := c.pub2out.wait { id := p.pktid, tag := tag, pub := some p } }, [])
  | .subscribe id topics tag cb =>
    ({ c with suback := c.suback.wait { id := id, tag := tag, topics := topics, cb := cb } }, [])
  | .unsubscribe id topics tag =>
    ({ c with unsuback := c.unsuback.wait { id := id, tag := tag, topics := topics.map (fun t => (t, 0)) } }, [])
  | .ping tag => ({ c with pings := c.pings ++ [(0, tag)] }, [])

def connect (c : C) : Answer → C × List Out
  | .connack _ code => if code == 0 then ({ c with connected := true }, [.connected]) else (c, [.refused code])
  | .badConnack | .other | .close => (c, [.connectErr])

def step (c : C) : Ev → C × List Out
  | .connect a => connect c a
  | .api call =>
    if !c.connected then (c, [.apiErr]) else
    let (c1, o1, call') := apiWrite c call
    let (c2, o2) := apiRegister c1 call'
    (c2, o1 ++ o2)
  | .peer p => if !c.connected then (c, []) else peer c p
  | .apiEarlyAck call ack =>
    -- The acknowledgement reaches the client after the request was written and before the call
    -- has registered it.  `publish` (QoS 1/2), `subscribe`, `unsubscribe` and `ping` hold
    -- `service.ackmu` from before `writeMessage` until `Wait` has returned, and `processIncoming`
    -- marks an acknowledgement (`service.ack`) under the same mutex: the acknowledgement waits for
    -- the registration (`Model/AckLock.lean`: no other order is reachable).  A QoS 0 publish
    -- registers nothing and takes no lock: its completion is fired by the caller's goroutine,
    -- whatever the packet completes by the processor, and the code does not order the two; the
    -- model (like the harness, which does not force a window for QoS 0) takes call, then packet.
    if !c.connected then (c, [.apiErr]) else
    let (c1, o1, call') := apiWrite c call
    let (c2, o2) := apiRegister c1 call'
    let (c3, o3) := peer c2 ack
    (c3, o1 ++ o2 ++ o3)

end Mqtt.Model.Client
