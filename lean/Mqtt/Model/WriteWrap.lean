/-
`service.writeMessage` over the FINITE outgoing ring, wrap branch included (C17).

Any number of goroutines deliver packets to ONE connection; ONE consumer (the
sender goroutine, `WriteTo`) takes bytes out.  The ring has `size = 2^k` cells,
a producer cursor `pseq` and a consumer cursor `cseq` (both ever-increasing
naturals; the cell of stream position `pos` is `pos & (size-1) = pos % size`),
and the connection has ONE scratch buffer `svc.outtmp`, shared by all
deliveries, that is only ever grown and keeps whatever earlier packets left in it.

    func (svc *service) writeMessage(msg) {            model step (program counter after it)
        l := msg.Len()
        svc.wmu.Lock(); defer svc.wmu.Unlock()          idle → entered
        buf, wrap, err = svc.out.WriteWait(l)           entered → reserved start | wrapped | return err
        if wrap {
            if len(svc.outtmp) < l {                    wrapped → grown
                svc.outtmp = make([]byte, l) }
            n, err = msg.Encode(svc.outtmp[0:])         grown → tmpEncoded n
            m, err = svc.out.Write(svc.outtmp[0:n])     tmpEncoded → copying start2 len   (waitForWriteSpace)
                                                        copying → copied                  (ringCopy at start2 & mask)
                                                        copied → idle                     (pseq.set(start2+len); Unlock)
        } else {
            n, err = msg.Encode(buf[0:])                reserved → encoded
            m, err = svc.out.WriteCommit(n)             encoded → commit start2           (waitForWriteSpace)
        }                                               commit → idle                     (pseq.set(start2+n); Unlock)
    }

`waitForWriteSpace(n)` (buffer.go): `n > size` ⇒ `ErrBufferFull` (the delivery
returns an error, nothing is written — outcome `ret false`); otherwise it blocks
while `pseq + n - size > cseq` and returns the producer cursor it read.  (The
code first consults a cached consumer position `gate ≤ cseq`; passing that test
implies passing the test against `cseq` itself, so the model has only the
latter — the cache is Core D's subject, C14/C15.)  `WriteWait` reports
`wrap = (start & mask) + l > size`.  Both `Write` and `WriteCommit` call
`waitForWriteSpace` AGAIN and store `that cursor + n`: the model does the same
(`start2`), it does not reuse the value `WriteWait` saw.

`Encode` is abstract: it writes exactly the packet's bytes and returns their
number, `n = l` (that `Encode` writes `Len()` bytes of a well-formed packet is
C03: `Properties/C03.lean`); into a buffer shorter than `l` it fails.  Bytes of
the scratch buffer beyond the packet stay as they were.

A whole-packet copy is one step.  That is not a restriction for the program as
it is: `C17_wrap_safety` shows that no producer step touches a cell the consumer
may read, so the order of the byte stores inside one copy is invisible.

`Shape` switches: `locked = false` is the program without `wmu`; `sliceN = false`
is `Write(svc.outtmp)` instead of `Write(svc.outtmp[0:n])`; `growTest = false`
drops the growth of the scratch buffer.  `code` is the program as it is; the
extractor's table of the two branches is equated with `wrapTable code` /
`plainTable code` in `Proofs/WriteWrapFacts.lean`.

Core Lean only.
-/
namespace Mqtt.Model.WriteWrap

structure Shape where
  locked   : Bool := true
  growTest : Bool := true
  sliceN   : Bool := true
deriving DecidableEq, Repr

/-- `writeMessage` as it is -/
def code : Shape := {}

/-- the model's own account of the two branches, in the extractor's vocabulary
(`extract/facts_wrap.go`): 10 growth test `len(svc.outtmp) < l` with `svc.outtmp = make([]byte, l)`,
20 `n, err = msg.Encode(svc.outtmp[0:])`, 30 `svc.out.Write(svc.outtmp[0:n])`,
31 `svc.out.Write(<the whole of svc.outtmp>)`, 40 `n, err = msg.Encode(buf[0:])`,
50 `svc.out.WriteCommit(n)` -/
def wrapTable (v : Shape) : List Nat :=
  (if v.growTest then [10] else []) ++ [20] ++ [if v.sliceN then 30 else 31]

def plainTable (_ : Shape) : List Nat := [40, 50]

/-- 1 `l := msg.Len()`, 2 `wmu.Lock`, 3 `defer wmu.Unlock`, 4 `buf, wrap, err = svc.out.WriteWait(l)`,
5 `if wrap {…} else {…}` -/
def headTable (v : Shape) : List Nat := [1] ++ (if v.locked then [2, 3] else []) ++ [4, 5]

inductive PC where
  | idle
  | entered                              -- holds wmu (unlocked variant: has started)
  | reserved (start : Nat)               -- WriteWait: wrap = false, buf = ring[start & mask, … + l)
  | encoded (start : Nat)                -- Encode(buf[0:]) done
  | commit (start2 : Nat)                -- WriteCommit: waitForWriteSpace returned start2
  | wrapped                              -- WriteWait: wrap = true
  | grown                                -- past the growth test
  | tmpEncoded (n : Nat)                 -- Encode(svc.outtmp[0:]) returned n
  | copying (start2 len : Nat)           -- Write(p), len = len(p): waitForWriteSpace returned start2
  | copied (start2 len : Nat)            -- ringCopy done
deriving DecidableEq, Repr

/-- the ring and the scratch buffer -/
structure Sh where
  pseq   : Nat := 0
  cseq   : Nat := 0
  ring   : List UInt8
  outtmp : List UInt8
  got    : List UInt8 := []              -- ghost: the bytes the consumer has taken out, in order
deriving DecidableEq, Repr

/-- `ringCopy(dst, src, s)` written out: `src` into the ring `dst` from index `s`, continuing
at index 0 when the end is reached (`Proofs/WriteWrap.lean`: this IS what the translated
`service.ringCopy` returns, `ringPut_is_source`) -/
def ringPut (dst src : List UInt8) (s : Nat) : List UInt8 :=
  if src.length ≤ dst.length - s then dst.take s ++ (src ++ dst.drop (s + src.length))
  else src.drop (dst.length - s) ++
    ((dst.take s).drop (src.length - (dst.length - s)) ++ src.take (dst.length - s))

/-- `Encode` into the slice `ring[p : p+len(m)]` that `WriteWait` handed out -/
def encodeAt (ring : List UInt8) (p : Nat) (m : List UInt8) : List UInt8 :=
  ring.take p ++ (m ++ ring.drop (p + m.length))

/-- the `n` bytes at stream positions `pos, pos+1, …` read off the ring -/
def readRing (ring : List UInt8) (size pos n : Nat) : List UInt8 :=
  (List.range n).map (fun i => ring.getD ((pos + i) % size) 0)

/-- what one step inside `writeMessage` does -/
inductive Out where
  | blocked                              -- waitForWriteSpace waits for the consumer
  | goto (pc : PC) (sh : Sh)
  | ret (ok : Bool) (sh : Sh)            -- writeMessage returns (deferred Unlock); ok = the packet was committed
deriving Repr

/-- one step of a delivery of packet `m` at program counter `pc` -/
def pcStep (v : Shape) (size : Nat) (sh : Sh) (m : List UInt8) : PC → Out
  | .idle => .blocked
  | .entered =>
    if m.length > size then .ret false sh                               -- ErrBufferFull
    else if sh.pseq + m.length > sh.cseq + size then .blocked
    else if sh.pseq % size + m.length > size then .goto .wrapped sh
    else .goto (.reserved sh.pseq) sh
  | .reserved start => .goto (.encoded start) { sh with ring := encodeAt sh.ring (start % size) m }
  | .encoded _ =>
    if m.length > size then .ret false sh
    else if sh.pseq + m.length > sh.cseq + size then .blocked
    else .goto (.commit sh.pseq) sh
  | .commit start2 => .ret true { sh with pseq := start2 + m.length }
  | .wrapped =>
    if v.growTest && decide (sh.outtmp.length < m.length)
    then .goto .grown { sh with outtmp := List.replicate m.length 0 }
    else .goto .grown sh
  | .grown =>
    if sh.outtmp.length < m.length then .ret false sh                   -- Encode: buffer too short
    else .goto (.tmpEncoded m.length) { sh with outtmp := m ++ sh.outtmp.drop m.length }
  | .tmpEncoded n =>
    let len := if v.sliceN then n else sh.outtmp.length
    if len > size then .ret false sh
    else if sh.pseq + len > sh.cseq + size then .blocked
    else .goto (.copying sh.pseq len) sh
  | .copying start2 len =>
    .goto (.copied start2 len) { sh with ring := ringPut sh.ring (sh.outtmp.take len) (start2 % size) }
  | .copied start2 len => .ret true { sh with pseq := start2 + len }

structure Th where
  pc   : PC := .idle
  todo : List (List UInt8)               -- packets still to deliver, in order
deriving Repr

/-- ghost: one finished call of `writeMessage` -/
structure Entry where
  t   : Nat                              -- the thread
  ok  : Bool                             -- committed (true) or returned an error (false)
  pkt : List UInt8
deriving DecidableEq, Repr

structure St where
  sh     : Sh
  holder : Option Nat := none            -- wmu
  ths    : List Th
  log    : List Entry := []              -- ghost: finished deliveries in the order they finished
deriving Repr

/-- one step of thread `t`; `none` = not enabled -/
def step (v : Shape) (size : Nat) (s : St) (t : Nat) : Option St :=
  match s.ths[t]? with
  | none => none
  | some th =>
    match th.todo with
    | [] => none
    | m :: rest =>
      if th.pc = .idle then
        if v.locked then
          if s.holder.isSome then none
          else some { s with holder := some t, ths := s.ths.set t { th with pc := .entered } }
        else some { s with ths := s.ths.set t { th with pc := .entered } }
      else
        match pcStep v size s.sh m th.pc with
        | .blocked => none
        | .goto pc' sh' => some { s with sh := sh', ths := s.ths.set t { th with pc := pc' } }
        | .ret ok sh' =>
          some { sh := sh', holder := if v.locked then none else s.holder,
                 ths := s.ths.set t { pc := .idle, todo := rest },
                 log := s.log ++ [{ t := t, ok := ok, pkt := m }] }

/-- the consumer takes out up to `k` of the bytes below the producer cursor -/
def consume (size : Nat) (s : St) (k : Nat) : St :=
  let n := min k (s.sh.pseq - s.sh.cseq)
  { s with sh := { s.sh with cseq := s.sh.cseq + n,
                             got := s.sh.got ++ readRing s.sh.ring size s.sh.cseq n } }

inductive Act where
  | th (t : Nat)
  | consume (k : Nat)
deriving DecidableEq, Repr

def act (v : Shape) (size : Nat) (s : St) : Act → St
  | .th t => (step v size s t).getD s           -- a disabled choice is skipped
  | .consume k => consume size s k

def run (v : Shape) (size : Nat) (s : St) : List Act → St
  | [] => s
  | a :: as => run v size (act v size s a) as

/-- packets committed so far, in commit order -/
def done (s : St) : List (List UInt8) := (s.log.filter (·.ok)).map (·.pkt)

/-- packets whose delivery returned an error -/
def failed (s : St) : List (List UInt8) := (s.log.filter (fun e => !e.ok)).map (·.pkt)

/-- the packets thread `t` has finished delivering (either way), in order -/
def sent (log : List Entry) (t : Nat) : List (List UInt8) := (log.filter (fun e => e.t == t)).map (·.pkt)

/-- the committed, not yet consumed bytes `[cseq, pseq)` read off the ring -/
def unread (size : Nat) (s : St) : List UInt8 := readRing s.sh.ring size s.sh.cseq (s.sh.pseq - s.sh.cseq)

/-- fresh connection: empty ring of `size` cells, scratch buffer `tmp0` -/
def init (size : Nat) (tmp0 : List UInt8) (todos : List (List (List UInt8))) : St :=
  { sh := { ring := List.replicate size 0, outtmp := tmp0 }, ths := todos.map (fun l => { todo := l }) }

end Mqtt.Model.WriteWrap
