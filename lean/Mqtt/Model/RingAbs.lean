/-
Core D, layer 1 — the ring as an abstract machine: only the cursor, gate, cell
and commit steps, each with the guard that makes it safe: the producer writes
and commits only below `cseq + size`, the consumer commits only below `pseq`.
It carries the whole arithmetic of C14 (`Proofs/RingAbs.lean`: `AInv` is
preserved by every step); the real program (`Model/Ring.lean`, layer 2) maps
onto it step by step (`sim_step`): every layer-2 step is a layer-1 step or
changes nothing the abstraction sees.  That the producer's guard holds is what
layer 2 shows from what the producer is entitled to KNOW — a lower bound of the
consumer cursor, which only moves forward: the gate (`waitForWriteSpace`), or
the cursor value `ReadFrom` has loaded itself (repository commit 8f682d1).
-/
namespace Mqtt.Model.RingAbs

structure A where
  pseq : Nat
  cseq : Nat
  gate : Nat                -- the producer's lower bound on `cseq`
  cell : Nat → UInt8        -- ring memory by index
  got : List UInt8          -- bytes the consumer obtained

def upd (f : Nat → UInt8) (k : Nat) (v : UInt8) : Nat → UInt8 := fun i => if i = k then v else f i

/-- layer-1 steps of a ring of `size` cells carrying the stream `src` -/
inductive AStep (size : Nat) (src : Nat → UInt8) : A → A → Prop
  /-- the producer learns a newer consumer position -/
  | learnGate (a : A) (g : Nat) : a.gate ≤ g → g ≤ a.cseq → AStep size src a { a with gate := g }
  /-- the producer writes the stream byte of a position inside the free part `[pseq, cseq+size)` -/
  | write (a : A) (pos : Nat) : a.pseq ≤ pos → pos < a.cseq + size →
      AStep size src a { a with cell := upd a.cell (pos % size) (src pos) }
  /-- the producer commits `n` written positions -/
  | commitP (a : A) (n : Nat) : (∀ i, i < n → a.cell ((a.pseq + i) % size) = src (a.pseq + i)) →
      (0 < n → a.pseq + n ≤ a.cseq + size) → AStep size src a { a with pseq := a.pseq + n }
  /-- the consumer commits `n` positions below `pseq`, obtaining the bytes in their cells -/
  | commitC (a : A) (n : Nat) : a.cseq + n ≤ a.pseq →
      AStep size src a { a with cseq := a.cseq + n,
                                got := a.got ++ (List.range n).map (fun i => a.cell ((a.cseq + i) % size)) }

end Mqtt.Model.RingAbs
