/-
Core B — model of `topics/memtopics.go` (code-shaped: two tries of maps, the
byte state machine `nextTopicLevel`, in the order and with the quirks of the Go
code).

Go maps are association lists with unique keys; everything that comes out of a
`range` over a map is an unordered result (the driver sorts, theorems are up to
`List.Perm`).  Subscribers are natural numbers (pointer identities).
-/
namespace Mqtt.Model.Topics

abbrev Level := List UInt8

def cSEP : UInt8 := 47   -- '/'
def cMWC : UInt8 := 35   -- '#'
def cSWC : UInt8 := 43   -- '+'
def cSYS : UInt8 := 36   -- '$'

def MWC : Level := [cMWC]
def SWC : Level := [cSWC]

/-! ### `nextTopicLevel` -/

/-- the scanner states; `sys` (Go: `stateSYS`) is no longer entered since '$' is
an ordinary character of `nextTopicLevel` - the constant is still declared in
the Go code, so it stays here too -/
inductive LState where
  | chr | mwc | swc | sys
deriving DecidableEq, Repr

inductive NTL where
  | err
  | ok (level rem : Level) (remNil : Bool)   -- remNil: Go returned a nil remainder (end of topic)
deriving DecidableEq, Repr

/-- the `for i, c := range topic` loop; `pre` is `topic[:i]` reversed.  '$' has
no case of its own: it is handled by `default:` like any other byte (a level
that starts with '+' or '#' may not continue, with '$' or anything else). -/
def ntlLoop : (pre : List UInt8) → LState → (rest : List UInt8) → NTL
  | pre, _, [] => .ok pre.reverse [] true
  | pre, s, c :: rest =>
    if c == cSEP then
      if s == .mwc then .err
      else if pre.isEmpty then .ok SWC rest false
      else .ok pre.reverse rest false
    else if c == cMWC then
      if !pre.isEmpty then .err else ntlLoop (c :: pre) .mwc rest
    else if c == cSWC then
      if !pre.isEmpty then .err else ntlLoop (c :: pre) .swc rest
    else
      -- `default:` - every other byte, '$' included
      if s == .mwc || s == .swc then .err else ntlLoop (c :: pre) .chr rest

def nextTopicLevel (topic : List UInt8) : NTL := ntlLoop [] .chr topic

/-- The walk all trie operations perform: call `nextTopicLevel` until the
remainder is empty (`len(topic) == 0`), collecting the levels.  Returns the
levels obtained before the first error and whether the walk ended without one.
`fuel` bounds the number of iterations (`topic.length + 1` suffices). -/
def levelsFuel : Nat → List UInt8 → List Level × Bool
  | 0, _ => ([], false)
  | fuel + 1, topic =>
    if topic.isEmpty then ([], true) else
    match nextTopicLevel topic with
    | .err => ([], false)
    | .ok l rem _ =>
      let (ls, ok) := levelsFuel fuel rem
      (l :: ls, ok)

def levels (topic : List UInt8) : List Level × Bool := levelsFuel (topic.length + 1) topic

/-! ### association lists standing for Go maps -/

def kidGet {α} (kids : List (Level × α)) (k : Level) : Option α := kids.lookup k
def kidDel {α} (kids : List (Level × α)) (k : Level) : List (Level × α) := kids.filter (fun p => p.1 != k)
/-- replace in place if present, else append (order is immaterial) -/
def kidSet {α} (kids : List (Level × α)) (k : Level) (v : α) : List (Level × α) :=
  if (kids.lookup k).isSome then kids.map (fun p => if p.1 == k then (k, v) else p) else kids ++ [(k, v)]

/-! ### subscription trie -/

inductive SNode where
  | mk (subs : List (Nat × Nat)) (kids : List (Level × SNode))
deriving Repr

def SNode.empty : SNode := .mk [] []
def SNode.subs : SNode → List (Nat × Nat) | .mk s _ => s
def SNode.kids : SNode → List (Level × SNode) | .mk _ k => k

/-- the leaf part of `sinsert`: replace the QoS of an existing subscriber or append -/
def subsInsert (subs : List (Nat × Nat)) (sub qos : Nat) : List (Nat × Nat) :=
  if subs.any (fun p => p.1 == sub) then
    subs.map (fun p => if p.1 == sub then (sub, qos) else p)   -- only the first match in Go; entries are unique
  else subs ++ [(sub, qos)]

/-- `sinsert` along the levels obtained before an error (`ok = false`: the walk
hit an invalid level after these — the nodes created so far stay, as in Go). -/
def SNode.sinsertL : List Level → Bool → Nat → Nat → SNode → SNode
  | [], ok, sub, qos, .mk subs kids => if ok then .mk (subsInsert subs sub qos) kids else .mk subs kids
  | l :: ls, ok, sub, qos, .mk subs kids =>
    let child := (kidGet kids l).getD SNode.empty
    .mk subs (kidSet kids l (SNode.sinsertL ls ok sub qos child))

def SNode.sinsert (n : SNode) (topic : List UInt8) (qos sub : Nat) : SNode × Bool :=
  let (ls, ok) := levels topic
  (n.sinsertL ls ok sub qos, ok)

/-- leaf part of `sremove`; `none` = "remove all" (`sub == nil`). Returns the new
list and whether Go returned nil. -/
def subsRemove (subs : List (Nat × Nat)) : Option Nat → List (Nat × Nat) × Bool
  | none => ([], true)
  | some s =>
    if subs.any (fun p => p.1 == s) then (subs.eraseP (fun p => p.1 == s), true) else (subs, false)

/-- `sremove`: walk down; on the way back prune a child that has neither
subscribers nor children — only when the recursive call succeeded. -/
def SNode.sremoveL : List Level → Bool → Option Nat → SNode → SNode × Bool
  | [], ok, sub, .mk subs kids =>
    if ok then let (s', r) := subsRemove subs sub; (.mk s' kids, r) else (.mk subs kids, false)
  | l :: ls, ok, sub, .mk subs kids =>
    match kidGet kids l with
    | none => (.mk subs kids, false)
    | some child =>
      let (child', r) := SNode.sremoveL ls ok sub child
      if !r then (.mk subs (kidSet kids l child'), false)
      else if child'.subs.isEmpty && child'.kids.isEmpty then (.mk subs (kidDel kids l), true)
      else (.mk subs (kidSet kids l child'), true)

def SNode.sremove (n : SNode) (topic : List UInt8) (sub : Option Nat) : SNode × Bool :=
  let (ls, ok) := levels topic
  n.sremoveL ls ok sub

def matchQos (qos : Nat) (subs : List (Nat × Nat)) : List (Nat × Nat) :=
  subs.map (fun p => (p.1, if qos > p.2 then p.2 else qos))

/-- all results, or the error if any branch failed -/
def optConcat {α} : List (Option (List α)) → Option (List α)
  | [] => some []
  | none :: _ => none
  | some l :: rest => (optConcat rest).map (l ++ ·)

/-- `smatch` over the name's levels: at every node, for every child `k`:
`#` contributes its own subscribers; `+` or the literal level are descended
into.  `ok = false`: `nextTopicLevel` fails after these levels — the error
surfaces only if some branch of the trie is actually walked that far (Go calls
`nextTopicLevel` lazily), and then the whole call fails. -/
def SNode.smatchL : List Level → Bool → Nat → SNode → Option (List (Nat × Nat))
  | [], ok, qos, .mk subs kids =>
    if ok then
      -- name exhausted: this node's subscribers, and those of a `#` child
      -- ("sport/#" matches "sport")
      some (matchQos qos subs ++ match kidGet kids MWC with
        | some n => matchQos qos n.subs
        | none => [])
    else none
  | l :: ls, ok, qos, .mk _ kids =>
    optConcat (kids.map (fun p =>
      if p.1 == MWC then some (matchQos qos p.2.subs)
      else if p.1 == SWC || p.1 == l then SNode.smatchL ls ok qos p.2
      else some []))

def SNode.smatch (n : SNode) (topic : List UInt8) (qos : Nat) : Option (List (Nat × Nat)) :=
  let (ls, ok) := levels topic
  n.smatchL ls ok qos

/-! ### retained trie -/

/-- a stored retained message: what `rinsert` copies (`Encode` into `rn.buf`, `Decode` back) -/
structure RMsg where
  topic   : List UInt8
  qos     : Nat
  payload : List UInt8
  dup     : Bool := false
  retain  : Bool := true
  pktid   : Nat := 0
deriving DecidableEq, Repr

inductive RNode where
  | mk (msg : Option RMsg) (kids : List (Level × RNode))
deriving Repr

def RNode.empty : RNode := .mk none []
def RNode.msg : RNode → Option RMsg | .mk m _ => m
def RNode.kids : RNode → List (Level × RNode) | .mk _ k => k

def RNode.rinsertL : List Level → Bool → RMsg → RNode → RNode
  | [], ok, m, .mk old kids => if ok then .mk (some m) kids else .mk old kids
  | l :: ls, ok, m, .mk old kids =>
    let child := (kidGet kids l).getD RNode.empty
    .mk old (kidSet kids l (RNode.rinsertL ls ok m child))

def RNode.rinsert (n : RNode) (topic : List UInt8) (m : RMsg) : RNode × Bool :=
  let (ls, ok) := levels topic
  (n.rinsertL ls ok m, ok)

/-- `rremove`: on the way back a child with neither children nor a message of
its own is pruned. -/
def RNode.rremoveL : List Level → Bool → RNode → RNode × Bool
  | [], ok, .mk old kids => if ok then (.mk none kids, true) else (.mk old kids, false)
  | l :: ls, ok, .mk old kids =>
    match kidGet kids l with
    | none => (.mk old kids, false)
    | some child =>
      let (child', r) := RNode.rremoveL ls ok child
      if !r then (.mk old (kidSet kids l child'), false)
      else if child'.kids.isEmpty && child'.msg.isNone then (.mk old (kidDel kids l), true)
      else (.mk old (kidSet kids l child'), true)

def RNode.rremove (n : RNode) (topic : List UInt8) : RNode × Bool :=
  let (ls, ok) := levels topic
  n.rremoveL ls ok

mutual
  def RNode.allRetained : RNode → List RMsg
    | .mk m kids => m.toList ++ RNode.allRetainedKids kids
  def RNode.allRetainedKids : List (Level × RNode) → List RMsg
    | [] => []
    | (_, n) :: rest => n.allRetained ++ RNode.allRetainedKids rest
end

/-- `rmatch` over the *filter's* levels (errors surface lazily, as in `smatch`). -/
def RNode.rmatchL : List Level → Bool → RNode → Option (List RMsg)
  | [], ok, .mk m _ => if ok then some m.toList else none
  | l :: ls, ok, .mk m kids =>
    if l == MWC then some (RNode.mk m kids).allRetained
    else if l == SWC then optConcat (kids.map (fun p => RNode.rmatchL ls ok p.2))
    else match kidGet kids l with
      | some child => RNode.rmatchL ls ok child
      | none => some []

def RNode.rmatch (n : RNode) (topic : List UInt8) : Option (List RMsg) :=
  let (ls, ok) := levels topic
  n.rmatchL ls ok

/-! ### `MemTopics`

The five entry points below are the only way the broker and client models reach
the tries (as in the library, where `sinsert` … `rmatch` are unexported). -/

structure MemTopics where
  sroot : SNode
  rroot : RNode
deriving Repr

def MemTopics.new : MemTopics := ⟨SNode.empty, RNode.empty⟩

def validQos (q : Nat) : Bool := q == 0 || q == 1 || q == 2

/-- the second test of `checkTopic`: the topic begins with '$' (`topic[0] == '$'`) -/
def checkSys (topic : List UInt8) : Bool := topic.head? == some cSYS

/-- `checkTopic(topic) != nil`: the topic is empty (`len(topic) == 0`; topic names
and filters have at least one character, MQTT-4.7.3-1) or begins with '$'.
Every entry point of `MemTopics` rejects such a topic before the trie is touched
(without this test the empty topic would address the root node: `sinsert` & co.
treat `len(topic) == 0` as "end of the walk"). -/
def checkTopic (topic : List UInt8) : Bool := topic.isEmpty || checkSys topic

/-- `Subscribe(topic, qos, sub)`; returns the granted QoS or failure. -/
def MemTopics.subscribe (mt : MemTopics) (maxQos : Nat) (topic : List UInt8) (qos sub : Nat) :
    MemTopics × Option Nat :=
  if !validQos qos then (mt, none) else
  let qos := if qos > maxQos then maxQos else qos
  if checkTopic topic then (mt, none) else
  let (r, ok) := mt.sroot.sinsert topic qos sub
  ({ mt with sroot := r }, if ok then some qos else none)

def MemTopics.unsubscribe (mt : MemTopics) (topic : List UInt8) (sub : Option Nat) : MemTopics × Bool :=
  if checkTopic topic then (mt, false) else
  let (r, ok) := mt.sroot.sremove topic sub
  ({ mt with sroot := r }, ok)

def MemTopics.subscribers (mt : MemTopics) (topic : List UInt8) (qos : Nat) : Option (List (Nat × Nat)) :=
  if !validQos qos then none else
  if checkTopic topic then none else mt.sroot.smatch topic qos

/-- `Retain(msg)`: an empty payload removes. -/
def MemTopics.retain (mt : MemTopics) (m : RMsg) : MemTopics × Bool :=
  if checkTopic m.topic then (mt, false) else
  if m.payload.isEmpty then
    let (r, ok) := mt.rroot.rremove m.topic
    ({ mt with rroot := r }, ok)
  else
    let (r, ok) := mt.rroot.rinsert m.topic m
    ({ mt with rroot := r }, ok)

def MemTopics.retained (mt : MemTopics) (topic : List UInt8) : Option (List RMsg) :=
  if checkTopic topic then none else mt.rroot.rmatch topic

end Mqtt.Model.Topics
