/-
Core D — model of `service/buffer.go` (the byte ring between socket and protocol
engine) as a concurrent small-step program: layer 2 of DESIGN §5 "Core D".

Threads: one producer `p`, one consumer `c`, closers `k i`; each runs a finite
list of API calls.  Every call is expanded into its atomic steps, one program
counter per shared access / `Lock` / `Unlock` / `Wait` (park, resume) /
`Broadcast` / `return` (with the lock state it returns in).  The constructor
`Pc.xNN` is the program point *before* the statement marked `verifYield(NN)` in
buffer.go (build tag `verif`); `yid` gives the mark.  Byte copies are one step
per byte (constructors ending in `c`, visible to the real scheduler only at
their first byte).

`ReadFrom(r)` (call `rfrom`, marks 110, 112, 111) is modelled whole: the loop
`isDone` — `waitForWriteSpace(1)` — load of the consumer cursor and computation
of the free, contiguous part of the ring (at most one read block) — `r.Read`
into it (the reader is a script of byte counts) — `WriteCommit(n)`, and the
deferred `Close` on every return.  (Repository commit 8f682d1; before it the
loop waited for a whole read block — finding F3.)  `WriteTo` is the mirror
image over `ReadPeek`/`ReadCommit` with no shared access of its own and is
exercised free-running only.

Finding F9 (repaired in buffer.go, modelled here as repaired): a wait loop tests the other side's cursor in its
condition and `isDone` in its body — two statements.  The consumer loops (`Read`, `ReadPeek`, `ReadWait`) load the
producer cursor AGAIN once they have seen `done` (`r75r`, `p84r`: marks 131–133) and return end-of-stream only if the
data is still missing: `done` is stored after the closer's last commit, so that load sees every byte committed before
`Close`.  `waitForWriteSpace` tests `isDone` once more when it has found room (`s39`: mark 39), after its last look at
the consumer cursor: a producer woken by `Close`, or finding room only after `Close`, returns end-of-stream instead of
writing into a closed ring.  `tstepPreF9` / `runPreF9` is the program before the repair (it differs at four program
counters), kept for the closed counterexamples of `Properties/C15.lean`.

Ghost state: the source stream `cfg.src` (the producer's k-th written byte is
`src k`) and `gotRev`, the bytes the consumer obtained (newest first).

Go semantics assumed (trusted, see NOTES-ring.md): `sync.Mutex` (no owner
check on `Unlock`; unlocking a free mutex is a fatal error = `crash`),
`sync.Cond` (`Wait` = enqueue + unlock atomically, wake only by `Broadcast`,
re-lock on wake), `sync/atomic` sequentially consistent, `int64` cursors as
naturals, `x & mask` with `size = 2^k`.
-/
import Mqtt.Iface.Ring

namespace Mqtt.Model.Ring
open Mqtt.Iface.Ring

structure Cfg where
  k : Nat
  src : Nat → UInt8
  rblock : Nat := 8192      -- defaultReadBlockSize: `ReadFrom` offers its reader at most this much

def Cfg.size (cfg : Cfg) : Nat := 2 ^ cfg.k
/-- `pos & bf.mask` -/
def Cfg.idx (cfg : Cfg) (pos : Nat) : Nat := pos &&& (cfg.size - 1)

/-- the two condition variables with their own mutexes -/
inductive Mx where
  | pL   -- pcond / pcond.L : the producer waits here for space
  | cL   -- ccond / ccond.L : the consumer waits here for data
deriving DecidableEq, Repr

/-- what `ReadPeek`/`ReadWait` handed out: nothing, a slice of the ring itself
(stream positions `cpos … cpos+m`), or the scratch copy `bf.tmp`. -/
inductive View where
  | none
  | alias (cpos m : Nat)
  | tmp (cpos : Nat) (bytes : List UInt8)
deriving Repr, DecidableEq

structure Res where
  n : Nat := 0
  err : Err := .ok
  off : Nat := 0
  data : List UInt8 := []
  wrapped : Bool := false
deriving Repr, DecidableEq

/-- program counters (with the live locals of the Go function) -/
inductive Pc where
  | idle
  -- Close
  | x10 | x11 | x12 | x13 | x14 | x15 | x16
  -- Len
  | l20 | l21 (cpos : Nat)
  -- waitForWriteSpace(n)
  | s30 (n : Nat) | s31 (n : Nat) | s32 (n ppos : Nat) | s33 (n ppos : Nat) | s34 (n ppos : Nat)
  | s35 (n ppos : Nat) | s36 (n ppos : Nat) | s36w (n ppos : Nat) | s37 (n ppos : Nat)
  | s38 (n ppos cpos : Nat)
  | s39 (n ppos : Nat)                        -- room found: `isDone` once more, after the last look at the consumer cursor (F9)
  -- Write(p), |p| = n
  | w40 (n : Nat) | w41c (n ppos j : Nat) | w42 (n ppos : Nat) | w43 (n : Nat) | w44 (n : Nat) | w45 (n : Nat)
  -- WriteCommit(n)
  | c50 (n ppos : Nat) | c51 (n : Nat) | c52 (n : Nat) | c53 (n : Nat)
  -- the producer fills the slice WriteWait returned
  | f0 (start len j : Nat)
  -- ReadFrom(r): `tot` bytes read so far, `ms` the rest of the reader's script
  | g110 (tot : Nat) (ms : List Nat)                 -- loop head: isDone, then waitForWriteSpace(1)
  | g112 (tot : Nat) (ms : List Nat) (ppos : Nat)    -- cseq load, count, clamp to the ring end
  | g111 (tot : Nat) (ms : List Nat) (start len : Nat)    -- r.Read(bf.buf[pstart:pend]), len = pend - pstart
  | g111c (tot : Nat) (ms : List Nat) (start n j : Nat)   -- the reader fills n bytes
  | g111r (tot : Nat) (ms : List Nat) (n : Nat)           -- r.Read has returned (n, nil): total += n, WriteCommit(n)
  -- Read(p), |p| = n;  b2 = second copy branch (marks 68–72 instead of 63–67)
  | r60 (n : Nat) | r61 (n : Nat) | r62 (n cpos : Nat)
  | r63c (b2 : Bool) (cpos k j : Nat) (acc : List UInt8)
  | r64 (b2 : Bool) (cpos : Nat) (acc : List UInt8) | r65 (b2 : Bool) (cpos : Nat) (acc : List UInt8)
  | r66 (b2 : Bool) (cpos : Nat) (acc : List UInt8) | r67 (b2 : Bool) (cpos : Nat) (acc : List UInt8)
  | r73 (n cpos : Nat) | r74 (n cpos : Nat) | r75 (n cpos : Nat) | r76 (n cpos : Nat) | r77 (n cpos : Nat)
  | r75r (n cpos : Nat)                       -- `done` seen: the producer cursor is loaded again before end-of-stream (F9)
  | r77w (n cpos : Nat) | r78 (n cpos : Nat) | r79 (n : Nat)
  -- ReadPeek(n) (w = false, marks 80–89) and ReadWait(n) (w = true, marks 90–99)
  | p80 (w : Bool) (n : Nat) | p81 (w : Bool) (n cpos : Nat) | p82 (w : Bool) (n cpos : Nat)
  | p83 (w : Bool) (n cpos : Nat) | p84 (w : Bool) (n cpos : Nat) | p85 (w : Bool) (n cpos : Nat)
  | p86 (w : Bool) (n cpos : Nat) | p86w (w : Bool) (n cpos : Nat) | p87 (w : Bool) (n cpos : Nat)
  | p88 (w : Bool) (n cpos ppos : Nat)
  | p84r (w : Bool) (n cpos : Nat)            -- `done` seen: the producer cursor is loaded again before end-of-stream (F9)
  | p89c (w : Bool) (cpos m : Nat) (err : Err) (j : Nat) (acc : List UInt8)
  -- ReadCommit(n)
  | k100 (n : Nat) | k101 (n cpos : Nat) | k102 (n cpos : Nat) | k103 (n : Nat) | k104 (n : Nat) | k105 (n : Nat)
  -- the consumer reads the bytes of an aliased view
  | u0 (cpos m j : Nat) (acc : List UInt8)
deriving Repr, DecidableEq

/-- the `verifYield` mark a thread at this pc is parked at (none: idle, parked in
`Wait`, or inside a byte copy) -/
def Pc.yid : Pc → Option Nat
  | .idle => none
  | .x10 => some 10 | .x11 => some 11 | .x12 => some 12 | .x13 => some 13 | .x14 => some 14
  | .x15 => some 15 | .x16 => some 16
  | .l20 => some 20 | .l21 _ => some 21
  | .s30 _ => some 30 | .s31 _ => some 31 | .s32 _ _ => some 32 | .s33 _ _ => some 33 | .s34 _ _ => some 34
  | .s35 _ _ => some 35 | .s36 _ _ => some 36 | .s36w _ _ => none | .s37 _ _ => some 37 | .s38 _ _ _ => some 38
  | .s39 _ _ => some 39
  | .w40 _ => some 40 | .w41c _ _ j => if j = 0 then some 41 else none | .w42 _ _ => some 42
  | .w43 _ => some 43 | .w44 _ => some 44 | .w45 _ => some 45
  | .c50 _ _ => some 50 | .c51 _ => some 51 | .c52 _ => some 52 | .c53 _ => some 53
  | .f0 _ _ _ => none
  | .g110 _ _ => some 110 | .g112 _ _ _ => some 112 | .g111 _ _ _ _ => some 111 | .g111c _ _ _ _ _ => none | .g111r _ _ _ => none
  | .r60 _ => some 60 | .r61 _ => some 61 | .r62 _ _ => some 62
  | .r63c b _ _ j _ => if j = 0 then some (if b then 68 else 63) else none
  | .r64 b _ _ => some (if b then 69 else 64) | .r65 b _ _ => some (if b then 70 else 65)
  | .r66 b _ _ => some (if b then 71 else 66) | .r67 b _ _ => some (if b then 72 else 67)
  | .r73 _ _ => some 73 | .r74 _ _ => some 74 | .r75 _ _ => some 75 | .r76 _ _ => some 76 | .r77 _ _ => some 77
  | .r77w _ _ => none | .r78 _ _ => some 78 | .r79 _ => some 79
  | .r75r _ _ => some 131
  | .p80 w _ => some (if w then 90 else 80) | .p81 w _ _ => some (if w then 91 else 81)
  | .p82 w _ _ => some (if w then 92 else 82) | .p83 w _ _ => some (if w then 93 else 83)
  | .p84 w _ _ => some (if w then 94 else 84) | .p85 w _ _ => some (if w then 95 else 85)
  | .p86 w _ _ => some (if w then 96 else 86) | .p86w _ _ _ => none
  | .p87 w _ _ => some (if w then 97 else 87) | .p88 w _ _ _ => some (if w then 98 else 88)
  | .p84r w _ _ => some (if w then 133 else 132)
  | .p89c w _ _ _ j _ => if j = 0 then some (if w then 99 else 89) else none
  | .k100 _ => some 100 | .k101 _ _ => some 101 | .k102 _ _ => some 102 | .k103 _ => some 103
  | .k104 _ => some 104 | .k105 _ => some 105
  | .u0 _ _ _ _ => none

/-- parked inside `Cond.Wait` (mark of the `Wait` statement) -/
def Pc.parkedAt : Pc → Option Nat
  | .s36w _ _ => some 36
  | .r77w _ _ => some 77
  | .p86w w _ _ => some (if w then 96 else 86)
  | _ => none

/-- per-thread state -/
structure Th where
  pc : Pc := .idle
  prog : List Call := []
  cur : Option Call := none            -- the API call in progress
  slice : Option (Nat × Nat) := none   -- producer: slice handed out by WriteWait (stream start, length)
  filled : Nat := 0                    -- producer: bytes of that slice it has filled (from its start)
  view : View := .none                 -- consumer: view handed out by ReadPeek/ReadWait
  pending : List UInt8 := []           -- consumer: bytes read from the view, not yet committed
  res : Option Res := none             -- result of the call that returned in this thread's last step
deriving Repr, DecidableEq

/-- shared state of one ring -/
structure Sh where
  buf : Array UInt8
  pseq : Nat := 0
  cseq : Nat := 0
  gate : Nat := 0           -- `pseq.gate`: the producer's cached consumer position
  done : Bool := false
  pL : Option Tid := none   -- holder of pcond.L
  cL : Option Tid := none   -- holder of ccond.L
  pNote : Bool := false     -- the thread parked on pcond has been woken by a Broadcast
  cNote : Bool := false     -- the thread parked on ccond has been woken by a Broadcast
  crash : Bool := false     -- fatal error: unlock of an unlocked mutex
  gotRev : List UInt8 := [] -- ghost: bytes the consumer obtained, newest first

def rd (buf : Array UInt8) (i : Nat) : UInt8 := buf.getD i 0
def wr (buf : Array UInt8) (i : Nat) (v : UInt8) : Array UInt8 := buf.setIfInBounds i v

def Sh.owner (sh : Sh) : Mx → Option Tid
  | .pL => sh.pL
  | .cL => sh.cL

def Sh.setOwner (sh : Sh) (m : Mx) (o : Option Tid) : Sh :=
  match m with
  | .pL => { sh with pL := o }
  | .cL => { sh with cL := o }

def Sh.setNote (sh : Sh) (m : Mx) (b : Bool) : Sh :=
  match m with
  | .pL => { sh with pNote := b }
  | .cL => { sh with cNote := b }

def Sh.note (sh : Sh) : Mx → Bool
  | .pL => sh.pNote
  | .cL => sh.cNote

/-- `m.Lock()`: enabled only while the mutex is free -/
def Sh.lock (sh : Sh) (m : Mx) (me : Tid) : Option Sh :=
  match sh.owner m with
  | none => some (sh.setOwner m (some me))
  | some _ => none

/-- `m.Unlock()` (Go does not check the owner; unlocking a free mutex is fatal) -/
def Sh.unlock (sh : Sh) (m : Mx) : Sh :=
  match sh.owner m with
  | none => { sh with crash := true }
  | some _ => sh.setOwner m none

/-- `cond.Broadcast()` -/
def Sh.bcast (sh : Sh) (m : Mx) : Sh := sh.setNote m true

/-- `cond.Wait()`, first half: join the wait list and release the mutex, atomically -/
def Sh.park (sh : Sh) (m : Mx) : Sh := (sh.setNote m false).unlock m

/-- `cond.Wait()`, second half: once woken, re-acquire the mutex -/
def Sh.resume (sh : Sh) (m : Mx) (me : Tid) : Option Sh :=
  if sh.note m then (sh.lock m me).map (fun s => s.setNote m false) else none

def Th.goto (th : Th) (pc : Pc) : Th := { th with pc := pc }
def Th.ret (th : Th) (r : Res) : Th := { th with pc := .idle, cur := none, res := some r }

/-- `ReadFrom` returns `(n, e)`: its deferred `Close` runs first (the frame `rfret n e` keeps the
values; the slice and the fill count were locals of `ReadFrom`) -/
def rfExit (th : Th) (n : Nat) (e : Err) : Th :=
  { th with cur := some (.rfret n e), slice := none, filled := 0 }.goto .x10

/-- return of `waitForWriteSpace` with an error: into `ReadFrom` (`return 0, err`), into the
`WriteCommit` called by `ReadFrom` (`return total, err`), or to the caller of the ring -/
def wfsErr (th : Th) (e : Err) : Th :=
  match th.cur with
  | some (.rfrom _ _) => rfExit th 0 e
  | some (.rfcommit tot _) => rfExit th tot e
  | _ => th.ret { err := e }

/-- return of `WriteCommit(n)`: into the loop of `ReadFrom`, or to the caller of the ring -/
def wcRet (th : Th) (n : Nat) : Th :=
  match th.cur with
  | some (.rfcommit tot ms) => { th with cur := some (.rfrom tot ms) }.goto (.g110 tot ms)
  | _ => th.ret { n := n }

/-- return of `Close`: the deferred `Close` of `ReadFrom` is followed by `ReadFrom`'s own return -/
def closeRet (th : Th) : Th :=
  match th.cur with
  | some (.rfret n e) => th.ret { n := n, err := e }
  | _ => th.ret {}

/-- return `(ppos, n, nil)` of `waitForWriteSpace` into its caller -/
def wfsOk (cfg : Cfg) (th : Th) (ppos n : Nat) : Th :=
  match th.cur with
  | some (.write _) => th.goto (.w41c n ppos 0)
  | some (.wwait _) =>
    let pstart := cfg.idx ppos
    if pstart + n > cfg.size then
      { th with slice := some (ppos, cfg.size - pstart) }.ret { n := cfg.size - pstart, off := ppos, wrapped := true }
    else
      { th with slice := some (ppos, n) }.ret { n := n, off := ppos }
  | some (.wcommit _) => th.goto (.c50 n ppos)
  | some (.rfrom tot ms) => th.goto (.g112 tot ms ppos)
  | some (.rfcommit _ _) => th.goto (.c50 n ppos)
  | _ => th.ret { err := .nouse }

/-- entry of `waitForWriteSpace(n)`: the size check, up to mark 30 -/
def enterWfs (cfg : Cfg) (th : Th) (n : Nat) : Th :=
  if n > cfg.size then wfsErr th .full else th.goto (.s30 n)

/-- the wait condition of the consumer loops: ReadPeek `cpos >= ppos`, ReadWait `next > ppos` -/
def mustWait (w : Bool) (n cpos ppos : Nat) : Bool :=
  if w then decide (cpos + n > ppos) else decide (cpos ≥ ppos)

/-- first step of a call: argument checks that touch no shared state, up to the first mark -/
def startCall (cfg : Cfg) (th : Th) (call : Call) : Th :=
  match call with
  | .write n => { th with slice := none, filled := 0 }.goto (.w40 n)
  | .wwait n => enterWfs cfg { th with slice := none, filled := 0 } n
  | .wcommit n => enterWfs cfg { th with slice := none } (min n th.filled)
  | .wfill =>
    match th.slice with
    | some (start, len) => { th with filled := 0 }.goto (.f0 start len 0)
    | none => th.ret { err := .nouse }
  | .rfrom tot ms => { th with slice := none, filled := 0 }.goto (.g110 tot ms)
  | .rfcommit _ _ => th.ret { err := .nouse }
  | .rfret _ _ => th.ret { err := .nouse }
  | .read n => { th with view := .none, pending := [] }.goto (.r60 n)
  | .peek n =>
    let th := { th with view := .none, pending := [] }
    if n > cfg.size then th.ret { err := .full } else th.goto (.p80 false n)
  | .rwait n =>
    let th := { th with view := .none, pending := [] }
    if n > cfg.size then th.ret { err := .full } else th.goto (.p80 true n)
  | .use =>
    match th.view with
    | .alias cpos m => th.goto (.u0 cpos m 0 [])
    | .tmp cpos bytes => { th with pending := bytes }.ret { n := bytes.length, off := cpos, data := bytes }
    | .none => th.ret { err := .nouse }
  | .commit n =>
    let n := min n th.pending.length
    let th := { th with view := .none }
    if n > cfg.size then th.ret { err := .full } else th.goto (.k100 n)
  | .close => th.goto .x10
  | .len => th.goto .l20

/-- One atomic step of thread `me` (none: not enabled — mutex held by another
thread, parked and not woken, program finished, or the process crashed). -/
def tstep (cfg : Cfg) (sh : Sh) (me : Tid) (th0 : Th) : Option (Sh × Th) :=
  if sh.crash then none else
  let th : Th := { th0 with res := none }
  match th0.pc with
  | .idle =>
    match th0.prog with
    | [] => none
    | call :: rest => some (sh, startCall cfg { th with prog := rest, cur := some call } call)
  -- Close
  | .x10 => some ({ sh with done := true }, th.goto .x11)
  | .x11 => (sh.lock .pL me).map (·, th.goto .x12)
  | .x12 => some (sh.bcast .pL, th.goto .x13)
  | .x13 => some (sh.unlock .pL, th.goto .x14)
  | .x14 => (sh.lock .cL me).map (·, th.goto .x15)
  | .x15 => some (sh.bcast .cL, th.goto .x16)
  | .x16 => some (sh.unlock .cL, closeRet th)
  -- Len
  | .l20 => some (sh, th.goto (.l21 sh.cseq))
  | .l21 cpos =>
    let ppos := sh.pseq
    match th0.cur with
    | some (.read n) => if ppos - cpos = 0 then some (sh, th.ret { err := .eof }) else some (sh, th.goto (.r61 n))
    | _ => some (sh, th.ret { n := ppos - cpos })
  -- waitForWriteSpace
  | .s30 n => if sh.done then some (sh, wfsErr th .eof) else some (sh, th.goto (.s31 n))
  | .s31 n =>
    let ppos := sh.pseq
    let gate := sh.gate
    if ppos + n > gate + cfg.size ∨ gate > ppos then some (sh, th.goto (.s32 n ppos))
    else some (sh, th.goto (.s39 n ppos))
  | .s32 n ppos => (sh.lock .pL me).map (·, th.goto (.s33 n ppos))
  | .s33 n ppos =>
    let cpos := sh.cseq
    if ppos + n > cpos + cfg.size then some (sh, th.goto (.s34 n ppos)) else some (sh, th.goto (.s38 n ppos cpos))
  | .s34 n ppos => if sh.done then some (sh, th.goto (.s35 n ppos)) else some (sh, th.goto (.s36 n ppos))
  | .s35 _ _ => some (sh.unlock .pL, wfsErr th .eof)
  | .s36 n ppos => some (sh.park .pL, th.goto (.s36w n ppos))
  | .s36w n ppos => (sh.resume .pL me).map (·, th.goto (.s37 n ppos))
  | .s37 n ppos =>
    let cpos := sh.cseq
    if ppos + n > cpos + cfg.size then some (sh, th.goto (.s34 n ppos)) else some (sh, th.goto (.s38 n ppos cpos))
  | .s38 n ppos cpos => some (({ sh with gate := cpos }).unlock .pL, th.goto (.s39 n ppos))
  | .s39 n ppos => if sh.done then some (sh, wfsErr th .eof) else some (sh, wfsOk cfg th ppos n)
  -- Write
  | .w40 n => if sh.done then some (sh, th.ret { err := .eof }) else some (sh, enterWfs cfg th n)
  | .w41c n ppos j =>
    if j < n then
      some ({ sh with buf := wr sh.buf (cfg.idx (ppos + j)) (cfg.src (ppos + j)) }, th.goto (.w41c n ppos (j + 1)))
    else some (sh, th.goto (.w42 n ppos))
  | .w42 n ppos => some ({ sh with pseq := ppos + n }, { th with slice := none, filled := 0 }.goto (.w43 n))
  | .w43 n => (sh.lock .cL me).map (·, th.goto (.w44 n))
  | .w44 n => some (sh.bcast .cL, th.goto (.w45 n))
  | .w45 n => some (sh.unlock .cL, th.ret { n := n })
  -- WriteCommit
  | .c50 n ppos => some ({ sh with pseq := ppos + n }, { th with slice := none, filled := 0 }.goto (.c51 n))
  | .c51 n => (sh.lock .cL me).map (·, th.goto (.c52 n))
  | .c52 n => some (sh.bcast .cL, th.goto (.c53 n))
  | .c53 n => some (sh.unlock .cL, wcRet th n)
  -- filling the reserved slice
  | .f0 start len j =>
    if j < len then
      some ({ sh with buf := wr sh.buf (cfg.idx (start + j)) (cfg.src (start + j)) }, th.goto (.f0 start len (j + 1)))
    else some (sh, { th with filled := len }.ret { n := len, off := start })
  -- ReadFrom
  | .g110 tot ms =>
    if sh.done then some (sh, rfExit th tot .eof)
    else some (sh, enterWfs cfg { th with cur := some (.rfrom tot ms) } 1)
  | .g112 tot ms ppos =>
    -- cnt := bf.size - (start - bf.cseq.get()); at most one read block; not past the end of the ring
    let free := cfg.size - (ppos - sh.cseq)
    let cnt := min cfg.rblock free
    let pstart := cfg.idx ppos
    let len := if pstart + cnt > cfg.size then cfg.size - pstart else cnt
    some (sh, th.goto (.g111 tot ms ppos len))
  | .g111 tot ms start len =>
    if ms = [] then some (sh, rfExit th tot .eof)                        -- the reader is at its end: (0, io.EOF)
    else some (sh, th.goto (.g111c tot ms.tail start (min (ms.headD 0) len) 0))   -- it returns min m len bytes
  | .g111c tot ms start n j =>
    if j < n then
      some ({ sh with buf := wr sh.buf (cfg.idx (start + j)) (cfg.src (start + j)) }, th.goto (.g111c tot ms start n (j + 1)))
    else some (sh, th.goto (.g111r tot ms n))
  | .g111r tot ms n =>
    if 0 < n then
      some (sh, enterWfs cfg { th with filled := n, cur := some (.rfcommit (tot + n) ms) } n)   -- total += n; WriteCommit(n)
    else some (sh, th.goto (.g110 tot ms))
  -- Read
  | .r60 n => if sh.done then some (sh, th.goto .l20) else some (sh, th.goto (.r61 n))
  | .r61 n => some (sh, th.goto (.r62 n sh.cseq))
  | .r62 n cpos =>
    let ppos := sh.pseq
    let ci := cfg.idx cpos
    if cpos + n < ppos then some (sh, th.goto (.r63c false cpos (min n (cfg.size - ci)) 0 []))
    else if cpos < ppos then
      let b := ppos - cpos
      let k := if ci + b < cfg.size then min n b else min n (cfg.size - ci)
      some (sh, th.goto (.r63c true cpos k 0 []))
    else some (sh, th.goto (.r73 n cpos))
  | .r63c b cpos k j acc =>
    if j < k then some (sh, th.goto (.r63c b cpos k (j + 1) (rd sh.buf (cfg.idx (cpos + j)) :: acc)))
    else some (sh, th.goto (.r64 b cpos acc))
  | .r64 b cpos acc =>
    some ({ sh with cseq := cpos + acc.length, gotRev := acc ++ sh.gotRev },
          { th with view := .none, pending := [] }.goto (.r65 b cpos acc))
  | .r65 b cpos acc => (sh.lock .pL me).map (·, th.goto (.r66 b cpos acc))
  | .r66 b cpos acc => some (sh.bcast .pL, th.goto (.r67 b cpos acc))
  | .r67 _ cpos acc => some (sh.unlock .pL, th.ret { n := acc.length, off := cpos, data := acc.reverse })
  | .r73 n cpos => (sh.lock .cL me).map (·, th.goto (.r74 n cpos))
  | .r74 n cpos =>
    if cpos ≥ sh.pseq then some (sh, th.goto (.r75 n cpos)) else some (sh, th.goto (.r79 n))
  | .r75 n cpos => if sh.done then some (sh, th.goto (.r75r n cpos)) else some (sh, th.goto (.r77 n cpos))
  | .r75r n cpos => if cpos ≥ sh.pseq then some (sh, th.goto (.r76 n cpos)) else some (sh, th.goto (.r79 n))
  | .r76 _ _ => some (sh.unlock .cL, th.ret { err := .eof })
  | .r77 n cpos => some (sh.park .cL, th.goto (.r77w n cpos))
  | .r77w n cpos => (sh.resume .cL me).map (·, th.goto (.r78 n cpos))
  | .r78 n cpos =>
    if cpos ≥ sh.pseq then some (sh, th.goto (.r75 n cpos)) else some (sh, th.goto (.r79 n))
  | .r79 n => some (sh.unlock .cL, th.goto (.r61 n))
  -- ReadPeek / ReadWait
  | .p80 w n => some (sh, th.goto (.p81 w n sh.cseq))
  | .p81 w n cpos => some (sh, th.goto (.p82 w n cpos))          -- (the value loaded here is overwritten at p83)
  | .p82 w n cpos => (sh.lock .cL me).map (·, th.goto (.p83 w n cpos))
  | .p83 w n cpos =>
    let ppos := sh.pseq
    if mustWait w n cpos ppos then some (sh, th.goto (.p84 w n cpos)) else some (sh, th.goto (.p88 w n cpos ppos))
  | .p84 w n cpos => if sh.done then some (sh, th.goto (.p84r w n cpos)) else some (sh, th.goto (.p86 w n cpos))
  | .p84r w n cpos =>
    let ppos := sh.pseq
    if mustWait w n cpos ppos then some (sh, th.goto (.p85 w n cpos)) else some (sh, th.goto (.p88 w n cpos ppos))
  | .p85 _ _ _ => some (sh.unlock .cL, th.ret { err := .eof })
  | .p86 w n cpos => some (sh.park .cL, th.goto (.p86w w n cpos))
  | .p86w w n cpos => (sh.resume .cL me).map (·, th.goto (.p87 w n cpos))
  | .p87 w n cpos =>
    let ppos := sh.pseq
    if mustWait w n cpos ppos then some (sh, th.goto (.p84 w n cpos)) else some (sh, th.goto (.p88 w n cpos ppos))
  | .p88 w n cpos ppos =>
    let sh := sh.unlock .cL
    let m := if w then n else if ppos - cpos ≥ n then n else ppos - cpos
    let err := if w then Err.ok else if ppos - cpos ≥ n then Err.ok else Err.insuf
    if cfg.idx cpos + m > cfg.size then some (sh, th.goto (.p89c w cpos m err 0 []))
    else some (sh, { th with view := .alias cpos m }.ret { n := m, err := err, off := cpos })
  | .p89c w cpos m err j acc =>
    if j < m then some (sh, th.goto (.p89c w cpos m err (j + 1) (rd sh.buf (cfg.idx (cpos + j)) :: acc)))
    else some (sh, { th with view := .tmp cpos acc.reverse }.ret { n := m, err := err, off := cpos })
  -- ReadCommit
  | .k100 n => some (sh, th.goto (.k101 n sh.cseq))
  | .k101 n cpos =>
    if cpos + n ≤ sh.pseq then some (sh, th.goto (.k102 n cpos)) else some (sh, th.ret { err := .insuf })
  | .k102 n cpos =>
    some ({ sh with cseq := cpos + n, gotRev := (th0.pending.take n).reverse ++ sh.gotRev },
          { th with view := .none, pending := [] }.goto (.k103 n))
  | .k103 n => (sh.lock .pL me).map (·, th.goto (.k104 n))
  | .k104 n => some (sh.bcast .pL, th.goto (.k105 n))
  | .k105 n => some (sh.unlock .pL, th.ret { n := n })
  -- reading an aliased view
  | .u0 cpos m j acc =>
    if j < m then some (sh, th.goto (.u0 cpos m (j + 1) (rd sh.buf (cfg.idx (cpos + j)) :: acc)))
    else some (sh, { th with pending := acc.reverse }.ret { n := m, off := cpos, data := acc.reverse })


/-- The ring BEFORE the repair of finding F9: `waitForWriteSpace` returns as soon as it has found room (no `isDone` test
after the wait loop) and the consumer wait loops return end-of-stream as soon as they see `done` (no second load of the
producer cursor).  Everything else is `tstep`. -/
def tstepPreF9 (cfg : Cfg) (sh : Sh) (me : Tid) (th0 : Th) : Option (Sh × Th) :=
  if sh.crash then none else
  let th : Th := { th0 with res := none }
  match th0.pc with
  | .s31 n =>
    let ppos := sh.pseq
    let gate := sh.gate
    if ppos + n > gate + cfg.size ∨ gate > ppos then some (sh, th.goto (.s32 n ppos))
    else some (sh, wfsOk cfg th ppos n)
  | .s38 n ppos cpos => some (({ sh with gate := cpos }).unlock .pL, wfsOk cfg th ppos n)
  | .r75 n cpos => if sh.done then some (sh, th.goto (.r76 n cpos)) else some (sh, th.goto (.r77 n cpos))
  | .p84 w n cpos => if sh.done then some (sh, th.goto (.p85 w n cpos)) else some (sh, th.goto (.p86 w n cpos))
  | _ => tstep cfg sh me th0

/-! ### lock structure

`lockFacts` is the model's own account of the lock structure of buffer.go: per ring
method (index into Close, Len, ReadFrom, WriteTo, Read, Write, ReadPeek, ReadWait,
ReadCommit, WriteWait, WriteCommit, waitForWriteSpace) the marks, lock operations
(`1000 + 2·op + mx`, op 0 Lock 1 Unlock 2 Wait 3 Broadcast, mx 0 pcond 1 ccond),
calls of ring methods (`1300 + k`), `defer Close` (1200), returns (1100) and the cursor /
`done` accesses (1400 pseq.get, 1401 cseq.get, 1402 pseq.set, 1403 cseq.set, 1404 isDone) in
source order.  `Proofs.Ring.ring_lock_facts` equates it with the list regenerated from the
source, `Proofs.Ring.lockFacts_steps` with what `tstep` does at each mark. -/
def lockFacts : List (Nat × List Nat) := [
  (0, [10, 11, 1000, 12, 1006, 13, 1002, 14, 1001, 15, 1007, 16, 1003, 1100]),
  (1, [20, 1401, 21, 1400, 1100]),
  (2, [1200, 110, 1404, 1100, 1311, 1100, 112, 1401, 111, 1310, 1100, 1100]),
  (3, [1200, 120, 1404, 1100, 1306, 121, 1100, 1308, 1100, 1100]),
  (4, [60, 1404, 1301, 1100, 61, 1401, 62, 1400, 63, 64, 1403, 65, 1000, 66, 1006, 67, 1002, 1100, 68, 69, 1403, 70, 1000, 71, 1006, 72, 1002, 1100, 73, 1001, 74, 1400, 1400, 75, 1404, 131, 1400, 76, 1003, 1100, 77, 1005, 78, 79, 1003]),
  (5, [40, 1404, 1100, 1311, 1100, 41, 42, 1402, 43, 1001, 44, 1007, 45, 1003, 1100]),
  (6, [1100, 1100, 80, 1401, 81, 1400, 82, 1001, 83, 1400, 1400, 84, 1404, 132, 1400, 85, 1003, 1100, 86, 1005, 87, 88, 1003, 89, 1100, 1100, 1100]),
  (7, [1100, 1100, 90, 1401, 91, 1400, 92, 1001, 93, 1400, 1400, 94, 1404, 133, 1400, 95, 1003, 1100, 96, 1005, 97, 98, 1003, 99, 1100, 1100]),
  (8, [1100, 1100, 100, 1401, 101, 1400, 102, 1403, 103, 1000, 104, 1006, 105, 1002, 1100, 1100]),
  (9, [1311, 1100, 1100, 1100]),
  (10, [1311, 1100, 50, 1402, 51, 1001, 52, 1007, 53, 1003, 1100]),
  (11, [1100, 30, 1404, 1100, 31, 1400, 32, 1000, 33, 1401, 1401, 34, 1404, 35, 1002, 1100, 36, 1004, 37, 38, 1002, 39, 1404, 1100, 1100])]

/-- one program counter per mark, in the order of `lockFacts` (locals irrelevant for the lock operation performed) -/
def markPcs : List Pc := [
  .x10, .x11, .x12, .x13, .x14, .x15, .x16, .l20, .l21 0,
  .g110 0 [], .g112 0 [] 0, .g111 0 [] 0 0,
  .r60 0, .r61 0, .r62 0 0, .r63c false 0 0 0 [], .r64 false 0 [], .r65 false 0 [], .r66 false 0 [], .r67 false 0 [],
  .r63c true 0 0 0 [], .r64 true 0 [], .r65 true 0 [], .r66 true 0 [], .r67 true 0 [],
  .r73 0 0, .r74 0 0, .r75 0 0, .r75r 0 0, .r76 0 0, .r77 0 0, .r78 0 0, .r79 0,
  .w40 0, .w41c 0 0 0, .w42 0 0, .w43 0, .w44 0, .w45 0,
  .p80 false 0, .p81 false 0 0, .p82 false 0 0, .p83 false 0 0, .p84 false 0 0, .p84r false 0 0, .p85 false 0 0, .p86 false 0 0,
  .p87 false 0 0, .p88 false 0 0 0, .p89c false 0 0 .ok 0 [],
  .p80 true 0, .p81 true 0 0, .p82 true 0 0, .p83 true 0 0, .p84 true 0 0, .p84r true 0 0, .p85 true 0 0, .p86 true 0 0,
  .p87 true 0 0, .p88 true 0 0 0, .p89c true 0 0 .ok 0 [],
  .k100 0, .k101 0 0, .k102 0 0, .k103 0, .k104 0, .k105 0,
  .c50 0 0, .c51 0, .c52 0, .c53 0,
  .s30 0, .s31 0, .s32 0 0, .s33 0 0, .s34 0 0, .s35 0 0, .s36 0 0, .s37 0 0, .s38 0 0 0, .s39 0 0]

/-- the lock operation `tstep` performs at `pc` (code as in `lockFacts`), observed on
two probe states: both mutexes free / both held by the stepping thread -/
def lockOpCode (pc : Pc) : Option Nat :=
  let cfg : Cfg := { k := 0, src := fun _ => 0 }
  let me : Tid := .k 0
  let th : Th := { pc := pc, cur := some .close }
  let free : Sh := { buf := #[0] }
  let held : Sh := { buf := #[0], pL := some me, cL := some me }
  let parked := fun (r : Option (Sh × Th)) => match r with
    | some (_, th') => th'.pc.parkedAt.isSome
    | none => false
  let r0 := tstep cfg free me th
  let r1 := tstep cfg held me th
  let own := fun (r : Option (Sh × Th)) (m : Mx) => match r with
    | some (sh', _) => sh'.owner m
    | none => none
  let note := fun (r : Option (Sh × Th)) (m : Mx) => match r with
    | some (sh', _) => sh'.note m
    | none => false
  if own r0 .pL == some me then some 1000
  else if own r0 .cL == some me then some 1001
  else if own r1 .pL == none && r1.isSome then (if parked r1 then some 1004 else some 1002)
  else if own r1 .cL == none && r1.isSome then (if parked r1 then some 1005 else some 1003)
  else if note r1 .pL then some 1006
  else if note r1 .cL then some 1007
  else none

/-- from an event list: each mark with the lock operation that directly follows it (if any) -/
def markOps : List Nat → List (Nat × Option Nat)
  | [] => []
  | [m] => if m < 1000 then [(m, none)] else []
  | m :: e :: rest =>
    if m < 1000 then
      (if 1000 ≤ e ∧ e < 1100 then (m, some e) else (m, none)) :: markOps (e :: rest)
    else markOps (e :: rest)

/-- the whole system -/
structure St where
  sh : Sh
  P : Th := {}
  C : Th := {}
  K : List Th := []

def St.getTh (s : St) : Tid → Option Th
  | .p => some s.P
  | .c => some s.C
  | .k i => s.K[i]?

def St.setTh (s : St) (t : Tid) (th : Th) : St :=
  match t with
  | .p => { s with P := th }
  | .c => { s with C := th }
  | .k i => { s with K := s.K.set i th }

/-- interleaving semantics: thread `t` performs one atomic step -/
def step (cfg : Cfg) (s : St) (t : Tid) : Option St :=
  match s.getTh t with
  | none => none
  | some th =>
    match tstep cfg s.sh t th with
    | none => none
    | some (sh, th') => some ({ s with sh := sh }.setTh t th')

/-- run a schedule; steps that are not enabled are skipped -/
def run (cfg : Cfg) (s : St) : List Tid → St
  | [] => s
  | t :: ts => run cfg ((step cfg s t).getD s) ts

/-- the same for the ring before the repair of F9 -/
def stepPreF9 (cfg : Cfg) (s : St) (t : Tid) : Option St :=
  match s.getTh t with
  | none => none
  | some th =>
    match tstepPreF9 cfg s.sh t th with
    | none => none
    | some (sh, th') => some ({ s with sh := sh }.setTh t th')

def runPreF9 (cfg : Cfg) (s : St) : List Tid → St
  | [] => s
  | t :: ts => runPreF9 cfg ((stepPreF9 cfg s t).getD s) ts

def init (cfg : Cfg) (adv gate : Nat) : St :=
  { sh := { buf := Array.replicate cfg.size 0, pseq := adv, cseq := adv, gate := gate } }

/-- initial state with the thread programs -/
def mkInit (cfg : Cfg) (adv gate : Nat) (progP progC : List Call) (progsK : List (List Call)) : St :=
  { init cfg adv gate with
    P := { prog := progP }, C := { prog := progC }, K := progsK.map (fun p => { prog := p }) }

end Mqtt.Model.Ring
