/-
Session take-over (MQTT-3.1.4-2): the SHAPE of the code around it, as small programs.

The broker model (`Model/Broker.lean`) runs a CONNECT as one event, `connect = takeOver; first`, with
`takeOver = stopAll (sameClient ..)`: every live connection of the client is ended COMPLETELY - its
subscriptions removed, its will published, its clean session deleted - before the session is looked up.
The life-cycle model (`Model/Lifecycle.lean`) has `stop()` look at the will flag after `wgStopped.Wait`.
In the Go code these are orders of statements in four functions; this file names the statements
(`…Op`), gives the order the models stand for (`…Program`), and says what the order is FOR (`after`,
`muHeldBefore`, `heldOver`, `resumable`) in terms that distinguish a teardown that has begun from one
that has finished - which the atomic events of the broker model cannot.  `extract/facts_takeover.go`
regenerates the statement lists from the source; `Properties/C09Source.lean`, `C10Source.lean`,
`C16Source.lean` equate them with the programs below (`decide`).  Nothing here mentions a generated name.
-/
import Mqtt.Model.Lifecycle

namespace Mqtt.Model.Takeover

/-! ## `Server.disconnectClient` -/

inductive DcOp where
  | lock          -- svr.mu.Lock()
  | unlock        -- svr.mu.Unlock(), a statement
  | deferUnlock   -- defer svr.mu.Unlock(): released when the function returns
  | pruneStopped  -- select { case <-s.stopped: continue; default: }: drop the entries whose teardown has FINISHED
  | pruneOther    -- if … { continue } with any other test (the `closed` flag: set when a teardown BEGINS)
  | keep          -- svr.svcs[n] = s; n++
  | collect       -- if s.sess != nil && s.sess.ID() == cid { same = append(same, s) }
  | truncate      -- svr.svcs = svr.svcs[:n]
  | stop          -- s.stop()            (for every collected connection)
  | wait          -- <-s.stopped         (for every collected connection)
deriving DecidableEq, Repr

def DcOp.code : DcOp → Nat
  | .lock => 1 | .unlock => 2 | .deferUnlock => 3 | .pruneStopped => 4 | .pruneOther => 5
  | .keep => 6 | .collect => 7 | .truncate => 8 | .stop => 9 | .wait => 10

/-- the statement order of `Server.disconnectClient` -/
def disconnectProgram : List DcOp :=
  [.lock, .pruneStopped, .keep, .collect, .truncate, .unlock, .stop, .wait]

/-- where a connection's teardown is: `closed` flag clear / set by whoever won the CAS of `stop()`, teardown
running (it may be parked: `wgStopped.Wait`, the will publish into a full ring) / `stopped` channel closed -/
inductive Status where
  | live | ending | stopped
deriving DecidableEq, Repr

structure Svc where
  id : Nat
  cid : Nat          -- client identifier of its session
  st : Status
deriving DecidableEq, Repr

/-- the scan passes over this entry (`continue`) -/
def dropped (p : List DcOp) (s : Svc) : Bool :=
  (p.contains .pruneStopped && s.st == .stopped) || (p.contains .pruneOther && s.st != .live)

/-- the scan puts this entry on the list of connections to stop -/
def collected (p : List DcOp) (cid : Nat) (s : Svc) : Bool :=
  p.contains .collect && !dropped p s && s.cid == cid

/-- what `Server.svcs` holds afterwards -/
def registered (p : List DcOp) (svcs : List Svc) : List Svc :=
  if p.contains .keep && p.contains .truncate then svcs.filter (fun s => !dropped p s) else svcs

/-- the per-connection part on one collected connection; `none` = the caller waits for ever.
`stop()`: the caller wins the CAS and runs the whole teardown before it returns, or somebody else has won
it and the call returns at once.  `<-stopped`: returns when the teardown has finished, whoever runs it;
nobody is going to end a connection that is live. -/
def finish : List DcOp → Status → Option Status
  | [], st => some st
  | .stop :: r, st => finish r (match st with | .live => .stopped | x => x)
  | .wait :: r, st => (match st with | .live => none | _ => finish r .stopped)
  | _ :: r, st => finish r st

/-- all connections (in the list or not) when `disconnectClient p cid` returns -/
def after (p : List DcOp) (cid : Nat) : List Svc → Option (List Svc)
  | [] => some []
  | s :: r =>
    match (if collected p cid s then (finish p s.st).map (fun t => { s with st := t }) else some s), after p cid r with
    | some s', some r' => some (s' :: r')
    | _, _ => none

/-- `Server.mu` is held while the statement at position `i` runs (a `defer` releases it at the return:
after every position) -/
def muHeldBefore (p : List DcOp) (i : Nat) : Bool :=
  (p.take i).foldl (fun h op => match op with | .lock => true | .unlock => false | _ => h) false

/-- the statements at which the caller may wait for another goroutine -/
def DcOp.mayWait : DcOp → Bool
  | .stop => true | .wait => true | _ => false

/-- no statement that may wait runs under `Server.mu` -/
def waitsWithoutMu (p : List DcOp) : Bool :=
  (List.range p.length).all fun i =>
    match p[i]? with
    | some op => !op.mayWait || !muHeldBefore p i
    | none => true

/-! ## `Server.Close` and `Server.mu` -/

inductive ClOp where
  | lock | unlock | deferUnlock
  | closeOuts     -- for every connection: svc.out.Close()   (ends every delivery parked in a full ring)
  | stops         -- for every connection: svc.stop()
deriving DecidableEq, Repr

def ClOp.code : ClOp → Nat
  | .lock => 1 | .unlock => 2 | .deferUnlock => 3 | .closeOuts => 4 | .stops => 5

/-- `Server.Close` after the listeners are closed: copy `svcs` under `mu`, then the two loops -/
def closeProgram : List ClOp := [.lock, .unlock, .closeOuts, .stops]

/-- `Server.Close` gets as far as its first loop iff it gets `Server.mu`: iff `disconnectClient`, at its
position `i`, does not hold it -/
def closeReachesLoops (dc : List DcOp) (i : Nat) (cl : List ClOp) : Bool :=
  !cl.contains .lock || !muHeldBefore dc i

/-! ## `Server.handleConnection` and `connectMu` -/

inductive ConnOp where
  | lock          -- svr.connectMu.Lock()
  | deferUnlock   -- defer svr.connectMu.Unlock()
  | unlock        -- svr.connectMu.Unlock(), a statement
  | disconnect    -- if len(req.ClientID()) > 0 { svr.disconnectClient(string(req.ClientID())) }
  | getSession    -- svr.getSession(svc, req, resp)
  | connack       -- writeMessage(c, resp)
  | start         -- svc.start()
  | register      -- svr.svcs = append(svr.svcs, svc)
deriving DecidableEq, Repr

def ConnOp.code : ConnOp → Nat
  | .lock => 1 | .deferUnlock => 2 | .unlock => 3 | .disconnect => 4 | .getSession => 5
  | .connack => 6 | .start => 7 | .register => 8

/-- the statement order of `handleConnection` after authentication -/
def connectProgram : List ConnOp :=
  [.lock, .deferUnlock, .disconnect, .getSession, .connack, .start, .register]

def connectMuHeldBefore (p : List ConnOp) (i : Nat) : Bool :=
  (p.take i).foldl (fun h op => match op with | .lock => true | .unlock => false | _ => h) false

/-- `connectMu` is taken before the take-over and held over the session lookup, the CONNACK, `start` and the
registration in `svcs` - to the return of the function (`defer`, no other release): between "no live
connection has this client identifier" and "this connection is the live one that has it" no other handshake
runs, which is what lets the broker model treat a CONNECT as ONE event -/
def heldOver (p : List ConnOp) : Bool :=
  p.contains .deferUnlock && !p.contains .unlock &&
  [ConnOp.disconnect, .getSession, .connack, .start, .register].all (fun op =>
    p.contains op && connectMuHeldBefore p (p.idxOf op)) &&
  decide (p.idxOf .disconnect < p.idxOf .getSession) && decide (p.idxOf .getSession < p.idxOf .register)

/-! ## `Session.Resumable` and the resuming branch of `Server.getSession` -/

inductive ResOp where
  | initted       -- s.initted
  | hasConnect    -- s.Cmsg != nil
  | notClean      -- !s.Cmsg.CleanSession()
deriving DecidableEq, Repr

def ResOp.code : ResOp → Nat
  | .initted => 1 | .hasConnect => 2 | .notClean => 3

def resumableProgram : List ResOp := [.initted, .hasConnect, .notClean]

/-- `Resumable()` of a stored session -/
def resumable (p : List ResOp) (initted hasConnect clean : Bool) : Bool :=
  p.all fun op => match op with
    | .initted => initted | .hasConnect => hasConnect | .notClean => !clean

inductive GsOp where
  | ifNotClean    -- if !req.CleanSession() {
  | get           --   sess, err := svr.sessMgr.Get(cid)
  | ifResumable   --   if err == nil && sess.Resumable() {
  | presentTrue   --     resp.SetSessionPresent(true)
  | update        --     svc.sess.Update(req)
  | new           -- if svc.sess == nil { svr.sessMgr.New(cid)
  | presentFalse  --   resp.SetSessionPresent(false)
  | init          --   svc.sess.Init(req) }
deriving DecidableEq, Repr

def GsOp.code : GsOp → Nat
  | .ifNotClean => 1 | .get => 2 | .ifResumable => 3 | .presentTrue => 4 | .update => 5
  | .new => 6 | .presentFalse => 7 | .init => 8

def getSessionProgram : List GsOp :=
  [.ifNotClean, .get, .ifResumable, .presentTrue, .update, .new, .presentFalse, .init]

/-! ## `service.stop` and the stored CONNECT -/

/-- the reads of the session's stored CONNECT / will that an operation of `stop()` stands for, and the wait:
6 = `wgStopped.Wait()`, 21 = `Cmsg.WillFlag()`, 22 = `sess.Will`, 23 = `Cmsg.CleanSession()` -/
def sessReads : Mqtt.Model.Lifecycle.StopOp → List Nat
  | .wgWait => [6]
  | .will => [21, 22]
  | .sessDel => [23]
  | _ => []

/-- every read of the stored CONNECT or the will comes after the wait for the goroutines -/
def readsAfterWait : List Nat → Bool
  | [] => true
  | 6 :: _ => true
  | _ :: _ => false

end Mqtt.Model.Takeover
