/-
Core C — model of `sessions/ackqueue.go` (code-shaped: ring + index map + ping FIFO).

Every definition follows the Go function of the same name.  Message types are
the numeric MQTT packet types (`message.Type`); the sets the code switches on
(`Ack`'s accepted types, `Acked`'s release set, the initial queue size) are
*not* written here: they come from `Mqtt.Generated.Facts`, which is regenerated
from /repo on every run.
-/
import Mqtt.Generated.Facts
import Mqtt.Iface.AckQ

namespace Mqtt.Model.AckQueue

open Mqtt.Generated
open Mqtt.Iface.AckQ

/-- `sessions.AckMsg`.  `tag` stands for the `OnComplete` value (an opaque
callback identity).  The zero value (`AckMsg{}`) is `AckMsg.zero`. -/
structure AckMsg where
  mtype  : Nat
  state  : Nat
  pktid  : Nat
  msgbuf : List UInt8
  ackbuf : List UInt8
  tag    : Nat
deriving DecidableEq, Repr, Inhabited

def AckMsg.zero : AckMsg := ⟨0, 0, 0, [], [], 0⟩

/-- `sessions.Ackqueue` without the mutex. `emap` is the Go map as an
association list: `emapSet` shadows, `emapDel` removes every binding. -/
structure Q where
  size  : Nat
  mask  : Nat
  count : Nat
  head  : Nat
  tail  : Nat
  pings : List AckMsg      -- `aq.pings`: PINGREQs waiting for their PINGRESP, oldest first
  ring  : List AckMsg
  emap  : List (Nat × Nat)
deriving DecidableEq, Repr

/-- `aq.ring[i]` -/
def Q.get (q : Q) (i : Nat) : AckMsg := q.ring.getD i AckMsg.zero

def emapGet (m : List (Nat × Nat)) (k : Nat) : Option Nat := m.lookup k
def emapDel (m : List (Nat × Nat)) (k : Nat) : List (Nat × Nat) := m.filter (fun p => p.1 != k)
def emapSet (m : List (Nat × Nat)) (k v : Nat) : List (Nat × Nat) := (k, v) :: emapDel m k

/-- `roundUpPowerOfTwo64` / `powerOfTwo64` on 64-bit words, as in the code. -/
def powerOfTwo64 (n : BitVec 64) : Bool := n != 0 && (n &&& (n - 1)) == 0
def roundUpPowerOfTwo64 (n : BitVec 64) : BitVec 64 :=
  let n := n - 1
  let n := n ||| (n >>> 1)
  let n := n ||| (n >>> 2)
  let n := n ||| (n >>> 4)
  let n := n ||| (n >>> 8)
  let n := n ||| (n >>> 16)
  let n := n ||| (n >>> 32)
  n + 1

/-- `newAckqueue(n)`. -/
def newAckqueue (n : Nat) : Q :=
  let m : BitVec 64 := BitVec.ofNat 64 n
  let m := if powerOfTwo64 m then m else roundUpPowerOfTwo64 m
  let m := m.toNat
  { size := m, mask := m - 1, count := 0, head := 0, tail := 0,
    pings := [], ring := List.replicate m AckMsg.zero, emap := [] }

def Q.index (q : Q) (n : Nat) : Nat := n &&& q.mask
def Q.increment (q : Q) (n : Nat) : Nat := q.index (n + 1)
def Q.full (q : Q) : Bool := q.count == q.size
def Q.empty (q : Q) : Bool := q.count == 0

/-- `grow`: doubles the ring; the live window is copied to the front
(`copy(newring, ring[head:])`, `copy(newring[size-head:], ring[:tail])` when
`tail ≤ head`, else `copy(newring, ring[head:tail])`), then the map is rebuilt
by walking `0 … tail-1`. -/
def Q.grow (q : Q) : Q :=
  let newsize := q.size * 2
  let front :=
    if q.tail > q.head then (q.ring.drop q.head).take (q.tail - q.head)
    else q.ring.drop q.head ++ q.ring.take q.tail
  let newring := front ++ List.replicate (newsize - front.length) AckMsg.zero
  let tail := q.count
  let emap := (List.range tail).foldl
      (fun m i => emapSet m (newring.getD i AckMsg.zero).pktid i) []
  { q with size := newsize, mask := newsize - 1, ring := newring, head := 0,
           tail := tail, emap := emap }

/-- `insert(pktid, msg, onComplete)`.  `enc = none` is "`msg.Encode` failed"
(the entry is then not stored; `Wait` ignores `insert`'s error). -/
def Q.insert (q : Q) (mtype pktid : Nat) (enc : Option (List UInt8)) (tag : Nat) : Q :=
  let q := if q.full then q.grow else q
  match emapGet q.emap pktid with
  | some _ => q                      -- duplicate id: nothing stored
  | none =>
    match enc with
    | none => q
    | some bytes =>
      let am : AckMsg := ⟨mtype, 0, pktid, bytes, [], tag⟩
      { q with ring := q.ring.set q.tail am,
               emap := emapSet q.emap pktid q.tail,
               tail := q.increment q.tail,
               count := q.count + 1 }

/-- `removeHead` (only called when non-empty). -/
def Q.removeHead (q : Q) : Q :=
  if q.empty then q else
  let it := q.get q.head
  { q with ring := q.ring.set q.head AckMsg.zero,
           head := q.increment q.head,
           count := q.count - 1,
           emap := emapDel q.emap it.pktid }

/-- `Wait`; the Bool is "returned nil". -/
def Q.wait (q : Q) (m : WaitMsg) (tag : Nat) : Q × Bool :=
  match m with
  | .publish qos pktid enc =>
      if qos == 0 then (q, false) else (q.insert tPUBLISH pktid enc tag, true)
  | .subscribe pktid enc => (q.insert tSUBSCRIBE pktid enc tag, true)
  | .unsubscribe pktid enc => (q.insert tUNSUBSCRIBE pktid enc tag, true)
  | .pingreq enc => ({ q with pings := q.pings ++ [⟨tPINGREQ, 0, 0, enc, [], tag⟩] }, true)
  | .other => (q, false)

/-- the `for i := range aq.pings` loop of `Ack`: the oldest entry that has no
PINGRESP yet takes this one; the loop stops there. -/
def markPing (bytes : List UInt8) : List AckMsg → List AckMsg
  | [] => []
  | a :: rest =>
    if a.state != tPINGRESP then { a with state := tPINGRESP, ackbuf := bytes } :: rest
    else a :: markPing bytes rest

/-- `Ack(msg)`: `mtype`, `pktid` and the encoded bytes of the ack message. -/
def Q.ack (q : Q) (mtype pktid : Nat) (bytes : List UInt8) : Q × Bool :=
  if ackIdTypes.contains mtype then
    match emapGet q.emap pktid with
    | some i =>
      let e := q.get i
      ({ q with ring := q.ring.set i { e with state := mtype, ackbuf := bytes } }, true)
    | none => (q, true)
  else if mtype == ackPingType then
    ({ q with pings := markPing bytes q.pings }, true)
  else (q, false)

/-- The `FORNOTEMPTY` loop of `Acked`; `fuel` is an upper bound on the number
of iterations (`count` suffices, see `Proofs/AckQueue`). -/
def Q.drain : Nat → Q → List AckMsg → Q × List AckMsg
  | 0, q, acc => (q, acc)
  | fuel + 1, q, acc =>
    if q.empty then (q, acc) else
    let h := q.get q.head
    if ackedReleaseStates.contains h.state then
      Q.drain fuel q.removeHead (acc ++ [h])
    else (q, acc)

/-- `Acked()`: first the leading pings that have their PINGRESP
(`for len(aq.pings) > 0 && aq.pings[0].State == PINGRESP`), then the ring. -/
def Q.acked (q : Q) : Q × List AckMsg :=
  let done := q.pings.takeWhile (fun a => a.state == tPINGRESP)
  Q.drain q.count { q with pings := q.pings.dropWhile (fun a => a.state == tPINGRESP) } done

inductive Out where
  | ok (b : Bool)
  | released (l : List AckMsg)
deriving DecidableEq, Repr

def step (q : Q) : Op → Q × Out
  | .wait m tag => let (q, b) := q.wait m tag; (q, .ok b)
  | .ack t id bs => let (q, b) := q.ack t id bs; (q, .ok b)
  | .acked => let (q, l) := q.acked; (q, .released l)

def run (q : Q) : List Op → Q × List Out
  | [] => (q, [])
  | op :: ops =>
    let (q1, o) := step q op
    let (q2, os) := run q1 ops
    (q2, o :: os)

def init : Q := newAckqueue defaultQueueSize

end Mqtt.Model.AckQueue
