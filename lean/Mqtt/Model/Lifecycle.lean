/-
Core F — the life-cycle of ONE broker-side connection (`service/service.go` `start`/`stop`,
`service/sendrecv.go` `receiver`/`sender`/`peekMessageSize`/`peekMessage`/`writeMessage`,
`service/process.go` `processor`, `service/server.go` `Close`) as a small-step concurrent
program at ring-CALL granularity (property C16).

Threads: the three goroutines `start` creates (receiver, processor, sender), any number of
stoppers (`stop()` called by `Server.Close` or `handleConnection`; the processor itself runs
`stop()` from its deferred function and is the fourth stopper) and any number of external
writers (other connections' processors delivering a packet into this connection's outgoing
ring through `writeMessage`, under `wmu`).  Everything outside the connection is the
environment: the peer (closes, HALF-closes — shuts down its sending direction only —, stops/resumes
reading, goes silent until the read deadline fires), the connection a delivery of the processor is addressed to (`extBlocked`: that
connection is still open, has stopped reading and its outgoing ring is full), `Server.Close`.

The two rings are abstracted to (bytes buffered, done flag) — `RingA` — with one atomic step per
ring call: a call that would wait inside the ring is a step that is not enabled.  What this
abstraction relies on is the call-level contract Core D proves for the real ring
(`Properties/C15.lean`); it is stated below (`RingA.*` and the lemmas in
`Proofs/Lifecycle.lean`, section "ring contract").

The code is modelled as it is (after the repairs recorded in known_findings.json): before every
socket read the receiver waits only while the incoming ring is completely FULL
(`waitForWriteSpace(1)`), then reads at most the free space (and at most one read block,
`defaultReadBlockSize`) — repair 8f682d1, finding F3.  Only a socket read arms the read deadline, so
a read (and with it the keep-alive deadline and the notice of the peer's close) is pending whenever
the incoming ring is not full.  Before the repair the receiver asked for a whole read block of free
space before every socket read: a packet longer than `cap - rblock` that arrived in small pieces
parked receiver and processor for good (`Cfg.blockWait`, `ChunkWedge`).  What is left is a receiver
parked because the incoming ring is completely full behind a processor that is itself parked (finding
F8: no read pending, no deadline armed).

When `ReadFrom` ends with an error (it always does: keep-alive deadline, reset, EOF, ring closed)
the receiver closes the socket before it returns (repair b77088f, finding F7): a sender blocked in
`conn.Write` fails, its deferred `Close` closes the outgoing ring, and a processor parked in
`WriteWait` on the connection's OWN outgoing ring comes back with end-of-stream.  That close is also what
ends a HALF-closed connection (`Sock.peerShut`: reads return end-of-stream, writes still block while the peer
does not read): without it the sender would stay in its write (`C16_halfclose_needs_receiver_close`).

Four switches reproduce the behaviour before a repair for the closed counterexamples of
`Properties/C16.lean`: `Cfg.d2` (a ring wait loop woken by `Close` returns end-of-stream with its
mutex still locked — defect D2/F2), `Cfg.stopProg` (the statement order of `stop()`, e.g. with the
old final "clear in/out" step — defect F1 — or with `wgStopped.Wait` before the `Close` calls),
`Cfg.recvCloses` (false: the receiver before b77088f, which returned without closing the socket — F7)
and `Cfg.blockWait` (true: `ReadFrom` before 8f682d1, which waited for a whole read block — F3).
-/
namespace Mqtt.Model.Lifecycle

/-! ## `stop()` as a list of operations (tied to service.go by `Proofs/LifecycleFacts.lean`) -/

inductive StopOp where
  | cas         -- atomic.CompareAndSwapInt64(&svc.closed, 0, 1); return if it fails
  | closeDone   -- close(svc.done)
  | connClose   -- svc.conn.Close()
  | inClose     -- svc.in.Close()
  | outClose    -- svc.out.Close()
  | wgWait      -- svc.wgStopped.Wait()
  | unsub       -- unsubscribe every topic of the session
  | will        -- publish the will if the stored CONNECT still has its will flag
  | sessDel     -- delete a clean session from the session store
  | clearRings  -- OLD code only (before e79396e): svc.conn, svc.in, svc.out = nil, nil, nil
deriving DecidableEq, Repr

/-- the statement order of `service.stop` -/
def stopProgram : List StopOp :=
  [.cas, .closeDone, .connClose, .inClose, .outClose, .wgWait, .unsub, .will, .sessDel]

def StopOp.code : StopOp → Nat
  | .cas => 1 | .closeDone => 2 | .connClose => 3 | .inClose => 4 | .outClose => 5
  | .wgWait => 6 | .unsub => 7 | .will => 8 | .sessDel => 9 | .clearRings => 10

structure Cfg where
  cap : Nat                    -- ring size (both rings)
  rblock : Nat                 -- defaultReadBlockSize: the receiver takes at most this much per socket read
  wblock : Nat                 -- defaultWriteBlockSize: the sender peeks at most this much
  d2 : Bool := false           -- OLD ring (before 584775d): wait loops return EOF holding their mutex
  stopProg : List StopOp := stopProgram
  recvCloses : Bool := true    -- false = OLD receiver (before b77088f): returns without conn.Close()
  blockWait : Bool := false    -- true = OLD ReadFrom (before 8f682d1): waits for `rblock` free bytes before every read
deriving Repr

/-- what `ReadFrom` asks `waitForWriteSpace` for before a socket read: one byte (it waits only while
the ring is completely full); a whole read block before 8f682d1 -/
def Cfg.spaceNeed (c : Cfg) : Nat := if c.blockWait then c.rblock else 1

/-! ## The ring at call level -/

inductive Ret where
  | ok | eof | full            -- full = bufio.ErrBufferFull (request larger than the ring)
deriving DecidableEq, Repr

structure RingA where
  buf : Nat := 0               -- bytes committed by the producer and not yet committed by the consumer
  done : Bool := false
  pHeld : Bool := false        -- pcond.L leaked by a returned call (only with `Cfg.d2`)
  cHeld : Bool := false        -- ccond.L leaked (only with `Cfg.d2`)
deriving DecidableEq, Repr

namespace RingA

/-- `waitForWriteSpace(n)` (also the first half of `WriteWait`, `Write`, `WriteCommit`).
`none` = the call waits.  Order of the tests as in buffer.go: size, done, space. -/
def waitSpace (c : Cfg) (r : RingA) (n : Nat) : Option (Ret × RingA) :=
  if c.cap < n then some (.full, r)
  else if r.done then
    -- with D2 a producer that had to wait comes back holding pcond.L
    some (.eof, if c.d2 && decide (c.cap < r.buf + n) then { r with pHeld := true } else r)
  else if r.buf + n ≤ c.cap then some (.ok, r)
  else none

/-- `WriteCommit(n)`: `waitForWriteSpace(n)` again, then the cursor store -/
def commitP (c : Cfg) (r : RingA) (n : Nat) : Option (Ret × RingA) :=
  match r.waitSpace c n with
  | some (.ok, r') => some (.ok, { r' with buf := r'.buf + n })
  | x => x

/-- `ReadWait(n)` / `ReadPeek` (n = 1): data committed before `Close` is still handed out -/
def waitData (c : Cfg) (r : RingA) (n : Nat) : Option (Ret × RingA) :=
  if c.cap < n then some (.full, r)
  else if n ≤ r.buf then some (.ok, r)
  else if r.done then some (.eof, if c.d2 then { r with cHeld := true } else r)
  else none

/-- `ReadCommit(n)`: cursor store, then Broadcast under pcond.L -/
def commitC (c : Cfg) (r : RingA) (n : Nat) : Option RingA :=
  if c.d2 && r.pHeld then none else some { r with buf := r.buf - n }

/-- `Close()`: store `done`, Broadcast under pcond.L, Broadcast under ccond.L.  (With a leaked
mutex the real Close stores `done` and then hangs; the model keeps the whole call disabled.) -/
def close (c : Cfg) (r : RingA) : Option RingA :=
  if c.d2 && (r.pHeld || r.cHeld) then none else some { r with done := true }

end RingA

/-! ## Threads and shared state -/

inductive Tid where
  | recv | proc | send
  | k (i : Nat)               -- i-th external stopper (Server.Close, handleConnection)
  | w (i : Nat)               -- i-th external writer (another connection's processor)
deriving DecidableEq, Repr

/-- `peerShut` = HALF-closed: the peer has shut down its sending direction only (TCP FIN / `CloseWrite`) and
neither reads nor closes.  The broker's socket READ returns end-of-stream (as with `peerClosed`); its socket
WRITES behave as on an open socket: they succeed when the peer reads and block while it does not.  Only the
broker's own `conn.Close()` (the receiver's, on its read failure - b77088f -, or `stop()`'s) or the peer going
away completely (`peerClose`) makes a blocked write fail. -/
inductive Sock where
  | open | peerClosed | closed | peerShut
deriving DecidableEq, Repr

/-- a socket WRITE fails (it neither succeeds nor blocks): the connection is gone in both directions.  On a
half-closed socket (`peerShut`) a write behaves as on an open one. -/
def Sock.wfail : Sock → Bool
  | .peerClosed => true
  | .closed => true
  | _ => false

inductive Eff where
  | unsub | will | sessDel
deriving DecidableEq, Repr

/-- what `processIncoming` does with a packet besides the bookkeeping: writes into the own
outgoing ring (acks, PINGRESP, a delivery to the connection's own subscription) and deliveries to
other connections -/
inductive Act where
  | own (l : Nat)             -- `writeMessage` of `l` bytes on this connection
  | foreign                   -- `publish` on another connection (blocks while that one is open, not reading, full)
deriving DecidableEq, Repr

inductive Kind where
  | normal (acts : List Act)
  | disconnect
  | bad                       -- decoding fails / reserved type: the processor returns
deriving DecidableEq, Repr

/-- an inbound packet as the processor will see it: `hdr` bytes are needed to know its length
(2 … 5; more = "4th length byte has its continuation bit set"), `total` is its length -/
structure Pkt where
  hdr : Nat
  total : Nat
  kind : Kind
deriving DecidableEq, Repr

/-- program counter of a `stop()` call -/
inductive KPc where
  | idle                      -- not called (yet)
  | run (i : Nat)             -- about to execute `stopProg[i]` (past the end: return)
  | finished
deriving DecidableEq, Repr

/-- receiver: `svc.in.ReadFrom(conn)` in a loop (`defer bf.Close()` inside `ReadFrom`), on its error
`conn.Close()` and return, `defer wgStopped.Done()` -/
inductive RPc where
  | space                     -- isDone test + waitForWriteSpace(1): waits only while the incoming ring is FULL
  | read                      -- r.Read (arms the read deadline)
  | commit (n : Nat)          -- WriteCommit(n)
  | close                     -- ReadFrom's deferred in.Close()
  | connClose                 -- receiver: `if err != nil { conn.Close(); return }`  (b77088f)
  | wgDone                    -- deferred wgStopped.Done()
  | exited
deriving DecidableEq, Repr

/-- sender: `svc.out.WriteTo(conn)` -/
inductive SPc where
  | peek                      -- isDone test + ReadPeek(defaultWriteBlockSize)
  | write (m : Nat)           -- conn.Write
  | commit (m : Nat)          -- ReadCommit(m)
  | close                     -- deferred out.Close()
  | wgDone
  | exited
deriving DecidableEq, Repr

inductive PPc where
  | size                                      -- peekMessageSize
  | msg                                       -- peekMessage + Decode + first half of processIncoming
  | acts (rest : List Act)                    -- inside processIncoming
  | ownWait (l : Nat) (rest : List Act)       -- holds wmu, out.WriteWait(l)
  | ownCommit (l : Nat) (rest : List Act)     -- holds wmu, out.WriteCommit / Write
  | commit                                    -- in.ReadCommit(total)
  | check                                     -- isDone() && in.Len() == 0
  | wgDone                                    -- deferred: (recover) wgStopped.Done()
  | stop (k : KPc)                            -- deferred: p.stop()
deriving DecidableEq, Repr

/-- external writer: `writeMessage` on this connection -/
inductive WPc where
  | check                     -- if svc.out == nil
  | lock                      -- wmu.Lock()
  | wait                      -- out.WriteWait(l)
  | commit                    -- out.WriteCommit / Write
  | finished
  | panicked                  -- nil dereference (OLD code: stop cleared svc.out)
deriving DecidableEq, Repr

structure WTh where
  pc : WPc := .check
  len : Nat
deriving DecidableEq, Repr

structure Sh where
  sock : Sock := .open
  peerReads : Bool := true      -- the peer drains its socket (false: a client that has stopped reading)
  timeout : Bool := false       -- the read deadline of the pending socket read has fired (keep-alive expiry)
  wire : Nat := 0               -- bytes the peer still sends
  inR : RingA := {}
  outR : RingA := {}
  stream : List Pkt := []       -- packets not yet consumed by the processor (framing of ring content + wire)
  closed : Bool := false        -- svc.closed
  doneCh : Bool := false        -- svc.done closed
  wg : Nat := 3                 -- wgStopped
  wmu : Option Tid := none
  extBlocked : Bool := false    -- the connection the processor delivers to is open, not reading, full
  willFlag : Bool := false      -- sess.Cmsg.WillFlag()
  clean : Bool := false         -- sess.Cmsg.CleanSession()
  effects : List Eff := []      -- effects of stop(), in order
  ringsNil : Bool := false      -- OLD code: svc.in / svc.out cleared
  winner : Option Tid := none   -- ghost: who won the CAS
deriving DecidableEq, Repr

structure St where
  sh : Sh := {}
  recv : RPc := .space
  send : SPc := .peek
  proc : PPc := .size
  ks : List KPc := []
  ws : List WTh := []
deriving DecidableEq, Repr

/-! ## Steps -/

/-- bytes the processor has to see to know the length of the next packet -/
def hdrNeed : List Pkt → Nat
  | [] => 2
  | p :: _ => max 2 (min p.hdr 5)

/-- one operation of `stop()`; `none` = waits, `(sh, false)` = stop returns here -/
def execStop (c : Cfg) (sh : Sh) (me : Tid) : StopOp → Option (Sh × Bool)
  | .cas => if sh.closed then some (sh, false) else some ({ sh with closed := true, winner := some me }, true)
  | .closeDone => some ({ sh with doneCh := true }, true)
  | .connClose => some ({ sh with sock := .closed }, true)
  | .inClose => (sh.inR.close c).map fun r => ({ sh with inR := r }, true)
  | .outClose => (sh.outR.close c).map fun r => ({ sh with outR := r }, true)
  | .wgWait => if sh.wg = 0 then some (sh, true) else none
  | .unsub => some ({ sh with effects := sh.effects ++ [.unsub] }, true)
  | .will => some (if sh.willFlag then { sh with effects := sh.effects ++ [.will] } else sh, true)
  | .sessDel => some (if sh.clean then { sh with effects := sh.effects ++ [.sessDel] } else sh, true)
  | .clearRings => some ({ sh with ringsNil := true }, true)

def kstep (c : Cfg) (sh : Sh) (me : Tid) : KPc → Option (Sh × KPc)
  | .idle => none
  | .finished => none
  | .run i =>
    match c.stopProg[i]? with
    | none => some (sh, .finished)
    | some op =>
      match execStop c sh me op with
      | none => none
      | some (sh', true) => some (sh', .run (i + 1))
      | some (sh', false) => some (sh', .finished)

/-- the slice `ReadFrom` hands to the socket read: the free space of the incoming ring, at most one
read block (the real slice also ends at the end of the ring: one more reason for a short piece, and
the piece is the schedule's choice anyway); a whole read block before 8f682d1 -/
def readMax (c : Cfg) (sh : Sh) : Nat :=
  if c.blockWait then c.rblock else min c.rblock (c.cap - sh.inR.buf)

/-- receiver; `k` is the size of the piece the socket read returns (clamped to 1 … min readMax wire) -/
def rstep (c : Cfg) (sh : Sh) (k : Nat) : RPc → Option (Sh × RPc)
  | .space =>
    match sh.inR.waitSpace c c.spaceNeed with
    | none => none
    | some (.ok, r) => some ({ sh with inR := r }, .read)
    | some (_, r) => some ({ sh with inR := r }, .close)
  | .read =>
    if sh.sock ≠ .open ∨ sh.timeout = true then some (sh, .close)
    else if sh.wire = 0 then none
    else
      let n := max 1 (min k (min (readMax c sh) sh.wire))
      some ({ sh with wire := sh.wire - n }, .commit n)
  | .commit n =>
    match sh.inR.commitP c n with
    | none => none
    | some (.ok, r) => some ({ sh with inR := r }, .space)
    | some (_, r) => some ({ sh with inR := r }, .close)
  | .close => (sh.inR.close c).map fun r => ({ sh with inR := r }, if c.recvCloses then .connClose else .wgDone)
  | .connClose => some ({ sh with sock := .closed }, .wgDone)
  | .wgDone => some ({ sh with wg := sh.wg - 1 }, .exited)
  | .exited => none

def sstep (c : Cfg) (sh : Sh) : SPc → Option (Sh × SPc)
  | .peek =>
    if sh.outR.done then some (sh, .close)
    else if 0 < sh.outR.buf then some (sh, .write (min sh.outR.buf c.wblock))
    else none
  | .write m =>
    if sh.sock.wfail then some (sh, .close)          -- `peerShut` (half-closed) is writable: blocks or succeeds
    else if sh.peerReads then some (sh, .commit m)
    else none
  | .commit m => (sh.outR.commitC c m).map fun r => ({ sh with outR := r }, .peek)
  | .close => (sh.outR.close c).map fun r => ({ sh with outR := r }, .wgDone)
  | .wgDone => some ({ sh with wg := sh.wg - 1 }, .exited)
  | .exited => none

def pstep (c : Cfg) (sh : Sh) : PPc → Option (Sh × PPc)
  | .size =>
    match sh.inR.waitData c (hdrNeed sh.stream) with
    | none => none
    | some (.ok, r) =>
      match sh.stream with
      | [] => some ({ sh with inR := r }, .wgDone)                  -- bytes that are no packet
      | p :: _ => if 5 < p.hdr then some ({ sh with inR := r }, .wgDone) else some ({ sh with inR := r }, .msg)
    | some (_, r) => some ({ sh with inR := r }, .wgDone)
  | .msg =>
    match sh.stream with
    | [] => some (sh, .wgDone)
    | p :: _ =>
      match sh.inR.waitData c p.total with
      | none => none
      | some (.ok, r) =>
        match p.kind with
        | .bad => some ({ sh with inR := r }, .wgDone)
        | .disconnect => some ({ sh with inR := r, willFlag := false }, .wgDone)
        | .normal as => some ({ sh with inR := r }, .acts as)
      | some (_, r) => some ({ sh with inR := r }, .wgDone)
  | .acts [] => some (sh, .commit)
  | .acts (.foreign :: rest) => if sh.extBlocked then none else some (sh, .acts rest)
  | .acts (.own l :: rest) =>
    if sh.wmu.isSome then none else some ({ sh with wmu := some .proc }, .ownWait l rest)
  | .ownWait l rest =>
    match sh.outR.waitSpace c l with
    | none => none
    | some (.ok, r) => some ({ sh with outR := r }, .ownCommit l rest)
    | some (_, r) => some ({ sh with outR := r, wmu := none }, .acts rest)
  | .ownCommit l rest =>
    match sh.outR.commitP c l with
    | none => none
    | some (_, r) => some ({ sh with outR := r, wmu := none }, .acts rest)
  | .commit =>
    match sh.stream with
    | [] => some (sh, .check)
    | p :: tl => (sh.inR.commitC c p.total).map fun r => ({ sh with inR := r, stream := tl }, .check)
  | .check => if sh.doneCh && sh.inR.buf == 0 then some (sh, .wgDone) else some (sh, .size)
  | .wgDone => some ({ sh with wg := sh.wg - 1 }, .stop (.run 0))
  | .stop k => (kstep c sh .proc k).map fun (sh', k') => (sh', .stop k')

def wstep (c : Cfg) (sh : Sh) (me : Tid) (w : WTh) : Option (Sh × WTh) :=
  match w.pc with
  | .check => if sh.ringsNil then some (sh, { w with pc := .finished }) else some (sh, { w with pc := .lock })
  | .lock => if sh.wmu.isSome then none else some ({ sh with wmu := some me }, { w with pc := .wait })
  | .wait =>
    if sh.ringsNil then some ({ sh with wmu := none }, { w with pc := .panicked })
    else
      match sh.outR.waitSpace c w.len with
      | none => none
      | some (.ok, r) => some ({ sh with outR := r }, { w with pc := .commit })
      | some (_, r) => some ({ sh with outR := r, wmu := none }, { w with pc := .finished })
  | .commit =>
    if sh.ringsNil then some ({ sh with wmu := none }, { w with pc := .panicked })
    else
      match sh.outR.commitP c w.len with
      | none => none
      | some (_, r) => some ({ sh with outR := r, wmu := none }, { w with pc := .finished })
  | .finished => none
  | .panicked => none

/-- environment events -/
inductive Env where
  | peerClose                 -- the peer closes (or the network drops) the connection (also after a half-close)
  | peerShut                  -- the peer shuts down its sending direction only (FIN / CloseWrite): half-closed
  | kaExpire                  -- the read deadline of the pending socket read fires
  | peerReads (b : Bool)      -- the peer stops / resumes reading
  | extBlock (b : Bool)       -- the connection the processor delivers to becomes blocked / ends or reads again
  | serverClose (i : Nat)     -- somebody calls stop() (i-th external stopper)
  | preClose                  -- Server.Close, first loop: out.Close() on every connection before any stop()
deriving DecidableEq, Repr

inductive Label where
  | th (t : Tid) (k : Nat)
  | env (e : Env)
deriving DecidableEq, Repr

def estep (c : Cfg) (s : St) : Env → Option St
  | .peerClose =>
    if s.sh.sock = .open ∨ s.sh.sock = .peerShut then some { s with sh := { s.sh with sock := .peerClosed } } else none
  | .peerShut => if s.sh.sock = .open then some { s with sh := { s.sh with sock := .peerShut } } else none
  | .kaExpire =>
    if s.recv = .read ∧ s.sh.sock = .open then some { s with sh := { s.sh with timeout := true } } else none
  | .peerReads b => some { s with sh := { s.sh with peerReads := b } }
  | .extBlock b => some { s with sh := { s.sh with extBlocked := b } }
  | .serverClose i =>
    match s.ks[i]? with
    | some .idle => some { s with ks := s.ks.set i (.run 0) }
    | _ => none
  | .preClose => (s.sh.outR.close c).map fun r => { s with sh := { s.sh with outR := r } }

def tstep (c : Cfg) (s : St) (t : Tid) (k : Nat) : Option St :=
  match t with
  | .recv => (rstep c s.sh k s.recv).map fun (sh, pc) => { s with sh := sh, recv := pc }
  | .send => (sstep c s.sh s.send).map fun (sh, pc) => { s with sh := sh, send := pc }
  | .proc => (pstep c s.sh s.proc).map fun (sh, pc) => { s with sh := sh, proc := pc }
  | .k i =>
    match s.ks[i]? with
    | none => none
    | some pc => (kstep c s.sh (.k i) pc).map fun (sh, pc') => { s with sh := sh, ks := s.ks.set i pc' }
  | .w i =>
    match s.ws[i]? with
    | none => none
    | some w => (wstep c s.sh (.w i) w).map fun (sh, w') => { s with sh := sh, ws := s.ws.set i w' }

def step (c : Cfg) (s : St) : Label → Option St
  | .th t k => tstep c s t k
  | .env e => estep c s e

/-- a schedule; a choice that is not enabled is skipped -/
def run (c : Cfg) (s : St) : List Label → St
  | [] => s
  | l :: ls => match step c s l with
    | some s' => run c s' ls
    | none => run c s ls

/-- number of steps of a schedule that were actually taken -/
def taken (c : Cfg) (s : St) : List Label → Nat
  | [] => 0
  | l :: ls => match step c s l with
    | some s' => taken c s' ls + 1
    | none => taken c s ls

/-- thread `t` can take a step (the piece size of a socket read does not matter for that) -/
def en (c : Cfg) (s : St) (t : Tid) : Bool := (tstep c s t 1).isSome

def tids (s : St) : List Tid :=
  [.recv, .proc, .send] ++ (List.range s.ks.length).map .k ++ (List.range s.ws.length).map .w

/-- nothing can run -/
def quiescent (c : Cfg) (s : St) : Bool := (tids s).all fun t => !en c s t

/-- one fair round: every thread gets one turn (a socket read returns as much as it can) -/
def round (c : Cfg) (s : St) : St := run c s ((tids s).map fun t => .th t c.rblock)

/-- fair round-robin for at most `n` rounds, stopping at quiescence -/
def drain (c : Cfg) : Nat → St → St
  | 0, s => s
  | n + 1, s => if quiescent c s then s else drain c n (round c s)

/-! ## Predicates of the property -/

def KPc.isFinal : KPc → Bool
  | .run _ => false
  | _ => true

def WPc.isFinal : WPc → Bool
  | .finished => true
  | .panicked => true
  | _ => false

/-- every goroutine of the connection has exited, every `stop()` call has returned, no delivery
to the connection is in progress -/
def Final (s : St) : Bool :=
  s.recv == .exited && s.send == .exited && s.proc == .stop .finished &&
  s.ks.all KPc.isFinal && s.ws.all fun w => w.pc.isFinal

/-- the three goroutines have exited (nothing of the library keeps running for this connection) -/
def goroutinesLeft (s : St) : Nat :=
  (if s.recv == .exited then 0 else 1) + (if s.send == .exited then 0 else 1) +
  (match s.proc with | .stop .finished => 0 | _ => 1)

/-- the effects `stop()` has to have, in order -/
def expectedEffects (sh : Sh) : List Eff :=
  [.unsub] ++ (if sh.willFlag then [.will] else []) ++ (if sh.clean then [.sessDel] else [])

/-- the teardown is complete: `stop()` ran to its end -/
def TornDown (s : St) : Bool :=
  s.sh.closed && s.sh.wg == 0 && s.sh.effects == expectedEffects s.sh &&
  (match s.sh.winner with
   | some .proc => s.proc == .stop .finished
   | some (.k i) => s.ks[i]? == some .finished
   | _ => false)

def RPc.pastLoop : RPc → Bool
  | .close => true | .connClose => true | .wgDone => true | .exited => true | _ => false

def SPc.pastLoop : SPc → Bool
  | .close => true | .wgDone => true | .exited => true | _ => false

def PPc.pastLoop : PPc → Bool
  | .wgDone => true | .stop _ => true | _ => false

/-- the processor is inside `writeMessage` on its own connection (waiting for `wmu` included) -/
def PPc.inOwnWrite : PPc → Bool
  | .acts (.own _ :: _) => true
  | .ownWait _ _ => true
  | .ownCommit _ _ => true
  | _ => false

/-- the connection has ended: socket closed by either side or HALF-closed by the peer (`peerShut`: the
broker has read, or will read, end-of-stream), keep-alive expired, `stop()` called,
or receiver or processor has left its loop (error / end-of-stream / DISCONNECT observed).  (The
sender leaves its loop on a write error — socket closed — or when the outgoing ring is closed by
`stop()` or by the first loop of `Server.Close`; the latter alone is not an end: `stop()` follows.) -/
def Ended (s : St) : Bool :=
  s.sh.sock != .open || s.sh.timeout || s.sh.closed || s.recv.pastLoop || s.proc.pastLoop

/-- the processor is inside a delivery to ANOTHER connection that is still open, has stopped
reading and is full -/
def HeldByThird (s : St) : Bool :=
  s.sh.extBlocked && (match s.proc with | .acts (.foreign :: _) => true | _ => false)

/-- the same with the connection in both roles: the processor is inside a write to its own
outgoing ring while its own peer is still connected — the socket is writable: open or HALF-closed — and has
stopped reading.  NOT an exemption (any more): since b77088f every end of the connection the receiver can see
closes the socket, so in a state in which nothing can run this holds only while the connection has NOT ended
— or the peer has half-closed and the receiver, waiting for room in the completely full incoming ring, does
not read the end-of-stream (finding F8 in its half-closed form) — (`C16_self_held_not_ended`,
`C16_halfclose_unnoticed`); with the old receiver it was a wedge (`C16_old_receiver_wedges`,
`C16_halfclose_needs_receiver_close`). -/
def HeldBySelf (s : St) : Bool :=
  !s.sh.sock.wfail && !s.sh.peerReads && s.proc.inOwnWrite

/-- the property's exemption, all of it: a delivery from this connection into ANOTHER connection
that is still open and has stopped reading -/
def HeldUp (s : St) : Bool := HeldByThird s

/-- the wedge of defect F3 (repaired by 8f682d1): the receiver waits for a read block of free space,
the processor for the rest of a packet that does not fit beside a read block; neither reads the
socket.  Kept ONLY as the name of that state for the closed counterexample with the old `ReadFrom`
(`Cfg.blockWait := true`, `C16_old_readfrom_wedges`); with the repaired one the receiver waits only
while the ring is completely full, and no theorem about the code mentions this predicate. -/
def ChunkWedge (c : Cfg) (s : St) : Bool :=
  s.recv == .space && s.proc == .msg && !s.sh.inR.done && decide (c.cap < s.sh.inR.buf + c.rblock) &&
  (match s.sh.stream with
   | [] => false
   | p :: _ => decide (s.sh.inR.buf < p.total) && decide (p.total ≤ c.cap))

/-! ## Termination measure -/

def actCost : Act → Nat
  | .own _ => 3
  | .foreign => 1

def actsCost : List Act → Nat
  | [] => 0
  | a :: as => actCost a + actsCost as

def Kind.acts : Kind → List Act
  | .normal as => as
  | _ => []

def pktCost (p : Pkt) : Nat := 5 + actsCost p.kind.acts

def streamCost : List Pkt → Nat
  | [] => 0
  | p :: ps => pktCost p + streamCost ps

/-- bytes `acts` may still commit to the own outgoing ring -/
def actsOut : List Act → Nat
  | [] => 0
  | .own l :: as => l + actsOut as
  | .foreign :: as => actsOut as

def streamOut : List Pkt → Nat
  | [] => 0
  | p :: ps => actsOut p.kind.acts + streamOut ps

def rankK (c : Cfg) : KPc → Nat
  | .idle => c.stopProg.length + 2
  | .run i => c.stopProg.length - i + 1
  | .finished => 0

def rankR (wire : Nat) : RPc → Nat
  | .space => 3 * wire + 5
  | .read => 3 * wire + 4
  | .commit _ => 3 * wire + 6
  | .close => 3
  | .connClose => 2
  | .wgDone => 1
  | .exited => 0

/-- `b` = bytes in the outgoing ring plus bytes that may still be committed to it -/
def rankS (b : Nat) : SPc → Nat
  | .peek => 3 * b + 5
  | .write _ => 3 * b + 4
  | .commit _ => 3 * b + 3
  | .close => 2
  | .wgDone => 1
  | .exited => 0

def rankP (c : Cfg) (stream : List Pkt) : PPc → Nat
  | .size => c.stopProg.length + 4 + streamCost stream
  | .msg => c.stopProg.length + 3 + streamCost stream
  | .acts as => c.stopProg.length + 7 + streamCost stream.tail + actsCost as
  | .ownWait _ as => c.stopProg.length + 9 + streamCost stream.tail + actsCost as
  | .ownCommit _ as => c.stopProg.length + 8 + streamCost stream.tail + actsCost as
  | .commit => c.stopProg.length + 6 + streamCost stream.tail
  | .check => c.stopProg.length + 5 + streamCost stream
  | .wgDone => c.stopProg.length + 2
  | .stop k => rankK c k

def rankW : WPc → Nat
  | .check => 4 | .lock => 3 | .wait => 2 | .commit => 1 | .finished => 0 | .panicked => 0

/-- bytes the processor may still commit to its own outgoing ring -/
def procOut (stream : List Pkt) : PPc → Nat
  | .size => streamOut stream
  | .msg => streamOut stream
  | .acts as => actsOut as + streamOut stream.tail
  | .ownWait l as => l + actsOut as + streamOut stream.tail
  | .ownCommit l as => l + actsOut as + streamOut stream.tail
  | .commit => streamOut stream.tail
  | .check => streamOut stream
  | _ => 0

def wOut (w : WTh) : Nat :=
  match w.pc with
  | .finished => 0
  | .panicked => 0
  | _ => w.len

def sumK (c : Cfg) : List KPc → Nat
  | [] => 0
  | k :: ks => rankK c k + sumK c ks

def sumW : List WTh → Nat
  | [] => 0
  | w :: ws => rankW w.pc + sumW ws

def sumWOut : List WTh → Nat
  | [] => 0
  | w :: ws => wOut w + sumWOut ws

/-- bytes in the outgoing ring plus everything that may still be committed to it -/
def outBound (s : St) : Nat := s.sh.outR.buf + procOut s.sh.stream s.proc + sumWOut s.ws

/-- the termination measure: an explicit natural number that every step of every thread lowers -/
def rank (c : Cfg) (s : St) : Nat :=
  rankR s.sh.wire s.recv + rankS (outBound s) s.send + rankP c s.sh.stream s.proc + sumK c s.ks + sumW s.ws

end Mqtt.Model.Lifecycle
