/-
Keep-alive: the deadline arithmetic of `service/sendrecv.go` (`receiver`,
`timeoutReader`) and `service/server.go` (keep-alive 0 ⇒ `minKeepAlive`), with
the receiver loop as a timed state machine.  Constants and the shape of the
deadline expression are regenerated from the source (`Generated.Facts`).
Time is in nanoseconds (`time.Duration`).
-/
import Mqtt.Generated.Facts

namespace Mqtt.Model.KeepAlive
open Mqtt.Generated

def second : Nat := 1000000000

/-- `handleConnection`: a CONNECT keep-alive of 0 is replaced by `minKeepAlive` -/
def effective (k : Nat) : Nat := if k = 0 then minKeepAlive else k

/-- `keepAlive + keepAlive / N` with `keepAlive = time.Second * k` -/
def deadline (k : Nat) : Nat := k * second + k * second / keepAliveDivisor

/-- The receiver: `ReadFrom` calls `timeoutReader.Read` in a loop; every call
arms the socket's read deadline at `now + d` and then blocks until data
arrives or the deadline passes.  `armed` is the time the pending read was
armed; each element of the list is the arrival time of the next data and the
delay until the following read is issued (ring space permitting).  Result: the
time at which a read times out, if one does. -/
def firstExpiry (d : Nat) : (armed : Nat) → List (Nat × Nat) → (silentAfter : Bool) → Option Nat
  | armed, [], silent => if silent then some (armed + d) else none
  | armed, (t, delay) :: rest, silent =>
    if t > armed + d then some (armed + d)
    else firstExpiry d (max t armed + delay) rest silent

end Mqtt.Model.KeepAlive
