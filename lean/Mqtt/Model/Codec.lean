/-
Core A — model of package `message` (code-shaped).

Every definition follows the Go function of the same name in
`message/{header,message,connect,connack,publish,puback,subscribe,suback,
unsubscribe,disconnect}.go` as the code is NOW (after the `fix:` commits listed
in known_findings.json / NOTES-codec.md).

Conventions
* A Go byte slice handed to `Decode` has `cap == len` and is a `List UInt8`.
  Every index / re-slice goes through a checked primitive (`index`, `slice`,
  `sliceFrom`, `sliceTo`) that yields `.panic` exactly when Go would panic
  (with `cap == len` a silent over-read is impossible, so `.oob` = `.panic`).
* `Outcome` = what a call does: returns normally (`ok`), returns an error
  (`err`; error texts are not modelled; the byte count of an error return of
  `Decode` is computed separately by `decodeNewErrN`), or panics.
* A message object carries `dirty`, `dbuf` and the two aliases the Go code
  relies on: `mtypeflags` may be a view of `dbuf[0:1]` (`tfInBuf`) and
  `packetID` a view of two bytes of `dbuf` (`pidOff`); setters that write
  through these slices update `dbuf` as well.
* `Encode` is modelled for a destination of `dstLen` bytes and yields the bytes
  written (`dst[:n]`).  Integer widths: lengths are naturals (`int` is 64 bit;
  2^31-byte messages are unreachable); the 64-bit identifier counter and the
  `int32` conversion of the remaining length are modelled exactly.
* Constants (`DefaultFlags`, limits, thresholds, versions) come from
  `Mqtt.Generated.Facts`, regenerated from the Go source on every run.
-/
import Mqtt.Generated.Facts
import Mqtt.Iface.Codec

namespace Mqtt.Model.Codec

open Mqtt.Generated
open Mqtt.Iface.Codec

/-! ## Outcomes and Go slices -/

inductive Outcome (α : Type) where
  | ok (a : α)
  | err
  | panic
deriving Repr, DecidableEq

@[inline] def Outcome.bind {α β : Type} : Outcome α → (α → Outcome β) → Outcome β
  | .ok a, f => f a
  | .err, _ => .err
  | .panic, _ => .panic

instance : Monad Outcome where
  pure := .ok
  bind := Outcome.bind

/-- `s[lo:]` -/
def sliceFrom (s : Bytes) (lo : Nat) : Outcome Bytes :=
  if lo ≤ s.length then .ok (s.drop lo) else .panic

/-- `s[:hi]` -/
def sliceTo (s : Bytes) (hi : Nat) : Outcome Bytes :=
  if hi ≤ s.length then .ok (s.take hi) else .panic

/-- `s[lo:hi]` -/
def slice (s : Bytes) (lo hi : Nat) : Outcome Bytes :=
  if lo ≤ hi ∧ hi ≤ s.length then .ok ((s.drop lo).take (hi - lo)) else .panic

/-- `s[i]` -/
def index (s : Bytes) (i : Nat) : Outcome UInt8 :=
  match s[i]? with
  | some b => .ok b
  | none => .panic

/-! ## encoding/binary -/

/-- `binary.BigEndian.Uint16(b)` for `len(b) ≥ 2` -/
def beU16 (a b : UInt8) : Nat := a.toNat * 256 + b.toNat

/-- `binary.BigEndian.PutUint16` -/
def putU16 (v : Nat) : Bytes := [UInt8.ofNat (v / 256), UInt8.ofNat (v % 256)]

/-- `binary.Uvarint`: value and byte count (`0`: buffer too small, negative: overflow).
`x |= uint64(b&0x7f) << s` is written arithmetically (the bits are disjoint);
the final `x | uint64(b)<<s` is truncated to 64 bits. -/
def uvarintAux : Bytes → Nat → Nat → Nat × Int
  | [], _, _ => (0, 0)
  | b :: rest, i, x =>
    if i = 10 then (0, -((i : Int) + 1))
    else if b.toNat < 128 then
      if i = 9 ∧ b.toNat > 1 then (0, -((i : Int) + 1))
      else ((x + b.toNat * 128 ^ i) % 2 ^ 64, (i : Int) + 1)
    else uvarintAux rest (i + 1) (x + b.toNat % 128 * 128 ^ i)

def uvarint (buf : Bytes) : Nat × Int := uvarintAux buf 0 0

/-- the loop of `binary.PutUvarint` (`for x >= 0x80 { … }`), at most `fuel` more continuation bytes -/
def putUvarintAux : Nat → Nat → Bytes
  | 0, x => [UInt8.ofNat x]
  | fuel + 1, x => if x ≥ 128 then UInt8.ofNat (x % 128 + 128) :: putUvarintAux fuel (x / 128) else [UInt8.ofNat x]

/-- `binary.PutUvarint`: the bytes written (a `uint64` needs at most nine continuation bytes) -/
def putUvarint (x : Nat) : Bytes := putUvarintAux 9 x

/-- `int32(v)` of a `uint64` -/
def toInt32 (v : Nat) : Int :=
  let w : Nat := v % 2 ^ 32
  if w < 2 ^ 31 then Int.ofNat w else Int.ofNat w - 2 ^ 32

/-! ## message.go -/

/-- `Type.Valid` -/
def validType (t : Nat) : Bool := typeValidAbove < t && t < typeValidBelow

/-- `Type.DefaultFlags` -/
def defaultFlagsOf (t : Nat) : Nat := defaultFlags.getD t 0

/-- `ValidQos` -/
def validQos (q : Nat) : Bool := q == qosAtMostOnce || q == qosAtLeastOnce || q == qosExactlyOnce

/-- `ValidTopic`: non-empty, no `#`, no `+` -/
def validTopic (t : Bytes) : Bool := t.length > 0 && !t.contains 0x23 && !t.contains 0x2b

/-- `SupportedVersions[v]` -/
def versionName (v : Nat) : Option Bytes := supportedVersions.lookup v

/-- `readLPBytes`: the bytes and the count consumed -/
def readLPBytes (buf : Bytes) : Outcome (Bytes × Nat) :=
  match buf with
  | a :: b :: _ =>
    let n := beU16 a b
    if buf.length < n + 2 then .err
    else (slice buf 2 (2 + n)).bind fun v => .ok (v, 2 + n)
  | _ => .err

/-- `writeLPBytes` into a buffer of `avail` bytes: the bytes written -/
def writeLPBytes (avail : Nat) (b : Bytes) : Outcome Bytes :=
  if b.length > maxLPString then .err
  else if avail < 2 + b.length then .err
  else .ok (putU16 b.length ++ b)

/-! ## header.go -/

structure Hdr where
  /-- `mtypeflags[0]` (the slice always has length 1 after `New`) -/
  tf : UInt8
  /-- `mtypeflags` is `dbuf[0:1]` -/
  tfInBuf : Bool := false
  /-- contents of the `packetID` slice (length 0 or 2) -/
  pid : Bytes := []
  /-- `packetID` is `dbuf[off:off+2]` -/
  pidOff : Option Nat := none
  remlen : Nat := 0
  dbuf : Bytes := []
  dirty : Bool := true
deriving Repr, DecidableEq

def Hdr.type (h : Hdr) : Nat := h.tf.toNat / 16
def Hdr.flags (h : Hdr) : Nat := h.tf.toNat % 16

/-- `SetType` on a zero header (what every `New…Message` does) -/
def Hdr.new (t : Nat) : Hdr :=
  { tf := UInt8.ofNat (t * 16 + defaultFlagsOf t % 16) }

/-- store `v` into `mtypeflags[0]` (through to `dbuf` when it is a view) -/
def Hdr.setTf (h : Hdr) (v : UInt8) : Hdr :=
  { h with tf := v, dbuf := if h.tfInBuf then h.dbuf.set 0 v else h.dbuf }

/-- `PacketID` -/
def Hdr.packetID (h : Hdr) : Nat :=
  match h.pid with
  | [a, b] => beU16 a b
  | _ => 0

/-- `SetPacketID(uint16 v)` -/
def Hdr.setPacketID (h : Hdr) (v : Nat) : Hdr :=
  if v = 0 then h
  else if h.pid.length ≠ 2 then { h with pid := putU16 v, pidOff := none, dirty := true }
  else match h.pidOff with
    | none => { h with pid := putU16 v }
    | some off =>
      { h with pid := putU16 v,
               dbuf := (h.dbuf.set off (UInt8.ofNat (v / 256))).set (off + 1) (UInt8.ofNat (v % 256)) }

/-- `header.msglen` for a remaining length -/
def hdrLen (remlen : Nat) : Nat :=
  1 + (if remlen ≤ msglenT1 then 1 else if remlen ≤ msglenT2 then 2 else if remlen ≤ msglenT3 then 3 else 4)

/-- `header.encode(dst)` with `h.remlen = remlen`, `len(dst) = avail`: the bytes written -/
def Hdr.encode (h : Hdr) (remlen avail : Nat) : Outcome Bytes :=
  if avail < hdrLen remlen then .err
  else if remlen > maxRemainingLength then .err
  else if !validType h.type then .err
  else
    let v := putUvarint remlen
    if avail < 1 + v.length then .panic else .ok (h.tf :: v)

/-- `header.decode(src)`: the updated header and the byte count -/
def Hdr.decode (h : Hdr) (src : Bytes) : Outcome (Hdr × Nat) :=
  if src.length < 1 then .err else
  let mtype := h.type
  (slice src 0 1).bind fun mf =>
  let h := { h with dbuf := src, tf := mf.headD 0, tfInBuf := true }
  if !validType h.type then .err
  else if mtype ≠ h.type then .err
  else if h.type ≠ tPUBLISH && h.flags ≠ defaultFlagsOf h.type then .err
  else if h.type = tPUBLISH && !validQos (h.flags / 2 % 4) then .err
  else
    (sliceFrom src 1).bind fun buf =>
    let r := uvarint buf
    if r.2 ≤ 0 ∨ r.2 > maxVarintBytes then .err else
    let total := 1 + r.2.toNat
    let remlen := toInt32 r.1
    if remlen > maxRemainingLength then .err else
    (sliceFrom src total).bind fun rest =>
    if remlen > rest.length then .err else
    (sliceTo src (total + remlen.toNat)).bind fun d =>
    .ok ({ h with remlen := remlen.toNat, dbuf := d }, total)

/-! ## The message objects -/

structure ConnectF where
  connectFlags : UInt8 := 0
  version : UInt8 := 0
  keepAlive : Nat := 0
  protoName : Bytes := []
  clientID : Bytes := []
  willTopic : Bytes := []
  willMessage : Bytes := []
  username : Bytes := []
  password : Bytes := []
deriving Repr, DecidableEq

def ConnectF.cleanSession (c : ConnectF) : Bool := c.connectFlags.toNat / 2 % 2 = 1
def ConnectF.willFlag (c : ConnectF) : Bool := c.connectFlags.toNat / 4 % 2 = 1
def ConnectF.willQos (c : ConnectF) : Nat := c.connectFlags.toNat / 8 % 4
def ConnectF.willRetain (c : ConnectF) : Bool := c.connectFlags.toNat / 32 % 2 = 1
def ConnectF.passwordFlag (c : ConnectF) : Bool := c.connectFlags.toNat / 64 % 2 = 1
def ConnectF.usernameFlag (c : ConnectF) : Bool := c.connectFlags.toNat / 128 % 2 = 1

/-- one constructor per Go struct shape: `PubackMessage` is embedded by PUBREC,
PUBREL, PUBCOMP and UNSUBACK; `DisconnectMessage` by PINGREQ and PINGRESP -/
inductive Msg where
  | connect (h : Hdr) (c : ConnectF)
  | connack (h : Hdr) (sessionPresent : Bool) (returnCode : UInt8)
  | publish (h : Hdr) (topic payload : Bytes)
  | ack (h : Hdr)
  | subscribe (h : Hdr) (topics : List Bytes) (qos : List UInt8)
  | suback (h : Hdr) (returnCodes : Bytes)
  | unsubscribe (h : Hdr) (topics : List Bytes)
  | bare (h : Hdr)
deriving Repr, DecidableEq

def Msg.hdr : Msg → Hdr
  | .connect h _ | .connack h _ _ | .publish h _ _ | .ack h | .subscribe h _ _ | .suback h _
  | .unsubscribe h _ | .bare h => h

def Msg.setHdr (m : Msg) (h : Hdr) : Msg :=
  match m with
  | .connect _ c => .connect h c
  | .connack _ a b => .connack h a b
  | .publish _ a b => .publish h a b
  | .ack _ => .ack h
  | .subscribe _ a b => .subscribe h a b
  | .suback _ a => .suback h a
  | .unsubscribe _ a => .unsubscribe h a
  | .bare _ => .bare h

/-- `Type.New` -/
def Msg.new (t : Nat) : Option Msg :=
  if t = tCONNECT then some (.connect (Hdr.new t) {})
  else if t = tCONNACK then some (.connack (Hdr.new t) false 0)
  else if t = tPUBLISH then some (.publish (Hdr.new t) [] [])
  else if t = tPUBACK ∨ t = tPUBREC ∨ t = tPUBREL ∨ t = tPUBCOMP ∨ t = tUNSUBACK then some (.ack (Hdr.new t))
  else if t = tSUBSCRIBE then some (.subscribe (Hdr.new t) [] [])
  else if t = tSUBACK then some (.suback (Hdr.new t) [])
  else if t = tUNSUBSCRIBE then some (.unsubscribe (Hdr.new t) [])
  else if t = tPINGREQ ∨ t = tPINGRESP ∨ t = tDISCONNECT then some (.bare (Hdr.new t))
  else none

/-! ### PUBLISH flag accessors -/

def pubDup (h : Hdr) : Bool := h.flags / 8 % 2 = 1
def pubRetain (h : Hdr) : Bool := h.flags % 2 = 1
def pubQoS (h : Hdr) : Nat := h.flags / 2 % 4

/-! ## Decode -/

/-- a view of the input: offset and length of a returned field -/
abbrev View := Nat × Nat

/-- result of a successful `Decode`: the message, the byte count, and where each
byte-slice field it exposes lies in the input (in the order the harness prints them) -/
structure Decoded where
  msg : Msg
  n : Nat
  views : List View
deriving Repr, DecidableEq

/-- `validClientID`: `^[[:print:]]{0,32}$` on bytes -/
def validClientID (cid : Bytes) : Bool :=
  cid.length ≤ clientIDMaxLen && cid.all (fun b => 0x20 ≤ b.toNat && b.toNat ≤ 0x7e)

/-- `DisconnectMessage.Decode` (also PINGREQ, PINGRESP) -/
def decodeBare (h : Hdr) (src : Bytes) : Outcome Decoded :=
  (h.decode src).bind fun r =>
  let h := r.1
  if h.remlen ≠ 0 then .err else
  .ok ⟨.bare { h with dirty := false }, r.2, []⟩

/-- `PubackMessage.Decode` (also PUBREC, PUBREL, PUBCOMP, UNSUBACK) -/
def decodeAck (h : Hdr) (src : Bytes) : Outcome Decoded :=
  (sliceFrom src 0).bind fun s0 =>
  (h.decode s0).bind fun r =>
  let h := r.1
  let total := r.2
  if h.remlen ≠ 2 then .err else
  (slice src total (total + 2)).bind fun pid =>
  .ok ⟨.ack { h with pid := pid, pidOff := some total, dirty := false }, total + 2, []⟩

/-- `ConnackMessage.Decode` -/
def decodeConnack (h : Hdr) (src : Bytes) : Outcome Decoded :=
  (h.decode src).bind fun r =>
  let h := r.1
  let total := r.2
  if h.remlen ≠ 2 then .err else
  (index src total).bind fun b =>
  if b.toNat / 2 ≠ 0 then .err else
  let sp := b.toNat % 2 = 1
  let total := total + 1
  (index src total).bind fun b =>
  if b.toNat > connackMaxCode then .err else
  .ok ⟨.connack { h with dirty := false } sp b, total + 1, []⟩

/-- `PublishMessage.Decode` -/
def decodePublish (h : Hdr) (src : Bytes) : Outcome Decoded :=
  (sliceFrom src 0).bind fun s0 =>
  (h.decode s0).bind fun r =>
  let h := r.1
  let hn := r.2
  (sliceTo src (hn + h.remlen)).bind fun src =>
  let total := hn
  (sliceFrom src total).bind fun buf =>
  (readLPBytes buf).bind fun lp =>
  let topic := lp.1
  let vTopic : View := (total + 2, topic.length)
  let total := total + lp.2
  if !validTopic topic then .err else
  (if pubQoS h ≠ 0 then
    (sliceFrom src total).bind fun rest =>
    if rest.length < 2 then .err else
    (slice src total (total + 2)).bind fun pid =>
    .ok ({ h with pid := pid, pidOff := some total }, total + 2)
   else .ok (h, total)).bind fun hp =>
  let h := hp.1
  let total := hp.2
  if total - hn > h.remlen then .panic else
  let l := h.remlen - (total - hn)
  (slice src total (total + l)).bind fun payload =>
  .ok ⟨.publish { h with dirty := false } topic payload, total + payload.length, [vTopic, (total, payload.length)]⟩

/-- `SubackMessage.Decode` -/
def decodeSuback (h : Hdr) (src : Bytes) : Outcome Decoded :=
  (sliceFrom src 0).bind fun s0 =>
  (h.decode s0).bind fun r =>
  let h := r.1
  let hn := r.2
  (sliceTo src (hn + h.remlen)).bind fun src =>
  let total := hn
  if h.remlen < 2 then .err else
  (slice src total (total + 2)).bind fun pid =>
  let h := { h with pid := pid, pidOff := some total }
  let total := total + 2
  let l := h.remlen - (total - hn)
  (slice src total (total + l)).bind fun codes =>
  let total' := total + codes.length
  if codes.all (fun c => c = 0 || c = 1 || c = 2 || c = 0x80) then
    .ok ⟨.suback { h with dirty := false } codes, total', [(total, codes.length)]⟩
  else .err

/-- one iteration of the SUBSCRIBE loop body: topic, QoS byte, bytes consumed (`n`, then one more) -/
def subStep (src : Bytes) (total : Nat) : Outcome (Bytes × UInt8 × Nat) :=
  (sliceFrom src total).bind fun buf =>
  (readLPBytes buf).bind fun lp =>
  let total := total + lp.2
  (sliceFrom src total).bind fun rest =>
  if rest.length < 1 then .err else
  (index src total).bind fun q =>
  .ok (lp.1, q, lp.2)

/-- `for remlen > 0 { … }` of `SubscribeMessage.Decode` -/
def subLoop (src : Bytes) (total remlen : Nat) (topics : List Bytes) (qos : List UInt8) (views : List View) :
    Outcome (List Bytes × List UInt8 × List View × Nat) :=
  if remlen = 0 then .ok (topics, qos, views, total) else
  match subStep src total with
  | .ok (t, q, n) =>
    subLoop src (total + n + 1) (remlen - n - 1) (topics ++ [t]) (qos ++ [q]) (views ++ [(total + 2, t.length)])
  | .err => .err
  | .panic => .panic
termination_by remlen
decreasing_by omega

/-- `SubscribeMessage.Decode` -/
def decodeSubscribe (h : Hdr) (topics : List Bytes) (qos : List UInt8) (src : Bytes) : Outcome Decoded :=
  (sliceFrom src 0).bind fun s0 =>
  (h.decode s0).bind fun r =>
  let h := r.1
  let hn := r.2
  (sliceTo src (hn + h.remlen)).bind fun src =>
  let total := hn
  if h.remlen < 2 then .err else
  (slice src total (total + 2)).bind fun pid =>
  let h := { h with pid := pid, pidOff := some total }
  let total := total + 2
  (subLoop src total (h.remlen - (total - hn)) topics qos []).bind fun r =>
  if r.1.length = 0 then .err else
  .ok ⟨.subscribe { h with dirty := false } r.1 r.2.1, r.2.2.2, r.2.2.1⟩

/-- one iteration of the UNSUBSCRIBE loop body: topic and the bytes consumed beyond the two length bytes -/
def unsubStep (src : Bytes) (total : Nat) : Outcome (Bytes × Nat) :=
  (sliceFrom src total).bind fun buf =>
  (readLPBytes buf).bind fun lp =>
  .ok (lp.1, lp.2 - 2)

/-- `for remlen > 0 { … }` of `UnsubscribeMessage.Decode` -/
def unsubLoop (src : Bytes) (total remlen : Nat) (topics : List Bytes) (views : List View) :
    Outcome (List Bytes × List View × Nat) :=
  if remlen = 0 then .ok (topics, views, total) else
  match unsubStep src total with
  | .ok (t, k) =>
    unsubLoop src (total + (2 + k)) (remlen - (2 + k)) (topics ++ [t]) (views ++ [(total + 2, t.length)])
  | .err => .err
  | .panic => .panic
termination_by remlen
decreasing_by omega

/-- `UnsubscribeMessage.Decode` -/
def decodeUnsubscribe (h : Hdr) (topics : List Bytes) (src : Bytes) : Outcome Decoded :=
  (sliceFrom src 0).bind fun s0 =>
  (h.decode s0).bind fun r =>
  let h := r.1
  let hn := r.2
  (sliceTo src (hn + h.remlen)).bind fun src =>
  let total := hn
  if h.remlen < 2 then .err else
  (slice src total (total + 2)).bind fun pid =>
  let h := { h with pid := pid, pidOff := some total }
  let total := total + 2
  (unsubLoop src total (h.remlen - (total - hn)) topics []).bind fun r =>
  if r.1.length = 0 then .err else
  .ok ⟨.unsubscribe { h with dirty := false } r.1, r.2.2, r.2.1⟩

/-- an optional length-prefixed field of CONNECT at `total` -/
def readField (src : Bytes) (total : Nat) : Outcome (Bytes × View × Nat) :=
  (sliceFrom src total).bind fun buf =>
  (readLPBytes buf).bind fun lp =>
  .ok (lp.1, (total + 2, lp.1.length), total + lp.2)

/-! `ConnectMessage.decodeMessage(src)` in five consecutive sections; `base` =
offset of `src` in the input (for the views), `total` = the Go variable. -/

/-- protocol name, protocol level, connect flags, keep alive -/
def connectFixed (c : ConnectF) (src : Bytes) : Outcome (ConnectF × Nat) :=
  (readField src 0).bind fun f =>
  let total := f.2.2
  (sliceFrom src total).bind fun rest =>
  if rest.length < 2 then .err else
  (index src total).bind fun ver =>
  if versionName ver.toNat ≠ some f.1 then .err else
  (index src (total + 1)).bind fun cf =>
  let c1 : ConnectF := { c with protoName := f.1, version := ver, connectFlags := cf }
  let total := total + 1 + 1
  if cf.toNat % 2 ≠ 0 then .err
  else if c1.willQos > qosExactlyOnce then .err
  else if !c1.willFlag && (c1.willRetain || c1.willQos ≠ qosAtMostOnce) then .err
  else
  (sliceFrom src total).bind fun rest =>
  if rest.length < 2 then .err else
  (slice src total (total + 2)).bind fun ka =>
  .ok ({ c1 with keepAlive := beU16 (ka.headD 0) (ka.getD 1 0) }, total + 2)

/-- client identifier -/
def connectClientID (c : ConnectF) (src : Bytes) (total base : Nat) : Outcome (ConnectF × View × Nat) :=
  (readField src total).bind fun f =>
  let c1 : ConnectF := { c with clientID := f.1 }
  if c1.clientID.length = 0 && !c1.cleanSession then .err
  else if c1.clientID.length > 0 && !validClientID c1.clientID then .err
  else .ok (c1, (base + f.2.1.1, f.2.1.2), f.2.2)

/-- will topic and will message -/
def connectWill (c : ConnectF) (src : Bytes) (total base : Nat) : Outcome (ConnectF × View × View × Nat) :=
  if c.willFlag then
    (readField src total).bind fun f1 =>
    (readField src f1.2.2).bind fun f2 =>
    .ok ({ c with willTopic := f1.1, willMessage := f2.1 },
         (base + f1.2.1.1, f1.2.1.2), (base + f2.2.1.1, f2.2.1.2), f2.2.2)
  else .ok (c, (0, 0), (0, 0), total)

/-- user name (read when the flag is set and bytes remain) -/
def connectUser (c : ConnectF) (src : Bytes) (total base : Nat) : Outcome (ConnectF × View × Nat) :=
  (sliceFrom src total).bind fun rest =>
  if c.usernameFlag && rest.length > 0 then
    (readField src total).bind fun f => .ok ({ c with username := f.1 }, (base + f.2.1.1, f.2.1.2), f.2.2)
  else .ok (c, (0, 0), total)

/-- password (read when the flag is set and bytes remain) -/
def connectPass (c : ConnectF) (src : Bytes) (total base : Nat) : Outcome (ConnectF × View × Nat) :=
  (sliceFrom src total).bind fun rest =>
  if c.passwordFlag && rest.length > 0 then
    (readField src total).bind fun f => .ok ({ c with password := f.1 }, (base + f.2.1.1, f.2.1.2), f.2.2)
  else .ok (c, (0, 0), total)

/-- `ConnectMessage.decodeMessage(src)`: fields, bytes consumed, views -/
def decodeConnectMessage (c : ConnectF) (src : Bytes) (base : Nat) : Outcome (ConnectF × Nat × List View) :=
  (connectFixed c src).bind fun r1 =>
  (connectClientID r1.1 src r1.2 base).bind fun r2 =>
  (connectWill r2.1 src r2.2.2 base).bind fun r3 =>
  (connectUser r3.1 src r3.2.2.2 base).bind fun r4 =>
  (connectPass r4.1 src r4.2.2 base).bind fun r5 =>
  .ok (r5.1, r5.2.2, [r2.2.1, r3.2.1, r3.2.2.1, r4.2.1, r5.2.1])

/-- `ConnectMessage.Decode` -/
def decodeConnect (h : Hdr) (c : ConnectF) (src : Bytes) : Outcome Decoded :=
  (sliceFrom src 0).bind fun s0 =>
  (h.decode s0).bind fun r =>
  let h := r.1
  let total := r.2
  (sliceTo src (total + h.remlen)).bind fun src =>
  (sliceFrom src total).bind fun body =>
  (decodeConnectMessage c body total).bind fun r =>
  let total := total + r.2.1
  if total ≠ src.length then .err else
  .ok ⟨.connect { h with dirty := false } r.1, total, r.2.2⟩

/-- `m.Decode(src)` -/
def decode (m : Msg) (src : Bytes) : Outcome Decoded :=
  match m with
  | .connect h c => decodeConnect h c src
  | .connack h _ _ => decodeConnack h src
  | .publish h _ _ => decodePublish h src
  | .ack h => decodeAck h src
  | .subscribe h ts qs => decodeSubscribe h ts qs src
  | .suback h _ => decodeSuback h src
  | .unsubscribe h ts => decodeUnsubscribe h ts src
  | .bare h => decodeBare h src

/-- `Type(t).New()` then `Decode(src)` -/
def decodeNew (t : Nat) (src : Bytes) : Outcome Decoded :=
  match Msg.new t with
  | some m => decode m src
  | none => .err

/-! ## The byte count returned together with an error

`Decode` returns `(total, err)`: the value of the Go variable `total` at the failing `return`.
`Outcome.err` does not carry it (the other cores that use the decoders never look at it); the
functions below compute it.  They follow the decoders above statement by statement and call them for
every stage that succeeds, so only the *positions* of the error returns are written a second time.
The value is meaningful when the decoder's outcome is `.err`. -/

/-- `header.decode`: `0` at every `return` before `total++`, `1` when `binary.Uvarint` fails,
`1 + m` at the two range checks of the remaining length -/
def Hdr.decodeErrN (h : Hdr) (src : Bytes) : Nat :=
  if src.length < 1 then 0 else
  let tf := src.headD 0
  let ty := tf.toNat / 16
  let fl := tf.toNat % 16
  if !validType ty then 0
  else if h.type ≠ ty then 0
  else if ty ≠ tPUBLISH && fl ≠ defaultFlagsOf ty then 0
  else if ty = tPUBLISH && !validQos (fl / 2 % 4) then 0
  else
    let r := uvarint (src.drop 1)
    if r.2 ≤ 0 ∨ r.2 > maxVarintBytes then 1 else 1 + r.2.toNat

/-- `readLPBytes`: `0` when the two length bytes are missing, `2` when the string is cut short -/
def readLPErrN (buf : Bytes) : Nat := if buf.length < 2 then 0 else 2

/-- `total += n` after a `readLPBytes(src[total:])` that failed -/
def fieldErrN (src : Bytes) (total : Nat) : Nat := total + readLPErrN (src.drop total)

/-- `DisconnectMessage.Decode`, `PubackMessage.Decode`: header error, or wrong remaining length (`total` = header length) -/
def decodeFixedErrN (h : Hdr) (src : Bytes) : Nat :=
  match h.decode src with
  | .ok r => r.2
  | _ => h.decodeErrN src

/-- `ConnackMessage.Decode`: the two checks of the variable header `return 0, …` -/
def decodeConnackErrN (h : Hdr) (src : Bytes) : Nat :=
  match h.decode src with
  | .ok r => if r.1.remlen ≠ 2 then r.2 else 0
  | _ => h.decodeErrN src

/-- `PublishMessage.Decode`: topic not readable; topic invalid or identifier missing (`total` = behind the topic) -/
def decodePublishErrN (h : Hdr) (src : Bytes) : Nat :=
  match h.decode src with
  | .ok r =>
    let hn := r.2
    let src := src.take (hn + r.1.remlen)
    match readLPBytes (src.drop hn) with
    | .ok lp => hn + lp.2
    | _ => fieldErrN src hn
  | _ => h.decodeErrN src

/-- `SubackMessage.Decode`: remaining length below 2; invalid return code (`total` = end of the packet) -/
def decodeSubackErrN (h : Hdr) (src : Bytes) : Nat :=
  match h.decode src with
  | .ok r => if r.1.remlen < 2 then r.2 else r.2 + r.1.remlen
  | _ => h.decodeErrN src

/-- a failing iteration of the SUBSCRIBE loop: topic not readable, or QoS byte missing (`total` = behind the topic) -/
def subStepErrN (src : Bytes) (total : Nat) : Nat :=
  match readLPBytes (src.drop total) with
  | .ok lp => total + lp.2
  | _ => fieldErrN src total

/-- the SUBSCRIBE loop; when it ends without an error the only error left is the empty topic list (`return 0, …`) -/
def subLoopErrN (src : Bytes) (total remlen : Nat) : Nat :=
  if remlen = 0 then 0 else
  match subStep src total with
  | .ok (_, _, n) => subLoopErrN src (total + n + 1) (remlen - n - 1)
  | _ => subStepErrN src total
termination_by remlen
decreasing_by omega

def decodeSubscribeErrN (h : Hdr) (src : Bytes) : Nat :=
  match h.decode src with
  | .ok r =>
    let hn := r.2
    if r.1.remlen < 2 then hn else subLoopErrN (src.take (hn + r.1.remlen)) (hn + 2) (r.1.remlen - 2)
  | _ => h.decodeErrN src

def unsubLoopErrN (src : Bytes) (total remlen : Nat) : Nat :=
  if remlen = 0 then 0 else
  match unsubStep src total with
  | .ok (_, k) => unsubLoopErrN src (total + (2 + k)) (remlen - (2 + k))
  | _ => fieldErrN src total
termination_by remlen
decreasing_by omega

def decodeUnsubscribeErrN (h : Hdr) (src : Bytes) : Nat :=
  match h.decode src with
  | .ok r =>
    let hn := r.2
    if r.1.remlen < 2 then hn else unsubLoopErrN (src.take (hn + r.1.remlen)) (hn + 2) (r.1.remlen - 2)
  | _ => h.decodeErrN src

/-- `decodeMessage`, first section: protocol name not readable; fewer than two bytes behind it; protocol
level (`total` = behind the level byte); the three checks of the flags byte (`total` = behind it);
keep alive missing (`return 0, …`) -/
def connectFixedErrN (c : ConnectF) (src : Bytes) : Nat :=
  match readField src 0 with
  | .ok f =>
    let total := f.2.2
    if (src.drop total).length < 2 then total else
    let ver := (src.drop total).headD 0
    if versionName ver.toNat ≠ some f.1 then total + 1 else
    let cf := (src.drop (total + 1)).headD 0
    let c1 : ConnectF := { c with connectFlags := cf }
    if cf.toNat % 2 ≠ 0 then total + 2
    else if c1.willQos > qosExactlyOnce then total + 2
    else if !c1.willFlag && (c1.willRetain || c1.willQos ≠ qosAtMostOnce) then total + 2
    else 0
  | _ => fieldErrN src 0

/-- client identifier not readable, or rejected (`total` = behind it) -/
def connectClientIDErrN (src : Bytes) (total : Nat) : Nat :=
  match readLPBytes (src.drop total) with
  | .ok lp => total + lp.2
  | _ => fieldErrN src total

/-- will topic or will message not readable -/
def connectWillErrN (src : Bytes) (total : Nat) : Nat :=
  match readField src total with
  | .ok f => fieldErrN src f.2.2
  | _ => fieldErrN src total

/-- `ConnectMessage.decodeMessage(src)`: the count of an error return, or the bytes consumed -/
def decodeConnectMessageErrN (c : ConnectF) (src : Bytes) : Nat :=
  match connectFixed c src with
  | .ok r1 =>
    match connectClientID r1.1 src r1.2 0 with
    | .ok r2 =>
      match connectWill r2.1 src r2.2.2 0 with
      | .ok r3 =>
        match connectUser r3.1 src r3.2.2.2 0 with
        | .ok r4 =>
          match connectPass r4.1 src r4.2.2 0 with
          | .ok r5 => r5.2.2
          | _ => fieldErrN src r4.2.2
        | _ => fieldErrN src r3.2.2.2
      | _ => connectWillErrN src r2.2.2
    | _ => connectClientIDErrN src r1.2
  | _ => connectFixedErrN c src

/-- `ConnectMessage.Decode`: `total + n` for an error of `decodeMessage`, `total` for bytes behind the last field -/
def decodeConnectErrN (h : Hdr) (c : ConnectF) (src : Bytes) : Nat :=
  match h.decode src with
  | .ok r =>
    let hn := r.2
    hn + decodeConnectMessageErrN c ((src.take (hn + r.1.remlen)).drop hn)
  | _ => h.decodeErrN src

/-- the byte count `m.Decode(src)` returns together with an error -/
def decodeErrN (m : Msg) (src : Bytes) : Nat :=
  match m with
  | .connect h c => decodeConnectErrN h c src
  | .connack h _ _ => decodeConnackErrN h src
  | .publish h _ _ => decodePublishErrN h src
  | .ack h => decodeFixedErrN h src
  | .subscribe h _ _ => decodeSubscribeErrN h src
  | .suback h _ => decodeSubackErrN h src
  | .unsubscribe h _ => decodeUnsubscribeErrN h src
  | .bare h => decodeFixedErrN h src

/-- `Type(t).New()` then `Decode(src)`: the count of an error return -/
def decodeNewErrN (t : Nat) (src : Bytes) : Nat :=
  match Msg.new t with
  | some m => decodeErrN m src
  | none => 0

/-! ## Len -/

def connectMsglen (c : ConnectF) : Nat :=
  match versionName c.version.toNat with
  | none => 0
  | some verstr =>
    2 + verstr.length + 1 + 1 + 2 + (2 + c.clientID.length) +
    (if c.willFlag then 2 + c.willTopic.length + 2 + c.willMessage.length else 0) +
    (if c.usernameFlag then 2 + c.username.length else 0) +
    (if c.passwordFlag then 2 + c.password.length else 0)

/-- the per-type `msglen()` (remaining length computed from the fields) -/
def Msg.msglen : Msg → Nat
  | .connect _ c => connectMsglen c
  | .connack _ _ _ => 2
  | .publish h topic payload => 2 + topic.length + payload.length + (if pubQoS h ≠ 0 then 2 else 0)
  | .ack _ => 2
  | .subscribe _ ts _ => 2 + (ts.map (fun t => 2 + t.length + 1)).sum
  | .suback _ codes => 2 + codes.length
  | .unsubscribe _ ts => 2 + (ts.map (fun t => 2 + t.length)).sum
  | .bare _ => 0

/-- `m.Len()` -/
def Msg.len (m : Msg) : Nat :=
  match m with
  | .bare h => if !h.dirty then h.dbuf.length else hdrLen h.remlen
  | _ =>
    if !m.hdr.dirty then m.hdr.dbuf.length
    else if m.msglen > maxRemainingLength then 0
    else hdrLen m.msglen + m.msglen

/-! ## Automatic packet identifiers -/

/-- `nextPacketID()`: add one to the process-wide 64-bit counter until its low 16 bits are non-zero -/
def nextPacketID (ctr : UInt64) : Nat × UInt64 :=
  let c1 := ctr + 1
  if c1.toNat % 65536 ≠ 0 then (c1.toNat % 65536, c1)
  else
    let c2 := c1 + 1
    (c2.toNat % 65536, c2)

/-! ## Encode -/

/-- result of `Encode`: the (possibly updated) message, the counter, the bytes written -/
structure Encoded where
  msg : Msg
  ctr : UInt64
  out : Bytes
deriving Repr, DecidableEq

/-- the common prologue of the non-dirty path: copy `dbuf` -/
def encodeClean (m : Msg) (ctr : UInt64) (dstLen : Nat) : Outcome Encoded :=
  if dstLen < m.hdr.dbuf.length then .err else .ok ⟨m, ctr, m.hdr.dbuf⟩

/-- `copy(dst[total:total+2], m.packetID)`, zero-filled when no identifier is set -/
def pidOrZero (h : Hdr) : Bytes := if h.pid.length = 2 then h.pid else [0, 0]

def encodeConnectMessage (c : ConnectF) (avail : Nat) : Outcome Bytes :=
  (writeLPBytes avail ((versionName c.version.toNat).getD [])).bind fun o1 =>
  let out := o1 ++ [c.version, c.connectFlags] ++ putU16 c.keepAlive
  (writeLPBytes (avail - out.length) c.clientID).bind fun o2 =>
  let out := out ++ o2
  (if c.willFlag then
    (writeLPBytes (avail - out.length) c.willTopic).bind fun a =>
    (writeLPBytes (avail - out.length - a.length) c.willMessage).bind fun b => .ok (out ++ a ++ b)
   else .ok out).bind fun out =>
  (if c.usernameFlag then
    (writeLPBytes (avail - out.length) c.username).bind fun a => .ok (out ++ a)
   else .ok out).bind fun out =>
  (if c.passwordFlag then
    (writeLPBytes (avail - out.length) c.password).bind fun a => .ok (out ++ a)
   else .ok out)

def writeTopicsQos (avail : Nat) : List Bytes → List UInt8 → Outcome Bytes
  | [], _ => .ok []
  | t :: ts, qs =>
    (writeLPBytes avail t).bind fun a =>
    match qs with
    | [] => .panic
    | q :: qs' =>
      (writeTopicsQos (avail - a.length - 1) ts qs').bind fun r => .ok (a ++ [q] ++ r)

def writeTopics (avail : Nat) : List Bytes → Outcome Bytes
  | [] => .ok []
  | t :: ts =>
    (writeLPBytes avail t).bind fun a =>
    (writeTopics (avail - a.length) ts).bind fun r => .ok (a ++ r)

/-- `m.Encode(dst)` with `len(dst) = dstLen` -/
def encode (m : Msg) (ctr : UInt64) (dstLen : Nat) : Outcome Encoded :=
  match m with
  | .bare h =>
    if !h.dirty then encodeClean m ctr dstLen
    else (h.encode h.remlen dstLen).bind fun hb => .ok ⟨m, ctr, hb⟩
  | .ack h =>
    if !h.dirty then encodeClean m ctr dstLen else
    let ml := m.msglen
    if dstLen < hdrLen ml + ml then .err
    else if ml > maxRemainingLength then .err
    else (h.encode ml dstLen).bind fun hb => .ok ⟨m, ctr, hb ++ pidOrZero h⟩
  | .connack h sp rc =>
    if !h.dirty then encodeClean m ctr dstLen else
    let ml := m.msglen
    if dstLen < hdrLen ml + ml then .err
    else if ml > maxRemainingLength then .err
    else (h.encode ml dstLen).bind fun hb =>
      if rc.toNat > connackMaxCode then .err
      else .ok ⟨m, ctr, hb ++ [if sp then 1 else 0, rc]⟩
  | .suback h codes =>
    if !h.dirty then encodeClean m ctr dstLen else
    if !codes.all (fun c => c = 0 || c = 1 || c = 2 || c = 0x80) then .err else
    let ml := m.msglen
    if dstLen < hdrLen ml + ml then .err
    else if ml > maxRemainingLength then .err
    else (h.encode ml dstLen).bind fun hb => .ok ⟨m, ctr, hb ++ pidOrZero h ++ codes⟩
  | .publish h topic payload =>
    if !h.dirty then encodeClean m ctr dstLen else
    if topic.length = 0 then .err else
    let ml := m.msglen
    if ml > maxRemainingLength then .err
    else if dstLen < hdrLen ml + ml then .err
    else (h.encode ml dstLen).bind fun hb =>
      (writeLPBytes (dstLen - hb.length) topic).bind fun tp =>
      if pubQoS h ≠ 0 then
        let r := if h.packetID = 0 then
                   let i := nextPacketID ctr
                   (h.setPacketID i.1, i.2)
                 else (h, ctr)
        .ok ⟨.publish r.1 topic payload, r.2, hb ++ tp ++ r.1.pid ++ payload⟩
      else .ok ⟨m, ctr, hb ++ tp ++ payload⟩
  | .subscribe h ts qs =>
    if !h.dirty then encodeClean m ctr dstLen else
    let ml := m.msglen
    if dstLen < hdrLen ml + ml then .err
    else if ml > maxRemainingLength then .err
    else (h.encode ml dstLen).bind fun hb =>
      let r := if h.packetID = 0 then
                 let i := nextPacketID ctr
                 (h.setPacketID i.1, i.2)
               else (h, ctr)
      (writeTopicsQos (dstLen - hb.length - r.1.pid.length) ts qs).bind fun body =>
      .ok ⟨.subscribe r.1 ts qs, r.2, hb ++ r.1.pid ++ body⟩
  | .unsubscribe h ts =>
    if !h.dirty then encodeClean m ctr dstLen else
    let ml := m.msglen
    if dstLen < hdrLen ml + ml then .err
    else if ml > maxRemainingLength then .err
    else (h.encode ml dstLen).bind fun hb =>
      let r := if h.packetID = 0 then
                 let i := nextPacketID ctr
                 (h.setPacketID i.1, i.2)
               else (h, ctr)
      (writeTopics (dstLen - hb.length - r.1.pid.length) ts).bind fun body =>
      .ok ⟨.unsubscribe r.1 ts, r.2, hb ++ r.1.pid ++ body⟩
  | .connect h c =>
    if !h.dirty then encodeClean m ctr dstLen else
    if h.type ≠ tCONNECT then .err
    else if (versionName c.version.toNat).isNone then .err
    else
    let ml := m.msglen
    if dstLen < hdrLen ml + ml then .err
    else if ml > maxRemainingLength then .err
    else (h.encode ml dstLen).bind fun hb =>
      (encodeConnectMessage c (dstLen - hb.length)).bind fun body => .ok ⟨m, ctr, hb ++ body⟩

/-! ## Setters -/

def setBit (b : UInt8) (mask : UInt8) (v : Bool) : UInt8 := if v then b ||| mask else b &&& (255 - mask)

def removeAt {α : Type} (l : List α) (i : Nat) : List α := l.take i ++ l.drop (i + 1)

/-- one setter call on a message object: the new object and whether the call was accepted.
A setter that the Go type does not have leaves the object alone (not generated). -/
def applySetter (m : Msg) (s : Setter) : Msg × Bool :=
  match m, s with
  | .connect _ _, .id _ => (m, true)
  | _, .id v => (m.setHdr (m.hdr.setPacketID (v % 65536)), true)
  | .publish h t p, .dup b => (.publish (h.setTf (setBit h.tf 8 b)) t p, true)
  | .publish h t p, .retain b => (.publish (h.setTf (setBit h.tf 1 b)) t p, true)
  | .publish h t p, .qos v =>
    let v := v % 256
    if v ≠ 0 ∧ v ≠ 1 ∧ v ≠ 2 then (m, false) else
    let prev := pubQoS h
    let h1 := h.setTf ((h.tf &&& 249) ||| UInt8.ofNat (v * 2))
    let h2 := if (prev > 0) ≠ (v > 0) then { h1 with dirty := true } else h1
    (.publish h2 t p, true)
  | .publish h _ p, .topic bs =>
    if !validTopic bs then (m, false) else (.publish { h with dirty := true } bs p, true)
  | .publish h t _, .payload bs => (.publish { h with dirty := true } t bs, true)
  | .subscribe h ts qs, .addSub t q =>
    let q := q % 256
    if !validQos q then (m, false) else
    match ts.findIdx? (· = t) with
    | some i => (.subscribe { h with dirty := true } ts (qs.set i (UInt8.ofNat q)), true)
    | none => (.subscribe { h with dirty := true } (ts ++ [t]) (qs ++ [UInt8.ofNat q]), true)
  | .subscribe h ts qs, .remove t =>
    match ts.findIdx? (· = t) with
    | some i => (.subscribe { h with dirty := true } (removeAt ts i) (removeAt qs i), true)
    | none => (.subscribe { h with dirty := true } ts qs, true)
  | .unsubscribe h ts, .addUnsub t =>
    if ts.contains t then (m, true) else (.unsubscribe { h with dirty := true } (ts ++ [t]), true)
  | .unsubscribe h ts, .remove t =>
    match ts.findIdx? (· = t) with
    | some i => (.unsubscribe { h with dirty := true } (removeAt ts i), true)
    | none => (.unsubscribe { h with dirty := true } ts, true)
  | .suback h codes, .code c =>
    let c := UInt8.ofNat c
    if c = 0 || c = 1 || c = 2 || c = 0x80 then (.suback { h with dirty := true } (codes ++ [c]), true)
    else (m, false)
  | .connack h _ rc, .sessionPresent b => (.connack { h with dirty := true } b rc, true)
  | .connack h sp _, .returnCode c => (.connack { h with dirty := true } sp (UInt8.ofNat c), true)
  | .connect h c, .version v =>
    if (versionName (v % 256)).isNone then (m, false)
    else (.connect { h with dirty := true } { c with version := UInt8.ofNat v }, true)
  | .connect h c, .clean b =>
    (.connect { h with dirty := true } { c with connectFlags := setBit c.connectFlags 2 b }, true)
  | .connect h c, .willFlag b =>
    (.connect { h with dirty := true } { c with connectFlags := setBit c.connectFlags 4 b }, true)
  | .connect h c, .willQos q =>
    let q := q % 256
    if !validQos q then (m, false)
    else (.connect { h with dirty := true }
            { c with connectFlags := (c.connectFlags &&& 231) ||| UInt8.ofNat (q * 8) }, true)
  | .connect h c, .willRetain b =>
    (.connect { h with dirty := true } { c with connectFlags := setBit c.connectFlags 32 b }, true)
  | .connect h c, .userFlag b =>
    (.connect { h with dirty := true } { c with connectFlags := setBit c.connectFlags 128 b }, true)
  | .connect h c, .passFlag b =>
    (.connect { h with dirty := true } { c with connectFlags := setBit c.connectFlags 64 b }, true)
  | .connect h c, .keepAlive v => (.connect { h with dirty := true } { c with keepAlive := v % 65536 }, true)
  | .connect h c, .clientId bs =>
    if bs.length > 0 && !validClientID bs then (m, false)
    else (.connect { h with dirty := true } { c with clientID := bs }, true)
  | .connect h c, .willTopic bs =>
    let c := { c with willTopic := bs }
    let c := if bs.length > 0 then { c with connectFlags := setBit c.connectFlags 4 true }
             else if c.willMessage.length = 0 then { c with connectFlags := setBit c.connectFlags 4 false }
             else c
    (.connect { h with dirty := true } c, true)
  | .connect h c, .willMessage bs =>
    let c := { c with willMessage := bs }
    let c := if bs.length > 0 then { c with connectFlags := setBit c.connectFlags 4 true }
             else if c.willTopic.length = 0 then { c with connectFlags := setBit c.connectFlags 4 false }
             else c
    (.connect { h with dirty := true } c, true)
  | .connect h c, .username bs =>
    (.connect { h with dirty := true }
      { c with username := bs, connectFlags := setBit c.connectFlags 128 (bs.length > 0) }, true)
  | .connect h c, .password bs =>
    (.connect { h with dirty := true }
      { c with password := bs, connectFlags := setBit c.connectFlags 64 (bs.length > 0) }, true)
  | _, _ => (m, true)

def applySetters (m : Msg) : List Setter → Msg × List Bool
  | [] => (m, [])
  | s :: ss =>
    let r := applySetter m s
    let r2 := applySetters r.1 ss
    (r2.1, r.2 :: r2.2)

end Mqtt.Model.Codec
