/-
Core F (framing part) — how a connection's byte stream becomes packets, as the
code does it today (`service/misc.go` getMessageBuffer / getConnectMessage,
`service/sendrecv.go` peekMessageSize / peekMessage, the loop of
`service/process.go` processor), followed by the decoders of `Model/Codec.lean`.

Conventions
* A byte stream is the `List UInt8` of everything the peer has sent on the
  connection and the broker has not consumed yet, in order.  "The stream is
  shorter than what a step waits for" is the outcome `needMore`: in the code
  that is a blocked `conn.Read` / `ReadWait`, which ends with more bytes, with
  a read error when the peer closes, or (before CONNECT) with the connect
  deadline.  What happens then is the caller's business (`firstEvents`,
  `postEvents` below, `Driver/Broker.lean`).
* Where Go would panic the outcome is `panicked` — never folded into an error.
  Both call sites recover (`framingAcceptRecovers`, `framingProcessorRecovers`
  are regenerated from the source) and close the connection; `Properties/C05`
  proves the outcome unreachable.
* `allocs` lists the lengths of the byte slices a call allocates, in order
  (`make`, growing `append`, the ring's wrap-around copy).  The allocator's
  size-class rounding and the small fixed-size message structs are not modelled.
* Limits (`l > 4`, `cnt > 5`, `cnt = 2`) come from `Mqtt.Generated.Facts`.
* Not modelled: a `conn.Read` that returns `(0, nil)` (the loop just repeats),
  `int(remlen)` wrapping for a remaining length ≥ 2^63 (five length bytes cannot
  express it).  `ReadWait n` succeeds as soon as the peer has sent `n ≤ size`
  bytes: that the receiver really gets them into the ring, in pieces of any
  sizes, is the repair of finding F3 (repository commit 8f682d1: `ReadFrom`
  reads whenever one byte is free; `C15_ReadFrom_waits_only_when_full`,
  property C16's `C16_chunked_packet_completes`).
-/
import Mqtt.Generated.Facts
import Mqtt.Model.Codec
import Mqtt.Iface.Broker

namespace Mqtt.Model.Framing

open Mqtt.Generated
open Mqtt.Model.Codec (Outcome Decoded ConnectF uvarint decodeNew readLPBytes versionName validClientID index)
open Mqtt.Iface.Broker (First Connect Will Packet Pub Ev)

abbrev Bytes := List UInt8

/-! ## before CONNECT: `getMessageBuffer` -/

/-- result of the header loop -/
inductive HdrRes where
  /-- type byte and remaining-length bytes read; the rest of the stream -/
  | done (buf rest : Bytes)
  /-- `conn.Read` had nothing more to deliver after `l` bytes -/
  | eof (l : Nat)
  /-- `l > framingPreMaxHeader`: error return -/
  | tooLong (l : Nat)
deriving Repr, DecidableEq

/-- `for { if l > 4 { return error }; conn.Read(b); buf = append(buf, b...); l += n;
if l > 1 && b[0] < 0x80 { break } }` — `l` is `buf.length` -/
def readHeader : Bytes → Bytes → HdrRes
  | [], buf => if buf.length > framingPreMaxHeader then .tooLong buf.length else .eof buf.length
  | b :: rest, buf =>
    if buf.length > framingPreMaxHeader then .tooLong buf.length else
    let buf' := buf ++ [b]
    if buf'.length > 1 && b.toNat < 0x80 then .done buf' rest else readHeader rest buf'

inductive PreOutcome where
  /-- the complete first packet (`n` bytes taken from the stream) -/
  | buffer (buf : Bytes) (n : Nat)
  | needMore
  | error
deriving Repr, DecidableEq

structure Pre where
  outcome : PreOutcome
  allocs : List Nat
deriving Repr, DecidableEq

/-- `getMessageBuffer(conn)` -/
def getMessageBuffer (stream : Bytes) : Pre :=
  match readHeader stream [] with
  | .eof l => ⟨.needMore, [1, l]⟩
  | .tooLong l => ⟨.error, [1, l]⟩
  | .done buf rest =>
    -- remlen, _ := binary.Uvarint(buf[1:]); buf = append(buf, make([]byte, remlen)...)
    let remlen := (uvarint (buf.drop 1)).1
    let allocs := [1, buf.length, remlen, buf.length + remlen]
    -- for l < len(buf) { conn.Read(buf[l:]) }
    if rest.length < remlen then ⟨.needMore, allocs⟩
    else ⟨.buffer (buf ++ rest.take remlen) (buf.length + remlen), allocs⟩

/-! ## the first packet: `getConnectMessage` and what `handleConnection` makes of its error -/

/-- fields of a decoded CONNECT in the broker vocabulary -/
def toConnect (c : ConnectF) : Connect :=
  { protoName := c.protoName, version := c.version.toNat, reserved := c.connectFlags.toNat % 2 = 1,
    clean := c.cleanSession,
    will := if c.willFlag then some ⟨c.willTopic, c.willMessage, c.willQos, c.willRetain⟩ else none,
    willQosNoWill := if c.willFlag then 0 else c.willQos,
    willRetainNoWill := if c.willFlag then false else c.willRetain,
    clientId := c.clientID,
    user := if c.usernameFlag then some c.username else none,
    pass := if c.passwordFlag then some c.password else none,
    keepAlive := c.keepAlive }

/-- When `ConnectMessage.Decode(buf)` fails: is the error a `message.ConnackCode`
(`ErrInvalidProtocolVersion` = 1 after the protocol level byte, `ErrIdentifierRejected`
= 2 after the client identifier)?  Returns the code and the fields read until then
(the rest as `toConnect` of a zero message).  `none`: any other error. -/
def connectRefusal (buf : Bytes) : Option (Nat × Connect) :=
  match (Codec.Hdr.new tCONNECT).decode buf with
  | .ok (h, total) =>
    let body := (buf.take (total + h.remlen)).drop total
    match readLPBytes body with
    | .ok (name, n) =>
      match body[n]?, body[n + 1]? with
      | some ver, some cf =>
        if versionName ver.toNat ≠ some name then
          some (1, toConnect { protoName := name, version := ver })
        else
          let c1 : ConnectF := { protoName := name, version := ver, connectFlags := cf }
          if cf.toNat % 2 ≠ 0 then none
          else if c1.willQos > qosExactlyOnce then none
          else if !c1.willFlag && (c1.willRetain || c1.willQos ≠ qosAtMostOnce) then none
          else if (body.drop (n + 2)).length < 2 then none
          else match readLPBytes (body.drop (n + 4)) with
            | .ok (cid, _) =>
              if (cid.length = 0 && !c1.cleanSession) || (cid.length > 0 && !validClientID cid) then
                some (2, toConnect { c1 with clientID := cid })
              else none
            | _ => none
      | _, _ => none
    | _ => none
  | _ => none

inductive FirstOutcome where
  /-- a CONNECT the decoder accepts, in the first `n` bytes -/
  | connect (c : ConnectF) (n : Nat)
  /-- `Decode` returned an error; `code`: the `ConnackCode` sent back before closing -/
  | refused (code : Option (Nat × Connect)) (n : Nat)
  /-- the stream ends inside the first packet -/
  | needMore
  /-- a fifth header byte would be needed -/
  | error
  /-- `Decode` panicked -/
  | panicked
deriving Repr, DecidableEq

structure FirstRes where
  outcome : FirstOutcome
  allocs : List Nat
deriving Repr, DecidableEq

/-- `getConnectMessage(conn)`: `getMessageBuffer`, `NewConnectMessage()`, `Decode(buf)` -/
def getConnectMessage (stream : Bytes) : FirstRes :=
  let pre := getMessageBuffer stream
  match pre.outcome with
  | .needMore => ⟨.needMore, pre.allocs⟩
  | .error => ⟨.error, pre.allocs⟩
  | .buffer buf n =>
    match decodeNew tCONNECT buf with
    | .ok d =>
      match d.msg with
      | .connect _ c => ⟨.connect c n, pre.allocs⟩
      | _ => ⟨.refused none n, pre.allocs⟩       -- `NewConnectMessage().Decode` yields a CONNECT (unreachable)
    | .err => ⟨.refused (connectRefusal buf) n, pre.allocs⟩
    | .panic => ⟨.panicked, pre.allocs⟩

/-! ## after CONNECT: `peekMessageSize`, `peekMessage` -/

inductive Wait where
  | ok (b : Bytes)
  /-- fewer than `n` bytes so far: the call blocks (EOF once the ring is closed) -/
  | blocked
  /-- `n` exceeds the ring: `bufio.ErrBufferFull` -/
  | full
deriving Repr, DecidableEq

/-- `svc.in.ReadWait(n)` on a ring of `sz` bytes; `avail`: sent and not yet committed -/
def readWait (sz : Nat) (avail : Bytes) (n : Nat) : Wait :=
  if n > sz then .full else if avail.length < n then .blocked else .ok (avail.take n)

inductive SizeRes where
  | size (mtype : Nat) (total : Int) (allocs : List Nat)
  | needMore (allocs : List Nat)
  | error (allocs : List Nat)
  | panicked
  /-- loop bound of the model exhausted (never: `Proofs/Framing.lean`) -/
  | stuck
deriving Repr, DecidableEq

/-- the loop of `peekMessageSize`, starting with `cnt`; `fuel` bounds the iterations -/
def peekSizeLoop (sz : Nat) (avail : Bytes) : Nat → Nat → List Nat → SizeRes
  | 0, _, _ => .stuck
  | fuel + 1, cnt, allocs =>
    if cnt > framingPostMaxCnt then .error allocs else
    match readWait sz avail cnt with
    | .full => .error allocs
    | .blocked => .needMore allocs
    | .ok b =>
      match index b (cnt - 1) with
      | .ok last =>
        if last.toNat ≥ 0x80 then peekSizeLoop sz avail fuel (cnt + 1) (allocs ++ [cnt])
        else
          -- remlen, m := binary.Uvarint(b[1:]); total := int(remlen) + 1 + m; mtype := b[0] >> 4
          let r := uvarint (b.drop 1)
          match index b 0 with
          | .ok tf => .size (tf.toNat / 16) ((r.1 : Int) + 1 + r.2) (allocs ++ [cnt])
          | _ => .panicked
      | _ => .panicked

/-- `peekMessageSize()` -/
def peekMessageSize (sz : Nat) (avail : Bytes) : SizeRes :=
  peekSizeLoop sz avail (framingPostMaxCnt + 2) framingPostCntStart []

inductive PostOutcome where
  /-- the next packet, decoded; `total` bytes are committed after it has been processed -/
  | packet (d : Decoded) (total : Nat)
  | needMore
  /-- framing or decoding error: the processor returns, `stop()` closes this connection -/
  | closeThis
  /-- `Decode` (or an index in the framing code) panicked: recovered by the processor's `defer`, then `stop()` -/
  | panicked
  | stuck
deriving Repr, DecidableEq

structure Post where
  outcome : PostOutcome
  allocs : List Nat
deriving Repr, DecidableEq

/-- `pm.QoS() != QosAtMostOnce && pm.PacketID() == 0` for a decoded PUBLISH ([MQTT-2.3.1-1]) -/
def publishIdMissing (m : Codec.Msg) : Bool :=
  match m with
  | .publish h _ _ => Codec.pubQoS h != qosAtMostOnce && h.packetID == 0
  | _ => false

/-- one round of the processor loop up to `processIncoming`: `peekMessageSize`, `peekMessage` -/
def nextPacket (sz : Nat) (avail : Bytes) : Post :=
  match peekMessageSize sz avail with
  | .stuck => ⟨.stuck, []⟩
  | .panicked => ⟨.panicked, []⟩
  | .error a => ⟨.closeThis, a⟩
  | .needMore a => ⟨.needMore, a⟩
  | .size mtype total a =>
    -- ReadWait(total): ErrNegativeCount / ErrBufferFull are returned, short data blocks
    if total < 0 then ⟨.closeThis, a⟩ else
    match readWait sz avail total.toNat with
    | .full => ⟨.closeThis, a⟩
    | .blocked => ⟨.needMore, a⟩
    | .ok b =>
      -- msg, err = mtype.New(); n, err = msg.Decode(b); a QoS 1/2 PUBLISH without identifier is an error
      match decodeNew mtype b with
      | .ok d =>
        if framingRejectsPublishIdZero && publishIdMissing d.msg then ⟨.closeThis, a ++ [total.toNat]⟩
        else ⟨.packet d total.toNat, a ++ [total.toNat]⟩
      | .err => ⟨.closeThis, a ++ [total.toNat]⟩
      | .panic => ⟨.panicked, a ++ [total.toNat]⟩

/-! ## from decoded messages to the broker model's vocabulary -/

/-- a decoded message as the packet `processIncoming` switches on -/
def toPacket (m : Codec.Msg) : Packet :=
  match m with
  | .connect _ _ => .connectAgain
  | .connack _ sp rc => .connack sp rc.toNat
  | .publish h topic payload =>
    .publish { dup := Codec.pubDup h, qos := Codec.pubQoS h, retain := Codec.pubRetain h, topic := topic,
               pktid := if Codec.pubQoS h = 0 then 0 else h.packetID, payload := payload }
  | .ack h =>
    if h.type = tPUBACK then .puback h.packetID
    else if h.type = tPUBREC then .pubrec h.packetID
    else if h.type = tPUBREL then .pubrel h.packetID
    else if h.type = tPUBCOMP then .pubcomp h.packetID
    else .unsuback h.packetID
  | .subscribe h topics qos => .subscribe h.packetID (topics.zip (qos.map (·.toNat)))
  | .suback h codes => .suback h.packetID (codes.map (·.toNat))
  | .unsubscribe h topics => .unsubscribe h.packetID topics
  | .bare h =>
    if h.type = tPINGREQ then .pingreq else if h.type = tPINGRESP then .pingresp else .disconnect

/-- the first packet as the broker model's `first` takes it -/
def toFirst (stream : Bytes) (o : FirstOutcome) : First :=
  match o with
  | .connect c _ => .connect (toConnect c)
  | .refused (some (_, view)) _ => .connect view
  | .refused none _ =>
    match stream.head? with
    | some tf => if tf.toNat / 16 = tCONNECT then .garbage else .other (tf.toNat / 16)
    | none => .garbage
  | .needMore | .error | .panicked => .garbage

/-- the events a byte stream on accepted connection `c` amounts to, and the bytes
left uncommitted.  A packet is one `packet` event; a framing or decoding failure
ends the connection like a close by the peer (`stop()` either way); an incomplete
packet is nothing yet.  `fuel` bounds the number of packets (≥ the stream's length
is enough: every packet has at least two bytes). -/
def postEvents (sz c : Nat) : Nat → Bytes → List Ev × Bytes
  | 0, avail => ([], avail)
  | fuel + 1, avail =>
    match (nextPacket sz avail).outcome with
    | .packet d total =>
      let r := postEvents sz c fuel (avail.drop total)
      (.packet c (toPacket d.msg) :: r.1, r.2)
    | .needMore => ([], avail)
    | .closeThis | .panicked | .stuck => ([.close c], [])

/-- `Authenticate(user, password)` as the parameter of the broker model's `first` -/
abbrev Auth := Option Bytes → Option Bytes → Bool

/-- the event of the first packet of a new connection `c`, and the bytes behind
it.  `needMore` is resolved by the caller's hint `ends` (the peer has closed, or
the connect deadline has passed): then the connection is refused like garbage;
otherwise nothing has happened yet (`none`). -/
def firstEvent (c : Nat) (auth : Auth) (stream : Bytes) (ends : Bool) : Option (Ev × Bytes) :=
  let r := (getConnectMessage stream).outcome
  match r with
  | .needMore => if ends then some (.first c .garbage true, []) else none
  | .connect cf n =>
    let req := toConnect cf
    some (.first c (.connect req) (auth req.user req.pass), stream.drop n)
  | .refused _ n => some (.first c (toFirst stream r) true, stream.drop n)
  | .error | .panicked => some (.first c .garbage true, [])

end Mqtt.Model.Framing
