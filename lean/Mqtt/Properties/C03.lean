/-
C03 — the codec round-trips and is canonical; automatic packet identifiers are
never zero.

Property theorems only (helper lemmas: `Proofs/Codec*.lean`).  The model
(`Model/Codec.lean`) is the code-shaped model of package `message`; the
specification (`Spec/Wire.lean`) is the MQTT 3.1.1 wire format written from the
OASIS text.  `absMsg m` is the packet a message object stands for (its fields);
`Built m` says `m` was obtained from `Type.New()` by calls of the public setters.
All theorems quantify over every message / byte string / counter value.
-/
import Mqtt.Proofs.CodecBuilt
import Mqtt.Proofs.CodecReachThm

set_option linter.unusedSimpArgs false
set_option maxRecDepth 8192

namespace Mqtt.Properties.C03

open Mqtt.Model.Codec Mqtt.Iface.Codec Mqtt.Proofs.Codec
open Mqtt.Spec

/-! ## Automatic packet identifiers -/

/-- The identifier `Encode` assigns to a packet that has none is never zero,
whatever the value of the process-wide 64-bit counter (all 2^64 values, both
wrap-arounds included) — "however many packets were encoded before". -/
theorem auto_id_nonzero (ctr : UInt64) : (nextPacketID ctr).1 ≠ 0 :=
  (nextPacketID_bounds ctr).1

/-- … and it fits the two identifier bytes. -/
theorem auto_id_lt (ctr : UInt64) : (nextPacketID ctr).1 < 65536 :=
  (nextPacketID_bounds ctr).2

/-! ## Encode writes exactly Len() bytes -/

/-- For every message object (fresh, built, decoded, decoded-and-modified):
`Encode` into a buffer of `Len()` bytes, when it succeeds, writes exactly
`Len()` bytes. -/
theorem encode_len (m : Msg) (ctr : UInt64) (e : Encoded) (he : encode m ctr m.len = .ok e) :
    e.out.length = m.len :=
  encode_len_all m ctr e he

/-! ## Messages built through the API -/

/-- The bytes `Encode` writes for a message built through the API are the MQTT
3.1.1 wire encoding of the message's fields (the fields after `Encode`, i.e.
including an automatically assigned identifier).  `WillOk`: the CONNECT flags
do not carry Will QoS / Will Retain without the Will flag — a field combination
that has no wire form. -/
theorem encode_is_wire (m : Msg) (hb : Built m) (hw : WillOk m) (ctr : UInt64) (e : Encoded)
    (he : encode m ctr m.len = .ok e) : e.out = Wire.encode (absMsg e.msg) :=
  built_encode_wire hb hw ctr e he

/-- Round trip: if those fields form a well-formed packet, decoding the bytes
`Encode` wrote (followed by anything) succeeds, consumes exactly those bytes, and
yields a message with equal fields. -/
theorem decode_encode (m : Msg) (hb : Built m) (hw : WillOk m) (ctr : UInt64) (e : Encoded)
    (he : encode m ctr m.len = .ok e) (hwf : Wire.WF (absMsg e.msg)) (rest : Bytes) :
    ∃ d, decodeNew (absMsg e.msg).type (e.out ++ rest) = .ok d ∧ d.n = e.out.length ∧
      absMsg d.msg = absMsg e.msg :=
  built_round_trip hb hw ctr e he hwf rest

/-- `Encode` does not refuse a legitimate message: if the fields of a built message —
with an identifier assigned where MQTT requires one and none was set (`assign`) — form a
well-formed packet, `Encode` into `Len()` bytes succeeds and leaves exactly that message. -/
theorem encode_succeeds (m : Msg) (hb : Built m) (ctr : UInt64) (hwf : Wire.WF (absMsg (assign m ctr))) :
    ∃ e, encode m ctr m.len = .ok e ∧ e.msg = assign m ctr :=
  built_encode_succeeds hb ctr hwf

/-- An automatically assigned identifier never makes the packet malformed: a
built SUBSCRIBE / UNSUBSCRIBE / PUBLISH without identifier encodes with a
non-zero identifier in the wire form (for every counter value). -/
theorem auto_id_in_packet (h : Hdr) (ctr : UInt64) (hp : h.packetID = 0) :
    u16of (withAutoId h ctr).1.pid ≠ 0 := by
  unfold withAutoId
  rw [if_pos hp]
  obtain ⟨hn0, hlt⟩ := nextPacketID_bounds ctr
  simp only []
  unfold Hdr.setPacketID
  rw [if_neg hn0]
  have key : u16of (putU16 (nextPacketID ctr).1) ≠ 0 := by
    rw [putU16_eq _ hlt, u16of_u16]
    intro e
    have := congrArg UInt16.toNat e
    simp at this
    omega
  split
  · exact key
  · split <;> exact key

/-! ## Decoded messages are canonical -/

/-- For every byte string a decoder accepts: `Len()` of the decoded message is
the returned count `n`, and re-encoding it reproduces exactly the first `n`
bytes of the input — the bytes of that packet. -/
theorem encode_decode_canonical (t : Nat) (src : Bytes) (d : Decoded) (ctr : UInt64)
    (h : decodeNew t src = .ok d) :
    d.msg.len = d.n ∧ encode d.msg ctr d.msg.len = .ok ⟨d.msg, ctr, src.take d.n⟩ :=
  canonical t src d ctr h

/-! ## Non-vacuity -/

/-- a PUBLISH built through the API: topic "a", payload "x", QoS 1, no identifier -/
def examplePublish : Msg :=
  (applySetters (.publish (Hdr.new 3) [] []) [.topic [0x61], .payload [0x78], .qos 1]).1

example : Built examplePublish :=
  Built.set (.qos 1) (Built.set (.payload [0x78]) (Built.set (.topic [0x61]) (Built.new (t := 3) rfl)))

/-- encoded when the counter is about to wrap: the identifier is 1, not 0, and the packet is complete -/
example : (match encode examplePublish 65535 examplePublish.len with
           | .ok e => decide (e.out = [0x32, 0x06, 0x00, 0x01, 0x61, 0x00, 0x01, 0x78] ∧ e.ctr = 65537)
           | _ => false) = true := by decide

/-- a decoder accepting a packet followed by other bytes: canonical re-encoding drops the trailing bytes -/
example : (match decodeNew 4 [0x40, 0x02, 0x12, 0x34, 0xff, 0xff] with
           | .ok d => decide (d.n = 4 ∧ d.msg.len = 4)
           | _ => false) = true := by decide

/-! ## Messages reachable through the API: `Type.New()` **or a successful `Decode`**, then setters

`Reachable m`: `m` is `Type(t).New()` or the message a decoder returned for *any* accepted byte string,
followed by any number of calls of the 25 public setters (`Proofs/CodecReachThm.lean`).  This is what the
broker does with every forwarded PUBLISH: `SetQoS`, `SetRetain`, `SetDup`, `SetPacketID` on a decoded
message write through `mtypeflags` / `packetID` into the decode buffer while the object is not dirty, and
`Encode` then copies that buffer; every other setter marks the object dirty and `Encode` rebuilds the bytes
from the fields.  `run o ss` is the same thing with the history spelled out (`Origin` = `new t` or
`dec t src`; `ss` = the setter calls in order). -/

theorem reachable_iff (m : Msg) : Reachable m ↔ ∃ o ss, run o ss = some m :=
  reachable_iff_run m

/-- `Encode` into `Len()` bytes writes exactly `Len()` bytes, for every reachable message
(a special case of `encode_len`, which holds for every message object). -/
theorem C03_reachable_encode_len (m : Msg) (_hr : Reachable m) (ctr : UInt64) (e : Encoded)
    (he : encode m ctr m.len = .ok e) : e.out.length = m.len :=
  encode_len_all m ctr e he

/-- The full statement "the bytes `Encode` writes are the MQTT 3.1.1 reference encoding of the message's
current fields", for every reachable message.  **False as it stands** (`…_counterexample`): a decoder accepts
byte strings that are not the reference encoding of the fields it returns — a remaining length written with
more bytes than necessary (`40 82 00 …`, allowed by MQTT 3.1.1), a CONNECT whose user-name/password flag
announces a field that is missing (malformed, accepted leniently) — and while the object is not dirty `Encode`
reproduces exactly those bytes (`encode_decode_canonical`), with the flag and identifier bytes the setters
have written through. -/
def ReachableEncodeIsWire : Prop :=
  ∀ m, Reachable m → WillOk m → ∀ (ctr : UInt64) (e : Encoded), encode m ctr m.len = .ok e →
    e.out = Wire.encode (absMsg e.msg)

instance (m : Msg) : Decidable (WillOk m) := by
  cases m <;> unfold WillOk <;> infer_instance

/-- witness 1 (what the broker does to a forwarded PUBLISH): QoS 1 PUBLISH "a" / id 7 / "hi" whose
remaining length 7 is written `87 00`; then `SetQoS(2)`, `SetRetain(true)`, `SetDup(true)`, `SetPacketID(9)` -/
def cexPublish : Origin := .dec 3 [0x32, 0x87, 0x00, 0x00, 0x01, 0x61, 0x00, 0x07, 0x68, 0x69]
def cexSetters : List Setter := [.qos 2, .retain true, .dup true, .id 9]

/-- witness 2: CONNECT (clean session, client id "a") with the user-name flag set and no user-name field -/
def cexConnect : Origin :=
  .dec 1 [0x10, 0x0d, 0x00, 0x04, 0x4d, 0x51, 0x54, 0x54, 0x04, 0x82, 0x00, 0x00, 0x00, 0x01, 0x61]

/-- what the two witnesses encode to, next to the reference encoding of their fields (both runs are
`Excluded`, both objects are still clean) -/
theorem C03_reachable_encode_is_wire_witnesses :
    (match run cexPublish cexSetters with
     | some m => (match encode m 0 m.len with
       | .ok e => decide (e.out = [0x3d, 0x87, 0x00, 0x00, 0x01, 0x61, 0x00, 0x09, 0x68, 0x69] ∧
                          Wire.encode (absMsg e.msg) = [0x3d, 0x07, 0x00, 0x01, 0x61, 0x00, 0x09, 0x68, 0x69] ∧
                          m.hdr.dirty = false ∧ Excluded cexPublish cexSetters = true ∧ WillOk m)
       | _ => false)
     | none => false) = true ∧
    (match run cexConnect [] with
     | some m => (match encode m 0 m.len with
       | .ok e => decide (e.out = [0x10, 0x0d, 0x00, 0x04, 0x4d, 0x51, 0x54, 0x54, 0x04, 0x82, 0x00, 0x00, 0x00, 0x01, 0x61] ∧
                          Wire.encode (absMsg e.msg) =
                            [0x10, 0x0f, 0x00, 0x04, 0x4d, 0x51, 0x54, 0x54, 0x04, 0x82, 0x00, 0x00, 0x00, 0x01, 0x61, 0x00, 0x00] ∧
                          m.hdr.dirty = false ∧ Excluded cexConnect [] = true ∧ WillOk m)
       | _ => false)
     | none => false) = true := by
  constructor <;> decide

theorem C03_reachable_encode_is_wire_counterexample : ¬ ReachableEncodeIsWire := by
  intro H
  have hw := C03_reachable_encode_is_wire_witnesses.1
  cases hr : run cexPublish cexSetters with
  | none => rw [hr] at hw; cases hw
  | some m =>
    rw [hr] at hw
    simp only [] at hw
    have hreach : Reachable m := (reachable_iff m).mpr ⟨_, _, hr⟩
    cases he : encode m 0 m.len with
    | ok e =>
      rw [he] at hw
      have hw := of_decide_eq_true hw
      have := H m hreach hw.2.2.2.2 0 e he
      rw [hw.1, hw.2.1] at this
      revert this
      decide
    | err => rw [he] at hw; cases hw
    | panic => rw [he] at hw; cases hw

/-- `_partial`: the statement holds for every run that is not `Excluded` — i.e. unless the decoder's input
was **not** the reference encoding of the fields it returned (`Origin.canonical`, decidable: re-encode and
compare) *and* no setter call has marked the object dirty since.  In particular it holds for every message
decoded from a reference encoding and then modified by any setters (the in-place path of `SetDup`,
`SetRetain`, `SetQoS` 1↔2, `SetPacketID` included), and for every message — decoded from anything — once a
setter such as `SetQoS` 0↔1, `SetTopic`, `SetPayload`, `AddTopic`, `RemoveTopic` has made it dirty. -/
theorem C03_reachable_encode_is_wire_partial (o : Origin) (ss : List Setter) (m : Msg) (hr : run o ss = some m)
    (hx : Excluded o ss = false) (hw : WillOk m) (ctr : UInt64) (e : Encoded)
    (he : encode m ctr m.len = .ok e) : e.out = Wire.encode (absMsg e.msg) :=
  run_encode_wire hr hx hw ctr e he

/-- the dirty half of `_partial` without a history: whatever a message was decoded from, once it is dirty
`Encode` writes the reference encoding of its fields -/
theorem C03_reachable_dirty_encode_is_wire (m : Msg) (hr : Reachable m) (hd : m.hdr.dirty = true) (hw : WillOk m)
    (ctr : UInt64) (e : Encoded) (he : encode m ctr m.len = .ok e) : e.out = Wire.encode (absMsg e.msg) :=
  reachable_dirty_encode_wire hr hd hw ctr e he

/-! ### … up to the form of the remaining length

MQTT 3.1.1 (section 2.2.3) does not require the shortest form of the remaining length, and the decoders accept
the longer ones.  `Wire.Encodes bs p`: `bs` is the type/flags byte of `p`, a one- to four-byte form of the length
of its body, and its body (`Wire.encode p` is the one with the shortest form).  With this reading of "the MQTT
3.1.1 wire encoding of the message's fields" witness 1 above is no counterexample any more, and the in-place
path is covered for every remaining-length form a client may use; what stays excluded (`ExcludedV`) is a clean
object whose input was not an encoding of the returned fields at all — the CONNECT of witness 2. -/

/-- the statement with `Encodes`; still false as it stands, because of the leniently accepted CONNECT -/
def ReachableEncodeIsEncoding : Prop :=
  ∀ m, Reachable m → WillOk m → ∀ (ctr : UInt64) (e : Encoded), encode m ctr m.len = .ok e →
    Wire.Encodes e.out (absMsg e.msg)

theorem C03_reachable_encode_is_encoding_counterexample : ¬ ReachableEncodeIsEncoding := by
  intro H
  have hw := C03_reachable_encode_is_wire_witnesses.2
  cases hr : run cexConnect [] with
  | none => rw [hr] at hw; cases hw
  | some m =>
    rw [hr] at hw
    simp only [] at hw
    have hreach : Reachable m := (reachable_iff m).mpr ⟨_, _, hr⟩
    cases he : encode m 0 m.len with
    | ok e =>
      rw [he] at hw
      have hw := of_decide_eq_true hw
      obtain ⟨v, _, hv⟩ := H m hreach hw.2.2.2.2 0 e he
      -- the reference encoding of the fields has a body of 15 bytes; the 15 bytes written cannot hold it
      have hb : (absMsg e.msg).body.length = 15 := by
        have h2 := congrArg List.length hw.2.1
        unfold Wire.encode at h2
        simp only [List.length_cons, List.length_append, List.length_nil] at h2
        have := varint_len_bounds (absMsg e.msg).body.length
        by_cases h128 : (absMsg e.msg).body.length < 128
        · have : (Wire.varint (absMsg e.msg).body.length).length = 1 := by unfold Wire.varint; rw [if_pos h128]; rfl
          omega
        · omega
      have h1 := congrArg List.length hv
      rw [hw.1] at h1
      unfold Wire.encodeV at h1
      simp only [List.length_cons, List.length_append, List.length_nil] at h1
      omega
    | err => rw [he] at hw; cases hw
    | panic => rw [he] at hw; cases hw

/-- `_partial`: the bytes `Encode` writes are an MQTT 3.1.1 encoding (`Wire.Encodes`) of the message's current
fields for every run that is not `ExcludedV` — i.e. unless the decoder's input was not the type/flags byte, a form
of the remaining length and the body of the fields it returned (`Origin.bodyCanonical`, decidable), *and* the
object is still clean.  For a clean object the remaining-length bytes are those of the input
(`Proofs/CodecReachThm.rinv_encode_encodes`); a dirty one gets the shortest form. -/
theorem C03_reachable_encode_is_encoding_partial (o : Origin) (ss : List Setter) (m : Msg) (hr : run o ss = some m)
    (hx : ExcludedV o ss = false) (hw : WillOk m) (ctr : UInt64) (e : Encoded)
    (he : encode m ctr m.len = .ok e) : Wire.Encodes e.out (absMsg e.msg) :=
  run_encodes hr hx hw ctr e he

/-- … and the round trip, for the same runs: if the fields `Encode` leaves form a well-formed packet, decoding the
bytes it wrote (followed by anything) succeeds, consumes exactly those bytes and yields equal fields — whatever
form of the remaining length the decoded input used. -/
theorem C03_reachable_decode_encode_encoding_partial (o : Origin) (ss : List Setter) (m : Msg)
    (hr : run o ss = some m) (hx : ExcludedV o ss = false) (hw : WillOk m) (ctr : UInt64) (e : Encoded)
    (he : encode m ctr m.len = .ok e) (hwf : Wire.WF (absMsg e.msg)) (rest : Bytes) :
    ∃ d, decodeNew (absMsg e.msg).type (e.out ++ rest) = .ok d ∧ d.n = e.out.length ∧
      absMsg d.msg = absMsg e.msg :=
  run_round_trip_encodes hr hx hw ctr e he hwf rest

/-- `ExcludedV` leaves out fewer runs than `Excluded`: a reference encoding is in particular an encoding -/
theorem C03_excludedV_excluded (o : Origin) (ss : List Setter) (h : ExcludedV o ss = true) : Excluded o ss = true := by
  unfold ExcludedV at h
  unfold Excluded
  cases hc : o.canonical with
  | false => simpa [hc] using (by simpa using h : _ ∧ _).2
  | true => rw [canonical_imp_bodyCanonical hc] at h; simp at h

/-- witness 1 is covered by it, witness 2 is what it excludes -/
example : ExcludedV cexPublish cexSetters = false ∧ ExcludedV cexConnect [] = true := by
  constructor <;> decide

/-- The full round-trip statement for reachable messages.  Proved for every run that is not `ExcludedV`
(`C03_reachable_decode_encode_encoding_partial` below; `…_decode_encode_partial` is the special case of reference
inputs); for the runs that stay excluded — a clean object whose input was not an encoding of the returned fields at
all, i.e. the leniently accepted CONNECT — the hypothesis `WF (absMsg e.msg)` can still hold (user name flag with an
empty user name is well-formed) while the bytes written lack the field: neither proved nor refuted here; the
differential runs (`codec build from=…`) check it on the real code. -/
def ReachableDecodeEncode : Prop :=
  ∀ m, Reachable m → WillOk m → ∀ (ctr : UInt64) (e : Encoded), encode m ctr m.len = .ok e →
    Wire.WF (absMsg e.msg) → ∀ rest : Bytes,
      ∃ d, decodeNew (absMsg e.msg).type (e.out ++ rest) = .ok d ∧ d.n = e.out.length ∧ absMsg d.msg = absMsg e.msg

theorem C03_reachable_decode_encode_partial (o : Origin) (ss : List Setter) (m : Msg) (hr : run o ss = some m)
    (hx : Excluded o ss = false) (hw : WillOk m) (ctr : UInt64) (e : Encoded)
    (he : encode m ctr m.len = .ok e) (hwf : Wire.WF (absMsg e.msg)) (rest : Bytes) :
    ∃ d, decodeNew (absMsg e.msg).type (e.out ++ rest) = .ok d ∧ d.n = e.out.length ∧
      absMsg d.msg = absMsg e.msg :=
  run_round_trip hr hx hw ctr e he hwf rest

/-- `Encode` does not refuse a reachable message: a clean one is copied as it is (no identifier is
assigned on that path — a decoded SUBSCRIBE with identifier 0 is re-encoded with identifier 0); a dirty one
whose fields, with an identifier assigned where one is missing, form a well-formed packet is encoded and
left as `assign m ctr` (the statement `encode_succeeds` makes for built messages). -/
theorem C03_reachable_encode_succeeds (m : Msg) (hr : Reachable m) (ctr : UInt64)
    (hwf : m.hdr.dirty = true → Wire.WF (absMsg (assign m ctr))) :
    ∃ e, encode m ctr m.len = .ok e ∧ e.msg = assignR m ctr :=
  reachable_encode_succeeds hr ctr hwf

/-- every reachable message keeps the shape of its packet type (type nibble, reserved flags, list lengths) -/
theorem C03_reachable_shape (m : Msg) (hr : Reachable m) : Shape m :=
  shape_reachable hr

/-- non-vacuity: a PUBLISH decoded from its reference encoding (QoS 1, topic "a", id 7, payload "hi"), then
`SetQoS(2)`, `SetRetain(true)`, `SetDup(true)`, `SetPacketID(9)`: not excluded, still clean (the in-place
path), and re-encoded as `3d 07 00 01 61 00 09 68 69` -/
def examplePublishDecoded : Origin := .dec 3 [0x32, 0x07, 0x00, 0x01, 0x61, 0x00, 0x07, 0x68, 0x69]

example : (match run examplePublishDecoded cexSetters with
           | some m => (match encode m 0 m.len with
             | .ok e => decide (e.out = [0x3d, 0x07, 0x00, 0x01, 0x61, 0x00, 0x09, 0x68, 0x69] ∧ m.hdr.dirty = false ∧
                                Excluded examplePublishDecoded cexSetters = false ∧ Wire.WF (absMsg e.msg))
             | _ => false)
           | none => false) = true := by decide

/-- … and a setter that changes the packet's shape (`SetQoS(0)`: no identifier field any more) on a message
decoded from a *non*-reference encoding: dirty, hence not excluded, re-encoded from the fields -/
example : (match run cexPublish [.qos 0] with
           | some m => (match encode m 0 m.len with
             | .ok e => decide (e.out = [0x30, 0x05, 0x00, 0x01, 0x61, 0x68, 0x69] ∧ m.hdr.dirty = true ∧
                                Excluded cexPublish [.qos 0] = false)
             | _ => false)
           | none => false) = true := by decide

/-- the two excluded witnesses decode back to equal fields -/
example : (match run cexPublish cexSetters with
           | some m => (match encode m 0 m.len with
             | .ok e => (match decodeNew 3 e.out with
               | .ok d => decide (d.n = e.out.length ∧ absMsg d.msg = absMsg e.msg)
               | _ => false)
             | _ => false)
           | none => false) = true := by decide

/-! The tie to the Go source (the theorems `C03_…_is_source…` over the regenerated translation
`Mqtt.Generated.Xlate`) is in `Properties/C03Source.lean`, which nothing imports. -/

end Mqtt.Properties.C03
