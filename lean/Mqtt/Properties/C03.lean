/-
C03 — the codec round-trips and is canonical; automatic packet identifiers are never zero.

Property theorems only (helper lemmas: `Proofs/Codec*.lean`).  The model
(`Model/Codec.lean`) is the code-shaped model of package `message`; the
specification (`Spec/Wire.lean`) is the MQTT 3.1.1 wire format.
-/
import Mqtt.Model.Codec
import Mqtt.Spec.Wire

namespace Mqtt.Properties.C03

open Mqtt.Model.Codec

/-- The identifier `Encode` assigns to a packet that has none is never zero,
whatever the value of the process-wide 64-bit counter (all 2^64 of them, wrap
included). -/
theorem auto_id_nonzero (ctr : UInt64) : (nextPacketID ctr).1 ≠ 0 := by
  unfold nextPacketID
  simp only []
  split
  · assumption
  · rename_i h
    have h1 := (ctr + 1).toNat_lt
    have h2 : (1 : UInt64).toNat = 1 := rfl
    rw [UInt64.toNat_add (ctr+1) 1, h2]
    generalize (ctr + 1).toNat = x at *
    omega

/-- … and fits the two identifier bytes. -/
theorem auto_id_lt (ctr : UInt64) : (nextPacketID ctr).1 < 65536 := by
  unfold nextPacketID
  simp only []
  split <;> omega

end Mqtt.Properties.C03
