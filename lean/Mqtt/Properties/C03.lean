/-
C03 — the codec round-trips and is canonical; automatic packet identifiers are
never zero.

Property theorems only (helper lemmas: `Proofs/Codec*.lean`).  The model
(`Model/Codec.lean`) is the code-shaped model of package `message`; the
specification (`Spec/Wire.lean`) is the MQTT 3.1.1 wire format written from the
OASIS text.  `absMsg m` is the packet a message object stands for (its fields);
`Built m` says `m` was obtained from `Type.New()` by calls of the public setters.
All theorems quantify over every message / byte string / counter value.
-/
import Mqtt.Proofs.CodecBuilt

set_option linter.unusedSimpArgs false
set_option maxRecDepth 8192

namespace Mqtt.Properties.C03

open Mqtt.Model.Codec Mqtt.Iface.Codec Mqtt.Proofs.Codec
open Mqtt.Spec

/-! ## Automatic packet identifiers -/

/-- The identifier `Encode` assigns to a packet that has none is never zero,
whatever the value of the process-wide 64-bit counter (all 2^64 values, both
wrap-arounds included) — "however many packets were encoded before". -/
theorem auto_id_nonzero (ctr : UInt64) : (nextPacketID ctr).1 ≠ 0 :=
  (nextPacketID_bounds ctr).1

/-- … and it fits the two identifier bytes. -/
theorem auto_id_lt (ctr : UInt64) : (nextPacketID ctr).1 < 65536 :=
  (nextPacketID_bounds ctr).2

/-! ## Encode writes exactly Len() bytes -/

/-- For every message object (fresh, built, decoded, decoded-and-modified):
`Encode` into a buffer of `Len()` bytes, when it succeeds, writes exactly
`Len()` bytes. -/
theorem encode_len (m : Msg) (ctr : UInt64) (e : Encoded) (he : encode m ctr m.len = .ok e) :
    e.out.length = m.len :=
  encode_len_all m ctr e he

/-! ## Messages built through the API -/

/-- The bytes `Encode` writes for a message built through the API are the MQTT
3.1.1 wire encoding of the message's fields (the fields after `Encode`, i.e.
including an automatically assigned identifier).  `WillOk`: the CONNECT flags
do not carry Will QoS / Will Retain without the Will flag — a field combination
that has no wire form. -/
theorem encode_is_wire (m : Msg) (hb : Built m) (hw : WillOk m) (ctr : UInt64) (e : Encoded)
    (he : encode m ctr m.len = .ok e) : e.out = Wire.encode (absMsg e.msg) :=
  built_encode_wire hb hw ctr e he

/-- Round trip: if those fields form a well-formed packet, decoding the bytes
`Encode` wrote (followed by anything) succeeds, consumes exactly those bytes, and
yields a message with equal fields. -/
theorem decode_encode (m : Msg) (hb : Built m) (hw : WillOk m) (ctr : UInt64) (e : Encoded)
    (he : encode m ctr m.len = .ok e) (hwf : Wire.WF (absMsg e.msg)) (rest : Bytes) :
    ∃ d, decodeNew (absMsg e.msg).type (e.out ++ rest) = .ok d ∧ d.n = e.out.length ∧
      absMsg d.msg = absMsg e.msg :=
  built_round_trip hb hw ctr e he hwf rest

/-- `Encode` does not refuse a legitimate message: if the fields of a built message —
with an identifier assigned where MQTT requires one and none was set (`assign`) — form a
well-formed packet, `Encode` into `Len()` bytes succeeds and leaves exactly that message. -/
theorem encode_succeeds (m : Msg) (hb : Built m) (ctr : UInt64) (hwf : Wire.WF (absMsg (assign m ctr))) :
    ∃ e, encode m ctr m.len = .ok e ∧ e.msg = assign m ctr :=
  built_encode_succeeds hb ctr hwf

/-- An automatically assigned identifier never makes the packet malformed: a
built SUBSCRIBE / UNSUBSCRIBE / PUBLISH without identifier encodes with a
non-zero identifier in the wire form (for every counter value). -/
theorem auto_id_in_packet (h : Hdr) (ctr : UInt64) (hp : h.packetID = 0) :
    u16of (withAutoId h ctr).1.pid ≠ 0 := by
  unfold withAutoId
  rw [if_pos hp]
  obtain ⟨hn0, hlt⟩ := nextPacketID_bounds ctr
  simp only []
  unfold Hdr.setPacketID
  rw [if_neg hn0]
  have key : u16of (putU16 (nextPacketID ctr).1) ≠ 0 := by
    rw [putU16_eq _ hlt, u16of_u16]
    intro e
    have := congrArg UInt16.toNat e
    simp at this
    omega
  split
  · exact key
  · split <;> exact key

/-! ## Decoded messages are canonical -/

/-- For every byte string a decoder accepts: `Len()` of the decoded message is
the returned count `n`, and re-encoding it reproduces exactly the first `n`
bytes of the input — the bytes of that packet. -/
theorem encode_decode_canonical (t : Nat) (src : Bytes) (d : Decoded) (ctr : UInt64)
    (h : decodeNew t src = .ok d) :
    d.msg.len = d.n ∧ encode d.msg ctr d.msg.len = .ok ⟨d.msg, ctr, src.take d.n⟩ :=
  canonical t src d ctr h

/-! ## Non-vacuity -/

/-- a PUBLISH built through the API: topic "a", payload "x", QoS 1, no identifier -/
def examplePublish : Msg :=
  (applySetters (.publish (Hdr.new 3) [] []) [.topic [0x61], .payload [0x78], .qos 1]).1

example : Built examplePublish :=
  Built.set (.qos 1) (Built.set (.payload [0x78]) (Built.set (.topic [0x61]) (Built.new (t := 3) rfl)))

/-- encoded when the counter is about to wrap: the identifier is 1, not 0, and the packet is complete -/
example : (match encode examplePublish 65535 examplePublish.len with
           | .ok e => decide (e.out = [0x32, 0x06, 0x00, 0x01, 0x61, 0x00, 0x01, 0x78] ∧ e.ctr = 65537)
           | _ => false) = true := by decide

/-- a decoder accepting a packet followed by other bytes: canonical re-encoding drops the trailing bytes -/
example : (match decodeNew 4 [0x40, 0x02, 0x12, 0x34, 0xff, 0xff] with
           | .ok d => decide (d.n = 4 ∧ d.msg.len = 4)
           | _ => false) = true := by decide

end Mqtt.Properties.C03
