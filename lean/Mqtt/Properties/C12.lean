/-
C12 — sender side of acknowledged requests, client role.

Property theorems only (helper lemmas: `Proofs/Client*.lean`).  Model:
`Model/Client.lean` (code-shaped, tied to `service.Client` by the scripted-peer
correspondence runs); specification: `Spec/Client.lean`.  The recorded
deviations of the code (E5 ack-before-registration, the single ping slot, E9,
the A2 identifier wrap) are kept out of the `…_partial` statements by explicit
hypotheses and proved as closed `…_counterexample`s on the model.
-/
import Mqtt.Proofs.Client

set_option linter.unusedSimpArgs false

namespace Mqtt.Properties.C12
open Mqtt.Iface.Broker (Pub Packet Bytes)
open Mqtt.Iface.Client
open Mqtt.Model.Client
open Mqtt.Proofs.Client

/-! ## (a) every PUBREC is answered by a PUBREL with the same identifier -/

/-- For every state of a connected client - whatever its queues hold, whether or
not a QoS 2 publish with that identifier is in flight - a PUBREC from the peer
makes the client write exactly one packet, the PUBREL with the same
identifier; nothing completes and nothing but the QoS 2 send queue changes. -/
theorem C12_pubrec_pubrel (c : C) (hc : c.connected = true) (id : Nat) :
    (step c (.peer (.pubrec id))).2 = [.wrote (.pubrel id)] ∧
    (peer c (.pubrec id)).2 = [.wrote (.pubrel id)] ∧
    (step c (.peer (.pubrec id))).1 =
      { c with pub2out := c.pub2out.ack Mqtt.Generated.tPUBREC id } := by
  rw [step_peer c hc]
  exact ⟨rfl, rfl, rfl⟩

/-- a connected client with two QoS 2 publishes (ids 7, 8) and one QoS 1 publish (id 9) in flight -/
def demoA : C :=
  runState init
    [.connect (.connack false 0),
     .api (.publish { qos := 2, topic := [97, 47, 98], pktid := 7, payload := [1] } 1),
     .api (.publish { qos := 2, topic := [97], pktid := 8, payload := [2, 3] } 2),
     .api (.publish { qos := 1, topic := [98], pktid := 9, payload := [] } 3)]

example : demoA.connected = true ∧ demoA.pub2out.map (·.id) = [7, 8] ∧ demoA.pub1ack.map (·.id) = [9] ∧
    (step demoA (.peer (.pubrec 8))).2 = [.wrote (.pubrel 8)] ∧
    (step demoA (.peer (.pubrec 55))).2 = [.wrote (.pubrel 55)] ∧
    (step demoA (.peer (.pubrec 8))).1.pub2out.map (fun r => (r.id, r.state)) = [(7, 0), (8, 5)] := by
  decide

/-! ## (b) QoS 0 publishes complete as soon as they are queued -/

/-- A QoS 0 publish of a connected client writes the PUBLISH (identifier field
0) and fires its completion - without error, exactly once, in the same step,
after the write; no queue, nor anything else of the state, changes. -/
theorem C12_qos0_completes_at_once (c : C) (hc : c.connected = true) (p : Pub) (tag : Nat)
    (hq : p.qos = 0) :
    (step c (.api (.publish p tag))).1 = c ∧
    (step c (.api (.publish p tag))).2 =
      .wrote (.publish { p with pktid := 0 }) :: (if tag = 0 then [] else [.complete tag false]) := by
  rw [step_api c hc]
  simp only [apiWrite, hq, BEq.rfl, ↓reduceIte, apiRegister, completeOut, List.singleton_append, true_and]
  by_cases ht : tag = 0 <;> simp [ht]

example :
    (step demoA (.api (.publish { qos := 0, retain := true, topic := [97, 47, 98], pktid := 44, payload := [9] } 5))).2 =
      [.wrote (.publish { qos := 0, retain := true, topic := [97, 47, 98], pktid := 0, payload := [9] }),
       .complete 5 false] ∧
    (step demoA (.api (.publish { qos := 0, topic := [97], payload := [] } 0))).2 =
      [.wrote (.publish { qos := 0, topic := [97], payload := [] })] := by
  decide

end Mqtt.Properties.C12
