/-
C12 — property theorems (under construction; see DESIGN.md section 8).
-/
import Mqtt.Model.Client
import Mqtt.Spec.Client

namespace Mqtt.Properties.C12
end Mqtt.Properties.C12
