/-
C12 — sender side of acknowledged requests, client role.

Property theorems only (helper lemmas: `Proofs/Client*.lean`).  Model:
`Model/Client.lean` (code-shaped, tied to `service.Client` by the scripted-peer
correspondence runs); specification: `Spec/Client.lean`.  The recorded
deviations of the code (E5 ack-before-registration, the single ping slot, E9,
the A2 identifier wrap) are kept out of the `…_partial` statements by explicit
hypotheses and proved as closed `…_counterexample`s on the model.
-/
import Mqtt.Proofs.Client

set_option linter.unusedSimpArgs false

namespace Mqtt.Properties.C12
open Mqtt.Iface.Broker (Pub Packet Bytes)
open Mqtt.Iface.Client
open Mqtt.Model.Client
open Mqtt.Proofs.Client

/-! ## (a) every PUBREC is answered by a PUBREL with the same identifier -/

/-- For every state of a connected client - whatever its queues hold, whether or
not a QoS 2 publish with that identifier is in flight - a PUBREC from the peer
makes the client write exactly one packet, the PUBREL with the same
identifier; nothing completes and nothing but the QoS 2 send queue changes. -/
theorem C12_pubrec_pubrel (c : C) (hc : c.connected = true) (id : Nat) :
    (step c (.peer (.pubrec id))).2 = [.wrote (.pubrel id)] ∧
    (peer c (.pubrec id)).2 = [.wrote (.pubrel id)] ∧
    (step c (.peer (.pubrec id))).1 =
      { c with pub2out := c.pub2out.ack Mqtt.Generated.tPUBREC id } := by
  rw [step_peer c hc]
  exact ⟨rfl, rfl, rfl⟩

/-- a connected client with two QoS 2 publishes (ids 7, 8) and one QoS 1 publish (id 9) in flight -/
def demoA : C :=
  runState init
    [.connect (.connack false 0),
     .api (.publish { qos := 2, topic := [97, 47, 98], pktid := 7, payload := [1] } 1),
     .api (.publish { qos := 2, topic := [97], pktid := 8, payload := [2, 3] } 2),
     .api (.publish { qos := 1, topic := [98], pktid := 9, payload := [] } 3)]

example : demoA.connected = true ∧ demoA.pub2out.map (·.id) = [7, 8] ∧ demoA.pub1ack.map (·.id) = [9] ∧
    (step demoA (.peer (.pubrec 8))).2 = [.wrote (.pubrel 8)] ∧
    (step demoA (.peer (.pubrec 55))).2 = [.wrote (.pubrel 55)] ∧
    (step demoA (.peer (.pubrec 8))).1.pub2out.map (fun r => (r.id, r.state)) = [(7, 0), (8, 5)] := by
  decide

/-! ## (b) QoS 0 publishes complete as soon as they are queued -/

/-- A QoS 0 publish of a connected client writes the PUBLISH (identifier field
0) and fires its completion - without error, exactly once, in the same step,
after the write; no queue, nor anything else of the state, changes. -/
theorem C12_qos0_completes_at_once (c : C) (hc : c.connected = true) (p : Pub) (tag : Nat)
    (hq : p.qos = 0) :
    (step c (.api (.publish p tag))).1 = c ∧
    (step c (.api (.publish p tag))).2 =
      .wrote (.publish { p with pktid := 0 }) :: (if tag = 0 then [] else [.complete tag false]) := by
  rw [step_api c hc]
  simp only [apiWrite, hq, BEq.rfl, ↓reduceIte, apiRegister, completeOut, List.singleton_append, true_and]
  by_cases ht : tag = 0 <;> simp [ht]

example :
    (step demoA (.api (.publish { qos := 0, retain := true, topic := [97, 47, 98], pktid := 44, payload := [9] } 5))).2 =
      [.wrote (.publish { qos := 0, retain := true, topic := [97, 47, 98], pktid := 0, payload := [9] }),
       .complete 5 false] ∧
    (step demoA (.api (.publish { qos := 0, topic := [97], payload := [] } 0))).2 =
      [.wrote (.publish { qos := 0, topic := [97], payload := [] })] := by
  decide

/-! ## (c) completions: exactly once, in FIFO order, never early, no later than permitted

The four identified ack queues of the client (`Kind`: QoS 1 publishes, QoS 2
publishes, subscribes, unsubscribes; `queue k c`) are FIFO lists.
`accepted k c evs` are the requests the history `evs` puts in flight in queue
`k` (a registration under an identifier that is already in flight there is
ignored by `Wait`), `released k c evs` the requests handed back to their
completion wrappers, `fired k c evs` the tags of the completion callbacks the
model actually invokes while it processes terminal acknowledgements of kind
`k`; `key` is everything that is fixed when a request is registered
(identifier, completion tag, message, filters, message callback). -/

/-- **Conservation, every history** (the ack-before-registration interleaving
included): what was handed back so far followed by what is still in flight is
what was in flight initially followed by what was accepted, in order.  So no
request is handed back twice, none is invented, and requests are handed back
in registration order. -/
theorem C12_queue_conservation (k : Kind) (c : C) (evs : List Ev) :
    (released k c evs ++ queue k (runState c evs)).map key = (queue k c ++ accepted k c evs).map key :=
  run_conservation k c evs

/-- **C12, exactly-once FIFO completion.**  For every state of a connected
client and every history of API calls and packets from the peer without the
ack-before-registration interleaving, in which every acknowledged request
carries an identifier supplied by the caller that is non-zero and not in
flight in its queue (`Fresh`): the completion tags fired for kind `k`, followed
by the tags of the requests still in queue `k`, are the tags that were in the
queue initially followed by the tags of the requests of kind `k` the caller
made, in call order (tag 0 = no callback).  Hence every completion callback
fires at most once, in the order of the calls, and none fires that was not
requested. -/
theorem C12_exactly_once_fifo (k : Kind) (c : C) (evs : List Ev) (hc : c.connected = true)
    (he : noEarly evs = true) (hf : Fresh c evs = true) :
    fired k c evs ++ nz ((queue k (runState c evs)).map (·.tag)) =
      nz ((queue k c).map (·.tag)) ++ nz (requestedTags k evs) := by
  rw [run_conservation_tags k c evs he, accepted_fresh k c evs hc he hf]

/-- **When a completion fires** (never early, no later than permitted).  While a
connected client processes the terminal acknowledgement of kind `k` bearing
identifier `id`, it fires exactly the completions of the longest prefix of
queue `k` in which every request either had received its own terminal
acknowledgement before or is the request acknowledged now - in order, each
once.  Nothing else fires in that step. -/
theorem C12_completion_timing (k : Kind) (c : C) (hc : c.connected = true) (p : Packet) (id : Nat)
    (h : termId k p = some id) :
    doneTags (step c (.peer p)).2 =
      nz (((queue k c).takeWhile (fun e => terminal e.state || e.id == id)).map (·.tag)) :=
  peer_doneTags_char k c hc p id h

/-- … in particular, no later than permitted: a request whose predecessors in
its queue are all terminal (or acknowledged by this very packet) and which is
itself terminal or acknowledged now, completes in this step, after its
predecessors. -/
theorem C12_completion_no_later (k : Kind) (c : C) (hc : c.connected = true) (p : Packet) (id : Nat)
    (h : termId k p = some id) (pre post : List Req) (r : Req) (hq : queue k c = pre ++ r :: post)
    (hpre : ∀ e ∈ pre, terminal e.state = true ∨ e.id = id) (hr : terminal r.state = true ∨ r.id = id) :
    ∃ rest, doneTags (step c (.peer p)).2 = nz (pre.map (·.tag)) ++ nz [r.tag] ++ rest :=
  peer_fires_no_later k c hc p id h pre post r hq hpre hr

/-- … and never early: in every step of every history (early acknowledgements
included) a request is in a terminal state only if it was so before the step
or the step delivers the terminal acknowledgement of its kind bearing its own
identifier; requests are registered non-terminal.  Together with
`C12_completion_timing` (only terminal requests and the one acknowledged now
are completed): no completion before the request's own terminal
acknowledgement has arrived. -/
theorem C12_terminal_only_by_own_ack (k : Kind) (c : C) (ev : Ev) (r : Req)
    (hr : r ∈ queue k (step c ev).1) (ht : terminal r.state = true) :
    (∃ r0 ∈ queue k c, key r0 = key r ∧ r0.state = r.state) ∨ evAck k ev = some r.id :=
  step_terminal_origin k c ev r hr ht

/-- Eagerness: in every state reached from a fresh client by any history the
oldest request of every queue is not terminal - a completion is never held
back once it is permitted. -/
theorem C12_release_eager (evs : List Ev) (k : Kind) (e : Req)
    (h : (queue k (runState init evs)).head? = some e) : terminal e.state = false :=
  eager_run init evs eager_init k e h

/-- the tables the model takes from the regenerated facts are the protocol's:
PUBACK, PUBCOMP, SUBACK, UNSUBACK (and PUBREL for the receiving side) end an
exchange, PUBREC and "nothing yet" do not -/
theorem C12_terminal_states :
    terminal 4 = true ∧ terminal 7 = true ∧ terminal 9 = true ∧ terminal 11 = true ∧ terminal 6 = true ∧
    terminal 5 = false ∧ terminal 0 = false := by decide

/-- a history with out-of-order acknowledgements: three QoS 1 publishes (the third without a
callback), a subscribe, a QoS 2 publish; PUBACK 2 arrives first and is held back, PUBACK 1
releases both -/
def demoC : List Ev :=
  [.connect (.connack false 0),
   .api (.publish { qos := 1, topic := [97], pktid := 1, payload := [1] } 11),
   .api (.publish { qos := 1, topic := [97, 47, 98], pktid := 2, payload := [2] } 12),
   .api (.publish { qos := 1, topic := [98], pktid := 3, payload := [] } 0),
   .api (.subscribe 4 [([97, 47, 43], 1), ([98], 0)] 15 9),
   .api (.publish { qos := 2, topic := [98], pktid := 5, payload := [7] } 16),
   .peer (.puback 2),
   .peer (.pubrec 5),
   .peer (.puback 1),
   .peer (.suback 4 [1, 0]),
   .api (.publish { qos := 1, topic := [97], pktid := 1, payload := [3] } 17),
   .peer (.pubcomp 5)]

example :
    (step init (.connect (.connack false 0))).1.connected = true ∧
    noEarly demoC.tail = true ∧ Fresh (step init (.connect (.connack false 0))).1 demoC.tail = true ∧
    runOuts init demoC =
      [[.connected],
       [.wrote (.publish { qos := 1, topic := [97], pktid := 1, payload := [1] })],
       [.wrote (.publish { qos := 1, topic := [97, 47, 98], pktid := 2, payload := [2] })],
       [.wrote (.publish { qos := 1, topic := [98], pktid := 3, payload := [] })],
       [.wrote (.subscribe 4 [([97, 47, 43], 1), ([98], 0)])],
       [.wrote (.publish { qos := 2, topic := [98], pktid := 5, payload := [7] })],
       [],
       [.wrote (.pubrel 5)],
       [.complete 11 false, .complete 12 false],
       [.complete 15 false],
       [.wrote (.publish { qos := 1, topic := [97], pktid := 1, payload := [3] })],
       [.complete 16 false]] ∧
    fired .pub1 init demoC = [11, 12] ∧ fired .sub init demoC = [15] ∧ fired .pub2 init demoC = [16] ∧
    requestedTags .pub1 demoC = [11, 12, 0, 17] ∧
    (queue .pub1 (runState init demoC)).map (fun r => (r.id, r.tag, r.state)) = [(3, 0, 0), (1, 17, 0)] := by
  decide

/-! ### the ping slot -/

/-- **Pings, the part that holds**: in a history without early acknowledgements
in which `Ping` is called only when no earlier ping is outstanding (`PingOk`),
the ping completions fired, followed by the tag in the slot, are the tag
initially in the slot followed by the tags of the `Ping` calls, in order. -/
theorem C12_ping_exactly_once_partial (c : C) (evs : List Ev) (hc : c.connected = true)
    (he : noEarly evs = true) (hp : PingOk c evs = true) :
    pingFired c evs ++ nz (slotTags (runState c evs)) = nz (slotTags c) ++ nz (pingRequested evs) :=
  run_ping_conservation c evs hc he hp

/-- the statement without the restriction -/
def C12_ping_exactly_once_full : Prop :=
  ∀ (c : C) (evs : List Ev), c.connected = true → noEarly evs = true →
    pingFired c evs ++ nz (slotTags (runState c evs)) = nz (slotTags c) ++ nz (pingRequested evs)

/-- It is false of the code as it is (the single ping slot): a second `Ping`
before the first PINGRESP overwrites the slot; of the two PINGRESPs that follow
the first completes the *second* call and the second completes nothing - the
completion of the first call is lost. -/
theorem C12_ping_slot_counterexample : ¬ C12_ping_exactly_once_full ∧
    runOuts demoA [.api (.ping 1), .api (.ping 2), .peer .pingresp, .peer .pingresp] =
      [[.wrote .pingreq], [.wrote .pingreq], [.complete 2 false], []] := by
  refine ⟨fun h => ?_, by decide⟩
  have := h demoA [.api (.ping 1), .api (.ping 2), .peer .pingresp, .peer .pingresp] (by decide) (by decide)
  exact absurd this (by decide)

example : PingOk demoA [.api (.ping 1), .peer .pingresp, .api (.ping 2), .peer .pingreq, .peer .pingresp] = true ∧
    runOuts demoA [.api (.ping 1), .peer .pingresp, .api (.ping 2), .peer .pingreq, .peer .pingresp] =
      [[.wrote .pingreq], [.complete 1 false], [.wrote .pingreq], [.wrote .pingresp], [.complete 2 false]] := by
  decide

/-! ### the two interleavings of acknowledgement and return of the call -/

/-- "This holds however the arrival of the acknowledgement interleaves with the
return of the sending call": a request with a caller-supplied identifier and a
completion callback, made while its queue is empty, completes when its terminal
acknowledgement has been processed - whether the acknowledgement is processed
after the call returned (`.api` then `.peer`) or between the write and the
registration (`.apiEarlyAck`). -/
def C12_completes_on_ack_full : Prop :=
  ∀ (c : C) (call : Api) (k : Kind) (id tag : Nat) (ack : Packet),
    c.connected = true → callReq call = some (k, id, tag) → id ≠ 0 → tag ≠ 0 → queue k c = [] →
    termId k ack = some id →
    doneTags (step (step c (.api call)).1 (.peer ack)).2 = [tag] ∧
    doneTags (step c (.apiEarlyAck call ack)).2 = [tag]

/-- The first interleaving holds. -/
theorem C12_completes_on_ack_partial (c : C) (call : Api) (k : Kind) (id tag : Nat) (ack : Packet)
    (hc : c.connected = true) (hreq : callReq call = some (k, id, tag)) (hid : id ≠ 0) (htag : tag ≠ 0)
    (hq : queue k c = []) (ht : termId k ack = some id) :
    doneTags (step (step c (.api call)).1 (.peer ack)).2 = [tag] := by
  rw [completes_after_return c call k id tag ack hc hreq hid hq ht]
  simp [nz, htag]

/-- The second does not (finding E5): the acknowledgement processed between
`writeMessage` and `Wait` finds no entry and is dropped; the request is
registered afterwards and stays in its queue, non-terminal, and its completion
never fires although its acknowledgement has arrived. -/
theorem C12_early_ack_counterexample : ¬ C12_completes_on_ack_full ∧
    (let ev := Ev.apiEarlyAck (.publish { qos := 1, topic := [97], pktid := 2, payload := [1] } 4) (.puback 2)
     (step demoA ev).2 = [.wrote (.publish { qos := 1, topic := [97], pktid := 2, payload := [1] })] ∧
     (queue .pub1 (step demoA ev).1).map (fun r => (r.id, r.tag, r.state)) = [(9, 3, 0), (2, 4, 0)]) := by
  refine ⟨fun h => ?_, by decide⟩
  have := (h (step init (.connect (.connack false 0))).1
    (.publish { qos := 1, topic := [97], pktid := 2, payload := [1] } 4) .pub1 2 4 (.puback 2)
    (by decide) (by decide) (by decide) (by decide) (by decide) (by decide)).2
  exact absurd this (by decide)

example :
    let c := (step init (.connect (.connack false 0))).1
    let call := Api.subscribe 7 [([97, 47, 35], 2)] 21 3
    callReq call = some (.sub, 7, 21) ∧ termId .sub (.suback 7 [2]) = some 7 ∧
      doneTags (step (step c (.api call)).1 (.peer (.suback 7 [2]))).2 = [21] := by
  decide

/-! ## (e) packet identifiers -/

/-- Every QoS 1/2 PUBLISH, SUBSCRIBE and UNSUBSCRIBE a connected client writes
(`callReq call = some (k, id, tag)`: `id` is the identifier the caller
supplied, 0 = none) carries exactly one identifier, `assigned c id`: the
caller's when it supplied one, otherwise the next value of the library's
counter, `(ctr + 1) % 65536`; and the request is registered in its ack queue
under that same identifier. -/
theorem C12_written_identifier (c : C) (hc : c.connected = true) (call : Api) (k : Kind) (id tag : Nat)
    (h : callReq call = some (k, id, tag)) :
    (step c (.api call)).2.filterMap writtenId = [assigned c id] ∧
    (∀ r ∈ stepAccepted k c (.api call), r.id = assigned c id) ∧
    (id ≠ 0 → assigned c id = id) ∧ (id = 0 → assigned c id = (c.ctr + 1) % 65536) := by
  refine ⟨(step_api_written c hc call k id tag h).1, (step_api_written c hc call k id tag h).2, ?_, ?_⟩
  · intro hne; simp [assigned, hne]
  · intro h0; simp [assigned, h0]

/-- The written identifier is non-zero exactly when the caller supplied one or
the counter is not at 65535 (mod 65536). -/
theorem C12_identifier_nonzero_iff (c : C) (id : Nat) :
    assigned c id ≠ 0 ↔ id ≠ 0 ∨ c.ctr % 65536 ≠ 65535 :=
  assigned_ne_zero_iff c id

/-- the statement of the property: every identifier written is non-zero -/
def C12_identifier_nonzero_full : Prop :=
  ∀ (c : C) (call : Api) (k : Kind) (id tag : Nat), c.connected = true → callReq call = some (k, id, tag) →
    ∀ i ∈ (step c (.api call)).2.filterMap writtenId, i ≠ 0

/-- the part that holds of the code as modelled -/
theorem C12_identifier_nonzero_partial (c : C) (call : Api) (k : Kind) (id tag : Nat) (hc : c.connected = true)
    (h : callReq call = some (k, id, tag)) (hok : id ≠ 0 ∨ c.ctr % 65536 ≠ 65535) :
    ∀ i ∈ (step c (.api call)).2.filterMap writtenId, i ≠ 0 := by
  intro i hi
  rw [(step_api_written c hc call k id tag h).1] at hi
  have : i = assigned c id := by simpa using hi
  rw [this]
  exact (assigned_ne_zero_iff c id).mpr hok

/-- It is false (defect A2, `message.gPacketID` wraps to 0): with the counter at
65535 a QoS 1 publish without a caller-supplied identifier is written with
packet identifier 0 and registered under 0. -/
theorem C12_identifier_zero_counterexample : ¬ C12_identifier_nonzero_full ∧
    (let c : C := { demoA with ctr := 65535 }
     (step c (.api (.publish { qos := 1, topic := [97], payload := [1] } 4))).2 =
       [.wrote (.publish { qos := 1, topic := [97], pktid := 0, payload := [1] })] ∧
     (step c (.api (.publish { qos := 1, topic := [97], payload := [1] } 4))).1.pub1ack.map (·.id) = [9, 0]) := by
  refine ⟨fun h => ?_, by decide⟩
  exact h { demoA with ctr := 65535 } (.publish { qos := 1, topic := [97], payload := [1] } 4) .pub1 0 4
    (by decide) (by decide) 0 (by decide) rfl

/-- auto-assigned identifiers away from the wrap: three requests without identifiers get 1, 2, 3 -/
example : runOuts (step init (.connect (.connack false 0))).1
    [.api (.publish { qos := 1, topic := [97], payload := [1] } 1),
     .api (.subscribe 0 [([97], 0)] 2 7),
     .api (.unsubscribe 0 [[97]] 3),
     .api (.publish { qos := 2, topic := [97], pktid := 77, payload := [1] } 4)] =
    [[.wrote (.publish { qos := 1, topic := [97], pktid := 1, payload := [1] })],
     [.wrote (.subscribe 2 [([97], 0)])],
     [.wrote (.unsubscribe 3 [[97]])],
     [.wrote (.publish { qos := 2, topic := [97], pktid := 77, payload := [1] })]] := by
  decide

/-- **Identifiers in flight are pairwise distinct**, in every state reached from
a fresh client by any history (early acknowledgements, repeated identifiers
and identifier 0 included): within each ack queue no two requests bear the
same identifier - `Wait` ignores a registration under an identifier that is in
flight. -/
theorem C12_inflight_ids_distinct (evs : List Ev) (k : Kind) :
    ((queue k (runState init evs)).map (·.id)).Nodup :=
  idsNodup_run init evs idsNodup_init k

/-- … and the invariant is inductive: preserved by every step from every state that has it. -/
theorem C12_inflight_ids_distinct_step (c : C) (ev : Ev) (h : IdsNodup c) : IdsNodup (step c ev).1 :=
  idsNodup_step c ev h

/-- **Identifiers in flight are non-zero** in every state reached by a history
in which every call either supplies its identifier or meets the counter away
from the wrap (`IdOk`; the excluded case is `C12_identifier_zero_counterexample`). -/
theorem C12_inflight_ids_nonzero_partial (evs : List Ev) (hok : IdOk init evs = true) (k : Kind) :
    ∀ e ∈ queue k (runState init evs), e.id ≠ 0 :=
  idsNonzero_run init evs idsNonzero_init hok k

example : IdOk init demoC = true ∧ (queue .pub1 (runState init demoC)).map (·.id) = [3, 1] := by decide

end Mqtt.Properties.C12
