/-
C12 — sender side of acknowledged requests, client role.

Property theorems only (helper lemmas: `Proofs/Client*.lean`).  Model:
`Model/Client.lean` (code-shaped, tied to `service.Client` by the scripted-peer
correspondence runs); specification: `Spec/Client.lean`.  The recorded
deviation of the code (identifiers assigned from a 16-bit cycle without regard
to what is in flight) is kept out of the `…_partial` statements by explicit
hypotheses and proved as closed `…_counterexample`s on the model.  (E5 - an
acknowledgement processed between the write of a request and its registration
was dropped -, the single ping slot of `sessions.Ackqueue`, E9 - one callback
invocation per matching filter of a request - and A2 - identifier 0 at the wrap
of the counter - were four more; they were repaired and the theorems that
carried their hypotheses are stated at full strength.)

The event `.apiEarlyAck call ack` - the acknowledgement reaches the client after
the request was written and before the call has registered it - is part of
every history quantified over below.  Since the repair of E5 (`service.ackmu`)
the acknowledgement waits for the registration; section (f) ties that to the
lock structure of the source.
-/
import Mqtt.Proofs.ClientRefine
import Mqtt.Proofs.ClientIds
import Mqtt.Proofs.AckLock
import Mqtt.Proofs.ClientQueues
import Mqtt.Properties.C13

set_option linter.unusedSimpArgs false

namespace Mqtt.Properties.C12
open Mqtt.Iface.Broker (Pub Packet Bytes)
open Mqtt.Iface.Client
open Mqtt.Model.Client
open Mqtt.Model.Broker (nextPacketID)
open Mqtt.Proofs.Client

/-! ## (a) every PUBREC is answered by a PUBREL with the same identifier -/

/-- For every state of a connected client - whatever its queues hold, whether or
not a QoS 2 publish with that identifier is in flight - a PUBREC from the peer
makes the client write exactly one packet, the PUBREL with the same
identifier; nothing completes and nothing but the QoS 2 send queue changes. -/
theorem C12_pubrec_pubrel (c : C) (hc : c.connected = true) (id : Nat) :
    (step c (.peer (.pubrec id))).2 = [.wrote (.pubrel id)] ∧
    (peer c (.pubrec id)).2 = [.wrote (.pubrel id)] ∧
    (step c (.peer (.pubrec id))).1 =
      { c with pub2out := c.pub2out.ack Mqtt.Generated.tPUBREC id } := by
  rw [step_peer c hc]
  exact ⟨rfl, rfl, rfl⟩

/-- a connected client with two QoS 2 publishes (ids 7, 8) and one QoS 1 publish (id 9) in flight -/
def demoA : C :=
  runState init
    [.connect (.connack false 0),
     .api (.publish { qos := 2, topic := [97, 47, 98], pktid := 7, payload := [1] } 1),
     .api (.publish { qos := 2, topic := [97], pktid := 8, payload := [2, 3] } 2),
     .api (.publish { qos := 1, topic := [98], pktid := 9, payload := [] } 3)]

example : demoA.connected = true ∧ demoA.pub2out.map (·.id) = [7, 8] ∧ demoA.pub1ack.map (·.id) = [9] ∧
    (step demoA (.peer (.pubrec 8))).2 = [.wrote (.pubrel 8)] ∧
    (step demoA (.peer (.pubrec 55))).2 = [.wrote (.pubrel 55)] ∧
    (step demoA (.peer (.pubrec 8))).1.pub2out.map (fun r => (r.id, r.state)) = [(7, 0), (8, 5)] := by
  decide

/-! ## (b) QoS 0 publishes complete as soon as they are queued -/

/-- A QoS 0 publish of a connected client writes the PUBLISH (identifier field
0) and fires its completion - without error, exactly once, in the same step,
after the write; no queue, nor anything else of the state, changes. -/
theorem C12_qos0_completes_at_once (c : C) (hc : c.connected = true) (p : Pub) (tag : Nat)
    (hq : p.qos = 0) :
    (step c (.api (.publish p tag))).1 = c ∧
    (step c (.api (.publish p tag))).2 =
      .wrote (.publish { p with pktid := 0 }) :: (if tag = 0 then [] else [.complete tag false]) := by
  rw [step_api c hc]
  simp only [apiWrite, hq, BEq.rfl, ↓reduceIte, apiRegister, completeOut, List.singleton_append, true_and]
  by_cases ht : tag = 0 <;> simp [ht]

example :
    (step demoA (.api (.publish { qos := 0, retain := true, topic := [97, 47, 98], pktid := 44, payload := [9] } 5))).2 =
      [.wrote (.publish { qos := 0, retain := true, topic := [97, 47, 98], pktid := 0, payload := [9] }),
       .complete 5 false] ∧
    (step demoA (.api (.publish { qos := 0, topic := [97], payload := [] } 0))).2 =
      [.wrote (.publish { qos := 0, topic := [97], payload := [] })] := by
  decide

/-! ## (c) completions: exactly once, in FIFO order, never early, no later than permitted

The four identified ack queues of the client (`Kind`: QoS 1 publishes, QoS 2
publishes, subscribes, unsubscribes; `queue k c`) are FIFO lists.
`accepted k c evs` are the requests the history `evs` puts in flight in queue
`k` (a registration under an identifier that is already in flight there is
ignored by `Wait`), `released k c evs` the requests handed back to their
completion wrappers, `fired k c evs` the tags of the completion callbacks the
model actually invokes while it processes terminal acknowledgements of kind
`k`; `key` is everything that is fixed when a request is registered
(identifier, completion tag, message, filters, message callback). -/

/-- **Conservation, every history** (the ack-before-registration interleaving
included): what was handed back so far followed by what is still in flight is
what was in flight initially followed by what was accepted, in order.  So no
request is handed back twice, none is invented, and requests are handed back
in registration order. -/
theorem C12_queue_conservation (k : Kind) (c : C) (evs : List Ev) :
    (released k c evs ++ queue k (runState c evs)).map key = (queue k c ++ accepted k c evs).map key :=
  run_conservation k c evs

/-- **C12, exactly-once FIFO completion.**  For every state of a connected
client and every history of API calls and packets from the peer - an
acknowledgement that arrives before the sending call has finished registering
the request included (`.apiEarlyAck`: its call counts among the calls made, its
completions among those fired) -, in which every acknowledged request is
written with an identifier - supplied by the caller or assigned by the library -
that is not in flight in its queue (`FreshA`; implied by `Fresh`, which admits
caller-supplied identifiers only, and by `Clear`): the completion tags fired
for kind `k`, followed by the tags of the requests still in queue `k`, are the
tags that were in the queue initially followed by the tags of the requests of
kind `k` the caller made, in call order (tag 0 = no callback).  Hence every
completion callback fires at most once, in the order of the calls, and none
fires that was not requested. -/
theorem C12_exactly_once_fifo (k : Kind) (c : C) (evs : List Ev) (hc : c.connected = true)
    (hf : FreshA c evs = true) :
    fired k c evs ++ nz ((queue k (runState c evs)).map (·.tag)) =
      nz ((queue k c).map (·.tag)) ++ nz (requestedTags k evs) := by
  rw [run_conservation_tags k c evs, accepted_freshA k c evs hc hf]

/-- the hypothesis of `C12_exactly_once_fifo` is weaker than "every identifier is supplied by the
caller, non-zero and not in flight in its queue" -/
theorem C12_fresh_implies_freshA (c : C) (evs : List Ev) (h : Fresh c evs = true) : FreshA c evs = true :=
  freshA_of_fresh c evs h

/-- **When a completion fires** (never early, no later than permitted).  While a
connected client processes the terminal acknowledgement of kind `k` bearing
identifier `id`, it fires exactly the completions of the longest prefix of
queue `k` in which every request either had received its own terminal
acknowledgement before or is the request acknowledged now - in order, each
once.  Nothing else fires in that step. -/
theorem C12_completion_timing (k : Kind) (c : C) (hc : c.connected = true) (p : Packet) (id : Nat)
    (h : termId k p = some id) :
    doneTags (step c (.peer p)).2 =
      nz (((queue k c).takeWhile (fun e => terminal e.state || e.id == id)).map (·.tag)) :=
  peer_doneTags_char k c hc p id h

/-- … in particular, no later than permitted: a request whose predecessors in
its queue are all terminal (or acknowledged by this very packet) and which is
itself terminal or acknowledged now, completes in this step, after its
predecessors. -/
theorem C12_completion_no_later (k : Kind) (c : C) (hc : c.connected = true) (p : Packet) (id : Nat)
    (h : termId k p = some id) (pre post : List Req) (r : Req) (hq : queue k c = pre ++ r :: post)
    (hpre : ∀ e ∈ pre, terminal e.state = true ∨ e.id = id) (hr : terminal r.state = true ∨ r.id = id) :
    ∃ rest, doneTags (step c (.peer p)).2 = nz (pre.map (·.tag)) ++ nz [r.tag] ++ rest :=
  peer_fires_no_later k c hc p id h pre post r hq hpre hr

/-- … and never early: in every step of every history (early acknowledgements
included) a request is in a terminal state only if it was so before the step
or the step delivers the terminal acknowledgement of its kind bearing its own
identifier; requests are registered non-terminal.  Together with
`C12_completion_timing` (only terminal requests and the one acknowledged now
are completed): no completion before the request's own terminal
acknowledgement has arrived. -/
theorem C12_terminal_only_by_own_ack (k : Kind) (c : C) (ev : Ev) (r : Req)
    (hr : r ∈ queue k (step c ev).1) (ht : terminal r.state = true) :
    (∃ r0 ∈ queue k c, key r0 = key r ∧ r0.state = r.state) ∨ evAck k ev = some r.id :=
  step_terminal_origin k c ev r hr ht

/-- Eagerness: in every state reached from a fresh client by any history the
oldest request of every queue is not terminal - a completion is never held
back once it is permitted. -/
theorem C12_release_eager (evs : List Ev) (k : Kind) (e : Req)
    (h : (queue k (runState init evs)).head? = some e) : terminal e.state = false :=
  eager_run init evs eager_init k e h

/-- … and eagerness is inductive: preserved by every step from every state that has it. -/
theorem C12_release_eager_step (c : C) (ev : Ev) (h : Eager c) : Eager (step c ev).1 :=
  eager_step c ev h

/-- the tables the model takes from the regenerated facts are the protocol's:
PUBACK, PUBCOMP, SUBACK, UNSUBACK (and PUBREL for the receiving side) end an
exchange, PUBREC and "nothing yet" do not -/
theorem C12_terminal_states :
    terminal 4 = true ∧ terminal 7 = true ∧ terminal 9 = true ∧ terminal 11 = true ∧ terminal 6 = true ∧
    terminal 5 = false ∧ terminal 0 = false := by decide

/-- a history with out-of-order acknowledgements: three QoS 1 publishes (the third without a
callback), a subscribe, a QoS 2 publish; PUBACK 2 arrives first and is held back, PUBACK 1
releases both -/
def demoC : List Ev :=
  [.connect (.connack false 0),
   .api (.publish { qos := 1, topic := [97], pktid := 1, payload := [1] } 11),
   .api (.publish { qos := 1, topic := [97, 47, 98], pktid := 2, payload := [2] } 12),
   .api (.publish { qos := 1, topic := [98], pktid := 3, payload := [] } 0),
   .api (.subscribe 4 [([97, 47, 43], 1), ([98], 0)] 15 9),
   .api (.publish { qos := 2, topic := [98], pktid := 5, payload := [7] } 16),
   .peer (.puback 2),
   .peer (.pubrec 5),
   .peer (.puback 1),
   .peer (.suback 4 [1, 0]),
   .api (.publish { qos := 1, topic := [97], pktid := 1, payload := [3] } 17),
   .peer (.pubcomp 5)]

example :
    (step init (.connect (.connack false 0))).1.connected = true ∧
Fresh (step init (.connect (.connack false 0))).1 demoC.tail = true ∧
    FreshA (step init (.connect (.connack false 0))).1 demoC.tail = true ∧
    runOuts init demoC =
      [[.connected],
       [.wrote (.publish { qos := 1, topic := [97], pktid := 1, payload := [1] })],
       [.wrote (.publish { qos := 1, topic := [97, 47, 98], pktid := 2, payload := [2] })],
       [.wrote (.publish { qos := 1, topic := [98], pktid := 3, payload := [] })],
       [.wrote (.subscribe 4 [([97, 47, 43], 1), ([98], 0)])],
       [.wrote (.publish { qos := 2, topic := [98], pktid := 5, payload := [7] })],
       [],
       [.wrote (.pubrel 5)],
       [.complete 11 false, .complete 12 false],
       [.complete 15 false],
       [.wrote (.publish { qos := 1, topic := [97], pktid := 1, payload := [3] })],
       [.complete 16 false]] ∧
    fired .pub1 init demoC = [11, 12] ∧ fired .sub init demoC = [15] ∧ fired .pub2 init demoC = [16] ∧
    requestedTags .pub1 demoC = [11, 12, 0, 17] ∧
    (queue .pub1 (runState init demoC)).map (fun r => (r.id, r.tag, r.state)) = [(3, 0, 0), (1, 17, 0)] := by
  decide

/-! ### pings (no identifier: any number may be outstanding) -/

/-- **Pings, exactly-once FIFO completion.**  For every state of a connected
client - whatever number of pings is outstanding - and every history (a
PINGRESP that arrives before `Ping` has registered its request included), in
which `Ping` may be called any number of times before any PINGRESP arrives: the
ping completions fired,
followed by the tags of the pings still in flight, are the tags initially in
flight followed by the tags of the `Ping` calls, in call order.  Hence every
ping completion fires at most once, in the order of the calls, none is lost to
a later `Ping`, and none fires that was not requested. -/
theorem C12_ping_exactly_once_fifo (c : C) (evs : List Ev) (hc : c.connected = true) :
    pingFired c evs ++ nz (pingTags (runState c evs)) = nz (pingTags c) ++ nz (pingRequested evs) :=
  run_ping_conservation c evs hc

/-- **When a ping completion fires.**  Between two events no ping in flight
carries a PINGRESP (`PingsWaiting`: the client collects right after it
acknowledges) - in every state reached from a fresh client by any history, and
inductively from every state that has the invariant.  In such a state a
PINGRESP fires exactly the completion of the *oldest* ping in flight (none if
no ping is outstanding: the PINGRESP is ignored) and leaves the younger pings
in flight, in order: the n-th PINGRESP completes the n-th `Ping`, never early
and no later than permitted. -/
theorem C12_ping_completion_timing :
    (∀ evs, PingsWaiting (runState init evs)) ∧
    (∀ c ev, PingsWaiting c → PingsWaiting (step c ev).1) ∧
    (∀ c, c.connected = true → PingsWaiting c →
      doneTags (step c (.peer .pingresp)).2 = nz ((pingTags c).take 1) ∧
      pingTags (step c (.peer .pingresp)).1 = (pingTags c).tail) :=
  ⟨fun evs => pingsWaiting_run init evs pingsWaiting_init, pingsWaiting_step,
   fun c hc h => pingresp_completes_oldest c hc h⟩

/-- Two pings, two PINGRESPs: both completions, in the order of the calls - from
every connected state without a ping in flight, for all callbacks.  (Before the
repair of the single ping slot the first PINGRESP completed the *second* call
and the completion of the first call was lost.) -/
theorem C12_two_pings_both_complete (c : C) (hc : c.connected = true) (hq : c.pings = []) (t1 t2 : Nat) :
    runOuts c [.api (.ping t1), .api (.ping t2), .peer .pingresp, .peer .pingresp] =
      [[.wrote .pingreq], [.wrote .pingreq], completeOut t1 false, completeOut t2 false] ∧
    (runState c [.api (.ping t1), .api (.ping t2), .peer .pingresp, .peer .pingresp]).pings = [] := by
  have h1 : step c (.api (.ping t1)) = ({ c with pings := [(0, t1)] }, [.wrote .pingreq]) := by
    simp [step, hc, apiWrite, apiRegister, hq]
  have h2 : step { c with pings := [(0, t1)] } (.api (.ping t2)) =
      ({ c with pings := [(0, t1), (0, t2)] }, [.wrote .pingreq]) := by
    simp [step, hc, apiWrite, apiRegister]
  have h3 : step { c with pings := [(0, t1), (0, t2)] } (.peer .pingresp) =
      ({ c with pings := [(0, t2)] }, completeOut t1 false) := by
    simp [step, hc, peer, pingAck, pingAcked, Mqtt.Generated.tPINGRESP]
  have h4 : step { c with pings := [(0, t2)] } (.peer .pingresp) =
      ({ c with pings := [] }, completeOut t2 false) := by
    simp [step, hc, peer, pingAck, pingAcked, Mqtt.Generated.tPINGRESP]
  simp only [runOuts, runState, List.foldl_cons, List.foldl_nil, h1, h2, h3, h4, and_self]

example :
    runOuts demoA [.api (.ping 1), .api (.ping 2), .peer .pingresp, .peer .pingresp] =
      [[.wrote .pingreq], [.wrote .pingreq], [.complete 1 false], [.complete 2 false]] := by
  decide

/-- three pings outstanding, PINGRESPs interleaved with other traffic, a PINGRESP with nothing outstanding -/
example :
    runOuts demoA [.api (.ping 1), .api (.ping 2), .peer (.puback 9), .peer .pingresp, .api (.ping 0), .api (.ping 4),
        .peer .pingreq, .peer .pingresp, .peer .pingresp, .peer .pingresp, .peer .pingresp] =
      [[.wrote .pingreq], [.wrote .pingreq], [.complete 3 false], [.complete 1 false], [.wrote .pingreq],
       [.wrote .pingreq], [.wrote .pingresp], [.complete 2 false], [], [.complete 4 false], []] ∧
    pingFired demoA [.api (.ping 1), .api (.ping 2), .peer (.puback 9), .peer .pingresp, .api (.ping 0), .api (.ping 4),
        .peer .pingreq, .peer .pingresp, .peer .pingresp, .peer .pingresp, .peer .pingresp] = [1, 2, 4] := by
  decide

/-! ### the two interleavings of acknowledgement and return of the call -/

/-- **The composite event is the call followed by the packet**, in every state,
connected or not, for every call and every packet: an acknowledgement (or any
other packet) that reaches the client between the write of a request and its
registration is processed after the registration - state and outputs are those
of `.api call` followed by `.peer ack`.  (Before the repair of E5 the packet was
processed first: a terminal acknowledgement found no entry and was dropped.) -/
theorem C12_early_ack_is_call_then_ack (c : C) (call : Api) (ack : Packet) :
    step c (.apiEarlyAck call ack) =
      ((step (step c (.api call)).1 (.peer ack)).1,
       (step c (.api call)).2 ++ (step (step c (.api call)).1 (.peer ack)).2) :=
  step_early c call ack

/-- **C12, completion however the acknowledgement interleaves with the call.**
"This holds however the arrival of the acknowledgement interleaves with the
return of the sending call": a request with a caller-supplied identifier and a
completion callback, made while its queue is empty, completes when its terminal
acknowledgement has been processed - whether the acknowledgement is processed
after the call returned (`.api` then `.peer`) or arrives between the write and
the registration (`.apiEarlyAck`).  In both cases the completion fires exactly
once in that step and the request has left its queue, so that no later
acknowledgement can complete it again. -/
theorem C12_completes_on_ack (c : C) (call : Api) (k : Kind) (id tag : Nat) (ack : Packet)
    (hc : c.connected = true) (hreq : callReq call = some (k, id, tag)) (hid : id ≠ 0) (htag : tag ≠ 0)
    (hq : queue k c = []) (ht : termId k ack = some id) :
    doneTags (step (step c (.api call)).1 (.peer ack)).2 = [tag] ∧
    doneTags (step c (.apiEarlyAck call ack)).2 = [tag] ∧
    queue k (step c (.apiEarlyAck call ack)).1 = [] ∧
    queue k (step (step c (.api call)).1 (.peer ack)).1 = [] := by
  have hz : nz [tag] = [tag] := by simp [nz, htag]
  refine ⟨?_, ?_, completes_in_window_queue c call k id tag ack hc hreq hid htag hq ht, ?_⟩
  · rw [completes_after_return c call k id tag ack hc hreq hid hq ht, hz]
  · rw [completes_in_window c call k id tag ack hc hreq hid hq ht, hz]
  · have := completes_in_window_queue c call k id tag ack hc hreq hid htag hq ht
    rw [step_early] at this
    exact this

/-- The witness of the repaired finding E5: a QoS 1 publish (identifier 2, callback 4) whose PUBACK
arrives inside the window, with another publish (identifier 9, callback 3) in flight: the PUBLISH is
written, the request is registered behind 9, the PUBACK marks it; it is held back behind 9 (FIFO)
and completes, once, when 9 is acknowledged.  With an empty queue it completes in the same step. -/
theorem C12_early_ack_completes :
    (let ev := Ev.apiEarlyAck (.publish { qos := 1, topic := [97], pktid := 2, payload := [1] } 4) (.puback 2)
     (step demoA ev).2 = [.wrote (.publish { qos := 1, topic := [97], pktid := 2, payload := [1] })] ∧
     (queue .pub1 (step demoA ev).1).map (fun r => (r.id, r.tag, terminal r.state)) = [(9, 3, false), (2, 4, true)] ∧
     runOuts (step demoA ev).1 [.peer (.puback 9), .peer (.puback 2)] = [[.complete 3 false, .complete 4 false], []]) ∧
    (let c := (step init (.connect (.connack false 0))).1
     let ev := Ev.apiEarlyAck (.publish { qos := 1, topic := [97], pktid := 2, payload := [1] } 4) (.puback 2)
     (step c ev).2 = [.wrote (.publish { qos := 1, topic := [97], pktid := 2, payload := [1] }), .complete 4 false] ∧
     queue .pub1 (step c ev).1 = [] ∧
     runOuts (step c ev).1 [.peer (.puback 2)] = [[]]) := by
  decide

/-- **An early PINGRESP shifts nothing.**  Two pings from a connected state without a ping in
flight; the PINGRESP of the first arrives inside the first call's window, the PINGRESP of the second
after the second call: the completions fire in call order, the first in the composite step, the
second at the second PINGRESP, for all callbacks.  (Before the repair of E5 the early PINGRESP found
no ping registered and was dropped; the next PINGRESP then completed the *first* call, and the
completion of every later ping came one PINGRESP late.) -/
theorem C12_early_pingresp_no_shift (c : C) (hc : c.connected = true) (hq : c.pings = []) (t1 t2 : Nat) :
    runOuts c [.apiEarlyAck (.ping t1) .pingresp, .api (.ping t2), .peer .pingresp] =
      [.wrote .pingreq :: completeOut t1 false, [.wrote .pingreq], completeOut t2 false] ∧
    (runState c [.apiEarlyAck (.ping t1) .pingresp, .api (.ping t2), .peer .pingresp]).pings = [] := by
  have h1 : step c (.apiEarlyAck (.ping t1) .pingresp) = ({ c with pings := [] }, .wrote .pingreq :: completeOut t1 false) := by
    simp [step, hc, apiWrite, apiRegister, hq, peer, pingAck, pingAcked, Mqtt.Generated.tPINGRESP]
  have h2 : step { c with pings := [] } (.api (.ping t2)) =
      ({ c with pings := [(0, t2)] }, [.wrote .pingreq]) := by
    simp [step, hc, apiWrite, apiRegister]
  have h3 : step { c with pings := [(0, t2)] } (.peer .pingresp) =
      ({ c with pings := [] }, completeOut t2 false) := by
    simp [step, hc, peer, pingAck, pingAcked, Mqtt.Generated.tPINGRESP]
  simp only [runOuts, runState, List.foldl_cons, List.foldl_nil, h1, h2, h3, and_self]

/-- … also with pings outstanding: two pings in flight, a third whose window receives a PINGRESP -
the PINGRESP answers the *oldest* ping (the n-th PINGRESP answers the n-th PINGREQ), the new ping
queues behind the second -/
example :
    runOuts demoA [.api (.ping 1), .api (.ping 2), .apiEarlyAck (.ping 3) .pingresp, .peer .pingresp, .peer .pingresp,
        .peer .pingresp] =
      [[.wrote .pingreq], [.wrote .pingreq], [.wrote .pingreq, .complete 1 false], [.complete 2 false],
       [.complete 3 false], []] := by
  decide

example :
    let c := (step init (.connect (.connack false 0))).1
    let call := Api.subscribe 7 [([97, 47, 35], 2)] 21 3
    callReq call = some (.sub, 7, 21) ∧ termId .sub (.suback 7 [2]) = some 7 ∧
      doneTags (step (step c (.api call)).1 (.peer (.suback 7 [2]))).2 = [21] := by
  decide

/-! ## (e) packet identifiers

`assigned c id` is the identifier a request is written with: the caller's (`id ≠ 0`), or the next
one of the process-wide counter (`Model.Broker.nextPacketID`, the model of `message.nextPacketID`:
identifier 0 is skipped).  Because the counter is process-wide, histories here may contain, between
the events of the connection, `others d`: other connections of the process draw identifiers, the
counter advances by `d` (`PEv`, `prunState`). -/

/-- `nextPacketID` in closed form: the identifier is the new counter value modulo 2^16, never 0;
the counter advances by 1, by 2 when its low 16 bits pass 0; every call is one draw
(`drawn n = n - n / 65536` counts the identifiers drawn while the counter went from 0 to `n`). -/
theorem C12_next_identifier (ctr : Nat) :
    (nextPacketID ctr).1 = (nextPacketID ctr).2 % 65536 ∧ (nextPacketID ctr).1 ≠ 0 ∧
    (nextPacketID ctr).1 < 65536 ∧
    (nextPacketID ctr).2 = (if (ctr + 1) % 65536 = 0 then ctr + 2 else ctr + 1) ∧
    drawn (nextPacketID ctr).2 = drawn ctr + 1 := by
  refine ⟨(nextPacketID_spec ctr).1, (nextPacketID_spec ctr).2.1, (nextPacketID_spec ctr).2.2.1, ?_, drawn_next ctr⟩
  unfold nextPacketID
  by_cases h : (ctr + 1) % 65536 = 0
  · rw [if_neg (by simpa using h), if_pos h]
  · rw [if_pos h, if_neg h]

/-- Every QoS 1/2 PUBLISH, SUBSCRIBE and UNSUBSCRIBE a connected client writes
(`callReq call = some (k, id, tag)`: `id` is the identifier the caller
supplied, 0 = none) carries exactly one identifier, `assigned c id`: the
caller's when it supplied one (the counter stays), otherwise the next
identifier of the library's counter (the counter moves to the value that
produced it); and the request is registered in its ack queue under that same
identifier. -/
theorem C12_written_identifier (c : C) (hc : c.connected = true) (call : Api) (k : Kind) (id tag : Nat)
    (h : callReq call = some (k, id, tag)) :
    (step c (.api call)).2.filterMap writtenId = [assigned c id] ∧
    (∀ r ∈ stepAccepted k c (.api call), r.id = assigned c id) ∧
    (id ≠ 0 → assigned c id = id ∧ (step c (.api call)).1.ctr = c.ctr) ∧
    (id = 0 → assigned c id = (nextPacketID c.ctr).1 ∧ (step c (.api call)).1.ctr = (nextPacketID c.ctr).2) := by
  refine ⟨(step_api_written c hc call k id tag h).1, (step_api_written c hc call k id tag h).2, ?_, ?_⟩
  · intro hne
    refine ⟨by simp [assigned, hne], ?_⟩
    rw [step_ctr]; simp [evDraws, drawsId, h, hne]
  · intro h0
    refine ⟨by simp [assigned, h0], ?_⟩
    rw [step_ctr]; simp [evDraws, drawsId, h, h0, hc]

/-- **C12, identifiers are non-zero.**  No event, in no state - whatever the
counter, whatever the queues hold, early acknowledgements included - makes the
client write a PUBLISH (QoS 1/2), SUBSCRIBE or UNSUBSCRIBE with packet
identifier 0.  (The model of the code before repair A2 wrote 0 with the
counter at 65535 modulo 2^16.) -/
theorem C12_identifier_nonzero (c : C) (ev : Ev) : ∀ i ∈ (step c ev).2.filterMap writtenId, i ≠ 0 :=
  step_written_nonzero c ev

/-- … and a call that needs an identifier writes exactly one request, with `assigned c id ≠ 0`. -/
theorem C12_identifier_nonzero_call (c : C) (call : Api) (k : Kind) (id tag : Nat) (hc : c.connected = true)
    (h : callReq call = some (k, id, tag)) :
    (step c (.api call)).2.filterMap writtenId = [assigned c id] ∧ assigned c id ≠ 0 :=
  ⟨(step_api_written c hc call k id tag h).1, assigned_ne_zero c id⟩

/-- at the wrap: with the counter at 65535 a QoS 1 publish without a caller-supplied identifier is
written with identifier 1 and registered under 1; the counter has moved to 65537 -/
example :
    let c : C := { demoA with ctr := 65535 }
    (step c (.api (.publish { qos := 1, topic := [97], payload := [1] } 4))).2 =
       [.wrote (.publish { qos := 1, topic := [97], pktid := 1, payload := [1] })] ∧
    (step c (.api (.publish { qos := 1, topic := [97], payload := [1] } 4))).1.pub1ack.map (·.id) = [9, 1] ∧
    (step c (.api (.publish { qos := 1, topic := [97], payload := [1] } 4))).1.ctr = 65537 := by
  decide

/-- across the wrap with requests in flight (the corpus case `corpus/client/auto-id-wrap.ops`):
counter 65533, five requests without identifiers get 65534, 65535, 1, 2, 3 -/
example : runOuts { (step init (.connect (.connack false 0))).1 with ctr := 65533 }
    [.api (.publish { qos := 1, topic := [97], payload := [1] } 1),
     .api (.subscribe 0 [([97], 1)] 2 1),
     .api (.publish { qos := 2, topic := [98], payload := [2] } 3),
     .api (.unsubscribe 0 [[97]] 4),
     .api (.publish { qos := 1, topic := [97], payload := [3] } 5),
     .peer (.pubrec 1)] =
    [[.wrote (.publish { qos := 1, topic := [97], pktid := 65534, payload := [1] })],
     [.wrote (.subscribe 65535 [([97], 1)])],
     [.wrote (.publish { qos := 2, topic := [98], pktid := 1, payload := [2] })],
     [.wrote (.unsubscribe 2 [[97]])],
     [.wrote (.publish { qos := 1, topic := [97], pktid := 3, payload := [3] })],
     [.wrote (.pubrel 1)]] := by
  decide

/-- auto-assigned identifiers away from the wrap: three requests without identifiers get 1, 2, 3 -/
example : runOuts (step init (.connect (.connack false 0))).1
    [.api (.publish { qos := 1, topic := [97], payload := [1] } 1),
     .api (.subscribe 0 [([97], 0)] 2 7),
     .api (.unsubscribe 0 [[97]] 3),
     .api (.publish { qos := 2, topic := [97], pktid := 77, payload := [1] } 4)] =
    [[.wrote (.publish { qos := 1, topic := [97], pktid := 1, payload := [1] })],
     [.wrote (.subscribe 2 [([97], 0)])],
     [.wrote (.unsubscribe 3 [[97]])],
     [.wrote (.publish { qos := 2, topic := [97], pktid := 77, payload := [1] })]] := by
  decide

/-- **Identifiers in flight are non-zero** in every state reached from a fresh
client by any history (early acknowledgements included). -/
theorem C12_inflight_ids_nonzero (evs : List Ev) (k : Kind) :
    ∀ e ∈ queue k (runState init evs), e.id ≠ 0 :=
  idsNonzero_run init evs idsNonzero_init k

/-- … and the invariant is inductive: preserved by every step from every state that has it. -/
theorem C12_inflight_ids_nonzero_step (c : C) (ev : Ev) (h : IdsNonzero c) : IdsNonzero (step c ev).1 :=
  idsNonzero_step c ev h

example : (queue .pub1 (runState init demoC)).map (·.id) = [3, 1] := by decide

/-! ### pairwise distinct

The code takes the next identifier of a 16-bit cycle without looking at what
is in flight, and a caller may supply identifiers itself.  `Wait` ignores a
registration under an identifier that is in flight in the same ack queue, so
*within each queue* the registered identifiers are always pairwise distinct
(`C12_queue_ids_distinct`) - but the request has been written all the same, and
the four queues share one identifier space.  The property's claim is about the
requests *written*: `clearStep c ev` says that the request of `ev` is written
with an identifier that no request in flight on the connection bears
(`inFlightIds`: QoS 1 and QoS 2 publishes, subscribes, unsubscribes). -/

/-- Within each ack queue no two registered requests bear the same identifier,
in every state reached from a fresh client by any history (early
acknowledgements, repeated identifiers included): `Wait` ignores a
registration under an identifier that is in flight in its queue. -/
theorem C12_queue_ids_distinct (evs : List Ev) (k : Kind) :
    ((queue k (runState init evs)).map (·.id)).Nodup :=
  idsNodup_run init evs idsNodup_init k

/-- … and the invariant is inductive: preserved by every step from every state that has it. -/
theorem C12_queue_ids_distinct_step (c : C) (ev : Ev) (h : IdsNodup c) : IdsNodup (step c ev).1 :=
  idsNodup_step c ev h

/-- **One step, exactly.**  From a connected state whose identifiers in flight
are pairwise distinct, a call that needs an identifier leaves them pairwise
distinct *and* gets its request registered if and only if the identifier it
writes is not in flight: otherwise either the registration is dropped (same
ack queue - the request is on the wire and its completion can never fire) or
two requests in flight bear the identifier (another queue). -/
theorem C12_distinct_step_iff (c : C) (hc : c.connected = true) (h : AllDistinct c) (call : Api) (k : Kind)
    (id tag : Nat) (hreq : callReq call = some (k, id, tag)) :
    (AllDistinct (step c (.api call)).1 ∧ stepAccepted k c (.api call) ≠ []) ↔ assigned c id ∉ inFlightIds c :=
  api_clear_iff c hc h call k id tag hreq

/-- A request written with an identifier not in flight is registered, under
that identifier and with its completion tag - also when its acknowledgement
arrives before the registration - and the identifiers in flight stay pairwise
distinct. -/
theorem C12_clear_step (c : C) (hc : c.connected = true) (h : AllDistinct c) (ev : Ev) (call : Api)
    (hev : ev = .api call ∨ ∃ ack, ev = .apiEarlyAck call ack) (k : Kind) (id tag : Nat)
    (hreq : callReq call = some (k, id, tag)) (hclear : clearStep c ev = true) :
    AllDistinct (step c ev).1 ∧ ∃ r, stepAccepted k c ev = [r] ∧ r.id = assigned c id ∧ r.tag = tag :=
  ⟨allDistinct_step c ev h hclear, clear_registered c hc ev call hev k id tag hreq hclear⟩

/-- every identifier a caller supplies is not in flight on the connection when the call is made -/
def callerStep (c : C) : Ev → Bool
  | .api call | .apiEarlyAck call _ =>
    match callReq call with
    | some (_, id, _) => id == 0 || !c.connected || !(inFlightIds c).contains id
    | none => true
  | _ => true

def CallerClear (c : C) : List PEv → Bool
  | [] => true
  | .own ev :: xs => callerStep c ev && CallerClear (step c ev).1 xs
  | .others d :: xs => CallerClear { c with ctr := c.ctr + d } xs

/-- the property's claim, in its most favourable reading: as long as the caller
never supplies an identifier that is in flight, every request is written with
an identifier that is not in flight (so the identifiers of the requests in
flight are pairwise distinct and every request is registered: `C12_clear_step`) -/
def C12_inflight_ids_distinct_full : Prop :=
  ∀ xs : List PEv, CallerClear init xs = true → Clear init xs = true

/-- **C12, identifiers in flight are pairwise distinct (the part that holds).**
`Roomy ⟨c, []⟩ xs` (decidable, evaluated along the run with the ghost list of
the library-assigned identifiers in flight and the counter values that
produced them) admits a history iff at every call that needs an identifier

* caller-supplied: the identifier is not in flight;
* library-assigned: every library-assigned identifier in flight was produced
  fewer than 2^16 counter steps before the new one - i.e. fewer than 65535
  identifiers have been drawn in the whole process since
  (`C12_window_in_draws`) -, and the new identifier is not a caller-supplied
  one in flight.

From every state whose identifiers in flight are pairwise distinct, along every
admitted history - other connections drawing identifiers in between, early
acknowledgements included - every request is written with an identifier not in
flight, and the identifiers in flight are pairwise distinct at every point. -/
theorem C12_inflight_ids_distinct_partial (c : C) (h : AllDistinct c) (xs : List PEv)
    (hr : Roomy ⟨c, []⟩ xs = true) :
    Clear c xs = true ∧ ∀ a b, xs = a ++ b → AllDistinct (prunState c a) := by
  have hclear := roomy_clear ⟨c, []⟩ xs (fun b hb => by cases hb) hr
  refine ⟨hclear, ?_⟩
  rintro a b rfl
  rw [clear_append, Bool.and_eq_true] at hclear
  exact allDistinct_prun c a h hclear.1

/-- … in particular from a fresh client. -/
theorem C12_inflight_ids_distinct_partial_init (xs : List PEv) (hr : Roomy ⟨init, []⟩ xs = true) :
    Clear init xs = true ∧ ∀ a b, xs = a ++ b → AllDistinct (prunState init a) :=
  C12_inflight_ids_distinct_partial init allDistinct_init xs hr

/-- The window in counter steps is a window in identifiers drawn: between two
counter values `n ≤ n'` that produce identifiers lie fewer than 2^16 counter
steps exactly when fewer than 65535 identifiers were drawn after `n`, up to
and including `n'`; and two different counter values that produce the same
identifier are at least 2^16 steps - 65535 draws - apart. -/
theorem C12_window_in_draws (n n' : Nat) (hn : n % 65536 ≠ 0) :
    (n ≤ n' → (n' - n < 65536 ↔ drawn n' - drawn n < 65535)) ∧
    (n < n' → n % 65536 = n' % 65536 → 65536 ≤ n' - n ∧ 65535 ≤ drawn n' - drawn n) :=
  ⟨window_iff_draws n n' hn, same_id_far_apart n n'⟩

/-- non-vacuity: an admitted history across the wrap - counter advanced by other connections to
65533, five requests numbered by the library, one with a caller-supplied identifier, acknowledgements
in between, other connections drawing 60000 identifiers while requests stay in flight -/
def demoW : List PEv :=
  [.own (.connect (.connack false 0)), .others 65533,
   .own (.api (.publish { qos := 1, topic := [97], payload := [1] } 1)),
   .own (.api (.subscribe 0 [([97], 1)] 2 1)),
   .own (.api (.publish { qos := 2, topic := [98], payload := [2] } 3)),
   .own (.api (.publish { qos := 1, topic := [98], pktid := 700, payload := [] } 6)),
   .own (.peer (.puback 65534)),
   .others 60000,
   .own (.api (.unsubscribe 0 [[97]] 4)),
   .own (.apiEarlyAck (.publish { qos := 1, topic := [97], payload := [3] } 5) (.pubrec 1))]

example : Roomy ⟨init, []⟩ demoW = true ∧ inFlightIds (prunState init demoW) = [700, 60003, 1, 65535, 60002] ∧
    (prunState init demoW).ctr = 125539 := by
  decide

/-- **It is false of the code**, in two ways.

(1) A caller-supplied identifier meets the counter: a QoS 1 publish with the
caller's identifier 1, then a QoS 1 publish that leaves the identifier to the
library: the library assigns 1 as well.  Both PUBLISH packets are written with
identifier 1; `Wait` drops the second registration; the PUBACK completes the
first request only, the completion of the second never fires.

(2) No caller-supplied identifier at all: a request numbered by the library
stays in flight while 65535 identifiers are drawn in the process (here by other
connections: `others 65535`, the counter goes from 1 to 65536); the next
request of the connection - a SUBSCRIBE - gets the same identifier 1: two
requests in flight bear it. -/
theorem C12_inflight_ids_distinct_counterexample : ¬ C12_inflight_ids_distinct_full ∧
    (let evs : List Ev := [.connect (.connack false 0),
        .api (.publish { qos := 1, topic := [97], pktid := 1, payload := [1] } 1),
        .api (.publish { qos := 1, topic := [97], payload := [2] } 2),
        .peer (.puback 1), .peer (.puback 1)]
     runOuts init evs =
       [[.connected],
        [.wrote (.publish { qos := 1, topic := [97], pktid := 1, payload := [1] })],
        [.wrote (.publish { qos := 1, topic := [97], pktid := 1, payload := [2] })],
        [.complete 1 false], []] ∧
     (runState init (evs.take 3)).pub1ack.map (fun r => (r.id, r.tag)) = [(1, 1)]) ∧
    (let xs : List PEv := [.own (.connect (.connack false 0)),
        .own (.api (.publish { qos := 1, topic := [97], payload := [1] } 1)),
        .others 65535,
        .own (.api (.subscribe 0 [([97], 1)] 2 1))]
     CallerClear init xs = true ∧ Clear init xs = false ∧
     inFlightIds (prunState init xs) = [1, 1] ∧ (prunState init xs).ctr = 65537) := by
  refine ⟨fun h => ?_, by decide, by decide⟩
  exact absurd (h [.own (.connect (.connack false 0)),
        .own (.api (.publish { qos := 1, topic := [97], pktid := 1, payload := [1] } 1)),
        .own (.api (.publish { qos := 1, topic := [97], payload := [2] } 2))] (by decide)) (by decide)

/-! ## (d) refinement: the code-shaped model against the reference client

`Spec.Client.step` is the reference client written from MQTT 3.1.1 and the
property texts.  `RunMatch sos mos`: event by event the model's outputs `mos`
agree with the specification's `sos` after the canonical projection of the
driver (`EvMatch`: packets written and completions in order, literally -
except that a delivered message fixes callback, topic and payload only, and
`completeAny` leaves the error value open -, message callbacks as a multiset).
`Ok s evs` (decidable, evaluated along the *specification's* run) admits a
history iff every event is inside the recorded exclusions:

* the composite event `.apiEarlyAck call ack` is admitted iff `.api call` is and,
  after it, `.peer ack` is (there is no early-acknowledgement exclusion any
  more: E5 was repaired);
* filters and delivered topic names without empty levels and not beginning
  with `$` (`good`, B3), delivered names valid, QoS <= 2;
* QoS 1/2 publishes, subscribes, unsubscribes carry a caller-supplied non-zero
  identifier (`Spec.Client.step` tracks a request by the identifier on the
  event; of a library-assigned identifier the reference client demands only
  `Spec.Client.idAllowed` - non-zero, 16 bits, not in flight - and the
  specification stream knows such a request by a name, `Spec.Client.autoName`:
  section (e) has the model's side);
* and the peer keeps to the protocol where the property is silent: SUBACK
  return codes in {0, 1, 2, 0x80}, no PUBREC for an exchange whose PUBCOMP was
  already processed, filters of one Subscribe valid and pairwise different
  (see NOTES-bp4.md: outside these the two sides differ, counterexamples below). -/

/-- **C12/C20, refinement (the part that holds).**  For every admitted history
from a fresh client the model's outputs agree with the reference client's,
event by event, and the two end in related states. -/
theorem C12_refines_spec_partial (evs : List Ev) (hok : Ok {} evs = true) :
    RunMatch (specOuts {} evs) (runOuts init evs) ∧
    R (runState init evs) (evs.foldl (fun s ev => (Mqtt.Spec.Client.step s ev).1) {}) :=
  run_sim evs init {} R_init hok

/-- … and from every pair of related states (the relation is inductive). -/
theorem C12_refines_spec_step (c : C) (s : Mqtt.Spec.Client.S) (hR : R c s) (ev : Ev) (hok : okStep s ev = true) :
    R (step c ev).1 (Mqtt.Spec.Client.step s ev).1 ∧ EvMatch (Mqtt.Spec.Client.step s ev).2 (step c ev).2 :=
  step_sim c s hR ev hok

/-- the statement without the exclusions -/
def C12_refines_spec_full : Prop := ∀ evs : List Ev, RunMatch (specOuts {} evs) (runOuts init evs)

/-- non-vacuity: an admitted history exercising every kind of event - out-of-order PUBACKs, a QoS 2
publish with PUBREC/PUBCOMP, subscribe with a refused filter, inbound QoS 0/1/2 with a duplicate,
unsubscribe, ping (several outstanding pings: `demoP` below) -/
def demoD : List Ev :=
  [.connect (.connack true 0),
   .api (.publish { qos := 1, topic := [97], pktid := 1, payload := [1] } 11),
   .api (.publish { qos := 1, topic := [97, 47, 98], pktid := 2, payload := [2] } 12),
   .api (.subscribe 3 [([97, 47, 43], 1), ([98], 2), ([99, 47, 35], 0)] 13 9),
   .api (.publish { qos := 2, topic := [98], pktid := 4, payload := [7] } 14),
   .api (.publish { qos := 0, topic := [98], payload := [8] } 15),
   .peer (.puback 2),
   .peer (.pubrec 4),
   .peer (.puback 1),
   .peer (.suback 3 [1, 2, 128]),
   .peer (.publish { qos := 1, topic := [97, 47, 98], pktid := 100, payload := [1] }),
   .peer (.publish { qos := 2, topic := [98], pktid := 101, payload := [2] }),
   .peer (.publish { dup := true, qos := 2, topic := [98], pktid := 101, payload := [2] }),
   .peer (.publish { qos := 0, topic := [99, 47, 100], payload := [3] }),
   .peer (.pubrel 101),
   .peer (.pubcomp 4),
   .api (.unsubscribe 5 [[98], [98]] 16),
   .api (.ping 17),
   .peer (.unsuback 5),
   .peer (.publish { qos := 0, topic := [98], payload := [4] }),
   .peer .pingresp,
   .peer .pingreq]

example : Ok {} demoD = true := by decide

example : (runOuts init demoD).drop 8 =
    [[.complete 11 false, .complete 12 false],
     [.complete 13 true],
     [.wrote (.puback 100), .deliver 9 { qos := 1, topic := [97, 47, 98], pktid := 100, payload := [1] }],
     [.wrote (.pubrec 101)], [.wrote (.pubrec 101)],
     [],
     [.deliver 9 { qos := 2, topic := [98], pktid := 101, payload := [2] }, .wrote (.pubcomp 101)],
     [.complete 14 false],
     [.wrote (.unsubscribe 5 [[98]])],
     [.wrote .pingreq],
     [.complete 16 false],
     [],
     [.complete 17 false],
     [.wrote .pingresp]] := by decide

example : RunMatch (specOuts {} demoD) (runOuts init demoD) := (C12_refines_spec_partial demoD (by decide)).1

/-- Acknowledgements that arrive inside the window are admitted (there is no E5 hypothesis any
more): a QoS 1 publish whose PUBACK arrives inside its window behind another publish in flight (the
recorded witness of E5), an early SUBACK whose filters deliver at once, an early PINGRESP with a
ping outstanding - the model completes every request, in order, exactly as the reference client. -/
def demoE5 : List Ev :=
  [.connect (.connack false 0),
   .api (.publish { qos := 1, topic := [97], pktid := 9, payload := [] } 3),
   .apiEarlyAck (.publish { qos := 1, topic := [97], pktid := 2, payload := [1] } 4) (.puback 2),
   .peer (.puback 9),
   .apiEarlyAck (.subscribe 5 [([97, 47, 35], 1)] 6 8) (.suback 5 [1]),
   .peer (.publish { qos := 0, topic := [97, 47, 98], payload := [7] }),
   .api (.ping 10),
   .apiEarlyAck (.ping 11) .pingresp,
   .apiEarlyAck (.publish { qos := 2, topic := [98], pktid := 12, payload := [] } 13) (.pubcomp 12),
   .peer .pingresp]

theorem C12_refines_spec_early_acks :
    Ok {} demoE5 = true ∧ RunMatch (specOuts {} demoE5) (runOuts init demoE5) ∧
    runOuts init demoE5 =
      [[.connected],
       [.wrote (.publish { qos := 1, topic := [97], pktid := 9, payload := [] })],
       [.wrote (.publish { qos := 1, topic := [97], pktid := 2, payload := [1] })],
       [.complete 3 false, .complete 4 false],
       [.wrote (.subscribe 5 [([97, 47, 35], 1)]), .complete 6 false],
       [.deliver 8 { qos := 0, topic := [97, 47, 98], payload := [7] }],
       [.wrote .pingreq],
       [.wrote .pingreq, .complete 10 false],
       [.wrote (.publish { qos := 2, topic := [98], pktid := 12, payload := [] }), .complete 13 false],
       [.complete 11 false]] :=
  ⟨by decide, (C12_refines_spec_partial demoE5 (by decide)).1, by decide⟩

/-- Several outstanding pings are admitted (there is no ping hypothesis any more): three pings before
the first PINGRESP, PINGRESPs interleaved with another acknowledgement, a PINGRESP with nothing
outstanding - the model completes every ping, in call order, exactly as the reference client does. -/
def demoP : List Ev :=
  [.connect (.connack false 0), .api (.ping 1), .api (.ping 2),
   .api (.publish { qos := 1, topic := [97], pktid := 3, payload := [1] } 5),
   .api (.ping 4), .peer .pingresp, .peer (.puback 3), .peer .pingresp, .peer .pingresp, .peer .pingresp]

theorem C12_refines_spec_pings :
    Ok {} demoP = true ∧ RunMatch (specOuts {} demoP) (runOuts init demoP) ∧
    runOuts init demoP =
      [[.connected], [.wrote .pingreq], [.wrote .pingreq],
       [.wrote (.publish { qos := 1, topic := [97], pktid := 3, payload := [1] })],
       [.wrote .pingreq], [.complete 1 false], [.complete 5 false], [.complete 2 false], [.complete 4 false], []] :=
  ⟨by decide, (C12_refines_spec_partial demoP (by decide)).1, by decide⟩

/-- Overlapping filters within one request are admitted (there is no E9 hypothesis any more): a
request with the filters `a/+`, `a/b` and a second request with `a/#`; a delivered `a/b` (QoS 0, and
QoS 2 at its PUBREL) invokes each request's callback exactly once, in the model as in the reference
client. -/
def demoE9 : List Ev :=
  [.connect (.connack false 0), .api (.subscribe 1 [([97, 47, 43], 1), ([97, 47, 98], 1)] 5 9),
   .peer (.suback 1 [1, 1]), .api (.subscribe 2 [([97, 47, 35], 0)] 6 4), .peer (.suback 2 [0]),
   .peer (.publish { qos := 0, topic := [97, 47, 98], payload := [7] }),
   .peer (.publish { qos := 2, topic := [97, 47, 98], pktid := 100, payload := [8] }),
   .peer (.pubrel 100)]

theorem C12_refines_spec_overlapping_filters :
    Ok {} demoE9 = true ∧ RunMatch (specOuts {} demoE9) (runOuts init demoE9) ∧
    ((runOuts init demoE9).drop 5).map (fun o => ((deliveriesTo 9 o).length, (deliveriesTo 4 o).length)) =
      [(1, 1), (0, 0), (1, 1)] :=
  ⟨by decide, (C12_refines_spec_partial demoE9 (by decide)).1, by decide⟩

/-- B3 (`good`) is needed: the filter `/a` receives `x/a` in the model, not in the reference client. -/
theorem C12_refines_spec_B3_counterexample :
    ¬ RunMatch (specOuts {} [.connect (.connack false 0), .api (.subscribe 1 [([47, 97], 1)] 5 9),
        .peer (.suback 1 [1]), .peer (.publish { qos := 0, topic := [120, 47, 97], payload := [1] })])
      (runOuts init [.connect (.connack false 0), .api (.subscribe 1 [([47, 97], 1)] 5 9),
        .peer (.suback 1 [1]), .peer (.publish { qos := 0, topic := [120, 47, 97], payload := [1] })]) := by
  intro h
  exact absurd (runMatchB_of h) (by decide)

/-- A PUBREC arriving after the PUBCOMP of the same (still queued) exchange reverts the request to
non-terminal in the model (Core C "state regression", modelled as the code has it); the reference
client keeps it completed. -/
theorem C12_refines_spec_late_pubrec_counterexample :
    ¬ RunMatch (specOuts {} [.connect (.connack false 0),
        .api (.publish { qos := 2, topic := [97], pktid := 1, payload := [] } 1),
        .api (.publish { qos := 2, topic := [97], pktid := 2, payload := [] } 2),
        .peer (.pubcomp 2), .peer (.pubrec 2), .peer (.pubcomp 1)])
      (runOuts init [.connect (.connack false 0),
        .api (.publish { qos := 2, topic := [97], pktid := 1, payload := [] } 1),
        .api (.publish { qos := 2, topic := [97], pktid := 2, payload := [] } 2),
        .peer (.pubcomp 2), .peer (.pubrec 2), .peer (.pubcomp 1)]) := by
  intro h
  exact absurd (runMatchB_of h) (by decide)

/-- A SUBACK return code outside {0, 1, 2, 0x80} (here 3): the model reports an error to the
completion and installs nothing, the reference client reports success and holds the filter. -/
theorem C12_refines_spec_suback_code_counterexample :
    ¬ RunMatch (specOuts {} [.connect (.connack false 0), .api (.subscribe 1 [([97], 1)] 5 9), .peer (.suback 1 [3])])
      (runOuts init [.connect (.connack false 0), .api (.subscribe 1 [([97], 1)] 5 9), .peer (.suback 1 [3])]) := by
  intro h
  exact absurd (runMatchB_of h) (by decide)

/-- A library-assigned identifier: the reference client registers such a request under 0 and never
completes it, the model (and the code) complete it. -/
theorem C12_refines_spec_auto_id_counterexample :
    ¬ RunMatch (specOuts {} [.connect (.connack false 0),
        .api (.publish { qos := 1, topic := [97], payload := [] } 1), .peer (.puback 1)])
      (runOuts init [.connect (.connack false 0),
        .api (.publish { qos := 1, topic := [97], payload := [] } 1), .peer (.puback 1)]) := by
  intro h
  exact absurd (runMatchB_of h) (by decide)

theorem C12_refines_spec_full_counterexample : ¬ C12_refines_spec_full :=
  fun h => C12_refines_spec_B3_counterexample (h _)

/-! ## (f) why the acknowledgement waits: the two critical sections of `service.ackmu`

`Model/AckLock.lean` runs the sending calls and the processor as small-step programs over one
mutex: any number of senders (one acknowledged request each: `Lock · writeMessage ·
[verifAckWindow] · Wait · Unlock`), the processor (`next acknowledgement · Lock · Ack · Unlock ·
processAcked`), and a peer that sends acknowledgements bearing any identifier at any time.
The theorems quantify over every schedule (`sched : List Choice`, any length; a choice that is not
enabled is skipped).  What is proved is the ordering `Model/Client.step` gives the composite event
`.apiEarlyAck`; the programs are tied to the source by `C12_ack_lock_structure_is_source`. -/

section AckLock
open Mqtt.Model.AckLock Mqtt.Proofs.AckLock

/-- **The interleaving of E5 is unreachable.**  In every reachable state of the two programs of
the source, for any number of senders, any schedule and whatever the peer sends:

* no `Ackqueue.Ack` so far was performed while the request whose identifier it bears was written
  but not yet registered (`inWindow = false`): every mark happens after the registration or before
  the write of that request;
* an acknowledgement the peer sent after the request was written (`caused`) found the request
  registered (`found`): it is recorded, and `processAcked` completes the request;
* a completion ran only for a registered request;
* while a request is written and not yet registered, its sender holds the mutex. -/
theorem C12_ack_waits_for_registration (sched : List Choice) :
    let s := run senderProgram procProgram Mqtt.Model.AckLock.init sched
    (∀ m ∈ s.marks, m.inWindow = false ∧ (m.caused = true → m.found = true)) ∧
    (∀ i ∈ s.completed, s.registered i = true) ∧
    (∀ i, s.written i = true → s.registered i = false → s.holder = some (.sender i)) := by
  intro s
  have h := inv_reachable sched
  exact ⟨h.marks, h.compl, fun i hw hr => h.window_holds i hw hr⟩

/-- Mutual exclusion and the shape of the critical sections: in every reachable state a sender
holds the mutex exactly between its `Lock` and its `Unlock` - the request is written from the second
operation on and registered from the fourth on -, the processor holds it exactly around `Ack`, and
not while the completion callbacks run (`ppc = 4`: a callback may itself publish, subscribe or
ping, i.e. start a sender that takes the mutex). -/
theorem C12_ack_critical_sections (sched : List Choice) :
    let s := run senderProgram procProgram Mqtt.Model.AckLock.init sched
    (∀ i, s.holder = some (.sender i) ↔ (1 ≤ s.spc i ∧ s.spc i ≤ 4)) ∧
    (∀ i, s.written i = true ↔ 2 ≤ s.spc i) ∧ (∀ i, s.registered i = true ↔ 4 ≤ s.spc i) ∧
    (s.holder = some .proc ↔ (s.ppc = 2 ∨ s.ppc = 3)) ∧
    (s.ppc = 4 → s.holder ≠ some .proc) := by
  intro s
  have h := inv_reachable sched
  refine ⟨h.hold, h.wr, h.reg, h.phold, fun h4 e => ?_⟩
  have h2 : s.ppc = 2 ∨ s.ppc = 3 := h.phold.mp e
  omega

/-- non-vacuity, the case of E5: the acknowledgement of request 0 arrives inside the window; the
processor's `Lock` is not enabled until the sender has registered and unlocked; then the
acknowledgement finds the request and the completion runs.  Two more senders and a stray
acknowledgement (identifier 2, sent before request 2 is written: not found, nothing completes)
in between. -/
example :
    let s := run senderProgram procProgram Mqtt.Model.AckLock.init
      [.sender 0, .sender 0, .peer 0, .proc, .proc, .sender 1, .sender 0, .proc, .sender 0, .sender 0,
       .proc, .sender 1, .proc, .proc, .proc,
       .peer 2, .sender 1, .proc, .proc, .sender 1, .sender 1, .sender 1, .sender 1, .proc, .proc, .proc, .proc,
       .sender 2, .sender 2, .sender 2, .sender 2, .sender 2]
    s.marks = [⟨0, true, true, false⟩, ⟨2, false, false, false⟩] ∧ s.completed = [0] ∧
    s.registered 0 = true ∧ s.registered 1 = true ∧ s.registered 2 = true ∧ s.holder = none := by
  decide

/-- **The mutex is necessary.**  The programs of the code before the repair (no lock operations):
the request is written, its acknowledgement arrives and is marked before the registration - it
falls into the window, finds nothing, and the request, registered afterwards, never completes
(finding E5). -/
theorem C12_ack_window_unlocked_counterexample :
    let s := run senderProgramOld procProgramOld Mqtt.Model.AckLock.init
      [.sender 0, .peer 0, .proc, .proc, .sender 0, .sender 0, .proc]
    s.marks = [⟨0, true, false, true⟩] ∧ s.registered 0 = true ∧ s.completed = [] := by
  decide

/-- **The registration has to be inside the critical section.**  A sender that keeps the mutex
around the write but registers after `Unlock`: the acknowledgement gets the mutex between the
`Unlock` and the `Wait`, and is lost in the same way. -/
theorem C12_ack_wait_outside_counterexample :
    let s := run senderProgramWaitOutside procProgram Mqtt.Model.AckLock.init
      [.sender 0, .sender 0, .peer 0, .proc, .proc, .sender 0, .sender 0, .proc, .proc, .proc, .proc, .sender 0]
    s.marks = [⟨0, true, false, true⟩] ∧ s.registered 0 = true ∧ s.completed = [] := by
  decide

/-- **The two programs are the source's.**  The lock structure regenerated from
service/service.go and service/process.go on every run (which functions take `ackmu` around which
calls, in source order) is exactly the shape of `senderProgram` and `procProgram`: `subscribe`,
`unsubscribe`, `ping` and `publish` for QoS 1/2 are `Lock; defer Unlock; writeMessage;
verifAckWindow; Wait`; `ack` is `Lock; defer Unlock; Ackqueue.Ack` and the only caller of
`Ackqueue.Ack`; `processIncoming` calls `processAcked` only after `ack` has returned.  A change that
removes the mutex, moves a `Wait` or `processAcked` across its boundary, adds an explicit `Unlock`,
or registers / acknowledges somewhere else makes this theorem false. -/
theorem C12_ack_lock_structure_is_source :
    ((∀ name ∈ ["subscribe", "unsubscribe", "ping"],
        Mqtt.Generated.ackSenders.lookup name = deferredShape (senderProgram.map SOp.code)) ∧
      publishInlined "QosAtLeastOnce" = deferredShape (senderProgram.map SOp.code) ∧
      publishInlined "QosExactlyOnce" = deferredShape (senderProgram.map SOp.code) ∧
      publishQos0 = some [3, 4, 8] ∧
      Mqtt.Generated.ackSendPublishCallers = ["publish", "publish"] ∧
      Mqtt.Generated.ackLockSites = ["ack", "ping", "publish", "subscribe", "unsubscribe"] ∧
      Mqtt.Generated.ackUnlockSites = [] ∧
      Mqtt.Generated.ackWaitSites =
        ["ping", "processPublish", "sendPublish", "sendPublish", "subscribe", "unsubscribe"]) ∧
    (some Mqtt.Generated.ackHelper = deferredShape ((procProgram.drop 1).dropLast.map POp.code) ∧
      Mqtt.Generated.ackAckSites = ["ack"] ∧
      Mqtt.Generated.ackProcessIncomingOutside = 0 ∧ Mqtt.Generated.ackIrregular = 0 ∧
      (∀ c ∈ Mqtt.Generated.ackProcessIncoming, c.2.head? = some 10 ∧ c.2.tail.all (fun x => x == 11 || x == 3)) ∧
      (∀ name ∈ ["PubackMessage", "PubcompMessage", "SubackMessage", "UnsubackMessage", "PingrespMessage"],
        Mqtt.Generated.ackProcessIncoming.lookup name = some [10, 11])) := by
  have hs := facts_senders
  have hp := facts_processor
  obtain ⟨s1, s2, s3, s4, _, _, s7, s8, _, s10, s11, _⟩ := hs
  obtain ⟨p1, p2, _, _, p5, _, p7, _, p9, p10⟩ := hp
  exact ⟨⟨s1, s2, s3, s4, s7, s8, s10, s11⟩, p1, p2, p5, p7, p9, p10⟩

end AckLock

/-! ## (g) the ack queues of the client model are `sessions.Ackqueue`

The client model keeps its five identifier-keyed queues (`pub1ack`, `pub2out`, `pub2in`, `suback`,
`unsuback`: `QKind`) as lists of `Req` with `Queue.wait` / `Queue.ack` / `Queue.acked`, and the ping
FIFO of `Pingack` as a list of `(state, tag)` with `pingAck` / `pingAcked`.  The code keeps six
`sessions.Ackqueue` objects (ring buffer + index map + ping FIFO, `Model/AckQueue.lean`).
`Proofs/ClientQueues.lean` has the vocabulary:

* `COp` - `wait id tag pub topics cb` (= `Queue.wait` of the request as the model registers it),
  `ack t id codes`, `acked`; `cstep` / `crun` the list semantics; `toOp cd k` the same call on the
  `Ackqueue` (`Wait` with the message type and QoS of queue `k`, `Ack` with type, identifier, bytes);
* `proj cd k` - the entry a request stands for; `Coding` (`enc`, `ackb`, `clo`) supplies what the
  real queue stores in another form: the bytes of the request (`Msgbuf`), the bytes of the
  acknowledgement (`Ackbuf`; the model keeps the type and, of a SUBACK, the return codes), the
  `OnComplete` value (the model keeps the completion tag and the message callback).  The theorems
  hold for *every* `Coding`; `C12_queue_decodes` adds what is assumed for the way back;
* `POp` (`ping tag`, `resp`, `acked`), `pstep` / `prun`, `toPOp`, `pproj` for the pings;
* `evOps k c ev` / `histOps`, `evPOps` / `histPOps` - the calls a client event makes on a queue.

Not represented on the client's side: `Wait` of a request whose `Encode` fails (`enc = none` in
`Model.AckQueue.insert`: nothing is stored) - the client model has no such outcome, `toOp` always
passes `some` bytes (for the messages the API builds, `C03_reachable_encode_succeeds`). -/

section Queues
open Mqtt.Proofs.ClientQueues
open Mqtt.Spec

/-- **(g), simulation.**  On every list, each operation of the client model is the FIFO
specification's operation on the projected queue: `Queue.wait` is `register` (a registration under
an identifier that is in flight is dropped), `Queue.ack` with an identifier-bearing type is `ackId`
(an unknown identifier changes nothing), `Queue.acked` is `collect` (the maximal prefix of requests
whose last acknowledgement ends the exchange - the model's `terminal`, from the regenerated
`ackedReleaseStates`, is the protocol's); and so is every history of them, outputs included. -/
theorem C12_queue_is_fifo (cd : Coding) (k : QKind) (q : Queue) :
    (∀ pg id tag pub topics cb,
      Fifo.register ⟨q.map (proj cd k), pg⟩ ⟨k.mtype, 0, id, cd.enc id pub topics, [], cd.clo tag cb⟩ =
        ⟨(q.wait (mkReq id tag pub topics cb)).map (proj cd k), pg⟩) ∧
    (∀ pg t id codes, Fifo.isIdAck t = true →
      Fifo.ackId ⟨q.map (proj cd k), pg⟩ t id (cd.ackb t id codes) = ⟨(q.ack t id codes).map (proj cd k), pg⟩) ∧
    (∀ pg, Fifo.collect ⟨q.map (proj cd k), pg⟩ =
      (⟨q.acked.1.map (proj cd k), pg⟩, q.acked.2.map (proj cd k))) ∧
    (∀ t, terminal t = Fifo.terminal t) ∧
    (∀ ops : List COp, OkOps ops →
      (Fifo.run ⟨q.map (proj cd k), []⟩ (ops.map (toOp cd k))).1 = ⟨(crun q ops).1.map (proj cd k), []⟩ ∧
      (Fifo.run ⟨q.map (proj cd k), []⟩ (ops.map (toOp cd k))).2 =
        (List.zip (crun q ops).2 ops).map (fun x => cout cd k x.1 x.2)) :=
  ⟨fun pg id tag pub topics cb => sim_register cd k q pg id tag pub topics cb,
   fun pg t id codes ht => sim_ackId cd k q pg t id codes ht,
   fun pg => sim_collect cd k q pg, terminal_eq, fun ops h => sim_run cd k q ops h⟩

/-- **(g), composed with C13: each of the five queues is an `Ackqueue`.**  For every queue kind,
every `Coding` and every history `ops` of `wait` / `ack` / `acked` operations (`OkOps`: the `ack`s
bear one of the six identifier-carrying types - all the client role ever passes, `C12_queue_ops`),
starting from the queue a session creates: the abstraction of the ring-based ack queue after the
corresponding `Wait` / `Ack` / `Acked` calls *is* the projection of the list the client model holds,
every `Acked` hands back the projection of the requests the list releases, and the object's ping
FIFO stays empty (so the "answered pings first" part of `Acked()`'s result is always empty here). -/
theorem C12_queue_is_ackqueue (cd : Coding) (k : QKind) (ops : List COp) (hops : OkOps ops) :
    Mqtt.Proofs.AckQueue.abs (Mqtt.Model.AckQueue.run Mqtt.Model.AckQueue.init (ops.map (toOp cd k))).1 =
      ⟨(crun [] ops).1.map (proj cd k), []⟩ ∧
    (Mqtt.Model.AckQueue.run Mqtt.Model.AckQueue.init (ops.map (toOp cd k))).2.map C13.outAbs =
      (List.zip (crun [] ops).2 ops).map (fun x => cout cd k x.1 x.2) := by
  obtain ⟨h1, h2⟩ := C13.C13_refines_init (ops.map (toOp cd k))
  obtain ⟨s1, s2⟩ := sim_run cd k [] ops hops
  exact ⟨h1.trans s1, h2.trans s2⟩

/-- **(g), the ping FIFO is the `Ackqueue` `Pingack`.**  For every history of `ping` / `resp` /
`acked` operations (no side condition), starting from the queue a session creates: the ping FIFO of
the ring-based ack queue after the corresponding `Wait(PINGREQ)` / `Ack(PINGRESP)` / `Acked` calls is
the projection of the list the client model holds (`preq`, `presp`: the bytes of a PINGREQ and of a
PINGRESP), every `Acked` hands back the projection of the pings the list releases, and the ring part
of the object stays empty. -/
theorem C12_pings_are_ackqueue (preq presp : List UInt8) (ops : List POp) :
    Mqtt.Proofs.AckQueue.abs (Mqtt.Model.AckQueue.run Mqtt.Model.AckQueue.init (ops.map (toPOp preq presp))).1 =
      ⟨[], (prun [] ops).1.map (pproj preq presp)⟩ ∧
    (Mqtt.Model.AckQueue.run Mqtt.Model.AckQueue.init (ops.map (toPOp preq presp))).2.map C13.outAbs =
      (List.zip (prun [] ops).2 ops).map (fun x => pout preq presp x.1 x.2) := by
  obtain ⟨h1, h2⟩ := C13.C13_refines_init (ops.map (toPOp preq presp))
  obtain ⟨s1, s2⟩ := psim_run preq presp [] ops
  exact ⟨h1.trans s1, h2.trans s2⟩

/-- **The order inside `Acked()`'s result is never observed.**  `Acked()` returns the answered pings
first, then the released ring entries.  The client role registers pings in `Pingack` only and
identified requests in the other five objects only, so in every state any of the six objects reaches
one of the two segments of the next `Acked()` is empty. -/
theorem C12_acked_order_unobserved (cd : Coding) (k : QKind) (ops : List COp) (hops : OkOps ops)
    (preq presp : List UInt8) (pops : List POp) :
    (Fifo.collectPings (Mqtt.Proofs.AckQueue.abs
      (Mqtt.Model.AckQueue.run Mqtt.Model.AckQueue.init (ops.map (toOp cd k))).1)).2 = [] ∧
    (Fifo.collect (Mqtt.Proofs.AckQueue.abs
      (Mqtt.Model.AckQueue.run Mqtt.Model.AckQueue.init (pops.map (toPOp preq presp))).1)).2 = [] := by
  rw [(C12_queue_is_ackqueue cd k ops hops).1, (C12_pings_are_ackqueue preq presp pops).1]
  exact ⟨rfl, rfl⟩

/-- **What the client does to its queues per event** is `evOps k c ev` (`evPOps c ev` for the pings),
in every state, for every event (the composite early-acknowledgement event included): the API calls
end in one `Wait` on the queue of their kind (`regOps`; QoS 0 registers nothing); `processIncoming`
makes one `Wait` (inbound QoS 2 PUBLISH), one `Ack` (PUBREC) or one `Ack` followed by `Acked`
(`peerOps`); nothing happens before `Connect` has succeeded.  All these calls satisfy `OkOps` and
`TidyOps`.  The requests the model hands to its completion wrappers (to `onPublish` for the inbound
queue) are the outputs of those calls. -/
theorem C12_queue_ops (k : QKind) (c : C) (ev : Ev) (p : Packet) (id : Nat) :
    qof k (step c ev).1 = (crun (qof k c) (evOps k c ev)).1 ∧
    OkOps (evOps k c ev) ∧ TidyOps (evOps k c ev) ∧
    (step c ev).1.pings = (prun c.pings (evPOps c ev)).1 ∧
    (∀ kk : Kind, peerReleased kk c p = relOf (ofKind kk) c p) ∧
    peer c (.pubrel id) =
      ({ c with pub2in := (crun c.pub2in (peerOps .pub2in (.pubrel id))).1 },
       (relOf .pub2in c (.pubrel id)).flatMap
          (fun r => match r.pub with
            | some pb => onPublish { c with pub2in := (crun c.pub2in (peerOps .pub2in (.pubrel id))).1 } pb
            | none => []) ++
        [.wrote (.pubcomp id)]) ∧
    peer c .pingresp =
      ({ c with pings := (prun c.pings (peerPOps .pingresp)).1 },
       (pingRelOf c .pingresp).flatMap (fun e => completeOut e.2 false)) :=
  ⟨(step_qof k c ev).1, (step_qof k c ev).2, evOps_tidy k c ev, step_pings_ops c ev,
   (peer_released c p id).1, (peer_released c p id).2.1, (peer_released c p id).2.2⟩

/-- **(g), end to end.**  For *every* history of client events (API calls, packets from the peer,
early acknowledgements; no hypothesis), every `Coding` and every queue kind: the list the client
model holds after the history is - under `proj` - the abstraction of the ring-based `Ackqueue`
driven from its initial state by the `Wait` / `Ack` / `Acked` calls the history makes on that queue;
and the ping list is the ping FIFO of `Pingack` driven by the history's ping calls. -/
theorem C12_client_queues_are_ackqueues (cd : Coding) (preq presp : List UInt8) (evs : List Ev) :
    (∀ k : QKind,
      Mqtt.Proofs.AckQueue.abs
        (Mqtt.Model.AckQueue.run Mqtt.Model.AckQueue.init ((histOps k init evs).map (toOp cd k))).1 =
        ⟨(qof k (runState init evs)).map (proj cd k), []⟩) ∧
    Mqtt.Proofs.AckQueue.abs
      (Mqtt.Model.AckQueue.run Mqtt.Model.AckQueue.init ((histPOps init evs).map (toPOp preq presp))).1 =
      ⟨[], (runState init evs).pings.map (pproj preq presp)⟩ := by
  refine ⟨fun k => ?_, ?_⟩
  · obtain ⟨h1, h2⟩ := run_qof k init evs
    have hq : qof k init = [] := by cases k <;> rfl
    rw [hq] at h1
    rw [(C12_queue_is_ackqueue cd k _ h2).1, h1]
  · rw [(C12_pings_are_ackqueue preq presp _).1, run_pings_ops]; rfl

/-- **Back through the bytes.**  `processAcked` decodes `Msgbuf` and `Ackbuf` again; the client
model keeps the decoded request and the return codes.  Under the round-trip hypothesis
`RoundTrip cd dc` (decoding the bytes of a request gives back identifier, PUBLISH fields and
filters; decoding a SUBACK gives back its return codes, other acknowledgements have none; an
`OnComplete` value determines its callbacks) nothing is lost: for every history of client events,
decoding the entries of the ring-based queue gives exactly the list the client model holds, and
decoding what any `Acked` of any history of tidy operations hands back gives exactly the requests
the list releases. -/
theorem C12_queue_decodes (cd : Coding) (dc : Decoding) (rt : RoundTrip cd dc) (k : QKind) :
    (∀ evs : List Ev,
      (Mqtt.Proofs.AckQueue.abs
        (Mqtt.Model.AckQueue.run Mqtt.Model.AckQueue.init ((histOps k init evs).map (toOp cd k))).1).q.map
          (unproj dc) = qof k (runState init evs)) ∧
    (∀ ops : List COp, TidyOps ops →
      ∀ l ∈ (crun [] ops).2, (l.map (proj cd k)).map (unproj dc) = l) := by
  constructor
  · intro evs
    obtain ⟨h1, _⟩ := run_qof k init evs
    rw [(C12_client_queues_are_ackqueues cd [] [] evs).1 k]
    have ht := (tidy_crun (q := []) (by intro r hr; cases hr) _ (histOps_tidy k init evs)).1
    have hq : qof k init = [] := by cases k <;> rfl
    rw [hq] at h1
    rw [← h1] at ht
    exact map_unproj_proj rt k _ ht
  · intro ops hops l hl
    exact map_unproj_proj rt k l ((tidy_crun (q := []) (by intro r hr; cases hr) ops hops).2 l hl)

/-- **C13's exactly-once FIFO hand-back, on the client's queues.**  Over any history of
operations, the requests `Wait` accepted (`C13.accepted`: a duplicate registration is not among
them) are the requests `Acked` handed back so far followed by the projection of the list the client
model still holds - compared on packet type, identifier, request bytes and `OnComplete` value. -/
theorem C12_queue_exactly_once (cd : Coding) (k : QKind) (ops : List COp) (hops : OkOps ops) :
    (C13.released Fifo.empty (ops.map (toOp cd k)) ++ (crun [] ops).1.map (proj cd k)).map C13.key =
      (C13.accepted Fifo.empty (ops.map (toOp cd k))).map C13.key := by
  have h := C13.C13_exactly_once_fifo Fifo.empty (ops.map (toOp cd k))
  have s1 := (sim_run cd k [] ops hops).1
  have he : (⟨([] : Queue).map (proj cd k), []⟩ : Fifo.S) = Fifo.empty := rfl
  rw [he] at s1
  rw [s1] at h
  simpa [Fifo.empty] using h

/-- **An acknowledgement for an identifier that is not in flight is a no-op on both sides**: the
list is unchanged, and the whole state of the ring-based queue (ring, index map, counters) is
unchanged. -/
theorem C12_queue_unknown_ack_noop (cd : Coding) (k : QKind) (ops : List COp) (hops : OkOps ops)
    (t id : Nat) (codes : List Nat) (ht : Fifo.isIdAck t = true)
    (hid : ∀ r ∈ (crun [] ops).1, r.id ≠ id) :
    (crun [] ops).1.ack t id codes = (crun [] ops).1 ∧
    (Mqtt.Model.AckQueue.step
      (Mqtt.Model.AckQueue.run Mqtt.Model.AckQueue.init (ops.map (toOp cd k))).1
      (.ack t id (cd.ackb t id codes))).1 =
      (Mqtt.Model.AckQueue.run Mqtt.Model.AckQueue.init (ops.map (toOp cd k))).1 := by
  constructor
  · unfold Queue.ack
    conv => rhs; rw [← List.map_id (crun [] ops).1]
    apply List.map_congr_left
    intro e he
    have : (e.id == id) = false := by simpa using hid e he
    simp [this]
  · have hinv := (C13.C13_refines _ C13.fullInv_init (ops.map (toOp cd k))).1
    apply C13.C13_unknown_ack_noop _ hinv t id _ ht
    rw [(C12_queue_is_ackqueue cd k ops hops).1]
    intro e he
    obtain ⟨r, hr, rfl⟩ := List.mem_map.mp he
    exact hid r hr

/-- the side condition `OkOps` is needed for the operation vocabulary at large (not for the client,
which never does this): with type PINGRESP, `Queue.ack` marks the request bearing the identifier
while `Ackqueue.Ack` looks for a ping - the request is released on the list, not by the ring -/
theorem C12_queue_is_ackqueue_other_type_counterexample :
    let cd : Coding := ⟨fun _ _ _ => [], fun _ _ _ => [], fun t _ => t⟩
    let ops : List COp := [.wait 1 7 none [] 0, .ack 13 1 [], .ack 4 1 [], .ack 13 1 [], .acked]
    ¬ OkOps ops ∧
    (crun [] ops).2.map (·.map (·.id)) = [[], [], [], [], []] ∧
    (Mqtt.Model.AckQueue.run Mqtt.Model.AckQueue.init (ops.map (toOp cd .pub1ack))).2.map C13.outAbs =
      [.ok true, .ok true, .ok true, .ok true, .released [⟨3, 4, 1, [], [], 7⟩]] := by
  refine ⟨by decide, by decide, by decide +kernel⟩

/-- non-vacuity: QoS 1 publishes 1, 2, 3 registered, 2 registered again with another payload
(dropped on both sides), PUBACK 3 and 2 out of order (nothing released: 1 is older), a PUBACK for 9
(not in flight), PUBACK 1: all three handed back in registration order, 2 with its *first* payload -/
example :
    let cd : Coding := ⟨fun id pub _ => [id.toUInt8] ++ (pub.map (·.payload)).getD [],
                        fun t id codes => [t.toUInt8, id.toUInt8] ++ codes.map (·.toUInt8), fun t cb => 100 * cb + t⟩
    let p : Nat → Nat → Pub := fun id x => { qos := 1, topic := [97], pktid := id, payload := [x.toUInt8] }
    let ops : List COp :=
      [.wait 1 11 (some (p 1 1)) [] 0, .wait 2 12 (some (p 2 2)) [] 0, .wait 3 13 (some (p 3 3)) [] 0,
       .wait 2 14 (some (p 2 9)) [] 0, .ack 4 3 [], .acked, .ack 4 2 [], .acked, .ack 4 9 [], .ack 4 1 [], .acked]
    OkOps ops ∧
    (crun [] ops).2.map (·.map (fun r => (r.id, r.tag, r.state))) =
      [[], [], [], [], [], [], [], [], [], [], [(1, 11, 4), (2, 12, 4), (3, 13, 4)]] ∧
    (Mqtt.Model.AckQueue.run Mqtt.Model.AckQueue.init (ops.map (toOp cd .pub1ack))).2.map C13.outAbs =
      [.ok true, .ok true, .ok true, .ok true, .ok true, .released [], .ok true, .released [], .ok true, .ok true,
       .released [⟨3, 4, 1, [1, 1], [4, 1], 11⟩, ⟨3, 4, 2, [2, 2], [4, 2], 12⟩, ⟨3, 4, 3, [3, 3], [4, 3], 13⟩]] := by
  refine ⟨by decide, by decide, by decide +kernel⟩

/-- a SUBACK's return codes travel as bytes; a QoS 2 publish sees PUBREC, PUBCOMP, and a late PUBREC
that takes it back to non-terminal on both sides (the state regression of Core C) before the final
PUBCOMP -/
example :
    let cd : Coding := ⟨fun id _ topics => [id.toUInt8] ++ topics.map (fun t => t.2.toUInt8),
                        fun t id codes => [t.toUInt8, id.toUInt8] ++ codes.map (·.toUInt8), fun t cb => 100 * cb + t⟩
    let sops : List COp := [.wait 4 15 none [([97, 47, 43], 1), ([98], 0)] 9, .ack 9 4 [1, 128], .acked]
    let p : Pub := { qos := 2, topic := [97], pktid := 5, payload := [] }
    let qops : List COp := [.wait 5 16 (some p) [] 0, .wait 6 17 (some p) [] 0, .ack 5 6 [], .ack 7 6 [], .ack 5 6 [],
       .ack 7 5 [], .acked, .ack 7 6 [], .acked]
    (Mqtt.Model.AckQueue.run Mqtt.Model.AckQueue.init (sops.map (toOp cd .suback))).2.map C13.outAbs =
      [.ok true, .ok true, .released [⟨8, 9, 4, [4, 1, 0], [9, 4, 1, 128], 915⟩]] ∧
    (crun [] sops).2.map (·.map (fun r => (r.id, r.codes))) = [[], [], [(4, [1, 128])]] ∧
    (crun [] qops).2.map (·.map (fun r => (r.id, r.state))) = [[], [], [], [], [], [], [(5, 7)], [], [(6, 7)]] ∧
    (Mqtt.Model.AckQueue.run Mqtt.Model.AckQueue.init (qops.map (toOp cd .pub2out))).2.map C13.outAbs =
      [.ok true, .ok true, .ok true, .ok true, .ok true, .ok true, .released [⟨3, 7, 5, [5], [7, 5], 16⟩],
       .ok true, .released [⟨3, 7, 6, [6], [7, 6], 17⟩]] := by
  refine ⟨by decide +kernel, by decide, by decide, by decide +kernel⟩

/-- three pings, PINGRESPs and collects interleaved, a PINGRESP with nothing outstanding -/
example :
    let ops : List POp := [.ping 1, .ping 2, .resp, .ping 3, .resp, .acked, .resp, .resp, .acked, .acked]
    (prun [] ops).2 = [[], [], [], [], [], [(13, 1), (13, 2)], [], [], [(13, 3)], []] ∧
    (Mqtt.Model.AckQueue.run Mqtt.Model.AckQueue.init (ops.map (toPOp [0xc0, 0] [0xd0, 0]))).2.map C13.outAbs =
      [.ok true, .ok true, .ok true, .ok true, .ok true,
       .released [⟨12, 13, 0, [0xc0, 0], [0xd0, 0], 1⟩, ⟨12, 13, 0, [0xc0, 0], [0xd0, 0], 2⟩],
       .ok true, .ok true, .released [⟨12, 13, 0, [0xc0, 0], [0xd0, 0], 3⟩], .released []] := by
  refine ⟨by decide, by decide +kernel⟩

/-- the calls the history `demoC` (out-of-order PUBACKs, a re-used identifier) makes on `Pub1ack`
and on `Pub2out` -/
example :
    (histOps .pub1ack init demoC).length = 8 ∧
    (histOps .pub2out init demoC).length = 4 ∧
    OkOps (histOps .pub1ack init demoC) ∧
    (qof .pub1ack (runState init demoC)).map (·.id) = [3, 1] := by
  decide

end Queues

end Mqtt.Properties.C12
