/-
C09 — property theorems (under construction; see DESIGN.md section 8).
-/
import Mqtt.Model.Broker
import Mqtt.Spec.Broker

namespace Mqtt.Properties.C09
end Mqtt.Properties.C09
