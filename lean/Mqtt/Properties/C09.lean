/-
C09 — The will is published exactly when the connection ends without DISCONNECT.

Property theorems only (helper lemmas: `Proofs/BrokerLife*.lean`).  Model:
`Model/Broker.lean` — `first` (`Session.Init/Update` build the will from the
CONNECT), `packet … .disconnect` (clears the will flag, then `stop`), `stop`
(every other end of a connection: peer close, keep-alive expiry, protocol
error).  The theorems hold for every broker state in which the connection is
live and its session reference resolves; `Inv` (kept by every event, so true of
every state reachable from the initial one) guarantees the latter.
-/
import Mqtt.Proofs.BrokerLifeWillKept
import Mqtt.Proofs.BrokerRefineCor
import Mqtt.Proofs.BrokerRefineFail
import Mqtt.Proofs.BrokerRefineCorX

namespace Mqtt.Properties.C09
open Mqtt.Iface.Broker Mqtt.Model.Broker Mqtt.Proofs.BrokerLife

/-! ### 0. reachable states -/

/-- The invariant holds initially and is kept by every event. -/
theorem C09_inv (b : B) (e : Ev) : Inv ({} : B) ∧ (Inv b → Inv (step b e).1) :=
  ⟨inv_init, fun h => inv_step h e⟩

/-- In every state reachable from the initial one, a live connection has a
session object. -/
theorem C09_live_has_session (evs : List Ev) (c : Nat) (h : (run {} evs).1.alive c = true) :
    ∃ cn s, (run {} evs).1.getConn c = some cn ∧ cn.alive = true ∧ (run {} evs).1.getSess cn.sess = some s :=
  (inv_reachable evs).live h

/-! ### 1. DISCONNECT: never a will -/

/-- A DISCONNECT packet on a live connection produces the close of that
connection and nothing else — no PUBLISH to anybody, no callback — whatever will
the session holds; the connection is not live afterwards, so its later socket
close (`stop`) and any further packet produce nothing either. -/
theorem C09_disconnect_no_will (b : B) (c : Nat) (cn : Conn) (s : Sess)
    (hc : b.getConn c = some cn) (ha : cn.alive = true) (hs : b.getSess cn.sess = some s) :
    (packet b c .disconnect).2 = [.closed c] ∧
    (packet b c .disconnect).1.alive c = false ∧
    stop (packet b c .disconnect).1 c = ((packet b c .disconnect).1, []) ∧
    ∀ p, packet (packet b c .disconnect).1 c p = ((packet b c .disconnect).1, []) := by
  have hd : (packet b c .disconnect).1.alive c = false := by
    rw [packet_disconnect_eq b c cn s hc ha hs]; exact stop_not_alive _ c
  exact ⟨packet_disconnect b c cn s hc ha hs, hd, stop_dead _ c hd, fun p => packet_dead _ c p hd⟩

/-- the same for every reachable state -/
theorem C09_disconnect_no_will_reachable (evs : List Ev) (c : Nat) (h : (run {} evs).1.alive c = true) :
    (packet (run {} evs).1 c .disconnect).2 = [.closed c] := by
  obtain ⟨cn, s, hc, ha, hs⟩ := (inv_reachable evs).live h
  exact packet_disconnect _ c cn s hc ha hs

/-- non-vacuity: connection 1 holds a will on "w" to which connection 2 and a
callback listen; DISCONNECT, then the socket close: only the close is emitted. -/
example :
    Ex.base2.alive 1 = true ∧
    (Ex.base2.getSess 1).map (fun s => (s.willFlag, s.will.map (·.p.topic))) = some (true, some Ex.tW) ∧
    (run Ex.base2 [.packet 1 .disconnect, .close 1]).2 = [[.closed 1], []] := by decide

/-! ### 2. any other end: the will, exactly once -/

/-- `stop` (network drop, keep-alive expiry, protocol error) on a live connection
whose session has the will flag and will message `w`: the output is the close
followed by exactly the outputs of the normal publish path (`onPublish`: retain
step, subscriber lookup, fan-out) for `w`, in the state where `c` is already
marked closed and its subscriptions are removed.  Afterwards the connection is
not live: a second `stop` and any packet on `c` emit nothing and change nothing,
so the will is published once. -/
theorem C09_will_published_once (b : B) (c : Nat) (cn : Conn) (s : Sess) (w : Msg)
    (hc : b.getConn c = some cn) (ha : cn.alive = true) (hs : b.getSess cn.sess = some s)
    (hf : s.willFlag = true) (hw : s.will = some w) :
    (stop b c).2 = .closed c :: (onPublish (stopBase b c s) w).2.2.1 ∧
    (stop b c).1.alive c = false ∧
    stop (stop b c).1 c = ((stop b c).1, []) ∧
    ∀ p, packet (stop b c).1 c p = ((stop b c).1, []) :=
  ⟨stop_out_will b c cn s w hc ha hs hf hw, stop_not_alive b c, stop_dead _ c (stop_not_alive b c),
    fun p => packet_dead _ c p (stop_not_alive b c)⟩

/-- Without a will flag (no will in the CONNECT, or cleared by DISCONNECT) the
end of the connection publishes nothing. -/
theorem C09_no_will_no_publish (b : B) (c : Nat) (cn : Conn) (s : Sess)
    (hc : b.getConn c = some cn) (ha : cn.alive = true) (hs : b.getSess cn.sess = some s)
    (hf : s.willFlag = false) :
    (stop b c).2 = [.closed c] :=
  stop_out_nowill b c cn s hc ha hs hf

/-- `stopBase` is the state the will meets: other connections are as live as
before, `c` is not, nothing else but the tries differs. -/
theorem C09_stopBase (b : B) (c : Nat) (s : Sess) :
    (stopBase b c s).alive c = false ∧ (∀ d, d ≠ c → (stopBase b c s).alive d = b.alive d) ∧
    (stopBase b c s).sess = b.sess ∧ (stopBase b c s).store = b.store ∧ (stopBase b c s).ctr = b.ctr ∧
    (stopBase b c s).topics = unsubAll b.topics c s.topics :=
  ⟨markDead_alive_self b c, fun d hd => markDead_alive_ne b c d hd, rfl, rfl, rfl, rfl⟩

/-- non-vacuity: the peer of connection 1 drops.  Its will (topic "w", payload
[1], QoS 1) goes to connection 2 at QoS 1 and to the callback at QoS 0, once;
a second close and a late packet are silent. -/
example :
    (run Ex.base2 [.close 1, .close 1, .packet 1 .pingreq]).2 =
      [[.closed 1,
        .send 2 (.publish { qos := 1, topic := Ex.tW, pktid := 2, payload := [1] }),
        .call 1000 { qos := 0, topic := Ex.tW, pktid := 2, payload := [1] }], [], []] := by decide

/-! ### 3. the will is the one of the current CONNECT -/

/-- After an accepted CONNECT — on a new session object or on a resumed one —
the connection is live, its session object resolves, and that object's will
flag and will message are those built from THIS CONNECT (`initWill`), not from
any earlier one. -/
theorem C09_will_is_current_connect (b : B) (c : Nat) (req : Connect) (authOk : Bool)
    (h : ∃ sp, Out.send c (.connack sp 0) ∈ (first b c (.connect req) authOk).2) :
    ∃ cn s, (first b c (.connect req) authOk).1.getConn c = some cn ∧ cn.alive = true ∧
      (first b c (.connect req) authOk).1.getSess cn.sess = some s ∧
      s.willFlag = req.will.isSome ∧ s.will = initWill req := by
  have ha := (accepts_iff_emits b c (.connect req) authOk).mpr h
  rw [first_accepted b c req authOk ha]
  exact ⟨_, _, accepted_getConn b c req, rfl, accepted_getSess b c req, (acceptedSess_will b c req).1,
    (acceptedSess_will b c req).2⟩

/-- The will message built from a CONNECT carries its will topic, payload, QoS
and retain flag (for a will topic that is a valid topic name; otherwise
`SetTopic` refuses and the message keeps an empty topic). -/
theorem C09_initWill_fields (req : Connect) (w : Will) (h : req.will = some w) (hv : validTopic w.topic = true) :
    initWill req = some ⟨{ qos := w.qos, retain := w.retain, topic := w.topic, payload := w.payload }, true⟩ ∧
    (req.will = none → initWill req = none) :=
  ⟨initWill_some req w h hv, fun hn => by rw [hn] at h; cases h⟩

/-- Together: if the connection ends abnormally right after its accepted
CONNECT with will `(T, p, q, r)`, exactly that message goes through the publish
path — fresh and resumed sessions alike. -/
theorem C09_current_will_published (b : B) (c : Nat) (req : Connect) (authOk : Bool) (w : Will)
    (h : ∃ sp, Out.send c (.connack sp 0) ∈ (first b c (.connect req) authOk).2)
    (hw : req.will = some w) (hv : validTopic w.topic = true) :
    ∃ s, (stop (first b c (.connect req) authOk).1 c).2 =
      .closed c :: (onPublish (stopBase (first b c (.connect req) authOk).1 c s)
        ⟨{ qos := w.qos, retain := w.retain, topic := w.topic, payload := w.payload }, true⟩).2.2.1 := by
  obtain ⟨cn, s, hc, ha, hs, hf, hwl⟩ := C09_will_is_current_connect b c req authOk h
  refine ⟨s, ?_⟩
  rw [initWill_some req w hw hv] at hwl
  rw [hw] at hf
  exact stop_out_will _ c cn s _ hc ha hs hf hwl

/-- non-vacuity (resumed session): connection 1 drops, the client returns as
connection 3 with CleanSession=0 and a different will (topic "x", retained,
QoS 0), SessionPresent=1; when 3 drops, the new will is published (retained on
"x"; nobody listens) — not the first one again. -/
example :
    let req := Ex.conn Ex.idA false (some ⟨[120], [5], 0, true⟩)
    let b := (run Ex.base2 [.close 1]).1
    (first b 3 (.connect req) true).2 = [.send 3 (.connack true 0)] ∧
    ((first b 3 (.connect req) true).1.getSess 1).map (·.will) =
      some (some ⟨{ qos := 0, retain := true, topic := [120], payload := [5] }, true⟩) ∧
    (stop (first b 3 (.connect req) true).1 3).2 = [.closed 3] ∧
    ((stop (first b 3 (.connect req) true).1 3).1.topics.retained [120]).map (·.map (·.payload)) = some [[5]] := by
  decide

/-! ### 4. nothing but `stop` publishes a will -/

/-- `eraseWills b` is `b` with every stored will message removed: tries,
connections, store, counters and all other session fields (the will flags
included) are those of `b`. -/
theorem C09_eraseWills_spec (b : B) (r : Nat) :
    (eraseWills b).getSess r = (b.getSess r).map (fun s => { s with will := none }) ∧
    (eraseWills b).topics = b.topics ∧ (eraseWills b).conns = b.conns ∧ (eraseWills b).store = b.store ∧
    (eraseWills b).nextRef = b.nextRef ∧ (eraseWills b).ctr = b.ctr :=
  ⟨ew_getSess b r, rfl, rfl, rfl, rfl, rfl⟩

/-- Every event that does not run `stop` (`mayStop`: the end of a connection, and a
CONNECT with a supplied client identifier, which ends an existing connection of
that client first - MQTT-3.1.4-2 - and so publishes *its* will) — a first
packet without client identifier or that is no CONNECT, PUBLISH,
PUBREL, SUBSCRIBE, UNSUBSCRIBE, DISCONNECT, any other packet, the in-process
API — produces exactly the same outputs in `b` and in `b` without its will
messages, and the resulting states again differ at most in will messages: no
such event sends anything that stems from a stored will. -/
theorem C09_only_stop_reads_will (b : B) (e : Ev) (h : mayStop e = false) :
    (step (eraseWills b) e).2 = (step b e).2 ∧
    eraseWills (step (eraseWills b) e).1 = eraseWills (step b e).1 :=
  step_ew b e h

/-- the same for any sequence of such events -/
theorem C09_only_stop_reads_will_run (b : B) (evs : List Ev) (h : ∀ e ∈ evs, mayStop e = false) :
    (run (eraseWills b) evs).2 = (run b evs).2 :=
  (run_ew evs h b (eraseWills b) (eraseWills_idem b)).1

/-- and `stop` itself reads it only under a set will flag -/
theorem C09_stop_reads_will_only_with_flag (b : B) (c : Nat) (cn : Conn) (s : Sess)
    (hc : b.getConn c = some cn) (ha : cn.alive = true) (hs : b.getSess cn.sess = some s)
    (hf : s.willFlag = false) :
    stop (eraseWills b) c = (eraseWills (stop b c).1, (stop b c).2) :=
  stop_ew_noflag b c cn s hc ha hs hf

/-- non-vacuity: with listeners on the will topic "w", a run of publishes,
(un)subscribes, an anonymous CONNECT and a DISCONNECT gives the
same outputs with and without the stored wills, while a `close` of connection 1
does not (so the exclusion is needed). -/
example :
    let evs : List Ev := [.packet 2 (.publish { qos := 1, topic := Ex.tW, pktid := 9, payload := [3] }),
      .srvPub { qos := 0, topic := Ex.tW, payload := [4] }, .packet 1 (.unsubscribe 5 [Ex.tW]),
      .first 4 (.connect (Ex.conn [] true)) true, .packet 1 .disconnect, .packet 4 .pingreq]
    (run (eraseWills Ex.base2) evs).2 = (run Ex.base2 evs).2 ∧
    (run Ex.base2 evs).2.length = 6 ∧ (run Ex.base2 evs).2.head? = some
      [.send 2 (.puback 9), .send 1 (.publish { qos := 1, topic := Ex.tW, pktid := 9, payload := [3] }),
       .send 2 (.publish { qos := 1, topic := Ex.tW, pktid := 9, payload := [3] }),
       .call 1000 { qos := 0, topic := Ex.tW, pktid := 9, payload := [3] }] ∧
    (stop (eraseWills Ex.base2) 1).2 ≠ (stop Ex.base2 1).2 := by decide

/-! ### 5. over any history between the CONNECT and the end -/

/-- One event keeps the will message and the will flag of session object `r`
unless it is entitled to change them (`affectsWill`: a CONNECT that resumes `r`,
or the DISCONNECT / end of a connection served by `r`). -/
theorem C09_will_kept_step (b : B) (hi : Inv b) (e : Ev) (r : Nat) (s : Sess)
    (hs : b.getSess r = some s) (h : ¬ affectsWill b r e) :
    ∃ s', (step b e).1.getSess r = some s' ∧ s'.will = s.will ∧ s'.willFlag = s.willFlag :=
  step_will_kept hi e r s hs h

/-- what `affectsWill` and `endsConn` say: the will of session object `r` can change at the
end of a connection bound to it - DISCONNECT, any other end, or a CONNECT that takes that
connection over (`takenOver`: the live connections of the client whose identifier an acceptable
CONNECT supplies, MQTT-3.1.4-2) - and at a CONNECT that resumes `r`; connection `c` ends, or its
number is reused, at `close`, DISCONNECT, a first packet on `c`, or a CONNECT that takes it over -/
theorem C09_affectsWill_iff (b : B) (r : Nat) (e : Ev) :
    (affectsWill b r e ↔
      (∃ c, (e = .close c ∨ e = .packet c .disconnect) ∧ (b.getConn c).map (·.sess) = some r) ∨
      (∃ c f a, e = .first c f a ∧
        ((∃ c' ∈ takenOver b f a, (b.getConn c').map (·.sess) = some r) ∨
         ∃ req, f = .connect req ∧ accepts (.connect req) a = true ∧
           (resumed (takeOver b f a).1 c req).map (·.ref) = some r))) ∧
    (∀ c, endsConn b c e ↔ e = .close c ∨ e = .packet c .disconnect ∨
      ∃ c' f a, e = .first c' f a ∧ (c' = c ∨ c ∈ takenOver b f a)) := by
  constructor
  · cases e with
    | close c => simp [affectsWill, sessRefOf]
    | packet c p => cases p <;> simp [affectsWill, sessRefOf]
    | first c f a =>
      simp only [affectsWill, sessRefOf]
      constructor
      · rintro (h | h)
        · exact .inr ⟨c, f, a, rfl, .inl h⟩
        · cases f with
          | connect req => exact .inr ⟨c, .connect req, a, rfl, .inr ⟨req, rfl, h.1, h.2⟩⟩
          | other t => exact absurd h (by simp [resumesRef])
          | garbage => exact absurd h (by simp [resumesRef])
      · rintro (⟨c', (h | h), _⟩ | ⟨c', f', a', h, h1⟩)
        · cases h
        · cases h
        · cases h
          rcases h1 with h1 | ⟨req, rfl, h2, h3⟩
          · exact .inl h1
          · exact .inr ⟨h2, h3⟩
    | srvPub p => simp [affectsWill]
    | srvSub cb f q => simp [affectsWill]
    | srvUnsub cb f => simp [affectsWill]
  · intro c
    cases e with
    | close c' => simp [endsConn, eq_comm]
    | packet c' p => cases p <;> simp [endsConn, eq_comm]
    | first c' f a =>
      simp only [endsConn]
      constructor
      · intro h; exact .inr (.inr ⟨c', f, a, rfl, h⟩)
      · rintro (h | h | ⟨c'', f', a', h, h1⟩)
        · cases h
        · cases h
        · cases h; exact h1
    | srvPub p => simp [endsConn]
    | srvSub cb f q => simp [endsConn]
    | srvUnsub cb f => simp [endsConn]

/-- The property over histories.  Connection `c` is accepted with a CONNECT
carrying the will `w` (fresh or resumed session); then any events happen —
traffic of `c` and of every other client, the in-process API, other connections
coming and going — none of which ends `c` (a CONNECT with `c`'s client identifier does: it
takes `c` over, MQTT-3.1.4-2), reuses its number, or resumes `c`'s session object
(`quiet`).  When `c` then ends without
DISCONNECT, the output is the close followed by exactly the publish-path
outputs for `w` as given in `c`'s own CONNECT. -/
theorem C09_will_of_own_connect (b0 : B) (hi : Inv b0) (c : Nat) (req : Connect) (authOk : Bool) (w : Will)
    (hacc : ∃ sp, Out.send c (.connack sp 0) ∈ (first b0 c (.connect req) authOk).2)
    (hw : req.will = some w) (hv : validTopic w.topic = true)
    (cn : Conn) (hcn : (first b0 c (.connect req) authOk).1.getConn c = some cn)
    (evs : List Ev) (hq : quiet cn.sess c (first b0 c (.connect req) authOk).1 evs) :
    ∃ s, (stop (run (first b0 c (.connect req) authOk).1 evs).1 c).2 =
      .closed c :: (onPublish (stopBase (run (first b0 c (.connect req) authOk).1 evs).1 c s)
        ⟨{ qos := w.qos, retain := w.retain, topic := w.topic, payload := w.payload }, true⟩).2.2.1 := by
  obtain ⟨cn', s, hc, ha, hs, hf, hwl⟩ := C09_will_is_current_connect b0 c req authOk hacc
  rw [hcn] at hc; cases hc
  have hi1 : Inv (first b0 c (.connect req) authOk).1 := inv_first hi c _ authOk
  obtain ⟨hc2, s2, hs2, hw2⟩ := run_will_kept evs hi1 cn.sess c cn s hcn hs hq
  refine ⟨s2, ?_⟩
  rw [initWill_some req w hw hv] at hwl
  rw [hw] at hf
  exact stop_out_will _ c cn s2 _ hc2 ha hs2 (hw2.2.trans hf) (hw2.1.trans hwl)

/-- and after a DISCONNECT at the end of such a history: nothing -/
theorem C09_disconnect_after_history (b : B) (hi : Inv b) (evs : List Ev) (c : Nat)
    (h : (run b evs).1.alive c = true) :
    (run (run b evs).1 [.packet c .disconnect, .close c]).2 = [[.closed c], []] := by
  obtain ⟨cn, s, hc, ha, hs⟩ := (inv_run evs hi).live h
  obtain ⟨h1, _, h3, _⟩ := C09_disconnect_no_will _ c cn s hc ha hs
  simp only [run, step, h1, h3]

/-- non-vacuity: "A" returns as connection 3 (resumed, new will on "x"); a
client "C" connects as 4 and subscribes to "x", 2 publishes, 2 leaves; then 3
drops: its own will is published (to 4). -/
example :
    let req := Ex.conn Ex.idA false (some ⟨[120], [5], 1, false⟩)
    let b0 := (run Ex.base2 [.close 1]).1
    let evs : List Ev := [.first 4 (.connect (Ex.conn [67] true (some ⟨Ex.tW, [6], 0, false⟩))) true,
      .packet 4 (.subscribe 1 [([120], 1)]), .packet 2 (.publish { qos := 0, topic := [120], payload := [8] }),
      .packet 2 .disconnect]
    (first b0 3 (.connect req) true).1.getConn 3 = some ⟨3, 1, true⟩ ∧
    quiet 1 3 (first b0 3 (.connect req) true).1 evs ∧
    (stop (run (first b0 3 (.connect req) true).1 evs).1 3).2 =
      [.closed 3, .send 4 (.publish { qos := 1, topic := [120], pktid := 3, payload := [5] })] := by
  refine ⟨by rfl, ?_, by decide⟩
  simp only [quiet, and_true]
  decide

/-! ### the refinement theorem, specialised: the will after any history -/

open Mqtt.Proofs.BrokerRefine (okRun specRun liveSess willMsg endSpec) in
open Mqtt.Spec.Broker (Accepts) in
/-- **Refinement (Proofs/BrokerRefine.lean: `Broker_refines_spec`) for C09.**
After any history admitted by `okRun` (see C01_refines_reference for the side
condition; resumed sessions included), for a live connection `c`: DISCONNECT
closes it and publishes nothing; any other end (`close`: peer close, keep-alive
expiry, protocol error) is accepted by the reference broker's `endConn`, whose
record `k` of the connection carries the will *of the CONNECT that opened this
connection* - the model's session object agrees with it (`willFlag`, message
object), whatever earlier connections of the same client declared -: with no
will the close is the only output; with will `w` the outputs are the close and
the fan-out of `w` in the state in which the connection's own subscriptions are
gone, which the reference broker's `accept` of `w` accepts (by
C01_refines_reference's reading of `Accepts`: one copy per matching subscription). -/
theorem C09_refines_reference (es : List Ev) (hok : okRun {} es = true) (c : Nat)
    (hl : (run {} es).1.alive c = true) :
    (step (run {} es).1 (.packet c .disconnect)).2 = [.closed c] ∧
    Accepts (Mqtt.Spec.Broker.step (specRun {} es).1 (.close c)).2 (step (run {} es).1 (.close c)).2 ∧
    ∃ σ k, liveSess (run {} es).1 c = some σ ∧ Mqtt.Spec.Broker.getConn (specRun {} es).1 c = some k ∧
      σ.willFlag = k.will.isSome ∧ σ.will = k.will.map willMsg ∧
      (k.will = none → (step (run {} es).1 (.close c)).2 = [.closed c]) ∧
      (∀ w, k.will = some w →
        (step (run {} es).1 (.close c)).2 =
          .closed c :: (onPublish (stopBase (run {} es).1 c σ) (willMsg w)).2.2.1 ∧
        (Mqtt.Spec.Broker.step (specRun {} es).1 (.close c)).2 =
          .closed c :: (Mqtt.Spec.Broker.accept (endSpec (specRun {} es).1 c k)
            { qos := w.qos, retain := w.retain, topic := w.topic, payload := w.payload }).2) := by
  have hR := Mqtt.Proofs.BrokerRefine.reach es hok
  obtain ⟨r1, r2, r3⟩ := Mqtt.Proofs.BrokerRefine.reach_step es hok (.close c) rfl
  obtain ⟨e1, _, σ, k, e3, e4, e5, e6, e7, e8⟩ := Mqtt.Proofs.BrokerRefine.end_refines hR c hl
  refine ⟨e1, r2, σ, k, e3, e4, e5, e6, e7, ?_⟩
  intro w hw
  obtain ⟨a1, a2⟩ := e8 w hw
  refine ⟨a1, ?_⟩
  rw [r3]; exact a2

open Mqtt.Proofs.BrokerRefine (okRun specRun okEv liveSess) in
/-- **The will of a connection that is taken over** (MQTT-3.1.4-2).  After any
history admitted by `okRun`, an accepted CONNECT admitted by `okEv` that carries
the (non-empty) client identifier of the live connection `c0` emits exactly what
the end of `c0` without DISCONNECT emits (`.close c0`), followed by its own
CONNACK - in the model and in the reference broker alike.  So everything
C09_refines_reference says about `.close c0` holds for the take-over: the close
of `c0`, then the will of `c0`'s own CONNECT (if it declared one) fanned out in
the state in which `c0`'s subscriptions are gone and the new connection is not
there yet, then the CONNACK. -/
theorem C09_take_over_is_an_end (es : List Ev) (hok : okRun {} es = true) (c c0 : Nat) (req : Connect) (a : Bool)
    (he : okEv (run {} es).1 (.first c (.connect req) a) = true) (hacc : accepts (.connect req) a = true)
    (σ : Sess) (hσ : liveSess (run {} es).1 c0 = some σ) (hcid : σ.cid = req.clientId) (hne : req.clientId ≠ []) :
    (run {} es).1.alive c0 = true ∧
    ∃ sp, (step (run {} es).1 (.first c (.connect req) a)).2 =
        (step (run {} es).1 (.close c0)).2 ++ [.send c (.connack sp 0)] ∧
      (Mqtt.Spec.Broker.step (specRun {} es).1 (.first c (.connect req) a)).2 =
        (Mqtt.Spec.Broker.step (specRun {} es).1 (.close c0)).2 ++ [.send c (.connack sp 0)] := by
  have hR := Mqtt.Proofs.BrokerRefine.reach es hok
  refine ⟨Mqtt.Proofs.BrokerRefine.liveSess_alive hσ, ?_⟩
  obtain ⟨_, c1, c2, _⟩ := Mqtt.Proofs.BrokerRefine.connect_refines hR c req a he hacc
  have hdead : (run {} es).1.alive c = false := by
    simp only [okEv, Bool.and_eq_true, decide_eq_true_eq, Bool.not_eq_true'] at he
    exact he.1.2
  obtain ⟨_, _, hfree, hto⟩ := Mqtt.Proofs.BrokerRefine.takeOver_refines hR c req a hacc hdead
  have heff : effCid c req = req.clientId := by
    unfold effCid
    cases hc : req.clientId with
    | nil => exact absurd hc hne
    | cons x xs => rfl
  rcases hto with ⟨h0, _⟩ | ⟨c0', σ', fs, fo, hσ', hcid', _, t1, t2, _⟩
  · rw [h0] at hfree
    exact absurd (hcid.trans heff.symm) (hfree c0 σ hσ)
  · have : c0' = c0 := hR.cidUniq c0' c0 σ' σ hσ' hσ (hcid'.trans hcid.symm)
    subst this
    refine ⟨(Mqtt.Proofs.BrokerRefine.specPrior
      (Mqtt.Spec.Broker.takeOver (specRun {} es).1 (.connect req) a).1 c req).isSome, ?_, ?_⟩
    · rw [c1, t1]; rfl
    · rw [Mqtt.Proofs.BrokerRefine.spec_step_eq, c2, t2]; rfl

/-! ### a CONNECT whose answer cannot be written -/

/-- **A connection that never came up leaves no will.**  When the answer to a first packet cannot be
written (`handleConnection` with a failing `writeMessage`; model `connectFail`), everything the broker
does is: the ends of the connections the CONNECT takes over (MQTT-3.1.4-2 - with THEIR wills, as for
any take-over), then the close of the new connection.  The will carried by the unanswerable CONNECT
itself is never published - not now (this statement) and not later: no connection exists for it
(`connectFail` leaves the connection table as `takeOver` left it), and a later CONNECT of the client
replaces the stored will (`Session.Update`, C09's resumed-session statements). -/
theorem C09_unanswerable_connect_no_will (b : B) (c : Nat) (f : First) (a : Bool) :
    (connectFail b c f a).2 = (takeOver b f a).2 ++ [.closed c] ∧
    (connectFail b c f a).1.conns = (takeOver b f a).1.conns ∧
    (connectFail b c f a).1.topics = (takeOver b f a).1.topics := by
  rw [Mqtt.Proofs.BrokerRefine.connectFail_eq]
  cases h : accepts f a with
  | false =>
    rw [Mqtt.Proofs.BrokerRefine.firstFail_refused _ c f a h]
    exact ⟨rfl, rfl, rfl⟩
  | true =>
    cases f with
    | garbage => simp [accepts] at h
    | other t => simp [accepts] at h
    | connect req =>
      rw [Mqtt.Proofs.BrokerRefine.firstFail_accepted _ c req a h]
      exact ⟨rfl, Mqtt.Proofs.BrokerRefine.failed_conns _ c req, Mqtt.Proofs.BrokerRefine.failed_topics _ c req⟩

/-! ### Server.Close -/

/-- `stop()` for a list of connections, one after the other, is the run of their `.close` events -/
theorem C09_stopAll_is_run (cs : List Nat) : ∀ (b : B),
    stopAll b cs = ((run b (cs.map Ev.close)).1, ((run b (cs.map Ev.close)).2).flatten) := by
  induction cs with
  | nil => intro b; rfl
  | cons c rest ih =>
    intro b
    simp only [stopAll, List.map_cons, run, step, List.flatten_cons]
    rw [ih (stop b c).1]

open Mqtt.Proofs.BrokerRefine (R okRun specRun AcceptsAll) in
/-- **Server.Close ends every connection without a DISCONNECT: every will is published.**  The model of
`Server.Close` (`srvClose`: `stop()` for every live connection in the order of registration) is the run
of the events `.close c` for those connections, and along it the refinement holds (`run_refines`): from
related states, the outputs of every one of these ends are accepted by the reference broker's
`endConn _ c false` - the close of `c` followed by the fan-out of its will to the subscriptions held at
that moment (connections later in the order and in-process subscribers), nothing if it has none -, and
the states stay related.  (What reaches another CONNECTION during Close is not observable in the tie:
every connection is closed on that line; in-process subscribers are.) -/
theorem C09_server_close_publishes_wills (b : B) (s : Mqtt.Spec.Broker.S) (h : R b s) :
    let es := (liveIds b).map Ev.close
    srvClose b = ((run b es).1, ((run b es).2).flatten) ∧
    R (run b es).1 (specRun s es).1 ∧ AcceptsAll (specRun s es).2 (run b es).2 := by
  intro es
  have hok : ∀ (l : List Nat) (b' : B), okRun b' (l.map Ev.close) = true := by
    intro l
    induction l with
    | nil => intro b'; rfl
    | cons c rest ih => intro b'; simp only [List.map_cons, okRun, Mqtt.Proofs.BrokerRefine.okEv, Bool.true_and]; exact ih _
  exact ⟨C09_stopAll_is_run (liveIds b) b, Mqtt.Proofs.BrokerRefine.run_refines es b s h (hok _ b)⟩

open Mqtt.Proofs.BrokerRefine (EvX okRunX runX specRunX liveSess willMsg endSpec) in
open Mqtt.Spec.Broker (Accepts) in
/-- **C09_refines_reference after a history with failed handshakes** (Proofs/BrokerRefineFail.lean:
`BrokerX_refines_spec`).  The same statement for the end of a live connection and its will, after a
history that may also contain first packets whose answer could not be written (`EvX.failFirst`) - such a
CONNECT leaves no will behind (`C09_unanswerable_connect_no_will`), and `k` is still the record of the
CONNECT that opened `c`. -/
theorem C09_refines_reference_with_failed_handshakes (es : List EvX) (hok : okRunX {} es = true) (c : Nat)
    (hl : (runX {} es).1.alive c = true) :
    (step (runX {} es).1 (.packet c .disconnect)).2 = [.closed c] ∧
    Accepts (Mqtt.Spec.Broker.step (specRunX {} es).1 (.close c)).2 (step (runX {} es).1 (.close c)).2 ∧
    ∃ σ k, liveSess (runX {} es).1 c = some σ ∧ Mqtt.Spec.Broker.getConn (specRunX {} es).1 c = some k ∧
      σ.willFlag = k.will.isSome ∧ σ.will = k.will.map willMsg ∧
      (k.will = none → (step (runX {} es).1 (.close c)).2 = [.closed c]) ∧
      (∀ w, k.will = some w →
        (step (runX {} es).1 (.close c)).2 =
          .closed c :: (onPublish (stopBase (runX {} es).1 c σ) (willMsg w)).2.2.1 ∧
        (Mqtt.Spec.Broker.step (specRunX {} es).1 (.close c)).2 =
          .closed c :: (Mqtt.Spec.Broker.accept (endSpec (specRunX {} es).1 c k)
            { qos := w.qos, retain := w.retain, topic := w.topic, payload := w.payload }).2) :=
  Mqtt.Proofs.BrokerRefine.end_acceptedX es hok c hl

end Mqtt.Properties.C09
