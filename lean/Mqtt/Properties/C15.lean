/- C15 — byte ring is a blocking is live (theorems under construction; see Proofs/Ring*.lean) -/
import Mqtt.Model.Ring
import Mqtt.Spec.Ring

namespace Mqtt.Properties.C15
end Mqtt.Properties.C15
