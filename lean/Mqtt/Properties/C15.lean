/-
C15 — blocking on the byte ring is live.

Property theorems only (helper lemmas: `Proofs/RingLive.lean`, `Proofs/RingProgress.lean`).
They are about the model of the *repaired* `service/buffer.go` (defects D1–D4 of DESIGN §9 and
the read-block reservation of `ReadFrom`, finding F3; see known_findings.json) and hold for every
ring size, thread programs (well-typed by role: one producer, one consumer, any number of closers,
Close also callable by producer and consumer; `ReadFrom` with any reader script among the producer's
calls), and every schedule.  Liveness is stated without temporal logic:

* `C15_NoLeak`            a mutex is held only by a thread inside that mutex's critical section;
                          a thread between two calls (or finished) holds none; the process never
                          crashes on an unlocked-mutex Unlock.
* `C15_NoLostWakeup`      a parked, not yet woken waiter whose wait condition is already false
                          (data / space committed, or the ring closed) has a pending broadcaster:
                          another thread between its cursor/`done` store and the matching Broadcast.
* `C15_CloseTerminates`   Close is seven own steps in a straight line; it can only be kept from
                          stepping by a held mutex, whose holder is enabled and releases it within
                          three own steps.
* `C15_DoneUnblocks`      `done` is never reset; with `done` set every entry check returns
                          end-of-stream and every wait loop leaves through its unlock-and-return
                          exit; a state in which nothing can run has no unfinished call.
* `C15_Progress_quiescent` deadlock- and lost-wake-up-freedom: if no thread can take a step, every
                          unfinished thread is legitimately waiting (parked, ring open, its
                          condition genuinely unmet).
* `C15_ReadFrom_reads_nonempty`, `C15_ReadFrom_waits_only_when_full`
                          `ReadFrom` (repository commit 8f682d1) hands its reader a slice of at least one
                          byte (it cannot spin on an empty read), its `WriteCommit` never waits, and the
                          only state in which it is kept from reading is a ring that is completely full
                          and open — it is never parked while a single byte is free (finding F3 was:
                          parked while less than a read block is free).
* `C15_Progress`          a termination measure `mu` (rank of the program counters + weight of the
                          calls not yet started + credit of pending wake-ups) strictly decreases with
                          every enabled step of every thread: no schedule contains more than
                          `mu (initial state)` enabled steps (no livelock), and from every reachable
                          state at most that many enabled steps lead to a state where nothing can run —
                          in which every call has returned or waits legitimately, and every call has
                          returned if `Close` was called.
Fairness of the Go scheduler (an enabled goroutine is eventually run) is the remaining hypothesis.
-/
import Mqtt.Proofs.RingTerm
import Mqtt.Proofs.RingFacts
import Mqtt.Proofs.RingContract

set_option linter.unusedSimpArgs false
set_option linter.unusedVariables false

namespace Mqtt.Properties.C15
open Mqtt.Model.Ring Mqtt.Iface.Ring Mqtt.Spec.Ring Mqtt.Proofs.Ring

/-- a reachable state: any schedule from the initial state of well-typed programs -/
def reach (cfg : Cfg) (adv gate : Nat) (progP progC : List Call) (progsK : List (List Call))
    (sched : List Tid) : St :=
  run cfg (mkInit cfg adv gate progP progC progsK) sched

/-- the liveness invariant (safety + lock discipline + no lost wake-up on either condition
variable) is preserved by every step of every thread … -/
theorem C15_invariant_step (cfg : Cfg) (base : Nat) (s s' : St) (t : Tid)
    (h : Live cfg base s) (hs : step cfg s t = some s') : Live cfg base s' :=
  live_step cfg base s s' t h hs

/-- … and holds in every reachable state. -/
theorem C15_invariant (cfg : Cfg) (adv gate : Nat) (progP progC : List Call) (progsK : List (List Call))
    (hgate : gate ≤ adv) (hok : ProgsOK progP progC progsK) (sched : List Tid) :
    Live cfg adv (reach cfg adv gate progP progC progsK sched) :=
  live_run cfg adv _ sched (live_init cfg adv gate progP progC progsK hgate hok)

/-- **NoLeak.** In every reachable state: no crash; whoever holds a mutex is an existing thread
whose program counter is inside that mutex's critical section; a thread that has returned from
its call (idle or finished) holds no mutex. -/
theorem C15_NoLeak (cfg : Cfg) (adv gate : Nat) (progP progC : List Call) (progsK : List (List Call))
    (hgate : gate ≤ adv) (hok : ProgsOK progP progC progsK) (sched : List Tid) :
    let s := reach cfg adv gate progP progC progsK sched
    s.sh.crash = false ∧
    (∀ m t, s.sh.owner m = some t → ∃ th, s.getTh t = some th ∧ holds th.pc m = true) ∧
    (∀ m t th, s.getTh t = some th → th.pc = .idle → s.sh.owner m ≠ some t) := by
  intro s
  have h := (C15_invariant cfg adv gate progP progC progsK hgate hok sched).lock
  refine ⟨h.nocrash, ?_, ?_⟩
  · intro m t ho
    obtain ⟨th, hth⟩ := h.real m t ho
    exact ⟨th, hth, (h.own t th hth m).mpr ho⟩
  · intro m t th hth hidle ho
    have := (h.own t th hth m).mpr ho
    rw [hidle, holds_idle] at this
    cases this

/-- **NoLostWakeup.** In every reachable state: if the consumer is parked in `ccond.Wait` and has
not been woken, then (i) its wait condition still holds for the *current* producer cursor or some
other thread sits between its `pseq` store and the ccond Broadcast, and (ii) the ring is still open
or some other thread sits between the `done` store and Close's ccond Broadcast.  Symmetrically for
the producer parked in `pcond.Wait`. -/
theorem C15_NoLostWakeup (cfg : Cfg) (adv gate : Nat) (progP progC : List Call) (progsK : List (List Call))
    (hgate : gate ≤ adv) (hok : ProgsOK progP progC progsK) (sched : List Tid) :
    let s := reach cfg adv gate progP progC progsK sched
    (cParked s.C.pc = true → s.sh.cNote = false →
      (noDataAt s.sh.pseq s.C.pc ∨ exPc s .c pendC) ∧ (s.sh.done = false ∨ exPc s .c pendCd)) ∧
    (pParked s.P.pc = true → s.sh.pNote = false →
      (noSpaceAt cfg.size s.sh.cseq s.P.pc ∨ exPc s .p pendP) ∧ (s.sh.done = false ∨ exPc s .p pendPd)) := by
  intro s
  have h := C15_invariant cfg adv gate progP progC progsK hgate hok sched
  refine ⟨fun hp hn => ?_, fun hp hn => ?_⟩
  · have hst : cStage s.C.pc = 2 := by
      cases hpc : s.C.pc <;> rw [hpc] at hp <;> simp [cParked, cStage] at hp ⊢
    have H := h.nlwc (by rw [hst]; decide) (fun _ => hn)
    exact ⟨H.1, H.2 hst⟩
  · have hst : pStage s.P.pc = 2 := by
      cases hpc : s.P.pc <;> rw [hpc] at hp <;> simp [pParked, pStage] at hp ⊢
    have H := h.nlwp (by rw [hst]; decide) (fun _ => hn)
    exact ⟨H.1, H.2 hst⟩

/-- **CloseTerminates.**  (1) Every own step of a thread inside `Close` decreases `closeRank`
(7 … 1) by exactly one and the last one returns: `ok` to a caller of `Close`; if it was the deferred
`Close` of `ReadFrom` (frame `rfret n e`), `ReadFrom` returns `(n, e)`.  (2) In a reachable state a thread inside
`Close` that cannot step is at one of its two `Lock`s and that mutex is held by an existing
thread which *can* step.  (3) A thread inside a critical section releases the mutex within
`csRank ≤ 4` own steps, none of which blocks (4 since the repair of F9: cursor test, `isDone`, the second look at
the cursor, unlock). -/
theorem C15_CloseTerminates (cfg : Cfg) (adv gate : Nat) (progP progC : List Call) (progsK : List (List Call))
    (hgate : gate ≤ adv) (hok : ProgsOK progP progC progsK) (sched : List Tid) :
    let s := reach cfg adv gate progP progC progsK sched
    (∀ t th sh' th', s.getTh t = some th → 0 < closeRank th.pc → tstep cfg s.sh t th = some (sh', th') →
        closeRank th'.pc + 1 = closeRank th.pc ∧
        (closeRank th'.pc = 0 → th'.pc = .idle ∧ ∃ r, th'.res = some r ∧
          ((∀ n e, th.cur ≠ some (.rfret n e)) → r.err = .ok) ∧
          (∀ n e, th.cur = some (.rfret n e) → r.n = n ∧ r.err = e))) ∧
    (∀ t th, s.getTh t = some th → 0 < closeRank th.pc → step cfg s t = none →
        ∃ m t' th', wantsLock th.pc = some m ∧ s.sh.owner m = some t' ∧ s.getTh t' = some th' ∧
          holds th'.pc m = true ∧ step cfg s t' ≠ none) ∧
    (∀ t th m sh' th', s.getTh t = some th → holds th.pc m = true → tstep cfg s.sh t th = some (sh', th') →
        holds th'.pc m = true → csRank th'.pc < csRank th.pc) ∧
    (∀ pc, csRank pc ≤ 4) := by
  intro s
  have h := (C15_invariant cfg adv gate progP progC progsK hgate hok sched).lock
  refine ⟨?_, ?_, ?_, ?_⟩
  · intro t th sh' th' _ hc hs
    exact close_rank_step cfg s.sh sh' t th th' hc hs
  · intro t th hth hc hs
    have hn := step_none_tstep cfg s t th hth hs
    have key : ∀ m, wantsLock th.pc = some m → s.sh.owner m ≠ none →
        ∃ m t' th', wantsLock th.pc = some m ∧ s.sh.owner m = some t' ∧ s.getTh t' = some th' ∧
          holds th'.pc m = true ∧ step cfg s t' ≠ none := by
      intro m hw ho
      cases hot : s.sh.owner m with
      | none => exact absurd hot ho
      | some t' =>
        obtain ⟨th', hth'⟩ := h.real m t' hot
        have hh := (h.own t' th' hth' m).mpr hot
        refine ⟨m, t', th', hw, hot, hth', hh, fun hs' => ?_⟩
        exact holder_enabled cfg s.sh t' th' m h.nocrash hh (step_none_tstep cfg s t' th' hth' hs')
    rcases close_blocked cfg s.sh t th h.nocrash hc hn with ⟨hpc, ho⟩ | ⟨hpc, ho⟩
    · exact key .pL (by rw [hpc]; rfl) ho
    · exact key .cL (by rw [hpc]; rfl) ho
  · intro t th m sh' th' _ hh hs
    exact cs_rank_step cfg s.sh sh' t th th' m hh hs
  · intro pc; cases pc <;> simp [csRank]

/-- **DoneUnblocks.**  (1) `done` is never reset.  (2) With `done` set, a thread at an entry check
(`Write`, `waitForWriteSpace` — on entry and, since the repair of F9, once more when it has found room —, the head of
`ReadFrom`'s loop) returns end-of-stream in that step —
inside `ReadFrom`: begins `ReadFrom`'s deferred `Close` (seven straight-line steps, `C15_CloseTerminates`),
after which `ReadFrom` returns end-of-stream —, and a thread at the `done` test of a wait loop does not go to `Wait`:
the producer goes to the loop's unlock-and-return exit, the consumer to the second load of the producer cursor
(F9), from where (2b) it leaves the loop in its next step either way — through the unlock-and-return exit if the data is
still missing, with the data otherwise; (3) the exits return end-of-stream (resp. begin
`ReadFrom`'s deferred `Close`) holding no mutex.  (4) A reachable state with `done` set in which no
thread can take a step has no unfinished call: nobody stays blocked once the ring is closed. -/
theorem C15_DoneUnblocks (cfg : Cfg) (adv gate : Nat) (progP progC : List Call) (progsK : List (List Call))
    (hgate : gate ≤ adv) (hok : ProgsOK progP progC progsK) (sched : List Tid) :
    let s := reach cfg adv gate progP progC progsK sched
    (∀ t th sh' th', tstep cfg s.sh t th = some (sh', th') → s.sh.done = true → sh'.done = true) ∧
    (∀ t th sh' th', s.sh.done = true → doneTest th.pc = true → tstep cfg s.sh t th = some (sh', th') →
        (th'.pc = .idle ∧ ∃ r, th'.res = some r ∧ r.err = .eof) ∨
        (th'.pc = .x10 ∧ ∃ n, th'.cur = some (.rfret n .eof)) ∨
        (∃ n p, th'.pc = .s35 n p) ∨ (∃ n c, th'.pc = .r75r n c) ∨ (∃ w n c, th'.pc = .p84r w n c)) ∧
    (∀ t th sh' th', ((∃ n c, th.pc = .r75r n c) ∨ (∃ w n c, th.pc = .p84r w n c)) →
        tstep cfg s.sh t th = some (sh', th') →
        sh' = s.sh ∧
        ((∃ n c, th'.pc = .r76 n c ∧ s.sh.pseq ≤ c) ∨ (∃ n, th'.pc = .r79 n) ∨
         (∃ w n c, th'.pc = .p85 w n c ∧ mustWait w n c s.sh.pseq = true) ∨
         (∃ w n c, th'.pc = .p88 w n c s.sh.pseq ∧ mustWait w n c s.sh.pseq = false))) ∧
    (∀ t th sh' th', ((∃ n p, th.pc = .s35 n p) ∨ (∃ n c, th.pc = .r76 n c) ∨ (∃ w n c, th.pc = .p85 w n c)) →
        tstep cfg s.sh t th = some (sh', th') →
        ((th'.pc = .idle ∧ ∃ r, th'.res = some r ∧ r.err = .eof) ∨
         (th'.pc = .x10 ∧ ∃ n, th'.cur = some (.rfret n .eof))) ∧ ∀ m, holds th'.pc m = false) ∧
    (s.sh.done = true → (∀ t, step cfg s t = none) →
        ∀ t th, s.getTh t = some th → th.pc = .idle ∧ th.prog = []) := by
  intro s
  have h := C15_invariant cfg adv gate progP progC progsK hgate hok sched
  refine ⟨?_, ?_, ?_, ?_, ?_⟩
  · intro t th sh' th' hs hd
    exact done_stable cfg s.sh sh' t th th' hd hs
  · intro t th sh' th' hd ht hs
    exact done_exits cfg s.sh sh' t th th' hd ht hs
  · intro t th sh' th' ht hs
    exact reread_exits cfg s.sh sh' t th th' ht hs
  · intro t th sh' th' ht hs
    exact eof_exit_returns cfg s.sh sh' t th th' ht hs
  · intro hd hq t th hth
    rcases quiescent_legit cfg adv s h.safe h.lock h.nlwc h.nlwp hq t th hth with a | ⟨_, _, _, b⟩ | ⟨_, _, _, b⟩
    · exact a
    · rw [hd] at b; cases b
    · rw [hd] at b; cases b

/-- **Progress (quiescence form).**  In every reachable state in which no thread can take a step,
every thread has finished its program, or is the consumer parked with its data condition
genuinely unmet and the ring open, or the producer parked with its space condition genuinely unmet
and the ring open.  Contrapositive: whenever some call's completion condition holds (enough bytes /
space committed, or `Close` called) and the call has not returned, some thread is enabled — there
is no deadlock and no lost wake-up. -/
theorem C15_Progress_quiescent (cfg : Cfg) (adv gate : Nat) (progP progC : List Call) (progsK : List (List Call))
    (hgate : gate ≤ adv) (hok : ProgsOK progP progC progsK) (sched : List Tid) :
    let s := reach cfg adv gate progP progC progsK sched
    (∀ t, step cfg s t = none) →
    ∀ t th, s.getTh t = some th →
      (th.pc = .idle ∧ th.prog = []) ∨
      (t = .c ∧ cParked th.pc = true ∧ noDataAt s.sh.pseq th.pc ∧ s.sh.done = false) ∨
      (t = .p ∧ pParked th.pc = true ∧ noSpaceAt cfg.size s.sh.cseq th.pc ∧ s.sh.done = false) := by
  intro s hq t th hth
  have h := C15_invariant cfg adv gate progP progC progsK hgate hok sched
  exact quiescent_legit cfg adv s h.safe h.lock h.nlwc h.nlwp hq t th hth

/-- **Progress.**  (1) Every enabled step of every thread strictly decreases the measure `mu`.
(2) Along any schedule at most `mu (initial state)` steps are enabled: there is no livelock, wait
loops cannot spin (each iteration consumes a Broadcast of another thread, and programs are finite).
(3) From every reachable state, stepping enabled threads at most `mu` times reaches — by a
schedule, so again a reachable state — a state in which no thread can take a step; there every
thread has finished its program or is legitimately waiting (consumer parked, no/insufficient data,
ring open; producer parked, insufficient space, ring open), and if `Close` has been called every
thread has finished.  Together: a consumer blocked for data proceeds once enough bytes are
committed, a producer blocked for space proceeds once enough bytes are consumed, Close returns and
makes every blocked or later call return — in every run in which enabled threads keep being
scheduled (fairness of the Go scheduler is the hypothesis). -/
theorem C15_Progress (cfg : Cfg) (adv gate : Nat) (progP progC : List Call) (progsK : List (List Call))
    (hgate : gate ≤ adv) (hok : ProgsOK progP progC progsK) (sched : List Tid) :
    let s := reach cfg adv gate progP progC progsK sched
    (∀ t s', step cfg s t = some s' → mu cfg s' < mu cfg s) ∧
    taken cfg (mkInit cfg adv gate progP progC progsK) sched ≤ mu cfg (mkInit cfg adv gate progP progC progsK) ∧
    (∃ sched', let q := run cfg s sched'
        (∀ t, step cfg q t = none) ∧
        (∀ t th, q.getTh t = some th →
          (th.pc = .idle ∧ th.prog = []) ∨
          (t = .c ∧ cParked th.pc = true ∧ noDataAt q.sh.pseq th.pc ∧ q.sh.done = false) ∨
          (t = .p ∧ pParked th.pc = true ∧ noSpaceAt cfg.size q.sh.cseq th.pc ∧ q.sh.done = false)) ∧
        (q.sh.done = true → ∀ t th, q.getTh t = some th → th.pc = .idle ∧ th.prog = [])) := by
  intro s
  have h := C15_invariant cfg adv gate progP progC progsK hgate hok sched
  refine ⟨fun t s' hs => mu_step cfg adv s s' t h.safe hs, ?_, ?_⟩
  · have := taken_le_mu cfg adv _ sched (rinv_init cfg adv gate progP progC progsK hgate hok)
    omega
  · obtain ⟨sched', hd⟩ := drain_reach cfg s (mu cfg s)
    refine ⟨sched', ?_⟩
    have hq := drain_quiescent cfg adv s (mu cfg s) h.safe (Nat.le_refl _)
    rw [hd] at hq
    have hl := live_run cfg adv s sched' h
    refine ⟨hq, fun t th hth => quiescent_legit cfg adv _ hl.safe hl.lock hl.nlwc hl.nlwp hq t th hth, ?_⟩
    intro hdone t th hth
    rcases quiescent_legit cfg adv _ hl.safe hl.lock hl.nlwc hl.nlwp hq t th hth with a | ⟨_, _, _, b⟩ | ⟨_, _, _, b⟩
    · exact a
    · rw [hdone] at b; cases b
    · rw [hdone] at b; cases b

/-- the lock structure regenerated from buffer.go is the model's, and the model's step function
performs exactly those lock operations at the marks -/
theorem C15_lock_facts :
    Mqtt.Generated.bufferLocks = lockFacts ∧
    markPcs.map (fun pc => (pc.yid, lockOpCode pc))
      = (((lockFacts.map (·.2)).flatten |> markOps).filter (fun p => p.1 != 120 && p.1 != 121)).map (fun p => (some p.1, p.2)) :=
  ⟨ring_lock_facts, lockFacts_steps⟩

/-- **`ReadFrom` never hands its reader an empty slice** (an `io.Reader` answers a zero-length `Read`
with `(0, nil)`: the loop would spin).  In a reachable state in which the producer is at mark 112 —
`waitForWriteSpace(1)` has returned, the consumer cursor is about to be loaded — its next step goes to
the socket read (mark 111) with a slice of `len` bytes at the producer position, where
`1 ≤ len ≤ read block`, the slice ends at or before the end of the ring, and lies inside the part of
the ring that is free as of the CURRENT consumer cursor (and stays free: the cursor only advances). -/
theorem C15_ReadFrom_reads_nonempty (cfg : Cfg) (adv gate : Nat) (progP progC : List Call) (progsK : List (List Call))
    (hgate : gate ≤ adv) (hok : ProgsOK progP progC progsK) (sched : List Tid) (hrb : 0 < cfg.rblock)
    (tot : Nat) (ms : List Nat) (ppos : Nat) :
    let s := reach cfg adv gate progP progC progsK sched
    s.P.pc = .g112 tot ms ppos →
    ∃ s' len, step cfg s .p = some s' ∧ s'.P.pc = .g111 tot ms ppos len ∧ ppos = s.sh.pseq ∧
      1 ≤ len ∧ len ≤ cfg.rblock ∧ cfg.idx ppos + len ≤ cfg.size ∧ ppos + len ≤ s.sh.cseq + cfg.size := by
  intro s hpc
  have h := (C15_invariant cfg adv gate progP progC progsK hgate hok sched).safe
  have hp := h.invP.pcinv
  unfold pcP at hp
  rw [hpc] at hp
  obtain ⟨e1, e2⟩ := hp
  have e1' : ppos = s.sh.pseq := e1
  have e2' : ppos + 1 ≤ s.sh.cseq + cfg.size := e2
  have hcp : s.sh.cseq ≤ s.sh.pseq := h.glob.cp
  have hnc : s.sh.crash = false := (C15_invariant cfg adv gate progP progC progsK hgate hok sched).lock.nocrash
  obtain ⟨a, b, c, d⟩ := readfrom_len cfg s.sh.cseq ppos hrb (by omega) e2'
  let len := if cfg.idx ppos + min cfg.rblock (cfg.size - (ppos - s.sh.cseq)) > cfg.size then cfg.size - cfg.idx ppos
             else min cfg.rblock (cfg.size - (ppos - s.sh.cseq))
  let th' : Th := ({ s.P with res := none } : Th).goto (.g111 tot ms ppos len)
  have hst : tstep cfg s.sh .p s.P = some (s.sh, th') := by
    unfold tstep
    rw [hpc]
    simp only [hnc, Bool.false_eq_true, ↓reduceIte]
    rfl
  refine ⟨({ s with sh := s.sh } : St).setTh .p th', len, ?_, rfl, e1', a, b, c, d⟩
  unfold step
  simp only [St.getTh]
  rw [hst]

/-- **`ReadFrom` is kept from reading only by a completely full ring.**  In a reachable state in
which no thread can take a step: a producer that has not finished its program is parked in
`waitForWriteSpace` with the ring open; if it is inside `ReadFrom` (frame `rfrom`) the ring is
completely full (`pseq = cseq + size`: not one byte free); and it is never the `WriteCommit` called
by `ReadFrom` that waits (frame `rfcommit`: the space it commits was free when `ReadFrom` loaded the
consumer cursor).  Before commit 8f682d1 the first statement read "less than a read block free" —
with the processor waiting for the rest of a packet that needs that block, finding F3. -/
theorem C15_ReadFrom_waits_only_when_full (cfg : Cfg) (adv gate : Nat) (progP progC : List Call)
    (progsK : List (List Call)) (hgate : gate ≤ adv) (hok : ProgsOK progP progC progsK) (sched : List Tid) :
    let s := reach cfg adv gate progP progC progsK sched
    (∀ t, step cfg s t = none) →
    (s.P.pc = .idle ∧ s.P.prog = []) ∨
    (pParked s.P.pc = true ∧ s.sh.done = false ∧
      (∀ tot ms, s.P.cur = some (.rfrom tot ms) → s.sh.pseq = s.sh.cseq + cfg.size) ∧
      (∀ tot ms, s.P.cur ≠ some (.rfcommit tot ms))) := by
  intro s hq
  have h := C15_invariant cfg adv gate progP progC progsK hgate hok sched
  rcases quiescent_legit cfg adv s h.safe h.lock h.nlwc h.nlwp hq .p s.P rfl with a | ⟨hc, _⟩ | ⟨_, hpk, hns, hd⟩
  · exact Or.inl a
  · cases hc
  · refine Or.inr ⟨hpk, hd, ?_, ?_⟩
    all_goals (
      have hp := h.safe.invP.pcinv
      have hpcs : s.sh.pseq ≤ s.sh.cseq + cfg.size := h.safe.glob.pc
      unfold pcP at hp
      cases hpc : s.P.pc <;> rw [hpc] at hpk hns hp <;> simp only [pParked, Bool.false_eq_true] at hpk)
    · rename_i n ppos
      obtain ⟨e1, e2, _⟩ := hp
      have e1' : ppos = s.sh.pseq := e1
      have hns' : ppos + n > s.sh.cseq + cfg.size := hns
      intro tot ms hcur
      have := e2.2.2 tot ms hcur
      omega
    · exact hp.2.2

/-! ## The ring at CALL level: the contract of `RingA` (`Model/Lifecycle.lean`), derived

`Model/Lifecycle.lean` (Core F, property C16) sees each ring of a connection as `RingA` = (bytes buffered,
`done`) with one atomic step per ring call — `RingA.waitSpace`, `commitP`, `waitData`, `commitC`, `close` —, a
call that waits being a step that is not enabled.  The theorems below derive that view from the ring program:
`absRing s = (pseq - cseq, done)`, `ringCfg cfg` = the life-cycle configuration with `cap = size`.

* `C15_step_refines_ringA`            every step of the ring program is invisible through `absRing` or IS one
                                      of `RingA.commitP` (+n, producer only), `RingA.commitC` (-n, consumer
                                      only), `RingA.close`; nothing else changes what `RingA` sees;
* `C15_single_writer`                 only `p` moves `pseq`, only `c` moves `cseq`, `done` only goes up, and only
                                      at the first statement of `Close`;
* `C15_call_refines_ringA_producer`   `Write(l)` / `WriteWait(l)` / `WriteCommit(l)` from call to return, under any
                                      interleaving: outcome, linearisation point, net effect, `Close` makes blocked and later
                                      calls fail, and parked = guard false;
* `C15_call_refines_ringA_consumer`   the same for `ReadWait(n)` / `ReadPeek(n)` and `ReadCommit(n)`;
* `C15_call_refines_ringA_close`      the same for `Close` (any thread), and what `done` does to the others;
* `C15_readfrom_refines_ringA`        `ReadFrom`'s loop iteration = wait-for-one-byte, read, commit, deferred `Close`;
* `C15_parked_iff_guard_false`        a quiescent state, thread by thread.

**`done` versus the cursors (finding F9, NOTES-f9.md).**  `RingA` tests `done` and the cursors in one atomic step; buffer.go
tested them at two statements of a wait loop.  Since the repair (a consumer that has seen `done` loads the producer cursor
again; `waitForWriteSpace` tests `isDone` once more after its last look at the consumer cursor) the two are tested in ONE
state where it matters: a consumer's end-of-stream and a producer's `ok` of `waitForWriteSpace` are EXACT `RingA` steps
(`RingA.waitData … = eof`, `RingA.waitSpace … = ok` on `absRing` of the linearisation state, no `done` flag of another
moment), and `Close` makes every parked, blocked-or-later producer call fail.  What the ring before the repair did:
`C15_old_ring_late_commit`, `C15_old_ring_eof_with_data` (closed executions of `Model.Ring.tstepPreF9`, reproduced on the real
buffer).  What is left: a committing producer call tests `done` at its last `isDone` test and stores the cursor a few
statements later — `Close` in between is `C15_commit_window`; `asOpen` remains only in the equation of that store step. -/

open Mqtt.Model.Lifecycle (RingA Ret)

/-- **Every step of the ring program is a `RingA` step or invisible.**  In a reachable state, a step of thread
`t` standing at program counter `pc`: unless `pc` is a cursor store or the `done` store (`visOf pc = tau`) the step
does not change `absRing`; the cursor store of `Write`/`WriteCommit` is taken by the producer only, with
`buf + n ≤ cap` before it, and is `RingA.commitP … n = ok` (on the ring with `done` as the call saw it: open);
the cursor store of `Read`/`ReadCommit` is taken by the consumer only, with `n ≤ buf`, and is `RingA.commitC`;
the first statement of `Close` is `RingA.close`. -/
theorem C15_step_refines_ringA (cfg : Cfg) (adv gate : Nat) (progP progC : List Call) (progsK : List (List Call))
    (hgate : gate ≤ adv) (hok : ProgsOK progP progC progsK) (sched : List Tid) (t : Tid) (th : Th) (s' : St) :
    let s := reach cfg adv gate progP progC progsK sched
    s.getTh t = some th → step cfg s t = some s' →
    match visOf th.pc with
    | .tau => absRing s' = absRing s
    | .prod n => t = .p ∧ (absRing s).buf + n ≤ (ringCfg cfg).cap ∧
        absRing s' = { absRing s with buf := (absRing s).buf + n } ∧
        RingA.commitP (ringCfg cfg) (asOpen (absRing s)) n = some (.ok, asOpen (absRing s'))
    | .cons n => t = .c ∧ n ≤ (absRing s).buf ∧ RingA.commitC (ringCfg cfg) (absRing s) n = some (absRing s')
    | .close => RingA.close (ringCfg cfg) (absRing s) = some (absRing s') := by
  intro s hth hs
  have h := (C15_invariant cfg adv gate progP progC progsK hgate hok sched).safe
  have hv := vis_step cfg adv s s' t th h hth hs
  cases hvis : visOf th.pc with
  | tau =>
    rw [hvis] at hv
    simp only
    obtain ⟨a, b, c⟩ := hv
    exact absRing_ext s s' (by rw [a, b]) c
  | prod n =>
    rw [hvis] at hv
    simp only
    obtain ⟨rfl, a, b, c, d⟩ := hv
    obtain ⟨x, y, z⟩ := linP_ringA cfg n s s' h.glob.cp ⟨hs, d, a, b, c⟩
    exact ⟨rfl, x, y, z⟩
  | cons n =>
    rw [hvis] at hv
    simp only
    obtain ⟨rfl, a, b, c, d⟩ := hv
    obtain ⟨x, y⟩ := linC_ringA cfg n s s' ⟨hs, d, a, b, c⟩
    exact ⟨rfl, x, y⟩
  | close =>
    rw [hvis] at hv
    simp only
    obtain ⟨a, b, c⟩ := hv
    exact linX_ringA cfg t s s' ⟨hs, c, a, b⟩

/-- **Single writer.**  In a reachable state a step of a thread other than the producer leaves `pseq`, a step of a
thread other than the consumer leaves `cseq`, and `done` changes only at the first statement of `Close`, which
sets it.  (So the net effect of a call on `absRing` is what its own steps do, whatever runs in between.) -/
theorem C15_single_writer (cfg : Cfg) (adv gate : Nat) (progP progC : List Call) (progsK : List (List Call))
    (hgate : gate ≤ adv) (hok : ProgsOK progP progC progsK) (sched : List Tid) (t : Tid) (s' : St) :
    let s := reach cfg adv gate progP progC progsK sched
    step cfg s t = some s' →
    (t ≠ .p → s'.sh.pseq = s.sh.pseq) ∧ (t ≠ .c → s'.sh.cseq = s.sh.cseq) ∧
    (s.sh.pseq ≤ s'.sh.pseq ∧ s.sh.cseq ≤ s'.sh.cseq) ∧
    (s'.sh.done = s.sh.done ∨ ∃ th, s.getTh t = some th ∧ th.pc = .x10 ∧ s'.sh.done = true) := by
  intro s hs
  have h := (C15_invariant cfg adv gate progP progC progsK hgate hok sched).safe
  exact ⟨step_pseq cfg adv s s' t h hs, step_cseq cfg adv s s' t h hs, step_mono cfg adv s s' t h hs, step_done cfg s s' t hs⟩

/-- **Producer calls refine `RingA.waitSpace` / `RingA.commitP`.**  In a reachable state `s` let the producer be
about to call `Write(l)`, `WriteWait(l)` or `WriteCommit` (which commits `l = min n filled` bytes); let `sched` be
ANY schedule (steps of the consumer, of closers and of the producer itself, in any order) and `a` the state after it.

(1) If the call has returned in `a` with result `r`, then `r.err` is `ok`, end-of-stream or `ErrBufferFull`, and
* `full`: `cap < l`, i.e. `RingA.waitSpace` answers `full`; `pseq` is what it was;
* end-of-stream: `done` is set in `a` — so `RingA.waitSpace` answers `eof` there — and `pseq` is what it was;
* `ok`: ONE own step `x → y` of the call — its LAST `isDone` test (mark 39, after its last look at the consumer cursor) —
  IS `RingA.waitSpace (absRing x) l = ok`, EXACTLY: the ring is open AND `buf + l ≤ cap` in the same state `x`, and the
  step changes nothing (since the repair of F9; before it the two were tested at different moments,
  `C15_old_ring_late_commit`).  For `Write`/`WriteCommit` a LATER own step `x' → y'` — the cursor store — has
  `buf + l ≤ cap` before it and adds exactly `l`, changing nothing else; it IS `RingA.commitP (absRing x') l = ok`
  if the ring is still open in `x'`; the result is `l` and `pseq` has grown by exactly `l`.  (What is left of the
  gap: `Close` between that last test and the store — for `Write` the byte copy lies in between —,
  `C15_commit_window`.)  For `WriteWait`, `pseq` is what it was and `buf + l ≤ cap` holds in `a`, and from then on.

(2) **`Close` makes every blocked or later producer call fail.**  If at ANY point `x` of the execution `done` is set
while the call has not yet passed its last `isDone` test — it has not started, it is parked in `pcond.Wait` or about to
park, it has just been woken, it is anywhere in `waitForWriteSpace` or at the entry of `Write` — the call does not return
`ok` (it returns end-of-stream, or `ErrBufferFull` for `cap < l`).

(3) If no thread can take a step in `a`, the call is unfinished exactly when the producer is parked inside it
and `RingA.waitSpace (absRing a) l = none`: blocked = the life-cycle step is not enabled.

That the producer's own steps touch neither `cseq` nor `done`, and other threads' steps not `pseq`: `C15_single_writer`. -/
theorem C15_call_refines_ringA_producer (cfg : Cfg) (adv gate : Nat) (progP progC : List Call) (progsK : List (List Call))
    (hgate : gate ≤ adv) (hok : ProgsOK progP progC progsK) (sched0 : List Tid)
    (call : Call) (rest : List Call) (hk : (∃ n, call = .write n) ∨ (∃ n, call = .wwait n) ∨ ∃ m, call = .wcommit m)
    (sched : List Tid) :
    let s := reach cfg adv gate progP progC progsK sched0
    s.P.pc = .idle → s.P.prog = call :: rest →
    let l := amount call s.P
    let c := ringCfg cfg
    let a := run cfg s sched
    (∀ r, pRet a rest r →
      (r.err = .ok ∨ r.err = .eof ∨ r.err = .full) ∧
      (r.err = .full → c.cap < l ∧ RingA.waitSpace c (absRing a) l = some (.full, absRing a) ∧ a.sh.pseq = s.sh.pseq) ∧
      (r.err = .eof → a.sh.done = true ∧ a.sh.pseq = s.sh.pseq ∧
        (l ≤ c.cap → RingA.waitSpace c (absRing a) l = some (.eof, absRing a))) ∧
      (r.err = .ok → s.sh.done = false ∧
        (∃ pre post, sched = pre ++ .p :: post ∧
          step cfg (run cfg s pre) .p = some (run cfg s (pre ++ [.p])) ∧
          RingA.waitSpace c (absRing (run cfg s pre)) l = some (.ok, absRing (run cfg s pre)) ∧
          absRing (run cfg s (pre ++ [.p])) = absRing (run cfg s pre) ∧
          (commits call = true → ∃ mid post', post = mid ++ .p :: post' ∧
            step cfg (run cfg s (pre ++ .p :: mid)) .p = some (run cfg s (pre ++ .p :: mid ++ [.p])) ∧
            (absRing (run cfg s (pre ++ .p :: mid))).buf + l ≤ c.cap ∧
            absRing (run cfg s (pre ++ .p :: mid ++ [.p])) =
              { absRing (run cfg s (pre ++ .p :: mid)) with buf := (absRing (run cfg s (pre ++ .p :: mid))).buf + l } ∧
            ((run cfg s (pre ++ .p :: mid)).sh.done = false →
              RingA.commitP c (absRing (run cfg s (pre ++ .p :: mid))) l =
                some (.ok, absRing (run cfg s (pre ++ .p :: mid ++ [.p])))))) ∧
        (commits call = true → r.n = l ∧ a.sh.pseq = s.sh.pseq + l) ∧
        (commits call = false → a.sh.pseq = s.sh.pseq ∧
          RingA.waitSpace c (asOpen (absRing a)) l = some (.ok, asOpen (absRing a))))) ∧
    (∀ pre post r, sched = pre ++ post → (run cfg s pre).sh.done = true → notPastFinal call rest (run cfg s pre) →
      pRet a rest r → r.err ≠ .ok) ∧
    ((∀ t, step cfg a t = none) →
      (¬ pOver rest a ↔
        (pParked a.P.pc = true ∧ a.P.cur = some call ∧ a.P.prog = rest ∧ RingA.waitSpace c (absRing a) l = none))) := by
  intro s hidle hprog l c a
  have hlive := C15_invariant cfg adv gate progP progC progsK hgate hok sched0
  have h := hlive.safe
  refine ⟨fun r hret => ?_, fun pre post r hsch hd hnp hret => ?_, fun hq => ?_⟩
  · obtain ⟨a1, a2, a3, a4, a5, a6, a7⟩ := pcall_start cfg adv call rest hk s sched h hidle hprog r hret
    have ha : RInv cfg adv a := rinv_run cfg adv s sched h
    refine ⟨a1, ?_, ?_, ?_⟩
    · intro hf
      obtain ⟨x, y⟩ := a3 hf
      exact ⟨x, ra_waitSpace_full c _ l x, y⟩
    · intro he
      obtain ⟨x, y⟩ := a2 he
      exact ⟨x, y, fun hl => ra_waitSpace_eof c rfl _ l x hl⟩
    · intro ho
      refine ⟨a4 ho, ?_, ?_, ?_⟩
      · obtain ⟨pre, post, b3, b4, b5⟩ := a7 ho
        have hx : RInv cfg adv (run cfg s pre) := rinv_run cfg adv s pre h
        obtain ⟨w1, w2⟩ := linW_ringA cfg l _ _ hx.glob.cp b4
        refine ⟨pre, post, b3, b4.1, w1, w2, fun hc => ?_⟩
        obtain ⟨mid, post', c1, c2⟩ := b5 hc
        have hx' : RInv cfg adv (run cfg s (pre ++ .p :: mid)) := rinv_run cfg adv s _ h
        obtain ⟨x, y, z⟩ := linP_ringA cfg l _ _ hx'.glob.cp c2
        refine ⟨mid, post', c1, c2.1, x, y, fun hdx => ?_⟩
        have hdy : (run cfg s (pre ++ .p :: mid ++ [.p])).sh.done = false := by rw [c2.2.2.2.2]; exact hdx
        rw [asOpen_of_open _ (by simpa using hdx), asOpen_of_open _ (by simpa using hdy)] at z
        exact z
      · intro hc
        obtain ⟨b1, b2, _⟩ := a5 ho hc
        exact ⟨b1, b2⟩
      · intro hc
        obtain ⟨b1, b2⟩ := a6 ho hc
        refine ⟨b1, ra_waitSpace_ok c _ l rfl ?_⟩
        have hcp : a.sh.cseq ≤ a.sh.pseq := ha.glob.cp
        have b2' : a.sh.pseq + l ≤ a.sh.cseq + cfg.size := b2
        show a.sh.pseq - a.sh.cseq + l ≤ cfg.size
        omega
  · have hret' : pRet (run cfg s (pre ++ post)) rest r := by rw [← hsch]; exact hret
    exact pcall_start_closed cfg adv call rest hk s pre post h hidle hprog r hret' hd hnp
  · have hk' := plainP_amount call s.P hk
    have hph : PPhase cfg call l rest s := .notStarted hidle hprog rfl
    have hqz := pcall_quiescent cfg adv call l rest hk' s sched hlive hph hq
    constructor
    · intro hno
      rcases hqz with ho | ⟨ppos, h1, h2, h3, h4, h5, h6⟩
      · exact absurd ho hno
      · refine ⟨by rw [h1]; rfl, h2, h3, ?_⟩
        rw [Mqtt.Proofs.Lifecycle.waitSpace_none_iff]
        exact ⟨h5, h4, by simpa [c] using h6⟩
    · rintro ⟨hpk, _, hpr, _⟩ ho
      rcases ho with ⟨_, hi⟩ | hlt
      · rw [hi] at hpk; simp [pParked] at hpk
      · rw [hpr] at hlt; exact Nat.lt_irrefl _ hlt

/-- **Consumer calls refine `RingA.waitData` / `RingA.commitC`.**  In a reachable state `s` let the consumer be
between two calls, `sched` any schedule, `a` the state after it.

(A) `ReadWait(n)` (`w = true`, waits for `n` bytes) resp. `ReadPeek(n)` (`w = false`, waits for one byte, hands out
at most `n`) is the next call.  (1) If it has returned with `r`: the consumer cursor is what it was (no effect);
`r.err = full` iff `cap < n` (`RingA.waitData` answers `full`); end-of-stream only with `done` set, and ONE own step
`x → y` of the call — the load of the producer cursor AFTER it has seen `done` (marks 131–133) — IS
`RingA.waitData (absRing x) need = eof`, EXACTLY: `done` is set AND fewer than the awaited bytes are buffered in the same
state `x` (since the repair of F9; before it `done` and the cursor were tested at different moments and end-of-stream could be
answered with the bytes there, `C15_old_ring_eof_with_data`); otherwise the `r.n` bytes handed out (`= n`, no error, for
`ReadWait`) are buffered in `a`, and stay so until the consumer's own next commit: `RingA.waitData (absRing a) n = ok`,
whether or not the ring is closed (bytes committed before `Close` are still handed out).
(2) If nothing can run in `a`: the call is unfinished exactly when the consumer is parked inside it and
`RingA.waitData (absRing a) (need w n) = none`.

(B) `ReadCommit(m)` is the next call; it commits `l = min m (bytes looked at)`.  (1) If it has returned:
`ErrBufferFull` iff `cap < l` (no effect), else `ok`, result `l`, `cseq` has grown by exactly `l`, and one own step
`x → y` IS `RingA.commitC (absRing x) l = some (absRing y)`, with `l ≤ buf` before it.  (2) It never waits. -/
theorem C15_call_refines_ringA_consumer (cfg : Cfg) (adv gate : Nat) (progP progC : List Call) (progsK : List (List Call))
    (hgate : gate ≤ adv) (hok : ProgsOK progP progC progsK) (sched0 : List Tid) (rest : List Call) (sched : List Tid) :
    let s := reach cfg adv gate progP progC progsK sched0
    let c := ringCfg cfg
    let a := run cfg s sched
    s.C.pc = .idle →
    (∀ w n, s.C.prog = waitCall w n :: rest →
      (∀ r, cRet a rest r →
        a.sh.cseq = s.sh.cseq ∧ (r.err = .full ↔ c.cap < n) ∧
        (r.err = .full → RingA.waitData c (absRing a) n = some (.full, absRing a)) ∧
        (r.err = .eof → a.sh.done = true ∧
          ∃ pre post, sched = pre ++ .c :: post ∧
            step cfg (run cfg s pre) .c = some (run cfg s (pre ++ [.c])) ∧
            RingA.waitData c (absRing (run cfg s pre)) (need w n) = some (.eof, absRing (run cfg s pre)) ∧
            absRing (run cfg s (pre ++ [.c])) = absRing (run cfg s pre)) ∧
        (r.err ≠ .eof → r.err ≠ .full → waitRes w n r ∧ r.n ≤ (absRing a).buf ∧
          (w = true → RingA.waitData c (absRing a) n = some (.ok, absRing a)))) ∧
      ((∀ t, step cfg a t = none) →
        (¬ cOver rest a ↔
          (cParked a.C.pc = true ∧ a.C.cur = some (waitCall w n) ∧ a.C.prog = rest ∧
            RingA.waitData c (absRing a) (need w n) = none)))) ∧
    (∀ m, s.C.prog = .commit m :: rest →
      (∀ r, cRet a rest r →
        (r.err = .full ↔ c.cap < min m s.C.pending.length) ∧ (r.err = .full → a.sh.cseq = s.sh.cseq) ∧
        (r.err ≠ .full → r.err = .ok ∧ r.n = min m s.C.pending.length ∧
          a.sh.cseq = s.sh.cseq + min m s.C.pending.length ∧
          ∃ pre post, sched = pre ++ .c :: post ∧
            step cfg (run cfg s pre) .c = some (run cfg s (pre ++ [.c])) ∧
            min m s.C.pending.length ≤ (absRing (run cfg s pre)).buf ∧
            RingA.commitC c (absRing (run cfg s pre)) (min m s.C.pending.length) = some (absRing (run cfg s (pre ++ [.c]))))) ∧
      ((∀ t, step cfg a t = none) → cOver rest a)) := by
  intro s c a hidle
  have hlive := C15_invariant cfg adv gate progP progC progsK hgate hok sched0
  have h := hlive.safe
  have hsz : 1 ≤ cfg.size := size_pos cfg
  refine ⟨fun w n hprog => ⟨fun r hret => ?_, fun hq => ?_⟩, fun m hprog => ⟨fun r hret => ?_, fun hq => ?_⟩⟩
  · obtain ⟨a1, a2, a3, a4⟩ := wcall_start cfg adv w n rest s sched h hidle hprog r hret
    refine ⟨a1, a2, fun hf => ra_waitData_full c _ n (a2.mp hf), ?_, ?_⟩
    · intro he
      obtain ⟨x, y⟩ := a3 he
      have hnf : ¬ cfg.size < n := fun hb => by have := a2.mpr hb; rw [he] at this; cases this
      have hneed : need w n ≤ cfg.size := by cases w <;> simp [need] <;> omega
      obtain ⟨pre, post, b3, b4⟩ := y
      obtain ⟨e1, e2⟩ := linE_ringA cfg _ _ _ hneed b4
      exact ⟨x, pre, post, b3, b4.1, e1, e2⟩
    · intro hne hnf
      obtain ⟨x, y⟩ := a4 hne hnf
      refine ⟨x, y, fun hw => ?_⟩
      have hnfit : ¬ cfg.size < n := fun hb => hnf (a2.mpr hb)
      refine ra_waitData_ok c _ n (by show n ≤ cfg.size; omega) ?_
      have := (x.2.1 hw).1
      rw [this] at y
      exact y
  · have hph : WPhase cfg w n rest s := .notStarted hidle hprog
    have hqz := wcall_quiescent cfg adv w n rest s sched hlive hph hq
    constructor
    · intro hno
      rcases hqz with ho | ⟨cpos, h1, h2, h3, h4, h5, h6⟩
      · exact absurd ho hno
      · refine ⟨by rw [h1]; rfl, h2, h3, ?_⟩
        rw [Mqtt.Proofs.Lifecycle.waitData_none_iff]
        have hneed : need w n ≤ cfg.size := by cases w <;> simp [need] <;> omega
        exact ⟨hneed, by simpa using h6, h4⟩
    · rintro ⟨hpk, _, hpr, _⟩ ho
      rcases ho with ⟨_, hi⟩ | hlt
      · rw [hi] at hpk; simp [cParked] at hpk
      · rw [hpr] at hlt; exact Nat.lt_irrefl _ hlt
  · obtain ⟨a1, a2, a3⟩ := ccall_start cfg adv m rest s sched h hidle hprog r hret
    refine ⟨a1, a2, fun hne => ?_⟩
    obtain ⟨b0, b1, b2, pre, post, b3, b4⟩ := a3 hne
    obtain ⟨x, y⟩ := linC_ringA cfg _ _ _ b4
    exact ⟨b0, b1, b2, pre, post, b3, b4.1, x, y⟩
  · exact ccall_quiescent cfg adv m (min m s.C.pending.length) rest s sched hlive (.notStarted hidle hprog rfl) hq

/-- **`Close` refines `RingA.close`, and `done` enables every other call.**  In a reachable state `s` let thread `t`
(producer, consumer or a closer) be about to call `Close`; `sched` any schedule, `a` the state after it.
(1) If the call has returned: it returns `ok`, `done` is set in `a`, and one own step `x → y` — its first statement —
IS `RingA.close (absRing x) = some (absRing y)`: `done := true`, cursors untouched (`Close` is always enabled).
(2) If nothing can run in `a`: nobody is inside `Close` — it never waits (`C15_CloseTerminates`: seven own steps,
kept from stepping only by a mutex whose holder is enabled) —, and if `done` is set in `a` (by this `Close` or
any other) NO call is unfinished: every call that was parked when `done` was set has returned — with end-of-stream,
or, its condition having been met meanwhile, with its data / space (parts (1) of the producer and consumer
contracts say which) —, the `RingA` steps that `done` enables. -/
theorem C15_call_refines_ringA_close (cfg : Cfg) (adv gate : Nat) (progP progC : List Call) (progsK : List (List Call))
    (hgate : gate ≤ adv) (hok : ProgsOK progP progC progsK) (sched0 : List Tid) (t : Tid) (th : Th) (rest : List Call)
    (sched : List Tid) :
    let s := reach cfg adv gate progP progC progsK sched0
    let c := ringCfg cfg
    let a := run cfg s sched
    s.getTh t = some th → th.pc = .idle → th.prog = .close :: rest →
    (∀ r, tRet a t rest r →
      r.err = .ok ∧ a.sh.done = true ∧
      ∃ pre post, sched = pre ++ t :: post ∧
        step cfg (run cfg s pre) t = some (run cfg s (pre ++ [t])) ∧
        RingA.close c (absRing (run cfg s pre)) = some (absRing (run cfg s (pre ++ [t])))) ∧
    ((∀ u, step cfg a u = none) →
      (∀ u thu, a.getTh u = some thu → closeRank thu.pc = 0) ∧
      (a.sh.done = true → ∀ u thu, a.getTh u = some thu → thu.pc = .idle ∧ thu.prog = [])) := by
  intro s c a hth hidle hprog
  have hlive := C15_invariant cfg adv gate progP progC progsK hgate hok sched0
  have hla : Live cfg adv a := live_run cfg adv s sched hlive
  refine ⟨fun r hret => ?_, fun hq => ⟨fun u thu hu => quiescent_no_close cfg adv a hla hq u thu hu, fun hd u thu hu => ?_⟩⟩
  · obtain ⟨a1, a2, pre, post, b3, b4⟩ := xcall_start cfg t rest s sched th hth hidle hprog r hret
    exact ⟨a1, a2, pre, post, b3, b4.1, linX_ringA cfg t _ _ b4⟩
  · rcases quiescent_legit cfg adv a hla.safe hla.lock hla.nlwc hla.nlwp hq u thu hu with x | ⟨_, _, _, b⟩ | ⟨_, _, _, b⟩
    · exact x
    · rw [hd] at b; cases b
    · rw [hd] at b; cases b

/-- **`ReadFrom`'s loop iteration refines the receiver's ring steps** (`Model/Lifecycle.lean`: `.space` =
`waitSpace 1`, `.read` of at most `readMax = min rblock (cap - buf)` bytes, `.commit n` = `commitP n`, `.close`).
In every reachable state:
(1) at mark 112 — `waitForWriteSpace(1)` has returned `ok` — one byte is free: `buf + 1 ≤ cap` (the guard of
    `RingA.waitSpace … 1 = ok`; it stays true: only the consumer changes `buf` until the commit);
(2) at mark 111 the slice handed to the socket read has at most `cap - buf` bytes (and at least one, at most a read
    block: `C15_ReadFrom_reads_nonempty`);
(3) when the read has returned `n` bytes, and inside the `WriteCommit(n)` that follows up to and including its
    cursor store, `buf + n ≤ cap` (`InvA.rcommit` of the life-cycle model): that `WriteCommit` finds its space —
    it never waits (`C15_ReadFrom_waits_only_when_full`) —, and its cursor store is `RingA.commitP … n = ok`
    (`C15_step_refines_ringA`);
(4) `ReadFrom` returns only through its deferred `Close`: the step at the last statement of `Close` in the frame
    `rfret n e` returns `(n, e)` and the ring is closed then (the receiver's `.close` step);
(5) if nothing can run and the producer, unfinished, is inside `ReadFrom`'s own `waitForWriteSpace(1)`, it is parked in `waitForWriteSpace(1)` and
    `RingA.waitSpace (absRing s) 1 = none`: the ring is open and completely full. -/
theorem C15_readfrom_refines_ringA (cfg : Cfg) (adv gate : Nat) (progP progC : List Call) (progsK : List (List Call))
    (hgate : gate ≤ adv) (hok : ProgsOK progP progC progsK) (sched : List Tid) :
    let s := reach cfg adv gate progP progC progsK sched
    let c := ringCfg cfg
    (∀ tot ms ppos, s.P.pc = .g112 tot ms ppos → (absRing s).buf + 1 ≤ c.cap) ∧
    (∀ tot ms start len, s.P.pc = .g111 tot ms start len → len ≤ c.cap - (absRing s).buf) ∧
    (∀ tot ms n, s.P.pc = .g111r tot ms n → (absRing s).buf + n ≤ c.cap) ∧
    (∀ tot ms n, s.P.cur = some (.rfcommit tot ms) → (wfsArg s.P.pc = some n ∨ ∃ ppos, s.P.pc = .c50 n ppos) →
      (absRing s).buf + n ≤ c.cap) ∧
    (∀ n e s', s.P.pc = .x16 → s.P.cur = some (.rfret n e) → step cfg s .p = some s' →
      s'.P.pc = .idle ∧ s'.P.res = some { n := n, err := e } ∧ s'.sh.done = true) ∧
    ((∀ t, step cfg s t = none) → ¬ (s.P.pc = .idle ∧ s.P.prog = []) → ∀ tot ms, s.P.cur = some (.rfrom tot ms) →
      pParked s.P.pc = true ∧ RingA.waitSpace c (absRing s) 1 = none) := by
  intro s c
  have hlive := C15_invariant cfg adv gate progP progC progsK hgate hok sched
  have h := hlive.safe
  have hcp : s.sh.cseq ≤ s.sh.pseq := h.glob.cp
  have hp := h.invP.pcinv
  unfold pcP at hp
  refine ⟨?_, ?_, ?_, ?_, ?_, ?_⟩
  · intro tot ms ppos hpc
    rw [hpc] at hp
    have e1 : ppos = s.sh.pseq := hp.1
    have e2 : ppos + 1 ≤ s.sh.cseq + cfg.size := hp.2
    show s.sh.pseq - s.sh.cseq + 1 ≤ cfg.size
    omega
  · intro tot ms start len hpc
    rw [hpc] at hp
    have e1 : start = s.sh.pseq := hp.1
    have e2 : start + len ≤ s.sh.cseq + cfg.size := hp.2
    show len ≤ cfg.size - (s.sh.pseq - s.sh.cseq)
    omega
  · intro tot ms n hpc
    rw [hpc] at hp
    have e2 : s.sh.pseq + n ≤ s.sh.cseq + cfg.size := hp.2
    show s.sh.pseq - s.sh.cseq + n ≤ cfg.size
    omega
  · intro tot ms n hcur hpc
    have := rfcommit_fits cfg adv s h tot ms n hcur hpc
    show s.sh.pseq - s.sh.cseq + n ≤ cfg.size
    omega
  · intro n e s' hpc hcur hs
    have hD : DInv s := dinv_run cfg _ sched (dinv_init cfg adv gate progP progC progsK)
    have hdone := close_return_done cfg s s' .p s.P hD rfl hpc hs
    obtain ⟨hst, _, _⟩ := step_p cfg s s' hs
    have hcr := tstep_crash _ _ _ _ _ hst
    cases hP : s.P with
    | mk pc prog cur slice filled view pending res =>
      rw [hP] at hst hpc hcur
      simp only at hpc hcur
      subst hpc hcur
      simp only [tstep, Bool.false_eq_true, ↓reduceIte, hcr, Option.some.injEq, Prod.mk.injEq, closeRet] at hst
      rw [← hst.2]
      exact ⟨rfl, rfl, hdone⟩
  · intro hq hnf tot ms hcur
    rcases C15_ReadFrom_waits_only_when_full cfg adv gate progP progC progsK hgate hok sched hq with hfin | ⟨hpk, hd, hfull, _⟩
    · exact absurd hfin hnf
    · refine ⟨hpk, ?_⟩
      rw [Mqtt.Proofs.Lifecycle.waitSpace_none_iff]
      have this' : s.sh.pseq = s.sh.cseq + cfg.size := hfull tot ms hcur
      refine ⟨size_pos cfg, hd, ?_⟩
      show cfg.size < s.sh.pseq - s.sh.cseq + 1
      omega

/-- **Blocked = not enabled, thread by thread.**  In a reachable state in which no thread can take a step:
the producer is unfinished exactly when it is parked in `waitForWriteSpace(n)` with the ring open and
`cap < buf + n` — i.e. `RingA.waitSpace (absRing s) n = none` (for `n ≤ cap`, which the call-level theorems supply:
`n` is the call's argument and larger requests were refused at once) —; the consumer is unfinished exactly when it
is parked in `ReadWait(n)` / `ReadPeek` with the ring open and fewer than `need` bytes buffered —
`RingA.waitData (absRing s) need = none` — or in `Read` with the ring open and empty; closers are never unfinished. -/
theorem C15_parked_iff_guard_false (cfg : Cfg) (adv gate : Nat) (progP progC : List Call) (progsK : List (List Call))
    (hgate : gate ≤ adv) (hok : ProgsOK progP progC progsK) (sched : List Tid) :
    let s := reach cfg adv gate progP progC progsK sched
    let c := ringCfg cfg
    (∀ t, step cfg s t = none) →
    (¬ (s.P.pc = .idle ∧ s.P.prog = []) ↔
      ∃ n ppos, s.P.pc = .s36w n ppos ∧ s.sh.done = false ∧ c.cap < (absRing s).buf + n ∧
        (n ≤ c.cap → RingA.waitSpace c (absRing s) n = none)) ∧
    (¬ (s.C.pc = .idle ∧ s.C.prog = []) ↔
      (∃ w n cpos, s.C.pc = .p86w w n cpos ∧ s.sh.done = false ∧ (absRing s).buf < need w n ∧
        (n ≤ c.cap → RingA.waitData c (absRing s) (need w n) = none)) ∨
      (∃ n cpos, s.C.pc = .r77w n cpos ∧ s.sh.done = false ∧ (absRing s).buf = 0)) ∧
    (∀ (i : Nat) (th : Th), s.K[i]? = some th → th.pc = .idle ∧ th.prog = []) := by
  intro s c hq
  have hlive := C15_invariant cfg adv gate progP progC progsK hgate hok sched
  have h := hlive.safe
  have hcp : s.sh.cseq ≤ s.sh.pseq := h.glob.cp
  have hsz : 1 ≤ cfg.size := size_pos cfg
  refine ⟨⟨fun hnf => ?_, ?_⟩, ⟨fun hnf => ?_, ?_⟩, fun i th hth => ?_⟩
  · rcases quiescent_legit cfg adv s h hlive.lock hlive.nlwc hlive.nlwp hq .p s.P rfl with hf | ⟨hc, _⟩ | ⟨_, hpk, hns, hd⟩
    · exact absurd hf hnf
    · cases hc
    · have hp := h.invP.pcinv
      unfold pcP at hp
      cases hpc : s.P.pc <;> rw [hpc] at hpk hns hp <;> simp only [pParked, Bool.false_eq_true] at hpk
      rename_i n ppos
      have e1 : ppos = s.sh.pseq := hp.1
      have hns' : ppos + n > s.sh.cseq + cfg.size := hns
      have hb : cfg.size < s.sh.pseq - s.sh.cseq + n := by omega
      refine ⟨n, ppos, rfl, hd, hb, fun hn => ?_⟩
      rw [Mqtt.Proofs.Lifecycle.waitSpace_none_iff]
      exact ⟨hn, hd, hb⟩
  · rintro ⟨n, ppos, hpc, _⟩ ⟨hi, _⟩
    rw [hpc] at hi; cases hi
  · rcases quiescent_legit cfg adv s h hlive.lock hlive.nlwc hlive.nlwp hq .c s.C rfl with hf | ⟨_, hpk, hns, hd⟩ | ⟨hc, _⟩
    · exact absurd hf hnf
    · have hp := h.invC.pcinv
      unfold pcC at hp
      cases hpc : s.C.pc <;> rw [hpc] at hpk hns hp <;> simp only [cParked, Bool.false_eq_true] at hpk
      · rename_i n cpos
        right
        have e1 : cpos = s.sh.cseq := hp
        have hns' : s.sh.pseq ≤ cpos := hns
        exact ⟨n, cpos, rfl, hd, by show s.sh.pseq - s.sh.cseq = 0; omega⟩
      · rename_i w n cpos
        left
        have e1 : cpos = s.sh.cseq := hp
        have hns' : mustWait w n cpos s.sh.pseq = true := hns
        have hb : s.sh.pseq - s.sh.cseq < need w n := by
          subst e1
          cases w <;> simp [mustWait, need] at hns' ⊢ <;> omega
        refine ⟨w, n, cpos, rfl, hd, hb, fun hn => ?_⟩
        rw [Mqtt.Proofs.Lifecycle.waitData_none_iff]
        have hneed : need w n ≤ cfg.size := by
          have hn' : n ≤ cfg.size := hn
          cases w <;> simp [need] <;> omega
        exact ⟨hneed, hb, hd⟩
    · cases hc
  · rintro (⟨w, n, cpos, hpc, _⟩ | ⟨n, cpos, hpc, _⟩) ⟨hi, _⟩
    · rw [hpc] at hi; cases hi
    · rw [hpc] at hi; cases hi
  · rcases quiescent_legit cfg adv s h hlive.lock hlive.nlwc hlive.nlwp hq (.k i) th hth with hf | ⟨hc, _⟩ | ⟨hc, _⟩
    · exact hf
    · cases hc
    · cases hc

/-! ### finding F9: `done` versus the cursors — the ring before the repair, the repaired ring on the same schedules, and
what is left (closed executions on a 4-byte ring) -/

/-- a reachable state of the ring BEFORE the repair of F9 (`Model.Ring.tstepPreF9`) -/
def reachPreF9 (cfg : Cfg) (adv gate : Nat) (progP progC : List Call) (progsK : List (List Call))
    (sched : List Tid) : St :=
  runPreF9 cfg (mkInit cfg adv gate progP progC progsK) sched

/-- **F9 (1), the ring before the repair — a producer commit after `Close`.**  Ring of 4 bytes, full; the producer is
parked in `Write(2)` (30 producer steps: `Write(4)`, then `Write(2)` up to `pcond.Wait`); a closer runs `Close` COMPLETELY
(8 steps; `done` is set, the producer is woken but not scheduled); the consumer runs `ReadWait(2)`, reads, `ReadCommit(2)`
COMPLETELY (two bytes are free now); then the producer re-evaluates only its space condition
(`for cpos = cseq.get(); wrap > cpos; …` — `done` was tested inside the loop body only), finds it false, copies, and commits:
`Write` returns `(2, nil)`, `pseq` goes 4 → 6, with `done = true` in every state since before the consumer even started.
`RingA.commitP` on that ring answers end-of-stream.  Reproduced on the real buffer (corpus/ring/f9-late-commit.ops).
THE REPAIRED RING on the same schedule (second part): the producer, woken, finds room, tests `isDone` once more
(mark 39) and returns end-of-stream; `pseq` stays 4 — `C15_call_refines_ringA_producer` (2). -/
theorem C15_old_ring_late_commit :
    let cfg : Cfg := { k := 2, src := fun i => UInt8.ofNat (i + 1) }
    let c := ringCfg cfg
    let sch1 := List.replicate 30 Tid.p
    let sch2 := sch1 ++ List.replicate 8 (.k 0)
    let sch3 := sch2 ++ List.replicate 30 .c
    let sch4 := sch3 ++ List.replicate 12 .p
    (let progs := reachPreF9 cfg 0 0 [.write 4, .write 2] [.rwait 2, .use, .commit 2] [[.close]]
     (pParked (progs sch1).P.pc = true ∧ (progs sch1).P.cur = some (.write 2) ∧ absRing (progs sch1) = { buf := 4, done := false }) ∧
     (((progs sch2).K.map (·.pc)) = [.idle] ∧ absRing (progs sch2) = { buf := 4, done := true } ∧ pParked (progs sch2).P.pc = true) ∧
     ((progs sch3).C.pc = .idle ∧ (progs sch3).C.prog = [] ∧ absRing (progs sch3) = { buf := 2, done := true } ∧
       pParked (progs sch3).P.pc = true ∧ RingA.commitP c (absRing (progs sch3)) 2 = some (.eof, absRing (progs sch3))) ∧
     ((progs sch4).P.pc = .idle ∧ (progs sch4).P.prog = [] ∧ (progs sch4).P.res = some { n := 2 } ∧
       absRing (progs sch4) = { buf := 4, done := true } ∧ (progs sch4).sh.pseq = 6)) ∧
    (let progs := reach cfg 0 0 [.write 4, .write 2] [.rwait 2, .use, .commit 2] [[.close]]
     (pParked (progs sch1).P.pc = true ∧ absRing (progs sch1) = { buf := 4, done := false }) ∧
     (absRing (progs sch3) = { buf := 2, done := true } ∧ pParked (progs sch3).P.pc = true) ∧
     ((progs sch4).P.pc = .idle ∧ (progs sch4).P.prog = [] ∧ (progs sch4).P.res = some { err := .eof } ∧
       absRing (progs sch4) = { buf := 2, done := true } ∧ (progs sch4).sh.pseq = 4)) := by
  decide +kernel

/-- **F9 (2), the ring before the repair — end-of-stream although the bytes are there.**  Empty ring of 4 bytes.  The
consumer's `ReadWait(2)` has taken `ccond.L`, tested the producer cursor (nothing there) and stands before its `isDone` test
(5 consumer steps); the producer's `Write(2)` stores the cursor and waits for `ccond.L` to broadcast; a closer's `Close` stores
`done` and waits for `ccond.L` too; the consumer tests `done`, unlocks and returns end-of-stream — in a state with 2 bytes
buffered, where `RingA.waitData … 2` answers `ok`; its next `ReadWait(2)` returns those 2 bytes: end-of-stream, then data.
Reproduced on the real buffer (corpus/ring/f9-eof-with-data.ops).  (`done` can be set inside that window only by a
third goroutine: a producer that commits and then closes the ring itself needs `ccond.L` for the Broadcast of that commit
first.)  THE REPAIRED RING on the same schedule (second part): having seen `done` the consumer loads the producer cursor
again (mark 133), finds the 2 bytes, and returns them — `C15_call_refines_ringA_consumer` (A). -/
theorem C15_old_ring_eof_with_data :
    let cfg : Cfg := { k := 2, src := fun i => UInt8.ofNat (i + 1) }
    let c := ringCfg cfg
    let sch1 := List.replicate 5 Tid.c ++ List.replicate 30 .p ++ List.replicate 8 (.k 0)
    (let progs := reachPreF9 cfg 0 0 [.write 2] [.rwait 2, .rwait 2] [[.close]]
     let s1 := progs sch1
     let s2 := progs (sch1 ++ List.replicate 2 .c)
     let s3 := progs (sch1 ++ List.replicate 2 .c ++ List.replicate 12 .p ++ List.replicate 8 (.k 0) ++ List.replicate 12 .c)
     (s1.C.pc = .p84 true 2 0 ∧ s1.P.pc = .w43 2 ∧ (s1.K.map (·.pc)) = [.x14] ∧ absRing s1 = { buf := 2, done := true }) ∧
     (s2.C.pc = .idle ∧ (s2.C.res.map (·.err)) = some .eof ∧ absRing s2 = { buf := 2, done := true } ∧
       RingA.waitData c (absRing s2) 2 = some (.ok, absRing s2)) ∧
     (s3.C.pc = .idle ∧ s3.C.prog = [] ∧ (s3.C.res.map (fun r => (r.n, r.err))) = some (2, .ok))) ∧
    (let progs := reach cfg 0 0 [.write 2] [.rwait 2, .rwait 2] [[.close]]
     let s1 := progs sch1
     let s2 := progs (sch1 ++ List.replicate 1 .c)
     let s3 := progs (sch1 ++ List.replicate 3 .c)
     (s1.C.pc = .p84 true 2 0 ∧ s1.P.pc = .w43 2 ∧ absRing s1 = { buf := 2, done := true }) ∧
     s2.C.pc = .p84r true 2 0 ∧
     (s3.C.pc = .idle ∧ (s3.C.res.map (fun r => (r.n, r.err))) = some (2, .ok))) := by
  decide +kernel

/-- **What is left (repaired ring): `Close` between a producer's last `isDone` test and its cursor store.**  Empty ring of
4 bytes.  The producer's `Write(2)` has passed its last `isDone` test (5 steps: it stands at the byte copy); a closer runs
`Close` completely; the consumer's `ReadWait(2)` sees `done`, looks at the producer cursor again — nothing — and returns
end-of-stream, exactly as `RingA.waitData` does in that state; then the producer copies, stores the cursor and returns `ok`,
and the consumer's next `ReadWait(2)` returns the 2 bytes.  Each consumer call is an exact `RingA` step; the producer's
`ok` is exact at its last test (`RingA.waitSpace … = ok` there) and its effect lands two statements later, after the
`Close`.  Closing this window needs the `done` store and (`done` test + cursor store) under one mutex — a different
locking scheme of the ring, not a repair.  Inside a connection the closers of the INCOMING ring are the producer itself
(the receiver's deferred `Close`, after its last commit) and `stop()`; a commit that races `stop()` races the teardown. -/
theorem C15_commit_window :
    let cfg : Cfg := { k := 2, src := fun i => UInt8.ofNat (i + 1) }
    let c := ringCfg cfg
    let progs := reach cfg 0 0 [.write 2] [.rwait 2, .rwait 2] [[.close]]
    let sch1 := List.replicate 5 Tid.p
    let sch2 := sch1 ++ List.replicate 8 (.k 0)
    let sch3 := sch2 ++ List.replicate 6 .c
    let sch4 := sch3 ++ List.replicate 2 .c
    let sch5 := sch4 ++ List.replicate 8 .p
    let sch6 := sch5 ++ List.replicate 8 .c
    ((progs sch1).P.pc = .w41c 2 0 0 ∧ beforeFinal (progs sch1).P.pc = false ∧ absRing (progs sch1) = { buf := 0, done := false }) ∧
    (((progs sch2).K.map (·.pc)) = [.idle] ∧ absRing (progs sch2) = { buf := 0, done := true }) ∧
    ((progs sch3).C.pc = .p84r true 2 0 ∧
      RingA.waitData c (absRing (progs sch3)) 2 = some (.eof, absRing (progs sch3))) ∧
    ((progs sch4).C.pc = .idle ∧ ((progs sch4).C.res.map (·.err)) = some .eof) ∧
    ((progs sch5).P.pc = .idle ∧ (progs sch5).P.res = some { n := 2 } ∧ absRing (progs sch5) = { buf := 2, done := true }) ∧
    ((progs sch6).C.pc = .idle ∧ ((progs sch6).C.res.map (fun r => (r.n, r.err))) = some (2, .ok)) := by
  decide +kernel

/-! non-vacuity: a blocked reader is woken by data, a blocked reader is woken by Close -/

def exCfg : Cfg := { k := 2, src := fun i => UInt8.ofNat (i + 1) }

/-- the consumer parks (no data), the producer then writes: everybody finishes, no mutex held -/
example :
    let s := reach exCfg 0 0 [.write 2] [.read 2] [] (List.replicate 10 .c ++ List.replicate 12 .p ++ List.replicate 12 .c)
    s.P.pc = .idle ∧ s.C.pc = .idle ∧ s.C.prog = [] ∧ s.sh.gotRev.reverse = [1, 2] ∧ s.sh.pL = none ∧ s.sh.cL = none := by
  decide +kernel

/-- after 7 consumer steps the reader is parked in `ccond.Wait` -/
example :
    let s := reach exCfg 0 0 [] [.rwait 2] [[.close]] (List.replicate 8 .c)
    cParked s.C.pc = true ∧ s.sh.cL = none := by decide +kernel

/-- …and Close from another thread makes it return end-of-stream, leaving both mutexes free -/
example :
    let s := reach exCfg 0 0 [] [.rwait 2] [[.close]] (List.replicate 8 .c ++ List.replicate 8 (.k 0) ++ List.replicate 6 .c)
    s.C.pc = .idle ∧ s.C.prog = [] ∧ (s.C.res.map (·.err)) = some .eof ∧ s.sh.pL = none ∧ s.sh.cL = none ∧ s.sh.done = true := by
  decide +kernel

/-- `ReadFrom` on a 4-byte ring with read block 2 and no consumer: two reads of 2 bytes, then the ring
is completely full and the producer is parked in `waitForWriteSpace(1)` — only then -/
example :
    let cfg : Cfg := { k := 2, src := fun i => UInt8.ofNat (i + 1), rblock := 2 }
    let s := reach cfg 0 0 [.rfrom 0 [4, 4, 4]] [] [[.close]] (List.replicate 50 .p)
    pParked s.P.pc = true ∧ s.P.cur = some (.rfrom 4 [4]) ∧ s.sh.pseq = s.sh.cseq + cfg.size ∧ s.sh.pL = none := by
  decide +kernel

/-- …and Close from another thread makes it return (`return 0, err` of `ReadFrom`, after its own
deferred `Close`), leaving both mutexes free -/
example :
    let cfg : Cfg := { k := 2, src := fun i => UInt8.ofNat (i + 1), rblock := 2 }
    let s := reach cfg 0 0 [.rfrom 0 [4, 4, 4]] [] [[.close]]
      (List.replicate 50 .p ++ List.replicate 8 (.k 0) ++ List.replicate 20 .p)
    s.P.pc = .idle ∧ s.P.prog = [] ∧ s.P.res = some { n := 0, err := .eof } ∧ s.sh.pseq = 4 ∧
      s.sh.pL = none ∧ s.sh.cL = none ∧ s.sh.done = true := by
  decide +kernel

/-! non-vacuity of the call-level contract, on a ring of 4 bytes -/

/-- `C15_call_refines_ringA_producer` (2): `Write(2)` on a full ring with nobody else around parks; nothing can run;
the call is not over, and `RingA.waitSpace … 2 = none` -/
example :
    let s := reach exCfg 0 0 [.write 4, .write 2] [] [] (List.replicate 14 .p)
    let a := run exCfg s (List.replicate 20 .p)
    s.P.pc = .idle ∧ s.P.prog = [.write 2] ∧ amount (.write 2) s.P = 2 ∧
    step exCfg a .p = none ∧ step exCfg a .c = none ∧ a.K = [] ∧
    pParked a.P.pc = true ∧ a.P.cur = some (.write 2) ∧ a.P.prog = [] ∧
    RingA.waitSpace (ringCfg exCfg) (absRing a) 2 = none := by decide +kernel

/-- `C15_call_refines_ringA_producer` (1): the same call, parked, is released by the consumer's `ReadCommit(2)` and
returns `ok`: its last `isDone` test (the 4th producer step after the wake-up, `s39`) IS `RingA.waitSpace … 2 = ok` on the ring
as it is; the cursor store (the 8th, `w42`) has `buf + 2 ≤ cap` before it and IS `RingA.commitP … 2 = ok`; `pseq` has grown by 2 -/
example :
    let s := reach exCfg 0 0 [.write 4, .write 2] [.rwait 2, .use, .commit 2] [] (List.replicate 14 .p)
    let sched := List.replicate 20 .p ++ List.replicate 30 .c ++ List.replicate 12 .p
    let pre := List.replicate 20 .p ++ List.replicate 30 .c ++ List.replicate 3 .p
    let mid := List.replicate 3 Tid.p
    let a := run exCfg s sched
    let x := run exCfg s pre
    let x' := run exCfg s (pre ++ .p :: mid)
    let y' := run exCfg s (pre ++ .p :: mid ++ [.p])
    s.P.pc = .idle ∧ s.P.prog = [.write 2] ∧ s.sh.done = false ∧
    pParked (run exCfg s (List.replicate 20 .p)).P.pc = true ∧
    pRet a [] { n := 2 } ∧ a.sh.pseq = s.sh.pseq + 2 ∧
    sched = pre ++ .p :: (mid ++ .p :: List.replicate 4 .p) ∧
    x.P.pc = .s39 2 4 ∧ RingA.waitSpace (ringCfg exCfg) (absRing x) 2 = some (.ok, absRing x) ∧
    x'.P.pc = .w42 2 4 ∧ (step exCfg x' .p).isSome = true ∧
    absRing x' = { buf := 2 } ∧ absRing y' = { buf := 4 } ∧
    RingA.commitP (ringCfg exCfg) (absRing x') 2 = some (.ok, absRing y') := by decide +kernel

/-- `C15_call_refines_ringA_producer` (2): the same parked call is released by `Close` instead: woken, it finds no room,
sees `done` and returns end-of-stream; and if the consumer frees the room before the producer runs, it finds room,
tests `isDone` once more and returns end-of-stream all the same (`C15_old_ring_late_commit`, second part) -/
example :
    let s := reach exCfg 0 0 [.write 4, .write 2] [] [[.close]] (List.replicate 14 .p)
    let x := run exCfg s (List.replicate 20 .p ++ List.replicate 8 (.k 0))
    let a := run exCfg s (List.replicate 20 .p ++ List.replicate 8 (.k 0) ++ List.replicate 6 .p)
    x.sh.done = true ∧ pParked x.P.pc = true ∧ notPastFinal (.write 2) [] x ∧
    pRet a [] { err := .eof } ∧ a.sh.pseq = s.sh.pseq := by decide +kernel

/-- `C15_call_refines_ringA_consumer` (A): `ReadWait(2)` on an empty ring parks (`RingA.waitData … 2 = none`); `Close` from
another thread releases it: end-of-stream, `done` set, too little data when the call started -/
example :
    let s := reach exCfg 0 0 [] [.rwait 2] [[.close]] []
    let q := run exCfg s (List.replicate 8 .c)
    let a := run exCfg s (List.replicate 8 .c ++ List.replicate 8 (.k 0) ++ List.replicate 6 .c)
    s.C.pc = .idle ∧ s.C.prog = [waitCall true 2] ∧
    cParked q.C.pc = true ∧ RingA.waitData (ringCfg exCfg) (absRing q) (need true 2) = none ∧
    cRet a [] { err := .eof } ∧ a.sh.done = true ∧ a.sh.cseq = s.sh.cseq ∧
    (let x := run exCfg s (List.replicate 8 .c ++ List.replicate 8 (.k 0) ++ List.replicate 3 .c)
     x.C.pc = .p84r true 2 0 ∧
     RingA.waitData (ringCfg exCfg) (absRing x) (need true 2) = some (.eof, absRing x)) := by
  decide +kernel

/-- `C15_call_refines_ringA_consumer` (A) with data and (B): `ReadWait(2)` with 3 bytes buffered returns `ok`
(`RingA.waitData … 2 = ok`); after looking at the bytes, `ReadCommit(2)` returns `ok`, `cseq` has grown by 2, and its third
own step (`k102`) IS `RingA.commitC … 2` -/
example :
    let s0 := reach exCfg 0 0 [.write 3] [.rwait 2, .use, .commit 2] [] (List.replicate 20 .p)
    let a0 := run exCfg s0 (List.replicate 6 .c)
    let s := run exCfg s0 (List.replicate 10 .c)
    let a := run exCfg s (List.replicate 7 .c)
    let x := run exCfg s (List.replicate 3 .c)
    let y := run exCfg s (List.replicate 3 .c ++ [.c])
    s0.C.pc = .idle ∧ s0.C.prog = [waitCall true 2, .use, .commit 2] ∧
    cRet a0 [.use, .commit 2] { n := 2 } ∧ RingA.waitData (ringCfg exCfg) (absRing a0) 2 = some (.ok, absRing a0) ∧
    s.C.pc = .idle ∧ s.C.prog = [.commit 2] ∧ min 2 s.C.pending.length = 2 ∧
    cRet a [] { n := 2 } ∧ a.sh.cseq = s.sh.cseq + 2 ∧ x.C.pc = .k102 2 0 ∧ (step exCfg x .c).isSome = true ∧
    RingA.commitC (ringCfg exCfg) (absRing x) 2 = some (absRing y) ∧ absRing x = { buf := 3 } ∧ absRing y = { buf := 1 } := by
  decide +kernel

/-- `C15_call_refines_ringA_close`: `Close` by a closer thread: eight own steps, returns `ok`; its second step (the first
statement of `Close`) IS `RingA.close` -/
example :
    let s := reach exCfg 0 0 [] [] [[.close]] []
    let a := run exCfg s (List.replicate 8 (.k 0))
    let x := run exCfg s [.k 0]
    let y := run exCfg s ([.k 0] ++ [.k 0])
    s.getTh (.k 0) = some { prog := [.close] } ∧ a.getTh (.k 0) = some { res := some {} } ∧ a.sh.done = true ∧
    (x.K.map (·.pc)) = [.x10] ∧ (step exCfg x (.k 0)).isSome = true ∧ RingA.close (ringCfg exCfg) (absRing x) = some (absRing y) ∧
    absRing x = {} ∧ absRing y = { done := true } := by decide +kernel

/-- `C15_readfrom_refines_ringA`: `ReadFrom` on a 4-byte ring with read block 2: at mark 112 one byte is free, at mark 111
the slice has 2 ≤ `cap - buf` bytes, the `WriteCommit(2)` it calls fits, and its cursor store is `RingA.commitP … 2 = ok` -/
example :
    let cfg : Cfg := { k := 2, src := fun i => UInt8.ofNat (i + 1), rblock := 2 }
    let r := fun k => reach cfg 0 0 [.rfrom 0 [4, 4, 4]] [] [[.close]] (List.replicate k .p)
    (r 5).P.pc = .g112 0 [4, 4, 4] 0 ∧ (absRing (r 5)).buf + 1 ≤ (ringCfg cfg).cap ∧
    (r 6).P.pc = .g111 0 [4, 4, 4] 0 2 ∧ 2 ≤ (ringCfg cfg).cap - (absRing (r 6)).buf ∧
    (r 10).P.pc = .g111r 0 [4, 4] 2 ∧
    (r 14).P.pc = .c50 2 0 ∧ (r 14).P.cur = some (.rfcommit 2 [4, 4]) ∧ visOf (r 14).P.pc = .prod 2 ∧
    RingA.commitP (ringCfg cfg) (absRing (r 14)) 2 = some (.ok, absRing (r 15)) := by decide +kernel

end Mqtt.Properties.C15
