/-
C15 — blocking on the byte ring is live.

Property theorems only (helper lemmas: `Proofs/RingLive.lean`, `Proofs/RingProgress.lean`).
They are about the model of the *repaired* `service/buffer.go` (defects D1–D4 of DESIGN §9 and
the read-block reservation of `ReadFrom`, finding F3; see known_findings.json) and hold for every
ring size, thread programs (well-typed by role: one producer, one consumer, any number of closers,
Close also callable by producer and consumer; `ReadFrom` with any reader script among the producer's
calls), and every schedule.  Liveness is stated without temporal logic:

* `C15_NoLeak`            a mutex is held only by a thread inside that mutex's critical section;
                          a thread between two calls (or finished) holds none; the process never
                          crashes on an unlocked-mutex Unlock.
* `C15_NoLostWakeup`      a parked, not yet woken waiter whose wait condition is already false
                          (data / space committed, or the ring closed) has a pending broadcaster:
                          another thread between its cursor/`done` store and the matching Broadcast.
* `C15_CloseTerminates`   Close is seven own steps in a straight line; it can only be kept from
                          stepping by a held mutex, whose holder is enabled and releases it within
                          three own steps.
* `C15_DoneUnblocks`      `done` is never reset; with `done` set every entry check returns
                          end-of-stream and every wait loop leaves through its unlock-and-return
                          exit; a state in which nothing can run has no unfinished call.
* `C15_Progress_quiescent` deadlock- and lost-wake-up-freedom: if no thread can take a step, every
                          unfinished thread is legitimately waiting (parked, ring open, its
                          condition genuinely unmet).
* `C15_ReadFrom_reads_nonempty`, `C15_ReadFrom_waits_only_when_full`
                          `ReadFrom` (repository commit 8f682d1) hands its reader a slice of at least one
                          byte (it cannot spin on an empty read), its `WriteCommit` never waits, and the
                          only state in which it is kept from reading is a ring that is completely full
                          and open — it is never parked while a single byte is free (finding F3 was:
                          parked while less than a read block is free).
* `C15_Progress`          a termination measure `mu` (rank of the program counters + weight of the
                          calls not yet started + credit of pending wake-ups) strictly decreases with
                          every enabled step of every thread: no schedule contains more than
                          `mu (initial state)` enabled steps (no livelock), and from every reachable
                          state at most that many enabled steps lead to a state where nothing can run —
                          in which every call has returned or waits legitimately, and every call has
                          returned if `Close` was called.
Fairness of the Go scheduler (an enabled goroutine is eventually run) is the remaining hypothesis.
-/
import Mqtt.Proofs.RingTerm
import Mqtt.Proofs.RingFacts

set_option linter.unusedSimpArgs false
set_option linter.unusedVariables false

namespace Mqtt.Properties.C15
open Mqtt.Model.Ring Mqtt.Iface.Ring Mqtt.Spec.Ring Mqtt.Proofs.Ring

/-- a reachable state: any schedule from the initial state of well-typed programs -/
def reach (cfg : Cfg) (adv gate : Nat) (progP progC : List Call) (progsK : List (List Call))
    (sched : List Tid) : St :=
  run cfg (mkInit cfg adv gate progP progC progsK) sched

/-- the liveness invariant (safety + lock discipline + no lost wake-up on either condition
variable) is preserved by every step of every thread … -/
theorem C15_invariant_step (cfg : Cfg) (base : Nat) (s s' : St) (t : Tid)
    (h : Live cfg base s) (hs : step cfg s t = some s') : Live cfg base s' :=
  live_step cfg base s s' t h hs

/-- … and holds in every reachable state. -/
theorem C15_invariant (cfg : Cfg) (adv gate : Nat) (progP progC : List Call) (progsK : List (List Call))
    (hgate : gate ≤ adv) (hok : ProgsOK progP progC progsK) (sched : List Tid) :
    Live cfg adv (reach cfg adv gate progP progC progsK sched) :=
  live_run cfg adv _ sched (live_init cfg adv gate progP progC progsK hgate hok)

/-- **NoLeak.** In every reachable state: no crash; whoever holds a mutex is an existing thread
whose program counter is inside that mutex's critical section; a thread that has returned from
its call (idle or finished) holds no mutex. -/
theorem C15_NoLeak (cfg : Cfg) (adv gate : Nat) (progP progC : List Call) (progsK : List (List Call))
    (hgate : gate ≤ adv) (hok : ProgsOK progP progC progsK) (sched : List Tid) :
    let s := reach cfg adv gate progP progC progsK sched
    s.sh.crash = false ∧
    (∀ m t, s.sh.owner m = some t → ∃ th, s.getTh t = some th ∧ holds th.pc m = true) ∧
    (∀ m t th, s.getTh t = some th → th.pc = .idle → s.sh.owner m ≠ some t) := by
  intro s
  have h := (C15_invariant cfg adv gate progP progC progsK hgate hok sched).lock
  refine ⟨h.nocrash, ?_, ?_⟩
  · intro m t ho
    obtain ⟨th, hth⟩ := h.real m t ho
    exact ⟨th, hth, (h.own t th hth m).mpr ho⟩
  · intro m t th hth hidle ho
    have := (h.own t th hth m).mpr ho
    rw [hidle, holds_idle] at this
    cases this

/-- **NoLostWakeup.** In every reachable state: if the consumer is parked in `ccond.Wait` and has
not been woken, then (i) its wait condition still holds for the *current* producer cursor or some
other thread sits between its `pseq` store and the ccond Broadcast, and (ii) the ring is still open
or some other thread sits between the `done` store and Close's ccond Broadcast.  Symmetrically for
the producer parked in `pcond.Wait`. -/
theorem C15_NoLostWakeup (cfg : Cfg) (adv gate : Nat) (progP progC : List Call) (progsK : List (List Call))
    (hgate : gate ≤ adv) (hok : ProgsOK progP progC progsK) (sched : List Tid) :
    let s := reach cfg adv gate progP progC progsK sched
    (cParked s.C.pc = true → s.sh.cNote = false →
      (noDataAt s.sh.pseq s.C.pc ∨ exPc s .c pendC) ∧ (s.sh.done = false ∨ exPc s .c pendCd)) ∧
    (pParked s.P.pc = true → s.sh.pNote = false →
      (noSpaceAt cfg.size s.sh.cseq s.P.pc ∨ exPc s .p pendP) ∧ (s.sh.done = false ∨ exPc s .p pendPd)) := by
  intro s
  have h := C15_invariant cfg adv gate progP progC progsK hgate hok sched
  refine ⟨fun hp hn => ?_, fun hp hn => ?_⟩
  · have hst : cStage s.C.pc = 2 := by
      cases hpc : s.C.pc <;> rw [hpc] at hp <;> simp [cParked, cStage] at hp ⊢
    have H := h.nlwc (by rw [hst]; decide) (fun _ => hn)
    exact ⟨H.1, H.2 hst⟩
  · have hst : pStage s.P.pc = 2 := by
      cases hpc : s.P.pc <;> rw [hpc] at hp <;> simp [pParked, pStage] at hp ⊢
    have H := h.nlwp (by rw [hst]; decide) (fun _ => hn)
    exact ⟨H.1, H.2 hst⟩

/-- **CloseTerminates.**  (1) Every own step of a thread inside `Close` decreases `closeRank`
(7 … 1) by exactly one and the last one returns: `ok` to a caller of `Close`; if it was the deferred
`Close` of `ReadFrom` (frame `rfret n e`), `ReadFrom` returns `(n, e)`.  (2) In a reachable state a thread inside
`Close` that cannot step is at one of its two `Lock`s and that mutex is held by an existing
thread which *can* step.  (3) A thread inside a critical section releases the mutex within
`csRank ≤ 3` own steps, none of which blocks. -/
theorem C15_CloseTerminates (cfg : Cfg) (adv gate : Nat) (progP progC : List Call) (progsK : List (List Call))
    (hgate : gate ≤ adv) (hok : ProgsOK progP progC progsK) (sched : List Tid) :
    let s := reach cfg adv gate progP progC progsK sched
    (∀ t th sh' th', s.getTh t = some th → 0 < closeRank th.pc → tstep cfg s.sh t th = some (sh', th') →
        closeRank th'.pc + 1 = closeRank th.pc ∧
        (closeRank th'.pc = 0 → th'.pc = .idle ∧ ∃ r, th'.res = some r ∧
          ((∀ n e, th.cur ≠ some (.rfret n e)) → r.err = .ok) ∧
          (∀ n e, th.cur = some (.rfret n e) → r.n = n ∧ r.err = e))) ∧
    (∀ t th, s.getTh t = some th → 0 < closeRank th.pc → step cfg s t = none →
        ∃ m t' th', wantsLock th.pc = some m ∧ s.sh.owner m = some t' ∧ s.getTh t' = some th' ∧
          holds th'.pc m = true ∧ step cfg s t' ≠ none) ∧
    (∀ t th m sh' th', s.getTh t = some th → holds th.pc m = true → tstep cfg s.sh t th = some (sh', th') →
        holds th'.pc m = true → csRank th'.pc < csRank th.pc) ∧
    (∀ pc, csRank pc ≤ 3) := by
  intro s
  have h := (C15_invariant cfg adv gate progP progC progsK hgate hok sched).lock
  refine ⟨?_, ?_, ?_, ?_⟩
  · intro t th sh' th' _ hc hs
    exact close_rank_step cfg s.sh sh' t th th' hc hs
  · intro t th hth hc hs
    have hn := step_none_tstep cfg s t th hth hs
    have key : ∀ m, wantsLock th.pc = some m → s.sh.owner m ≠ none →
        ∃ m t' th', wantsLock th.pc = some m ∧ s.sh.owner m = some t' ∧ s.getTh t' = some th' ∧
          holds th'.pc m = true ∧ step cfg s t' ≠ none := by
      intro m hw ho
      cases hot : s.sh.owner m with
      | none => exact absurd hot ho
      | some t' =>
        obtain ⟨th', hth'⟩ := h.real m t' hot
        have hh := (h.own t' th' hth' m).mpr hot
        refine ⟨m, t', th', hw, hot, hth', hh, fun hs' => ?_⟩
        exact holder_enabled cfg s.sh t' th' m h.nocrash hh (step_none_tstep cfg s t' th' hth' hs')
    rcases close_blocked cfg s.sh t th h.nocrash hc hn with ⟨hpc, ho⟩ | ⟨hpc, ho⟩
    · exact key .pL (by rw [hpc]; rfl) ho
    · exact key .cL (by rw [hpc]; rfl) ho
  · intro t th m sh' th' _ hh hs
    exact cs_rank_step cfg s.sh sh' t th th' m hh hs
  · intro pc; cases pc <;> simp [csRank]

/-- **DoneUnblocks.**  (1) `done` is never reset.  (2) With `done` set, a thread at an entry check
(`Write`, `waitForWriteSpace`, the head of `ReadFrom`'s loop) returns end-of-stream in that step —
inside `ReadFrom`: begins `ReadFrom`'s deferred `Close` (seven straight-line steps, `C15_CloseTerminates`),
after which `ReadFrom` returns end-of-stream —, and a thread at the `done` test of a wait loop goes to
the loop's unlock-and-return exit instead of `Wait`; (3) that exit returns end-of-stream (resp. begins
`ReadFrom`'s deferred `Close`) holding no mutex.  (4) A reachable state with `done` set in which no
thread can take a step has no unfinished call: nobody stays blocked once the ring is closed. -/
theorem C15_DoneUnblocks (cfg : Cfg) (adv gate : Nat) (progP progC : List Call) (progsK : List (List Call))
    (hgate : gate ≤ adv) (hok : ProgsOK progP progC progsK) (sched : List Tid) :
    let s := reach cfg adv gate progP progC progsK sched
    (∀ t th sh' th', tstep cfg s.sh t th = some (sh', th') → s.sh.done = true → sh'.done = true) ∧
    (∀ t th sh' th', s.sh.done = true → doneTest th.pc = true → tstep cfg s.sh t th = some (sh', th') →
        (th'.pc = .idle ∧ ∃ r, th'.res = some r ∧ r.err = .eof) ∨
        (th'.pc = .x10 ∧ ∃ n, th'.cur = some (.rfret n .eof)) ∨
        (∃ n p, th'.pc = .s35 n p) ∨ (∃ n c, th'.pc = .r76 n c) ∨ (∃ w n c, th'.pc = .p85 w n c)) ∧
    (∀ t th sh' th', ((∃ n p, th.pc = .s35 n p) ∨ (∃ n c, th.pc = .r76 n c) ∨ (∃ w n c, th.pc = .p85 w n c)) →
        tstep cfg s.sh t th = some (sh', th') →
        ((th'.pc = .idle ∧ ∃ r, th'.res = some r ∧ r.err = .eof) ∨
         (th'.pc = .x10 ∧ ∃ n, th'.cur = some (.rfret n .eof))) ∧ ∀ m, holds th'.pc m = false) ∧
    (s.sh.done = true → (∀ t, step cfg s t = none) →
        ∀ t th, s.getTh t = some th → th.pc = .idle ∧ th.prog = []) := by
  intro s
  have h := C15_invariant cfg adv gate progP progC progsK hgate hok sched
  refine ⟨?_, ?_, ?_, ?_⟩
  · intro t th sh' th' hs hd
    exact done_stable cfg s.sh sh' t th th' hd hs
  · intro t th sh' th' hd ht hs
    exact done_exits cfg s.sh sh' t th th' hd ht hs
  · intro t th sh' th' ht hs
    exact eof_exit_returns cfg s.sh sh' t th th' ht hs
  · intro hd hq t th hth
    rcases quiescent_legit cfg adv s h.safe h.lock h.nlwc h.nlwp hq t th hth with a | ⟨_, _, _, b⟩ | ⟨_, _, _, b⟩
    · exact a
    · rw [hd] at b; cases b
    · rw [hd] at b; cases b

/-- **Progress (quiescence form).**  In every reachable state in which no thread can take a step,
every thread has finished its program, or is the consumer parked with its data condition
genuinely unmet and the ring open, or the producer parked with its space condition genuinely unmet
and the ring open.  Contrapositive: whenever some call's completion condition holds (enough bytes /
space committed, or `Close` called) and the call has not returned, some thread is enabled — there
is no deadlock and no lost wake-up. -/
theorem C15_Progress_quiescent (cfg : Cfg) (adv gate : Nat) (progP progC : List Call) (progsK : List (List Call))
    (hgate : gate ≤ adv) (hok : ProgsOK progP progC progsK) (sched : List Tid) :
    let s := reach cfg adv gate progP progC progsK sched
    (∀ t, step cfg s t = none) →
    ∀ t th, s.getTh t = some th →
      (th.pc = .idle ∧ th.prog = []) ∨
      (t = .c ∧ cParked th.pc = true ∧ noDataAt s.sh.pseq th.pc ∧ s.sh.done = false) ∨
      (t = .p ∧ pParked th.pc = true ∧ noSpaceAt cfg.size s.sh.cseq th.pc ∧ s.sh.done = false) := by
  intro s hq t th hth
  have h := C15_invariant cfg adv gate progP progC progsK hgate hok sched
  exact quiescent_legit cfg adv s h.safe h.lock h.nlwc h.nlwp hq t th hth

/-- **Progress.**  (1) Every enabled step of every thread strictly decreases the measure `mu`.
(2) Along any schedule at most `mu (initial state)` steps are enabled: there is no livelock, wait
loops cannot spin (each iteration consumes a Broadcast of another thread, and programs are finite).
(3) From every reachable state, stepping enabled threads at most `mu` times reaches — by a
schedule, so again a reachable state — a state in which no thread can take a step; there every
thread has finished its program or is legitimately waiting (consumer parked, no/insufficient data,
ring open; producer parked, insufficient space, ring open), and if `Close` has been called every
thread has finished.  Together: a consumer blocked for data proceeds once enough bytes are
committed, a producer blocked for space proceeds once enough bytes are consumed, Close returns and
makes every blocked or later call return — in every run in which enabled threads keep being
scheduled (fairness of the Go scheduler is the hypothesis). -/
theorem C15_Progress (cfg : Cfg) (adv gate : Nat) (progP progC : List Call) (progsK : List (List Call))
    (hgate : gate ≤ adv) (hok : ProgsOK progP progC progsK) (sched : List Tid) :
    let s := reach cfg adv gate progP progC progsK sched
    (∀ t s', step cfg s t = some s' → mu cfg s' < mu cfg s) ∧
    taken cfg (mkInit cfg adv gate progP progC progsK) sched ≤ mu cfg (mkInit cfg adv gate progP progC progsK) ∧
    (∃ sched', let q := run cfg s sched'
        (∀ t, step cfg q t = none) ∧
        (∀ t th, q.getTh t = some th →
          (th.pc = .idle ∧ th.prog = []) ∨
          (t = .c ∧ cParked th.pc = true ∧ noDataAt q.sh.pseq th.pc ∧ q.sh.done = false) ∨
          (t = .p ∧ pParked th.pc = true ∧ noSpaceAt cfg.size q.sh.cseq th.pc ∧ q.sh.done = false)) ∧
        (q.sh.done = true → ∀ t th, q.getTh t = some th → th.pc = .idle ∧ th.prog = [])) := by
  intro s
  have h := C15_invariant cfg adv gate progP progC progsK hgate hok sched
  refine ⟨fun t s' hs => mu_step cfg adv s s' t h.safe hs, ?_, ?_⟩
  · have := taken_le_mu cfg adv _ sched (rinv_init cfg adv gate progP progC progsK hgate hok)
    omega
  · obtain ⟨sched', hd⟩ := drain_reach cfg s (mu cfg s)
    refine ⟨sched', ?_⟩
    have hq := drain_quiescent cfg adv s (mu cfg s) h.safe (Nat.le_refl _)
    rw [hd] at hq
    have hl := live_run cfg adv s sched' h
    refine ⟨hq, fun t th hth => quiescent_legit cfg adv _ hl.safe hl.lock hl.nlwc hl.nlwp hq t th hth, ?_⟩
    intro hdone t th hth
    rcases quiescent_legit cfg adv _ hl.safe hl.lock hl.nlwc hl.nlwp hq t th hth with a | ⟨_, _, _, b⟩ | ⟨_, _, _, b⟩
    · exact a
    · rw [hdone] at b; cases b
    · rw [hdone] at b; cases b

/-- the lock structure regenerated from buffer.go is the model's, and the model's step function
performs exactly those lock operations at the marks -/
theorem C15_lock_facts :
    Mqtt.Generated.bufferLocks = lockFacts ∧
    markPcs.map (fun pc => (pc.yid, lockOpCode pc))
      = (((lockFacts.map (·.2)).flatten |> markOps).filter (fun p => p.1 < 120)).map (fun p => (some p.1, p.2)) :=
  ⟨ring_lock_facts, lockFacts_steps⟩

/-- **`ReadFrom` never hands its reader an empty slice** (an `io.Reader` answers a zero-length `Read`
with `(0, nil)`: the loop would spin).  In a reachable state in which the producer is at mark 112 —
`waitForWriteSpace(1)` has returned, the consumer cursor is about to be loaded — its next step goes to
the socket read (mark 111) with a slice of `len` bytes at the producer position, where
`1 ≤ len ≤ read block`, the slice ends at or before the end of the ring, and lies inside the part of
the ring that is free as of the CURRENT consumer cursor (and stays free: the cursor only advances). -/
theorem C15_ReadFrom_reads_nonempty (cfg : Cfg) (adv gate : Nat) (progP progC : List Call) (progsK : List (List Call))
    (hgate : gate ≤ adv) (hok : ProgsOK progP progC progsK) (sched : List Tid) (hrb : 0 < cfg.rblock)
    (tot : Nat) (ms : List Nat) (ppos : Nat) :
    let s := reach cfg adv gate progP progC progsK sched
    s.P.pc = .g112 tot ms ppos →
    ∃ s' len, step cfg s .p = some s' ∧ s'.P.pc = .g111 tot ms ppos len ∧ ppos = s.sh.pseq ∧
      1 ≤ len ∧ len ≤ cfg.rblock ∧ cfg.idx ppos + len ≤ cfg.size ∧ ppos + len ≤ s.sh.cseq + cfg.size := by
  intro s hpc
  have h := (C15_invariant cfg adv gate progP progC progsK hgate hok sched).safe
  have hp := h.invP.pcinv
  unfold pcP at hp
  rw [hpc] at hp
  obtain ⟨e1, e2⟩ := hp
  have e1' : ppos = s.sh.pseq := e1
  have e2' : ppos + 1 ≤ s.sh.cseq + cfg.size := e2
  have hcp : s.sh.cseq ≤ s.sh.pseq := h.glob.cp
  have hnc : s.sh.crash = false := (C15_invariant cfg adv gate progP progC progsK hgate hok sched).lock.nocrash
  obtain ⟨a, b, c, d⟩ := readfrom_len cfg s.sh.cseq ppos hrb (by omega) e2'
  let len := if cfg.idx ppos + min cfg.rblock (cfg.size - (ppos - s.sh.cseq)) > cfg.size then cfg.size - cfg.idx ppos
             else min cfg.rblock (cfg.size - (ppos - s.sh.cseq))
  let th' : Th := ({ s.P with res := none } : Th).goto (.g111 tot ms ppos len)
  have hst : tstep cfg s.sh .p s.P = some (s.sh, th') := by
    unfold tstep
    rw [hpc]
    simp only [hnc, Bool.false_eq_true, ↓reduceIte]
    rfl
  refine ⟨({ s with sh := s.sh } : St).setTh .p th', len, ?_, rfl, e1', a, b, c, d⟩
  unfold step
  simp only [St.getTh]
  rw [hst]

/-- **`ReadFrom` is kept from reading only by a completely full ring.**  In a reachable state in
which no thread can take a step: a producer that has not finished its program is parked in
`waitForWriteSpace` with the ring open; if it is inside `ReadFrom` (frame `rfrom`) the ring is
completely full (`pseq = cseq + size`: not one byte free); and it is never the `WriteCommit` called
by `ReadFrom` that waits (frame `rfcommit`: the space it commits was free when `ReadFrom` loaded the
consumer cursor).  Before commit 8f682d1 the first statement read "less than a read block free" —
with the processor waiting for the rest of a packet that needs that block, finding F3. -/
theorem C15_ReadFrom_waits_only_when_full (cfg : Cfg) (adv gate : Nat) (progP progC : List Call)
    (progsK : List (List Call)) (hgate : gate ≤ adv) (hok : ProgsOK progP progC progsK) (sched : List Tid) :
    let s := reach cfg adv gate progP progC progsK sched
    (∀ t, step cfg s t = none) →
    (s.P.pc = .idle ∧ s.P.prog = []) ∨
    (pParked s.P.pc = true ∧ s.sh.done = false ∧
      (∀ tot ms, s.P.cur = some (.rfrom tot ms) → s.sh.pseq = s.sh.cseq + cfg.size) ∧
      (∀ tot ms, s.P.cur ≠ some (.rfcommit tot ms))) := by
  intro s hq
  have h := C15_invariant cfg adv gate progP progC progsK hgate hok sched
  rcases quiescent_legit cfg adv s h.safe h.lock h.nlwc h.nlwp hq .p s.P rfl with a | ⟨hc, _⟩ | ⟨_, hpk, hns, hd⟩
  · exact Or.inl a
  · cases hc
  · refine Or.inr ⟨hpk, hd, ?_, ?_⟩
    all_goals (
      have hp := h.safe.invP.pcinv
      have hpcs : s.sh.pseq ≤ s.sh.cseq + cfg.size := h.safe.glob.pc
      unfold pcP at hp
      cases hpc : s.P.pc <;> rw [hpc] at hpk hns hp <;> simp only [pParked, Bool.false_eq_true] at hpk)
    · rename_i n ppos
      obtain ⟨e1, e2, _⟩ := hp
      have e1' : ppos = s.sh.pseq := e1
      have hns' : ppos + n > s.sh.cseq + cfg.size := hns
      intro tot ms hcur
      have := e2.2.2 tot ms hcur
      omega
    · exact hp.2.2

/-! non-vacuity: a blocked reader is woken by data, a blocked reader is woken by Close -/

def exCfg : Cfg := { k := 2, src := fun i => UInt8.ofNat (i + 1) }

/-- the consumer parks (no data), the producer then writes: everybody finishes, no mutex held -/
example :
    let s := reach exCfg 0 0 [.write 2] [.read 2] [] (List.replicate 10 .c ++ List.replicate 12 .p ++ List.replicate 12 .c)
    s.P.pc = .idle ∧ s.C.pc = .idle ∧ s.C.prog = [] ∧ s.sh.gotRev.reverse = [1, 2] ∧ s.sh.pL = none ∧ s.sh.cL = none := by
  decide +kernel

/-- after 7 consumer steps the reader is parked in `ccond.Wait` -/
example :
    let s := reach exCfg 0 0 [] [.rwait 2] [[.close]] (List.replicate 8 .c)
    cParked s.C.pc = true ∧ s.sh.cL = none := by decide +kernel

/-- …and Close from another thread makes it return end-of-stream, leaving both mutexes free -/
example :
    let s := reach exCfg 0 0 [] [.rwait 2] [[.close]] (List.replicate 8 .c ++ List.replicate 8 (.k 0) ++ List.replicate 6 .c)
    s.C.pc = .idle ∧ s.C.prog = [] ∧ (s.C.res.map (·.err)) = some .eof ∧ s.sh.pL = none ∧ s.sh.cL = none ∧ s.sh.done = true := by
  decide +kernel

/-- `ReadFrom` on a 4-byte ring with read block 2 and no consumer: two reads of 2 bytes, then the ring
is completely full and the producer is parked in `waitForWriteSpace(1)` — only then -/
example :
    let cfg : Cfg := { k := 2, src := fun i => UInt8.ofNat (i + 1), rblock := 2 }
    let s := reach cfg 0 0 [.rfrom 0 [4, 4, 4]] [] [[.close]] (List.replicate 50 .p)
    pParked s.P.pc = true ∧ s.P.cur = some (.rfrom 4 [4]) ∧ s.sh.pseq = s.sh.cseq + cfg.size ∧ s.sh.pL = none := by
  decide +kernel

/-- …and Close from another thread makes it return (`return 0, err` of `ReadFrom`, after its own
deferred `Close`), leaving both mutexes free -/
example :
    let cfg : Cfg := { k := 2, src := fun i => UInt8.ofNat (i + 1), rblock := 2 }
    let s := reach cfg 0 0 [.rfrom 0 [4, 4, 4]] [] [[.close]]
      (List.replicate 50 .p ++ List.replicate 8 (.k 0) ++ List.replicate 20 .p)
    s.P.pc = .idle ∧ s.P.prog = [] ∧ s.P.res = some { n := 0, err := .eof } ∧ s.sh.pseq = 4 ∧
      s.sh.pL = none ∧ s.sh.cL = none ∧ s.sh.done = true := by
  decide +kernel

end Mqtt.Properties.C15
