/-
C20 — client library: `Client.Connect` and the message callbacks of Subscribe.

Property theorems only (helper lemmas: `Proofs/Client*.lean`).  Model:
`Model/Client.lean`; matching relation: `Spec/Match.lean` (section 4.7), via the
finished topic-trie theorems of C06.
-/
import Mqtt.Proofs.Client

set_option linter.unusedSimpArgs false

namespace Mqtt.Properties.C20
open Mqtt.Iface.Broker (Pub Packet Bytes)
open Mqtt.Iface.Client
open Mqtt.Model.Client
open Mqtt.Proofs.Client

/-! ## (f) Connect -/

/-- `Connect`, for every client state and every answer of the peer: it reports
success exactly when the answer is a well-formed CONNACK with code 0; it
reports `refused k` exactly when the answer is a well-formed CONNACK with code
`k ≠ 0`; it reports another error in all remaining cases (undecodable CONNACK,
another packet, connection closed).  Exactly one result is reported.  In every
non-success case the state is unchanged - nothing was started, and a client
that was not connected still rejects every API call; on success the only
change is that the client is connected. -/
theorem C20_connect (c : C) (a : Answer) :
    step c (.connect a) = connect c a ∧
    ((connect c a).2 = [.connected] ↔ ∃ sp, a = .connack sp 0) ∧
    (∀ k, (connect c a).2 = [.refused k] ↔ k ≠ 0 ∧ ∃ sp, a = .connack sp k) ∧
    ((connect c a).2 = [.connectErr] ↔ ¬ ∃ sp k, a = .connack sp k) ∧
    ((connect c a).2 = [.connected] → (connect c a).1 = { c with connected := true }) ∧
    ((connect c a).2 ≠ [.connected] → (connect c a).1 = c ∧
      (c.connected = false → ∀ call, step (connect c a).1 (.api call) = (c, [.apiErr]))) := by
  refine ⟨rfl, ?_⟩
  have hapi : c.connected = false → ∀ call, step c (.api call) = (c, [.apiErr]) := by
    intro hc call; simp [step, hc]
  cases a with
  | connack sp code =>
    by_cases h0 : code = 0
    · subst h0
      simp [connect]
      omega
    · have hb : (code == 0) = false := by simpa using h0
      simp only [connect, hb, Bool.false_eq_true, ↓reduceIte]
      refine ⟨?_, ?_, ?_, ?_, ?_⟩
      · simp [h0]
      · intro k
        constructor
        · intro h
          have : code = k := by simpa using h
          subst this
          exact ⟨h0, sp, rfl⟩
        · rintro ⟨_, sp', h⟩
          cases h; rfl
      · simp
      · simp
      · intro _
        exact ⟨by trivial, hapi⟩
  | badConnack => simp [connect]; exact hapi
  | other => simp [connect]; exact hapi
  | close => simp [connect]; exact hapi

/-- every kind of answer, on a fresh client and on a client with requests in flight -/
example :
    (step init (.connect (.connack true 0))).2 = [.connected] ∧
    (step init (.connect (.connack true 0))).1.connected = true ∧
    (step init (.connect (.connack false 5))).2 = [.refused 5] ∧
    (step init (.connect .badConnack)).2 = [.connectErr] ∧
    (step init (.connect .other)).2 = [.connectErr] ∧
    (step init (.connect .close)).2 = [.connectErr] ∧
    (runOuts init [.connect (.connack false 4), .api (.ping 1), .connect (.connack false 0), .api (.ping 2)]) =
      [[.refused 4], [.apiErr], [.connected], [.wrote .pingreq]] := by
  decide

end Mqtt.Properties.C20
