/-
C20 — client library: `Client.Connect` and the message callbacks of Subscribe.

Property theorems only (helper lemmas: `Proofs/Client*.lean`).  Model:
`Model/Client.lean`; matching relation: `Spec/Match.lean` (section 4.7), via the
finished topic-trie theorems of C06.
-/
import Mqtt.Proofs.Client

set_option linter.unusedSimpArgs false

namespace Mqtt.Properties.C20
open Mqtt.Iface.Broker (Pub Packet Bytes)
open Mqtt.Iface.Client
open Mqtt.Model.Client
open Mqtt.Proofs.Client

/-! ## (f) Connect -/

/-- `Connect`, for every client state and every answer of the peer: it reports
success exactly when the answer is a well-formed CONNACK with code 0; it
reports `refused k` exactly when the answer is a well-formed CONNACK with code
`k ≠ 0`; it reports another error in all remaining cases (undecodable CONNACK,
another packet, connection closed).  Exactly one result is reported.  In every
non-success case the state is unchanged - nothing was started, and a client
that was not connected still rejects every API call; on success the only
change is that the client is connected. -/
theorem C20_connect (c : C) (a : Answer) :
    step c (.connect a) = connect c a ∧
    ((connect c a).2 = [.connected] ↔ ∃ sp, a = .connack sp 0) ∧
    (∀ k, (connect c a).2 = [.refused k] ↔ k ≠ 0 ∧ ∃ sp, a = .connack sp k) ∧
    ((connect c a).2 = [.connectErr] ↔ ¬ ∃ sp k, a = .connack sp k) ∧
    ((connect c a).2 = [.connected] → (connect c a).1 = { c with connected := true }) ∧
    ((connect c a).2 ≠ [.connected] → (connect c a).1 = c ∧
      (c.connected = false → ∀ call, step (connect c a).1 (.api call) = (c, [.apiErr]))) := by
  refine ⟨rfl, ?_⟩
  have hapi : c.connected = false → ∀ call, step c (.api call) = (c, [.apiErr]) := by
    intro hc call; simp [step, hc]
  cases a with
  | connack sp code =>
    by_cases h0 : code = 0
    · subst h0
      simp [connect]
      omega
    · have hb : (code == 0) = false := by simpa using h0
      simp only [connect, hb, Bool.false_eq_true, ↓reduceIte]
      refine ⟨?_, ?_, ?_, ?_, ?_⟩
      · simp [h0]
      · intro k
        constructor
        · intro h
          have : code = k := by simpa using h
          subst this
          exact ⟨h0, sp, rfl⟩
        · rintro ⟨_, sp', h⟩
          cases h; rfl
      · simp
      · simp
      · intro _
        exact ⟨by trivial, hapi⟩
  | badConnack => simp [connect]; exact hapi
  | other => simp [connect]; exact hapi
  | close => simp [connect]; exact hapi

/-- every kind of answer, on a fresh client and on a client with requests in flight -/
example :
    (step init (.connect (.connack true 0))).2 = [.connected] ∧
    (step init (.connect (.connack true 0))).1.connected = true ∧
    (step init (.connect (.connack false 5))).2 = [.refused 5] ∧
    (step init (.connect .badConnack)).2 = [.connectErr] ∧
    (step init (.connect .other)).2 = [.connectErr] ∧
    (step init (.connect .close)).2 = [.connectErr] ∧
    (runOuts init [.connect (.connack false 4), .api (.ping 1), .connect (.connack false 0), .api (.ping 2)]) =
      [[.refused 4], [.apiErr], [.connected], [.wrote .pingreq]] := by
  decide

/-! ## (i) inbound QoS 2: duplicates suppressed, one dispatch, at PUBREL -/

/-- An inbound QoS 2 PUBLISH is never handed to a callback when it arrives: the
only output is the PUBREC with its identifier.  If an exchange with that
identifier is already open (a repeated PUBLISH, whatever its DUP flag and
content) nothing at all changes: no second entry is added. -/
theorem C20_qos2_publish_not_dispatched (c : C) (hc : c.connected = true) (p : Pub) (hq : p.qos = 2) :
    (step c (.peer (.publish p))).2 = [.wrote (.pubrec p.pktid)] ∧
    ((∃ e ∈ c.pub2in, e.id = p.pktid) → (step c (.peer (.publish p))).1 = c) ∧
    ((¬ ∃ e ∈ c.pub2in, e.id = p.pktid) →
      (step c (.peer (.publish p))).1 = { c with pub2in := c.pub2in ++ [{ id := p.pktid, pub := some p }] }) := by
  rw [step_peer c hc]
  refine ⟨by rw [peer_publish2 c p hq], fun h => by rw [peer_publish2_dup c p hq h], fun h => ?_⟩
  rw [peer_publish2 c p hq]
  have : c.pub2in.any (fun e => e.id == p.pktid) = false := by
    rw [List.any_eq_false]
    intro e he hid
    exact h ⟨e, he, by simpa using hid⟩
  simp [Queue.wait, this]

/-- **QoS 2 duplicates suppressed.**  One whole exchange on a connected client
with no other inbound QoS 2 exchange open: the PUBLISH, then any number of
repeated PUBLISHes with the same identifier (any content, any flags), then the
PUBREL.  Every PUBLISH is answered by a PUBREC and dispatches nothing; the
PUBREL step dispatches the content of the *first* PUBLISH exactly once
(`onPublish c p`: the callbacks the topic trie holds for it), then writes the
PUBCOMP; afterwards the client is in the state it started from. -/
theorem C20_qos2_duplicates_suppressed (c : C) (hc : c.connected = true) (he : c.pub2in = []) (p : Pub)
    (hq : p.qos = 2) (dups : List Pub) (hd : ∀ d ∈ dups, d.qos = 2 ∧ d.pktid = p.pktid) :
    runOuts c (.peer (.publish p) :: dups.map (fun d => Ev.peer (.publish d)) ++ [.peer (.pubrel p.pktid)]) =
      [.wrote (.pubrec p.pktid)] :: dups.map (fun _ => [Out.wrote (.pubrec p.pktid)]) ++
        [onPublish c p ++ [.wrote (.pubcomp p.pktid)]] ∧
    runState c (.peer (.publish p) :: dups.map (fun d => Ev.peer (.publish d)) ++ [.peer (.pubrel p.pktid)]) = c :=
  qos2_exchange c hc he p hq dups hd

/-- With several exchanges open the receive queue is the FIFO of C13: a PUBREL
dispatches, in the order the exchanges were opened, the first PUBLISH of every
exchange of the longest prefix whose PUBRELs have all arrived (the one
released now included), then writes the PUBCOMP. -/
theorem C20_qos2_dispatch_at_pubrel (c : C) (hc : c.connected = true) (id : Nat) :
    (step c (.peer (.pubrel id))).2 =
      ((c.pub2in.ack Mqtt.Generated.tPUBREL id).takeWhile (fun e => terminal e.state)).flatMap
        (fun r => match r.pub with | some pb => onPublish c pb | none => []) ++ [.wrote (.pubcomp id)] := by
  rw [step_peer c hc]
  simp only [peer, Queue.acked]
  congr 1

/-- a subscription to `a/#` (callback 9), an open exchange 100, then the exchange 101 with two
repeated PUBLISHes of different content; PUBREL 101 is held back behind 100 -/
def demoI : List Ev :=
  [.connect (.connack false 0),
   .api (.subscribe 1 [([97, 47, 35], 2)] 0 9),
   .peer (.suback 1 [2]),
   .peer (.publish { qos := 2, topic := [97, 47, 98], pktid := 101, payload := [1] }),
   .peer (.publish { dup := true, qos := 2, topic := [97, 47, 98], pktid := 101, payload := [1] }),
   .peer (.publish { dup := true, qos := 2, topic := [97, 47, 99], pktid := 101, payload := [2] }),
   .peer (.pubrel 101),
   .peer (.publish { qos := 2, topic := [97], pktid := 100, payload := [3] }),
   .peer (.publish { qos := 2, topic := [97, 47, 100], pktid := 102, payload := [4] }),
   .peer (.pubrel 102),
   .peer (.pubrel 100)]

example : runOuts init demoI =
    [[.connected],
     [.wrote (.subscribe 1 [([97, 47, 35], 2)])],
     [],
     [.wrote (.pubrec 101)], [.wrote (.pubrec 101)], [.wrote (.pubrec 101)],
     [.deliver 9 { qos := 2, topic := [97, 47, 98], pktid := 101, payload := [1] }, .wrote (.pubcomp 101)],
     [.wrote (.pubrec 100)], [.wrote (.pubrec 102)],
     [.wrote (.pubcomp 102)],
     [.deliver 9 { qos := 2, topic := [97], pktid := 100, payload := [3] },
      .deliver 9 { qos := 2, topic := [97, 47, 100], pktid := 102, payload := [4] }, .wrote (.pubcomp 100)]] ∧
    (runState init demoI).pub2in.length = 0 := by
  decide

end Mqtt.Properties.C20
