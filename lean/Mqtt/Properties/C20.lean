/-
C20 — property theorems (under construction; see DESIGN.md section 8).
-/
import Mqtt.Model.Client
import Mqtt.Spec.Client

namespace Mqtt.Properties.C20
end Mqtt.Properties.C20
