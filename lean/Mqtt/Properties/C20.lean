/-
C20 — client library: `Client.Connect` and the message callbacks of Subscribe.

Property theorems only (helper lemmas: `Proofs/Client*.lean`).  Model:
`Model/Client.lean`; matching relation: `Spec/Match.lean` (section 4.7), via the
finished topic-trie theorems of C06.
-/
import Mqtt.Proofs.ClientRefine

set_option linter.unusedSimpArgs false

namespace Mqtt.Properties.C20
open Mqtt.Iface.Broker (Pub Packet Bytes)
open Mqtt.Iface.Client
open Mqtt.Model.Client
open Mqtt.Proofs.Client
open Mqtt.Proofs.Topics (good)
open Mqtt.Spec.Match (validName validFilter topicMatches)
open Mqtt.Spec.TopicStore (Sub)

/-! ## (f) Connect -/

/-- `Connect`, for every client state and every answer of the peer: it reports
success exactly when the answer is a well-formed CONNACK with code 0; it
reports `refused k` exactly when the answer is a well-formed CONNACK with code
`k ≠ 0`; it reports another error in all remaining cases (undecodable CONNACK,
another packet, connection closed).  Exactly one result is reported.  In every
non-success case the state is unchanged - nothing was started, and a client
that was not connected still rejects every API call; on success the only
change is that the client is connected. -/
theorem C20_connect (c : C) (a : Answer) :
    step c (.connect a) = connect c a ∧
    ((connect c a).2 = [.connected] ↔ ∃ sp, a = .connack sp 0) ∧
    (∀ k, (connect c a).2 = [.refused k] ↔ k ≠ 0 ∧ ∃ sp, a = .connack sp k) ∧
    ((connect c a).2 = [.connectErr] ↔ ¬ ∃ sp k, a = .connack sp k) ∧
    ((connect c a).2 = [.connected] → (connect c a).1 = { c with connected := true }) ∧
    ((connect c a).2 ≠ [.connected] → (connect c a).1 = c ∧
      (c.connected = false → ∀ call, step (connect c a).1 (.api call) = (c, [.apiErr]))) := by
  refine ⟨rfl, ?_⟩
  have hapi : c.connected = false → ∀ call, step c (.api call) = (c, [.apiErr]) := by
    intro hc call; simp [step, hc]
  cases a with
  | connack sp code =>
    by_cases h0 : code = 0
    · subst h0
      simp [connect]
      omega
    · have hb : (code == 0) = false := by simpa using h0
      simp only [connect, hb, Bool.false_eq_true, ↓reduceIte]
      refine ⟨?_, ?_, ?_, ?_, ?_⟩
      · simp [h0]
      · intro k
        constructor
        · intro h
          have : code = k := by simpa using h
          subst this
          exact ⟨h0, sp, rfl⟩
        · rintro ⟨_, sp', h⟩
          cases h; rfl
      · simp
      · simp
      · intro _
        exact ⟨by trivial, hapi⟩
  | badConnack => simp [connect]; exact hapi
  | other => simp [connect]; exact hapi
  | close => simp [connect]; exact hapi

/-- every kind of answer, on a fresh client and on a client with requests in flight -/
example :
    (step init (.connect (.connack true 0))).2 = [.connected] ∧
    (step init (.connect (.connack true 0))).1.connected = true ∧
    (step init (.connect (.connack false 5))).2 = [.refused 5] ∧
    (step init (.connect .badConnack)).2 = [.connectErr] ∧
    (step init (.connect .other)).2 = [.connectErr] ∧
    (step init (.connect .close)).2 = [.connectErr] ∧
    (runOuts init [.connect (.connack false 4), .api (.ping 1), .connect (.connack false 0), .api (.ping 2)]) =
      [[.refused 4], [.apiErr], [.connected], [.wrote .pingreq]] := by
  decide

/-! ## (i) inbound QoS 2: duplicates suppressed, one dispatch, at PUBREL -/

/-- An inbound QoS 2 PUBLISH is never handed to a callback when it arrives: the
only output is the PUBREC with its identifier.  If an exchange with that
identifier is already open (a repeated PUBLISH, whatever its DUP flag and
content) nothing at all changes: no second entry is added. -/
theorem C20_qos2_publish_not_dispatched (c : C) (hc : c.connected = true) (p : Pub) (hq : p.qos = 2) :
    (step c (.peer (.publish p))).2 = [.wrote (.pubrec p.pktid)] ∧
    ((∃ e ∈ c.pub2in, e.id = p.pktid) → (step c (.peer (.publish p))).1 = c) ∧
    ((¬ ∃ e ∈ c.pub2in, e.id = p.pktid) →
      (step c (.peer (.publish p))).1 = { c with pub2in := c.pub2in ++ [{ id := p.pktid, pub := some p }] }) := by
  rw [step_peer c hc]
  refine ⟨by rw [peer_publish2 c p hq], fun h => by rw [peer_publish2_dup c p hq h], fun h => ?_⟩
  rw [peer_publish2 c p hq]
  have : c.pub2in.any (fun e => e.id == p.pktid) = false := by
    rw [List.any_eq_false]
    intro e he hid
    exact h ⟨e, he, by simpa using hid⟩
  simp [Queue.wait, this]

/-- **QoS 2 duplicates suppressed.**  One whole exchange on a connected client
with no other inbound QoS 2 exchange open: the PUBLISH, then any number of
repeated PUBLISHes with the same identifier (any content, any flags), then the
PUBREL.  Every PUBLISH is answered by a PUBREC and dispatches nothing; the
PUBREL step dispatches the content of the *first* PUBLISH exactly once
(`onPublish c p`: the callbacks the topic trie holds for it), then writes the
PUBCOMP; afterwards the client is in the state it started from. -/
theorem C20_qos2_duplicates_suppressed (c : C) (hc : c.connected = true) (he : c.pub2in = []) (p : Pub)
    (hq : p.qos = 2) (dups : List Pub) (hd : ∀ d ∈ dups, d.qos = 2 ∧ d.pktid = p.pktid) :
    runOuts c (.peer (.publish p) :: dups.map (fun d => Ev.peer (.publish d)) ++ [.peer (.pubrel p.pktid)]) =
      [.wrote (.pubrec p.pktid)] :: dups.map (fun _ => [Out.wrote (.pubrec p.pktid)]) ++
        [onPublish c p ++ [.wrote (.pubcomp p.pktid)]] ∧
    runState c (.peer (.publish p) :: dups.map (fun d => Ev.peer (.publish d)) ++ [.peer (.pubrel p.pktid)]) = c :=
  qos2_exchange c hc he p hq dups hd

/-- With several exchanges open the receive queue is the FIFO of C13: a PUBREL
dispatches, in the order the exchanges were opened, the first PUBLISH of every
exchange of the longest prefix whose PUBRELs have all arrived (the one
released now included), then writes the PUBCOMP. -/
theorem C20_qos2_dispatch_at_pubrel (c : C) (hc : c.connected = true) (id : Nat) :
    (step c (.peer (.pubrel id))).2 =
      ((c.pub2in.ack Mqtt.Generated.tPUBREL id).takeWhile (fun e => terminal e.state)).flatMap
        (fun r => match r.pub with | some pb => onPublish c pb | none => []) ++ [.wrote (.pubcomp id)] := by
  rw [step_peer c hc]
  simp only [peer, Queue.acked]
  congr 1

/-- a subscription to `a/#` (callback 9), an open exchange 100, then the exchange 101 with two
repeated PUBLISHes of different content; PUBREL 101 is held back behind 100 -/
def demoI : List Ev :=
  [.connect (.connack false 0),
   .api (.subscribe 1 [([97, 47, 35], 2)] 0 9),
   .peer (.suback 1 [2]),
   .peer (.publish { qos := 2, topic := [97, 47, 98], pktid := 101, payload := [1] }),
   .peer (.publish { dup := true, qos := 2, topic := [97, 47, 98], pktid := 101, payload := [1] }),
   .peer (.publish { dup := true, qos := 2, topic := [97, 47, 99], pktid := 101, payload := [2] }),
   .peer (.pubrel 101),
   .peer (.publish { qos := 2, topic := [97], pktid := 100, payload := [3] }),
   .peer (.publish { qos := 2, topic := [97, 47, 100], pktid := 102, payload := [4] }),
   .peer (.pubrel 102),
   .peer (.pubrel 100)]

example : runOuts init demoI =
    [[.connected],
     [.wrote (.subscribe 1 [([97, 47, 35], 2)])],
     [],
     [.wrote (.pubrec 101)], [.wrote (.pubrec 101)], [.wrote (.pubrec 101)],
     [.deliver 9 { qos := 2, topic := [97, 47, 98], pktid := 101, payload := [1] }, .wrote (.pubcomp 101)],
     [.wrote (.pubrec 100)], [.wrote (.pubrec 102)],
     [.wrote (.pubcomp 102)],
     [.deliver 9 { qos := 2, topic := [97], pktid := 100, payload := [3] },
      .deliver 9 { qos := 2, topic := [97, 47, 100], pktid := 102, payload := [4] }, .wrote (.pubcomp 100)]] ∧
    (runState init demoI).pub2in.length = 0 := by
  decide

/-! ## (g) after a completed Subscribe the callback gets every matching message exactly once

`TI c.topics store`: the client's topic trie is well-formed and holds exactly
the (callback, filter, QoS) entries of the abstract store `store`
(`Proofs/ClientTopics.lean`, on top of the C06 refinement `Inv`); it holds of a
fresh client (`ti_new`) and is preserved by the Subscribe / Unsubscribe
wrappers for `good` filters (`ti_subscribeDone`, `ti_unsubscribeDone`).
`grantedOf (topics.zip codes)` are the filters of the request the SUBACK
grants (return code 0, 1 or 2 and a valid filter); `deliveriesTo cb outs` the
messages handed to callback `cb`; `onPublish c p` is what an inbound PUBLISH
`p` dispatches - immediately for QoS 0 and 1, at its PUBREL for QoS 2
(`C20_qos2_duplicates_suppressed`). -/

/-- The hypothesis `TI c.topics store` of the theorems below is met in every
state reached from a fresh client by an admitted history (`Ok`, see
`C12_refines_spec_partial`: `good` valid filters, …; acknowledgements that
arrive before the sending call has registered its request included): the trie is in step with an abstract store that names exactly the
(callback, filter) pairs the reference client holds. -/
theorem C20_trie_in_step (evs : List Ev) (hok : Ok {} evs = true) :
    ∃ store, TI (runState init evs).topics store ∧
      HeldRel store (evs.foldl (fun s ev => (Mqtt.Spec.Client.step s ev).1) {}).held :=
  (run_sim evs init {} R_init hok).2.trie

/-- **C20, dispatch.**  Let the oldest outstanding Subscribe `r` of a connected
client (trie in step with `store`, `r`'s callback not yet registered anywhere,
`r`'s filters without empty levels and not beginning with `$`) be acknowledged
by a SUBACK with one return code per filter.  Then for every message `p`
(valid topic name without empty levels, not beginning with `$`, QoS <= 2) the
dispatch of `p` invokes `r`'s callback exactly once if a granted filter
matches the topic (section 4.7 matching, `Spec.Match.topicMatches`) -
*however many* of the request's granted filters match it - and not at all
otherwise; every message handed over has `p`'s topic and payload.  For QoS 0
and QoS 1 the dispatch happens in the step that receives the PUBLISH. -/
theorem C20_dispatch (c : C) (store : List Sub) (r : Req) (rest : Queue) (codes : List Nat) (p : Pub)
    (hc : c.connected = true) (hti : TI c.topics store) (hq : c.suback = r :: rest)
    (hid : ∀ e ∈ rest, e.id ≠ r.id) (hh : ∀ e, rest.head? = some e → terminal e.state = false)
    (hlen : r.topics.length = codes.length) (hgood : ∀ t ∈ r.topics, good t.1 = true)
    (hfresh : ∀ e ∈ store, e.sub ≠ r.cb)
    (hgp : good p.topic = true) (hn : validName p.topic = true) (hq2 : p.qos ≤ 2) :
    (deliveriesTo r.cb (onPublish (step c (.peer (.suback r.id codes))).1 p)).length =
      (if (grantedOf (r.topics.zip codes)).any (fun f => topicMatches f p.topic) then 1 else 0) ∧
    (∀ m ∈ deliveriesTo r.cb (onPublish (step c (.peer (.suback r.id codes))).1 p),
      m.topic = p.topic ∧ m.payload = p.payload ∧ m.qos ≤ p.qos) ∧
    (p.qos = 0 → (step (step c (.peer (.suback r.id codes))).1 (.peer (.publish p))).2 =
      onPublish (step c (.peer (.suback r.id codes))).1 p) ∧
    (p.qos = 1 → (step (step c (.peer (.suback r.id codes))).1 (.peer (.publish p))).2 =
      .wrote (.puback p.pktid) :: onPublish (step c (.peer (.suback r.id codes))).1 p) := by
  have hc' : (step c (.peer (.suback r.id codes))).1.connected = true := step_connected c _ hc
  rw [step_peer _ hc']
  rw [step_peer c hc, peer_suback_head c r rest hq hid hh codes]
  have hti' := ti_subscribeDone { c with suback := rest } { r with state := Mqtt.Generated.tSUBACK, codes := codes }
    store hgood hti
  have hl : (r.topics.length != codes.length) = false := by simp [hlen]
  simp only [hl, Bool.false_eq_true, ↓reduceIte] at hti'
  obtain ⟨hcount, hcontent⟩ := deliveries_count _ _ hti' p hgp hn hq2 r.cb
  refine ⟨?_, hcontent, ?_, ?_⟩
  · rw [hcount]
    have hgz : ∀ tc ∈ r.topics.zip codes, good tc.1.1 = true :=
      fun tc htc => hgood tc.1 (mem_zip_fst _ _ _ htc)
    have hmem : ∀ f, f ∈ heldBy r.cb (grantStore r.cb store (r.topics.zip codes)) ↔
        f ∈ grantedOf (r.topics.zip codes) := by
      intro f
      rw [heldBy_grantStore r.cb _ hgz f store]
      have : f ∉ heldBy r.cb store := by
        rw [mem_heldBy]
        rintro ⟨e, he, hs, _⟩
        exact hfresh e he hs
      simp [this]
    have : (heldBy r.cb (grantStore r.cb store (r.topics.zip codes))).any (fun f => topicMatches f p.topic) =
        (grantedOf (r.topics.zip codes)).any (fun f => topicMatches f p.topic) := by
      rw [Bool.eq_iff_iff, List.any_eq_true, List.any_eq_true]
      exact ⟨fun ⟨f, hf, hm⟩ => ⟨f, (hmem f).mp hf, hm⟩, fun ⟨f, hf, hm⟩ => ⟨f, (hmem f).mpr hf, hm⟩⟩
    rw [this]
  · intro h0
    simp [peer, h0]
  · intro h1
    simp [peer, h1]

/-- … and for QoS 2 at its PUBREL: under the hypotheses of `C20_dispatch`, a
whole inbound QoS 2 exchange after the SUBACK - the PUBLISH, any number of
repeated PUBLISHes with its identifier, the PUBREL, with no other inbound
exchange open - invokes the request's callback, over all its steps together,
exactly once if a granted filter matches and not at all otherwise. -/
theorem C20_dispatch_qos2 (c : C) (store : List Sub) (r : Req) (rest : Queue) (codes : List Nat) (p : Pub)
    (dups : List Pub)
    (hc : c.connected = true) (hti : TI c.topics store) (hq : c.suback = r :: rest)
    (hid : ∀ e ∈ rest, e.id ≠ r.id) (hh : ∀ e, rest.head? = some e → terminal e.state = false)
    (hlen : r.topics.length = codes.length) (hgood : ∀ t ∈ r.topics, good t.1 = true)
    (hfresh : ∀ e ∈ store, e.sub ≠ r.cb)
    (hgp : good p.topic = true) (hn : validName p.topic = true) (hq2 : p.qos = 2)
    (hin : c.pub2in = []) (hd : ∀ d ∈ dups, d.qos = 2 ∧ d.pktid = p.pktid) :
    (deliveriesTo r.cb (runOuts (step c (.peer (.suback r.id codes))).1
      (.peer (.publish p) :: dups.map (fun d => Ev.peer (.publish d)) ++ [.peer (.pubrel p.pktid)])).flatten).length =
      (if (grantedOf (r.topics.zip codes)).any (fun f => topicMatches f p.topic) then 1 else 0) := by
  have hc' : (step c (.peer (.suback r.id codes))).1.connected = true := step_connected c _ hc
  have hin' : (step c (.peer (.suback r.id codes))).1.pub2in = [] := by
    rw [step_peer c hc]
    simp only [peer]
    rw [(foldDone_frame subscribeDone subscribeDone_frame _ _).pub2in]
    exact hin
  rw [(C20_qos2_duplicates_suppressed _ hc' hin' p hq2 dups hd).1, deliveriesTo_exchange]
  exact (C20_dispatch c store r rest codes p hc hti hq hid hh hlen hgood hfresh hgp hn (by omega)).1

/-- **Overlapping filters of one request: exactly one invocation per delivered
message.**  Under the hypotheses of `C20_dispatch`, if two *different* granted
filters of the request both match the topic of `p` (`a/+` and `a/b` for `a/b`),
the callback is still invoked exactly once.  (Before the repair of E9 the
callback, registered once per filter, was invoked once per matching filter.) -/
theorem C20_dispatch_overlapping_once (c : C) (store : List Sub) (r : Req) (rest : Queue) (codes : List Nat)
    (p : Pub) (hc : c.connected = true) (hti : TI c.topics store) (hq : c.suback = r :: rest)
    (hid : ∀ e ∈ rest, e.id ≠ r.id) (hh : ∀ e, rest.head? = some e → terminal e.state = false)
    (hlen : r.topics.length = codes.length) (hgood : ∀ t ∈ r.topics, good t.1 = true)
    (hfresh : ∀ e ∈ store, e.sub ≠ r.cb)
    (hgp : good p.topic = true) (hn : validName p.topic = true) (hq2 : p.qos ≤ 2)
    (f g : Bytes) (hf : f ∈ grantedOf (r.topics.zip codes)) (_hg : g ∈ grantedOf (r.topics.zip codes))
    (_hne : f ≠ g) (hmf : topicMatches f p.topic = true) (_hmg : topicMatches g p.topic = true) :
    (deliveriesTo r.cb (onPublish (step c (.peer (.suback r.id codes))).1 p)).length = 1 := by
  rw [(C20_dispatch c store r rest codes p hc hti hq hid hh hlen hgood hfresh hgp hn hq2).1]
  have : (grantedOf (r.topics.zip codes)).any (fun f => topicMatches f p.topic) = true :=
    List.any_eq_true.mpr ⟨f, hf, hmf⟩
  simp [this]

/-- Which QoS the one invocation carries (the property does not say; the code
is deterministic about it): in every state whose trie is in step with `store`,
a message handed to callback `cb` carries at least `min (its QoS) (granted
QoS)` of *every* entry of `cb` whose filter matches - the highest QoS the
matching filters of the request allow, whatever order the trie walk (a Go map
iteration) yields them in. -/
theorem C20_dispatch_highest_qos (c : C) (store : List Sub) (hti : TI c.topics store) (p : Pub)
    (hgp : good p.topic = true) (hn : validName p.topic = true) (hq2 : p.qos ≤ 2) (cb : Nat) :
    ∀ m ∈ deliveriesTo cb (onPublish c p), ∀ e ∈ store, e.sub = cb → topicMatches e.filter p.topic = true →
      min p.qos e.qos ≤ m.qos :=
  deliveries_qos_max c store hti p hgp hn hq2 cb

/-- the request `a/+`, `a/b` (callback 9) and a second request `a/#` (callback 4): one delivered
`a/b` invokes callback 9 once (with the higher QoS of its two matching filters) and callback 4 once -/
def demoO : List Ev :=
  [.connect (.connack false 0),
   .api (.subscribe 1 [([97, 47, 43], 1), ([97, 47, 98], 0)] 5 9),
   .peer (.suback 1 [1, 0]),
   .api (.subscribe 2 [([97, 47, 35], 1)] 6 4),
   .peer (.suback 2 [1]),
   .peer (.publish { qos := 1, topic := [97, 47, 98], pktid := 100, payload := [7] }),
   .peer (.publish { qos := 0, topic := [97, 47, 99], payload := [8] })]

example :
    ((runOuts init demoO).drop 5).map (fun o => ((deliveriesTo 9 o).map (·.qos), (deliveriesTo 4 o).map (·.qos), o.length)) =
      [([1], [1], 3), ([0], [0], 2)] := by
  decide

/-- the hypotheses of `C20_dispatch_overlapping_once` are met by the first request of `demoO` -/
example :
    let c := runState init [.connect (.connack false 0), .api (.subscribe 1 [([97, 47, 43], 1), ([97, 47, 98], 1)] 5 9)]
    (deliveriesTo 9 (onPublish (step c (.peer (.suback 1 [1, 1]))).1
      { qos := 0, topic := [97, 47, 98], payload := [7] })).length = 1 := by
  intro c
  exact C20_dispatch_overlapping_once c [] { id := 1, tag := 5, topics := [([97, 47, 43], 1), ([97, 47, 98], 1)], cb := 9 }
    [] [1, 1] { qos := 0, topic := [97, 47, 98], payload := [7] }
    (by decide) ti_new rfl (by simp) (by simp) (by decide) (by decide) (by simp) (by decide) (by decide)
    (by decide) [97, 47, 43] [97, 47, 98] (by decide) (by decide) (by decide) (by decide) (by decide)

/-- a second subscriber's request (callback 9: `a/+` at QoS 1, `b`, and `c/#` refused by the
server) completes on a client that already holds callback 3 for `#`; messages on `a/b`, `b`, `c/d` -/
def demoG : List Ev :=
  [.connect (.connack false 0),
   .api (.subscribe 1 [([35], 0)] 0 3),
   .peer (.suback 1 [0]),
   .api (.subscribe 2 [([97, 47, 43], 1), ([98], 2), ([99, 47, 35], 1)] 5 9),
   .peer (.suback 2 [1, 2, 128]),
   .peer (.publish { qos := 1, topic := [97, 47, 98], pktid := 100, payload := [1] }),
   .peer (.publish { qos := 0, topic := [98], payload := [2] }),
   .peer (.publish { qos := 0, topic := [99, 47, 100], payload := [3] })]

example : (runOuts init demoG).drop 4 =
    [[.complete 5 true],
     [.wrote (.puback 100),
      .deliver 3 { qos := 0, topic := [97, 47, 98], pktid := 100, payload := [1] },
      .deliver 9 { qos := 1, topic := [97, 47, 98], pktid := 100, payload := [1] }],
     [.deliver 3 { qos := 0, topic := [98], payload := [2] }, .deliver 9 { qos := 0, topic := [98], payload := [2] }],
     [.deliver 3 { qos := 0, topic := [99, 47, 100], payload := [3] }]] ∧
    grantedOf ([(([97, 47, 43] : Bytes), 1), ([98], 2), ([99, 47, 35], 1)].zip [1, 2, 128]) = [[97, 47, 43], [98]] := by
  decide

/-- the hypotheses of `C20_dispatch` are met: the request of `demoG` on a fresh connected
client, message `a/b` (one granted filter matches) and message `c/d` (only the refused filter would) -/
example :
    let c := runState init [.connect (.connack false 0),
      .api (.subscribe 2 [([97, 47, 43], 1), ([98], 2), ([99, 47, 35], 1)] 5 9)]
    (deliveriesTo 9 (onPublish (step c (.peer (.suback 2 [1, 2, 128]))).1
      { qos := 1, topic := [97, 47, 98], pktid := 100, payload := [1] })).length = 1 ∧
    (deliveriesTo 9 (onPublish (step c (.peer (.suback 2 [1, 2, 128]))).1
      { qos := 0, topic := [99, 47, 100], payload := [3] })).length = 0 := by
  intro c
  have h1 := (C20_dispatch c [] { id := 2, tag := 5, topics := [([97, 47, 43], 1), ([98], 2), ([99, 47, 35], 1)], cb := 9 }
    [] [1, 2, 128] { qos := 1, topic := [97, 47, 98], pktid := 100, payload := [1] }
    (by decide) ti_new rfl (by simp) (by simp) (by decide) (by decide) (by simp) (by decide) (by decide)
    (by decide)).1
  have h2 := (C20_dispatch c [] { id := 2, tag := 5, topics := [([97, 47, 43], 1), ([98], 2), ([99, 47, 35], 1)], cb := 9 }
    [] [1, 2, 128] { qos := 0, topic := [99, 47, 100], payload := [3] }
    (by decide) ti_new rfl (by simp) (by simp) (by decide) (by decide) (by simp) (by decide) (by decide)
    (by decide)).1
  exact ⟨h1, h2⟩

/-! ## (h) after a completed Unsubscribe the listed filters deliver nothing -/

/-- **C20, Unsubscribe.**  Let the oldest outstanding Unsubscribe `r` of a
connected client (trie in step with `store`, `r`'s filters without empty
levels and not beginning with `$`) be acknowledged by its UNSUBACK.  Afterwards the trie holds
exactly the entries of `store` whose filter is not listed in `r` - every
callback registered under exactly a listed filter is removed
(`C06_sremove_refines`, "remove all" mode), entries under other filters are
untouched - and for every later message `p` and every callback `cb`, `cb` is
invoked exactly once if an *unlisted* filter it is still held under matches
`p`, and not at all otherwise.  In particular a callback held only under listed
filters is never invoked again. -/
theorem C20_unsubscribe_stops (c : C) (store : List Sub) (r : Req) (rest : Queue) (p : Pub)
    (hc : c.connected = true) (hti : TI c.topics store) (hq : c.unsuback = r :: rest)
    (hid : ∀ e ∈ rest, e.id ≠ r.id) (hh : ∀ e, rest.head? = some e → terminal e.state = false)
    (hgood : ∀ t ∈ r.topics, good t.1 = true)
    (hgp : good p.topic = true) (hn : validName p.topic = true) (hq2 : p.qos ≤ 2) :
    TI (step c (.peer (.unsuback r.id))).1.topics
      (store.filter (fun e => !(r.topics.map (·.1)).contains e.filter)) ∧
    (∀ cb, (deliveriesTo cb (onPublish (step c (.peer (.unsuback r.id))).1 p)).length =
      (if (heldBy cb store).any (fun f => !(r.topics.map (·.1)).contains f && topicMatches f p.topic) then 1 else 0)) ∧
    (∀ cb, (∀ f ∈ heldBy cb store, f ∈ r.topics.map (·.1)) →
      deliveriesTo cb (onPublish (step c (.peer (.unsuback r.id))).1 p) = []) := by
  rw [step_peer c hc, peer_unsuback_head c r rest hq hid hh]
  have hti' := ti_unsubscribeDone { c with unsuback := rest }
    { r with state := Mqtt.Generated.tUNSUBACK, codes := [] } store hgood hti
  simp only [dropStore_eq] at hti'
  have hcount : ∀ cb, (deliveriesTo cb (onPublish (unsubscribeDone { c with unsuback := rest }
      { r with state := Mqtt.Generated.tUNSUBACK, codes := [] }).1 p)).length =
      (if (heldBy cb store).any (fun f => !(r.topics.map (·.1)).contains f && topicMatches f p.topic) then 1 else 0) := by
    intro cb
    rw [(deliveries_count _ _ hti' p hgp hn hq2 cb).1,
      heldBy_filter cb store (fun f => !(r.topics.map (·.1)).contains f), List.any_filter]
  refine ⟨hti', hcount, ?_⟩
  intro cb hall
  have h0 := hcount cb
  have : (heldBy cb store).any (fun f => !(r.topics.map (·.1)).contains f && topicMatches f p.topic) = false := by
    rw [List.any_eq_false]
    intro f hf
    have hc1 : (r.topics.map (·.1)).contains f = true := List.contains_iff_mem.mpr (hall f hf)
    rw [hc1]; simp
  rw [this] at h0
  exact List.length_eq_zero_iff.mp h0

/-- callbacks 3 (`a/+`, `b`) and 4 (`a/+`); Unsubscribe `a/+`; afterwards `a/b` reaches nobody,
`b` still reaches callback 3 -/
def demoH : List Ev :=
  [.connect (.connack false 0),
   .api (.subscribe 1 [([97, 47, 43], 1), ([98], 0)] 0 3),
   .peer (.suback 1 [1, 0]),
   .api (.subscribe 2 [([97, 47, 43], 0)] 0 4),
   .peer (.suback 2 [0]),
   .peer (.publish { qos := 0, topic := [97, 47, 98], payload := [1] }),
   .api (.unsubscribe 3 [[97, 47, 43]] 8),
   .peer (.publish { qos := 0, topic := [97, 47, 98], payload := [2] }),
   .peer (.unsuback 3),
   .peer (.publish { qos := 0, topic := [97, 47, 98], payload := [3] }),
   .peer (.publish { qos := 0, topic := [98], payload := [4] })]

example : (runOuts init demoH).drop 5 =
    [[.deliver 3 { qos := 0, topic := [97, 47, 98], payload := [1] },
      .deliver 4 { qos := 0, topic := [97, 47, 98], payload := [1] }],
     [.wrote (.unsubscribe 3 [[97, 47, 43]])],
     [.deliver 3 { qos := 0, topic := [97, 47, 98], payload := [2] },
      .deliver 4 { qos := 0, topic := [97, 47, 98], payload := [2] }],
     [.complete 8 false],
     [],
     [.deliver 3 { qos := 0, topic := [98], payload := [4] }]] := by
  decide

/-- the hypotheses of `C20_unsubscribe_stops` are met (Unsubscribe of a filter on a fresh client) -/
example :
    let c := runState init [.connect (.connack false 0), .api (.unsubscribe 3 [[97, 47, 43], [98]] 8)]
    ∀ cb, deliveriesTo cb (onPublish (step c (.peer (.unsuback 3))).1
      { qos := 0, topic := [97, 47, 98], payload := [3] }) = [] := by
  intro c cb
  exact (C20_unsubscribe_stops c [] { id := 3, tag := 8, topics := [([97, 47, 43], 0), ([98], 0)] } []
    { qos := 0, topic := [97, 47, 98], payload := [3] } (by decide) ti_new rfl (by simp) (by simp) (by decide)
    (by decide) (by decide) (by decide)).2.2 cb (by simp [heldBy])

end Mqtt.Properties.C20
