/-
C10 — tie to the Go source: the take-over is COMPLETE before the session is looked up, and only state
kept from a CleanSession = 0 connection is resumed.

The broker model runs a CONNECT as one event: `connect = takeOver; first`, `takeOver = stopAll (sameClient
..)` - each `stop` of the model is the whole teardown of a connection (subscriptions removed, will
published, clean session deleted from the store), and `first` looks the session up in the state after all
of them.  `C10_refines_reference` is about that model.  In the Go code this is an order of statements in
`Server.disconnectClient`, `Server.handleConnection`, `Session.Resumable` and `Server.getSession`; a run
distinguishes another order only while a teardown is in progress or when a handshake fails at the right
moment (`Model/Takeover.lean`).

This is the only module of C10 that is built from the sections `takeover-disconnect`, `takeover-connect`
and `takeover-resumable` of the regenerated facts (`extract/facts_takeover.go`).  NOTHING may import this
module (BUILDING.md, "Source-tie modules").
-/
import Mqtt.Properties.C10
import Mqtt.Proofs.Takeover
import Mqtt.Generated.Facts

namespace Mqtt.Properties.C10
open Mqtt.Model.Takeover
open Mqtt.Iface.Broker Mqtt.Model.Broker

/-- **The take-over of the source is the model's: every `stop()` complete, then `first`.**
The source's `disconnectClient` is, statement by statement, `disconnectProgram` - the entries it passes
over are those whose `stopped` channel is closed (teardown FINISHED), not those whose `closed` flag is set
(teardown begun), and every collected connection gets `stop()` and then `<-stopped` -, and the source's
`handleConnection` is `connectProgram`: the take-over comes before `getSession`, and `connectMu` is held
from before it to the return of the function (`heldOver`).  For that program (`disconnect_complete`, all
populations of live / ending / finished connections): `disconnectClient cid` returns, and every connection
with client identifier `cid` has then finished its teardown - a clean session's `Del` included, so it
cannot hit the session `getSession` creates next -; `Server.svcs` keeps exactly the entries that had not
finished.  The model side: a `.first` event is `takeOver` (nothing, or `stopAll` of the client's live
connections) followed by `first` on the resulting state. -/
theorem C10_takeover_shape_is_source :
    Mqtt.Generated.takeoverDisconnectSeq = disconnectProgram.map DcOp.code ∧
    (Mqtt.Generated.takeoverConnectSeq = connectProgram.map ConnOp.code ∧ heldOver connectProgram = true) ∧
    (∀ cid svcs, ∃ r, after disconnectProgram cid svcs = some r ∧ r.length = svcs.length ∧
      (∀ s ∈ r, s.cid = cid → s.st = .stopped) ∧ (∀ s ∈ svcs, s.cid ≠ cid → s ∈ r)) ∧
    (∀ svcs, registered disconnectProgram svcs = svcs.filter (fun s => s.st != .stopped)) ∧
    (∀ (b : B) c f a, step b (.first c f a) =
      ((first (takeOver b f a).1 c f a).1, (takeOver b f a).2 ++ (first (takeOver b f a).1 c f a).2)) ∧
    (∀ (b : B) f a, takeOver b f a = (b, []) ∨
      ∃ req, f = .connect req ∧ req.clientId.isEmpty = false ∧
        takeOver b f a = stopAll b (sameClient b req.clientId)) := by
  refine ⟨by decide, ⟨by decide, Mqtt.Proofs.Takeover.connect_held_over⟩,
    Mqtt.Proofs.Takeover.disconnect_complete, Mqtt.Proofs.Takeover.registered_eq, ?_, ?_⟩
  · intro b c f a
    rw [Mqtt.Proofs.Connect.step_first_eq, Mqtt.Proofs.Connect.connect_eq]
  · intro b f a
    rcases Mqtt.Proofs.Connect.takeOver_cases b f a with h | ⟨req, h1, _, _, h4, h5⟩
    · exact .inl h
    · exact .inr ⟨req, h1, h4, h5⟩

/-- **Only state kept from a CleanSession = 0 connection is resumed.**  The source's `Session.Resumable`
is the conjunction `resumableProgram` - initialized, has its CONNECT, and that CONNECT had
CleanSession = 0 -, evaluated under the session's mutex, and the source's `getSession` is
`getSessionProgram`: the store is consulted only for a CleanSession = 0 CONNECT, SessionPresent = 1 and
`Update` come only behind `Resumable()`, everything else gets a new session with SessionPresent = 0.
`resumable` is then the model's test - `first` resumes `((b.storeGet cid).bind b.getSess).filter (fun s =>
!s.clean)` -, so C10_session_present reads on the source: SessionPresent = 1 iff CleanSession = 0, the
identifier is not empty and the store holds a session for it whose CONNECT had CleanSession = 0.  The
third term is not redundant after the take-over repair: the session of a CleanSession = 1 CONNECT whose
handshake failed after `getSession` (CONNACK not written) stays in the store; without the term the next
CleanSession = 0 CONNECT of that client would resume it (`resumable_without_clean_resumes_clean`). -/
theorem C10_resumable_is_source :
    Mqtt.Generated.takeoverResumable = resumableProgram.map ResOp.code ∧
    Mqtt.Generated.takeoverResumableLocked = true ∧
    Mqtt.Generated.takeoverGetSessionResume = getSessionProgram.map GsOp.code ∧
    (∀ initted hasConnect clean,
      resumable resumableProgram initted hasConnect clean = (initted && hasConnect && !clean)) ∧
    (∀ (b : B) c req authOk sp, Out.send c (.connack sp 0) ∈ (first b c (.connect req) authOk).2 →
      (sp = true ↔ req.clean = false ∧ req.clientId ≠ [] ∧
        ∃ r s, b.storeGet req.clientId = some r ∧ b.getSess r = some s ∧
          resumable resumableProgram true true s.clean = true)) := by
  refine ⟨by decide, by decide, by decide, Mqtt.Proofs.Takeover.resumable_eq, ?_⟩
  intro b c req authOk sp h
  rw [C10_session_present b c req authOk sp h]
  constructor
  · rintro ⟨h1, h2, r, s, h3, h4, h5⟩
    exact ⟨h1, h2, r, s, h3, h4, by rw [Mqtt.Proofs.Takeover.resumable_eq, h5]; rfl⟩
  · rintro ⟨h1, h2, r, s, h3, h4, h5⟩
    refine ⟨h1, h2, r, s, h3, h4, ?_⟩
    rw [Mqtt.Proofs.Takeover.resumable_eq] at h5
    cases hs : s.clean with
    | false => rfl
    | true => rw [hs] at h5; cases h5

/-- **A handshake whose CONNACK cannot be written does nothing after `getSession`.**  In the source the
branch `if err = writeMessage(c, resp); err != nil` of `handleConnection` consists of `return nil, err`
alone (regenerated fact `takeoverWriteFailReturnsOnly`; the deferred `c.Close()` closes the socket):
nothing is deleted from the session store, nothing is unsubscribed, no `stop()` runs.  That is the
model's `firstFail` - after the session lookup / update / creation of `first` it changes neither the
connection table nor the subscription tries, and its only output is the close -, of which
`C10_failed_handshake_refines` and `C10_failed_handshake_model_keeps_session` speak: the session a
CleanSession=0 CONNECT would resume is still there, with its subscriptions, after the failed attempt. -/
theorem C10_failed_write_is_source :
    Mqtt.Generated.takeoverWriteFailReturnsOnly = true ∧
    (∀ (b : B) c f a, (firstFail b c f a).1.conns = b.conns ∧ (firstFail b c f a).1.topics = b.topics ∧
      (firstFail b c f a).2 = [.closed c]) := by
  refine ⟨by decide, ?_⟩
  intro b c f a
  unfold firstFail
  cases f with
  | garbage => exact ⟨rfl, rfl, rfl⟩
  | other t => exact ⟨rfl, rfl, rfl⟩
  | connect req =>
    simp only
    split
    · exact ⟨rfl, rfl, rfl⟩
    · exact ⟨rfl, rfl, rfl⟩
    · split
      · exact ⟨rfl, rfl, rfl⟩
      · split <;> exact ⟨rfl, rfl, rfl⟩

end Mqtt.Properties.C10
