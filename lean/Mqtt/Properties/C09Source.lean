/-
C09 — tie to the Go source: when `service.stop` looks at the will, and how long `connectMu` is held.

"A DISCONNECT packet received ⇒ no will" has two halves.  The processor clears the will flag of the stored
CONNECT when it processes DISCONNECT (`Model/Broker.lean`: `packet … .disconnect`; C09_disconnect_no_will).
And `stop()` looks at the flag only when the processor has finished: after `in.Close()` the processor still
works off everything that was committed to the incoming ring, so for a `stop()` called from OUTSIDE the
connection - the take-over by a CONNECT with the same client identifier (MQTT-3.1.4-2), `Server.Close` -
a DISCONNECT may be received and not yet processed when `stop()` begins.  The life-cycle model
(`Model/Lifecycle.lean`) has that order: `.will` reads `Sh.willFlag` when it runs, after `.wgWait`.

This is the only module of C09 that is built from the sections `takeover-stop` and `takeover-connect` of
the regenerated facts (`extract/facts_takeover.go`).  NOTHING may import this module (BUILDING.md,
"Source-tie modules").
-/
import Mqtt.Properties.C09
import Mqtt.Proofs.Takeover
import Mqtt.Generated.Facts

namespace Mqtt.Properties.C09
open Mqtt.Model.Takeover Mqtt.Model.Lifecycle

/-- the life-cycle configuration of the examples: rings of 16 bytes, blocks of 8 -/
def lc : Cfg := { cap := 16, rblock := 8, wblock := 8 }

/-- a connection with a will whose processor is parked delivering to a third connection that does not
read; behind that packet its DISCONNECT is already in the incoming ring; one external caller of `stop()` -/
def heldWithDisconnect : St :=
  { sh := { extBlocked := true, inR := { buf := 6 },
            stream := [⟨2, 4, .normal [.foreign]⟩, ⟨2, 2, .disconnect⟩], willFlag := true },
    proc := .acts [.foreign], ks := [.idle] }

/-- **`stop()` reads the will after the wait.**  In the source's `stop()`, in statement order, the
accesses to the session's stored CONNECT and will and the wait for the goroutines are: `wgStopped.Wait()`,
then `Cmsg.WillFlag()`, `sess.Will`, `Cmsg.CleanSession()` - nothing of the stored CONNECT, and nothing
assigned from it, is read before the wait; that is the order of the life-cycle model's `stopProgram`
(`sessReads`).  What the order is for, in that model: a connection taken over (or closed by the server)
while its DISCONNECT is queued behind a delivery that a third party holds - the external `stop()` waits at
`wgStopped.Wait`; when the third party lets go the processor processes the DISCONNECT and clears the flag;
the teardown then unsubscribes and publishes NO will. -/
theorem C09_stop_reads_will_after_wait :
    Mqtt.Generated.takeoverStopSessReads = stopProgram.flatMap sessReads ∧
    readsAfterWait Mqtt.Generated.takeoverStopSessReads = true ∧
    (let s1 := drain lc 40 ((estep lc heldWithDisconnect (.serverClose 0)).getD heldWithDisconnect)
     let s2 := drain lc 40 ((estep lc s1 (.extBlock false)).getD s1)
     quiescent lc s1 = true ∧ Final s1 = false ∧ s1.ks = [.run 5] ∧ s1.sh.effects = [] ∧
     Final s2 = true ∧ s2.sh.willFlag = false ∧ s2.sh.effects = [.unsub]) := by
  refine ⟨by decide, by decide, ?_⟩
  decide

/-- **`connectMu` is held from the take-over to the registration.**  The source's `handleConnection`,
after authentication, is `connectProgram`: `connectMu.Lock()`, `defer connectMu.Unlock()`, the take-over
(for a non-empty client identifier), `getSession`, the CONNACK, `start`, the append to `svcs` - the mutex is
released by the `defer` only, i.e. when the function returns.  So between "the connection that had this
client identifier has published its will and is gone" and "this connection is registered" no other
handshake runs: a second CONNECT of the client finds THIS connection in `svcs` and takes it over - its will
is published -, which is what lets the broker model run a CONNECT as one event
(`C09_take_over_is_an_end`). -/
theorem C09_connectMu_held_to_registration :
    Mqtt.Generated.takeoverConnectSeq = connectProgram.map ConnOp.code ∧
    Mqtt.Generated.takeoverStoppedMade = true ∧ heldOver connectProgram = true :=
  ⟨by decide, by decide, Mqtt.Proofs.Takeover.connect_held_over⟩

/-- **`Server.Close` of the source is the model's `srvClose`.**  The source's `Close` is, statement by
statement, `closeProgram` (regenerated fact `takeoverCloseSeq`): a copy of `svcs` under `Server.mu`, the
loop that closes every outgoing ring, then the loop that calls `stop()` on every connection of that copy,
in its order - the order of registration.  The model performs those `stop()`s as `stopAll` over the live
connections in table order, each a non-graceful end (`C09_server_close_publishes_wills`). -/
theorem C09_server_close_is_source :
    Mqtt.Generated.takeoverCloseSeq = closeProgram.map ClOp.code ∧
    closeProgram.idxOf .closeOuts < closeProgram.idxOf .stops ∧
    (∀ b : Mqtt.Model.Broker.B, Mqtt.Model.Broker.srvClose b =
      Mqtt.Model.Broker.stopAll b (Mqtt.Model.Broker.liveIds b)) :=
  ⟨by decide, by decide, fun _ => rfl⟩

end Mqtt.Properties.C09
