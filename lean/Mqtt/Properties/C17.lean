/-
C17 — Outgoing streams are whole packets; each publisher's messages stay in order.

"The byte stream the library writes to any connection is always a sequence of
complete, well-formed MQTT packets, even when many goroutines deliver to the
same connection at once; and the messages one publisher sends on one topic at
one QoS level reach every subscriber of that topic in the order they were
published."

Property theorems only (helper lemmas: `Proofs/WriteLock.lean`,
`Proofs/WriteWrap*.lean`, `Proofs/BrokerOrder.lean`).

Part 1 (whole packets) is about `Model/WriteLock.lean`: `service.writeMessage`
as a small-step program run by any number of goroutines against one
connection.  All theorems quantify over *every* number of threads, every list
of packets per thread (`todos`) and every schedule (`sched : List Nat`, any
length; a choice that is not enabled is skipped).  A packet is an opaque byte
string here: that `Encode` produces a well-formed packet of exactly the
announced length is the codec's property (C03); what is proved here is that
the stream is the concatenation of those byte strings, whole and in commit order.

Section 5 redoes part 1 over the ring as it is (`Model/WriteWrap.lean`): a finite
ring of `2^k` cells with a consumer, `WriteWait` blocking / refusing, and the
wrap branch with the shared scratch buffer `svc.outtmp` (helper lemmas:
`Proofs/WriteWrap*.lean`; tie to the source: `extract/facts_wrap.go`).

Part 2 (per-publisher order, section 4) is about the sequential broker model
`Model/Broker.lean`, for *all* broker states satisfying the representation
invariant `BInv` (C02: holds initially, preserved by every event), all
connection identifiers, packets and event histories.
-/
import Mqtt.Proofs.WriteLock
import Mqtt.Proofs.WriteWrapProgress
import Mqtt.Proofs.WriteWrapScratch
import Mqtt.Proofs.WriteWrapFacts
import Mqtt.Proofs.BrokerOrder

namespace Mqtt.Properties.C17

section lock
open Mqtt.Model.WriteLock Mqtt.Proofs.WriteLock

/-! ## 1. Whole packets under `wmu` (any number of concurrent writers) -/

/-- **C17 (a).**  In every reachable state of the program as it is (`locked =
true`) the consumer-visible stream `buf[0, pseq)` is exactly the concatenation of
the committed packets, whole, in commit order; and there is a commit log
(thread, packet) — the packets of the log are `s.done`, every entry belongs to
an existing thread, and for every thread the packets it committed, in commit
order, followed by the packets it still has to deliver, are the list it was
given.  So no packet is torn, lost, duplicated or invented, and each writer's
packets keep their order. -/
theorem C17_packets_atomic (todos : List (List (List UInt8))) (sched : List Nat) :
    let s := run true (init todos) sched
    visible s = s.done.flatten ∧
    ∃ log : List (Nat × List UInt8),
      log.map (·.2) = s.done ∧
      (∀ e ∈ log, e.1 < todos.length) ∧
      s.ths.length = todos.length ∧
      ∀ t th, s.ths[t]? = some th → todos[t]? = some (fromThread log t ++ th.todo) := by
  intro s
  obtain ⟨log, h⟩ := inv_reachable todos sched
  refine ⟨?_, log, h.logd, h.logt, h.len, h.prov⟩
  show s.buf.take s.pseq = s.done.flatten
  exact h.vis

/-- Mutual exclusion and the shape of the critical section.  In every reachable
state of the locked program a thread inside `writeMessage` is the holder of
`wmu` and has a packet in hand, every other thread is outside; from the
reservation on its `start` *is* the producer cursor (so it makes no difference
that `WriteCommit`/`Write` re-read the cursor instead of using the value
`WriteWait` returned), and after `Encode` the bytes at the cursor are the packet
in hand. -/
theorem C17_critical_section (todos : List (List (List UInt8))) (sched : List Nat) :
    let s := run true (init todos) sched
    ∀ t th, s.ths[t]? = some th → th.pc ≠ .idle →
      s.holder = some t ∧ th.todo ≠ [] ∧
      (∀ u thu, s.ths[u]? = some thu → u ≠ t → thu.pc = .idle) ∧
      (th.pc = .reserved ∨ th.pc = .encoded → th.start = s.pseq) ∧
      (th.pc = .encoded → ∀ m rest, th.todo = m :: rest → (s.buf.drop s.pseq).take m.length = m) := by
  intro s t th hth hne
  obtain ⟨log, h⟩ := inv_reachable todos sched
  have hok := h.ths t th hth
  refine ⟨hok.holder hne, hok.work hne, fun u thu hu hut => h.others_idle (hok.holder hne) hu hut,
    hok.start, ?_⟩
  intro hpc m rest htd
  rw [← hok.start (Or.inr hpc)]
  exact hok.bytes hpc m rest htd

/-- Every packet in the stream is one of the packets some writer was given. -/
theorem C17_packets_whole (todos : List (List (List UInt8))) (sched : List Nat) :
    let s := run true (init todos) sched
    ∀ p ∈ s.done, ∃ l ∈ todos, p ∈ l := by
  intro s p hp
  obtain ⟨log, h⟩ := inv_reachable todos sched
  have hp' : p ∈ log.map (·.2) := by rw [h.logd]; exact hp
  obtain ⟨⟨t, q⟩, he, hq⟩ := List.mem_map.mp hp'
  simp only at hq; subst hq
  have ht : t < s.ths.length := by rw [h.len]; exact h.logt _ he
  have hth : s.ths[t]? = some s.ths[t] := List.getElem?_eq_getElem ht
  have := h.prov t _ hth
  refine ⟨_, List.mem_of_getElem? this, ?_⟩
  apply List.mem_append_left
  simp only [fromThread, List.mem_map, List.mem_filter]
  exact ⟨(t, q), ⟨he, by simp⟩, rfl⟩

/-- When every writer has finished, the stream is a merge of the writers' lists:
the packets of thread `t` in the commit log are exactly `t`'s list, in order. -/
theorem C17_packets_complete (todos : List (List (List UInt8))) (sched : List Nat) :
    let s := run true (init todos) sched
    (∀ th ∈ s.ths, th.todo = []) →
    visible s = s.done.flatten ∧
    ∃ log : List (Nat × List UInt8),
      log.map (·.2) = s.done ∧ (∀ e ∈ log, e.1 < todos.length) ∧
      ∀ t l, todos[t]? = some l → fromThread log t = l := by
  intro s hall
  obtain ⟨hv, log, h1, h2, h3, h4⟩ := C17_packets_atomic todos sched
  refine ⟨hv, log, h1, h2, ?_⟩
  intro t l hl
  have ht : t < s.ths.length := by rw [h3]; exact lt_of_getElem? hl
  have hth : s.ths[t]? = some s.ths[t] := List.getElem?_eq_getElem ht
  have := h4 t _ hth
  rw [hall _ (List.getElem_mem ht), List.append_nil, hl] at this
  exact (Option.some.inj this).symm

/-! Non-vacuity: three writers, interleaved, everything delivered. -/

example :
    let s := run true (init [[[1, 2], [3]], [[4, 5, 6]], [[7]]])
      [0, 1, 2, 0, 0, 0, 2, 1, 2, 2, 2, 1, 0, 1, 1, 1, 0, 0, 0, 0]
    s.done = [[1, 2], [7], [4, 5, 6], [3]] ∧ visible s = [1, 2, 7, 4, 5, 6, 3] ∧
    s.ths.all (fun th => th.todo.isEmpty) = true := by decide

/-- a writer blocked on `wmu` is skipped, not lost -/
example :
    let s := run true (init [[[1]], [[2]]]) [0, 1, 1, 1, 0, 0, 0, 1, 1, 1, 1]
    s.done = [[1], [2]] ∧ visible s = [1, 2] := by decide

/-! ## 2. The mutex is necessary -/

/-- **C17 (b).**  The same program without `wmu` (`locked = false`): two
writers, one one-byte packet each.  Both read the cursor before either commits,
so both reserve `[0, 1)`; the second `Encode` overwrites the first packet and
the second commit leaves the cursor where the first put it.  Two packets were
committed, the consumer sees one byte: the stream is not the concatenation of
the committed packets. -/
theorem C17_unlocked_counterexample :
    let s := run false (init [[[1]], [[2]]]) [0, 1, 0, 1, 0, 1, 0, 1]
    s.done = [[1], [2]] ∧ visible s = [2] ∧ visible s ≠ s.done.flatten := by decide

/-- the same schedule under the lock (thread 1 is refused until thread 0 has
committed) delivers both packets -/
example :
    let s := run true (init [[[1]], [[2]]]) [0, 1, 0, 1, 0, 1, 0, 1, 1, 1, 1]
    s.done = [[1], [2]] ∧ visible s = [1, 2] := by decide

/-- without the lock a packet can also be torn: the one committed packet is
`[1, 2, 3]`, the consumer sees its first byte replaced by the other writer's -/
example :
    let s := run false (init [[[1, 2, 3]], [[9]]]) [0, 1, 0, 1, 0, 1, 0]
    s.done = [[1, 2, 3]] ∧ visible s = [9, 2, 3] := by decide

/-! ## 3. No deadlock inside `writeMessage` -/

/-- **C17 (c).**  In every reachable state of the locked program: the holder of
`wmu` is enabled (it never waits for anything inside the critical section);
when `wmu` is free every thread that still has a packet is enabled; hence as
long as any thread has a packet left, some thread can move. -/
theorem C17_progress (todos : List (List (List UInt8))) (sched : List Nat) :
    let s := run true (init todos) sched
    (∀ t, s.holder = some t → (step true s t).isSome = true) ∧
    (s.holder = none → ∀ t th, s.ths[t]? = some th → th.todo ≠ [] → (step true s t).isSome = true) ∧
    ((∃ th ∈ s.ths, th.todo ≠ []) → ∃ t, (step true s t).isSome = true) := by
  intro s
  obtain ⟨log, h⟩ := inv_reachable todos sched
  refine ⟨fun t ht => holder_enabled h ht, fun hn t th hth hw => free_enabled h hn hth hw, ?_⟩
  rintro ⟨th, hm, hw⟩
  cases hh : s.holder with
  | some t => exact ⟨t, holder_enabled h hh⟩
  | none =>
    obtain ⟨t, ht, rfl⟩ := List.getElem_of_mem hm
    exact ⟨t, free_enabled h hh (List.getElem?_eq_getElem ht) hw⟩

/-- A state in which no thread can move has delivered everything: every
writer's list, whole and in order, is in the stream. -/
theorem C17_quiescent_delivered (todos : List (List (List UInt8))) (sched : List Nat) :
    let s := run true (init todos) sched
    (∀ t, step true s t = none) →
    (∀ th ∈ s.ths, th.todo = []) ∧ visible s = s.done.flatten ∧
    ∃ log : List (Nat × List UInt8),
      log.map (·.2) = s.done ∧ (∀ e ∈ log, e.1 < todos.length) ∧
      ∀ t l, todos[t]? = some l → fromThread log t = l := by
  intro s hq
  have hall : ∀ th ∈ s.ths, th.todo = [] := by
    intro th hm
    cases htd : th.todo with
    | nil => rfl
    | cons m rest =>
      obtain ⟨t, ht⟩ := (C17_progress todos sched).2.2 ⟨th, hm, by rw [htd]; exact List.cons_ne_nil _ _⟩
      have ht' : (step true s t).isSome = true := ht
      rw [hq t] at ht'; cases ht'
  exact ⟨hall, C17_packets_complete todos sched hall⟩

/-- Termination measure: `work s` = number of own steps the threads still have
to take (four per packet).  Every enabled step lowers it by exactly one, it
starts at four times the number of packets, and it is zero only when every list
is empty — so every schedule that keeps choosing enabled threads (one exists
by `C17_progress`) delivers everything in exactly `4 · #packets` steps. -/
theorem C17_progress_measure (todos : List (List (List UInt8))) (sched : List Nat) :
    let s := run true (init todos) sched
    (∀ t s', step true s t = some s' → work s' + 1 = work s) ∧
    work (init todos) = 4 * (todos.map List.length).sum ∧
    (work s = 0 → ∀ th ∈ s.ths, th.todo = []) := by
  intro s
  obtain ⟨log, h⟩ := inv_reachable todos sched
  exact ⟨fun t s' hs => work_step h hs, work_init todos, work_zero h⟩

/-- blocked entry is the only disabled choice while work remains: here thread 1
is refused while thread 0 holds `wmu`, thread 0 is enabled -/
example :
    let s := run true (init [[[1]], [[2]]]) [0, 0]
    s.holder = some 0 ∧ step true s 1 = none ∧ (step true s 0).isSome = true ∧ work s = 6 := by decide

end lock

/-! ## 4. Per-publisher order on the broker model

`stream d b evs` — the PUBLISH packets written to connection `d` while the
broker, started in `b`, processes the events `evs`, in the order written
(`pubsTo d os`: the PUBLISH packets among the outputs `os` addressed to `d`). -/

section order
open Mqtt.Iface.Broker Mqtt.Model.Broker Mqtt.Proofs.BrokerQos Mqtt.Proofs.BrokerOrder

/-- `run` yields one output list per event — the `i`-th is the output of the
`i`-th event in the state the first `i` events lead to — and the stream of
PUBLISH packets to `d` is the concatenation over the events, in event order, of
each event's sends to `d`; a history processed in two parts gives the two
streams one after the other. -/
theorem C17_stream_per_event (b : B) (d : Nat) (evs : List Ev) :
    (run b evs).2.length = evs.length ∧
    (∀ i, (run b evs).2[i]? = evs[i]?.map (fun e => (step (run b (evs.take i)).1 e).2)) ∧
    stream d b evs = ((run b evs).2.map (pubsTo d)).flatten ∧
    (∀ e1 e2, evs = e1 ++ e2 → stream d b evs = stream d b e1 ++ stream d (run b e1).1 e2) :=
  ⟨run_length b evs, run_getElem b evs, stream_eq_flatten d b evs,
   fun e1 e2 h => by rw [h]; exact stream_append d b e1 e2⟩

/-- **C17 (d), QoS 0 and QoS 1.**  Publisher connection `c` sends PUBLISH `p1`
and later PUBLISH `p2`, each at QoS 0 or 1, each on a live connection; anything
may happen before, in between (`mid`) and after, on any connection.  Then the
stream of `d` is

    (stream before) ++ D1 ++ (stream during `mid`) ++ D2 ++ (stream after)

where `D1`/`D2` are what `onPublish` writes to `d` for `p1`/`p2` in the state
each arrives in: each message is delivered within its own event, so every copy
of `p1` precedes every copy of `p2`; every packet of `D1` carries the topic and
payload of `p1`, every packet of `D2` those of `p2`; and if `d` is a live
connection which the subscriber lookup returns for the message's topic and QoS
when it arrives (topic name not empty), the message is delivered (`Di ≠ []`).
(The statement does not need `p1` and `p2` to share topic or QoS: at QoS 0/1
one publisher's messages stay in order across topics too.) -/
theorem C17_publisher_order (b : B) (hI : BInv b) (c d : Nat) (p1 p2 : Pub) (pre mid post : List Ev)
    (hqos1 : p1.qos = 0 ∨ p1.qos = 1) (hqos2 : p2.qos = 0 ∨ p2.qos = 1) :
    let b1  := (run b pre).1                              -- state in which p1 arrives
    let b1' := (step b1 (.packet c (.publish p1))).1
    let b2  := (run b1' mid).1                            -- state in which p2 arrives
    let b2' := (step b2 (.packet c (.publish p2))).1
    let D1  := pubsTo d (onPublish b1 ⟨p1, false⟩).2.2.1
    let D2  := pubsTo d (onPublish b2 ⟨p2, false⟩).2.2.1
    ∀ (_hpub1 : b1.alive c = true) (_hpub2 : b2.alive c = true),
    stream d b (pre ++ .packet c (.publish p1) :: (mid ++ .packet c (.publish p2) :: post)) =
      stream d b pre ++ (D1 ++ (stream d b1' mid ++ (D2 ++ stream d b2' post))) ∧
    (∀ w ∈ D1, w.topic = p1.topic ∧ w.payload = p1.payload) ∧
    (∀ w ∈ D2, w.topic = p2.topic ∧ w.payload = p2.payload) ∧
    (d < cbBase → b1.alive d = true → p1.topic ≠ [] → Subscribed b1 d p1.topic p1.qos → D1 ≠ []) ∧
    (d < cbBase → b2.alive d = true → p2.topic ≠ [] → Subscribed b2 d p2.topic p2.qos → D2 ≠ []) := by
  intro b1 b1' b2 b2' D1 D2 hpub1 hpub2
  have hI1 : BInv b1 := run_inv hI pre
  have hI1' : BInv b1' := step_inv hI1 _
  have hI2 : BInv b2 := run_inv hI1' mid
  refine ⟨?_, ?_, ?_, ?_, ?_⟩
  · rw [stream_two, (publish01_step hI1 hpub1 p1 hqos1 d).2]
    show _ ++ (_ ++ (_ ++ (pubsTo d (step b2 _).2 ++ _))) = _
    rw [(publish01_step hI2 hpub2 p2 hqos2 d).2]
  · intro w hw; exact onPublish_content b1 ⟨p1, false⟩ d w (mem_pubsTo.mp hw)
  · intro w hw; exact onPublish_content b2 ⟨p2, false⟩ d w (mem_pubsTo.mp hw)
  · intro hd ha ht hs; exact onPublish_delivers b1 ⟨p1, false⟩ d hd ha ht hs
  · intro hd ha ht hs; exact onPublish_delivers b2 ⟨p2, false⟩ d hd ha ht hs

/-- … in "precedes" form: if `d` is alive and subscribed both times, the stream
of `d` contains a packet with `p1`'s topic and payload and, later, one with
`p2`'s. -/
theorem C17_publisher_order_precedes (b : B) (hI : BInv b) (c d : Nat) (p1 p2 : Pub) (pre mid post : List Ev)
    (hqos1 : p1.qos = 0 ∨ p1.qos = 1) (hqos2 : p2.qos = 0 ∨ p2.qos = 1)
    (hconn : d < cbBase) (htopic1 : p1.topic ≠ []) (htopic2 : p2.topic ≠ []) :
    let b1 := (run b pre).1
    let b2 := (run (step b1 (.packet c (.publish p1))).1 mid).1
    ∀ (_hpub1 : b1.alive c = true) (_hpub2 : b2.alive c = true)
      (_halive1 : b1.alive d = true) (_halive2 : b2.alive d = true)
      (_hsub1 : Subscribed b1 d p1.topic p1.qos) (_hsub2 : Subscribed b2 d p2.topic p2.qos),
    ∃ A w1 M w2 P,
      stream d b (pre ++ .packet c (.publish p1) :: (mid ++ .packet c (.publish p2) :: post)) =
        A ++ w1 :: (M ++ w2 :: P) ∧
      w1.topic = p1.topic ∧ w1.payload = p1.payload ∧ w2.topic = p2.topic ∧ w2.payload = p2.payload := by
  intro b1 b2 hpub1 hpub2 halive1 halive2 hsub1 hsub2
  obtain ⟨heq, hc1, hc2, hn1, hn2⟩ := C17_publisher_order b hI c d p1 p2 pre mid post hqos1 hqos2 hpub1 hpub2
  have hne1 := hn1 hconn halive1 htopic1 hsub1
  have hne2 := hn2 hconn halive2 htopic2 hsub2
  cases hD1 : pubsTo d (onPublish b1 ⟨p1, false⟩).2.2.1 with
  | nil => exact absurd hD1 hne1
  | cons w1 r1 =>
    cases hD2 : pubsTo d (onPublish b2 ⟨p2, false⟩).2.2.1 with
    | nil => exact absurd hD2 hne2
    | cons w2 r2 =>
      rw [hD1, hD2] at heq
      refine ⟨stream d b pre, w1, r1 ++ stream d (step b1 (.packet c (.publish p1))).1 mid, w2,
        r2 ++ stream d (step b2 (.packet c (.publish p2))).1 post, ?_, ?_⟩
      · rw [heq]; simp only [List.cons_append, List.append_assoc]; rfl
      · have h1 := hc1 w1 (by rw [hD1]; exact List.mem_cons_self)
        have h2 := hc2 w2 (by rw [hD2]; exact List.mem_cons_self)
        exact ⟨h1.1, h1.2, h2.1, h2.2⟩

/-- **C17 (d), QoS 2.**  For every session object `r` (the publisher's session:
`bound b c r` — C02) and every history: `blocks d b r evs` lists, in hand-over
order, each content taken off `r`'s inbound queue by a PUBREL together with the
PUBLISH packets written to `d` for it.  (1) Its contents are exactly `handed`,
the contents C02 counts as handed over; (2) these are an initial segment of the
contents queued at the start followed by the exchanges opened since, in opening
order (`C02_exactly_once`): exchanges opened in order are released in that
order, none skipped; (3) the packets written for them appear in the stream of
`d` in that same order; (4) each carries the topic and payload of the content
it was written for (the exchange's first PUBLISH). -/
theorem C17_publisher_order_qos2 (b : B) (hI : BInv b) (d r : Nat) (evs : List Ev) :
    (blocks d b r evs).map (·.1) = handed b r evs ∧
    handed b r evs <+: (pub2inOf b r).map (·.msg) ++ opened b r evs ∧
    (((blocks d b r evs).map (·.2)).flatten).Sublist (stream d b evs) ∧
    (∀ x ∈ blocks d b r evs, ∀ w ∈ x.2, w.topic = x.1.topic ∧ w.payload = x.1.payload) :=
  ⟨blocks_fst hI d r evs, handed_prefix hI evs r, blocks_sublist hI d r evs, blocks_content d b r evs⟩

/-- … for two exchanges: if `p1` was opened before `p2` on session object `r`
(queue empty at the start) and the hand-overs have got as far as `p2`, then
`p1` was handed over before it — with exactly the exchanges opened in between
handed over in between. -/
theorem C17_qos2_fifo (b : B) (hI : BInv b) (r : Nat) (evs : List Ev) (p1 p2 : Pub) (A M P : List Pub)
    (hempty : pub2inOf b r = [])
    (hopened : opened b r evs = A ++ p1 :: (M ++ p2 :: P))
    (hreached : A.length + M.length + 2 ≤ (handed b r evs).length) :
    ∃ P', handed b r evs = A ++ p1 :: (M ++ p2 :: P') ∧ P' <+: P := by
  have hp := handed_prefix hI evs r
  rw [hempty, hopened, List.map_nil, List.nil_append] at hp
  have e : A ++ p1 :: (M ++ p2 :: P) = (A ++ p1 :: (M ++ [p2])) ++ P := by simp
  rw [e] at hp
  have hL : (A ++ p1 :: (M ++ [p2])) <+: (A ++ p1 :: (M ++ [p2])) ++ P := List.prefix_append _ _
  have hle : (A ++ p1 :: (M ++ [p2])).length ≤ (handed b r evs).length := by
    simp only [List.length_append, List.length_cons, List.length_nil]; omega
  obtain ⟨P', hP'⟩ := List.prefix_of_prefix_length_le hL hp hle
  refine ⟨P', ?_, ?_⟩
  · rw [← hP']; simp
  · rw [← hP'] at hp
    exact (List.prefix_append_right_inj _).mp hp

/-- One PUBREL on a live connection bound to `r`: what the step writes to `d` is
exactly, in queue order, the deliveries of the contents it releases (the PUBCOMP
is not a PUBLISH); and if `d` is a live connection subscribed for each of them,
each is delivered. -/
theorem C17_qos2_release_step (b : B) (hI : BInv b) (c d r id : Nat) (hbound : bound b c r = true) :
    let ev : Ev := .packet c (.pubrel id)
    (stepBlocks d b r ev).map (·.1) = stepHanded b r ev ∧
    pubsTo d (step b ev).2 = ((stepBlocks d b r ev).map (·.2)).flatten ∧
    (d < cbBase → b.alive d = true →
      (∀ p ∈ stepHanded b r ev, p.topic ≠ [] ∧ Subscribed b d p.topic p.qos) →
      ∀ x ∈ stepBlocks d b r ev, x.2 ≠ []) := by
  intro ev
  obtain ⟨h1, h2⟩ := stepBlocks_pubrel hI hbound d id
  exact ⟨h1, h2, fun hd ha hs => stepBlocks_nonempty d r ev hd ha hs⟩

/-! Concrete runs.  Connection 1 ("a") subscribes `t` at QoS 2, connection 3
("c") subscribes `t` at QoS 0, connection 2 ("b") is the publisher. -/

def connectPkt (cid : Bytes) : First :=
  .connect { protoName := [77, 81, 84, 84], version := 4, clean := true, will := none, clientId := cid }

def demo : B :=
  (run {} [.first 1 (connectPkt [97]) true, .first 2 (connectPkt [98]) true, .first 3 (connectPkt [99]) true,
           .packet 1 (.subscribe 1 [([116], 2)]), .packet 3 (.subscribe 1 [([116], 0)])]).1

example : BInv demo := run_inv inv_init _

/-- QoS 1: two publishes of connection 2 with a ping and a publish by connection
3 in between; connection 1 gets them in the order sent -/
example :
    let m1 : Pub := { qos := 1, topic := [116], pktid := 7, payload := [1] }
    let m2 : Pub := { qos := 1, topic := [116], pktid := 8, payload := [2] }
    let x  : Pub := { qos := 0, topic := [116], payload := [9] }
    let evs : List Ev := [.packet 2 (.publish m1), .packet 2 .pingreq, .packet 3 (.publish x), .packet 2 (.publish m2)]
    stream 1 demo evs = [m1, x, m2] ∧
    stream 3 demo evs = [{ m1 with qos := 0, pktid := 0 }, x, { m2 with qos := 0, pktid := 0 }] ∧
    Subscribed demo 1 [116] 1 := by
  refine ⟨by decide, by decide, [(1, 1), (3, 0)], 1, by decide, by decide⟩

/-- QoS 2: exchanges 5 then 6 opened, PUBREL 6 arrives first (nothing is
released: 5 is older), then PUBREL 5 releases both, in opening order -/
example :
    let m5 : Pub := { qos := 2, topic := [116], pktid := 5, payload := [1] }
    let m6 : Pub := { qos := 2, topic := [116], pktid := 6, payload := [2] }
    let evs : List Ev := [.packet 2 (.publish m5), .packet 2 (.publish m6), .packet 2 (.pubrel 6), .packet 2 (.pubrel 5)]
    bound demo 2 2 = true ∧ opened demo 2 evs = [m5, m6] ∧ handed demo 2 evs = [m5, m6] ∧
    blocks 1 demo 2 evs = [(m5, [m5]), (m6, [m6])] ∧ stream 1 demo evs = [m5, m6] ∧
    stream 1 demo (evs.take 3) = [] := by decide

end order

/-! ## 5. The finite ring: wrap branch, scratch buffer, blocking (`Model/WriteWrap.lean`)

Sections 1–3 treat the outgoing buffer as an unbounded array.  Here it is the ring it is:
`size = 2^k` cells, producer cursor `pseq`, consumer cursor `cseq`, ONE consumer that takes out
any number of the bytes below `pseq` (`Act.consume k`: up to `k`), and `writeMessage` with both
of its branches — `WriteWait` (blocks while `pseq + l − size > cseq`; `ErrBufferFull` for
`l > size`), then either `Encode` into the ring and `WriteCommit`, or, when the reservation
crosses the end of the ring, growth of the shared scratch buffer `svc.outtmp` if it is shorter
than `l`, `Encode` into it (bytes beyond the packet stay as they were), and
`Write(svc.outtmp[0:n])` = `waitForWriteSpace` again, `ringCopy` around the end of the ring,
cursor store.  Every theorem quantifies over the ring size `2^k`, the initial contents `tmp0` of
the scratch buffer, the number of threads and their packet lists `todos` (packets of ANY length),
and every schedule `sched : List Act` of thread and consumer steps (a thread step that is not
enabled is skipped).  `Encode` writing exactly the `Len()` bytes of a well-formed packet is C03. -/

section wrap
open Mqtt.Model.WriteWrap Mqtt.Proofs.WriteWrap

/-- **C17 wrap (a) — unread data is never overwritten.**  In every reachable state, whatever
thread step is taken next: it does not move the consumer cursor or the observed stream, does not
take the producer cursor back, keeps the ring at `size` cells, and leaves every cell that holds
a committed, not yet consumed byte (stream positions `[cseq, pseq)`) as it is — so the unread
bytes read off the ring before and after the step are the same.  At most `size` bytes are ever
unread. -/
theorem C17_wrap_safety (k : Nat) (tmp0 : List UInt8) (todos : List (List (List UInt8)))
    (sched : List Act) (t : Nat) :
    let size := 2 ^ k
    let s := run code size (init size tmp0 todos) sched
    s.sh.ring.length = size ∧ s.sh.cseq ≤ s.sh.pseq ∧ s.sh.pseq ≤ s.sh.cseq + size ∧
    ∀ s', step code size s t = some s' →
      s'.sh.cseq = s.sh.cseq ∧ s.sh.pseq ≤ s'.sh.pseq ∧ s'.sh.got = s.sh.got ∧
      s'.sh.ring.length = size ∧
      (∀ pos, s.sh.cseq ≤ pos → pos < s.sh.pseq → s'.sh.ring[pos % size]? = s.sh.ring[pos % size]?) ∧
      readRing s'.sh.ring size s.sh.cseq (s.sh.pseq - s.sh.cseq) = unread size s := by
  intro size s
  have hsz : 0 < size := Nat.two_pow_pos k
  have hI : Inv size todos s := inv_reachable size hsz tmp0 todos sched
  refine ⟨hI.sh.ringlen, hI.sh.le, hI.sh.room, ?_⟩
  intro s' hs
  obtain ⟨h1, h2, h3, h4, h5⟩ := step_safe hsz hI hs
  refine ⟨h1, h2, h3, by rw [h4]; exact hI.sh.ringlen, h5, ?_⟩
  apply readRing_congr
  intro i hi
  exact h5 (s.sh.cseq + i) (by omega) (by have := hI.sh.le; omega)

/-- **C17 wrap (b) — the stream theorem.**  In every reachable state the bytes the consumer has
observed so far, followed by the unread bytes `[cseq, pseq)` read off the ring, are exactly the
concatenation of the packets committed so far, in commit order.  Hence the observed stream is a
prefix of a concatenation of WHOLE packets (every packet boundary the consumer sees is a real
one, nothing stale, torn or foreign ever appears), the consumer cursor is the number of bytes
observed and the producer cursor the total length of the committed packets. -/
theorem C17_wrap_stream (k : Nat) (tmp0 : List UInt8) (todos : List (List (List UInt8)))
    (sched : List Act) :
    let size := 2 ^ k
    let s := run code size (init size tmp0 todos) sched
    s.sh.got ++ unread size s = (done s).flatten ∧
    s.sh.got <+: (done s).flatten ∧
    s.sh.cseq = s.sh.got.length ∧ s.sh.pseq = (done s).flatten.length := by
  intro size s
  have hI : Inv size todos s := inv_reachable size (Nat.two_pow_pos k) tmp0 todos sched
  have hst : s.sh.got ++ unread size s = (done s).flatten := hI.sh.stream
  refine ⟨hst, ⟨_, hst⟩, ?_, hI.sh.pseq⟩
  have hl := congrArg List.length hst
  rw [List.length_append] at hl
  have hu : (unread size s).length = s.sh.pseq - s.sh.cseq := readRing_length _ _ _ _
  have := hI.sh.pseq
  have := hI.sh.le
  omega

/-- **… with every writer's order kept and nothing lost.**  `s.log` lists the finished calls of
`writeMessage` (thread, committed or failed, packet) in the order they finished; `done s` are the
packets of its committed entries.  Every entry belongs to an existing thread; a call fails
exactly when its packet is longer than the ring (`ErrBufferFull`; nothing of it is written); and
for every thread the packets of its entries, in order, followed by what it still has to deliver,
are the list it was given. -/
theorem C17_wrap_order (k : Nat) (tmp0 : List UInt8) (todos : List (List (List UInt8)))
    (sched : List Act) :
    let size := 2 ^ k
    let s := run code size (init size tmp0 todos) sched
    s.ths.length = todos.length ∧
    (∀ e ∈ s.log, e.t < todos.length) ∧
    (∀ e ∈ s.log, (e.ok = true ↔ e.pkt.length ≤ size)) ∧
    (∀ t th, s.ths[t]? = some th → todos[t]? = some (sent s.log t ++ th.todo)) ∧
    (∀ p ∈ done s, p.length ≤ size ∧ ∃ l ∈ todos, p ∈ l) := by
  intro size s
  have hI : Inv size todos s := inv_reachable size (Nat.two_pow_pos k) tmp0 todos sched
  refine ⟨hI.len, hI.logt, hI.logok, hI.prov, ?_⟩
  intro p hp
  simp only [done, List.mem_map, List.mem_filter] at hp
  obtain ⟨e, ⟨he, hok⟩, rfl⟩ := hp
  refine ⟨(hI.logok e he).mp hok, ?_⟩
  have ht : e.t < s.ths.length := by rw [hI.len]; exact hI.logt e he
  have hth : s.ths[e.t]? = some s.ths[e.t] := List.getElem?_eq_getElem ht
  refine ⟨_, List.mem_of_getElem? (hI.prov e.t _ hth), ?_⟩
  apply List.mem_append_left
  simp only [sent, List.mem_map, List.mem_filter]
  exact ⟨e, ⟨he, by simp⟩, rfl⟩

/-- Mutual exclusion and the assertions of the delivery in progress.  In every reachable state a
thread inside `writeMessage` holds `wmu`, every other thread is outside, and — `PcOk`, by program
counter — its packet fits (`|m| ≤ size`, reservation `[pseq, pseq + |m|)` below `cseq + size`);
the cursor values it holds ARE the producer cursor (so it makes no difference that `Write` and
`WriteCommit` re-read it); past the growth test the scratch buffer is long enough; after `Encode`
into the scratch buffer its first `|m|` bytes are the packet, and the length handed to `Write` is
`|m|`; after `Encode` into the ring / `ringCopy` the ring holds the packet at `[pseq, pseq + |m|)`. -/
theorem C17_wrap_critical_section (k : Nat) (tmp0 : List UInt8) (todos : List (List (List UInt8)))
    (sched : List Act) :
    let size := 2 ^ k
    let s := run code size (init size tmp0 todos) sched
    ∀ t th, s.ths[t]? = some th → th.pc ≠ .idle →
      s.holder = some t ∧
      (∀ u thu, s.ths[u]? = some thu → u ≠ t → thu.pc = .idle) ∧
      ∃ m rest, th.todo = m :: rest ∧ PcOk size s.sh m th.pc := by
  intro size s t th hth hpc
  have hI : Inv size todos s := inv_reachable size (Nat.two_pow_pos k) tmp0 todos sched
  have hh := hI.holder_of_busy hth hpc
  refine ⟨hh, ?_, ?_⟩
  · intro u thu hu hne
    exact hI.idle u thu hu (by rw [hh]; intro c; cases c; exact hne rfl)
  · obtain ⟨th', m, rest, hth', htodo, hP⟩ := hI.held t hh
    rw [hth] at hth'; cases hth'
    exact ⟨m, rest, htodo, hP⟩

/-- **C17 wrap — the ring sees one producer at a time.**  Corollary of `C17_wrap_critical_section`, in the form
Core D / Core F use it: in every reachable state, two goroutines that are inside `writeMessage` — between `wmu.Lock` and the
deferred `Unlock`, i.e. anywhere in `WriteWait` … `WriteCommit` / `Write` on the connection's outgoing ring — are the same
goroutine.  So the producer calls that ALL goroutines make on one outgoing ring do not overlap: they form one sequential
program, which is what the ring program of `Model/Ring.lean` (one producer thread `p`) and the ring contract
`C16_ring_contract_is_C15` assume of their producer. -/
theorem C17_wrap_one_producer (k : Nat) (tmp0 : List UInt8) (todos : List (List (List UInt8)))
    (sched : List Act) :
    let size := 2 ^ k
    let s := run code size (init size tmp0 todos) sched
    ∀ (t u : Nat) (th thu : Th), s.ths[t]? = some th → s.ths[u]? = some thu → th.pc ≠ .idle → thu.pc ≠ .idle → t = u := by
  intro size s t u th thu hth hthu hpc hpcu
  obtain ⟨_, hothers, _⟩ := C17_wrap_critical_section k tmp0 todos sched t th hth hpc
  by_cases e : u = t
  · exact e.symm
  · exact absurd (hothers u thu hthu e) hpcu

/-- **C17 wrap (c) — the scratch buffer never reaches the stream.**  (b) holds for every initial
scratch buffer; more: two runs on the same schedule that start with different scratch buffers
agree, after every step, on the observed stream, the ring, both cursors, `wmu`, the threads and
the log — nothing the consumer or any thread can observe depends on what earlier packets (or
anything else) left in `svc.outtmp`, nor on how often it had to grow. -/
theorem C17_wrap_scratch_irrelevant (k : Nat) (tmp0 tmp1 : List UInt8)
    (todos : List (List (List UInt8))) (sched : List Act) :
    let size := 2 ^ k
    let s0 := run code size (init size tmp0 todos) sched
    let s1 := run code size (init size tmp1 todos) sched
    s0.sh.got = s1.sh.got ∧ s0.sh.ring = s1.sh.ring ∧ s0.sh.pseq = s1.sh.pseq ∧ s0.sh.cseq = s1.sh.cseq ∧
    s0.holder = s1.holder ∧ s0.log = s1.log ∧
    s0.ths.map (fun th => (th.pc, th.todo)) = s1.ths.map (fun th => (th.pc, th.todo)) := by
  intro size s0 s1
  obtain ⟨⟨h1, h2, h3, h4⟩, h5, h6, h7⟩ :=
    scratch_irrelevant size (Nat.two_pow_pos k) tmp0 tmp1 todos sched
  exact ⟨h4, h3, h1, h2, h5, h7, by rw [h6]⟩

/-- … and `[0:n]` is what keeps it out.  The variant that hands the WHOLE scratch buffer to
`Write` (`svc.out.Write(svc.outtmp)`; seeded change C17-wrap-writes-whole-scratch), ring of 8
cells, one thread, no concurrency: `[7,8,9,10]` wraps (scratch buffer grows to 4 bytes), later the
smaller `[21,22]` wraps too and is followed into the stream by the stale `9, 10`. -/
theorem C17_wrap_whole_scratch_counterexample :
    let sched : List Act :=
      List.replicate 5 (.th 0) ++ [.consume 8] ++ List.replicate 7 (.th 0) ++ [.consume 8] ++
      List.replicate 5 (.th 0) ++ [.consume 8] ++ List.replicate 7 (.th 0) ++ [.consume 8]
    let s := run { code with sliceN := false } 8
      (init 8 [] [[[1, 2, 3, 4, 5, 6], [7, 8, 9, 10], [11, 12, 13, 14, 15], [21, 22]]]) sched
    done s = [[1, 2, 3, 4, 5, 6], [7, 8, 9, 10], [11, 12, 13, 14, 15], [21, 22]] ∧
    s.sh.got = [1, 2, 3, 4, 5, 6, 7, 8, 9, 10, 11, 12, 13, 14, 15, 21, 22, 9, 10] ∧
    s.sh.got ++ unread 8 s ≠ (done s).flatten ∧ ¬ s.sh.got <+: (done s).flatten := by decide

/-- the same packets and schedule through the program as it is -/
example :
    let sched : List Act :=
      List.replicate 5 (.th 0) ++ [.consume 8] ++ List.replicate 7 (.th 0) ++ [.consume 8] ++
      List.replicate 5 (.th 0) ++ [.consume 8] ++ List.replicate 7 (.th 0) ++ [.consume 8]
    let s := run code 8
      (init 8 [] [[[1, 2, 3, 4, 5, 6], [7, 8, 9, 10], [11, 12, 13, 14, 15], [21, 22]]]) sched
    s.sh.got = [1, 2, 3, 4, 5, 6, 7, 8, 9, 10, 11, 12, 13, 14, 15, 21, 22] ∧
    s.sh.outtmp = [21, 22, 9, 10] ∧ s.sh.ring = [22, 10, 11, 12, 13, 14, 15, 21] ∧
    s.sh.pseq = 17 ∧ s.sh.cseq = 17 := by decide

/-- **C17 wrap (d) — the mutex is necessary on the wrap path too.**  The program without `wmu`,
ring of 8 cells: after `[1..6]` both threads reserve at position 6, both reservations wrap, both
packets go through the ONE scratch buffer: thread 1's `Encode` overwrites thread 0's packet before
thread 0's `Write` copies it.  Both calls report success; the consumer sees `[21,22,23]` twice
and `[11,12,13]` never. -/
theorem C17_wrap_unlocked_counterexample :
    let sched : List Act :=
      List.replicate 5 (.th 0) ++ [.consume 8] ++
      [.th 0, .th 0, .th 1, .th 1, .th 0, .th 0, .th 1, .th 1, .th 0, .th 0, .th 0, .th 1, .th 1, .th 1,
       .consume 8]
    let s := run { code with locked := false } 8
      (init 8 [] [[[1, 2, 3, 4, 5, 6], [11, 12, 13]], [[21, 22, 23]]]) sched
    done s = [[1, 2, 3, 4, 5, 6], [11, 12, 13], [21, 22, 23]] ∧
    s.sh.got = [1, 2, 3, 4, 5, 6, 21, 22, 23, 21, 22, 23] ∧
    s.sh.got ++ unread 8 s ≠ (done s).flatten := by decide

/-- the same schedule under the lock (thread 1 is refused until thread 0 has committed; it gets
its steps afterwards) -/
example :
    let sched : List Act :=
      List.replicate 5 (.th 0) ++ [.consume 8] ++
      [.th 0, .th 0, .th 1, .th 1, .th 0, .th 0, .th 1, .th 1, .th 0, .th 0, .th 0, .th 1, .th 1, .th 1,
       .consume 8] ++ List.replicate 8 (.th 1) ++ [.consume 8]
    let s := run code 8 (init 8 [] [[[1, 2, 3, 4, 5, 6], [11, 12, 13]], [[21, 22, 23]]]) sched
    s.sh.got = [1, 2, 3, 4, 5, 6, 11, 12, 13, 21, 22, 23] ∧
    s.log = [⟨0, true, [1, 2, 3, 4, 5, 6]⟩, ⟨0, true, [11, 12, 13]⟩, ⟨1, true, [21, 22, 23]⟩] := by decide

/-- **C17 wrap (e) — progress, the fairness hypothesis stated.**  `mu size s =
(size + 1) · work s + (pseq − cseq)` (`work`: at most 8 own steps per outstanding packet).  From
every reachable state: no schedule ever raises `mu`; and as long as a packet is outstanding, every
FAIR segment — one that schedules each thread at least once and contains a consumer step asking
for at least one byte (`Fair`) — lowers it.  The reason: a thread inside `writeMessage` waits
only in `WriteWait`, only for a packet that fits, and then unread bytes exist, so the consumer's
step is effective; with `wmu` free any thread with a packet can enter. -/
theorem C17_wrap_progress (k : Nat) (tmp0 : List UInt8) (todos : List (List (List UInt8)))
    (sched : List Act) :
    let size := 2 ^ k
    let s := run code size (init size tmp0 todos) sched
    (∀ seg, mu size (run code size s seg) ≤ mu size s) ∧
    (∀ seg, Fair todos.length seg → (∃ th ∈ s.ths, th.todo ≠ []) →
      mu size (run code size s seg) < mu size s) ∧
    (∀ t th m rest, s.ths[t]? = some th → th.todo = m :: rest → th.pc ≠ .idle → step code size s t = none →
      th.pc = .entered ∧ m.length ≤ size ∧ s.sh.cseq < s.sh.pseq) := by
  intro size s
  have hsz : 0 < size := Nat.two_pow_pos k
  have hI : Inv size todos s := inv_reachable size hsz tmp0 todos sched
  refine ⟨fun seg => run_mu_le hsz seg hI, fun seg hf hw => fair_lt hsz hI hw hf, ?_⟩
  intro t th m rest hth htodo hpc hs
  have hP := hI.pcOk_of_busy hth htodo hpc
  apply pcStep_blocked hP
  unfold step at hs
  rw [hth] at hs
  simp only [htodo, hpc, ↓reduceIte] at hs
  split at hs
  · assumption
  · cases hs
  · cases hs

/-- **… every packet is eventually dealt with.**  Any schedule made of `mu(initial state) =
(size + 1) · 8 · #packets` fair segments (so: every fair infinite schedule, after a prefix of
that many rounds) ends with every thread's list empty: every packet of length ≤ `size` has been
committed and every longer one refused — each thread's log entries are its list, in order — and
by (b) the stream the consumer sees then is the committed packets, whole, in commit order. -/
theorem C17_wrap_eventually (k : Nat) (tmp0 : List UInt8) (todos : List (List (List UInt8)))
    (segs : List (List Act)) (hfair : ∀ seg ∈ segs, Fair todos.length seg)
    (hlen : (2 ^ k + 1) * (8 * (todos.map List.length).sum) ≤ segs.length) :
    let size := 2 ^ k
    let s := run code size (init size tmp0 todos) segs.flatten
    (∀ th ∈ s.ths, th.todo = []) ∧
    (∀ t l, todos[t]? = some l → sent s.log t = l) ∧
    (∀ l ∈ todos, ∀ p ∈ l, (p.length ≤ size → p ∈ done s) ∧ (size < p.length → p ∈ failed s)) ∧
    s.sh.got ++ unread size s = (done s).flatten := by
  intro size s
  have hsz : 0 < size := Nat.two_pow_pos k
  have hI : Inv size todos s := inv_reachable size hsz tmp0 todos segs.flatten
  have hall : ∀ th ∈ s.ths, th.todo = [] :=
    fair_run_delivers hsz segs (inv_init size tmp0 todos) hfair (by rw [mu_init]; exact hlen)
  have hsent : ∀ t l, todos[t]? = some l → sent s.log t = l := by
    intro t l hl
    have ht : t < s.ths.length := by rw [hI.len]; exact lt_of_getElem? hl
    have hth : s.ths[t]? = some s.ths[t] := List.getElem?_eq_getElem ht
    have := hI.prov t _ hth
    rw [hall _ (List.getElem_mem ht), List.append_nil, hl] at this
    exact (Option.some.inj this).symm
  refine ⟨hall, hsent, ?_, hI.sh.stream⟩
  intro l hl p hp
  obtain ⟨t, ht⟩ := List.mem_iff_getElem?.mp hl
  have hps : p ∈ sent s.log t := by rw [hsent t l ht]; exact hp
  simp only [sent, List.mem_map, List.mem_filter] at hps
  obtain ⟨e, ⟨he, _⟩, rfl⟩ := hps
  have hok := hI.logok e he
  constructor
  · intro hle
    simp only [done, List.mem_map, List.mem_filter]
    exact ⟨e, ⟨he, hok.mpr hle⟩, rfl⟩
  · intro hgt
    simp only [failed, List.mem_map, List.mem_filter]
    refine ⟨e, ⟨he, ?_⟩, rfl⟩
    cases hb : e.ok with
    | false => rfl
    | true => have := hok.mp hb; omega

/-- the ring is full: thread 0 has committed 6 of 8 bytes, its next packet `[11,12,13]` has to
wait in `WriteWait` holding `wmu`; one byte consumed is enough for it to go on; thread 1's 9-byte
packet is longer than the ring and is refused, everything else arrives -/
example :
    let s := run code 8 (init 8 [9, 9] [[[1, 2, 3, 4, 5, 6], [11, 12, 13]], [[21, 22, 23, 24, 25, 26, 27, 28, 29]]])
      (List.replicate 7 (.th 0))
    s.holder = some 0 ∧ step code 8 s 0 = none ∧ step code 8 s 1 = none ∧
    (step code 8 (consume 8 s 1) 0).isSome = true ∧
    (let s' := run code 8 s ([.consume 3] ++ List.replicate 7 (.th 0) ++ List.replicate 3 (.th 1) ++ [.consume 100])
     s'.sh.got = [1, 2, 3, 4, 5, 6, 11, 12, 13] ∧ done s' = [[1, 2, 3, 4, 5, 6], [11, 12, 13]] ∧
     failed s' = [[21, 22, 23, 24, 25, 26, 27, 28, 29]] ∧ s'.sh.outtmp = [11, 12, 13] ∧
     (s'.ths.all (fun th => th.todo.isEmpty)) = true) := by decide

/-- a fair segment for two threads -/
example : Fair 2 [.th 0, .consume 1, .th 1] := by
  refine ⟨?_, 1, by decide, by decide⟩
  intro t ht
  have : t = 0 ∨ t = 1 := by omega
  rcases this with rfl | rfl <;> decide

/-! ### Tie to the Go source -/

/-! The copy the model performs in `Write` is the translated `service.ringCopy`:
`C17_wrap_ringCopy_is_source` in `Properties/C17Source.lean` (over the regenerated translation
`Mqtt.Generated.Xlate`; nothing imports that module).  The tie below is to the regenerated FACTS. -/

/-- The statement-level shape of `writeMessage` regenerated from sendrecv.go
(`extract/facts_wrap.go`: `l := msg.Len()`, Lock, deferred Unlock, `WriteWait(l)`, `if wrap`;
growth test `len(svc.outtmp) < l` with `make([]byte, l)`, `Encode(svc.outtmp[0:])`,
`Write(svc.outtmp[0:n])`; `Encode(buf[0:])`, `WriteCommit(n)`) is the model's table for the shape
`code` the theorems above are about, and the table is what the model's steps do on probe states
(`Proofs/WriteWrapFacts.lean`). -/
theorem C17_wrap_shape_is_source :
    Mqtt.Generated.wmHead = headTable code ∧
    Mqtt.Generated.wmWrapBranch = wrapTable code ∧
    Mqtt.Generated.wmPlainBranch = plainTable code ∧
    trace code 8 9 (probe [] [7, 8, 9, 10]) = [2, 4] ++ Mqtt.Generated.wmWrapBranch ∧
    trace code 8 9 (probe [] [7, 8]) = [2, 4] ++ Mqtt.Generated.wmPlainBranch :=
  ⟨facts_write_wrap_shape.1, facts_write_wrap_shape.2.1, facts_write_wrap_shape.2.2,
   facts_write_wrap_steps.1, facts_write_wrap_steps.2.2.1⟩

end wrap

end Mqtt.Properties.C17
