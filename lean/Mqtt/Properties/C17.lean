/-
C17 — Outgoing streams are whole packets; each publisher's messages stay in order.

"The byte stream the library writes to any connection is always a sequence of
complete, well-formed MQTT packets, even when many goroutines deliver to the
same connection at once; and the messages one publisher sends on one topic at
one QoS level reach every subscriber of that topic in the order they were
published."

Property theorems only (helper lemmas: `Proofs/WriteLock.lean`,
`Proofs/BrokerOrder.lean`).

Part 1 (whole packets) is about `Model/WriteLock.lean`: `service.writeMessage`
as a small-step program run by any number of goroutines against one
connection.  All theorems quantify over *every* number of threads, every list
of packets per thread (`todos`) and every schedule (`sched : List Nat`, any
length; a choice that is not enabled is skipped).  A packet is an opaque byte
string here: that `Encode` produces a well-formed packet of exactly the
announced length is the codec's property (C03); what is proved here is that
the stream is the concatenation of those byte strings, whole and in commit order.
-/
import Mqtt.Proofs.WriteLock

namespace Mqtt.Properties.C17

open Mqtt.Model.WriteLock Mqtt.Proofs.WriteLock

/-! ## 1. Whole packets under `wmu` (any number of concurrent writers) -/

/-- **C17 (a).**  In every reachable state of the program as it is (`locked =
true`) the consumer-visible stream `buf[0, pseq)` is exactly the concatenation of
the committed packets, whole, in commit order; and there is a commit log
(thread, packet) — the packets of the log are `s.done`, every entry belongs to
an existing thread, and for every thread the packets it committed, in commit
order, followed by the packets it still has to deliver, are the list it was
given.  So no packet is torn, lost, duplicated or invented, and each writer's
packets keep their order. -/
theorem C17_packets_atomic (todos : List (List (List UInt8))) (sched : List Nat) :
    let s := run true (init todos) sched
    visible s = s.done.flatten ∧
    ∃ log : List (Nat × List UInt8),
      log.map (·.2) = s.done ∧
      (∀ e ∈ log, e.1 < todos.length) ∧
      s.ths.length = todos.length ∧
      ∀ t th, s.ths[t]? = some th → todos[t]? = some (fromThread log t ++ th.todo) := by
  intro s
  obtain ⟨log, h⟩ := inv_reachable todos sched
  refine ⟨?_, log, h.logd, h.logt, h.len, h.prov⟩
  show s.buf.take s.pseq = s.done.flatten
  exact h.vis

/-- Every packet in the stream is one of the packets some writer was given. -/
theorem C17_packets_whole (todos : List (List (List UInt8))) (sched : List Nat) :
    let s := run true (init todos) sched
    ∀ p ∈ s.done, ∃ l ∈ todos, p ∈ l := by
  intro s p hp
  obtain ⟨log, h⟩ := inv_reachable todos sched
  have hp' : p ∈ log.map (·.2) := by rw [h.logd]; exact hp
  obtain ⟨⟨t, q⟩, he, hq⟩ := List.mem_map.mp hp'
  simp only at hq; subst hq
  have ht : t < s.ths.length := by rw [h.len]; exact h.logt _ he
  have hth : s.ths[t]? = some s.ths[t] := List.getElem?_eq_getElem ht
  have := h.prov t _ hth
  refine ⟨_, List.mem_of_getElem? this, ?_⟩
  apply List.mem_append_left
  simp only [fromThread, List.mem_map, List.mem_filter]
  exact ⟨(t, q), ⟨he, by simp⟩, rfl⟩

/-- When every writer has finished, the stream is a merge of the writers' lists:
the packets of thread `t` in the commit log are exactly `t`'s list, in order. -/
theorem C17_packets_complete (todos : List (List (List UInt8))) (sched : List Nat) :
    let s := run true (init todos) sched
    (∀ th ∈ s.ths, th.todo = []) →
    visible s = s.done.flatten ∧
    ∃ log : List (Nat × List UInt8),
      log.map (·.2) = s.done ∧ (∀ e ∈ log, e.1 < todos.length) ∧
      ∀ t l, todos[t]? = some l → fromThread log t = l := by
  intro s hall
  obtain ⟨hv, log, h1, h2, h3, h4⟩ := C17_packets_atomic todos sched
  refine ⟨hv, log, h1, h2, ?_⟩
  intro t l hl
  have ht : t < s.ths.length := by rw [h3]; exact lt_of_getElem? hl
  have hth : s.ths[t]? = some s.ths[t] := List.getElem?_eq_getElem ht
  have := h4 t _ hth
  rw [hall _ (List.getElem_mem ht), List.append_nil, hl] at this
  exact (Option.some.inj this).symm

/-! Non-vacuity: three writers, interleaved, everything delivered. -/

example :
    let s := run true (init [[[1, 2], [3]], [[4, 5, 6]], [[7]]])
      [0, 1, 2, 0, 0, 0, 2, 1, 2, 2, 2, 1, 0, 1, 1, 1, 0, 0, 0, 0]
    s.done = [[1, 2], [7], [4, 5, 6], [3]] ∧ visible s = [1, 2, 7, 4, 5, 6, 3] ∧
    s.ths.all (fun th => th.todo.isEmpty) = true := by decide

/-- a writer blocked on `wmu` is skipped, not lost -/
example :
    let s := run true (init [[[1]], [[2]]]) [0, 1, 1, 1, 0, 0, 0, 1, 1, 1, 1]
    s.done = [[1], [2]] ∧ visible s = [1, 2] := by decide

/-! ## 2. The mutex is necessary -/

/-- **C17 (b).**  The same program without `wmu` (`locked = false`): two
writers, one one-byte packet each.  Both read the cursor before either commits,
so both reserve `[0, 1)`; the second `Encode` overwrites the first packet and
the second commit leaves the cursor where the first put it.  Two packets were
committed, the consumer sees one byte: the stream is not the concatenation of
the committed packets. -/
theorem C17_unlocked_counterexample :
    let s := run false (init [[[1]], [[2]]]) [0, 1, 0, 1, 0, 1, 0, 1]
    s.done = [[1], [2]] ∧ visible s = [2] ∧ visible s ≠ s.done.flatten := by decide

/-- the same schedule under the lock (thread 1 is refused until thread 0 has
committed) delivers both packets -/
example :
    let s := run true (init [[[1]], [[2]]]) [0, 1, 0, 1, 0, 1, 0, 1, 1, 1, 1]
    s.done = [[1], [2]] ∧ visible s = [1, 2] := by decide

/-- without the lock a packet can also be torn: the one committed packet is
`[1, 2, 3]`, the consumer sees its first byte replaced by the other writer's -/
example :
    let s := run false (init [[[1, 2, 3]], [[9]]]) [0, 1, 0, 1, 0, 1, 0]
    s.done = [[1, 2, 3]] ∧ visible s = [9, 2, 3] := by decide

end Mqtt.Properties.C17
