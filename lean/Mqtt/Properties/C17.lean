/-
C17 — Outgoing streams are whole packets; each publisher's messages stay in order.

"The byte stream the library writes to any connection is always a sequence of
complete, well-formed MQTT packets, even when many goroutines deliver to the
same connection at once; and the messages one publisher sends on one topic at
one QoS level reach every subscriber of that topic in the order they were
published."

Property theorems only (helper lemmas: `Proofs/WriteLock.lean`,
`Proofs/BrokerOrder.lean`).

Part 1 (whole packets) is about `Model/WriteLock.lean`: `service.writeMessage`
as a small-step program run by any number of goroutines against one
connection.  All theorems quantify over *every* number of threads, every list
of packets per thread (`todos`) and every schedule (`sched : List Nat`, any
length; a choice that is not enabled is skipped).  A packet is an opaque byte
string here: that `Encode` produces a well-formed packet of exactly the
announced length is the codec's property (C03); what is proved here is that
the stream is the concatenation of those byte strings, whole and in commit order.
-/
import Mqtt.Proofs.WriteLock

namespace Mqtt.Properties.C17

open Mqtt.Model.WriteLock Mqtt.Proofs.WriteLock

/-! ## 1. Whole packets under `wmu` (any number of concurrent writers) -/

/-- **C17 (a).**  In every reachable state of the program as it is (`locked =
true`) the consumer-visible stream `buf[0, pseq)` is exactly the concatenation of
the committed packets, whole, in commit order; and there is a commit log
(thread, packet) — the packets of the log are `s.done`, every entry belongs to
an existing thread, and for every thread the packets it committed, in commit
order, followed by the packets it still has to deliver, are the list it was
given.  So no packet is torn, lost, duplicated or invented, and each writer's
packets keep their order. -/
theorem C17_packets_atomic (todos : List (List (List UInt8))) (sched : List Nat) :
    let s := run true (init todos) sched
    visible s = s.done.flatten ∧
    ∃ log : List (Nat × List UInt8),
      log.map (·.2) = s.done ∧
      (∀ e ∈ log, e.1 < todos.length) ∧
      s.ths.length = todos.length ∧
      ∀ t th, s.ths[t]? = some th → todos[t]? = some (fromThread log t ++ th.todo) := by
  intro s
  obtain ⟨log, h⟩ := inv_reachable todos sched
  refine ⟨?_, log, h.logd, h.logt, h.len, h.prov⟩
  show s.buf.take s.pseq = s.done.flatten
  exact h.vis

/-- Every packet in the stream is one of the packets some writer was given. -/
theorem C17_packets_whole (todos : List (List (List UInt8))) (sched : List Nat) :
    let s := run true (init todos) sched
    ∀ p ∈ s.done, ∃ l ∈ todos, p ∈ l := by
  intro s p hp
  obtain ⟨log, h⟩ := inv_reachable todos sched
  have hp' : p ∈ log.map (·.2) := by rw [h.logd]; exact hp
  obtain ⟨⟨t, q⟩, he, hq⟩ := List.mem_map.mp hp'
  simp only at hq; subst hq
  have ht : t < s.ths.length := by rw [h.len]; exact h.logt _ he
  have hth : s.ths[t]? = some s.ths[t] := List.getElem?_eq_getElem ht
  have := h.prov t _ hth
  refine ⟨_, List.mem_of_getElem? this, ?_⟩
  apply List.mem_append_left
  simp only [fromThread, List.mem_map, List.mem_filter]
  exact ⟨(t, q), ⟨he, by simp⟩, rfl⟩

/-- When every writer has finished, the stream is a merge of the writers' lists:
the packets of thread `t` in the commit log are exactly `t`'s list, in order. -/
theorem C17_packets_complete (todos : List (List (List UInt8))) (sched : List Nat) :
    let s := run true (init todos) sched
    (∀ th ∈ s.ths, th.todo = []) →
    visible s = s.done.flatten ∧
    ∃ log : List (Nat × List UInt8),
      log.map (·.2) = s.done ∧ (∀ e ∈ log, e.1 < todos.length) ∧
      ∀ t l, todos[t]? = some l → fromThread log t = l := by
  intro s hall
  obtain ⟨hv, log, h1, h2, h3, h4⟩ := C17_packets_atomic todos sched
  refine ⟨hv, log, h1, h2, ?_⟩
  intro t l hl
  have ht : t < s.ths.length := by rw [h3]; exact lt_of_getElem? hl
  have hth : s.ths[t]? = some s.ths[t] := List.getElem?_eq_getElem ht
  have := h4 t _ hth
  rw [hall _ (List.getElem_mem ht), List.append_nil, hl] at this
  exact (Option.some.inj this).symm

/-! Non-vacuity: three writers, interleaved, everything delivered. -/

example :
    let s := run true (init [[[1, 2], [3]], [[4, 5, 6]], [[7]]])
      [0, 1, 2, 0, 0, 0, 2, 1, 2, 2, 2, 1, 0, 1, 1, 1, 0, 0, 0, 0]
    s.done = [[1, 2], [7], [4, 5, 6], [3]] ∧ visible s = [1, 2, 7, 4, 5, 6, 3] ∧
    s.ths.all (fun th => th.todo.isEmpty) = true := by decide

/-- a writer blocked on `wmu` is skipped, not lost -/
example :
    let s := run true (init [[[1]], [[2]]]) [0, 1, 1, 1, 0, 0, 0, 1, 1, 1, 1]
    s.done = [[1], [2]] ∧ visible s = [1, 2] := by decide

/-! ## 2. The mutex is necessary -/

/-- **C17 (b).**  The same program without `wmu` (`locked = false`): two
writers, one one-byte packet each.  Both read the cursor before either commits,
so both reserve `[0, 1)`; the second `Encode` overwrites the first packet and
the second commit leaves the cursor where the first put it.  Two packets were
committed, the consumer sees one byte: the stream is not the concatenation of
the committed packets. -/
theorem C17_unlocked_counterexample :
    let s := run false (init [[[1]], [[2]]]) [0, 1, 0, 1, 0, 1, 0, 1]
    s.done = [[1], [2]] ∧ visible s = [2] ∧ visible s ≠ s.done.flatten := by decide

/-- the same schedule under the lock (thread 1 is refused until thread 0 has
committed) delivers both packets -/
example :
    let s := run true (init [[[1]], [[2]]]) [0, 1, 0, 1, 0, 1, 0, 1, 1, 1, 1]
    s.done = [[1], [2]] ∧ visible s = [1, 2] := by decide

/-- without the lock a packet can also be torn: the one committed packet is
`[1, 2, 3]`, the consumer sees its first byte replaced by the other writer's -/
example :
    let s := run false (init [[[1, 2, 3]], [[9]]]) [0, 1, 0, 1, 0, 1, 0]
    s.done = [[1, 2, 3]] ∧ visible s = [9, 2, 3] := by decide

/-! ## 3. No deadlock inside `writeMessage` -/

/-- **C17 (c).**  In every reachable state of the locked program: the holder of
`wmu` is enabled (it never waits for anything inside the critical section);
when `wmu` is free every thread that still has a packet is enabled; hence as
long as any thread has a packet left, some thread can move. -/
theorem C17_progress (todos : List (List (List UInt8))) (sched : List Nat) :
    let s := run true (init todos) sched
    (∀ t, s.holder = some t → (step true s t).isSome = true) ∧
    (s.holder = none → ∀ t th, s.ths[t]? = some th → th.todo ≠ [] → (step true s t).isSome = true) ∧
    ((∃ th ∈ s.ths, th.todo ≠ []) → ∃ t, (step true s t).isSome = true) := by
  intro s
  obtain ⟨log, h⟩ := inv_reachable todos sched
  refine ⟨fun t ht => holder_enabled h ht, fun hn t th hth hw => free_enabled h hn hth hw, ?_⟩
  rintro ⟨th, hm, hw⟩
  cases hh : s.holder with
  | some t => exact ⟨t, holder_enabled h hh⟩
  | none =>
    obtain ⟨t, ht, rfl⟩ := List.getElem_of_mem hm
    exact ⟨t, free_enabled h hh (List.getElem?_eq_getElem ht) hw⟩

/-- A state in which no thread can move has delivered everything: every
writer's list, whole and in order, is in the stream. -/
theorem C17_quiescent_delivered (todos : List (List (List UInt8))) (sched : List Nat) :
    let s := run true (init todos) sched
    (∀ t, step true s t = none) →
    (∀ th ∈ s.ths, th.todo = []) ∧ visible s = s.done.flatten ∧
    ∃ log : List (Nat × List UInt8),
      log.map (·.2) = s.done ∧ (∀ e ∈ log, e.1 < todos.length) ∧
      ∀ t l, todos[t]? = some l → fromThread log t = l := by
  intro s hq
  have hall : ∀ th ∈ s.ths, th.todo = [] := by
    intro th hm
    cases htd : th.todo with
    | nil => rfl
    | cons m rest =>
      obtain ⟨t, ht⟩ := (C17_progress todos sched).2.2 ⟨th, hm, by rw [htd]; exact List.cons_ne_nil _ _⟩
      have ht' : (step true s t).isSome = true := ht
      rw [hq t] at ht'; cases ht'
  exact ⟨hall, C17_packets_complete todos sched hall⟩

/-- Termination measure: `work s` = number of own steps the threads still have
to take (four per packet).  Every enabled step lowers it by exactly one, it
starts at four times the number of packets, and it is zero only when every list
is empty — so every schedule that keeps choosing enabled threads (one exists
by `C17_progress`) delivers everything in exactly `4 · #packets` steps. -/
theorem C17_progress_measure (todos : List (List (List UInt8))) (sched : List Nat) :
    let s := run true (init todos) sched
    (∀ t s', step true s t = some s' → work s' + 1 = work s) ∧
    work (init todos) = 4 * (todos.map List.length).sum ∧
    (work s = 0 → ∀ th ∈ s.ths, th.todo = []) := by
  intro s
  obtain ⟨log, h⟩ := inv_reachable todos sched
  exact ⟨fun t s' hs => work_step h hs, work_init todos, work_zero h⟩

/-- blocked entry is the only disabled choice while work remains: here thread 1
is refused while thread 0 holds `wmu`, thread 0 is enabled -/
example :
    let s := run true (init [[[1]], [[2]]]) [0, 0]
    s.holder = some 0 ∧ step true s 1 = none ∧ (step true s 0).isSome = true ∧ work s = 6 := by decide

end Mqtt.Properties.C17
