/-
C17 — Outgoing streams are whole packets; each publisher's messages stay in order.
(theorems under construction)
-/
import Mqtt.Model.WriteLock
import Mqtt.Model.Broker

namespace Mqtt.Properties.C17
end Mqtt.Properties.C17
