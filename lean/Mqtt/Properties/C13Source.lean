/-
C13 — tie to the Go source.

The methods of `sessions.Ackqueue` and `newAckqueue` are the regenerated translation of the Go functions.

Moved out of `Properties/C13.lean` unchanged (same namespace, same names): this is the only
module of C13 that is built from the regenerated translation `Mqtt.Generated.Xlate`
(through `Proofs/Xlate*.lean`).  `bin/check C13` builds, lists, audits and counts it together
with `Properties/C13.lean`.  NOTHING may import this module (BUILDING.md, "Source-tie modules"):
a rewrite of a translated Go function must not stop other properties from building.
-/
import Mqtt.Properties.C13
import Mqtt.Proofs.XlateAckqGrow
import Mqtt.Proofs.XlateAckqOps

set_option linter.unusedSimpArgs false

namespace Mqtt.Properties.C13

open Mqtt.Generated Mqtt.Model.AckQueue Mqtt.Proofs.AckQueue Mqtt.Iface.AckQ
open Mqtt.Spec

/-! ## Tie to the Go source: the methods of `Ackqueue` are the regenerated translation

`Mqtt.Generated.Xlate.Sessions.Ackqueue.*` / `Sessions.newAckqueue` are produced
from `sessions/ackqueue.go` by `extract/cmd/xlate` on every check
(NOTES-xlate.md).  The translation keeps `int64` fields as `Int`, packet types
and identifiers as `UInt8`/`UInt16`, and the scratch slice `ackdone`;
`XlateAckq.absQ` forgets that, `XlateAckq.GWf aq` says the integers are not
negative.  `message.Message` is a record of observations (`Type_`, `PacketID`,
`Len`, `Encode`, `QoS`, `Dup`, `dyn`); `encOf` / `waitMsgOf` are what the model
is told about it.  Common hypotheses: `GWf aq`, the model's invariant on
`absQ aq`, and `aq.size ≤ 2^61` (signed overflow is not represented; `grow`
itself panics above 2^62). -/

section Source
open Mqtt.Generated.Xlate Mqtt.Proofs.XlateAckq

/-- `full`, `empty`, `len`, `cap`, `index`, `increment` -/
theorem C13_helpers_are_source (aq : Sessions.Ackqueue) (hw : GWf aq) (hi : Inv (absQ aq)) (hs : aq.size ≤ 2 ^ 61)
    (n : Int) (hn : 0 ≤ n ∧ n < 2 ^ 63 - 1) :
    Sessions.Ackqueue.full aq = (absQ aq).full ∧ Sessions.Ackqueue.empty aq = (absQ aq).empty ∧
    Sessions.Ackqueue.len aq = (((absQ aq).count : Nat) : Int) ∧
    Sessions.Ackqueue.cap aq = (((absQ aq).size : Nat) : Int) ∧
    Sessions.Ackqueue.index aq n = (((absQ aq).index n.toNat : Nat) : Int) ∧
    Sessions.Ackqueue.increment aq n = (((absQ aq).increment n.toNat : Nat) : Int) :=
  ⟨full_is_source aq hw, empty_is_source aq hw, len_is_source aq hw, cap_is_source aq hw,
   index_is_source aq hw hi hs n ⟨hn.1, by omega⟩, increment_is_source aq hw hi hs n hn⟩

/-- `newAckqueue(n)` for 0 < n ≤ 2^62 (the library calls it with `defaultQueueSize`) -/
theorem C13_newAckqueue_is_source (n : Int) (hn : 0 < n ∧ n ≤ 2 ^ 62) :
    ∃ aq, Sessions.newAckqueue n = .ok aq ∧ absQ aq = newAckqueue n.toNat ∧ GWf aq :=
  newAckqueue_is_source n hn

/-- `grow`: never panics below 2^61 entries, and is the model's `grow` (for every queue, full or not) -/
theorem C13_grow_is_source (aq : Sessions.Ackqueue) (hw : GWf aq) (hi : Inv (absQ aq)) (hs : aq.size ≤ 2 ^ 61) :
    ∃ aq', Sessions.Ackqueue.grow aq = .ok aq' ∧ absQ aq' = (absQ aq).grow ∧ GWf aq' ∧ aq'.ackdone = aq.ackdone :=
  grow_is_source aq hw hi hs

theorem C13_removeHead_is_source (aq : Sessions.Ackqueue) (hw : GWf aq) (hi : Inv (absQ aq)) (hs : aq.size ≤ 2 ^ 61) :
    ∃ aq', Sessions.Ackqueue.removeHead aq
        = .ok (aq', if (absQ aq).empty then Err.var "errQueueEmpty" else Err.nil) ∧
      absQ aq' = (absQ aq).removeHead ∧ GWf aq' ∧ aq'.ackdone = aq.ackdone :=
  removeHead_is_source aq hw hi hs

/-- `insert`.  `hid`: the Go code keys the map by the parameter but stores `msg.PacketID()` in the
entry; the model uses the parameter for both; every call site passes `msg.PacketID()`.  `hlen`:
`make([]byte, msg.Len())` panics for a negative length (`XlateAckq.insert_panics_negative_len`); the
model has no such outcome.  The returned error (`insertErr`) is ignored by `Wait`. -/
theorem C13_insert_is_source (aq : Sessions.Ackqueue) (pktid : UInt16) (msg : Message.Message) (tag : Nat)
    (hw : GWf aq) (hi : Inv (absQ aq)) (hs : aq.size ≤ 2 ^ 61) (hid : msg.PacketID = pktid) (hlen : 0 ≤ msg.Len) :
    ∃ aq', Sessions.Ackqueue.insert aq pktid msg tag
        = .ok (aq', insertErr (emapGet (if (absQ aq).full then (absQ aq).grow else absQ aq).emap pktid.toNat).isSome msg) ∧
      absQ aq' = (absQ aq).insert msg.Type_.toNat pktid.toNat (encOf msg) tag ∧ GWf aq' ∧ aq'.ackdone = aq.ackdone :=
  insert_is_source grow_is_source aq pktid msg tag hw hi hs hid hlen

/-- `Wait`, all five branches.  `_partial`: `DynTyped msg` — the Go code stores `msg.Type()` as the
entry's type, the model the dynamic type of the message; they agree for every message made by
`New…Message()` or `Decode`, and differ for a `*PublishMessage` whose type nibble was overwritten
through the exported `SetType` (`XlateAckq.Wait_differs_untyped`; reproduced on the real code:
the entry is released with `Mtype = 8`). -/
theorem C13_Wait_is_source_partial (aq : Sessions.Ackqueue) (msg : Message.Message) (tag : Nat)
    (hw : GWf aq) (hi : Inv (absQ aq)) (hs : aq.size ≤ 2 ^ 61) (hty : DynTyped msg) (hlen : 0 ≤ msg.Len) :
    ∃ aq' e, Sessions.Ackqueue.Wait aq msg tag = .ok (aq', e) ∧
      absQ aq' = ((absQ aq).wait (waitMsgOf msg) tag).1 ∧
      (e = Err.nil ↔ ((absQ aq).wait (waitMsgOf msg) tag).2 = true) ∧
      (e = Err.nil ∨ e = Err.var "errWaitMessage") ∧ GWf aq' ∧ aq'.ackdone = aq.ackdone :=
  Wait_is_source grow_is_source aq msg tag hw hi hs hty hlen

/-- the PINGREQ branch of `Wait` needs no hypothesis: the request joins the ping FIFO -/
theorem C13_Wait_ping_is_source (aq : Sessions.Ackqueue) (msg : Message.Message) (tag : Nat)
    (hd : msg.dyn = "*message.PingreqMessage") :
    ∃ aq', Sessions.Ackqueue.Wait aq msg tag = .ok (aq', Err.nil) ∧
      absQ aq' = ((absQ aq).wait (waitMsgOf msg) tag).1 ∧ ((absQ aq).wait (waitMsgOf msg) tag).2 = true ∧
      (GWf aq → GWf aq') ∧ aq'.ackdone = aq.ackdone :=
  Wait_ping_is_source aq msg tag hd

/-- `Ack` for the identifier-keyed acknowledgements.  `_partial`: the queue after the call is the
model's for every message; the *result* is the model's (`true`) only when `msg.Encode` succeeds — the
Go code returns the encoder's error when the identifier is known, the model takes the encoded bytes
as given (`XlateAckq.Ack_flag_differs_on_encode_error`). -/
theorem C13_Ack_is_source_partial (aq : Sessions.Ackqueue) (msg : Message.Message)
    (hw : GWf aq) (hi : Inv (absQ aq)) (ht : ackIdTypes.contains msg.Type_.toNat = true) (hlen : 0 ≤ msg.Len) :
    ∃ aq', Sessions.Ackqueue.Ack aq msg
        = .ok (aq', ackIdErr (emapGet (absQ aq).emap msg.PacketID.toNat).isSome msg) ∧
      absQ aq' = ((absQ aq).ack msg.Type_.toNat msg.PacketID.toNat (msg.Encode (List.replicate msg.Len.toNat 0)).1).1 ∧
      ((absQ aq).ack msg.Type_.toNat msg.PacketID.toNat (msg.Encode (List.replicate msg.Len.toNat 0)).1).2 = true ∧
      ((msg.Encode (List.replicate msg.Len.toNat 0)).2.2 = Err.nil →
        ackIdErr (emapGet (absQ aq).emap msg.PacketID.toNat).isSome msg = Err.nil) ∧
      GWf aq' ∧ aq'.ackdone = aq.ackdone :=
  Ack_id_is_source_partial aq msg hw hi ht hlen

/-- `Ack` for PINGRESP (the oldest ping without an answer takes it) and for every other type (refused) -/
theorem C13_Ack_ping_is_source (aq : Sessions.Ackqueue) (msg : Message.Message) (id : Nat) (ht : msg.Type_ = (13 : UInt8)) :
    ∃ aq', Sessions.Ackqueue.Ack aq msg = .ok (aq', Err.nil) ∧
      absQ aq' = ((absQ aq).ack msg.Type_.toNat id (msg.Encode (List.replicate 2 0)).1).1 ∧
      ((absQ aq).ack msg.Type_.toNat id (msg.Encode (List.replicate 2 0)).1).2 = true ∧
      (GWf aq → GWf aq') ∧ aq'.ackdone = aq.ackdone :=
  Ack_ping_is_source aq msg id ht

theorem C13_Ack_other_is_source (aq : Sessions.Ackqueue) (msg : Message.Message) (id : Nat) (bytes : List UInt8)
    (h1 : ackIdTypes.contains msg.Type_.toNat = false) (h2 : msg.Type_ ≠ (13 : UInt8)) :
    Sessions.Ackqueue.Ack aq msg = .ok (aq, Err.var "errAckMessage") ∧
      (absQ aq).ack msg.Type_.toNat id bytes = (absQ aq, false) :=
  Ack_other_is_source aq msg id bytes h1 h2

/-- `Acked`: both loops end within the budget `max(len(pings), count) + 1`, the queue afterwards and
the released entries are the model's -/
theorem C13_Acked_is_source (fuel : Nat) (aq : Sessions.Ackqueue)
    (hw : GWf aq) (hi : Inv (absQ aq)) (hs : aq.size ≤ 2 ^ 61)
    (hf1 : aq.pings.length < fuel) (hf2 : (absQ aq).count < fuel) :
    ∃ aq' l, Sessions.Ackqueue.Acked fuel aq = .ok (aq', l) ∧
      absQ aq' = ((absQ aq).acked).1 ∧ l.map absMsg = ((absQ aq).acked).2 ∧ GWf aq' ∧ aq'.ackdone = l :=
  Acked_is_source removeHead_is_source fuel aq hw hi hs hf1 hf2

end Source

end Mqtt.Properties.C13
