/- C14 — byte ring is a lossless FIFO (theorems under construction; see Proofs/Ring*.lean) -/
import Mqtt.Model.Ring
import Mqtt.Spec.Ring

namespace Mqtt.Properties.C14
end Mqtt.Properties.C14
