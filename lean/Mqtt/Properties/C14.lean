/-
C14 — the byte ring (`service/buffer.go`) is a lossless FIFO.

Property theorems only (helper lemmas: `Proofs/Ring.lean`, `Proofs/RingSafety.lean`,
`Proofs/RingFacts.lean`).  The model (`Model/Ring.lean`) is the concurrent small-step
program of the ring: one producer, one consumer, any number of closers, each running
an arbitrary finite program of API calls (`ReadFrom` with any reader script among the
producer's); one step per shared access, lock operation, `Wait` (park / resume), `Broadcast`,
per byte copied, and return.  All theorems
quantify over *every* ring size `2^k`, source stream, start position, thread
programs (well-typed by role) and schedule `sched : List Tid` — no bound.
-/
import Mqtt.Proofs.RingSafety
import Mqtt.Proofs.RingAbs
import Mqtt.Proofs.RingFacts

set_option linter.unusedSimpArgs false
set_option linter.unusedVariables false

namespace Mqtt.Properties.C14
open Mqtt.Model.Ring Mqtt.Model.RingAbs Mqtt.Iface.Ring Mqtt.Spec.Ring Mqtt.Proofs.Ring

/-- a reachable state: any schedule from the initial state of well-typed programs -/
def reach (cfg : Cfg) (adv gate : Nat) (progP progC : List Call) (progsK : List (List Call))
    (sched : List Tid) : St :=
  run cfg (mkInit cfg adv gate progP progC progsK) sched

/-- The safety invariant `RInv` (cursor order, `pseq ≤ cseq + size`, `gate ≤ cseq`, the
cells between the cursors hold the stream, the consumer's bytes are the stream prefix, the
producer's reservation lies below `cseq + size` — it was below `known + size` for a lower bound
`known` of the consumer cursor the producer had obtained: the gate, or the cursor `ReadFrom` loaded —,
the consumer's window below `pseq`, peeked views and pending bytes are the stream at `cseq`) is
preserved by every step of every thread. -/
theorem C14_invariant_step (cfg : Cfg) (base : Nat) (s s' : St) (t : Tid)
    (h : RInv cfg base s) (hs : step cfg s t = some s') : RInv cfg base s' :=
  inv_step cfg base s s' t h hs

/-- … hence it holds in every reachable state, for all programs and all schedules. -/
theorem C14_invariant (cfg : Cfg) (adv gate : Nat) (progP progC : List Call) (progsK : List (List Call))
    (hgate : gate ≤ adv) (hok : ProgsOK progP progC progsK) (sched : List Tid) :
    RInv cfg adv (reach cfg adv gate progP progC progsK sched) :=
  rinv_run cfg adv _ sched (rinv_init cfg adv gate progP progC progsK hgate hok)

/-- **C14.** In every reachable state the concatenation of all bytes the consumer obtained
(by `Read`, or by `ReadPeek`/`ReadWait` + use + `ReadCommit`) is a prefix of the stream the
producer committed — exactly `src adv … src (adv+k-1)` with `adv + k = cseq ≤ pseq` — and
the producer has not lapped the consumer. -/
theorem C14_lossless (cfg : Cfg) (adv gate : Nat) (progP progC : List Call) (progsK : List (List Call))
    (hgate : gate ≤ adv) (hok : ProgsOK progP progC progsK) (sched : List Tid) :
    let s := reach cfg adv gate progP progC progsK sched
    Lossless cfg.src adv s.sh.pseq s.sh.gotRev.reverse ∧ cursorsOk cfg.size s.sh.pseq s.sh.cseq ∧
      adv + s.sh.gotRev.reverse.length = s.sh.cseq := by
  intro s
  have h := (C14_invariant cfg adv gate progP progC progsK hgate hok sched).glob
  have hgot : s.sh.gotRev.reverse = segment cfg.src adv (s.sh.cseq - adv) := h.got
  have hb : adv ≤ s.sh.cseq := h.basele
  have hcp : s.sh.cseq ≤ s.sh.pseq := h.cp
  have hpc : s.sh.pseq ≤ s.sh.cseq + cfg.size := h.pc
  have hl : s.sh.gotRev.reverse.length = s.sh.cseq - adv := by rw [hgot, segment_length]
  refine ⟨⟨by omega, ?_⟩, ⟨hcp, hpc⟩, by omega⟩
  rw [hl]; exact hgot

/-- **C14, no overwrite.** No step of any thread (in particular no producer step) changes a
cell that holds a byte the consumer has not yet committed: the cells of the stream positions
`[cseq, pseq)` — which contain every window handed out by `ReadPeek`/`ReadWait` — are the same
before and after the step. -/
theorem C14_no_overwrite (cfg : Cfg) (adv gate : Nat) (progP progC : List Call) (progsK : List (List Call))
    (hgate : gate ≤ adv) (hok : ProgsOK progP progC progsK) (sched : List Tid) (t : Tid) (s' : St)
    (hs : step cfg (reach cfg adv gate progP progC progsK sched) t = some s') :
    let s := reach cfg adv gate progP progC progsK sched
    ∀ i, s.sh.cseq ≤ i → i < s.sh.pseq → rd s'.sh.buf (cfg.idx i) = rd s.sh.buf (cfg.idx i) := by
  intro s i h1 h2
  have hinv := C14_invariant cfg adv gate progP progC progsK hgate hok sched
  have hinv' := inv_step cfg adv _ _ t hinv hs
  obtain ⟨hc, hnc⟩ := step_core cfg adv _ _ t hinv hs
  by_cases ht : t = .c
  · rw [hc ht]
  · obtain ⟨e1, e2⟩ := hnc ht
    have a := hinv'.glob.cells i (by show s'.sh.cseq ≤ i; rw [e1]; exact h1) (Nat.lt_of_lt_of_le h2 e2)
    have b := hinv.glob.cells i h1 h2
    exact a.trans b.symm

/-- the views the consumer holds are inside the protected range (so `C14_no_overwrite` covers
them): an aliased view `[cpos, cpos+m)` handed out by `ReadPeek`/`ReadWait` starts at `cseq`
and ends at or below `pseq`; bytes used but not yet committed are the stream at `cseq`. -/
theorem C14_view_protected (cfg : Cfg) (adv gate : Nat) (progP progC : List Call) (progsK : List (List Call))
    (hgate : gate ≤ adv) (hok : ProgsOK progP progC progsK) (sched : List Tid) :
    let s := reach cfg adv gate progP progC progsK sched
    viewOK cfg s.sh.core s.C.view ∧ s.C.pending = segment cfg.src s.sh.cseq s.C.pending.length ∧
      s.sh.cseq + s.C.pending.length ≤ s.sh.pseq := by
  intro s
  have h := (C14_invariant cfg adv gate progP progC progsK hgate hok sched).invC
  exact ⟨h.view, h.pend.1, h.pend.2⟩

/-- **C14 on what the caller sees.**  Whenever a consumer call returns in a reachable state, the
bytes it hands back (`Read`'s copy, the bytes of a peeked view read by `use`) are the stream at the
offset the result carries, and lie below the producer's commit position (`Spec.Ring.chunkOk` —
the predicate the check evaluates on the real buffer after every step). -/
theorem C14_chunks (cfg : Cfg) (adv gate : Nat) (progP progC : List Call) (progsK : List (List Call))
    (hgate : gate ≤ adv) (hok : ProgsOK progP progC progsK) (sched : List Tid) (s' : St)
    (hs : step cfg (reach cfg adv gate progP progC progsK sched) .c = some s') (r : Res)
    (hr : s'.C.res = some r) : chunkOk cfg.src r.off s'.sh.pseq r.data := by
  have hinv := C14_invariant cfg adv gate progP progC progsK hgate hok sched
  unfold step at hs
  simp only [St.getTh] at hs
  split at hs
  · simp at hs
  · rename_i sh' th' hst
    simp only [Option.some.injEq] at hs
    subst hs
    exact cons_res cfg adv _ sh' _ th' hinv.glob hinv.invC hinv.okC hst r hr

/-- **Layer 1.** On the abstract machine (cursor, gate, cell and commit steps, each with the guard
that makes it safe: a write inside `[pseq, cseq+size)`, a producer commit of written cells below
`cseq + size`, a consumer commit below `pseq`) the safety invariant — `cseq ≤ pseq ≤ cseq+size`,
`gate ≤ cseq`, the cells between the cursors hold the stream, the obtained bytes are the stream
prefix — is preserved by every step, for any ring size. -/
theorem C14_layer1_safety (size : Nat) (hs : 0 < size) (src : Nat → UInt8) (base : Nat) (a a' : A)
    (h : AInv size src base a) (st : AStep size src a a') : AInv size src base a' :=
  ainv_step size hs src base a a' h st

/-- **Simulation.** Every step of the real program (locks, condition variables, program counters)
from a state satisfying the layer-2 invariant is, seen through the abstraction (cursors, gate,
cells, obtained bytes), a step of the abstract machine or invisible; and the abstraction of every
reachable state satisfies the layer-1 invariant. -/
theorem C14_simulation (cfg : Cfg) (adv gate : Nat) (progP progC : List Call) (progsK : List (List Call))
    (hgate : gate ≤ adv) (hok : ProgsOK progP progC progsK) (sched : List Tid) (t : Tid) (s' : St)
    (hs : step cfg (reach cfg adv gate progP progC progsK sched) t = some s') :
    let s := reach cfg adv gate progP progC progsK sched
    AInv cfg.size cfg.src adv (absSt s) ∧
    (absSt s' = absSt s ∨ AStep cfg.size cfg.src (absSt s) (absSt s')) := by
  intro s
  have hinv := C14_invariant cfg adv gate progP progC progsK hgate hok sched
  exact ⟨ainv_of_rinv cfg adv s hinv, sim_step cfg adv s s' t hinv hs⟩

/-- the lock structure and block sizes regenerated from the source are the ones the model
was written against -/
theorem C14_facts : Mqtt.Generated.bufferLocks = lockFacts ∧ 2 * Mqtt.Generated.defaultReadBlockSize = 2 ^ 14 ∧
    ({ k := 14, src := fun _ => 0 } : Cfg).rblock = Mqtt.Generated.defaultReadBlockSize :=
  ⟨ring_lock_facts, ring_block_facts.2.2.2.1, ring_block_facts.2.2.2.2⟩

/-- **C14 for `ReadFrom`** (repository commit 8f682d1: wait for one free byte, then read into the free,
contiguous part of the ring).  In every reachable state: the slice handed to the reader (mark 111) and
the bytes the reader is filling start at the producer cursor and end at or below `cseq + size` — the
consumer cursor `ReadFrom` loaded is a lower bound of the current one, so the slice is disjoint from the
cells of `[cseq, pseq)`, which hold every byte the consumer has not committed, every peeked view
included (`C14_no_overwrite`, `C14_view_protected`); and when the read has returned `n` bytes they are
the stream, and `pseq + n ≤ cseq + size`: the `WriteCommit(n)` that follows finds its space. -/
theorem C14_readfrom_slice_free (cfg : Cfg) (adv gate : Nat) (progP progC : List Call) (progsK : List (List Call))
    (hgate : gate ≤ adv) (hok : ProgsOK progP progC progsK) (sched : List Tid) :
    let s := reach cfg adv gate progP progC progsK sched
    (∀ tot ms start len, s.P.pc = .g111 tot ms start len → start = s.sh.pseq ∧ start + len ≤ s.sh.cseq + cfg.size) ∧
    (∀ tot ms start n j, s.P.pc = .g111c tot ms start n j →
      start = s.sh.pseq ∧ start + n ≤ s.sh.cseq + cfg.size ∧ j ≤ n) ∧
    (∀ tot ms n, s.P.pc = .g111r tot ms n →
      s.sh.pseq + n ≤ s.sh.cseq + cfg.size ∧ ∀ i, i < n → rd s.sh.buf (cfg.idx (s.sh.pseq + i)) = cfg.src (s.sh.pseq + i)) := by
  intro s
  have hp := (C14_invariant cfg adv gate progP progC progsK hgate hok sched).invP.pcinv
  unfold pcP at hp
  refine ⟨fun tot ms start len h => ?_, fun tot ms start n j h => ?_, fun tot ms n h => ?_⟩
  · rw [h] at hp; exact hp
  · rw [h] at hp; exact ⟨hp.1, hp.2.1, hp.2.2.1⟩
  · rw [h] at hp; exact ⟨hp.2, hp.1⟩

/-! non-vacuity: a concrete run in which bytes travel through a wrapping ring -/

def exCfg : Cfg := { k := 2, src := fun i => UInt8.ofNat (i + 1) }

example : ProgsOK [.write 3, .wwait 2, .wfill, .wcommit 2] [.read 2, .peek 3, .use, .commit 3] [[.close]] :=
  ⟨by decide, by decide, by decide⟩

/-- producer writes 3 bytes at positions 2,3,4 of a 4-byte ring (wrapping), the consumer reads them -/
example :
    let s := reach exCfg 2 2 [.write 3] [.read 2, .read 2] []
      (List.replicate 20 .p ++ List.replicate 40 .c)
    s.sh.gotRev.reverse = [3, 4, 5] ∧ s.sh.cseq = 5 ∧ s.sh.pseq = 5 := by decide +kernel

/-- `ReadFrom` with less than a read block free: a 4-byte ring holding 3 bytes, read block 2 (before
8f682d1 the loop would have waited for 2 free bytes); the reader offers 3 bytes, then 2: one byte is
read into the last free cell, the ring is full, the consumer takes 2 bytes, the next read takes 2 more
(wrapping), the reader is at its end, `ReadFrom` closes the ring and returns `(3, EOF)`; everything the
consumer got is the stream -/
example :
    let cfg : Cfg := { k := 2, src := fun i => UInt8.ofNat (i + 1), rblock := 2 }
    let s := reach cfg 0 0 [.write 3, .rfrom 0 [3, 2]] [.read 2, .read 2, .read 2] []
      (List.replicate 30 .p ++ List.replicate 12 .c ++ List.replicate 40 .p ++ List.replicate 30 .c ++ List.replicate 40 .p)
    s.sh.gotRev.reverse = [1, 2, 3, 4, 5, 6] ∧ s.sh.pseq = 6 ∧ s.sh.cseq = 6 ∧ s.sh.done = true ∧
      s.P.pc = .idle ∧ s.P.res = some { n := 3, err := .eof } := by decide +kernel

/-! The tie to the Go source (the theorems `C14_…_is_source…` over the regenerated translation
`Mqtt.Generated.Xlate`) is in `Properties/C14Source.lean`, which nothing imports. -/

end Mqtt.Properties.C14
