/-
C04 — decoders are total: for every byte string and every packet type `Decode`
returns normally with a byte count not larger than the input; it never panics,
never touches a byte outside the slice it was given, and every field it returns
lies inside the bytes of the decoded packet.  Every well-formed MQTT 3.1.1
packet is accepted with the correct field values.

Property theorems only (helper lemmas: `Proofs/Codec*.lean`).  `decodeNew t src`
is `Type(t).New()` followed by `Decode(src)` on the code-shaped model
(`Model/Codec.lean`), where `src` is a Go slice with `cap == len`: any index or
re-slice outside `[0, len)` is the outcome `.panic`.  All theorems quantify over
*every* `src : List UInt8` and every type number `t` (no bound).
-/
import Mqtt.Proofs.CodecWire
import Mqtt.Proofs.CodecSpecDecode
import Mqtt.Proofs.CodecErrCount
import Mqtt.Proofs.CodecWireV

set_option linter.unusedSimpArgs false
set_option maxRecDepth 8192

namespace Mqtt.Properties.C04

open Mqtt.Model.Codec Mqtt.Iface.Codec Mqtt.Proofs.Codec
open Mqtt.Spec

/-- **No panic, no out-of-bounds access**, for all 14 types (and the invalid type
numbers) and all inputs: `Decode` either returns an error or succeeds. -/
theorem decode_total (t : Nat) (src : Bytes) : decodeNew t src ≠ .panic :=
  (decodeNew_total t src).ne_panic

/-- … and on success the byte count is not larger than the input. -/
theorem decode_count_le (t : Nat) (src : Bytes) (d : Decoded) (h : decodeNew t src = .ok d) :
    d.n ≤ src.length :=
  ((decodeNew_total t src).of_ok h).n_le

/-- … and when `Decode` returns an error, the byte count that comes with it (`decodeNewErrN`: the Go
variable `total` at the failing `return`, printed as `err n=<count>` by the harness and the model driver and
compared on every malformed input) is not larger than the input either.  The bound holds for the count
function on every input; the hypothesis only says when the count is what `Decode` returns. -/
theorem C04_error_count_le (t : Nat) (src : Bytes) (_h : decodeNew t src = .err) :
    decodeNewErrN t src ≤ src.length :=
  decodeNewErrN_le t src

/-- **Every returned field lies inside the decoded packet**: each byte-slice field
of the decoded message is exactly the bytes `src[off : off+len]` of its view, and
a non-empty view ends at or before the returned count `n` (so it is inside the
packet, and a fortiori inside the input). -/
theorem decode_fields_inside (t : Nat) (src : Bytes) (d : Decoded) (h : decodeNew t src = .ok d) :
    ViewsOk src d.n d.views (fieldVals d.msg) :=
  ((decodeNew_total t src).of_ok h).views

/-- The message keeps exactly the bytes of its own packet (`dbuf = src[:n]`) and is not dirty. -/
theorem decode_keeps_packet (t : Nat) (src : Bytes) (d : Decoded) (h : decodeNew t src = .ok d) :
    d.msg.hdr.dbuf = src.take d.n ∧ d.msg.hdr.dirty = false :=
  ⟨((decodeNew_total t src).of_ok h).dbuf, ((decodeNew_total t src).of_ok h).clean⟩

/-- **Every well-formed MQTT 3.1.1 packet is accepted with the correct field values**:
for every packet `p` that is well-formed (`Spec/Wire.lean`, written from the MQTT
text), the decoder of `p`'s type, given the reference encoding of `p` followed by
*any* further bytes, succeeds, consumes exactly the bytes of `p`, and the decoded
message stands for exactly `p` (`absMsg`: every field equal). -/
theorem decode_accepts_wf (p : Wire.Packet) (hwf : Wire.WF p) (rest : Bytes) :
    ∃ d, decodeNew p.type (Wire.encode p ++ rest) = .ok d ∧
      d.n = (Wire.encode p).length ∧ absMsg d.msg = p :=
  accepts_wf p hwf rest

/-! ### The reference decoder of the specification is complete

`Wire.decode` (`Spec/Wire.lean`) is what the specification stream and the oracles use to say which byte
strings *are* well-formed packets.  It is sound by construction (`Wire.decode_sound`: it re-encodes and
compares); the theorems below add completeness, so it is exactly the inverse of `Wire.encode` on
well-formed packets — `decode_accepts_wf` therefore covers every input the reference decoder accepts. -/

/-- **Completeness of the reference decoder** (all 14 types): the reference encoding of a well-formed
packet, followed by any bytes, decodes to exactly that packet and its length. -/
theorem C04_reference_decoder_complete (p : Wire.Packet) (hwf : Wire.WF p) (rest : Bytes) :
    Wire.decode p.type (Wire.encode p ++ rest) = some (p, (Wire.encode p).length) :=
  spec_decode_complete p hwf rest

/-- soundness + completeness: the reference decoder answers `(p, n)` exactly when the first `n` bytes of the
input are the reference encoding of the well-formed packet `p` of the requested type. -/
theorem C04_reference_decoder_inverse (t : Nat) (bs : Bytes) (p : Wire.Packet) (n : Nat) :
    Wire.decode t bs = some (p, n) ↔
      Wire.WF p ∧ p.type = t ∧ n = (Wire.encode p).length ∧ n ≤ bs.length ∧ bs.take n = Wire.encode p :=
  spec_decode_iff t bs p n

/-- … hence: whatever the reference decoder accepts, the library's decoder accepts with the same count and
the same field values (the oracle of the `codec dec` runs, as a theorem about the model). -/
theorem C04_decode_agrees_with_reference (t : Nat) (bs : Bytes) (p : Wire.Packet) (n : Nat)
    (h : Wire.decode t bs = some (p, n)) :
    ∃ d, decodeNew t bs = .ok d ∧ d.n = n ∧ absMsg d.msg = p := by
  obtain ⟨hwf, ht, hn, hle, htake⟩ := (spec_decode_iff t bs p n).mp h
  have hbs : bs = Wire.encode p ++ bs.drop n := by rw [← htake, List.take_append_drop]
  obtain ⟨d, hd, hdn, habs⟩ := accepts_wf p hwf (bs.drop n)
  rw [← hbs, ht] at hd
  exact ⟨d, hd, by rw [hdn, hn], habs⟩

/-- `decode_accepts_wf` for **every permitted form of the remaining length** (section 2.2.3 allows one to four
bytes and does not require the shortest form; `Wire.Encodes bs p`): the packet is accepted, exactly its bytes are
consumed, and the decoded message stands for exactly `p`. -/
theorem C04_decode_accepts_wf_any_length (p : Wire.Packet) (hwf : Wire.WF p) (bs : Bytes) (h : Wire.Encodes bs p)
    (rest : Bytes) :
    ∃ d, decodeNew p.type (bs ++ rest) = .ok d ∧ d.n = bs.length ∧ absMsg d.msg = p :=
  accepts_encodes p hwf bs h rest

/-- PUBACK 1 with the remaining length 2 written `82 00` -/
example : Wire.Encodes [0x40, 0x82, 0x00, 0x00, 0x01] (.puback 1) := ⟨[0x82, 0x00], by decide, rfl⟩

/-! ### Non-vacuity: the decoders do succeed and do fail. -/

/-- a well-formed CONNECT with will, user name and (empty) password -/
example : Wire.WF (.connect ⟨4, true, 60, [0x63], some ⟨[0x77], [0x6d], 1, true⟩, some [0x75], some []⟩) := by
  decide

/-- PUBLISH QoS 1, topic "a/b", id 7, payload "hi", followed by two bytes of the next packet -/
example :
    (match decodeNew 3 [0x32, 0x09, 0x00, 0x03, 0x61, 0x2f, 0x62, 0x00, 0x07, 0x68, 0x69, 0xc0, 0x00] with
     | .ok d => decide (d.n = 11 ∧ d.views = [(4, 3), (9, 2)] ∧ fieldVals d.msg = [[0x61, 0x2f, 0x62], [0x68, 0x69]])
     | _ => false) = true := by
  decide

/-- the inputs that used to panic are errors now: empty input, truncated packet
identifier, ten-byte remaining length, topic running past the remaining length -/
example : decodeNew 1 [] = .err := by decide
example : decodeNew 4 [0x40, 0x00] = .err := by decide
example : decodeNew 10 [0xa2, 0x80, 0xff, 0x91, 0xe7, 0xff, 0xea, 0x82, 0x80, 0x80, 0xff, 0x80, 0x01] = .err := by decide
example : decodeNew 3 [0x30, 0x03, 0x00, 0x09, 0x61, 0x62, 0x63, 0x64] = .err := by decide

/-- … with the counts the Go code returns: 0 (nothing read), 2 (the fixed header), 1 (the type/flags byte:
`binary.Uvarint` failed), 4 (header and the two length bytes of the topic) -/
example : decodeNewErrN 1 [] = 0 ∧ decodeNewErrN 4 [0x40, 0x00] = 2 ∧
    decodeNewErrN 10 [0xa2, 0x80, 0xff, 0x91, 0xe7, 0xff, 0xea, 0x82, 0x80, 0x80, 0xff, 0x80, 0x01] = 1 ∧
    decodeNewErrN 3 [0x30, 0x03, 0x00, 0x09, 0x61, 0x62, 0x63, 0x64] = 4 := by decide

/-- the reference decoder on the PUBLISH above (followed by the two bytes of the next packet) -/
example : Wire.decode 3 [0x32, 0x09, 0x00, 0x03, 0x61, 0x2f, 0x62, 0x00, 0x07, 0x68, 0x69, 0xc0, 0x00] =
    some (.publish false 1 false [0x61, 0x2f, 0x62] 7 [0x68, 0x69], 11) := by decide

/-! The tie to the Go source (the theorems `C04_…_is_source…` over the regenerated translation
`Mqtt.Generated.Xlate`) is in `Properties/C04Source.lean`, which nothing imports. -/

end Mqtt.Properties.C04
