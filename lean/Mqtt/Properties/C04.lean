/-
C04 — decoders are total: never a panic, never a byte outside the input.

Property theorems only (helper lemmas: `Proofs/Codec*.lean`).
-/
import Mqtt.Model.Codec
import Mqtt.Spec.Wire

namespace Mqtt.Properties.C04

open Mqtt.Model.Codec Mqtt.Iface.Codec

/-- `readLPBytes` never indexes outside the buffer it was given. -/
theorem readLPBytes_total (buf : Bytes) : readLPBytes buf ≠ .panic := by
  unfold readLPBytes
  split
  · dsimp only
    split
    · simp
    · rename_i h
      simp only [slice]
      rw [if_pos (by omega)]
      simp [Outcome.bind]
  · simp

end Mqtt.Properties.C04
